(* The sample points the executable model evaluates (start + d (2k+1)/(2n), reduced fractions) give the same Cartesian
   cells as the literal formula of the code (start + direction * t with direction = d / length, t = (k + 1/2) length / n). *)
Require Import Cherab.Common.Qx.
Require Import Cherab.Model.C10_RayTransfer Cherab.Proofs.C10_Chord.
From Coq Require Import Qround Lqa.
Open Scope Q_scope.

Lemma ctrunc_opp q : ctrunc (- q) = (- ctrunc q)%Z.
Proof. destruct q as [a d]. unfold ctrunc, Qopp. cbn [Qnum Qden]. apply Z.quot_opp_l. discriminate. Qed.

(* the C cast depends only on the value of the fraction, not on its representation *)
Lemma ctrunc_comp q q' : q == q' -> ctrunc q = ctrunc q'.
Proof.
  intros E. destruct (Qlt_le_dec q 0) as [Hn|Hp].
  - assert (Hq : 0 <= - q) by lra. assert (Hq' : 0 <= - q') by lra.
    assert (E' : - q == - q') by (rewrite E; reflexivity).
    pose proof (ctrunc_nonneg _ Hq) as A. pose proof (ctrunc_nonneg _ Hq') as B.
    rewrite ctrunc_opp in A, B. rewrite (Qfloor_comp _ _ E') in A. lia.
  - assert (Hp' : 0 <= q') by lra.
    rewrite (ctrunc_nonneg _ Hp), (ctrunc_nonneg _ Hp'). apply Qfloor_comp. exact E.
Qed.

Lemma cart_cell_comp steps x y z x' y' z' : x == x' -> y == y' -> z == z' ->
  cart_cell steps (x, y, z) = cart_cell steps (x', y', z').
Proof.
  intros Ex Ey Ez. destruct steps as [[dx dy] dz]. unfold cart_cell.
  rewrite (ctrunc_comp (x / dx) (x' / dx)) by (rewrite Ex; reflexivity).
  rewrite (ctrunc_comp (y / dy) (y' / dy)) by (rewrite Ey; reflexivity).
  rewrite (ctrunc_comp (z / dz) (z' / dz)) by (rewrite Ez; reflexivity).
  reflexivity.
Qed.

Lemma cart_cells_fast_eq steps start d len (n : Z) : ~ len == 0 -> (0 < n)%Z ->
  map (cart_cell steps) (sample_points_lam start d n) =
  map (cart_cell steps) (sample_points start (vscale (/ len) d) (dt_of len n) n).
Proof.
  intros Hl Hn. unfold sample_points_lam, sample_points. rewrite !map_map. apply map_ext. intros k.
  destruct start as [[s1 s2] s3], d as [[d1 d2] d3]. unfold point_lam, vscale, point_at.
  apply cart_cell_comp; symmetry; apply point_lam_literal; assumption.
Qed.

(* hence the one-step bound holds for the cells the executable model (the one run against the implementation) computes *)
Require Import Cherab.Proofs.C10_Cart.
From Coq Require Import Qabs.

Lemma integrate_cells_cart_error dx dy dz s1 s2 s3 e1 e2 e3 len stp ms (c : cell) :
  0 < dx -> 0 < dy -> 0 < dz -> 0 < len -> (1 <= ms)%Z ->
  let n := nsamples ms len stp in
  let d1 := / len * (e1 - s1) in let d2 := / len * (e2 - s2) in let d3 := / len * (e3 - s3) in
  (forall t, 0 <= t -> t <= len -> 0 <= s1 + d1 * t /\ 0 <= s2 + d2 * t /\ 0 <= s3 + d3 * t) ->
  Qabs (dt_of len n * inject_Z (countp (cell_eqb c)
                                  (integrate_cells (cart_cell (dx, dy, dz)) (s1, s2, s3) (e1, e2, e3) len stp ms))
        - chord_cart (dx, dy, dz) (s1, s2, s3) (d1, d2, d3) len c) <= dt_of len n.
Proof.
  intros Hdx Hdy Hdz Hl Hm n d1 d2 d3 Hpos.
  assert (Hn : (1 <= n)%Z) by (unfold n, nsamples; lia).
  unfold integrate_cells. fold n.
  rewrite (cart_cells_fast_eq (dx, dy, dz) (s1, s2, s3) (vsub (e1, e2, e3) (s1, s2, s3)) len n) by (try lra; lia).
  cbn [vsub vscale]. fold d1 d2 d3.
  replace n with (Z.of_nat (Z.to_nat n)) by lia.
  apply (cart_cell_error dx dy dz s1 s2 s3 d1 d2 d3 len (Z.to_nat n) Hdx Hdy Hdz Hl ltac:(lia) Hpos c).
Qed.
