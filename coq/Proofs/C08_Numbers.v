(* C08 -- text -> number: on tokens of the shapes the FORTRAN formats print (In: blank-padded digits; Fw.d: [-]ddd.ddd;
   1PEw.d / 1PDw.d after the D->E replacement: [-]d.dddE[+-]dd) the models' parse_int / parse_float return the decimal value
   of the printed digits (Horner evaluation), exactly.  What stays outside Coq is only that CPython's float() returns the
   double nearest to that decimal value. *)
Require Import Cherab.Common.Qx.
Require Import Cherab.Model.C08_Text.
From Coq Require Import Ascii String.
Open Scope Z_scope.

Definition digitc (c : ascii) : Prop := is_digit c = true.
Fixpoint horner (acc : Z) (ds : str) : Z :=
  match ds with [] => acc | c :: t => horner (10 * acc + digit_val c) t end.

Lemma digit_facts : forall c, is_digit c = true ->
  is_ws c = false /\ aeqb c "-"%char = false /\ aeqb c "+"%char = false /\ aeqb c "."%char = false.
Proof. intros c; destruct c as [[] [] [] [] [] [] [] []]; vm_compute; intuition congruence. Qed.

Lemma aeqb_refl c : aeqb c c = true.
Proof. apply Ascii.eqb_refl. Qed.
Lemma digit_not_ws c : digitc c -> is_ws c = false.
Proof. intro H. apply (proj1 (digit_facts c H)). Qed.
Lemma digit_split_sign c t : digitc c -> split_sign (c :: t) = (false, c :: t).
Proof. intro H. destruct (digit_facts c H) as (_ & H1 & H2 & _). cbn [split_sign]. rewrite H1, H2. reflexivity. Qed.

Lemma e_not_digit : forall c, aeqb (lower c) "e"%char = true -> is_digit c = false.
Proof. intros c; destruct c as [[] [] [] [] [] [] [] []]; vm_compute; intuition congruence. Qed.

Lemma digits_val_horner : forall ds acc, Forall digitc ds -> digits_val acc ds = Some (horner acc ds).
Proof.
  induction ds as [|c ds IH]; intros acc H; [reflexivity|].
  inversion H as [|x l Hc Hl]; subst. cbn [digits_val horner]. rewrite Hc. apply IH. exact Hl.
Qed.

Lemma all_digits_horner s d : Forall digitc (s ++ [d]) -> all_digits (s ++ [d]) = Some (horner 0 (s ++ [d])).
Proof.
  intro H. unfold all_digits. destruct (s ++ [d]) eqn:E; [destruct s; discriminate|]. apply digits_val_horner. exact H.
Qed.

Lemma span_digits_app : forall ds r, Forall digitc ds ->
  match r with [] => True | c :: _ => is_digit c = false end -> span_digits (ds ++ r) = (ds, r).
Proof.
  induction ds as [|c ds IH]; intros r H Hr.
  - destruct r as [|c r]; [reflexivity|]. cbn [app span_digits]. rewrite Hr. reflexivity.
  - inversion H as [|x l Hc Hl]; subst. cbn [app span_digits]. rewrite Hc. rewrite (IH r Hl Hr). reflexivity.
Qed.

Lemma lstrip_id c t : is_ws c = false -> lstrip (c :: t) = c :: t.
Proof. intro H. cbn [lstrip]. rewrite H. reflexivity. Qed.

Lemma rstrip_snoc s d : is_ws d = false -> rstrip (s ++ [d]) = s ++ [d].
Proof. intro H. unfold rstrip. rewrite rev_unit. rewrite lstrip_id by exact H. cbn [rev]. rewrite rev_involutive. reflexivity. Qed.

Lemma lstrip_pad : forall pad s, Forall (fun c => is_ws c = true) pad -> lstrip (pad ++ s) = lstrip s.
Proof. induction pad as [|c pad IH]; intros s H; [reflexivity|]. inversion H; subst. cbn [app lstrip]. rewrite H2. apply IH. assumption. Qed.

(* In : blanks, then one or more digits *)
Theorem parse_int_digits : forall pad ds d,
  Forall (fun c => is_ws c = true) pad -> Forall digitc ds -> digitc d ->
  parse_int (pad ++ ds ++ [d]) = Some (horner 0 (ds ++ [d])).
Proof.
  intros pad ds d Hpad Hds Hd. unfold parse_int.
  assert (Hall : Forall digitc (ds ++ [d])) by (apply Forall_app; split; [assumption | constructor; [assumption | constructor]]).
  assert (Hs : strip (pad ++ ds ++ [d]) = ds ++ [d]).
  { unfold strip. rewrite lstrip_pad by assumption.
    assert (Hl : lstrip (ds ++ [d]) = ds ++ [d]).
    { destruct ds as [|c ds]; cbn [app]; apply lstrip_id; apply digit_not_ws; [exact Hd | inversion Hds; assumption]. }
    rewrite Hl. apply rstrip_snoc. apply digit_not_ws. exact Hd. }
  rewrite Hs.
  assert (Hsg : split_sign (ds ++ [d]) = (false, ds ++ [d])).
  { destruct ds as [|c ds]; cbn [app]; apply digit_split_sign; [exact Hd | inversion Hds; assumption]. }
  rewrite Hsg. cbv beta iota.
  rewrite all_digits_horner by assumption. reflexivity.
Qed.

Definition sgn (neg : bool) : str := if neg then ["-"%char] else [].
Definition signed (neg : bool) (v : Q) : Q := if neg then Qopp v else v.

(* Fw.d : [-] digits . digits  (at least one digit on each side) *)
Theorem parse_float_fixed : forall neg i0 ip fp d,
  digitc i0 -> Forall digitc ip -> Forall digitc fp -> digitc d ->
  parse_float (sgn neg ++ (i0 :: ip) ++ "."%char :: fp ++ [d]) =
  Some (Qred (signed neg (inject_Z (horner 0 ((i0 :: ip) ++ fp ++ [d])) * Qpower (10 # 1) (0 - Z.of_nat (List.length (fp ++ [d])))))).
Proof.
  intros neg i0 ip fp d Hi0 Hip Hfp Hd. unfold parse_float.
  set (body := (i0 :: ip) ++ "."%char :: fp ++ [d]).
  assert (Hfpd : Forall digitc (fp ++ [d])) by (apply Forall_app; split; [assumption | constructor; [assumption | constructor]]).
  assert (Hs : strip (sgn neg ++ body) = sgn neg ++ body).
  { unfold strip, body.
    assert (Hl : lstrip (sgn neg ++ (i0 :: ip) ++ "."%char :: fp ++ [d]) = sgn neg ++ (i0 :: ip) ++ "."%char :: fp ++ [d]).
    { destruct neg; cbn [sgn app]; apply lstrip_id; [reflexivity | apply digit_not_ws; exact Hi0]. }
    rewrite Hl.
    replace (sgn neg ++ (i0 :: ip) ++ "."%char :: fp ++ [d]) with ((sgn neg ++ (i0 :: ip) ++ "."%char :: fp) ++ [d])
      by (rewrite <- !app_assoc; cbn [app]; rewrite <- ?app_assoc; reflexivity).
    apply rstrip_snoc. apply digit_not_ws. exact Hd. }
  rewrite Hs.
  assert (Hsg : split_sign (sgn neg ++ body) = (neg, body)).
  { destruct neg; cbn [sgn app]; [reflexivity|]. unfold body. cbn [app]. apply digit_split_sign. exact Hi0. }
  rewrite Hsg. cbv beta iota. unfold body.
  rewrite (span_digits_app (i0 :: ip) ("."%char :: fp ++ [d])) by (try (constructor; assumption); reflexivity).
  cbv beta iota. rewrite aeqb_refl. cbv beta iota.
  rewrite <- (app_nil_r (fp ++ [d])) at 1. rewrite (span_digits_app (fp ++ [d]) []) by (assumption || exact I).
  cbv beta iota. cbn [app].
  rewrite digits_val_horner by (constructor; [assumption | apply Forall_app; split; assumption]).
  cbv beta iota. destruct neg; reflexivity.
Qed.

(* 1PEw.d : [-] d . digits E [+-] digits *)
Theorem parse_float_exp : forall (neg : bool) i0 ip fp ec (eneg : bool) esign ed e0,
  digitc i0 -> Forall digitc ip -> Forall digitc fp -> aeqb (lower ec) "e"%char = true ->
  esign = (if eneg then ["-"%char] else ["+"%char]) -> Forall digitc ed -> digitc e0 ->
  parse_float (sgn neg ++ (i0 :: ip) ++ "."%char :: fp ++ ec :: esign ++ ed ++ [e0]) =
  Some (Qred (signed neg (inject_Z (horner 0 ((i0 :: ip) ++ fp)) *
                          Qpower (10 # 1) ((if eneg then - horner 0 (ed ++ [e0]) else horner 0 (ed ++ [e0])) - Z.of_nat (List.length fp))))).
Proof.
  intros neg i0 ip fp ec eneg esign ed e0 Hi0 Hip Hfp Hec Hes Hed He0. unfold parse_float.
  set (tail := ec :: esign ++ ed ++ [e0]).
  set (body := (i0 :: ip) ++ "."%char :: fp ++ tail).
  assert (Hede : Forall digitc (ed ++ [e0])) by (apply Forall_app; split; [assumption | constructor; [assumption | constructor]]).
  assert (Hs : strip (sgn neg ++ body) = sgn neg ++ body).
  { unfold strip.
    assert (Hl : lstrip (sgn neg ++ body) = sgn neg ++ body).
    { unfold body. destruct neg; cbn [sgn app]; apply lstrip_id; [reflexivity | apply digit_not_ws; exact Hi0]. }
    rewrite Hl. unfold body, tail.
    replace (sgn neg ++ (i0 :: ip) ++ "."%char :: fp ++ ec :: esign ++ ed ++ [e0])
      with ((sgn neg ++ (i0 :: ip) ++ "."%char :: fp ++ ec :: esign ++ ed) ++ [e0]).
    - apply rstrip_snoc. apply digit_not_ws. exact He0.
    - rewrite <- !app_assoc. cbn [app]. do 2 f_equal. rewrite <- !app_assoc. cbn [app]. do 2 f_equal. rewrite <- !app_assoc. reflexivity. }
  rewrite Hs.
  assert (Hsg : split_sign (sgn neg ++ body) = (neg, body)).
  { destruct neg; cbn [sgn app]; [reflexivity|]. unfold body. cbn [app]. apply digit_split_sign. exact Hi0. }
  rewrite Hsg. cbv beta iota. unfold body.
  rewrite (span_digits_app (i0 :: ip) ("."%char :: fp ++ tail)) by (try (constructor; assumption); reflexivity).
  cbv beta iota. rewrite aeqb_refl. cbv beta iota.
  rewrite (span_digits_app fp tail) by (try assumption; unfold tail; apply e_not_digit; exact Hec).
  cbv beta iota. cbn [app].
  rewrite digits_val_horner by (constructor; [assumption | apply Forall_app; split; assumption]).
  unfold tail. cbv beta iota. rewrite Hec.
  assert (Hsg2 : split_sign (esign ++ ed ++ [e0]) = (eneg, ed ++ [e0])) by (subst esign; destruct eneg; reflexivity).
  rewrite Hsg2. cbv beta iota.
  rewrite all_digits_horner by assumption.
  destruct neg, eneg; reflexivity.
Qed.
