(* C16: the spectral range covers every pixel; the bin width is bounded by narrowest pixel / min bins. *)
Require Import Cherab.Common.Qx.
Require Import Cherab.Model.C16_Instruments.
From Coq Require Import Qround Lqa.
Open Scope Q_scope.

Lemma qle_bool_false a b : Qle_bool a b = false -> b < a.
Proof. intros H. apply Qnot_le_lt. intros L. apply Qle_bool_iff in L. congruence. Qed.

Lemma qmin_le_l a b : qmin a b <= a.
Proof. unfold qmin. destruct (Qle_bool a b) eqn:E; [apply Qle_refl|apply Qlt_le_weak, qle_bool_false, E]. Qed.
Lemma qmin_le_r a b : qmin a b <= b.
Proof. unfold qmin. destruct (Qle_bool a b) eqn:E; [apply Qle_bool_iff, E|apply Qle_refl]. Qed.
Lemma qmax_ge_l a b : a <= qmax a b.
Proof. unfold qmax. destruct (Qle_bool a b) eqn:E; [apply Qle_bool_iff, E|apply Qle_refl]. Qed.
Lemma qmax_ge_r a b : b <= qmax a b.
Proof. unfold qmax. destruct (Qle_bool a b) eqn:E; [apply Qle_refl|apply Qlt_le_weak, qle_bool_false, E]. Qed.
Lemma qmin_case a b : qmin a b = a \/ qmin a b = b.
Proof. unfold qmin. destruct (Qle_bool a b); auto. Qed.

Lemma qmin_list_le l : forall m, qmin_list l = Some m -> forall x, In x l -> m <= x.
Proof.
  induction l as [|a t IH]; intros m Hm x Hx; [destruct Hx|].
  cbn in Hm. destruct (qmin_list t) as [mt|] eqn:Et.
  - injection Hm as <-. destruct Hx as [<-|Hx]; [apply qmin_le_l|].
    eapply Qle_trans; [apply qmin_le_r|]. apply (IH mt eq_refl x Hx).
  - injection Hm as <-. destruct t; [|cbn in Et; destruct (qmin_list t); discriminate].
    destruct Hx as [<-|[]]. apply Qle_refl.
Qed.

Lemma qmax_list_ge l : forall m, qmax_list l = Some m -> forall x, In x l -> x <= m.
Proof.
  induction l as [|a t IH]; intros m Hm x Hx; [destruct Hx|].
  cbn in Hm. destruct (qmax_list t) as [mt|] eqn:Et.
  - injection Hm as <-. destruct Hx as [<-|Hx]; [apply qmax_ge_l|].
    eapply Qle_trans; [|apply qmax_ge_r]. apply (IH mt eq_refl x Hx).
  - injection Hm as <-. destruct t; [|cbn in Et; destruct (qmax_list t); discriminate].
    destruct Hx as [<-|[]]. apply Qle_refl.
Qed.

Lemma qmin_list_in l : forall m, qmin_list l = Some m -> In m l.
Proof.
  induction l as [|a t IH]; intros m Hm; [discriminate|].
  cbn in Hm. destruct (qmin_list t) as [mt|] eqn:Et.
  - injection Hm as <-. destruct (qmin_case a mt) as [->| ->]; [left; reflexivity|right; apply IH; reflexivity].
  - injection Hm as <-. left; reflexivity.
Qed.

Lemma increasing_cons' a b t : increasing (a :: b :: t) = true -> a < b /\ increasing (b :: t) = true.
Proof.
  cbn. intros H. apply andb_prop in H as [H1 H2]. split; [|exact H2].
  apply negb_true_iff in H1. apply qle_bool_false, H1.
Qed.

(* an increasing array lies between its first and its last entry *)
Lemma increasing_bounds l : increasing l = true -> forall x, In x l -> hd 0 l <= x /\ x <= last l 0.
Proof.
  induction l as [|a t IH]; intros Hinc x Hx; [destruct Hx|].
  destruct t as [|b t'].
  - destruct Hx as [<-|[]]. cbn. split; apply Qle_refl.
  - destruct (increasing_cons' _ _ _ Hinc) as [Hab Hinc'].
    change (last (a :: b :: t') 0) with (last (b :: t') 0). change (hd 0 (a :: b :: t')) with a.
    destruct (IH Hinc' b (or_introl eq_refl)) as [_ Hbl]. cbn in Hbl |- *.
    destruct Hx as [<-|Hx].
    + split; [apply Qle_refl|]. eapply Qle_trans; [apply Qlt_le_weak, Hab|exact Hbl].
    + destruct (IH Hinc' x Hx) as [H1 H2]. cbn in H1. split; [|exact H2].
      eapply Qle_trans; [apply Qlt_le_weak, Hab|exact H1].
Qed.

Lemma valid_arr_inc a : valid_arr a = true -> increasing a = true.
Proof. unfold valid_arr. intros H. apply andb_prop in H. tauto. Qed.

Lemma pixels_in l : forall x y, In (x, y) (pixels l) -> In x l /\ In y l.
Proof.
  induction l as [|a t IH]; intros x y H; [destruct H|].
  destruct t as [|b t']; [destruct H|].
  destruct H as [E|H]; [injection E as <- <-; split; [left|right; left]; reflexivity|].
  destruct (IH x y H). split; right; assumption.
Qed.

Lemma pixels_pos l : increasing l = true -> forall x y, In (x, y) (pixels l) -> x < y.
Proof.
  induction l as [|a t IH]; intros Hinc x y H; [destruct H|].
  destruct t as [|b t']; [destruct H|].
  destruct (increasing_cons' _ _ _ Hinc) as [Hab Hinc'].
  destruct H as [E|H]; [injection E as <- <-; exact Hab|]. apply IH; assumption.
Qed.

Lemma pixels_diffs rnd l : forall x y, In (x, y) (pixels l) -> In (rnd (y - x)) (diffs rnd l).
Proof.
  induction l as [|a t IH]; intros x y H; [destruct H|].
  destruct t as [|b t']; [destruct H|].
  destruct H as [E|H]; [injection E as <- <-; left; reflexivity|]. right. apply IH, H.
Qed.

Lemma diffs_pixels rnd l : forall d, In d (diffs rnd l) -> exists x y, In (x, y) (pixels l) /\ d = rnd (y - x).
Proof.
  induction l as [|a t IH]; intros d H; [destruct H|].
  destruct t as [|b t']; [destruct H|].
  destruct H as [<-|H]; [exists a, b; split; [left|]; reflexivity|].
  destruct (IH d H) as (x & y & Hp & E). exists x, y. split; [right; exact Hp|exact E].
Qed.

Section Derive.
Variable rnd : Q -> Q.

Lemma sp_derive_inv mbpp w2p mn mx :
  d_min (sp_derive rnd mbpp w2p) = Some (Fin mn) -> d_max (sp_derive rnd mbpp w2p) = Some (Fin mx) ->
  exists mw, qmin_list (map (fun a => hd 0 a) w2p) = Some mn /\ qmax_list (map (fun a => last a 0) w2p) = Some mx
   /\ qmin_list (flat_map (diffs rnd) w2p) = Some mw
   /\ d_bins (sp_derive rnd mbpp w2p) = Some (nbins rnd mn mx (rnd (mw / inject_Z mbpp))).
Proof.
  unfold sp_derive.
  destruct (qmin_list (map (fun a => hd 0 a) w2p)) as [a|]; [|discriminate].
  destruct (qmax_list (map (fun a => last a 0) w2p)) as [b|]; [|discriminate].
  destruct (qmin_list (flat_map (diffs rnd) w2p)) as [c|]; [|discriminate].
  cbn. intros E1 E2. injection E1 as <-. injection E2 as <-. exists c. auto.
Qed.

(* the spectral range covers every pixel of every accommodated spectrum *)
Lemma range_covers_pixels mbpp w2p mn mx :
  forallb valid_arr w2p = true ->
  d_min (sp_derive rnd mbpp w2p) = Some (Fin mn) -> d_max (sp_derive rnd mbpp w2p) = Some (Fin mx) ->
  forall a, In a w2p -> forall x, In x a -> mn <= x /\ x <= mx.
Proof.
  intros Hv E1 E2 a Ha x Hx.
  destruct (sp_derive_inv _ _ _ _ E1 E2) as (mw & Hmn & Hmx & _).
  rewrite forallb_forall in Hv. pose proof (valid_arr_inc _ (Hv a Ha)) as Hinc.
  destruct (increasing_bounds a Hinc x Hx) as [H1 H2]. split.
  - eapply Qle_trans; [|exact H1]. apply (qmin_list_le _ _ Hmn). apply in_map_iff. exists a. auto.
  - eapply Qle_trans; [exact H2|]. apply (qmax_list_ge _ _ Hmx). apply in_map_iff. exists a. auto.
Qed.

End Derive.

Lemma inject_Z_pos n : 0 < inject_Z n -> (0 < n)%Z.
Proof. unfold Qlt, inject_Z. cbn. lia. Qed.
Lemma inject_Z_pos' n : (0 < n)%Z -> 0 < inject_Z n.
Proof. unfold Qlt, inject_Z. cbn. lia. Qed.

(* exact arithmetic: (max - min) / bins <= (narrowest pixel) / min_bins_per_pixel *)
Lemma bin_width_bound mbpp w2p mn mx n :
  forallb valid_arr w2p = true -> (0 < mbpp)%Z ->
  d_min (sp_derive exact mbpp w2p) = Some (Fin mn) -> d_max (sp_derive exact mbpp w2p) = Some (Fin mx) ->
  d_bins (sp_derive exact mbpp w2p) = Some n ->
  forall a, In a w2p -> forall x y, In (x, y) (pixels a) ->
  (0 < n)%Z /\ (mx - mn) / inject_Z n <= (y - x) / inject_Z mbpp.
Proof.
  intros Hv Hm E1 E2 E3 a Ha x y Hp.
  destruct (sp_derive_inv _ _ _ _ _ E1 E2) as (mw & Hmn & Hmx & Hmw & Hb).
  rewrite Hb in E3. injection E3 as <-.
  pose proof (range_covers_pixels exact mbpp w2p mn mx Hv E1 E2 a Ha) as Hcov.
  rewrite forallb_forall in Hv. pose proof (valid_arr_inc _ (Hv a Ha)) as Hinc.
  pose proof (pixels_pos a Hinc x y Hp) as Hxy.
  destruct (pixels_in a x y Hp) as [Hxa Hya].
  destruct (Hcov x Hxa) as [Hmnx _]. destruct (Hcov y Hya) as [_ Hymx].
  (* the narrowest pixel *)
  assert (mw <= y - x) as Hmwle.
  { apply (qmin_list_le _ _ Hmw). apply in_flat_map. exists a. split; [exact Ha|].
    apply (pixels_diffs exact a x y Hp). }
  assert (0 < mw) as Hmwpos.
  { pose proof (qmin_list_in _ _ Hmw) as Hin. apply in_flat_map in Hin as (a' & Ha' & Hd).
    destruct (diffs_pixels exact a' mw Hd) as (x' & y' & Hp' & ->). unfold exact.
    pose proof (pixels_pos a' (valid_arr_inc _ (Hv a' Ha')) x' y' Hp') as Hlt. lra. }
  pose proof (inject_Z_pos' mbpp Hm) as Hmq.
  unfold nbins, exact.
  set (step := mw / inject_Z mbpp).
  assert (0 < step) as Hstep.
  { unfold step, Qdiv. apply Qmult_lt_0_compat; [exact Hmwpos|apply Qinv_lt_0_compat, Hmq]. }
  assert (0 < mx - mn) as HD by lra.
  set (r := (mx - mn) / step).
  assert (0 < r) as Hr.
  { unfold r, Qdiv. apply Qmult_lt_0_compat; [exact HD|apply Qinv_lt_0_compat, Hstep]. }
  pose proof (Qle_ceiling r) as Hc.
  assert (0 < inject_Z (Qceiling r)) as Hnq by (eapply Qlt_le_trans; [exact Hr|exact Hc]).
  split; [apply inject_Z_pos, Hnq|].
  apply Qle_trans with step.
  - apply Qle_shift_div_r; [exact Hnq|].
    assert (mx - mn == r * step) as -> by (unfold r; field; intros E; rewrite E in Hstep; exact (Qlt_irrefl _ Hstep)).
    rewrite (Qmult_comm step). apply Qmult_le_compat_r; [exact Hc|apply Qlt_le_weak, Hstep].
  - unfold step, Qdiv. apply Qmult_le_compat_r; [exact Hmwle|apply Qlt_le_weak, Qinv_lt_0_compat, Hmq].
Qed.

(* ---- the same bound for rounded arithmetic with relative error u per operation ---- *)
Lemma mul_le_l (k a b : Q) : 0 <= k -> a <= b -> k * a <= k * b.
Proof. intros. rewrite !(Qmult_comm k). apply Qmult_le_compat_r; assumption. Qed.

Lemma chain (u D D' r0 r stepf q nq p : Q) :
  0 <= u -> u < 1 -> 0 < D -> (1-u)*D <= D' -> r0 * stepf == D' -> 0 < stepf -> (1-u)*r0 <= r -> r <= nq ->
  stepf <= (1+u)*q -> q <= (1+u)*p -> 0 <= nq ->
  (1-u)*(1-u)*D <= nq*((1+u)*(1+u)*p).
Proof.
  intros Hu0 Hu1 HD HD' Hr0 Hs Hr Hn Hsq Hqp Hnq.
  assert ((1-u)*((1-u)*D) <= (1-u)*D') as A by (apply mul_le_l; [lra|exact HD']).
  assert ((1-u)*D' <= r*stepf) as B.
  { rewrite <- Hr0. setoid_replace ((1-u)*(r0*stepf)) with (((1-u)*r0)*stepf) by ring.
    apply Qmult_le_compat_r; [exact Hr|lra]. }
  assert (r*stepf <= nq*stepf) as C by (apply Qmult_le_compat_r; [exact Hn|lra]).
  assert (nq*stepf <= nq*((1+u)*q)) as E by (apply mul_le_l; assumption).
  assert (nq*((1+u)*q) <= nq*((1+u)*((1+u)*p))) as F.
  { apply mul_le_l; [assumption|]. apply mul_le_l; [lra|assumption]. }
  setoid_replace ((1-u)*(1-u)*D) with ((1-u)*((1-u)*D)) by ring.
  setoid_replace (nq*((1+u)*(1+u)*p)) with (nq*((1+u)*((1+u)*p))) by ring.
  lra.
Qed.

Section Float.
Variable rnd : Q -> Q.
Variable u : Q.
Hypothesis Hu0 : 0 <= u.
Hypothesis Hu1 : u < 1.
Hypothesis Hrnd : forall x, 0 <= x -> (1 - u) * x <= rnd x /\ rnd x <= (1 + u) * x.

Lemma rnd_pos x : 0 < x -> 0 < rnd x.
Proof.
  intros Hx. destruct (Hrnd x (Qlt_le_weak _ _ Hx)) as [H _].
  eapply Qlt_le_trans; [|exact H]. apply Qmult_lt_0_compat; lra.
Qed.

Lemma bin_width_bound_float mbpp w2p mn mx n :
  forallb valid_arr w2p = true -> (0 < mbpp)%Z ->
  d_min (sp_derive rnd mbpp w2p) = Some (Fin mn) -> d_max (sp_derive rnd mbpp w2p) = Some (Fin mx) ->
  d_bins (sp_derive rnd mbpp w2p) = Some n ->
  forall a, In a w2p -> forall x y, In (x, y) (pixels a) ->
  (0 < n)%Z /\
  (1 - u) * (1 - u) * (mx - mn) <= inject_Z n * ((1 + u) * (1 + u) * ((y - x) / inject_Z mbpp)).
Proof.
  intros Hv Hm E1 E2 E3 a Ha x y Hp.
  destruct (sp_derive_inv _ _ _ _ _ E1 E2) as (mw & Hmn & Hmx & Hmw & Hb).
  rewrite Hb in E3. injection E3 as <-.
  pose proof (range_covers_pixels rnd mbpp w2p mn mx Hv E1 E2 a Ha) as Hcov.
  rewrite forallb_forall in Hv. pose proof (valid_arr_inc _ (Hv a Ha)) as Hinc.
  pose proof (pixels_pos a Hinc x y Hp) as Hxy.
  destruct (pixels_in a x y Hp) as [Hxa Hya].
  destruct (Hcov x Hxa) as [Hmnx _]. destruct (Hcov y Hya) as [_ Hymx].
  assert (mw <= (1 + u) * (y - x)) as Hmwle.
  { eapply Qle_trans; [|apply (Hrnd (y - x)); lra].
    apply (qmin_list_le _ _ Hmw). apply in_flat_map. exists a. split; [exact Ha|].
    apply (pixels_diffs rnd a x y Hp). }
  assert (0 < mw) as Hmwpos.
  { pose proof (qmin_list_in _ _ Hmw) as Hin. apply in_flat_map in Hin as (a' & Ha' & Hd).
    destruct (diffs_pixels rnd a' mw Hd) as (x' & y' & Hp' & ->).
    pose proof (pixels_pos a' (valid_arr_inc _ (Hv a' Ha')) x' y' Hp') as Hlt. apply rnd_pos. lra. }
  pose proof (inject_Z_pos' mbpp Hm) as Hmq.
  assert (0 < / inject_Z mbpp) as Hinv by (apply Qinv_lt_0_compat, Hmq).
  unfold nbins.
  set (q := mw / inject_Z mbpp).
  assert (0 < q) as Hq by (unfold q, Qdiv; apply Qmult_lt_0_compat; assumption).
  set (stepf := rnd q).
  assert (0 < stepf) as Hstep by (apply rnd_pos, Hq).
  assert (stepf <= (1 + u) * q) as Hsq by (apply (Hrnd q); lra).
  assert (q <= (1 + u) * ((y - x) / inject_Z mbpp)) as Hqp.
  { unfold q, Qdiv. rewrite Qmult_assoc. apply Qmult_le_compat_r; [exact Hmwle|lra]. }
  assert (0 < mx - mn) as HD by lra.
  set (D' := rnd (mx - mn)).
  assert ((1 - u) * (mx - mn) <= D') as HD' by (apply (Hrnd (mx - mn)); lra).
  assert (0 < D') as HD'pos by (apply rnd_pos, HD).
  set (r0 := D' / stepf).
  assert (0 < r0) as Hr0 by (unfold r0, Qdiv; apply Qmult_lt_0_compat; [exact HD'pos|apply Qinv_lt_0_compat, Hstep]).
  assert (r0 * stepf == D') as Hr0s by (unfold r0; field; intros E; rewrite E in Hstep; exact (Qlt_irrefl _ Hstep)).
  set (r := rnd r0).
  assert ((1 - u) * r0 <= r) as Hr by (apply (Hrnd r0); lra).
  assert (0 < r) as Hrpos by (apply rnd_pos, Hr0).
  pose proof (Qle_ceiling r) as Hc.
  assert (0 < inject_Z (Qceiling r)) as Hnq by (eapply Qlt_le_trans; [exact Hrpos|exact Hc]).
  split; [apply inject_Z_pos, Hnq|].
  apply (chain u (mx - mn) D' r0 r stepf q (inject_Z (Qceiling r)) ((y - x) / inject_Z mbpp)); try assumption.
  apply Qlt_le_weak, Hnq.
Qed.

End Float.
