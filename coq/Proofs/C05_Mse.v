(* The Stark multiplet distributes exactly the radiance it is given. *)
Require Import Cherab.Common.Qx.
Require Import Cherab.Model.C05_Mse.
From Coq Require Import Lqa.
Open Scope Q_scope.

Lemma mse_total radiance r :
  ~ 1 + r_s2p r == 0 -> ~ r_s1s0 r + 1 == 0 -> ~ 1 + r_p2p3 r + r_p4p3 r == 0 ->
  Qsum (map snd (mse_components radiance r)) == radiance.
Proof.
  intros H1 H2 H3. unfold mse_components. cbn [map snd Qsum]. field. auto.
Qed.

(* the sigma group carries s/(1+s) of the radiance, the pi group 1/(1+s) *)
Lemma mse_groups radiance r :
  ~ 1 + r_s2p r == 0 -> ~ r_s1s0 r + 1 == 0 -> ~ 1 + r_p2p3 r + r_p4p3 r == 0 ->
  within 1 (mse_components radiance r) == r_s2p r / (1 + r_s2p r) * radiance /\
  within 4 (mse_components radiance r) - within 1 (mse_components radiance r) == 1 / (1 + r_s2p r) * radiance.
Proof.
  intros H1 H2 H3. unfold within, mse_components. cbn [map snd Qsum filter fst Z.abs Z.leb Z.compare Pos.compare Pos.compare_cont].
  split; field; auto.
Qed.

Lemma mse_symmetric radiance r k q :
  In (k, q) (mse_components radiance r) -> exists q', In ((- k)%Z, q') (mse_components radiance r) /\ q' == q.
Proof.
  unfold mse_components. cbn [In]. intros H.
  repeat (destruct H as [H|H]; [injection H as <- <-; eexists; split; [cbn [In Z.opp]; tauto | reflexivity] |]).
  destruct H.
Qed.

Lemma mse_nonneg radiance r k q :
  0 <= radiance -> 0 <= r_s2p r -> 0 <= r_s1s0 r -> 0 <= r_p2p3 r -> 0 <= r_p4p3 r ->
  In (k, q) (mse_components radiance r) -> 0 <= q.
Proof.
  intros Hr H1 H2 H3 H4. unfold mse_components. cbn [In].
  assert (D1 : 0 <= 1 / (1 + r_s2p r)) by (apply Qle_shift_div_l; lra).
  assert (D2 : 0 <= 1 / (r_s1s0 r + 1)) by (apply Qle_shift_div_l; lra).
  assert (D3 : 0 <= 1 / (1 + r_p2p3 r + r_p4p3 r)) by (apply Qle_shift_div_l; lra).
  set (d1 := 1 / (1 + r_s2p r)) in *. set (d2 := 1 / (r_s1s0 r + 1)) in *. set (d3 := 1 / (1 + r_p2p3 r + r_p4p3 r)) in *.
  clearbody d1 d2 d3. intros H.
  repeat (destruct H as [H|H]; [injection H as _ <-; repeat apply Qmult_le_0_compat; lra |]).
  destruct H.
Qed.

Lemma mse_guards te ne radiance r :
  (te <= 0 \/ ne <= 0 -> mse_add_line te ne radiance r = []) /\
  (0 < te -> 0 < ne -> mse_add_line te ne radiance r = mse_components radiance r).
Proof.
  unfold mse_add_line. split.
  - intros [H|H].
    + apply Qle_bool_iff in H. rewrite H. reflexivity.
    + destruct (Qle_bool te 0); [reflexivity|]. apply Qle_bool_iff in H. rewrite H. reflexivity.
  - intros H1 H2.
    destruct (Qle_bool te 0) eqn:E1; [apply Qle_bool_iff in E1; lra|].
    destruct (Qle_bool ne 0) eqn:E2; [apply Qle_bool_iff in E2; lra|]. reflexivity.
Qed.

Lemma bes_line_setter_accepts is_none fam charge up lo :
  bes_line_setter is_none fam charge up lo = Accepted <->
  is_none = false /\ fam = true /\ charge = 0%Z /\ up = 3%Z /\ lo = 2%Z.
Proof.
  unfold bes_line_setter. destruct is_none; [split; [discriminate | intros [H _]; discriminate]|].
  destruct fam; cbn [negb orb].
  - destruct (Z.eqb_spec charge 0); cbn [negb orb].
    + destruct (Z.eqb_spec up 3); cbn [andb negb].
      * destruct (Z.eqb_spec lo 2); cbn [negb]; split; try discriminate; intuition congruence.
      * split; [discriminate | intuition congruence].
    + split; [discriminate | intuition congruence].
  - split; [discriminate | intuition congruence].
Qed.
