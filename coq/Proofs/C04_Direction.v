(* C04: the direction field is a unit vector and its streamlines follow the beam envelope. *)
Require Import Cherab.Common.Qx.
From Coq Require Import Lqa.
Require Import Cherab.Model.C04_Beam Cherab.Proofs.C04_Density.
Open Scope Q_scope.

Section Direction.
  Variable sqrtf : Q -> Q.
  (* what the proofs need of sqrt: it inverts squaring AT THE POINT USED (no function on Q inverts
     squaring everywhere, so the hypothesis is stated per argument) *)
  Definition sqrt_exact_at (a : Q) : Prop := sqrtf a * sqrtf a == a.

  Variable c : beam_cfg.
  Hypothesis Hsig : 0 < b_sigma c.

  Lemma sigma_sqr_pos_x z : 0 < sigma_x_sqr c z.
  Proof.
    unfold sigma_x_sqr. assert (0 < b_sigma c * b_sigma c) by (apply Qmult_lt_0_compat; assumption).
    pose proof (sqr_nonneg (z * b_tx c)) as H1.
    setoid_replace (z * z * b_tx c * b_tx c) with ((z * b_tx c) * (z * b_tx c)) by ring. lra.
  Qed.
  Lemma sigma_sqr_pos_y z : 0 < sigma_y_sqr c z.
  Proof.
    unfold sigma_y_sqr. assert (0 < b_sigma c * b_sigma c) by (apply Qmult_lt_0_compat; assumption).
    pose proof (sqr_nonneg (z * b_ty c)) as H1.
    setoid_replace (z * z * b_ty c * b_ty c) with ((z * b_ty c) * (z * b_ty c)) by ring. lra.
  Qed.

  Lemma raw_norm_pos x y z : 0 < z -> 0 < norm2 (direction_raw c x y z).
  Proof.
    intros Hz. unfold norm2, direction_raw. cbn [vx vy vz].
    pose proof (sqr_nonneg (x * (z * z * b_tx c * b_tx c) / (b_sigma c * b_sigma c + z * z * b_tx c * b_tx c))).
    pose proof (sqr_nonneg (y * (z * z * b_ty c * b_ty c) / (b_sigma c * b_sigma c + z * z * b_ty c * b_ty c))).
    assert (0 < z * z) by (apply Qmult_lt_0_compat; assumption). lra.
  Qed.

  (* |direction| = 1 everywhere *)
  Lemma direction_unit x y z :
    sqrt_exact_at (norm2 (direction_raw c x y z)) -> norm2 (direction sqrtf c x y z) == 1.
  Proof.
    intros sqrt_sqr.
    unfold direction. destruct (Qle_bool z 0) eqn:E.
    - unfold norm2; cbn [vx vy vz]. ring.
    - assert (Hz : 0 < z). { destruct (Qlt_le_dec 0 z) as [H|H]; [exact H|]. apply Qle_bool_iff in H. congruence. }
      pose proof (raw_norm_pos x y z Hz) as Hn. pose proof sqrt_sqr as Hs. unfold sqrt_exact_at in Hs.
      set (v := direction_raw c x y z) in *. set (l := sqrtf (norm2 v)) in *.
      assert (Hl : ~ l == 0). { intros El. rewrite El in Hs. lra. }
      unfold normalise, vscale, norm2 in *. cbn [vx vy vz] in *. fold l.
      setoid_replace (1 / l * vx v * (1 / l * vx v) + 1 / l * vy v * (1 / l * vy v) + 1 / l * vz v * (1 / l * vz v))
        with ((vx v * vx v + vy v * vy v + vz v * vz v) / (l * l)) by (field; exact Hl).
      rewrite Hs. field. lra.
  Qed.

  (* behind the source the direction is the beam axis *)
  Lemma direction_behind x y z : z <= 0 -> direction sqrtf c x y z = mkvec 0 0 1.
  Proof. intros H. unfold direction. apply Qle_bool_iff in H. rewrite H. reflexivity. Qed.

  (* streamline condition in algebraic form: along (dx, dy, dz) = direction_raw,
     dx * sigma_x^2 = x * (z tan_x^2) * dz   and   d(sigma_x^2)/dz = 2 z tan_x^2,
     which together say  d(x / sigma_x)/dz = 0  (and the same for y) *)
  Lemma streamline_algebraic x y z :
    vx (direction_raw c x y z) * sigma_x_sqr c z == x * (z * b_tx c * b_tx c) * vz (direction_raw c x y z) /\
    vy (direction_raw c x y z) * sigma_y_sqr c z == y * (z * b_ty c * b_ty c) * vz (direction_raw c x y z).
  Proof.
    pose proof (sigma_sqr_pos_x z) as Hx. pose proof (sigma_sqr_pos_y z) as Hy.
    unfold sigma_x_sqr, sigma_y_sqr in *. unfold direction_raw. cbn [vx vy vz].
    split; field; lra.
  Qed.

  (* sigma_x^2 is the polynomial sigma^2 + z^2 tan^2: its increment over h is h (2 z tan^2) + h^2 tan^2 *)
  Lemma sigma_sqr_increment z h :
    sigma_x_sqr c (z + h) - sigma_x_sqr c z == h * (2 * z * b_tx c * b_tx c) + h * h * (b_tx c * b_tx c) /\
    sigma_y_sqr c (z + h) - sigma_y_sqr c z == h * (2 * z * b_ty c * b_ty c) + h * h * (b_ty c * b_ty c).
  Proof. unfold sigma_x_sqr, sigma_y_sqr. split; ring. Qed.

  (* the widths used by density() are the square roots of the same polynomials *)
  Lemma sigma_consistent z :
    sqrt_exact_at (b_sigma c * b_sigma c + z * b_tx c * (z * b_tx c)) ->
    sqrt_exact_at (b_sigma c * b_sigma c + z * b_ty c * (z * b_ty c)) ->
    sigma_x sqrtf c z * sigma_x sqrtf c z == sigma_x_sqr c z /\
    sigma_y sqrtf c z * sigma_y sqrtf c z == sigma_y_sqr c z.
  Proof.
    unfold sqrt_exact_at, sigma_x, sigma_y, sigma_x_sqr, sigma_y_sqr. intros Hx Hy. rewrite Hx, Hy. split; ring.
  Qed.
End Direction.
