(* C18: the clauses of the property stated directly for the object AFTER AN ARBITRARY SETTER HISTORY, in
   terms of the parameters it reports at that moment (composition of the history theorems with the
   theorems about constructed objects). *)
Require Import Cherab.Common.Qx.
Require Import Cherab.Model.C18_Laser Cherab.Model.C18_Spectrum.
Require Import Cherab.Proofs.C18_Segments Cherab.Proofs.C18_Profile Cherab.Proofs.C18_Density Cherab.Proofs.C18_Spectrum.
From Coq Require Import Lqa.
Open Scope Q_scope.

(* the segments held by the Laser node tile the CURRENT laser_length exactly once, after any history *)
Theorem node_segments_tile_after_any_history c k a s0 ops z :
  construct c k a = Some s0 -> forallb (clean k) ops = true ->
  let s := fst (run c s0 ops) in
  let L := v_len (vals s) in
  exists l, geom s = Some l /\ tiles l L /\ Qsum (map snd l) == L /\
    (0 <= z -> z < L -> cover_count z l = 1%nat) /\ (z < 0 \/ L <= z -> cover_count z l = 0%nat).
Proof.
  intros H Hc s L.
  assert (G : good c k s) by (apply run_good; [eapply construct_good; eassumption | exact Hc]).
  destruct G as (v & p & Hv & _ & E).
  assert (Hr : 0 < v_rad v) by (apply (valid_pos k v Frad Hv); destruct k; cbn; tauto).
  assert (Hl : 0 < v_len v) by (apply (valid_pos k v Flen Hv); destruct k; cbn; tauto).
  assert (EL : L = v_len v) by (unfold L; rewrite E; destruct k, v; reflexivity).
  assert (EG : geom s = segments (v_rad v) (v_len v)) by (rewrite E; reflexivity).
  destruct (segments_tile _ _ Hr Hl) as (l & S1 & T).
  destruct (segments_cover_exactly_once (v_rad v) (v_len v) z Hr Hl) as (l' & S2 & Sum & In & Out).
  rewrite S1 in S2. inversion S2; subst l'.
  exists l. rewrite EG, EL. auto.
Qed.

Section Dens.
Variable pi s2pi3 : Q.
Variable expo sqrtf : Q -> Q.
Hypothesis Hpi : 0 < pi.
Hypothesis Hexp_add : forall a b, expo (a + b) == expo a * expo b.
Hypothesis Hexp_ext : forall a b, a == b -> expo a == expo b.
Hypothesis Hs3 : s2pi3 * s2pi3 == (2 * pi) * (2 * pi) * (2 * pi).
Hypothesis Hs3_pos : 0 < s2pi3.

(* the energy density after any history, in terms of the parameters reported after that history *)
Theorem energy_density_after_any_history c k a s0 ops x y z :
  0 < c -> construct c k a = Some s0 -> forallb (clean k) ops = true ->
  let s := fst (run c s0 ops) in
  let v := vals s in
  let phi := phi pi expo sqrtf in
  let var := beam_var pi (v_wl v) (v_wz v) (v_sw v) z in
  let ed := ed_of pi s2pi3 expo (efun s) x y z in
  (k = KUniform -> ed == v_ed v) /\
  (k = KBiv -> sqrt_at sqrtf (2 * pi * sq (v_sx v)) -> sqrt_at sqrtf (2 * pi * sq (v_sy v)) ->
     ed == v_pe v / (c * v_pl v) * (phi (sq (v_sx v)) x * phi (sq (v_sy v)) y)) /\
  (k = KBeam -> sqrt_at sqrtf (2 * pi * var) -> ed == v_pe v / (c * v_pl v) * (phi var x * phi var y)) /\
  (k = KTri -> sqrt_at sqrtf (2 * pi * sq (v_sx v)) -> sqrt_at sqrtf (2 * pi * sq (v_sy v)) ->
     sqrt_at sqrtf (2 * pi * sq (v_pl v * c)) ->
     ed == v_pe v * (phi (sq (v_sx v)) x * phi (sq (v_sy v)) y * phi (sq (v_pl v * c)) (z - v_mz v))).
Proof.
  intros Hc H Hcl s v phi0 var ed.
  pose proof (profile_history_independent c k a s0 ops H Hcl) as F. cbv zeta in F. fold s in F.
  repeat split.
  - intros ->. unfold ed. pose proof (uniform_tracks_parameter c a s0 ops H) as U. cbv zeta in U. fold s in U.
    rewrite U. reflexivity.
  - intros -> A B. exact (bivariate_density pi s2pi3 expo sqrtf Hpi Hexp_add Hexp_ext c (args_of s) s x y z F A B).
  - intros -> A. exact (beam_density pi s2pi3 expo sqrtf Hexp_add Hexp_ext c (args_of s) s x y z F A).
  - intros -> A B C. exact (trivariate_density pi s2pi3 expo sqrtf Hexp_add Hexp_ext Hs3 Hs3_pos c (args_of s) s x y z Hc F A B C).
Qed.

(* PARTIAL (same remaining hypotheses as the *_partial theorems): the integrals after any history *)
Theorem integrals_after_any_history_partial (J : (Q -> Q) -> Q) c k a s0 ops z :
  (forall f g, (forall t, f t == g t) -> J f == J g) -> (forall q f, J (fun t => q * f t) == q * J f) ->
  0 < c -> construct c k a = Some s0 -> forallb (clean k) ops = true ->
  let s := fst (run c s0 ops) in
  let v := vals s in
  ((k = KBiv \/ k = KBeam) -> cross_hyps pi expo sqrtf J k v z ->
     J (fun x => J (fun y => ed_of pi s2pi3 expo (efun s) x y z)) == v_pe v / (c * v_pl v)) /\
  (k = KTri -> volume_hyps pi expo sqrtf J c v ->
     J (fun x => J (fun y => J (fun z' => ed_of pi s2pi3 expo (efun s) x y z'))) == v_pe v).
Proof.
  intros Je Jl Hc H Hcl s v.
  pose proof (profile_history_independent c k a s0 ops H Hcl) as F. cbv zeta in F. fold s in F.
  split.
  - intros Hk Hn.
    exact (cross_section_of_constructed pi s2pi3 expo sqrtf Hpi Hexp_add Hexp_ext J Je Jl c k (args_of s) s z Hk F Hn).
  - intros -> Hn.
    exact (volume_of_constructed pi s2pi3 expo sqrtf Hexp_add Hexp_ext Hs3 Hs3_pos J Je Jl c (args_of s) s Hc F Hn).
Qed.
End Dens.

(* get_polarization returns a unit vector *)
Theorem polarisation_is_normalised len p : len * len == norm2 p -> ~ len == 0 -> norm2 (pol_eval len p) == 1.
Proof.
  destruct p as [[x y] z]. unfold norm2, pol_eval. intros H Hn.
  assert (E : x / len * (x / len) + y / len * (y / len) + z / len * (z / len) == (x * x + y * y + z * z) / (len * len))
    by (field; exact Hn).
  rewrite E, <- H. field. exact Hn.
Qed.

(* spectra after any history, in terms of the parameters reported after that history *)
Theorem spectrum_after_any_history erf sqrt2 sqrt2pi k a s0 ops :
  (forall a b, a == b -> erf a == erf b) ->
  sconstruct erf sqrt2 sqrt2pi k a = Some s0 ->
  let s := fst (srun erf sqrt2 sqrt2pi s0 ops) in
  let n := Z.to_nat (s_bins s) in
  (0 < s_min s /\ s_min s < s_max s /\ (0 < s_bins s)%Z /\ 0 < s_delta s /\
   length (s_wl s) = n /\ length (s_psd s) = n /\ length (s_pow s) = n) /\
  get_max_wavelenth s = s_max s /\ get_min_wavelenth s = s_min s /\ get_spectral_bins s = s_bins s /\
  s_delta s == (s_max s - s_min s) / inject_Z (s_bins s) /\
  (forall j, (j < n)%nat -> nth j (s_wl s) 0 == s_min s + (qn j + (1 # 2)) * s_delta s) /\
  (k = SGauss ->
     (forall j, (j < n)%nat -> nth j (s_pow s) 0 ==
        ncdf erf (s_mean s) (s_ncdf s) (s_min s + qn (S j) * s_delta s) - ncdf erf (s_mean s) (s_ncdf s) (s_min s + qn j * s_delta s)) /\
     Qsum (s_pow s) == ncdf erf (s_mean s) (s_ncdf s) (s_max s) - ncdf erf (s_mean s) (s_ncdf s) (s_min s)) /\
  (k = SConst ->
     (forall j, (j < n)%nat -> nth j (s_pow s) 0 == 1 / inject_Z (s_bins s)) /\ Qsum (s_pow s) == 1).
Proof.
  intros Hext H s n.
  pose proof (spectrum_history_independent erf sqrt2 sqrt2pi k a s0 ops H) as F. cbv zeta in F. fold s in F.
  set (b := sargs_of s) in *.
  assert (B1 : g_min b = s_min s) by reflexivity. assert (B2 : g_max b = s_max s) by reflexivity.
  assert (B3 : g_bins b = s_bins s) by reflexivity. assert (B4 : g_mean b = s_mean s) by reflexivity.
  pose proof (spectrum_invariants erf sqrt2 sqrt2pi Hext k b s F) as (I1 & I2 & I3 & I4 & I5 & I6 & I7 & _).
  split; [repeat split; assumption|]. split; [reflexivity|]. split; [reflexivity|]. split; [reflexivity|].
  split.
  { assert (0 < n)%nat by (unfold n; lia).
    destruct (wavelength_centres erf sqrt2 sqrt2pi k b s 0%nat F) as (_ & D & _); [rewrite B3; exact H0|].
    rewrite B1, B2, B3 in D. exact D. }
  split.
  { intros j Hj. destruct (wavelength_centres erf sqrt2 sqrt2pi k b s j F) as (_ & _ & W); [rewrite B3; exact Hj|].
    rewrite B1 in W. exact W. }
  split.
  - intros ->. split.
    + intros j Hj. pose proof (gaussian_bin_power_c erf sqrt2 sqrt2pi Hext b s j F) as P.
      rewrite B1, B3, B4 in P. apply P. exact Hj.
    + destruct (gaussian_power_telescopes_c erf sqrt2 sqrt2pi Hext b s F) as [T _]. rewrite B1, B2, B4 in T. exact T.
  - intros ->. split.
    + intros j Hj. destruct (constant_bin_power_c erf sqrt2 sqrt2pi Hext b s j F) as [_ P]; [rewrite B3; exact Hj|].
      rewrite B3 in P. exact P.
    + exact (constant_power_sums_to_one_c erf sqrt2 sqrt2pi Hext b s F).
Qed.
