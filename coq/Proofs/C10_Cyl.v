(* Cylindrical cells: the ring index without square root, and why a straight line meets a cell in at most two
   intervals (ring = convex set minus convex set). *)
Require Import Cherab.Common.Qx.
Require Import Cherab.Model.C10_RayTransfer Cherab.Proofs.C10_Chord Cherab.Proofs.C10_Loop Cherab.Proofs.C10_Cart.
From Coq Require Import Qround Qabs Lqa.
Open Scope Q_scope.

(* ---------------------------------------------------------------------------------------------- *)
(* ir_up: the ring index of a point with rmin^2 <= s = x^2 + y^2                                      *)
(* ---------------------------------------------------------------------------------------------- *)
Definition rb (rmin dr : Q) (i : Z) : Q := rmin + inject_Z i * dr.

Lemma rb_succ rmin dr i : rb rmin dr (i + 1) == rb rmin dr i + dr.
Proof. unfold rb. rewrite inject_Z_plus. change (inject_Z 1) with 1. ring. Qed.

Lemma ir_up_spec rmin dr s : 0 <= rmin -> 0 < dr -> forall fuel i, (0 <= i)%Z ->
  rb rmin dr i * rb rmin dr i <= s ->
  s < rb rmin dr (i + Z.of_nat fuel) * rb rmin dr (i + Z.of_nat fuel) ->
  let r := ir_up fuel i s rmin dr in
  (i <= r)%Z /\ rb rmin dr r * rb rmin dr r <= s /\ s < rb rmin dr (r + 1) * rb rmin dr (r + 1).
Proof.
  intros Hr Hd. induction fuel as [|f IH]; intros i Hi Hlo Hhi.
  - exfalso. rewrite Z.add_0_r in Hhi. lra.
  - cbn [ir_up]. fold (rb rmin dr (i + 1)).
    destruct (Qltb s (rb rmin dr (i + 1) * rb rmin dr (i + 1))) eqn:E.
    + apply Qltb_lt in E. cbv zeta. split; [lia | split; assumption].
    + apply Qltb_ge in E. cbv zeta in IH |- *.
      destruct (IH (i + 1)%Z ltac:(lia) E) as (A & B & C).
      * replace (i + 1 + Z.of_nat f)%Z with (i + Z.of_nat (S f))%Z by lia. exact Hhi.
      * split; [lia | split; assumption].
Qed.

(* ---------------------------------------------------------------------------------------------- *)
(* convexity along a straight line                                                                  *)
(* ---------------------------------------------------------------------------------------------- *)
Definition convex (P : Q -> Prop) : Prop := forall a b t, a <= t -> t <= b -> P a -> P b -> P t.

(* squared distance from the axis along p(t) = (x0 + dx t, y0 + dy t) *)
Definition rho2 (x0 dx y0 dy t : Q) : Q := (x0 + dx * t) * (x0 + dx * t) + (y0 + dy * t) * (y0 + dy * t).

Lemma rho2_convex_comb x0 dx y0 dy a b t :
  (b - a) * rho2 x0 dx y0 dy t ==
  (b - t) * rho2 x0 dx y0 dy a + (t - a) * rho2 x0 dx y0 dy b - (dx * dx + dy * dy) * ((t - a) * (b - t) * (b - a)).
Proof. unfold rho2. ring. Qed.

Lemma Qmult_le_l_weak (x y z : Q) : 0 <= z -> x <= y -> z * x <= z * y.
Proof. intros Hz H. rewrite (Qmult_comm z x), (Qmult_comm z y). apply Qmult_le_compat_r; assumption. Qed.
Lemma Qmult_lt_l_strict (x y z : Q) : 0 < z -> x < y -> z * x < z * y.
Proof. intros Hz H. apply (proj2 (Qmult_lt_l x y z Hz)). exact H. Qed.

Lemma sq_nonneg (u : Q) : 0 <= u * u.
Proof. destruct (Qlt_le_dec u 0); [setoid_replace (u * u) with ((- u) * (- u)) by ring|]; apply Qmult_le_0_compat; lra. Qed.

(* the inside of a circle is met in a convex set: { t : rho2(t) < c } *)
Lemma disc_convex x0 dx y0 dy c : convex (fun t => rho2 x0 dx y0 dy t < c).
Proof.
  intros a b t Hat Htb Ha Hb.
  destruct (Qlt_le_dec a b) as [Hab|Hba].
  - pose proof (rho2_convex_comb x0 dx y0 dy a b t) as E.
    assert (HA : 0 <= dx * dx + dy * dy) by (pose proof (sq_nonneg dx); pose proof (sq_nonneg dy); lra).
    assert (Hp : 0 <= (t - a) * (b - t) * (b - a)).
    { apply Qmult_le_0_compat; [apply Qmult_le_0_compat|]; lra. }
    assert (Hq : 0 <= (dx * dx + dy * dy) * ((t - a) * (b - t) * (b - a))) by (apply Qmult_le_0_compat; assumption).
    assert (H1 : (b - t) * rho2 x0 dx y0 dy a <= (b - t) * c).
    { apply Qmult_le_l_weak; lra. }
    assert (H2 : (t - a) * rho2 x0 dx y0 dy b <= (t - a) * c).
    { apply Qmult_le_l_weak; lra. }
    (* one of the two weights is positive, and its inequality is strict *)
    assert (H3 : (b - a) * rho2 x0 dx y0 dy t < (b - a) * c).
    { destruct (Qlt_le_dec a t) as [Hlt|Hge].
      - assert ((t - a) * rho2 x0 dx y0 dy b < (t - a) * c) by (apply Qmult_lt_l_strict; lra). lra.
      - assert (Et : t == a) by lra.
        assert ((b - t) * rho2 x0 dx y0 dy a < (b - t) * c) by (apply Qmult_lt_l_strict; lra). lra. }
    apply (proj1 (Qmult_lt_l _ _ (b - a) ltac:(lra))). exact H3.
  - assert (Et : t == a) by lra. unfold rho2 in *. rewrite Et. exact Ha.
Qed.

(* a coordinate range along the line: { t : lo <= s + d t < hi }  (the z slab; a sector border with rational direction) *)
Lemma band_convex s d lo hi : convex (fun t => lo <= s + d * t /\ s + d * t < hi).
Proof.
  intros a b t Hat Htb [A1 A2] [B1 B2].
  destruct (Qlt_le_dec d 0) as [Hd|Hd].
  - assert (d * b <= d * t) by (setoid_replace (d * b) with (- ((- d) * b)) by ring;
                                 setoid_replace (d * t) with (- ((- d) * t)) by ring;
                                 assert ((- d) * t <= (- d) * b) by (apply Qmult_le_l_weak; lra); lra).
    assert (d * t <= d * a) by (setoid_replace (d * a) with (- ((- d) * a)) by ring;
                                 setoid_replace (d * t) with (- ((- d) * t)) by ring;
                                 assert ((- d) * a <= (- d) * t) by (apply Qmult_le_l_weak; lra); lra).
    split; lra.
  - assert (d * a <= d * t) by (apply Qmult_le_l_weak; lra).
    assert (d * t <= d * b) by (apply Qmult_le_l_weak; lra).
    split; lra.
Qed.

Lemma convex_and (P R : Q -> Prop) : convex P -> convex R -> convex (fun t => P t /\ R t).
Proof. intros HP HR a b t H1 H2 [Pa Ra] [Pb Rb]. split; [apply (HP a b) | apply (HR a b)]; assumption. Qed.

(* a convex set minus a convex set never alternates in - out - in - out - in: it is at most two intervals *)
Lemma convex_minus_convex_two_runs (J H : Q -> Prop) : convex J -> convex H ->
  forall t1 t2 t3 t4 t5, t1 < t2 -> t2 < t3 -> t3 < t4 -> t4 < t5 ->
  (J t1 /\ ~ H t1) -> ~ (J t2 /\ ~ H t2) -> (J t3 /\ ~ H t3) -> ~ (J t4 /\ ~ H t4) -> (J t5 /\ ~ H t5) -> False.
Proof.
  intros HJ HH t1 t2 t3 t4 t5 L12 L23 L34 L45 [J1 _] N2 [J3 NH3] N4 [J5 _].
  assert (J2 : J t2) by (apply (HJ t1 t3); try assumption; lra).
  assert (J4 : J t4) by (apply (HJ t3 t5); try assumption; lra).
  apply N2. split; [exact J2|]. intros H2.
  apply N4. split; [exact J4|]. intros H4.
  apply NH3. apply (HH t2 t4); try assumption; lra.
Qed.

(* the cell of a cylindrical grid as a region: ring R_lo <= r < R_hi (no square root), slab z_lo <= z < z_hi, and an
   angular sector given as any convex condition on the line's parameter *)
Definition in_cyl_region (x0 dx y0 dy z0 dz rlo rhi zlo zhi : Q) (sector : Q -> Prop) (t : Q) : Prop :=
  (rho2 x0 dx y0 dy t < rhi * rhi /\ (zlo <= z0 + dz * t /\ z0 + dz * t < zhi) /\ sector t)
  /\ ~ rho2 x0 dx y0 dy t < rlo * rlo.

Lemma cyl_region_two_runs x0 dx y0 dy z0 dz rlo rhi zlo zhi sector : convex sector ->
  let S := in_cyl_region x0 dx y0 dy z0 dz rlo rhi zlo zhi sector in
  forall t1 t2 t3 t4 t5, t1 < t2 -> t2 < t3 -> t3 < t4 -> t4 < t5 ->
  S t1 -> ~ S t2 -> S t3 -> ~ S t4 -> S t5 -> False.
Proof.
  intros Hs S. unfold S, in_cyl_region.
  apply (convex_minus_convex_two_runs
           (fun t => rho2 x0 dx y0 dy t < rhi * rhi /\ (zlo <= z0 + dz * t /\ z0 + dz * t < zhi) /\ sector t)
           (fun t => rho2 x0 dx y0 dy t < rlo * rlo)).
  - apply convex_and; [apply disc_convex | apply convex_and; [apply band_convex | exact Hs]].
  - apply disc_convex.
Qed.

(* the axisymmetric case needs no sector condition *)
Lemma convex_true : convex (fun _ => True).
Proof. intros a b t _ _ _ _. exact I. Qed.

(* ---------------------------------------------------------------------------------------------- *)
(* the whole call of the model                                                                      *)
(* ---------------------------------------------------------------------------------------------- *)
Lemma integrate_short cellfn vm start stop len stp ms s0 :
  too_short len stp = true -> integrate cellfn vm start stop len stp ms s0 = s0.
Proof. intros H. unfold integrate. rewrite H. reflexivity. Qed.

Lemma integrate_entry cellfn vm start stop len stp ms s0 j :
  too_short len stp = false -> (-1 < j)%Z ->
  (forall c, In c (integrate_cells cellfn start stop len stp ms) -> c <> cinit) ->
  integrate cellfn vm start stop len stp ms s0 j ==
  s0 j + dt_of len (nsamples ms len stp)
         * inject_Z (countp (fun c => (vm c =? j)%Z) (integrate_cells cellfn start stop len stp ms)).
Proof.
  intros Hs Hj Hc. unfold integrate. rewrite Hs.
  rewrite runs_eq_simple by exact Hc. apply simple_count. exact Hj.
Qed.

Lemma integrate_cells_length cellfn start stop len stp ms :
  length (integrate_cells cellfn start stop len stp ms) = Z.to_nat (nsamples ms len stp).
Proof. unfold integrate_cells, sample_points_lam, zrange. rewrite !map_length, seq_length. reflexivity. Qed.

Lemma integrate_total cellfn vm start stop len stp ms s0 B :
  too_short len stp = false -> (1 <= ms)%Z ->
  (forall c, In c (integrate_cells cellfn start stop len stp ms) -> c <> cinit) ->
  (forall c, In c (integrate_cells cellfn start stop len stp ms) -> (-1 < vm c < Z.of_nat B)%Z) ->
  sum_bins (integrate cellfn vm start stop len stp ms s0) B == sum_bins s0 B + len.
Proof.
  intros Hs Hm Hc Ha. unfold integrate. rewrite Hs.
  set (cells := integrate_cells cellfn start stop len stp ms) in *.
  set (n := nsamples ms len stp).
  assert (Hn : (1 <= n)%Z) by (unfold n, nsamples; lia).
  assert (Hl : Z.of_nat (length cells) = n).
  { unfold cells. rewrite integrate_cells_length. fold n. lia. }
  assert (E : forall B', sum_bins (accumulate_runs vm (dt_of len n) cells s0) B' == sum_bins (accumulate_simple vm (dt_of len n) cells s0) B').
  { induction B' as [|b IH]; cbn [sum_bins]; [reflexivity|]. rewrite IH, runs_eq_simple by exact Hc. reflexivity. }
  rewrite E. rewrite <- Hl. apply all_active_total; [|exact Ha].
  intros Hnil. rewrite Hnil in Hl. cbn in Hl. lia.
Qed.

(* ---------------------------------------------------------------------------------------------- *)
(* the model's cyl_cell of an axisymmetric grid is the ring x slab region                           *)
(* ---------------------------------------------------------------------------------------------- *)
Lemma sq_mono a b : 0 <= a -> a <= b -> a * a <= b * b.
Proof.
  intros Ha Hab. apply Qle_trans with (a * b); [apply Qmult_le_l_weak; assumption|].
  apply Qmult_le_compat_r; lra.
Qed.

Lemma rb_mono rmin dr i k : 0 < dr -> (i <= k)%Z -> rb rmin dr i <= rb rmin dr k.
Proof.
  intros Hd H. unfold rb. assert (inject_Z i <= inject_Z k) by (rewrite <- Zle_Qle; exact H).
  assert (inject_Z i * dr <= inject_Z k * dr) by (apply Qmult_le_compat_r; lra). lra.
Qed.

Lemma rb_nonneg rmin dr i : 0 <= rmin -> 0 < dr -> (0 <= i)%Z -> 0 <= rb rmin dr i.
Proof.
  intros Hr Hd Hi. unfold rb. assert (0 <= inject_Z i) by (change 0 with (inject_Z 0); rewrite <- Zle_Qle; exact Hi).
  assert (0 <= inject_Z i * dr) by (apply Qmult_le_0_compat; lra). lra.
Qed.

Lemma ring_unique rmin dr s i k : 0 <= rmin -> 0 < dr -> (0 <= i)%Z -> (0 <= k)%Z ->
  rb rmin dr i * rb rmin dr i <= s -> s < rb rmin dr (i + 1) * rb rmin dr (i + 1) ->
  rb rmin dr k * rb rmin dr k <= s -> s < rb rmin dr (k + 1) * rb rmin dr (k + 1) -> i = k.
Proof.
  intros Hr Hd Hi Hk A1 A2 B1 B2.
  destruct (Z.lt_trichotomy i k) as [H|[H|H]]; [|exact H|]; exfalso.
  - assert (rb rmin dr (i + 1) * rb rmin dr (i + 1) <= rb rmin dr k * rb rmin dr k).
    { apply sq_mono; [apply rb_nonneg; try assumption; lia | apply rb_mono; [assumption | lia]]. }
    lra.
  - assert (rb rmin dr (k + 1) * rb rmin dr (k + 1) <= rb rmin dr i * rb rmin dr i).
    { apply sq_mono; [apply rb_nonneg; try assumption; lia | apply rb_mono; [assumption | lia]]. }
    lra.
Qed.

(* cyl_cell of an axisymmetric grid, for a point between the inner radius and the outer edge of the search range and
   with z >= 0: its cell is (i, 0, j) exactly when the point is in ring i and slab j *)
Lemma cyl_cell_axisym_spec (g : cylgrid) x y z i j :
  cg_nphi g = 1%Z -> 0 <= cg_rmin g -> 0 < cg_dr g -> 0 < cg_dz g -> (0 <= cg_nr g)%Z -> (0 <= i)%Z -> 0 <= z ->
  cg_rmin g * cg_rmin g <= x * x + y * y ->
  x * x + y * y < rb (cg_rmin g) (cg_dr g) (cg_nr g + 2) * rb (cg_rmin g) (cg_dr g) (cg_nr g + 2) ->
  (cyl_cell g (x, y, z) = (i, 0%Z, j) <->
   (rb (cg_rmin g) (cg_dr g) i * rb (cg_rmin g) (cg_dr g) i <= x * x + y * y /\
    x * x + y * y < rb (cg_rmin g) (cg_dr g) (i + 1) * rb (cg_rmin g) (cg_dr g) (i + 1)) /\
   (inject_Z j * cg_dz g <= z /\ z < inject_Z (j + 1) * cg_dz g)).
Proof.
  intros Hn Hr Hd Hz Hnr Hi Hz0 Hlo Hhi.
  unfold cyl_cell, iphi_sector, ir_of. rewrite Hn. cbn [Z.eqb Pos.eqb].
  assert (E : Qle_bool (cg_rmin g * cg_rmin g) (x * x + y * y) = true) by (apply Qle_bool_iff; exact Hlo).
  rewrite E.
  set (s := x * x + y * y) in *.
  assert (Hf : Z.of_nat (Z.to_nat (cg_nr g) + 2) = (cg_nr g + 2)%Z) by lia.
  destruct (ir_up_spec (cg_rmin g) (cg_dr g) s Hr Hd (Z.to_nat (cg_nr g) + 2) 0 ltac:(lia)) as (R0 & R1 & R2).
  { unfold rb. change (inject_Z 0) with 0. setoid_replace (cg_rmin g + 0 * cg_dr g) with (cg_rmin g) by ring. exact Hlo. }
  { rewrite Z.add_0_l, Hf. exact Hhi. }
  set (r := ir_up (Z.to_nat (cg_nr g) + 2) 0 s (cg_rmin g) (cg_dr g)) in *.
  pose proof (Cherab.Proofs.C10_Cart.cell_index_spec z (cg_dz g) j Hz Hz0) as Hc.
  split.
  - intros [= Er Ej]. split; [rewrite <- Er; split; assumption | apply Hc; exact Ej].
  - intros [[A1 A2] Hzz]. f_equal; [f_equal|].
    + symmetry. apply (ring_unique (cg_rmin g) (cg_dr g) s i r); assumption.
    + apply Hc. exact Hzz.
Qed.

(* an axisymmetric cell never sees a line enter it three times: along p(t), the parameters whose point the MODEL's
   cyl_cell puts into cell (i, 0, j) do not alternate in - out - in - out - in  (at most two intervals) *)
Lemma axisym_cell_two_runs (g : cylgrid) x0 dx y0 dy z0 dz i j :
  cg_nphi g = 1%Z -> 0 <= cg_rmin g -> 0 < cg_dr g -> 0 < cg_dz g -> (0 <= cg_nr g)%Z -> (0 <= i)%Z ->
  let inside t := 0 <= z0 + dz * t /\ cg_rmin g * cg_rmin g <= rho2 x0 dx y0 dy t /\
                  rho2 x0 dx y0 dy t < rb (cg_rmin g) (cg_dr g) (cg_nr g + 2) * rb (cg_rmin g) (cg_dr g) (cg_nr g + 2) in
  let S t := cyl_cell g (x0 + dx * t, y0 + dy * t, z0 + dz * t) = (i, 0%Z, j) in
  forall t1 t2 t3 t4 t5, t1 < t2 -> t2 < t3 -> t3 < t4 -> t4 < t5 ->
  inside t1 -> inside t2 -> inside t3 -> inside t4 -> inside t5 ->
  S t1 -> ~ S t2 -> S t3 -> ~ S t4 -> S t5 -> False.
Proof.
  intros Hn Hr Hd Hz Hnr Hi inside S t1 t2 t3 t4 t5 L1 L2 L3 L4 I1 I2 I3 I4 I5 S1 N2 S3 N4 S5.
  set (rlo := rb (cg_rmin g) (cg_dr g) i). set (rhi := rb (cg_rmin g) (cg_dr g) (i + 1)).
  set (zlo := inject_Z j * cg_dz g). set (zhi := inject_Z (j + 1) * cg_dz g).
  assert (Eq : forall t, inside t -> (S t <-> in_cyl_region x0 dx y0 dy z0 dz rlo rhi zlo zhi (fun _ => True) t)).
  { intros t (Hz0 & Hlo & Hhi). unfold S, in_cyl_region.
    rewrite (cyl_cell_axisym_spec g (x0 + dx * t) (y0 + dy * t) (z0 + dz * t) i j Hn Hr Hd Hz Hnr Hi Hz0 Hlo Hhi).
    fold rlo rhi zlo zhi. unfold rho2. split.
    - intros [[A1 A2] B]. split; [split; [exact A2 | split; [exact B | exact I]] | apply Qle_not_lt; exact A1].
    - intros [[A2 [B _]] A1]. split; [split; [apply Qnot_lt_le; exact A1 | exact A2] | exact B]. }
  apply (cyl_region_two_runs x0 dx y0 dy z0 dz rlo rhi zlo zhi (fun _ => True) convex_true t1 t2 t3 t4 t5 L1 L2 L3 L4).
  - apply (Eq t1 I1); exact S1.
  - intros H. apply N2. apply (Eq t2 I2); exact H.
  - apply (Eq t3 I3); exact S3.
  - intros H. apply N4. apply (Eq t4 I4); exact H.
  - apply (Eq t5 I5); exact S5.
Qed.
