(* Facts about the comparator of Model/C05_Check.v: the sqrt oracle used for the correspondence is
   a square root to within 2^-64, and the affine stub rates are rate functions in the sense of the
   theorems (they respect equality of rationals). *)
Require Import Cherab.Common.Qx.
Require Import Cherab.Model.C05_BeamModels Cherab.Model.C05_Check.
From Coq Require Import Lqa Qround.
Open Scope Q_scope.

Lemma Qle_bool_right a e e' : e == e' -> Qle_bool a e = Qle_bool a e'.
Proof.
  intros H. apply Bool.eq_iff_eq_true. rewrite !Qle_bool_iff, H. reflexivity.
Qed.

Lemma aff3_proper c : proper3 (aff3 c).
Proof.
  unfold proper3, aff3. intros e e' n n' t t' He Hn Ht. rewrite (Qle_bool_right _ e e' He).
  destruct (Qle_bool (nth 4 c 0) e'); [|reflexivity]. rewrite !Qred_correct, He, Hn, Ht. reflexivity.
Qed.

Lemma aff3_value c e n t :
  aff3 c e n t == if Qle_bool (nth 4 c 0) e then nth 0 c 0 + nth 1 c 0 * e + nth 2 c 0 * n + nth 3 c 0 * t else 0.
Proof. unfold aff3. destruct (Qle_bool (nth 4 c 0) e); [apply Qred_correct | reflexivity]. Qed.

Lemma aff5_proper c : proper5 (aff5 c).
Proof.
  unfold proper5, aff5. intros e e' t t' n n' z z' b b' He Ht Hn Hz Hb. rewrite (Qle_bool_right _ e e' He).
  destruct (Qle_bool (nth 6 c 0) e'); [|reflexivity]. rewrite !Qred_correct, He, Ht, Hn, Hz, Hb. reflexivity.
Qed.

Lemma aff5_value c e t n z b :
  aff5 c e t n z b == if Qle_bool (nth 6 c 0) e
                      then nth 0 c 0 + nth 1 c 0 * e + nth 2 c 0 * t + nth 3 c 0 * n + nth 4 c 0 * z + nth 5 c 0 * b else 0.
Proof. unfold aff5. destruct (Qle_bool (nth 6 c 0) e); [apply Qred_correct | reflexivity]. Qed.

Lemma sqrt_approx_spec x :
  0 < x ->
  let s := sqrt_approx x in
  0 <= s /\ s * s <= x /\ x < (s + 1 / inject_Z (2 ^ sqrt_bits)) * (s + 1 / inject_Z (2 ^ sqrt_bits)).
Proof.
  intros Hx. unfold sqrt_approx.
  destruct (Qle_bool x 0) eqn:E; [apply Qle_bool_iff in E; lra|]. clear E.
  cbv zeta. rewrite Qred_correct.
  set (P := inject_Z (2 ^ sqrt_bits)).
  assert (HP : 0 < P) by (unfold P; reflexivity).
  assert (HPP : inject_Z (2 ^ (2 * sqrt_bits)) == P * P).
  { unfold P. rewrite <- inject_Z_mult. reflexivity. }
  set (y := x * inject_Z (2 ^ (2 * sqrt_bits))).
  assert (Hy : y == x * (P * P)) by (unfold y; rewrite HPP; reflexivity).
  set (n := Qfloor y).
  assert (Hn1 : inject_Z n <= y) by apply Qfloor_le.
  assert (Hn2 : y < inject_Z (n + 1)) by apply Qlt_floor.
  assert (Hn0 : (0 <= n)%Z).
  { change 0%Z with (Qfloor 0). apply Qfloor_resp_le. rewrite Hy. nra. }
  pose proof (Z.sqrt_spec n Hn0) as [S1 S2].
  set (r := Z.sqrt n) in *.
  assert (Hr0 : (0 <= r)%Z) by apply Z.sqrt_nonneg.
  assert (R0 : 0 <= inject_Z r) by (change 0 with (inject_Z 0); rewrite <- Zle_Qle; assumption).
  assert (R1 : inject_Z r * inject_Z r <= inject_Z n) by (rewrite <- inject_Z_mult, <- Zle_Qle; assumption).
  assert (R2 : inject_Z (n + 1) <= (inject_Z r + 1) * (inject_Z r + 1)).
  { change 1 with (inject_Z 1). rewrite <- inject_Z_plus, <- inject_Z_mult, <- Zle_Qle. lia. }
  set (R := inject_Z r) in *.
  assert (Es : R / P * P == R) by (field; lra).
  set (s := R / P) in *.
  assert (Hs0 : 0 <= s) by (unfold s; apply Qle_shift_div_l; lra).
  assert (Eu : (s + 1 / P) * P == R + 1) by (rewrite <- Es; field; lra).
  set (u := s + 1 / P) in *.
  split; [assumption|]. split.
  - assert (s * s * (P * P) <= x * (P * P)).
    { rewrite <- Hy. assert (E2 : s * s * (P * P) == R * R) by (rewrite <- Es; ring). rewrite E2. lra. }
    assert (0 < P * P) by nra. apply Qmult_le_r with (z := P * P); assumption.
  - assert (x * (P * P) < u * u * (P * P)).
    { rewrite <- Hy. assert (E2 : u * u * (P * P) == (R + 1) * (R + 1)) by (rewrite <- Eu; ring). rewrite E2. lra. }
    assert (0 < P * P) by nra. apply Qmult_lt_r with (z := P * P); assumption.
Qed.
