(* Stability of the one-cell cubic on ARBITRARY increasing nodes (Lebesgue constant <= 3/2) and the
   error bound that follows from it, for every cell of every grid (first and last cell included). *)
Require Import Cherab.Common.Qx.
Require Import Cherab.Model.C14_Caching Cherab.Proofs.C14_Hermite.
From Coq Require Import Qabs Lqa.
Open Scope Q_scope.

Lemma weighted_bound32 Pm P0 P1 P2 em e0 e1 e2 E :
  0 <= Pm -> 0 <= P0 -> 0 <= P1 -> 0 <= P2 -> Pm + P0 + P1 + P2 <= 3 # 2 ->
  - E <= em <= E -> - E <= e0 <= E -> - E <= e1 <= E -> - E <= e2 <= E ->
  - ((3 # 2) * E) <= - Pm * em + P0 * e0 + P1 * e1 - P2 * e2 <= (3 # 2) * E.
Proof. intros. nra. Qed.

Lemma prod3_nonneg a b c : 0 <= a -> 0 <= b -> 0 <= c -> 0 <= a * b * c.
Proof. intros. apply Qmult_le_0_compat; [apply Qmult_le_0_compat|]; assumption. Qed.

(* sign and size of the four weights; al = h/(x1-xm), be = h/(x2-x0) lie in [0,1] *)
Lemma general_signs u al be : 0 <= u <= 1 -> 0 <= al <= 1 -> 0 <= be <= 1 ->
  0 <= al * (u * (1 - u) * (1 - u)) /\
  0 <= (1 + 2 * u) * ((1 - u) * (1 - u)) + be * (u * u * (1 - u)) /\
  0 <= u * u * (3 - 2 * u) + al * (u * (1 - u) * (1 - u)) /\
  0 <= be * (u * u * (1 - u)) /\
  al * (u * (1 - u) * (1 - u)) + ((1 + 2 * u) * ((1 - u) * (1 - u)) + be * (u * u * (1 - u)))
  + (u * u * (3 - 2 * u) + al * (u * (1 - u) * (1 - u))) + be * (u * u * (1 - u)) <= 3 # 2.
Proof.
  intros [Hu0 Hu1] [Ha0 Ha1] [Hb0 Hb1].
  assert (H1 : 0 <= 1 - u) by lra.
  assert (A : 0 <= u * (1 - u) * (1 - u)) by (apply prod3_nonneg; assumption).
  assert (B : 0 <= u * u * (1 - u)) by (apply prod3_nonneg; assumption).
  assert (C : 0 <= (1 + 2 * u) * ((1 - u) * (1 - u))).
  { apply Qmult_le_0_compat; [lra|apply Qmult_le_0_compat; assumption]. }
  assert (D : 0 <= u * u * (3 - 2 * u)).
  { apply Qmult_le_0_compat; [apply Qmult_le_0_compat; assumption|lra]. }
  assert (AA : 0 <= al * (u * (1 - u) * (1 - u))) by (apply Qmult_le_0_compat; assumption).
  assert (BB : 0 <= be * (u * u * (1 - u))) by (apply Qmult_le_0_compat; assumption).
  assert (AL : al * (u * (1 - u) * (1 - u)) <= u * (1 - u) * (1 - u)).
  { setoid_replace (u * (1 - u) * (1 - u)) with (1 * (u * (1 - u) * (1 - u))) at 2 by ring.
    apply Qmult_le_compat_r; assumption. }
  assert (BL : be * (u * u * (1 - u)) <= u * u * (1 - u)).
  { setoid_replace (u * u * (1 - u)) with (1 * (u * u * (1 - u))) at 2 by ring.
    apply Qmult_le_compat_r; assumption. }
  assert (Hs : 0 <= (u - (1 # 2)) * (u - (1 # 2))).
  { destruct (Qlt_le_dec u (1 # 2)).
    - setoid_replace ((u - (1 # 2)) * (u - (1 # 2))) with (((1 # 2) - u) * ((1 # 2) - u)) by ring.
      apply Qmult_le_0_compat; lra.
    - apply Qmult_le_0_compat; lra. }
  repeat split; lra.
Qed.

(* for any nodes xm < x0 < x1 < x2, any data, any affine L and any t in the cell [x0, x1] *)
Lemma HL_general_stability xm x0 x1 x2 a b dm d0 d1 d2 t E :
  xm < x0 -> x0 < x1 -> x1 < x2 -> x0 <= t <= x1 ->
  - E <= dm - (a + b * xm) <= E -> - E <= d0 - (a + b * x0) <= E ->
  - E <= d1 - (a + b * x1) <= E -> - E <= d2 - (a + b * x2) <= E ->
  - ((3 # 2) * E) <= HL xm x0 x1 x2 dm d0 d1 d2 t - (a + b * t) <= (3 # 2) * E.
Proof.
  intros Hm H01 H12 [Ht0 Ht1] Em E0 E1 E2.
  set (h := x1 - x0). assert (Hh : 0 < h) by (unfold h; lra).
  set (u := (t - x0) / h).
  assert (Hu : 0 <= u <= 1).
  { unfold u. split; [apply Qle_shift_div_l|apply Qle_shift_div_r]; try exact Hh; unfold h; lra. }
  set (al := h / (x1 - xm)). set (be := h / (x2 - x0)).
  assert (Hal : 0 <= al <= 1).
  { unfold al. split; [apply Qle_shift_div_l|apply Qle_shift_div_r]; unfold h; lra. }
  assert (Hbe : 0 <= be <= 1).
  { unfold be. split; [apply Qle_shift_div_l|apply Qle_shift_div_r]; unfold h; lra. }
  destruct (general_signs u al be Hu Hal Hbe) as (S1 & S2 & S3 & S4 & S5).
  assert (Id : HL xm x0 x1 x2 dm d0 d1 d2 t - (a + b * t)
          == - (al * (u * (1 - u) * (1 - u))) * (dm - (a + b * xm))
             + ((1 + 2 * u) * ((1 - u) * (1 - u)) + be * (u * u * (1 - u))) * (d0 - (a + b * x0))
             + (u * u * (3 - 2 * u) + al * (u * (1 - u) * (1 - u))) * (d1 - (a + b * x1))
             - (be * (u * u * (1 - u))) * (d2 - (a + b * x2))).
  { rewrite HL_raw. unfold HLraw, al, be, u, h. field. repeat split; intro F; lra. }
  rewrite Id. apply weighted_bound32; assumption.
Qed.

(* Error bound, given Taylor's inequality at the evaluation point as a hypothesis:
   fp, g: value and slope of the tangent at t;  |f(x_k) - fp - g (x_k - t)| <= (M/2) (x_k - t)^2 at the
   four nodes (this is Taylor's theorem with Lagrange remainder for |f''| <= M);  H bounds the three spacings.
   Then the cubic is within 3 M H^2 of fp = f(t). *)
Lemma HL_error_bound xm x0 x1 x2 dm d0 d1 d2 t fp g M H :
  xm < x0 -> x0 < x1 -> x1 < x2 -> x0 <= t <= x1 ->
  x0 - xm <= H -> x1 - x0 <= H -> x2 - x1 <= H -> 0 <= M ->
  - ((M / 2) * ((xm - t) * (xm - t))) <= dm - (fp + g * (xm - t)) <= (M / 2) * ((xm - t) * (xm - t)) ->
  - ((M / 2) * ((x0 - t) * (x0 - t))) <= d0 - (fp + g * (x0 - t)) <= (M / 2) * ((x0 - t) * (x0 - t)) ->
  - ((M / 2) * ((x1 - t) * (x1 - t))) <= d1 - (fp + g * (x1 - t)) <= (M / 2) * ((x1 - t) * (x1 - t)) ->
  - ((M / 2) * ((x2 - t) * (x2 - t))) <= d2 - (fp + g * (x2 - t)) <= (M / 2) * ((x2 - t) * (x2 - t)) ->
  - (3 * M * (H * H)) <= HL xm x0 x1 x2 dm d0 d1 d2 t - fp <= 3 * M * (H * H).
Proof.
  intros Hm H01 H12 Ht Sm S0 S1 HM Tm T0 T1 T2.
  assert (HH : 0 <= H) by lra.
  (* every node is within 2H of t, so (x_k - t)^2 <= 4 H^2 *)
  assert (SQ : forall y, - (2 * H) <= y <= 2 * H -> y * y <= 4 * (H * H)).
  { intros y [Y0 Y1].
    setoid_replace (4 * (H * H)) with (y * y + (2 * H - y) * (2 * H + y)) by ring.
    assert (0 <= (2 * H - y) * (2 * H + y)) by (apply Qmult_le_0_compat; lra). lra. }
  assert (MH : forall y, - (2 * H) <= y <= 2 * H -> (M / 2) * (y * y) <= 2 * M * (H * H)).
  { intros y Hy. setoid_replace (2 * M * (H * H)) with ((M / 2) * (4 * (H * H))) by field.
    rewrite (Qmult_comm (M / 2) (y * y)), (Qmult_comm (M / 2) (4 * (H * H))).
    apply Qmult_le_compat_r; [apply SQ; exact Hy|].
    apply Qle_shift_div_l; lra. }
  pose proof (MH (xm - t) ltac:(lra)) as Bm. pose proof (MH (x0 - t) ltac:(lra)) as B0.
  pose proof (MH (x1 - t) ltac:(lra)) as B1. pose proof (MH (x2 - t) ltac:(lra)) as B2.
  pose proof (HL_general_stability xm x0 x1 x2 (fp - g * t) g dm d0 d1 d2 t (2 * M * (H * H)) Hm H01 H12 Ht) as St.
  assert (R : forall y, fp - g * t + g * y == fp + g * (y - t)) by (intro; ring).
  assert (Goal1 : - ((3 # 2) * (2 * M * (H * H))) <= HL xm x0 x1 x2 dm d0 d1 d2 t - (fp - g * t + g * t) <= (3 # 2) * (2 * M * (H * H))).
  { apply St; rewrite R; lra. }
  setoid_replace (fp - g * t + g * t) with fp in Goal1 by ring. lra.
Qed.

(* The cubic as an explicit weighted sum of its four data: weights -Pm, P0, P1, -P2 with Pm, P0, P1, P2 >= 0,
   total variation <= 3/2, sum 1 and first moment t.  (Used for the transfer to the reals in Proofs/C14_Real.v.) *)
Lemma HL_weights xm x0 x1 x2 t : xm < x0 -> x0 < x1 -> x1 < x2 -> x0 <= t <= x1 ->
  exists Pm P0 P1 P2, 0 <= Pm /\ 0 <= P0 /\ 0 <= P1 /\ 0 <= P2 /\ Pm + P0 + P1 + P2 <= 3 # 2 /\
    - Pm + P0 + P1 - P2 == 1 /\ - Pm * xm + P0 * x0 + P1 * x1 - P2 * x2 == t /\
    forall dm d0 d1 d2, HL xm x0 x1 x2 dm d0 d1 d2 t == - Pm * dm + P0 * d0 + P1 * d1 - P2 * d2.
Proof.
  intros Hm H01 H12 [Ht0 Ht1].
  set (h := x1 - x0). assert (Hh : 0 < h) by (unfold h; lra).
  set (u := (t - x0) / h).
  assert (Hu : 0 <= u <= 1).
  { unfold u. split; [apply Qle_shift_div_l|apply Qle_shift_div_r]; try exact Hh; unfold h; lra. }
  set (al := h / (x1 - xm)). set (be := h / (x2 - x0)).
  assert (Hal : 0 <= al <= 1).
  { unfold al. split; [apply Qle_shift_div_l|apply Qle_shift_div_r]; unfold h; lra. }
  assert (Hbe : 0 <= be <= 1).
  { unfold be. split; [apply Qle_shift_div_l|apply Qle_shift_div_r]; unfold h; lra. }
  destruct (general_signs u al be Hu Hal Hbe) as (S1 & S2 & S3 & S4 & S5).
  exists (al * (u * (1 - u) * (1 - u))), ((1 + 2 * u) * ((1 - u) * (1 - u)) + be * (u * u * (1 - u))),
         (u * u * (3 - 2 * u) + al * (u * (1 - u) * (1 - u))), (be * (u * u * (1 - u))).
  repeat split; try assumption.
  - unfold al, be, u, h. field. repeat split; intro F; lra.
  - unfold al, be, u, h. field. repeat split; intro F; lra.
  - intros dm d0 d1 d2. rewrite HL_raw. unfold HLraw, al, be, u, h. field. repeat split; intro F; lra.
Qed.
