(* C19 -- third layer: str(int) is injective, hash-key equality is an equivalence relation, lookups are
   SOUND (what is returned carries the requested key; an atomic number returns an element with that
   atomic number). *)
Require Import Cherab.Common.Qx.
From Coq Require Import String Ascii DecimalString DecimalZ DecimalFacts Qabs.
Require Import Cherab.Model.C19_Registry Cherab.Model.C19_Shape Cherab.Model.C19_Args Cherab.Proofs.C19_Registry Cherab.Proofs.C19_Deepen.
Local Open Scope Z_scope.

(* ---- str(int) ------------------------------------------------------------------------------------------ *)
Lemma int_string_roundtrip d : exists d2, NilZero.int_of_string (NilZero.string_of_int d) = Some d2 /\ Z.of_int d2 = Z.of_int d.
Proof.
  destruct d as [u|u]; destruct u.
  1: { rewrite NilZero.isi_posnil. eexists; split; reflexivity. }
  11: { rewrite NilZero.isi_negnil. eexists; split; reflexivity. }
  all: rewrite NilZero.isi by discriminate; eexists; split; reflexivity.
Qed.

Lemma zstr_injective a b : zstr a = zstr b -> a = b.
Proof.
  unfold zstr. intros H.
  destruct (int_string_roundtrip (Z.to_int a)) as [da [Ha1 Ha2]].
  destruct (int_string_roundtrip (Z.to_int b)) as [db [Hb1 Hb2]].
  rewrite H in Ha1. rewrite Ha1 in Hb1. inversion Hb1; subst db.
  rewrite <- (of_to a), <- (of_to b). congruence.
Qed.

(* the first character of str(int) is a digit or the minus sign; of a lower-cased name, a letter *)
Definition digit_or_minus (c : ascii) : bool :=
  let n := N_of_ascii c in ((N.leb 48 n && N.leb n 57) || N.eqb n 45)%bool.
Definition lower_letter (c : ascii) : bool :=
  let n := N_of_ascii c in (N.leb 97 n && N.leb n 122)%bool.
Definition head_is (p : ascii -> bool) (s : string) : bool :=
  match s with String c _ => p c | EmptyString => false end.

Lemma zstr_head z : head_is digit_or_minus (zstr z) = true.
Proof. unfold zstr. destruct (Z.to_int z) as [u|u]; destruct u; reflexivity. Qed.

Lemma heads_disjoint s : head_is digit_or_minus s = true -> head_is lower_letter s = true -> False.
Proof.
  destruct s as [|c t]; simpl; [discriminate|].
  destruct c as [[] [] [] [] [] [] [] []]; simpl; discriminate.
Qed.

(* every name, symbol and alternative name of the periodic table starts (lower-cased) with a letter *)
Lemma periodic_heads :
  forallb (fun row => (head_is lower_letter (snd (fst row)) && head_is lower_letter (lower (snd row)))%bool) periodic_table = true
  /\ forallb (fun a => head_is lower_letter (snd a)) alternate_names = true.
Proof. split; vm_compute; reflexivity. Qed.

Lemma periodic_row_heads e : periodic_row e ->
  head_is lower_letter (lower (e_symbol e)) = true /\ head_is lower_letter (lower (e_name e)) = true.
Proof.
  intros [z [nm [sy [Hin [_ [Hs Hn]]]]]]. destruct periodic_heads as [P A].
  rewrite forallb_forall in P. specialize (P _ Hin). cbn [fst snd] in P. apply andb_true_iff in P. destruct P as [P1 P2].
  split; [rewrite Hs; exact P2|]. destruct Hn as [Hn|Hn]; [rewrite Hn; exact P1|].
  rewrite forallb_forall in A. apply (A _ Hn).
Qed.

(* ---- soundness of the lookups ----------------------------------------------------------------------------- *)
(* for EVERY registry: a successful lookup of anything but the object itself returns a registry element one
   of whose index keys is the lower-cased str() of the argument *)
Lemma lookup_element_sound r v e : (forall x, v <> VSpecies (SE x)) -> lookup_element r v = Ok e ->
  In e (elements r) /\ In (lower (py_str v)) (element_keys e).
Proof.
  intros Hv. unfold lookup_element, lookup_element_ix, element_index.
  destruct v as [s|z|[x|j]|s]; try (exfalso; eapply Hv; reflexivity).
  all: destruct (idx_get _ _) as [e'|] eqn:E; [|discriminate]; intros H; inversion H; subst e';
       apply idx_get_some in E; apply build_index_in in E; exact E.
Qed.

Lemma lookup_isotope_sound r v num i : (forall x, v <> VSpecies (SI x)) ->
  lookup_isotope_core (element_index r) (isotope_index r) v num = Ok i ->
  In i (isotopes r) /\
  match num with
  | None => In (lower (py_str v)) (isotope_keys i)
  | Some sn => exists el, lookup_element r v = Ok el /\ In (lower (sapp (e_symbol el) sn)) (isotope_keys i)
  end.
Proof.
  intros Hv. unfold lookup_isotope_core, isotope_index.
  assert (G : forall k, match idx_get (build_index isotope_keys (isotopes r)) k with Some i0 => Ok i0 | None => ErrValue end = Ok i ->
              In i (isotopes r) /\ In k (isotope_keys i)).
  { intros k. destruct (idx_get _ k) as [i'|] eqn:E; [|discriminate]. intros H; inversion H; subst i'.
    apply idx_get_some in E. apply build_index_in in E. exact E. }
  destruct v as [s|z|[x|j]|s]; try (exfalso; eapply Hv; reflexivity); destruct num as [sn|].
  all: try (intros H; apply G in H; exact H).
  all: unfold lookup_element; destruct (lookup_element_ix (element_index r) _) as [el|] eqn:L; [|discriminate];
       intros H; apply G in H; destruct H as [H1 H2]; split; [exact H1 | exists el; split; [reflexivity | exact H2]].
Qed.

(* in a well-formed registry an atomic number (int, or its decimal string) leads to an element WITH that number *)
Lemma lookup_number_sound r : wf r = true -> forall z e,
  (lookup_element r (VInt z) = Ok e \/ lookup_element r (VStr (zstr z)) = Ok e) -> e_Z e = z.
Proof.
  intros W z e H.
  assert (K : In e (elements r) /\ In (zstr z) (element_keys e)).
  { destruct H as [H|H]; apply lookup_element_sound in H; try discriminate; cbn [py_str] in H; rewrite lower_zstr in H; exact H. }
  destruct K as [He Hk]. pose proof (atomic_numbers_match r W e He) as P. apply periodic_row_heads in P. destruct P as [P1 P2].
  unfold element_keys in Hk. destruct Hk as [Hk|[Hk|[Hk|[]]]].
  - exfalso. eapply heads_disjoint; [apply (zstr_head z) | rewrite <- Hk; exact P1].
  - exfalso. eapply heads_disjoint; [apply (zstr_head z) | rewrite <- Hk; exact P2].
  - symmetry. apply zstr_injective. symmetry; exact Hk.
Qed.

(* ---- hash-key equality is an equivalence relation ------------------------------------------------------------ *)
Definition hnum (a : hatom) : option Q :=
  match a with HInt z => Some (inject_Z z) | HFloat q => Some q | HStr _ => None end.
Definition hrel (a b : hatom) : Prop :=
  match a, b with
  | HStr s, HStr t => s = t
  | _, _ => match hnum a, hnum b with Some p, Some q => (p == q)%Q | _, _ => False end
  end.

Lemma hatom_eqb_spec a b : hatom_eqb a b = true <-> hrel a b.
Proof.
  destruct a as [s|x|p], b as [t|y|q]; unfold hrel; cbn [hatom_eqb hnum].
  - apply String.eqb_eq.
  - split; [discriminate | tauto].
  - split; [discriminate | tauto].
  - split; [discriminate | tauto].
  - rewrite Z.eqb_eq. split; [intros ->; reflexivity | apply inject_Z_injective].
  - apply Qeq_bool_iff.
  - split; [discriminate | tauto].
  - rewrite Qeq_bool_iff. split; intros H; symmetry; exact H.
  - apply Qeq_bool_iff.
Qed.

Lemma hrel_sym a b : hrel a b -> hrel b a.
Proof.
  destruct a, b; unfold hrel; cbn [hnum]; try tauto; try (intros H; symmetry; exact H).
Qed.

Lemma hrel_trans a b c : hrel a b -> hrel b c -> hrel a c.
Proof.
  destruct a, b, c; unfold hrel; cbn [hnum]; try tauto; try congruence; intros H1 H2; rewrite H1; exact H2.
Qed.

Lemma hatom_eqb_sym a b : hatom_eqb a b = hatom_eqb b a.
Proof.
  destruct (hatom_eqb a b) eqn:E1, (hatom_eqb b a) eqn:E2; try reflexivity.
  - apply hatom_eqb_spec, hrel_sym, hatom_eqb_spec in E1. congruence.
  - apply hatom_eqb_spec, hrel_sym, hatom_eqb_spec in E2. congruence.
Qed.

Lemma hkey_eqb_sym a : forall b, hkey_eqb a b = hkey_eqb b a.
Proof.
  induction a as [|x a IH]; intros [|y b]; simpl; try reflexivity. rewrite hatom_eqb_sym, IH. reflexivity.
Qed.

Lemma hkey_eqb_trans a : forall b c, hkey_eqb a b = true -> hkey_eqb b c = true -> hkey_eqb a c = true.
Proof.
  induction a as [|x a IH]; intros [|y b] [|z c]; simpl; try discriminate; try reflexivity.
  rewrite !andb_true_iff. intros [H1 H2] [H3 H4]. split; [|eapply IH; eauto].
  apply hatom_eqb_spec. eapply hrel_trans; apply hatom_eqb_spec; eauto.
Qed.

(* ---- an Isotope built on an Isotope takes its parent's atomic number ------------------------------------------ *)
Lemma nested_isotope_number args ni : isotope_on_isotope_init_py args = Done ni -> ni_Z ni = i_Z (ni_parent ni).
Proof.
  unfold isotope_on_isotope_init_py.
  destruct args as [|n [|s [|e [|a [|w [|x t]]]]]]; try discriminate;
    try (destruct e; try discriminate; match goal with o : species |- _ => destruct o end; discriminate).
  destruct e; try discriminate. destruct o as [el|j]; try discriminate.
  unfold convert_args, isotope_init_sig. cbn [List.length Nat.eqb negb pass1 conv_c].
  destruct (conv_int a) as [z| |]; destruct (conv_double w) as [q| |]; destruct n; destruct s; cbn; try discriminate.
  intros H; inversion H; subst; reflexivity.
Qed.
