(* The cumulative-area lookup of emissivity_from_function: find_index (bisection) + 1 picks the
   triangle j exactly on the interval [a_0+..+a_(j-1), a_0+..+a_j) of v, for any number of triangles. *)
Require Import Cherab.Common.Qx.
Require Import Cherab.Model.C17_Voxels.
From Coq Require Import Qabs Lqa.
Open Scope Q_scope.

Definition prefix (areas : list Q) (j : nat) : Q := Qsum (firstn j areas).

Lemma prefix_step areas j : (j < length areas)%nat -> prefix areas (S j) == prefix areas j + nth j areas 0.
Proof.
  unfold prefix. revert j; induction areas as [|a t IH]; intros j Hj; [cbn in Hj; lia|].
  destruct j as [|j].
  - cbn [firstn Qsum nth]. destruct t; cbn; ring.
  - change (firstn (S (S j)) (a :: t)) with (a :: firstn (S j) t).
    change (firstn (S j) (a :: t)) with (a :: firstn j t).
    cbn [Qsum nth]. rewrite IH by (cbn in Hj; lia). ring.
Qed.

Lemma prefix_all areas : prefix areas (length areas) == Qsum areas.
Proof. unfold prefix. rewrite firstn_all. reflexivity. Qed.

Lemma Qsum_nonneg l : (forall a, In a l -> 0 <= a) -> 0 <= Qsum l.
Proof.
  induction l as [|a t IH]; intros H; cbn [Qsum]; [lra|].
  pose proof (H a (or_introl eq_refl)). pose proof (IH (fun b Hb => H b (or_intror Hb))). lra.
Qed.

Lemma cumulative_from_length acc areas : length (cumulative_from acc areas) = length areas.
Proof. revert acc; induction areas as [|a t IH]; intros acc; cbn; [reflexivity | rewrite IH; reflexivity]. Qed.

(* ---- the documented contract of find_index on the cumulative areas ------------------------------ *)
Lemma count_le_nonneg x v : (0 <= count_le x v)%Z.
Proof. induction x as [|a t IH]; cbn [count_le]; [lia|]. destruct (Qle_bool a v); lia. Qed.

Lemma count_le_cum areas : forall acc v,
  (forall a, In a areas -> 0 <= a) -> acc <= v -> v < acc + Qsum areas ->
  exists k : nat, count_le (cumulative_from acc areas) v = Z.of_nat k /\ (k < length areas)%nat /\
                  acc + prefix areas k <= v /\ v < acc + prefix areas (S k).
Proof.
  induction areas as [|a t IH]; intros acc v Hpos Hlo Hhi.
  - cbn [Qsum] in Hhi. lra.
  - cbn [cumulative_from count_le]. destruct (Qle_bool (acc + a) v) eqn:E.
    + apply Qle_bool_iff in E.
      destruct (IH (acc + a) v) as (k & Hk & Hlen & H1 & H2).
      * intros b Hb. apply Hpos. right. exact Hb.
      * exact E.
      * cbn [Qsum] in Hhi. lra.
      * exists (S k). rewrite Hk. split; [lia|]. split; [cbn [length]; lia|].
        unfold prefix in *. cbn [firstn Qsum] in *. split; lra.
    + exists O. split; [reflexivity|]. split; [cbn [length]; lia|].
      unfold prefix. cbn [firstn Qsum]. destruct t; cbn [firstn Qsum]; split; try lra.
      * destruct (Qlt_le_dec v (acc + a)) as [H|H]; [lra|]. apply Qle_bool_iff in H. congruence.
      * destruct (Qlt_le_dec v (acc + a)) as [H|H]; [lra|]. apply Qle_bool_iff in H. congruence.
Qed.

(* ---- bisection = contract on non-decreasing arrays ---------------------------------------------------- *)
Definition sorted (x : list Q) : Prop := forall i j, (i <= j < length x)%nat -> nth i x 0 <= nth j x 0.

Lemma sorted_tail a t : sorted (a :: t) -> sorted t.
Proof. intros H i j Hij. apply (H (S i) (S j)). cbn [length]. lia. Qed.

Lemma cumulative_from_lower acc areas i : (forall a, In a areas -> 0 <= a) -> (i < length areas)%nat ->
  acc <= nth i (cumulative_from acc areas) 0.
Proof.
  revert acc i; induction areas as [|a t IH]; intros acc i Hpos Hi; [cbn in Hi; lia|].
  pose proof (Hpos a (or_introl eq_refl)).
  destruct i as [|i]; cbn [cumulative_from nth]; [lra|].
  assert (acc + a <= nth i (cumulative_from (acc + a) t) 0).
  { apply IH; [intros b Hb; apply Hpos; right; exact Hb | cbn in Hi; lia]. }
  lra.
Qed.

Lemma cumulative_from_sorted acc areas : (forall a, In a areas -> 0 <= a) -> sorted (cumulative_from acc areas).
Proof.
  revert acc; induction areas as [|a t IH]; intros acc Hpos i j Hij.
  - cbn in Hij. lia.
  - cbn [cumulative_from] in *. cbn [length] in Hij. rewrite cumulative_from_length in Hij.
    destruct i as [|i]; destruct j as [|j]; cbn [nth]; try lia; try lra.
    + apply cumulative_from_lower; [intros b Hb; apply Hpos; right; exact Hb | lia].
    + apply IH; [intros b Hb; apply Hpos; right; exact Hb | rewrite cumulative_from_length; lia].
Qed.

Lemma count_le_all x v : sorted x -> x <> [] -> nth (length x - 1) x 0 <= v -> count_le x v = Z.of_nat (length x).
Proof.
  induction x as [|a t IH]; intros Hs Hne Hv; [congruence|].
  cbn [count_le].
  assert (Ha : a <= v).
  { assert (a <= nth (length (a :: t) - 1) (a :: t) 0)
      by (apply (Hs O (length (a :: t) - 1)%nat); cbn [length]; lia). lra. }
  apply Qle_bool_iff in Ha. rewrite Ha.
  destruct t as [|b t]; [reflexivity|].
  rewrite IH; [cbn [length]; lia | eapply sorted_tail; eassumption | discriminate |].
  cbn [length] in *. replace (S (S (length t)) - 1)%nat with (S (length t)) in Hv by lia.
  replace (S (length t) - 1)%nat with (length t) by lia. exact Hv.
Qed.

Lemma count_le_char x : forall v r, sorted x -> (S r < length x)%nat ->
  nth r x 0 <= v -> v < nth (S r) x 0 -> count_le x v = Z.of_nat (S r).
Proof.
  induction x as [|a t IH]; intros v r Hs Hr Hlo Hhi; [cbn in Hr; lia|].
  cbn [count_le].
  assert (Ha : a <= v).
  { assert (a <= nth r (a :: t) 0) by (apply (Hs O r); lia). lra. }
  apply Qle_bool_iff in Ha. rewrite Ha.
  destruct r as [|r].
  - destruct t as [|b t]; [cbn in Hr; lia|]. cbn [nth] in Hhi. cbn [count_le].
    destruct (Qle_bool b v) eqn:E; [apply Qle_bool_iff in E; lra | reflexivity].
  - cbn [nth] in Hlo, Hhi. rewrite (IH v r); [lia | eapply sorted_tail; eassumption | cbn [length] in Hr; lia | exact Hlo | exact Hhi].
Qed.

Lemma bisect_spec x v : forall fuel bottom top,
  (0 <= bottom < top)%Z -> (top < Z.of_nat (length x))%Z -> (top - bottom <= Z.of_nat fuel)%Z ->
  xat x bottom <= v -> v < xat x top ->
  let r := bisect fuel x v bottom top in
  (bottom <= r < top)%Z /\ xat x r <= v /\ v < xat x (r + 1).
Proof.
  induction fuel as [|f IH]; intros bottom top Hb Ht Hf Hlo Hhi.
  - lia.
  - cbn [bisect]. destruct (top - bottom =? 1)%Z eqn:E.
    + apply Z.eqb_eq in E. replace (bottom + 1)%Z with top by lia. repeat split; try lia; assumption.
    + apply Z.eqb_neq in E.
      set (m := ((top + bottom) / 2)%Z).
      assert (Hm : (bottom < m < top)%Z).
      { unfold m. pose proof (Z.div_mod (top + bottom) 2). pose proof (Z.mod_pos_bound (top + bottom) 2). lia. }
      destruct (Qle_bool (xat x m) v) eqn:Em.
      * apply Qle_bool_iff in Em.
        destruct (IH m top) as (H1 & H2 & H3); try lia; try assumption. repeat split; try lia; assumption.
      * assert (v < xat x m).
        { destruct (Qlt_le_dec v (xat x m)) as [H|H]; [exact H|]. apply Qle_bool_iff in H. congruence. }
        destruct (IH bottom m) as (H1 & H2 & H3); try lia; try assumption. repeat split; try lia; assumption.
Qed.

Lemma find_index_is_contract x v : sorted x -> find_index x v = find_index_lin x v.
Proof.
  intros Hs. destruct x as [|x0 t]; [reflexivity|]. unfold find_index, find_index_lin.
  set (x := x0 :: t) in *.
  assert (Hlen : (1 <= length x)%nat) by (unfold x; cbn; lia).
  unfold Qlt_b. destruct (Qle_bool x0 v) eqn:E0; cbn [negb].
  2:{ unfold x. cbn [count_le]. rewrite E0. reflexivity. }
  apply Qle_bool_iff in E0.
  set (top := (Z.of_nat (length x) - 1)%Z).
  assert (Etop : xat x top = nth (length x - 1) x 0) by (unfold xat, top; f_equal; lia).
  destruct (Qle_bool (xat x top) v) eqn:E1.
  - apply Qle_bool_iff in E1. rewrite count_le_all; [unfold top; lia | exact Hs | unfold x; discriminate | rewrite <- Etop; exact E1].
  - assert (Hhi : v < xat x top).
    { destruct (Qlt_le_dec v (xat x top)) as [H|H]; [exact H|]. apply Qle_bool_iff in H. congruence. }
    assert (Hlo : xat x 0 <= v) by (unfold xat, x; cbn [Z.to_nat nth]; exact E0).
    assert (Htop : (0 < top)%Z).
    { destruct (Z.eq_dec top 0) as [H0|H0]; [|unfold top in *; lia]. rewrite H0 in Hhi. lra. }
    destruct (bisect_spec x v (length x) 0 top) as (H1 & H2 & H3); try (unfold top; lia); try assumption.
    set (r := bisect (length x) x v 0 top) in *.
    assert (Hc : count_le x v = Z.of_nat (S (Z.to_nat r))).
    { apply count_le_char; [exact Hs | unfold top in *; lia | exact H2 |].
      unfold xat in H3. replace (Z.to_nat (r + 1)) with (S (Z.to_nat r)) in H3 by lia. exact H3. }
    rewrite Hc. lia.
Qed.

(* ---- select ------------------------------------------------------------------------------------- *)
Lemma select_spec areas v :
  (forall a, In a areas -> 0 <= a) -> areas <> [] -> 0 <= v -> v < Qsum areas ->
  exists j : nat, select (cumulative areas) v = Z.of_nat j /\ (j < length areas)%nat /\
                  prefix areas j <= v /\ v < prefix areas (S j).
Proof.
  intros Hpos Hne Hlo Hhi. unfold select, cumulative. rewrite cumulative_from_length.
  destruct (1 <? Z.of_nat (length areas))%Z eqn:E.
  - rewrite find_index_is_contract by (apply cumulative_from_sorted; exact Hpos).
    unfold find_index_lin.
    destruct (count_le_cum areas 0 v Hpos Hlo) as (k & Hk & Hlen & H1 & H2); [lra|].
    exists k. rewrite Hk. split; [lia|]. split; [exact Hlen|]. split; lra.
  - apply Z.ltb_ge in E. destruct areas as [|a [|b t]]; [congruence | | cbn [length] in E; lia].
    exists O. split; [reflexivity|]. split; [cbn; lia|]. unfold prefix. cbn [firstn Qsum] in *. split; lra.
Qed.

(* the intervals are disjoint: the index is determined by v *)
Lemma In_firstn {A} n (l : list A) x : In x (firstn n l) -> In x l.
Proof.
  revert n; induction l as [|a t IH]; intros n H; [rewrite firstn_nil in H; exact H|].
  destruct n as [|n]; [contradiction|]. cbn [firstn] in H. destruct H as [H|H]; [left; exact H | right; eapply IH; exact H].
Qed.

Lemma prefix_mono areas i j : (forall a, In a areas -> 0 <= a) -> (i <= j)%nat -> prefix areas i <= prefix areas j.
Proof.
  intros Hpos Hij. unfold prefix. revert i j Hij; induction areas as [|a t IH]; intros i j Hij.
  - rewrite !firstn_nil. lra.
  - destruct i as [|i]; destruct j as [|j]; try lia; cbn [firstn Qsum]; try lra.
    + assert (0 <= Qsum (firstn j t)).
      { apply Qsum_nonneg. intros b Hb. apply Hpos. right. eapply In_firstn. exact Hb. }
      pose proof (Hpos a (or_introl eq_refl)). lra.
    + assert (Qsum (firstn i t) <= Qsum (firstn j t)).
      { apply IH; [intros b Hb; apply Hpos; right; exact Hb | lia]. }
      lra.
Qed.

Lemma select_unique areas v j j' : (forall a, In a areas -> 0 <= a) ->
  prefix areas j <= v -> v < prefix areas (S j) -> prefix areas j' <= v -> v < prefix areas (S j') -> j = j'.
Proof.
  intros Hpos H1 H2 H3 H4.
  destruct (Nat.lt_trichotomy j j') as [H|[H|H]]; [|exact H|].
  - pose proof (prefix_mono areas (S j) j' Hpos ltac:(lia)). lra.
  - pose proof (prefix_mono areas (S j') j Hpos ltac:(lia)). lra.
Qed.

(* dropping the "+ 1" of line 442: the first triangle is never found and index -1 is used *)
Definition select_off_by_one (cum : list Q) (v : Q) : Z :=
  if (1 <? Z.of_nat (length cum))%Z then find_index cum v else 0%Z.

Lemma select_off_by_one_refuted :
  exists areas v, (forall a, In a areas -> 0 < a) /\ 0 <= v /\ v < Qsum areas /\
                  select_off_by_one (cumulative areas) v = (-1)%Z /\ select (cumulative areas) v = 0%Z.
Proof.
  exists [1; 1], (1 # 2). repeat split; try (vm_compute; congruence).
  intros a [Ha|[Ha|[]]]; rewrite <- Ha; reflexivity.
Qed.

Lemma tri_area_nonneg a b c : 0 <= tri_area a b c.
Proof. unfold tri_area. pose proof (Qabs_nonneg (tri2 a b c)). lra. Qed.

Lemma cumulative_tri_areas_sorted l tris : sorted (cumulative (map (tri_area_of l) tris)).
Proof.
  apply cumulative_from_sorted. intros a Ha. apply in_map_iff in Ha. destruct Ha as ([[i j] k] & E & _).
  rewrite <- E. apply tri_area_nonneg.
Qed.
