(* Transfer of the error bound to the reals: for a twice differentiable function Phi : R -> R (derivatives Phi1,
   Phi2, |Phi2| <= M on the stencil) whose samples the data approximate within delta, the cubic of a cell is
   within 3 M H^2 + 3/2 delta of Phi.  Taylor's theorem with Lagrange remainder comes from Coquelicot
   (Taylor_Lagrange); no hypothesis of Taylor type is left.  Assumptions: those of the standard library's real numbers
   (they appear under Print Assumptions and are named in the check's trusted base). *)
From Coq Require Import QArith Reals Qreals Lra Lia.
From Coquelicot Require Import Coquelicot.
Require Import Cherab.Model.C14_Cache Cherab.Model.C14_Caching.
Require Import Cherab.Proofs.C14_Find Cherab.Proofs.C14_Dim1 Cherab.Proofs.C14_Tensor Cherab.Proofs.C14_Error.
Open Scope R_scope.

Section Taylor.
  Variables F F1 F2 : R -> R.
  Hypothesis D1 : forall s, is_derive F s (F1 s).
  Hypothesis D2 : forall s, is_derive F1 s (F2 s).

  Lemma taylor_forward t y M : t < y -> (forall s, t <= s <= y -> Rabs (F2 s) <= M) ->
    Rabs (F y - F t - F1 t * (y - t)) <= M / 2 * ((y - t) * (y - t)).
  Proof.
    intros Hty HM.
    destruct (Taylor_Lagrange F 1 t y Hty) as (zeta & Hz & E).
    { intros s _ k Hk. destruct k as [|[|[|k]]]; try (exfalso; lia).
      - exact I.
      - exists (F1 s). apply D1.
      - simpl. apply ex_derive_ext with F1.
        + intro u. symmetry. apply is_derive_unique. apply D1.
        + exists (F2 s). apply D2. }
    assert (E1 : Derive F t = F1 t) by (apply is_derive_unique; apply D1).
    assert (E2 : Derive (Derive F) zeta = F2 zeta).
    { rewrite (Derive_ext (Derive F) F1) by (intro u; apply is_derive_unique; apply D1).
      apply is_derive_unique. apply D2. }
    simpl in E.
    change (Derive (fun x : R => F x) t) with (Derive F t) in E.
    change (Derive (fun x : R => Derive (fun x0 : R => F x0) x) zeta) with (Derive (Derive F) zeta) in E.
    rewrite E1, E2 in E.
    replace (F y - F t - F1 t * (y - t)) with ((y - t) * (y - t) / 2 * F2 zeta) by (rewrite E; field).
    assert (B : Rabs (F2 zeta) <= M) by (apply HM; lra).
    rewrite Rabs_mult. rewrite (Rabs_pos_eq ((y - t) * (y - t) / 2)) by nra.
    assert (0 <= (y - t) * (y - t) / 2) by nra. nra.
  Qed.
End Taylor.

Lemma derive_mirror (F F1 : R -> R) : (forall s, is_derive F s (F1 s)) ->
  forall s, is_derive (fun u => F (- u)) s (- F1 (- s)).
Proof.
  intros D s.
  assert (H : is_derive (fun u : R => F (- u)) s (scal (- 1) (F1 (- s)))).
  { apply (is_derive_comp F (fun u => - u) s (F1 (- s)) (- 1)); [apply D|].
    apply (is_derive_opp (fun u : R => u) s 1). apply (is_derive_id s). }
  unfold scal in H; simpl in H; unfold mult in H; simpl in H.
  replace (- F1 (- s)) with (-1 * F1 (- s)) by ring. exact H.
Qed.
Lemma derive_mirror2 (F1 F2 : R -> R) : (forall s, is_derive F1 s (F2 s)) ->
  forall s, is_derive (fun u => - F1 (- u)) s (F2 (- s)).
Proof.
  intros D s.
  pose proof (derive_mirror F1 F2 D s) as H.
  apply (is_derive_opp (fun u => F1 (- u)) s (- F2 (- s))) in H.
  unfold opp in H; simpl in H. replace (F2 (- s)) with (- - F2 (- s)) by ring. exact H.
Qed.

(* Taylor's inequality about any point t, for y on either side *)
Lemma taylor_R (F F1 F2 : R -> R) t y a b M :
  (forall s, is_derive F s (F1 s)) -> (forall s, is_derive F1 s (F2 s)) ->
  (forall s, a <= s <= b -> Rabs (F2 s) <= M) -> a <= t <= b -> a <= y <= b ->
  Rabs (F y - F t - F1 t * (y - t)) <= M / 2 * ((y - t) * (y - t)).
Proof.
  intros D1 D2 HM Ht Hy.
  destruct (Rtotal_order t y) as [L|[E|G]].
  - apply (taylor_forward F F1 F2 D1 D2 t y M L). intros s Hs. apply HM. lra.
  - subst y. replace (F t - F t - F1 t * (t - t)) with 0 by ring. rewrite Rabs_R0.
    assert (0 <= M) by (apply Rle_trans with (Rabs (F2 t)); [apply Rabs_pos|apply HM; lra]). nra.
  - pose proof (taylor_forward (fun u => F (- u)) (fun u => - F1 (- u)) (fun u => F2 (- u))
                  (derive_mirror F F1 D1) (derive_mirror2 F1 F2 D2) (- t) (- y) M ltac:(lra)) as T.
    cbv beta in T. rewrite !Ropp_involutive in T.
    replace (F y - F t - F1 t * (y - t)) with (F y - F t - - F1 t * (- y - - t)) by ring.
    replace ((y - t) * (y - t)) with ((- y - - t) * (- y - - t)) by ring.
    apply T. intros s Hs. apply HM. lra.
Qed.

Lemma Q2R_0 : Q2R 0 = 0. Proof. unfold Q2R; simpl; lra. Qed.
Lemma Q2R_1 : Q2R 1 = 1. Proof. unfold Q2R; simpl; lra. Qed.

(* ---- one cell, data within delta of the samples of Phi ---- *)
Lemma HL_error_R (xm x0 x1 x2 dm d0 d1 d2 t H : Q) (Phi Phi1 Phi2 : R -> R) (M delta : R) :
  (xm < x0)%Q -> (x0 < x1)%Q -> (x1 < x2)%Q -> (x0 <= t <= x1)%Q ->
  (x0 - xm <= H)%Q -> (x1 - x0 <= H)%Q -> (x2 - x1 <= H)%Q ->
  (forall s, is_derive Phi s (Phi1 s)) -> (forall s, is_derive Phi1 s (Phi2 s)) ->
  (forall s, Q2R xm <= s <= Q2R x2 -> Rabs (Phi2 s) <= M) ->
  Rabs (Q2R dm - Phi (Q2R xm)) <= delta -> Rabs (Q2R d0 - Phi (Q2R x0)) <= delta ->
  Rabs (Q2R d1 - Phi (Q2R x1)) <= delta -> Rabs (Q2R d2 - Phi (Q2R x2)) <= delta ->
  Rabs (Q2R (HL xm x0 x1 x2 dm d0 d1 d2 t) - Phi (Q2R t)) <= 3 * M * (Q2R H * Q2R H) + 3 / 2 * delta.
Proof.
  intros Hm H01 H12 [Ht0 Ht1] Sm S0 S1 D1 D2 HM Em E0 E1 E2.
  destruct (HL_weights xm x0 x1 x2 t Hm H01 H12 (conj Ht0 Ht1))
    as (Pm & P0 & P1 & P2 & Nm & N0 & N1 & N2 & Tot & Sum & Mom & Id).
  apply Qlt_Rlt in Hm, H01, H12. apply Qle_Rle in Ht0, Ht1, Sm, S0, S1, Nm, N0, N1, N2, Tot.
  apply Qeq_eqR in Sum, Mom. specialize (Id dm d0 d1 d2). apply Qeq_eqR in Id.
  repeat rewrite ?Q2R_plus, ?Q2R_minus, ?Q2R_mult, ?Q2R_opp in *.
  rewrite Q2R_0 in *. rewrite Q2R_1 in Sum.
  replace (Q2R (3 # 2)) with (3 / 2) in Tot by (unfold Q2R; simpl; lra).
  set (Xm := Q2R xm) in *. set (X0 := Q2R x0) in *. set (X1 := Q2R x1) in *. set (X2 := Q2R x2) in *.
  set (T := Q2R t) in *. set (Hh := Q2R H) in *.
  set (pm := Q2R Pm) in *. set (p0 := Q2R P0) in *. set (p1 := Q2R P1) in *. set (p2 := Q2R P2) in *.
  rewrite Id. clear Id.
  assert (HM0 : 0 <= M) by (apply Rle_trans with (Rabs (Phi2 T)); [apply Rabs_pos|apply HM; lra]).
  assert (Hd : 0 <= delta) by (apply Rle_trans with (Rabs (Q2R d0 - Phi X0)); [apply Rabs_pos|exact E0]).
  (* Taylor at T for the four nodes *)
  assert (TY : forall Y, Xm <= Y <= X2 -> - (2 * Hh) <= Y - T <= 2 * Hh ->
               Rabs (Phi Y - Phi T - Phi1 T * (Y - T)) <= 2 * M * (Hh * Hh)).
  { intros Y HY HD.
    apply Rle_trans with (M / 2 * ((Y - T) * (Y - T))).
    - apply (taylor_R Phi Phi1 Phi2 T Y Xm X2 M D1 D2 HM); lra.
    - assert ((Y - T) * (Y - T) <= 4 * (Hh * Hh)) by nra. nra. }
  pose proof (TY Xm ltac:(lra) ltac:(lra)) as Tm. pose proof (TY X0 ltac:(lra) ltac:(lra)) as T0.
  pose proof (TY X1 ltac:(lra) ltac:(lra)) as T1. pose proof (TY X2 ltac:(lra) ltac:(lra)) as T2.
  set (B := delta + 2 * M * (Hh * Hh)).
  assert (Bm : Rabs (Q2R dm - (Phi T + Phi1 T * (Xm - T))) <= B).
  { replace (Q2R dm - (Phi T + Phi1 T * (Xm - T))) with ((Q2R dm - Phi Xm) + (Phi Xm - Phi T - Phi1 T * (Xm - T))) by ring.
    eapply Rle_trans; [apply Rabs_triang|]. unfold B. lra. }
  assert (B0 : Rabs (Q2R d0 - (Phi T + Phi1 T * (X0 - T))) <= B).
  { replace (Q2R d0 - (Phi T + Phi1 T * (X0 - T))) with ((Q2R d0 - Phi X0) + (Phi X0 - Phi T - Phi1 T * (X0 - T))) by ring.
    eapply Rle_trans; [apply Rabs_triang|]. unfold B. lra. }
  assert (B1 : Rabs (Q2R d1 - (Phi T + Phi1 T * (X1 - T))) <= B).
  { replace (Q2R d1 - (Phi T + Phi1 T * (X1 - T))) with ((Q2R d1 - Phi X1) + (Phi X1 - Phi T - Phi1 T * (X1 - T))) by ring.
    eapply Rle_trans; [apply Rabs_triang|]. unfold B. lra. }
  assert (B2 : Rabs (Q2R d2 - (Phi T + Phi1 T * (X2 - T))) <= B).
  { replace (Q2R d2 - (Phi T + Phi1 T * (X2 - T))) with ((Q2R d2 - Phi X2) + (Phi X2 - Phi T - Phi1 T * (X2 - T))) by ring.
    eapply Rle_trans; [apply Rabs_triang|]. unfold B. lra. }
  set (em := Q2R dm - (Phi T + Phi1 T * (Xm - T))) in *. set (e0 := Q2R d0 - (Phi T + Phi1 T * (X0 - T))) in *.
  set (e1 := Q2R d1 - (Phi T + Phi1 T * (X1 - T))) in *. set (e2 := Q2R d2 - (Phi T + Phi1 T * (X2 - T))) in *.
  assert (Dec : - pm * Q2R dm + p0 * Q2R d0 + p1 * Q2R d1 - p2 * Q2R d2 - Phi T = - pm * em + p0 * e0 + p1 * e1 - p2 * e2).
  { unfold em, e0, e1, e2.
    replace (- pm * (Q2R dm - (Phi T + Phi1 T * (Xm - T))) + p0 * (Q2R d0 - (Phi T + Phi1 T * (X0 - T)))
             + p1 * (Q2R d1 - (Phi T + Phi1 T * (X1 - T))) - p2 * (Q2R d2 - (Phi T + Phi1 T * (X2 - T))))
      with (- pm * Q2R dm + p0 * Q2R d0 + p1 * Q2R d1 - p2 * Q2R d2
            - (Phi T - Phi1 T * T) * (- pm + p0 + p1 - p2) - Phi1 T * (- pm * Xm + p0 * X0 + p1 * X1 - p2 * X2)) by ring.
    rewrite Sum, Mom. ring. }
  rewrite Dec.
  apply Rabs_le_between in Bm, B0, B1, B2.
  assert (HB : 0 <= B) by (unfold B; nra).
  apply Rabs_le_between.
  replace (3 * M * (Hh * Hh) + 3 / 2 * delta) with (3 / 2 * B) by (unfold B; field).
  clearbody em e0 e1 e2 B. nra.
Qed.

(* a twice differentiable function of one real variable with second derivative bounded by M on [a, b] *)
Definition C2_bounded (Phi : R -> R) (a b M : R) : Prop :=
  exists Phi1 Phi2, (forall s, is_derive Phi s (Phi1 s)) /\ (forall s, is_derive Phi1 s (Phi2 s)) /\
                    (forall s, a <= s <= b -> Rabs (Phi2 s) <= M).

Definition spacing_leQ (x : Z -> Q) (i : Z) (H : Q) : Prop :=
  (x i - x (i - 1)%Z <= H)%Q /\ (x (i + 1)%Z - x i <= H)%Q /\ (x (i + 2)%Z - x (i + 1)%Z <= H)%Q.

(* the cubic of cell i through rational data g(x_k) that are within delta of Phi(x_k) *)
Lemma spec1_error_R x top (g : Q -> Q) i (t H : Q) Phi M delta :
  increasing x top -> (1 <= i <= top - 2)%Z -> (x i <= t <= x (i + 1)%Z)%Q -> spacing_leQ x i H ->
  C2_bounded Phi (Q2R (x (i - 1)%Z)) (Q2R (x (i + 2)%Z)) M ->
  (forall k, (i - 1 <= k <= i + 2)%Z -> Rabs (Q2R (g (x k)) - Phi (Q2R (x k))) <= delta) ->
  Rabs (Q2R (spec1 x g i t) - Phi (Q2R t)) <= 3 * M * (Q2R H * Q2R H) + 3 / 2 * delta.
Proof.
  intros Hinc Hi Ht (S1 & S2 & S3) (Phi1 & Phi2 & D1 & D2 & HM) Hd. unfold spec1.
  apply (HL_error_R _ _ _ _ _ _ _ _ t H Phi Phi1 Phi2 M delta); try assumption.
  - apply (increasing_lt x top Hinc); lia.
  - apply (increasing_lt x top Hinc); lia.
  - apply (increasing_lt x top Hinc); lia.
  - apply Hd; lia.
  - apply Hd; lia.
  - apply Hd; lia.
  - apply Hd; lia.
Qed.

(* ---- Caching1D after any history: f is the (rational-valued, e.g. double precision) wrapped function, Phi the
   twice differentiable real function it samples within delta ---- *)
Theorem after1_error_R x top fb nbe (f : Q -> Q) hist p i v H Phi M delta :
  increasing x top -> (3 <= top)%Z ->
  locate1 x top p = Some i -> eval_after1 fb nbe x top f hist p = Val v -> spacing_leQ x i H ->
  C2_bounded Phi (Q2R (x (i - 1)%Z)) (Q2R (x (i + 2)%Z)) M ->
  (forall k, (i - 1 <= k <= i + 2)%Z -> Rabs (Q2R (f (x k)) - Phi (Q2R (x k))) <= delta) ->
  Rabs (Q2R v - Phi (Q2R p)) <= 3 * M * (Q2R H * Q2R H) + 3 / 2 * delta.
Proof.
  intros Hinc Htop L E S C Hd.
  destruct (after1_spec x top Hinc Htop fb nbe f hist p i L) as (v' & E' & V).
  rewrite E in E'. injection E' as <-. rewrite (Qeq_eqR _ _ V).
  destruct (locate1_sound x top p i ltac:(lia) L) as (Hi & Hlo & Hhi).
  apply (spec1_error_R x top f i p H Phi M delta); try assumption.
  split; [exact Hlo|apply Qlt_le_weak; exact Hhi].
Qed.

(* ---- Caching2D: F : R -> R -> R twice differentiable along each axis on the grid lines through the cell ---- *)
Theorem after2_error_R x y topx topy fb nbe (f : Q * Q -> Q) hist px py i j v Hx Hy (F : R -> R -> R) Mx My delta :
  increasing x topx -> increasing y topy -> (3 <= topx)%Z -> (3 <= topy)%Z ->
  locate2 x y topx topy (px, py) = Some (i, j) ->
  eval_after2 fb nbe x y topx topy f hist (px, py) = Val v ->
  spacing_leQ x i Hx -> spacing_leQ y j Hy ->
  (forall u, (i - 1 <= u <= i + 2)%Z -> C2_bounded (fun b => F (Q2R (x u)) b) (Q2R (y (j - 1)%Z)) (Q2R (y (j + 2)%Z)) My) ->
  C2_bounded (fun a => F a (Q2R py)) (Q2R (x (i - 1)%Z)) (Q2R (x (i + 2)%Z)) Mx ->
  (forall u w, (i - 1 <= u <= i + 2)%Z -> (j - 1 <= w <= j + 2)%Z ->
               Rabs (Q2R (f (x u, y w)) - F (Q2R (x u)) (Q2R (y w))) <= delta) ->
  Rabs (Q2R v - F (Q2R px) (Q2R py))
  <= 3 * Mx * (Q2R Hx * Q2R Hx) + 3 / 2 * (3 * My * (Q2R Hy * Q2R Hy) + 3 / 2 * delta).
Proof.
  intros HIx HIy Tx Ty L E Sx Sy CY CX Hd.
  destruct (after2_spec x y topx topy HIx HIy Tx Ty fb nbe f hist (px, py) (i, j) L) as (v' & E' & V).
  rewrite E in E'. injection E' as <-. rewrite (Qeq_eqR _ _ V).
  destruct (locate2_sound x y topx topy (px, py) i j ltac:(lia) ltac:(lia) L) as (L1 & L2).
  cbn [fst snd] in L1, L2.
  destruct (locate1_sound x topx px i ltac:(lia) L1) as (Hi & Hxl & Hxh).
  destruct (locate1_sound y topy py j ltac:(lia) L2) as (Hj & Hyl & Hyh).
  unfold spec2. cbn [fst snd].
  apply (spec1_error_R x topx (fun a => spec1 y (fun b => f (a, b)) j py) i px Hx (fun a => F a (Q2R py)) Mx
           (3 * My * (Q2R Hy * Q2R Hy) + 3 / 2 * delta)); try assumption.
  - split; [exact Hxl|apply Qlt_le_weak; exact Hxh].
  - intros u Hu. cbv beta.
    apply (spec1_error_R y topy (fun b => f (x u, b)) j py Hy (fun b => F (Q2R (x u)) b) My delta); try assumption.
    + split; [exact Hyl|apply Qlt_le_weak; exact Hyh].
    + apply CY; exact Hu.
    + intros w Hw. apply Hd; assumption.
Qed.

(* ---- Caching3D ---- *)
Theorem after3_error_R x y z topx topy topz fb nbe (f : Q * Q * Q -> Q) hist px py pz i j k v Hx Hy Hz
        (F : R -> R -> R -> R) Mx My Mz delta :
  increasing x topx -> increasing y topy -> increasing z topz -> (3 <= topx)%Z -> (3 <= topy)%Z -> (3 <= topz)%Z ->
  locate3 x y z topx topy topz (px, py, pz) = Some (i, j, k) ->
  eval_after3 fb nbe x y z topx topy topz f hist (px, py, pz) = Val v ->
  spacing_leQ x i Hx -> spacing_leQ y j Hy -> spacing_leQ z k Hz ->
  (forall u w, (i - 1 <= u <= i + 2)%Z -> (j - 1 <= w <= j + 2)%Z ->
     C2_bounded (fun c => F (Q2R (x u)) (Q2R (y w)) c) (Q2R (z (k - 1)%Z)) (Q2R (z (k + 2)%Z)) Mz) ->
  (forall u, (i - 1 <= u <= i + 2)%Z ->
     C2_bounded (fun b => F (Q2R (x u)) b (Q2R pz)) (Q2R (y (j - 1)%Z)) (Q2R (y (j + 2)%Z)) My) ->
  C2_bounded (fun a => F a (Q2R py) (Q2R pz)) (Q2R (x (i - 1)%Z)) (Q2R (x (i + 2)%Z)) Mx ->
  (forall u w q, (i - 1 <= u <= i + 2)%Z -> (j - 1 <= w <= j + 2)%Z -> (k - 1 <= q <= k + 2)%Z ->
     Rabs (Q2R (f (x u, y w, z q)) - F (Q2R (x u)) (Q2R (y w)) (Q2R (z q))) <= delta) ->
  Rabs (Q2R v - F (Q2R px) (Q2R py) (Q2R pz))
  <= 3 * Mx * (Q2R Hx * Q2R Hx) + 3 / 2 * (3 * My * (Q2R Hy * Q2R Hy) + 3 / 2 * (3 * Mz * (Q2R Hz * Q2R Hz) + 3 / 2 * delta)).
Proof.
  intros HIx HIy HIz Tx Ty Tz L E Sx Sy Sz CZ CY CX Hd.
  destruct (after3_spec x y z topx topy topz HIx HIy HIz Tx Ty Tz fb nbe f hist (px, py, pz) (i, j, k) L) as (v' & E' & V).
  rewrite E in E'. injection E' as <-. rewrite (Qeq_eqR _ _ V).
  destruct (locate3_sound x y z topx topy topz (px, py, pz) i j k L) as (L1 & L2 & L3).
  cbn [fst snd] in L1, L2, L3.
  destruct (locate1_sound x topx px i ltac:(lia) L1) as (Hi & Hxl & Hxh).
  destruct (locate1_sound y topy py j ltac:(lia) L2) as (Hj & Hyl & Hyh).
  destruct (locate1_sound z topz pz k ltac:(lia) L3) as (Hk & Hzl & Hzh).
  unfold spec3.
  apply (spec1_error_R x topx (fun a => spec1 y (fun b => spec1 z (fun c => f (a, b, c)) k pz) j py) i px Hx
           (fun a => F a (Q2R py) (Q2R pz)) Mx
           (3 * My * (Q2R Hy * Q2R Hy) + 3 / 2 * (3 * Mz * (Q2R Hz * Q2R Hz) + 3 / 2 * delta))); try assumption.
  - split; [exact Hxl|apply Qlt_le_weak; exact Hxh].
  - intros u Hu. cbv beta.
    apply (spec1_error_R y topy (fun b => spec1 z (fun c => f (x u, b, c)) k pz) j py Hy
             (fun b => F (Q2R (x u)) b (Q2R pz)) My (3 * Mz * (Q2R Hz * Q2R Hz) + 3 / 2 * delta)); try assumption.
    + split; [exact Hyl|apply Qlt_le_weak; exact Hyh].
    + apply CY; exact Hu.
    + intros w Hw. cbv beta.
      apply (spec1_error_R z topz (fun c => f (x u, y w, c)) k pz Hz (fun c => F (Q2R (x u)) (Q2R (y w)) c) Mz delta);
        try assumption.
      * split; [exact Hzl|apply Qlt_le_weak; exact Hzh].
      * apply CZ; assumption.
      * intros q Hq. apply Hd; assumption.
Qed.
