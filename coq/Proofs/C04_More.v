(* C04, deepening round: interpolation through the knots, the trapezoid loop against its specification,
   order independence of the species, node layout, positivity / peak on the axis, clamped flux. *)
Require Import Cherab.Common.Qx.
From Coq Require Import Lqa Qround Permutation.
Require Import Cherab.Model.C04_Beam Cherab.Proofs.C04_Stopping Cherab.Proofs.C04_Trapz Cherab.Proofs.C04_Density.
Open Scope Q_scope.

(* ---- the interpolant passes through its knots ---- *)
Lemma nodes_ok_later (P : Q -> Q -> Prop) rest : forall z0 y0 z y,
  nodes_ok P z0 y0 rest -> In (z, y) rest -> z0 < z.
Proof.
  induction rest as [|[z1 y1] rest IH]; intros z0 y0 z y Hok Hin; [destruct Hin|].
  destruct Hok as (H01 & _ & Hok). destruct Hin as [E|Hin].
  - inversion E; subst. exact H01.
  - pose proof (IH z1 y1 z y Hok Hin). lra.
Qed.

Lemma interp_from_at_knot (P : Q -> Q -> Prop) rest : forall z0 y0 z y,
  nodes_ok P z0 y0 rest -> In (z, y) rest -> interp_from z0 y0 rest z == y.
Proof.
  induction rest as [|[z1 y1] rest IH]; intros z0 y0 z y Hok Hin; [destruct Hin|].
  destruct Hok as (H01 & _ & Hok). cbn [interp_from]. destruct Hin as [E|Hin].
  - inversion E; subst. assert (Hb : Qle_bool z z = true) by (apply Qle_bool_iff; lra). rewrite Hb.
    field. lra.
  - pose proof (nodes_ok_later P rest z1 y1 z y Hok Hin) as Hlt.
    destruct (Qle_bool z z1) eqn:E; [apply Qle_bool_iff in E; lra|]. apply (IH z1 y1 z y Hok Hin).
Qed.

Lemma lin_interp_at_knot (P : Q -> Q -> Prop) nodes z y :
  nodes_list_ok P nodes -> In (z, y) nodes -> lin_interp nodes z == y.
Proof.
  destruct nodes as [|[z0 y0] rest]; intros Hok Hin; [destruct Hin|]. cbn [lin_interp nodes_list_ok] in *.
  destruct Hin as [E|Hin].
  - inversion E; subst. assert (Hb : Qle_bool z z = true) by (apply Qle_bool_iff; lra). rewrite Hb. reflexivity.
  - pose proof (nodes_ok_later P rest z0 y0 z y Hok Hin) as Hlt.
    destruct (Qle_bool z z0) eqn:E; [apply Qle_bool_iff in E; lra|]. apply (interp_from_at_knot P rest z0 y0 z y Hok Hin).
Qed.

(* ---- the cumulative-trapezoid loop refines its specification: prefix sums of the trapezoid areas ---- *)
Fixpoint areas (z0 s0 : Q) (l : list (Q * Q)) : list Q :=
  match l with [] => [] | (z1, s1) :: t => (z1 - z0) * (s0 + s1) / 2 :: areas z1 s1 t end.
Fixpoint prefix_sums (acc : Q) (l : list Q) : list Q :=
  match l with [] => [] | a :: t => (acc + a) :: prefix_sums (acc + a) t end.

Lemma cumtrapz_from_spec l : forall acc acc' z0 s0, acc == acc' ->
  Forall2 Qeq (cumtrapz_from acc z0 s0 l) (prefix_sums acc' (areas z0 s0 l)).
Proof.
  induction l as [|[z1 s1] l IH]; intros acc acc' z0 s0 E; cbn [cumtrapz_from areas prefix_sums]; [constructor|].
  assert (E' : Qred (acc + (z1 - z0) * (s0 + s1) / 2) == acc' + (z1 - z0) * (s0 + s1) / 2) by (rewrite Qred_correct, E; reflexivity).
  constructor; [exact E' | apply IH; exact E'].
Qed.

Lemma cumtrapz_spec z0 s0 l :
  Forall2 Qeq (cumtrapz ((z0, s0) :: l)) (0 :: prefix_sums 0 (areas z0 s0 l)).
Proof. cbn [cumtrapz]. constructor; [reflexivity | apply cumtrapz_from_spec; reflexivity]. Qed.

(* ---- the order of the species does not matter ---- *)
Lemma Qsum_perm l l' : Permutation l l' -> Qsum l == Qsum l'.
Proof.
  induction 1 as [|x l l' _ IH|x y l|l l' l'' _ IH1 _ IH2]; cbn [Qsum].
  - reflexivity.
  - rewrite IH. reflexivity.
  - ring.
  - rewrite IH1. exact IH2.
Qed.

Lemma density_sum_perm sp sp' r : Permutation sp sp' -> density_sum sp r == density_sum sp' r.
Proof. intros H. rewrite !density_sum_spec. apply Qsum_perm, Permutation_map, H. Qed.

Lemma beam_stopping_perm cf sp sp' bv r :
  Permutation sp sp' ->
  (forall s, In s sp -> forall e n n' t, n == n' -> sp_coef s e n t == sp_coef s e n' t) ->
  beam_stopping cf sp bv r == beam_stopping cf sp' bv r.
Proof.
  intros Hp Hc. rewrite !beam_stopping_spec.
  rewrite (Qsum_map_ext _ (fun s => sp_charge s * sp_dens s r *
             sp_coef s (interaction_energy cf bv s r) (density_sum sp' r / sp_charge s) (sp_temp s r))).
  - apply Qsum_perm, Permutation_map, Hp.
  - intros s Hs. rewrite (Hc s Hs _ (density_sum sp r / sp_charge s) (density_sum sp' r / sp_charge s)); [reflexivity|].
    rewrite (density_sum_perm sp sp' r Hp). reflexivity.
Qed.

(* ---- layout of the axis nodes ---- *)
Lemma nbeam_ge_4 c : (4 <= nbeam c)%Z.
Proof. unfold nbeam. lia. Qed.

Lemma node_first c n : node_z c n 0 == 0.
Proof. unfold node_z. rewrite Qred_correct. unfold Qdiv. change (inject_Z 0) with 0. ring. Qed.

Lemma node_last c n : (2 <= n)%Z -> node_z c n (n - 1) == b_len c.
Proof.
  intros Hn. unfold node_z. rewrite Qred_correct. field.
  intros E. assert (H : 0 < inject_Z (n - 1)) by (change 0 with (inject_Z 0); rewrite <- Zlt_Qlt; lia). lra.
Qed.

(* the actual spacing of the nodes never exceeds the requested step *)
Lemma node_spacing_le_step c : 0 < b_len c -> 0 < a_step c -> b_len c / inject_Z (nbeam c - 1) <= a_step c.
Proof.
  intros Hl Hs.
  assert (Hq : 0 < b_len c / a_step c) by (apply Qlt_shift_div_l; lra).
  pose proof (Qle_ceiling (b_len c / a_step c)) as Hc.
  assert (Hn : inject_Z (Qceiling (b_len c / a_step c)) <= inject_Z (nbeam c - 1)).
  { rewrite <- Zle_Qle. unfold nbeam. lia. }
  assert (Hpos : 0 < inject_Z (nbeam c - 1)) by lra.
  apply Qle_shift_div_r; [exact Hpos|].
  assert (H1 : b_len c / a_step c * a_step c == b_len c) by (field; lra).
  assert (H2 : b_len c / a_step c * a_step c <= inject_Z (nbeam c - 1) * a_step c).
  { apply Qmult_le_compat_r; lra. }
  rewrite H1 in H2. setoid_replace (a_step c * inject_Z (nbeam c - 1)) with (inject_Z (nbeam c - 1) * a_step c) by ring. exact H2.
Qed.

(* ---- positivity everywhere, and the density at (x, y, z) never exceeds the on-axis density at z ---- *)
Section Peak.
  Variables sqrtf expf : Q -> Q.
  Hypothesis sqrt_pos : forall x, 0 < x -> 0 < sqrtf x.
  Hypothesis exp_nonneg : forall x, 0 <= expf x.
  Hypothesis exp_mono : forall x y, x <= y -> expf x <= expf y.
  Hypothesis exp_proper : forall x y, x == y -> expf x == expf y.
  Variable c : beam_cfg.
  Hypothesis Hsig : 0 < b_sigma c.
  Hypothesis Hpi : 0 < k_pi c.

  Lemma gauss2_nonneg u v : 0 <= gauss2 expf c u v.
  Proof.
    unfold gauss2, Qdiv. apply Qmult_le_0_compat; [apply exp_nonneg|]. apply Qlt_le_weak, Qinv_lt_0_compat. lra.
  Qed.

  Lemma gauss2_mono a b u v : a * a + b * b <= u * u + v * v -> gauss2 expf c u v <= gauss2 expf c a b.
  Proof.
    intros H. unfold gauss2. unfold Qdiv. apply Qmult_le_compat_r; [|apply Qlt_le_weak, Qinv_lt_0_compat; lra].
    apply exp_mono. lra.
  Qed.

  Lemma density_nonneg nd x y z : 0 <= lin_interp nd z -> 0 <= beam_density_with sqrtf expf nd c x y z.
  Proof.
    intros HL. unfold beam_density_with. destruct (Qltb z 0 || Qltb (b_len c) z); [lra|].
    unfold attenuator_density_with, density_core.
    destruct (a_clamp c && Qltb (clamp_sigma_sqr c) _); [lra|].
    pose proof (sigma_x_pos sqrtf sqrt_pos c Hsig z). pose proof (sigma_y_pos sqrtf sqrt_pos c Hsig z).
    apply Qmult_le_0_compat; [exact HL|]. unfold gaussian_of, Qdiv.
    apply Qmult_le_0_compat; [apply exp_nonneg|]. apply Qlt_le_weak, Qinv_lt_0_compat. repeat apply Qmult_lt_0_compat; lra.
  Qed.

  Lemma density_peaks_on_axis nd x y z : 0 <= lin_interp nd z ->
    beam_density_with sqrtf expf nd c x y z <= beam_density_with sqrtf expf nd c 0 0 z.
  Proof.
    intros HL.
    destruct (Qlt_le_dec z 0) as [Hz|Hz].
    { rewrite (zero_before_source sqrtf expf c nd x y z Hz), (zero_before_source sqrtf expf c nd 0 0 z Hz). lra. }
    destruct (Qlt_le_dec (b_len c) z) as [Hl|Hl].
    { rewrite (zero_beyond_length sqrtf expf c nd x y z Hl), (zero_beyond_length sqrtf expf c nd 0 0 z Hl). lra. }
    pose proof (sigma_x_pos sqrtf sqrt_pos c Hsig z) as Hx. pose proof (sigma_y_pos sqrtf sqrt_pos c Hsig z) as Hy.
    rewrite (density_inside sqrtf expf sqrt_pos exp_proper c Hsig Hpi nd 0 0 z Hz Hl
               (on_axis_not_clamped sqrtf sqrt_pos c Hsig z)).
    destruct (a_clamp c && Qltb (clamp_sigma_sqr c) (norm_radius_sqr sqrtf c x y z)) eqn:Ec.
    - assert (E0 : beam_density_with sqrtf expf nd c x y z = 0).
      { unfold beam_density_with. rewrite (Qltb_false z 0 Hz), (Qltb_false (b_len c) z Hl). cbn [orb].
        unfold attenuator_density_with, density_core. unfold norm_radius_sqr in Ec. rewrite Ec. reflexivity. }
      rewrite E0. unfold g2. apply Qmult_le_0_compat; [exact HL|]. unfold Qdiv.
      apply Qmult_le_0_compat; [apply gauss2_nonneg|]. apply Qlt_le_weak, Qinv_lt_0_compat, Qmult_lt_0_compat; lra.
    - rewrite (density_inside sqrtf expf sqrt_pos exp_proper c Hsig Hpi nd x y z Hz Hl Ec).
      assert (Hg : gauss2 expf c (x / sigma_x sqrtf c z) (y / sigma_y sqrtf c z) <=
                   gauss2 expf c (0 / sigma_x sqrtf c z) (0 / sigma_y sqrtf c z)).
      { apply gauss2_mono. pose proof (sqr_nonneg (x / sigma_x sqrtf c z)). pose proof (sqr_nonneg (y / sigma_y sqrtf c z)).
        setoid_replace (0 / sigma_x sqrtf c z * (0 / sigma_x sqrtf c z) + 0 / sigma_y sqrtf c z * (0 / sigma_y sqrtf c z)) with 0
          by (field; split; lra). lra. }
      assert (Hp : 0 < sigma_x sqrtf c z * sigma_y sqrtf c z) by (apply Qmult_lt_0_compat; lra).
      unfold g2.
      set (G0 := gauss2 expf c (0 / sigma_x sqrtf c z) (0 / sigma_y sqrtf c z)) in *.
      set (G := gauss2 expf c (x / sigma_x sqrtf c z) (y / sigma_y sqrtf c z)) in *.
      set (D := sigma_x sqrtf c z * sigma_y sqrtf c z) in *.
      assert (H1 : G / D <= G0 / D).
      { unfold Qdiv. apply Qmult_le_compat_r; [exact Hg|]. apply Qlt_le_weak, Qinv_lt_0_compat; exact Hp. }
      assert (H2 : 0 <= lin_interp nd z * (G0 / D - G / D)) by (apply Qmult_le_0_compat; lra).
      setoid_replace (lin_interp nd z * (G0 / D - G / D)) with (lin_interp nd z * (G0 / D) - lin_interp nd z * (G / D)) in H2 by ring.
      lra.
  Qed.
End Peak.

(* ---- clamped flux: the cross-section integral with clamp_to_zero is the line density times the
        integral of the unit Gaussian cut off at the clamp radius (a number that does not depend on z,
        sigma or the divergence); with the analytic value of that integral, 1 - exp(-clamp_sigma^2/2),
        it is the documented tail factor ---- *)
Lemma Qltb_proper a q q' : q == q' -> Qltb a q = Qltb a q'.
Proof.
  intros E. unfold Qltb. destruct (Qle_bool q a) eqn:E1; destruct (Qle_bool q' a) eqn:E2; try reflexivity.
  - apply Qle_bool_iff in E1. rewrite E in E1. apply Qle_bool_iff in E1. congruence.
  - apply Qle_bool_iff in E2. rewrite <- E in E2. apply Qle_bool_iff in E2. congruence.
Qed.

Section ClampedFlux.
  Variables sqrtf expf : Q -> Q.
  Hypothesis sqrt_pos : forall x, 0 < x -> 0 < sqrtf x.
  Hypothesis exp_proper : forall x y, x == y -> expf x == expf y.
  Variable c : beam_cfg.
  Hypothesis Hsig : 0 < b_sigma c.
  Hypothesis Hpi : 0 < k_pi c.

  Lemma density_clamped_form nd x y z : 0 <= z -> z <= b_len c -> a_clamp c = true ->
    beam_density_with sqrtf expf nd c x y z ==
    lin_interp nd z * (gauss2_clamped expf c (x / sigma_x sqrtf c z) (y / sigma_y sqrtf c z)
                       / (sigma_x sqrtf c z * sigma_y sqrtf c z)).
  Proof.
    intros H0 H1 Hc.
    pose proof (sigma_x_pos sqrtf sqrt_pos c Hsig z) as Hx. pose proof (sigma_y_pos sqrtf sqrt_pos c Hsig z) as Hy.
    unfold gauss2_clamped.
    destruct (Qltb (a_clamp_sigma c * a_clamp_sigma c)
                   (x / sigma_x sqrtf c z * (x / sigma_x sqrtf c z) + y / sigma_y sqrtf c z * (y / sigma_y sqrtf c z))) eqn:E.
    - assert (E0 : beam_density_with sqrtf expf nd c x y z = 0).
      { unfold beam_density_with. rewrite (Qltb_false z 0 H0), (Qltb_false (b_len c) z H1). cbn [orb].
        unfold attenuator_density_with, density_core, clamp_sigma_sqr, norm_radius_sqr_of. rewrite Hc. cbn [andb].
        rewrite (Qltb_proper _ _ _ (Qred_correct _)), E. reflexivity. }
      rewrite E0. field. split; lra.
    - apply (density_inside sqrtf expf sqrt_pos exp_proper c Hsig Hpi nd x y z H0 H1).
      unfold norm_radius_sqr, norm_radius_sqr_of, clamp_sigma_sqr. rewrite (Qltb_proper _ _ _ (Qred_correct _)), E.
      apply andb_false_r.
  Qed.

  Variable I2 : (Q -> Q -> Q) -> Q.
  Hypothesis I2_ext : forall f g, (forall x y, f x y == g x y) -> I2 f == I2 g.
  Hypothesis I2_scale : forall k f, I2 (fun x y => k * f x y) == k * I2 f.
  Hypothesis I2_subst : forall g sx sy, 0 < sx -> 0 < sy ->
    I2 (fun x y => g (x / sx) (y / sy) / (sx * sy)) == I2 g.

  Lemma flux_clamped nd z : 0 <= z -> z <= b_len c -> a_clamp c = true ->
    I2 (fun x y => beam_density_with sqrtf expf nd c x y z) == lin_interp nd z * I2 (gauss2_clamped expf c).
  Proof.
    intros H0 H1 Hc.
    rewrite (I2_ext _ (fun x y => lin_interp nd z *
               (gauss2_clamped expf c (x / sigma_x sqrtf c z) (y / sigma_y sqrtf c z) / (sigma_x sqrtf c z * sigma_y sqrtf c z)))).
    - rewrite I2_scale, (I2_subst (gauss2_clamped expf c) _ _ (sigma_x_pos sqrtf sqrt_pos c Hsig z) (sigma_y_pos sqrtf sqrt_pos c Hsig z)).
      reflexivity.
    - intros x y. apply density_clamped_form; assumption.
  Qed.
End ClampedFlux.
