(* Samples against chord lengths: k intervals, the step bound, the C cast, the angular period. *)
Require Import Cherab.Common.Qx.
Require Import Cherab.Model.C10_RayTransfer Cherab.Proofs.C10_Count.
From Coq Require Import Qround Qabs Lqa.
Open Scope Q_scope.

Lemma Qltb_lt a b : Qltb a b = true <-> a < b.
Proof.
  unfold Qltb. rewrite negb_true_iff. split; intros H.
  - apply Qnot_le_lt. intros G. apply Qle_bool_iff in G. congruence.
  - destruct (Qle_bool b a) eqn:E; [|reflexivity]. apply Qle_bool_iff in E. exfalso. apply (Qlt_not_le _ _ H E).
Qed.
Lemma Qltb_ge a b : Qltb a b = false <-> b <= a.
Proof.
  unfold Qltb. rewrite negb_false_iff. apply Qle_bool_iff.
Qed.

(* ------------------------------------------------------------------------------------------ *)
(* k intervals                                                                                  *)
(* ------------------------------------------------------------------------------------------ *)
Definition in_open (t : Q) (ab : Q * Q) : bool := Qltb (fst ab) t && Qltb t (snd ab).
Definition in_closed (t : Q) (ab : Q * Q) : bool := Qle_bool (fst ab) t && Qle_bool t (snd ab).
(* ordered, pairwise non-overlapping intervals above lo *)
Fixpoint chain (lo : Q) (l : list (Q * Q)) : Prop :=
  match l with [] => True | ab :: t => lo <= fst ab /\ fst ab <= snd ab /\ chain (snd ab) t end.
Fixpoint total_len (l : list (Q * Q)) : Q :=
  match l with [] => 0 | ab :: t => (snd ab - fst ab) + total_len t end.

Lemma chain_lb lo l : chain lo l -> forall ab, In ab l -> lo <= fst ab.
Proof.
  revert lo. induction l as [|x l IH]; intros lo H ab Hin; [destruct Hin|].
  destruct H as (H1 & H2 & H3). destruct Hin as [->|Hin]; [exact H1|].
  specialize (IH _ H3 ab Hin). lra.
Qed.

Section KIntervals.
  Variable dt : Q.
  Hypothesis Hdt : 0 < dt.
  Variable n : nat.
  Let len := inject_Z (Z.of_nat n) * dt.

  Lemma upper_list ivs lo : chain lo ivs ->
    dt * inject_Z (countk (fun k => existsb (in_closed (t_of dt k)) ivs) n)
    <= total_len ivs + inject_Z (Z.of_nat (length ivs)) * dt.
  Proof.
    revert lo. induction ivs as [|ab l IH]; intros lo Hc.
    - cbn [existsb length total_len Z.of_nat]. rewrite countk_none by reflexivity. change (inject_Z 0) with 0. lra.
    - destruct Hc as (H1 & H2 & H3). specialize (IH _ H3).
      cbn [existsb length total_len].
      pose proof (countk_or_le (fun k => in_closed (t_of dt k) ab) (fun k => existsb (in_closed (t_of dt k)) l) n) as Hor.
      assert (Hs := sandwich_upper dt Hdt n (fun k => in_closed (t_of dt k) ab) (fst ab) (snd ab) H2).
      assert (Hs' : dt * inject_Z (countk (fun k => in_closed (t_of dt k) ab) n) <= snd ab - fst ab + dt).
      { apply Hs. intros k _ Hk. unfold in_closed in Hk. apply andb_true_iff in Hk.
        destruct Hk as [Ha Hb]. apply Qle_bool_iff in Ha. apply Qle_bool_iff in Hb. split; assumption. }
      rewrite Nat2Z.inj_succ. unfold Z.succ. rewrite inject_Z_plus. change (inject_Z 1) with 1.
      assert (Hq : inject_Z (countk (fun k => in_closed (t_of dt k) ab || existsb (in_closed (t_of dt k)) l) n)
                   <= inject_Z (countk (fun k => in_closed (t_of dt k) ab) n)
                      + inject_Z (countk (fun k => existsb (in_closed (t_of dt k)) l) n)).
      { rewrite <- inject_Z_plus. rewrite <- Zle_Qle. exact Hor. }
      apply (proj2 (Qmult_le_l _ _ dt Hdt)) in Hq. lra.
  Qed.

  Lemma lower_list ivs lo : 0 <= lo -> chain lo ivs -> (forall ab, In ab ivs -> snd ab <= len) ->
    total_len ivs - inject_Z (Z.of_nat (length ivs)) * dt
    <= dt * inject_Z (countk (fun k => existsb (in_open (t_of dt k)) ivs) n).
  Proof.
    revert lo. induction ivs as [|ab l IH]; intros lo Hlo Hc Hb.
    - cbn [existsb length total_len Z.of_nat]. rewrite countk_none by reflexivity. change (inject_Z 0) with 0. lra.
    - destruct Hc as (H1 & H2 & H3).
      assert (IH' := IH (snd ab) ltac:(lra) H3 (fun x Hx => Hb x (or_intror Hx))).
      cbn [existsb length total_len].
      rewrite countk_or_disjoint.
      + assert (Hs := sandwich_lower dt Hdt n (fun k => in_open (t_of dt k) ab) (fst ab) (snd ab)
                                      ltac:(lra) H2 (Hb ab (or_introl eq_refl))).
        assert (Hs' : snd ab - fst ab - dt <= dt * inject_Z (countk (fun k => in_open (t_of dt k) ab) n)).
        { apply Hs. intros k _ Ha Hbb. unfold in_open. apply andb_true_iff. split; apply Qltb_lt; assumption. }
        rewrite Nat2Z.inj_succ. unfold Z.succ. rewrite !inject_Z_plus. change (inject_Z 1) with 1. lra.
      + intros k _ Hk. unfold in_open in Hk. apply andb_true_iff in Hk. destruct Hk as [_ Hk]. apply Qltb_lt in Hk.
        apply not_true_is_false. intros Hex. apply existsb_exists in Hex. destruct Hex as (x & Hx & Hx').
        unfold in_open in Hx'. apply andb_true_iff in Hx'. destruct Hx' as [Hx' _]. apply Qltb_lt in Hx'.
        pose proof (chain_lb _ _ H3 x Hx). lra.
  Qed.

  (* a cell that the line meets in the k intervals ivs: every sample strictly inside an interval is
     in the cell, every sample of the cell is in one of the closed intervals *)
  Lemma k_intervals (S : Z -> bool) ivs : chain 0 ivs -> (forall ab, In ab ivs -> snd ab <= len) ->
    (forall k, (0 <= k < Z.of_nat n)%Z -> existsb (in_open (t_of dt k)) ivs = true -> S k = true) ->
    (forall k, (0 <= k < Z.of_nat n)%Z -> S k = true -> existsb (in_closed (t_of dt k)) ivs = true) ->
    Qabs (dt * inject_Z (countk S n) - total_len ivs) <= inject_Z (Z.of_nat (length ivs)) * dt.
  Proof.
    intros Hc Hb H1 H2. apply Qabs_Qle_condition.
    pose proof (upper_list ivs 0 Hc) as Hu. pose proof (lower_list ivs 0 ltac:(lra) Hc Hb) as Hl.
    assert (Ha : inject_Z (countk (fun k => existsb (in_open (t_of dt k)) ivs) n) <= inject_Z (countk S n)).
    { rewrite <- Zle_Qle. apply countk_mono. exact H1. }
    assert (Hb' : inject_Z (countk S n) <= inject_Z (countk (fun k => existsb (in_closed (t_of dt k)) ivs) n)).
    { rewrite <- Zle_Qle. apply countk_mono. exact H2. }
    apply (proj2 (Qmult_le_l _ _ dt Hdt)) in Ha. apply (proj2 (Qmult_le_l _ _ dt Hdt)) in Hb'.
    split; lra.
  Qed.
End KIntervals.

(* ------------------------------------------------------------------------------------------ *)
(* floor, the C cast                                                                            *)
(* ------------------------------------------------------------------------------------------ *)
Lemma floor_unique q i : inject_Z i <= q -> q < inject_Z (i + 1) -> Qfloor q = i.
Proof.
  intros H1 H2.
  assert (A : (i <= Qfloor q)%Z) by (rewrite <- (Qfloor_Z i); apply Qfloor_resp_le; exact H1).
  assert (B : (Qfloor q < i + 1)%Z).
  { rewrite Zlt_Qlt. eapply Qle_lt_trans; [apply Qfloor_le | exact H2]. }
  lia.
Qed.

Lemma floor_spec q i : Qfloor q = i <-> (inject_Z i <= q /\ q < inject_Z (i + 1)).
Proof.
  split.
  - intros <-. split; [apply Qfloor_le | apply Qlt_floor].
  - intros [H1 H2]. apply floor_unique; assumption.
Qed.

Lemma ctrunc_nonneg q : 0 <= q -> ctrunc q = Qfloor q.
Proof.
  destruct q as [a d]. unfold Qle, ctrunc, Qfloor. cbn [Qnum Qden]. intros H.
  apply Z.quot_div_nonneg; lia.
Qed.

(* dt < 2 step *)
Lemma dt_lt_two_steps len stp min_samples : 0 < stp -> 0 < len -> (1 <= min_samples)%Z ->
  dt_of len (nsamples min_samples len stp) < 2 * stp.
Proof.
  intros Hs Hl Hm. unfold dt_of, nsamples.
  assert (Hq : 0 <= len / stp) by (apply Qle_shift_div_l; lra).
  rewrite (ctrunc_nonneg _ Hq).
  set (m := Qfloor (len / stp)). set (nn := Z.max min_samples m).
  assert (Hm0 : (0 <= m)%Z) by (unfold m; rewrite <- (Qfloor_Z 0); apply Qfloor_resp_le; exact Hq).
  assert (Hn1 : (1 <= nn)%Z) by (unfold nn; lia).
  assert (Hlt : len / stp < inject_Z (m + 1)) by apply Qlt_floor.
  assert (Hle : inject_Z (m + 1) <= 2 * inject_Z nn).
  { change 2 with (inject_Z 2). rewrite <- inject_Z_mult, <- Zle_Qle. unfold nn. lia. }
  assert (Hnpos : 0 < inject_Z nn) by (change 0 with (inject_Z 0); rewrite <- Zlt_Qlt; lia).
  apply Qlt_shift_div_r; [exact Hnpos|].
  assert (H3 : len / stp < 2 * inject_Z nn) by lra.
  apply (Qmult_lt_compat_r _ _ stp Hs) in H3.
  assert (E : len / stp * stp == len) by (field; lra).
  rewrite E in H3. lra.
Qed.

(* ------------------------------------------------------------------------------------------ *)
(* the angular formula of the code is periodic                                                  *)
(* ------------------------------------------------------------------------------------------ *)
Lemma floor_shift x m : Qfloor (x + inject_Z m) = (Qfloor x + m)%Z.
Proof.
  apply floor_unique.
  - rewrite inject_Z_plus. pose proof (Qfloor_le x). lra.
  - replace (Qfloor x + m + 1)%Z with ((Qfloor x + 1) + m)%Z by lia. rewrite inject_Z_plus.
    pose proof (Qlt_floor x). lra.
Qed.

Lemma Qmod_shift a p m : 0 < p -> Qmod (a + inject_Z m * p) p == Qmod a p.
Proof.
  intros Hp. unfold Qmod.
  assert (E : (a + inject_Z m * p) / p == a / p + inject_Z m) by (field; lra).
  rewrite E, floor_shift, inject_Z_plus. ring.
Qed.

Lemma Qmod_comp a a' p : a == a' -> Qmod a p == Qmod a' p.
Proof.
  intros H. unfold Qmod.
  assert (F : Qfloor (a / p) = Qfloor (a' / p)) by (apply Qfloor_comp; rewrite H; reflexivity).
  rewrite F, H. reflexivity.
Qed.

Lemma Qmod_range a p : 0 < p -> 0 <= Qmod a p /\ Qmod a p < p.
Proof.
  intros Hp. unfold Qmod.
  assert (E : a == a / p * p) by (field; lra).
  pose proof (Qfloor_le (a / p)) as H1. pose proof (Qlt_floor (a / p)) as H2.
  rewrite inject_Z_plus in H2. change (inject_Z 1) with 1 in H2.
  set (f := inject_Z (Qfloor (a / p))) in *. set (u := a / p) in *. clearbody f u.
  split.
  - assert (f * p <= u * p) by (apply (proj2 (Qmult_le_r _ _ p Hp)); exact H1). lra.
  - assert (u * p < (f + 1) * p) by (apply Qmult_lt_compat_r; assumption). lra.
Qed.

Lemma phi_periodic period dphi phi m : 0 < period -> 0 < dphi ->
  iphi_of_phi period dphi (phi + inject_Z m * period) = iphi_of_phi period dphi phi.
Proof.
  intros Hp Hd. unfold iphi_of_phi.
  assert (E : Qmod (phi + inject_Z m * period + 360) period == Qmod (phi + 360) period).
  { transitivity (Qmod (phi + 360 + inject_Z m * period) period); [|apply Qmod_shift; exact Hp].
    apply Qmod_comp. ring. }
  destruct (Qmod_range (phi + inject_Z m * period + 360) period Hp) as [A _].
  destruct (Qmod_range (phi + 360) period Hp) as [B _].
  rewrite !ctrunc_nonneg by (apply Qle_shift_div_l; lra).
  rewrite E. reflexivity.
Qed.

(* the literal sample point of the code equals the point the executable model uses *)
Lemma point_lam_literal (s1 d1 len : Q) (n k : Z) : ~ len == 0 -> (0 < n)%Z ->
  s1 + (/ len * d1) * t_of (dt_of len n) k == Qred (s1 + d1 * lam_of n k).
Proof.
  intros Hl Hn. rewrite Qred_correct. unfold t_of, dt_of, lam_of.
  assert (Hn' : ~ inject_Z n == 0).
  { intros H. assert (0 < inject_Z n) by (change 0 with (inject_Z 0); rewrite <- Zlt_Qlt; lia). lra. }
  assert (E2 : inject_Z (2 * n) == 2 * inject_Z n) by (rewrite inject_Z_mult; reflexivity).
  assert (E1 : inject_Z (2 * k + 1) == 2 * inject_Z k + 1) by (rewrite inject_Z_plus, inject_Z_mult; reflexivity).
  rewrite E1, E2. field. split; assumption.
Qed.
