(* Algebra of the cubic of one cell (Model/C14_Caching.v : HL, solve4, build1). *)
Require Import Cherab.Common.Qx.
Require Import Cherab.Model.C14_Caching.
From Coq Require Import Qabs Lqa.
Open Scope Q_scope.

(* HL without the reductions *)
Definition HLraw (xm x0 x1 x2 dm d0 d1 d2 t : Q) : Q :=
  let h := x1 - x0 in
  let s0 := (d1 - dm) / (x1 - xm) in
  let s1 := (d2 - d0) / (x2 - x0) in
  let D := (d1 - d0) / h in
  let u := t - x0 in
  d0 + u * (s0 + u * ((3 * D - 2 * s0 - s1) / h + u * ((s0 + s1 - 2 * D) / (h * h)))).

Lemma HL_raw xm x0 x1 x2 dm d0 d1 d2 t :
  HL xm x0 x1 x2 dm d0 d1 d2 t == HLraw xm x0 x1 x2 dm d0 d1 d2 t.
Proof. unfold HL, HLraw. rewrite !Qred_correct. reflexivity. Qed.

(* HL respects == in every argument *)
Lemma HLraw_ext xm x0 x1 x2 dm d0 d1 d2 t xm' x0' x1' x2' dm' d0' d1' d2' t' :
  xm == xm' -> x0 == x0' -> x1 == x1' -> x2 == x2' -> dm == dm' -> d0 == d0' -> d1 == d1' -> d2 == d2' -> t == t' ->
  HLraw xm x0 x1 x2 dm d0 d1 d2 t == HLraw xm' x0' x1' x2' dm' d0' d1' d2' t'.
Proof. intros E1 E2 E3 E4 E5 E6 E7 E8 E9. unfold HLraw. rewrite E1, E2, E3, E4, E5, E6, E7, E8, E9. reflexivity. Qed.

Lemma HL_ext xm x0 x1 x2 dm d0 d1 d2 t xm' x0' x1' x2' dm' d0' d1' d2' t' :
  xm == xm' -> x0 == x0' -> x1 == x1' -> x2 == x2' -> dm == dm' -> d0 == d0' -> d1 == d1' -> d2 == d2' -> t == t' ->
  HL xm x0 x1 x2 dm d0 d1 d2 t == HL xm' x0' x1' x2' dm' d0' d1' d2' t'.
Proof. intros. rewrite !HL_raw. apply HLraw_ext; assumption. Qed.

Section Facts.
  Variables xm x0 x1 x2 : Q.
  Hypothesis H0 : ~ x1 - x0 == 0.
  Hypothesis Hm : ~ x1 - xm == 0.
  Hypothesis H2 : ~ x2 - x0 == 0.

  (* value at the two nodes of the cell *)
  Lemma HL_node0 dm d0 d1 d2 : HL xm x0 x1 x2 dm d0 d1 d2 x0 == d0.
  Proof. rewrite HL_raw. unfold HLraw. field. auto. Qed.

  Lemma HL_node1 dm d0 d1 d2 : HL xm x0 x1 x2 dm d0 d1 d2 x1 == d1.
  Proof. rewrite HL_raw. unfold HLraw. field. auto. Qed.

  (* affine data are reproduced on the whole line *)
  Lemma HL_affine A B t :
    HL xm x0 x1 x2 (A + B * xm) (A + B * x0) (A + B * x1) (A + B * x2) t == A + B * t.
  Proof. rewrite HL_raw. unfold HLraw. field. auto. Qed.

  (* the construction commutes with affine maps of the data ... *)
  Lemma HL_data_affine m s dm d0 d1 d2 t :
    HL xm x0 x1 x2 ((dm - m) * s) ((d0 - m) * s) ((d1 - m) * s) ((d2 - m) * s) t
    == (HL xm x0 x1 x2 dm d0 d1 d2 t - m) * s.
  Proof. rewrite !HL_raw. unfold HLraw. field. auto. Qed.

  (* ... and with affine maps of the coordinate *)
  Lemma HL_coord_affine o c dm d0 d1 d2 t : ~ c == 0 ->
    HL ((xm - o) * c) ((x0 - o) * c) ((x1 - o) * c) ((x2 - o) * c) dm d0 d1 d2 ((t - o) * c)
    == HL xm x0 x1 x2 dm d0 d1 d2 t.
  Proof.
    intros Hc.
    assert (A0 : ~ (x1 - o) * c - (x0 - o) * c == 0).
    { intro E. apply H0. setoid_replace (x1 - x0) with (((x1 - o) * c - (x0 - o) * c) / c) by (field; auto).
      rewrite E. field. auto. }
    assert (Am : ~ (x1 - o) * c - (xm - o) * c == 0).
    { intro E. apply Hm. setoid_replace (x1 - xm) with (((x1 - o) * c - (xm - o) * c) / c) by (field; auto).
      rewrite E. field. auto. }
    assert (A2 : ~ (x2 - o) * c - (x0 - o) * c == 0).
    { intro E. apply H2. setoid_replace (x2 - x0) with (((x2 - o) * c - (x0 - o) * c) / c) by (field; auto).
      rewrite E. field. auto. }
    rewrite !HL_raw. unfold HLraw. field. repeat split; auto.
  Qed.
End Facts.

(* ---- quadratics are reproduced where the four nodes are equally spaced ---- *)
Lemma HL_quadratic_uniform x0 h A B C t : ~ h == 0 ->
  let q := fun x => A + B * x + C * x * x in
  HL (x0 - h) x0 (x0 + h) (x0 + 2 * h) (q (x0 - h)) (q x0) (q (x0 + h)) (q (x0 + 2 * h)) t == q t.
Proof. intros Hh q. rewrite HL_raw. unfold HLraw, q. clear q. field. repeat split; auto.
  all: intro E; apply Hh; lra. Qed.

(* ---- cubics on equally spaced nodes: the explicit error polynomial ---- *)
Lemma HL_cubic_uniform_error x0 h A B C D t : ~ h == 0 ->
  let q := fun x => A + B * x + C * x * x + D * x * x * x in
  HL (x0 - h) x0 (x0 + h) (x0 + 2 * h) (q (x0 - h)) (q x0) (q (x0 + h)) (q (x0 + 2 * h)) t - q t
  == D * (t - x0) * (x0 + h - t) * (2 * x0 + h - 2 * t).
Proof. intros Hh q. rewrite HL_raw. unfold HLraw, q. clear q. field. repeat split; auto.
  all: intro E; apply Hh; lra. Qed.

(* ---- the 4x4 system of Caching1D._evaluate ---- *)
Lemma solve4_solves t0 t1 d0 s0 d1 s1 : ~ t1 - t0 == 0 ->
  let '(a0, a1, a2, a3) := solve4 t0 t1 d0 s0 d1 s1 in
  a0 + a1 * t0 + a2 * (t0 * t0) + a3 * (t0 * t0 * t0) == d0 /\
  a1 + a2 * (2 * t0) + a3 * (3 * (t0 * t0)) == s0 /\
  a0 + a1 * t1 + a2 * (t1 * t1) + a3 * (t1 * t1 * t1) == d1 /\
  a1 + a2 * (2 * t1) + a3 * (3 * (t1 * t1)) == s1.
Proof.
  intros H. cbv beta iota zeta delta [solve4]. rewrite !Qred_correct.
  repeat split; field; auto.
Qed.

(* the matrix is regular: the closed form is a left inverse, so the solution is unique *)
Lemma solve4_unique t0 t1 a0 a1 a2 a3 : ~ t1 - t0 == 0 ->
  let '(b0, b1, b2, b3) := solve4 t0 t1 (a0 + a1 * t0 + a2 * (t0 * t0) + a3 * (t0 * t0 * t0))
                                  (a1 + a2 * (2 * t0) + a3 * (3 * (t0 * t0)))
                                  (a0 + a1 * t1 + a2 * (t1 * t1) + a3 * (t1 * t1 * t1))
                                  (a1 + a2 * (2 * t1) + a3 * (3 * (t1 * t1))) in
  b0 == a0 /\ b1 == a1 /\ b2 == a2 /\ b3 == a3.
Proof.
  intros H. cbv beta iota zeta delta [solve4]. rewrite !Qred_correct.
  repeat split; field; auto.
Qed.

(* ---- the stored 1-D block evaluates to the cubic of the cell in normalised coordinates ---- *)
Lemma coeffs1_eval x top fb tm t0 t1 t2 dm d0 d1 d2 px :
  ~ x top - x 0%Z == 0 -> ~ t1 - t0 == 0 -> ~ t1 - tm == 0 -> ~ t2 - t0 == 0 ->
  evalc1 (coeffs1 x top fb tm t0 t1 t2 [dm; d0; d1; d2]) px
  == data_delta fb * HLraw tm t0 t1 t2 dm d0 d1 d2 ((px - x 0%Z) * (1 / (x top - x 0%Z))) + data_min fb.
Proof.
  intros Hx H0 Hm H2.
  cbv beta iota zeta delta [evalc1 coeffs1 solve4 poly_deriv derivatives_array factorial xdi_pow x_delta_inv HLraw].
  rewrite !Qred_correct. field. auto.
Qed.

(* ---- stability of the cubic on equally spaced nodes (its Lebesgue constant is 5/4):
   whatever affine function L one compares with, the cubic is no further from L on the cell than
   5/4 of the largest deviation of the four data from L.  With L the tangent of a twice
   differentiable f this is the algebraic half of the O(h^2 max|f''|) error bound; the other half
   (Taylor's remainder |f - L| <= max|f''| (2h)^2 / 2 on the four nodes) is analysis over the reals
   and is not proved here. ---- *)
Lemma weighted_bound Pm P0 P1 P2 em e0 e1 e2 E :
  0 <= Pm -> 0 <= P0 -> 0 <= P1 -> 0 <= P2 -> Pm + P0 + P1 + P2 <= 5 # 4 ->
  - E <= em <= E -> - E <= e0 <= E -> - E <= e1 <= E -> - E <= e2 <= E ->
  - ((5 # 4) * E) <= - Pm * em + P0 * e0 + P1 * e1 - P2 * e2 <= (5 # 4) * E.
Proof. intros. nra. Qed.
Lemma signs u : 0 <= u <= 1 ->
  0 <= u * (1 - u) * (1 - u) /\ 0 <= (1 - u) * (2 + 2 * u - 3 * u * u) /\ 0 <= u * (1 + 4 * u - 3 * u * u)
  /\ 0 <= u * u * (1 - u) /\ 1 + u - u * u <= 5 # 4.
Proof. intros [Hu0 Hu1].
 assert (H1 : 0 <= 1 - u) by lra.
 assert (Huu : 0 <= u * (1 - u)) by (apply Qmult_le_0_compat; assumption).
 assert (Ha : 0 <= 2 + 2 * u - 3 * u * u).
 { setoid_replace (2 + 2 * u - 3 * u * u) with (2 * (1 - u) + 3 * (u * (1 - u)) + u) by ring. lra. }
 assert (Hb : 0 <= 1 + 4 * u - 3 * u * u).
 { setoid_replace (1 + 4 * u - 3 * u * u) with (1 + u + 3 * (u * (1 - u))) by ring. lra. }
 repeat split.
 - apply Qmult_le_0_compat; assumption.
 - apply Qmult_le_0_compat; assumption.
 - apply Qmult_le_0_compat; assumption.
 - setoid_replace (u * u * (1 - u)) with (u * (u * (1 - u))) by ring. apply Qmult_le_0_compat; assumption.
 - assert (Hs : 0 <= (u - (1 # 2)) * (u - (1 # 2))).
   { destruct (Qlt_le_dec u (1 # 2)).
     - setoid_replace ((u - (1 # 2)) * (u - (1 # 2))) with (((1 # 2) - u) * ((1 # 2) - u)) by ring.
       apply Qmult_le_0_compat; lra.
     - apply Qmult_le_0_compat; lra. }
   setoid_replace (1 + u - u * u) with ((5 # 4) - (u - (1 # 2)) * (u - (1 # 2))) by ring. lra.
Qed.

Lemma HL_uniform_stability x0 h a b dm d0 d1 d2 t E :
  0 < h -> x0 <= t <= x0 + h ->
  - E <= dm - (a + b * (x0 - h)) <= E -> - E <= d0 - (a + b * x0) <= E ->
  - E <= d1 - (a + b * (x0 + h)) <= E -> - E <= d2 - (a + b * (x0 + 2 * h)) <= E ->
  - ((5 # 4) * E) <= HL (x0 - h) x0 (x0 + h) (x0 + 2 * h) dm d0 d1 d2 t - (a + b * t) <= (5 # 4) * E.
Proof.
  intros Hh [Ht0 Ht1] Hm H0 H1 H2.
  assert (Hh0 : ~ h == 0) by lra.
  set (u := (t - x0) / h).
  assert (Hu : 0 <= u <= 1).
  { unfold u. split.
    - apply Qle_shift_div_l; [exact Hh|lra].
    - apply Qle_shift_div_r; [exact Hh|lra]. }
  destruct (signs u Hu) as (S1 & S2 & S3 & S4 & S5).
  assert (Id : HL (x0 - h) x0 (x0 + h) (x0 + 2 * h) dm d0 d1 d2 t - (a + b * t)
          == - (u * (1 - u) * (1 - u) / 2) * (dm - (a + b * (x0 - h)))
             + ((1 - u) * (2 + 2 * u - 3 * u * u) / 2) * (d0 - (a + b * x0))
             + (u * (1 + 4 * u - 3 * u * u) / 2) * (d1 - (a + b * (x0 + h)))
             - (u * u * (1 - u) / 2) * (d2 - (a + b * (x0 + 2 * h)))).
  { rewrite HL_raw. unfold HLraw, u. field. repeat split; auto. all: intro F; apply Hh0; lra. }
  assert (Sum : u * (1 - u) * (1 - u) / 2 + (1 - u) * (2 + 2 * u - 3 * u * u) / 2
                + u * (1 + 4 * u - 3 * u * u) / 2 + u * u * (1 - u) / 2 <= 5 # 4).
  { setoid_replace (u * (1 - u) * (1 - u) / 2 + (1 - u) * (2 + 2 * u - 3 * u * u) / 2
                    + u * (1 + 4 * u - 3 * u * u) / 2 + u * u * (1 - u) / 2) with (1 + u - u * u) by field.
    exact S5. }
  rewrite Id.
  apply weighted_bound; try assumption.
  all: apply Qle_shift_div_l; [lra | rewrite Qmult_0_l; assumption].
Qed.
