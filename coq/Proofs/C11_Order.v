(* Order invariance of SART: permuting the observations (rows of W together with the entries of b) changes nothing. *)
Require Import Cherab.Common.Qx.
Require Import Cherab.Model.C11_Sart Cherab.Model.C11_Kkt.
Require Import Cherab.Proofs.C11_Sart Cherab.Proofs.C11_Kkt Cherab.Proofs.C11_More.
From Coq Require Import Qabs Lqa Permutation.
Open Scope Q_scope.


(* ORDER INVARIANCE: the update is a sum over the observations *)
Lemma Qsum_perm l l' : Permutation l l' -> Qsum l == Qsum l'.
Proof.
  induction 1 as [|a l l' _ IH|a b l|l l' l'' _ IH1 _ IH2]; cbn [Qsum]; try rewrite IH; try ring.
  rewrite IH1. exact IH2.
Qed.

Definition obs_term (j : nat) (x : vec) (rb : vec * Q) : Q :=
  if Qeq_bool (qsum (fst rb)) 0 then 0 else (entry (fst rb) j * / qsum (fst rb)) * Qred (snd rb - dot (fst rb) x).

Lemma obs_diff_as_sum j x : forall W b,
  obs_diff j W (row_sums W) (vsub b (mv W x)) == Qsum (map (obs_term j x) (combine W b)).
Proof.
  induction W as [|r W IH]; intros b; [reflexivity|]. destruct b as [|bi b]; [reflexivity|].
  cbn [row_sums map mv vsub obs_diff combine Qsum]. fold (row_sums W). fold (mv W x).
  rewrite Qred_correct, IH. unfold obs_term at 1. cbn [fst snd]. reflexivity.
Qed.

Lemma combine_fst_snd {A B} (rows : list (A * B)) : combine (map fst rows) (map snd rows) = rows.
Proof. induction rows as [|[a b] rows IH]; cbn; [reflexivity | rewrite IH; reflexivity]. Qed.

Lemma sart_step_order_invariant relax (rows rows' : list (vec * Q)) x : Permutation rows rows' ->
  veq (sart_step relax (map fst rows) (map snd rows) x) (sart_step relax (map fst rows') (map snd rows') x).
Proof.
  intro P. unfold sart_step. apply cells_ext. intros j a. unfold sart_cell.
  assert (Hc : col_sum (map fst rows) j == col_sum (map fst rows') j).
  { rewrite !col_sum_Qsum. apply Qsum_perm. apply Permutation_map. apply Permutation_map. exact P. }
  assert (Ho : obs_diff j (map fst rows) (row_sums (map fst rows)) (vsub (map snd rows) (mv (map fst rows) x))
            == obs_diff j (map fst rows') (row_sums (map fst rows')) (vsub (map snd rows') (mv (map fst rows') x))).
  { rewrite !obs_diff_as_sum, !combine_fst_snd. apply Qsum_perm. apply Permutation_map. exact P. }
  rewrite (Qltb_proper 0 (col_sum (map fst rows) j) 0 (col_sum (map fst rows') j)) by (try reflexivity; exact Hc).
  apply clip_proper. destruct (Qltb 0 (col_sum (map fst rows') j)); [|reflexivity]. rewrite Ho, Hc. reflexivity.
Qed.

Lemma conv_order_invariant (rows rows' : list (vec * Q)) x : Permutation rows rows' ->
  conv (map fst rows) (map snd rows) x == conv (map fst rows') (map snd rows') x.
Proof.
  intro P. unfold conv. rewrite !Qred_correct.
  assert (Hd : forall l l' : list (Q * Q), Permutation l l' -> dot (map fst l) (map snd l) == dot (map fst l') (map snd l')).
  { induction 1 as [|[u v] l l' _ IH|[u v] [u' v'] l|l l' l'' _ IH1 _ IH2]; cbn [map fst snd]; rewrite ?dot_step.
    - reflexivity. - rewrite IH. reflexivity. - ring. - rewrite IH1. exact IH2. }
  assert (Hb : dot (map snd rows) (map snd rows) == dot (map snd rows') (map snd rows')).
  { pose proof (Hd (map (fun rb => (snd rb, snd rb)) rows) (map (fun rb => (snd rb, snd rb)) rows') (Permutation_map _ P)) as K.
    rewrite !map_map in K. cbn [fst snd] in K. exact K. }
  assert (Hy : dot (mv (map fst rows) x) (mv (map fst rows) x) == dot (mv (map fst rows') x) (mv (map fst rows') x)).
  { pose proof (Hd (map (fun rb => (dot (fst rb) x, dot (fst rb) x)) rows) (map (fun rb => (dot (fst rb) x, dot (fst rb) x)) rows')
                 (Permutation_map _ P)) as K.
    unfold mv. rewrite !map_map in *. cbn [fst snd] in K. exact K. }
  rewrite Hb, Hy. reflexivity.
Qed.


Lemma bb_order_invariant (rows rows' : list (vec * Q)) : Permutation rows rows' ->
  dot (map snd rows) (map snd rows) == dot (map snd rows') (map snd rows').
Proof.
  induction 1 as [|[u v] l l' _ IH|[u v] [u' v'] l|l l' l'' _ IH1 _ IH2]; cbn [map fst snd]; rewrite ?dot_step.
  - reflexivity. - rewrite IH. reflexivity. - ring. - rewrite IH1. exact IH2.
Qed.

(* ORDER INVARIANCE of the whole inversion *)
Lemma invert_sart_order_invariant e1 n (rows rows' : list (vec * Q)) g maxit relax tol : Permutation rows rows' ->
  result_eq (invert_sart e1 n (map fst rows) (map snd rows) g maxit relax tol)
            (invert_sart e1 n (map fst rows') (map snd rows') g maxit relax tol).
Proof.
  intro P. unfold invert_sart, run_with.
  destruct (Z.to_nat maxit) as [|f]; [cbn; split; [apply veq_refl | constructor]|].
  pose proof (bb_order_invariant rows rows' P) as Hb.
  assert (Hbb : Qeq_bool (dot (map snd rows) (map snd rows)) 0 = Qeq_bool (dot (map snd rows') (map snd rows')) 0).
  { destruct (Qeq_bool (dot (map snd rows) (map snd rows)) 0) eqn:E1, (Qeq_bool (dot (map snd rows') (map snd rows')) 0) eqn:E2;
      try reflexivity; exfalso.
    - apply Qeq_bool_iff in E1. rewrite Hb in E1. apply Qeq_bool_iff in E1. congruence.
    - apply Qeq_bool_iff in E2. rewrite <- Hb in E2. apply Qeq_bool_iff in E2. congruence. }
  rewrite Hbb. destruct (Qeq_bool (dot (map snd rows') (map snd rows')) 0); [exact I|].
  pose proof (loop_congruence (sart_step relax (map fst rows) (map snd rows)) (sart_step relax (map fst rows') (map snd rows'))
                (conv (map fst rows) (map snd rows)) (conv (map fst rows') (map snd rows')) tol) as LC.
  assert (H1 : forall x y, veq x y -> veq (sart_step relax (map fst rows) (map snd rows) x) (sart_step relax (map fst rows') (map snd rows') y)).
  { intros x y E. eapply veq_trans; [apply sart_step_order_invariant; exact P | apply sart_step_proper; exact E]. }
  assert (H2 : forall x y, veq x y -> conv (map fst rows) (map snd rows) x == conv (map fst rows') (map snd rows') y).
  { intros x y E. rewrite (conv_order_invariant rows rows' x P). apply conv_proper. exact E. }
  specialize (LC H1 H2 (S f) None None _ _ (veq_refl (initial_solution e1 n g)) I).
  destruct (loop (sart_step relax (map fst rows) (map snd rows)) _ tol (S f) None (initial_solution e1 n g)),
           (loop (sart_step relax (map fst rows') (map snd rows')) _ tol (S f) None (initial_solution e1 n g)).
  cbn in LC. exact LC.
Qed.
