(* History independence of observations, for every invalidation table that covers the
   dependencies, by induction over the operation list. *)
From Coq Require Import List Arith Bool Lia.
Import ListNotations.
Require Import Cherab.Model.C01_Invalidate.

Section Table.
  Variable ndata : nat.
  Variable deps : datum -> list field.
  Variable inval : field -> list datum.
  Variable nfields : nat.
  Hypothesis Hcov : covers ndata deps inval nfields = true.

  Lemma mem_In x l : mem x l = true <-> In x l.
  Proof.
    unfold mem. rewrite existsb_exists. split.
    - intros (y & Hy & E). apply Nat.eqb_eq in E. now subst.
    - intros H. exists x. split; [assumption | apply Nat.eqb_refl].
  Qed.

  Lemma covers_spec d f : d < ndata -> In f (deps d) -> In d (inval f).
  Proof.
    intros Hd Hf. unfold covers in Hcov. rewrite forallb_forall in Hcov.
    specialize (Hcov d). rewrite in_seq in Hcov. specialize (Hcov ltac:(lia)).
    rewrite forallb_forall in Hcov. apply mem_In. now apply Hcov.
  Qed.

  (* every datum present in the cache was built from the current values of its dependencies *)
  Definition Inv (s : state) : Prop :=
    forall d x, d < ndata -> cch s d = Some x -> x = proj deps (cfg s) d.

  Lemma proj_bump c f d : ~ In f (deps d) -> proj deps (bump c f) d = proj deps c d.
  Proof.
    intros Hn. unfold proj. apply map_ext_in. intros g Hg. unfold bump.
    destruct (Nat.eqb_spec g f) as [->|]; [contradiction | reflexivity].
  Qed.

  Lemma inv_set s f : Inv s -> Inv (do_set inval s f).
  Proof.
    intros HI d x Hd. unfold do_set; cbn [cch cfg].
    destruct (mem d (inval f)) eqn:Hm; [discriminate|].
    intros Hc. rewrite (HI d x Hd Hc). symmetry. apply proj_bump.
    intros Hf. apply (covers_spec d f Hd) in Hf. apply mem_In in Hf. congruence.
  Qed.

  Lemma inv_fill s : Inv s -> Inv (fill deps s).
  Proof.
    intros HI d x Hd. unfold fill; cbn [cch cfg].
    destruct (cch s d) eqn:Hc; intros E; injection E as <-; [now apply HI | reflexivity].
  Qed.

  Lemma inv_step s o : Inv s -> Inv (fst (step ndata deps inval s o)).
  Proof. destruct o; cbn [step fst]; [apply inv_set | apply inv_fill]. Qed.

  Lemma inv_init c : Inv (init c).
  Proof. intros d x _ H. discriminate. Qed.

  Lemma inv_final s ops : Inv s -> Inv (final ndata deps inval s ops).
  Proof. revert s; induction ops as [|o t IH]; intros s HI; cbn [final]; [assumption | apply IH, inv_step, HI]. Qed.

  (* an observation in an invariant state shows exactly what a freshly built scene shows *)
  Lemma observe_fresh s : Inv s ->
    snd (step ndata deps inval s Observe) = fresh_view ndata deps (cfg s).
  Proof.
    intros HI. cbn [step snd]. unfold view, fresh_view. apply map_ext_in. intros d Hd.
    apply in_seq in Hd. unfold fill; cbn [cch cfg].
    destruct (cch s d) eqn:Hc; [rewrite (HI d s0 ltac:(lia) Hc)|]; reflexivity.
  Qed.

  (* every Observe of every history reports the fresh view of the configuration at that point *)
  Lemma run_all_fresh s ops : Inv s ->
    Forall (fun p => fst p = snd p) (run ndata deps inval s ops).
  Proof.
    revert s; induction ops as [|o t IH]; intros s HI; cbn [run]; [constructor|].
    destruct o as [f|].
    - cbn [step]. apply IH, inv_set, HI.
    - cbn [step]. constructor.
      + cbn [fst snd]. change (view ndata (fill deps s)) with (snd (step ndata deps inval s Observe)).
        rewrite observe_fresh by assumption. reflexivity.
      + apply IH, inv_fill, HI.
  Qed.

  Theorem history_independent c0 ops :
    Forall (fun p => fst p = snd p) (run ndata deps inval (init c0) ops).
  Proof. apply run_all_fresh, inv_init. Qed.

  (* two histories that end in the same configuration observe the same thing *)
  Theorem order_irrelevant c0 c0' ops ops' :
    (forall g, cfg (final ndata deps inval (init c0) ops) g = cfg (final ndata deps inval (init c0') ops') g) ->
    snd (step ndata deps inval (final ndata deps inval (init c0) ops) Observe) =
    snd (step ndata deps inval (final ndata deps inval (init c0') ops') Observe).
  Proof.
    intros E. rewrite !observe_fresh by (apply inv_final, inv_init).
    unfold fresh_view. apply map_ext. intros d. f_equal. unfold proj. apply map_ext. intros g. apply E.
  Qed.

  Lemma snap_eqb_refl a : snap_eqb a a = true.
  Proof.
    destruct a as [x|]; [|reflexivity]. cbn. rewrite Nat.eqb_refl. cbn.
    induction x as [|v t IH]; cbn; [reflexivity | now rewrite Nat.eqb_refl].
  Qed.

  (* the executable staleness report of the correspondence is empty for every history *)
  Theorem stale_report_empty c0 ops :
    Forall (fun l => l = []) (stale_report ndata deps inval c0 ops).
  Proof.
    unfold stale_report. apply Forall_map. eapply Forall_impl; [|apply history_independent].
    intros [seen fr] E; cbn [fst snd] in *. subst fr. unfold stale_data.
    assert (H : forall (l : list nat), filter (fun p : nat * (option snapshot * option snapshot) =>
                 negb (snap_eqb (fst (snd p)) (snd (snd p)))) (combine l (combine seen seen)) = []).
    { intros l. apply (proj2 (filter_nil_iff _ _)) || idtac.
      revert l. induction seen as [|a t IH]; intros l; destruct l as [|n l]; cbn; try reflexivity.
      rewrite snap_eqb_refl. cbn. apply IH. }
    rewrite H. reflexivity.
  Qed.
End Table.

(* ---- the unfixed tree: a table that does not cover is refuted by a three-step history ---- *)
(* datum 0 = attenuation profile, reading field 0 = beam transform; before the fix the transform
   setter invalidated nothing *)
Definition unfixed_deps (d : datum) : list field := match d with 0 => [0] | _ => [] end.
Definition unfixed_inval (f : field) : list datum := [].
Lemma C01_refuted_unfixed :
  exists ops, ~ Forall (fun l => l = []) (stale_report 1 unfixed_deps unfixed_inval (fun _ => 0) ops).
Proof.
  exists [Observe; Set_ 0; Observe]. intros H.
  assert (E : stale_report 1 unfixed_deps unfixed_inval (fun _ => 0) [Observe; Set_ 0; Observe] = [[]; [0]])
    by (vm_compute; reflexivity).
  rewrite E in H. inversion H as [|? ? _ H2]; subst. inversion H2 as [|? ? H3 _]; subst. discriminate.
Qed.
