(* Further proofs for C11: exact certificates, wrapper facts, beta = 0, exact-solution runs, scale covariance. *)
Require Import Cherab.Common.Qx.
Require Import Cherab.Model.C11_Sart Cherab.Model.C11_Kkt.
Require Import Cherab.Proofs.C11_Sart Cherab.Proofs.C11_Kkt.
From Coq Require Import Qabs Lqa.
Open Scope Q_scope.


(* exact certificates: eps = 0 gives exact global minimisers *)
Lemma kkt_exact_minimiser C d x : length d = length C -> Forall (fun c => length c = length x) C ->
  eps_kkt C d x 0 0 = true ->
  Forall (Qle 0) x /\ forall y, length y = length x -> Forall (Qle 0) y -> obj C d x <= obj C d y.
Proof.
  intros Hd HC H. destruct (kkt_sufficient C d x 0 0 Hd HC H) as [Hx Ho]. split; [exact Hx|].
  intros y Hy Hp. specialize (Ho y Hy Hp). lra.
Qed.

Lemma normal_eq_exact_minimiser C d x : length d = length C -> Forall (fun c => length c = length x) C ->
  eps_normal_eq C d x 0 = true -> forall y, length y = length x -> obj C d x <= obj C d y.
Proof.
  intros Hd HC H y Hy. pose proof (normal_eq_sufficient C d x 0 Hd HC H y Hy). lra.
Qed.

(* vmax is an upper bound of the list *)
Lemma vmax_ge_fold (d : vec) (z : Q) :
  z <= fold_right (fun v m => if Qle_bool m v then v else m) z d /\
  Forall (fun v => v <= fold_right (fun v m => if Qle_bool m v then v else m) z d) d.
Proof.
  induction d as [|a d [IH1 IH2]]; cbn [fold_right]; [split; [apply Qle_refl | constructor]|].
  set (r := fold_right (fun v m => if Qle_bool m v then v else m) z d) in *.
  destruct (Qle_bool r a) eqn:E.
  - apply Qle_bool_iff in E. split; [lra|]. constructor; [apply Qle_refl|].
    eapply Forall_impl; [|exact IH2]. intros v Hv. cbn in Hv. lra.
  - assert (a <= r). { destruct (Qlt_le_dec r a) as [K|K]; [|exact K]. exfalso.
      assert (Qle_bool r a = true) by (apply Qle_bool_iff; lra). congruence. }
    split; [exact IH1|]. constructor; [assumption | exact IH2].
Qed.

Lemma vmax_upper d : Forall (fun v => v <= vmax d) d.
Proof. unfold vmax. apply vmax_ge_fold. Qed.

Lemma vmax_stack_nonneg b n : (1 <= n)%nat -> 0 <= vmax (stackd b n).
Proof.
  intro Hn. pose proof (vmax_upper (stackd b n)) as H. rewrite Forall_forall in H. apply H.
  unfold stackd, zeros. apply in_or_app. right. destruct n; [lia|]. left. reflexivity.
Qed.

Lemma nnls_wrapper_error (solver : mat -> vec -> vec * Q) n W b alpha L :
  invert_regularised_nnls solver n W b alpha L = LsErrValue <-> vmax (stackd b n) == 0.
Proof.
  unfold invert_regularised_nnls. destruct (Qeq_bool (vmax (stackd b n)) 0) eqn:E.
  - split; [intros _; apply Qeq_bool_iff; exact E | reflexivity].
  - destruct (solver _ _). split; [discriminate|]. intro K. apply Qeq_bool_iff in K. congruence.
Qed.

Lemma nnls_wrapper_rnorm_nonneg (solver : mat -> vec -> vec * Q) n W b alpha L x rn :
  (forall C d, 0 <= snd (solver C d)) -> (1 <= n)%nat ->
  invert_regularised_nnls solver n W b alpha L = LsOk x rn -> 0 <= rn.
Proof.
  intros Hs Hn H. unfold invert_regularised_nnls in H.
  destruct (Qeq_bool (vmax (stackd b n)) 0); [discriminate|].
  specialize (Hs (map (scale_row (/ vmax (stackd b n))) (stackC W alpha (tikhonov_or_identity n L)))
                 (scale_row (/ vmax (stackd b n)) (stackd b n))).
  destruct (solver _ _) as [x' r']. inversion H; subst. cbn in Hs.
  apply Qmult_le_0_compat; [exact Hs | apply vmax_stack_nonneg; exact Hn].
Qed.

Lemma lstsq_wrapper_correct (solver : mat -> vec -> vec) n W b alpha L :
  (forall C d, length (solver C d) = n /\ forall y, length y = n -> obj C d (solver C d) <= obj C d y) ->
  length b = length W -> length (tikhonov_or_identity n L) = n ->
  let x := invert_regularised_lstsq solver n W b alpha L in
  forall y, length y = n ->
  tikhonov_objective W b alpha (tikhonov_or_identity n L) x <= tikhonov_objective W b alpha (tikhonov_or_identity n L) y.
Proof.
  intros Hs Hb HL x y Hy. unfold x, invert_regularised_lstsq.
  set (Lm := tikhonov_or_identity n L) in *.
  destruct (Hs (stackC W alpha Lm) (stackd b n)) as [Hlen Hmin].
  specialize (Hmin y Hy).
  rewrite <- (stack_objective W b alpha Lm _ Hb) by (rewrite Hlen; exact HL).
  rewrite <- (stack_objective W b alpha Lm y Hb) by (rewrite Hy; exact HL).
  rewrite Hlen, Hy. exact Hmin.
Qed.


Definition smat (s : Q) (W : mat) : mat := map (scale_row s) W.

Lemma qsum_scale s : forall r, qsum (scale_row s r) == s * qsum r.
Proof.
  induction r as [|a r IH]; [cbn; ring|]. cbn [scale_row map]. fold (scale_row s r).
  rewrite !qsum_step, Qred_correct, IH. ring.
Qed.

Lemma entry_scale s : forall r j, entry (scale_row s r) j == s * entry r j.
Proof.
  unfold entry. induction r as [|a r IH]; intros j.
  - destruct j; cbn; ring.
  - destruct j; cbn [scale_row map nth]; [apply Qred_correct | apply IH].
Qed.

Lemma col_sum_scale s j : forall W, col_sum (smat s W) j == s * col_sum W j.
Proof.
  unfold col_sum, smat. induction W as [|r W IH]; [cbn; ring|].
  cbn [map]. rewrite !qsum_step, IH, entry_scale. ring.
Qed.

Lemma obs_diff_scale s j x : ~ s == 0 -> forall W b,
  obs_diff j (smat s W) (row_sums (smat s W)) (vsub (scale_row s b) (mv (smat s W) x))
  == s * obs_diff j W (row_sums W) (vsub b (mv W x)).
Proof.
  intros Hs. induction W as [|r W IH]; intros b; [cbn; ring|].
  destruct b as [|bi b]; [cbn; ring|].
  cbn [smat map row_sums mv scale_row vsub obs_diff].
  fold (smat s W). fold (row_sums (smat s W)). fold (mv (smat s W) x). fold (scale_row s b).
  fold (row_sums W). fold (mv W x).
  rewrite !Qred_correct. rewrite IH.
  pose proof (qsum_scale s r) as Hl. pose proof (entry_scale s r j) as He. pose proof (dot_scale_l s r x) as Hd.
  destruct (Qeq_bool (qsum (scale_row s r)) 0) eqn:E1, (Qeq_bool (qsum r) 0) eqn:E2.
  - rewrite ?Qred_correct. ring.
  - exfalso. apply Qeq_bool_iff in E1. rewrite Hl in E1.
    destruct (Qmult_integral _ _ E1) as [K|K]; [contradiction|]. apply Qeq_bool_iff in K. congruence.
  - exfalso. apply Qeq_bool_iff in E2. assert (qsum (scale_row s r) == 0) by (rewrite Hl, E2; ring).
    apply Qeq_bool_iff in H. congruence.
  - assert (Hq : ~ qsum r == 0) by (intro K; apply Qeq_bool_iff in K; congruence).
    rewrite ?Qred_correct. rewrite Hl, He, Hd. field. split; assumption.
Qed.

(* SCALE COVARIANCE of one sweep: geometry matrix and measurements multiplied by the same s > 0 *)
Lemma sart_step_scale s relax W b x : 0 < s ->
  veq (sart_step relax (smat s W) (scale_row s b) x) (sart_step relax W b x).
Proof.
  intro Hs. assert (Hs0 : ~ s == 0) by lra.
  unfold sart_step. apply cells_ext. intros j a. unfold sart_cell.
  pose proof (col_sum_scale s j W) as Hc. pose proof (obs_diff_scale s j x Hs0 W b) as Ho.
  assert (Hb : Qltb 0 (col_sum (smat s W) j) = Qltb 0 (col_sum W j)).
  { destruct (Qltb 0 (col_sum W j)) eqn:E.
    - apply Qltb_true. apply Qltb_true in E. rewrite Hc. apply Qmult_lt_0_compat; assumption.
    - apply Qltb_false. apply Qltb_false in E. rewrite Hc. nra. }
  rewrite Hb. apply clip_proper. destruct (Qltb 0 (col_sum W j)) eqn:E; [|reflexivity].
  apply Qltb_true in E. rewrite Ho, Hc. field. split; lra.
Qed.

Lemma conv_scale s W b x : ~ s == 0 -> conv (smat s W) (scale_row s b) x == conv W b x.
Proof.
  intro Hs. unfold conv. rewrite !Qred_correct.
  assert (Hy : veq (mv (smat s W) x) (scale_row s (mv W x))).
  { unfold mv, smat. induction W as [|r W IH]; cbn [map scale_row]; constructor; auto.
    rewrite Qred_correct. apply dot_scale_l. }
  rewrite (dot_proper _ _ _ _ Hy Hy). rewrite !dot_scale_l, !dot_scale_r.
  destruct (Qeq_dec (dot b b) 0) as [Z|NZ].
  - unfold Qdiv. rewrite Z. setoid_replace (s * (s * 0)) with 0 by ring. change (/ 0) with 0. ring.
  - field. split; assumption.
Qed.


(* the constrained sweep with beta = 0 is the plain sweep *)
Lemma csart_beta_zero relax beta W L b x : beta == 0 ->
  veq (csart_step relax beta W L b x) (sart_step relax W b x).
Proof.
  intro Hb. unfold csart_step, sart_step. apply cells_ext. intros j a. unfold csart_cell, sart_cell.
  assert (P0 : entry (penalties beta L x) j == 0).
  { apply entry_allz. apply (penalties_zero beta L x x (veq_refl x)). right. exact Hb. }
  apply clip_proper. destruct (Qltb 0 (col_sum W j)); setoid_rewrite P0; ring.
Qed.

Lemma conv_proper W b x y : veq x y -> conv W b x == conv W b y.
Proof.
  intro H. unfold conv. rewrite !Qred_correct.
  pose proof (mv_proper W x y H) as M. rewrite (dot_proper _ _ _ _ M M). reflexivity.
Qed.

(* started at an exact solution the convergence value does not change: with a positive tolerance the run
   makes exactly two sweeps (the first test is at k = 1) *)
Lemma loop_two_sweeps (step : vec -> vec) (cv : vec -> Q) (tol : Q) (P : vec -> Prop) :
  (forall x, P x -> P (step x)) -> (forall x y, P x -> P y -> cv x == cv y) -> 0 < tol ->
  forall f x, P x -> length (snd (loop step cv tol (S (S f)) None x)) = 2%nat.
Proof.
  intros HP Hcv Htol f x Hx. cbn [loop stop_now].
  assert (E : Qltb (Qabs (cv (step (step x)) - cv (step x))) tol = true).
  { apply Qltb_true.
    assert (Z : cv (step (step x)) - cv (step x) == 0).
    { rewrite (Hcv (step (step x)) (step x)) by auto. ring. }
    rewrite Z. cbn. exact Htol. }
  rewrite E. reflexivity.
Qed.

Lemma sart_exact_start_two_sweeps e1 n W b xs maxit relax tol x cs :
  Forall2 Qeq (mv W xs) b -> Forall (Qle 0) xs -> 0 < tol -> (2 <= maxit)%Z ->
  invert_sart e1 n W b (GuessVec xs) maxit relax tol = Ok x cs -> length cs = 2%nat.
Proof.
  intros HW Hpos Htol Hm H. unfold invert_sart, run_with in H. cbn [initial_solution] in H.
  destruct (Z.to_nat maxit) as [|[|f]] eqn:EF; try lia.
  destruct (Qeq_bool (dot b b) 0); [discriminate|].
  pose proof (loop_two_sweeps (sart_step relax W b) (conv W b) tol (fun x => veq x xs)
               (fun y Hy => sart_step_fixed relax W b xs y HW Hpos Hy)
               (fun u v Hu Hv => Qeq_trans _ _ _ (conv_proper W b u xs Hu) (Qeq_sym _ _ (conv_proper W b v xs Hv)))
               Htol f xs (veq_refl xs)) as K.
  destruct (loop (sart_step relax W b) (conv W b) tol (S (S f)) None xs) as [xf cs']. inversion H; subst. exact K.
Qed.


Lemma cells_proper2 (f g : nat -> Q -> Q) : (forall j a a', a == a' -> f j a == g j a') ->
  forall x y j, veq x y -> veq (cells f j x) (cells g j y).
Proof.
  intros H x y j E. revert j. induction E as [|a a' x y Ha E IH]; intro j; cbn [cells]; constructor; [apply H; exact Ha | apply IH].
Qed.

Lemma vsub_proper_r b : forall y y', veq y y' -> veq (vsub b y) (vsub b y').
Proof.
  induction b as [|bi b IH]; intros y y' E; [constructor|].
  destruct E as [|u u' y y' Hu E]; cbn [vsub]; constructor.
  - rewrite !Qred_correct, Hu. reflexivity.
  - apply IH. exact E.
Qed.

Lemma obs_diff_proper j : forall W l d d', veq d d' -> obs_diff j W l d == obs_diff j W l d'.
Proof.
  induction W as [|r W IH]; intros l d d' E; [reflexivity|].
  destruct l as [|li l]; [reflexivity|]. destruct E as [|u u' d d' Hu E]; [reflexivity|].
  cbn [obs_diff]. rewrite !Qred_correct, (IH l _ _ E). destruct (Qeq_bool li 0); [reflexivity|]. rewrite Hu. reflexivity.
Qed.

Lemma sart_step_proper relax W b x y : veq x y -> veq (sart_step relax W b x) (sart_step relax W b y).
Proof.
  intro E. unfold sart_step. apply cells_proper2; [|exact E]. intros j a a' Ha. unfold sart_cell.
  apply clip_proper.
  pose proof (obs_diff_proper j W (row_sums W) _ _ (vsub_proper_r b _ _ (mv_proper W x y E))) as Ho.
  destruct (Qltb 0 (col_sum W j)); [rewrite Ho, Ha; reflexivity | exact Ha].
Qed.

(* two loops whose steps and convergence values agree on related states make the same decisions *)
Lemma loop_congruence (s1 s2 : vec -> vec) (c1 c2 : vec -> Q) (tol : Q) :
  (forall x y, veq x y -> veq (s1 x) (s2 y)) -> (forall x y, veq x y -> c1 x == c2 y) ->
  forall fuel p1 p2 x y, veq x y ->
  match p1, p2 with None, None => True | Some a, Some b => a == b | _, _ => False end ->
  veq (fst (loop s1 c1 tol fuel p1 x)) (fst (loop s2 c2 tol fuel p2 y)) /\
  Forall2 Qeq (snd (loop s1 c1 tol fuel p1 x)) (snd (loop s2 c2 tol fuel p2 y)).
Proof.
  intros Hs Hc. induction fuel as [|f IH]; intros p1 p2 x y E P; cbn [loop]; [split; [exact E | constructor]|].
  pose proof (Hs x y E) as E1. pose proof (Hc _ _ E1) as C1.
  assert (B : stop_now tol p1 (c1 (s1 x)) = stop_now tol p2 (c2 (s2 y))).
  { destruct p1 as [a|], p2 as [b|]; try contradiction; [|reflexivity]. cbn [stop_now].
    apply Qltb_proper; [|reflexivity]. rewrite C1, P. reflexivity. }
  rewrite B. destruct (stop_now tol p2 (c2 (s2 y))).
  - cbn. split; [exact E1 | constructor; [exact C1 | constructor]].
  - specialize (IH (Some (c1 (s1 x))) (Some (c2 (s2 y))) _ _ E1 C1).
    destruct (loop s1 c1 tol f (Some (c1 (s1 x))) (s1 x)), (loop s2 c2 tol f (Some (c2 (s2 y))) (s2 y)).
    cbn in *. destruct IH. split; [assumption | constructor; assumption].
Qed.

Definition result_eq (r1 r2 : result) : Prop :=
  match r1, r2 with
  | Ok x cs, Ok x' cs' => veq x x' /\ Forall2 Qeq cs cs'
  | ErrZeroDivision, ErrZeroDivision => True
  | _, _ => False
  end.

(* SCALE COVARIANCE of the whole inversion: same solution, same convergence list, same number of sweeps *)
Lemma invert_sart_scale s e1 n W b g maxit relax tol : 0 < s ->
  result_eq (invert_sart e1 n (smat s W) (scale_row s b) g maxit relax tol) (invert_sart e1 n W b g maxit relax tol).
Proof.
  intro Hs. assert (Hs0 : ~ s == 0) by lra. unfold invert_sart, run_with.
  destruct (Z.to_nat maxit) as [|f]; [cbn; split; [apply veq_refl | constructor]|].
  assert (Hbb : Qeq_bool (dot (scale_row s b) (scale_row s b)) 0 = Qeq_bool (dot b b) 0).
  { assert (Hd : dot (scale_row s b) (scale_row s b) == s * (s * dot b b)) by (rewrite dot_scale_l, dot_scale_r; reflexivity).
    destruct (Qeq_bool (dot (scale_row s b) (scale_row s b)) 0) eqn:E1, (Qeq_bool (dot b b) 0) eqn:E2; try reflexivity; exfalso.
    - apply Qeq_bool_iff in E1. rewrite Hd in E1.
      destruct (Qmult_integral _ _ E1) as [K|K]; [contradiction|]. destruct (Qmult_integral _ _ K) as [K'|K']; [contradiction|].
      apply Qeq_bool_iff in K'. congruence.
    - apply Qeq_bool_iff in E2. assert (K : dot (scale_row s b) (scale_row s b) == 0) by (rewrite Hd, E2; ring).
      apply Qeq_bool_iff in K. congruence. }
  rewrite Hbb. destruct (Qeq_bool (dot b b) 0); [exact I|].
  pose proof (loop_congruence (sart_step relax (smat s W) (scale_row s b)) (sart_step relax W b)
                (conv (smat s W) (scale_row s b)) (conv W b) tol) as LC.
  assert (H1 : forall x y, veq x y -> veq (sart_step relax (smat s W) (scale_row s b) x) (sart_step relax W b y)).
  { intros x y E. eapply veq_trans; [apply sart_step_scale; exact Hs | apply sart_step_proper; exact E]. }
  assert (H2 : forall x y, veq x y -> conv (smat s W) (scale_row s b) x == conv W b y).
  { intros x y E. rewrite conv_scale by exact Hs0. apply conv_proper. exact E. }
  specialize (LC H1 H2 (S f) None None _ _ (veq_refl (initial_solution e1 n g)) I).
  destruct (loop _ _ tol (S f) None (initial_solution e1 n g)), (loop (sart_step relax W b) _ tol (S f) None (initial_solution e1 n g)).
  cbn in LC. exact LC.
Qed.
