(* Support for the source tie of C20 (coq/Gen/C20/Source.v, generated on every run by harness/c20_translate.py):
   the scaling table of the model, the transfer lemma from coefficient equality to operator application, and the
   tactic that proves "source-derived stencil = model stencil" by case analysis on the eight look-up outcomes. *)
Require Import Cherab.Common.Qx.
Require Import Cherab.Model.C20_Stencil.
Open Scope Q_scope.

Definition model_scale (o : opname) (dx dy : Q) : Q :=
  match o with
  | ODx => dx
  | ODy => dy
  | ODxx => dx * dx
  | ODyy => dy * dy
  | ODxy => dx * dy
  end.

Definition raw_row (o : opname) (nx ny ix iy : Z) : stencil :=
  match o with
  | ODx => raw_Dx nx ny ix iy
  | ODy => raw_Dy nx ny ix iy
  | ODxx => raw_Dxx nx ny ix iy
  | ODyy => raw_Dyy nx ny ix iy
  | ODxy => raw_Dxy nx ny ix iy
  end.

(* the rows the code returns are the raw rows divided by the tabled scaling *)
Lemma op_row_is_scaled_raw o nx ny ix iy dx dy :
  op_row o nx ny ix iy dx dy = scale (model_scale o dx dy) (raw_row o nx ny ix iy).
Proof. destruct o; reflexivity. Qed.

(* an operator row acts on a field through its nine coefficients only *)
Lemma apply_of_coeffs s s' f ix iy : coeffs s = coeffs s' -> apply s f ix iy = apply s' f ix iy.
Proof.
  unfold coeffs, apply, offs. cbn [map fst snd]. intro H.
  injection H as H1 H2 H3 H4 H5 H6 H7 H8 H9.
  rewrite H1, H2, H3, H4, H5, H6, H7, H8, H9. reflexivity.
Qed.

Ltac tie_by_lookup_cases s m :=
  let nx := fresh "nx" in let ny := fresh "ny" in let ix := fresh "ix" in let iy := fresh "iy" in
  intros nx ny ix iy;
  cbv beta zeta delta [s m at_left at_right at_top at_bottom top_left top_right bottom_left bottom_right];
  generalize (has nx ny ix iy (-1) 0) (has nx ny ix iy 1 0) (has nx ny ix iy 0 1) (has nx ny ix iy 0 (-1))
             (has nx ny ix iy (-1) 1) (has nx ny ix iy 1 1) (has nx ny ix iy 1 (-1)) (has nx ny ix iy (-1) (-1));
  intros [] [] [] [] [] [] [] []; vm_compute; reflexivity.
