(* C13 -- polygon mask: the even-odd crossing test does not depend on the starting vertex or the
   orientation of the vertex list; for rectangles it is membership of the rectangle. *)
Require Import Cherab.Common.Qx.
Require Import Cherab.Model.C13_Wrappers.
Require Import Cherab.Proofs.C13_Routing.
From Coq Require Import Lqa.
Open Scope Q_scope.

Definition swap (e : pt * pt) : pt * pt := (snd e, fst e).

(* the crossing test does not depend on the direction of the edge *)
Lemma crosses_swap p e : crosses p (swap e) = crosses p e.
Proof.
  destruct p as [px py], e as [[x1 y1] [x2 y2]]. unfold swap, crosses; cbn [fst snd].
  destruct (Qltb py y1) eqn:A, (Qltb py y2) eqn:B; cbn [Bool.eqb]; try reflexivity.
  - apply Qltb_lt in A. apply Qltb_ge in B.
    assert (Qltb y2 y1 = true) as -> by (apply Qltb_lt; lra).
    assert (Qltb y1 y2 = false) as -> by (apply Qltb_ge; lra).
    assert (E : (px - x2) * (y1 - y2) - (py - y2) * (x1 - x2) == (py - y1) * (x2 - x1) - (px - x1) * (y2 - y1)) by ring.
    destruct (Qltb ((px - x2) * (y1 - y2)) ((py - y2) * (x1 - x2))) eqn:C;
      destruct (Qltb ((py - y1) * (x2 - x1)) ((px - x1) * (y2 - y1))) eqn:D; try reflexivity;
      [apply Qltb_lt in C; apply Qltb_ge in D | apply Qltb_ge in C; apply Qltb_lt in D]; lra.
  - apply Qltb_ge in A. apply Qltb_lt in B.
    assert (Qltb y2 y1 = false) as -> by (apply Qltb_ge; lra).
    assert (Qltb y1 y2 = true) as -> by (apply Qltb_lt; lra).
    assert (E : (px - x2) * (y1 - y2) - (py - y2) * (x1 - x2) == (py - y1) * (x2 - x1) - (px - x1) * (y2 - y1)) by ring.
    destruct (Qltb ((py - y2) * (x1 - x2)) ((px - x2) * (y1 - y2))) eqn:C;
      destruct (Qltb ((px - x1) * (y2 - y1)) ((py - y1) * (x2 - x1))) eqn:D; try reflexivity;
      [apply Qltb_lt in C; apply Qltb_ge in D | apply Qltb_ge in C; apply Qltb_lt in D]; lra.
Qed.

(* ---- parity of a list of edges ------------------------------------------------------------------- *)
Lemma parity_app p l1 l2 : parity p (l1 ++ l2) = xorb (parity p l1) (parity p l2).
Proof.
  unfold parity. induction l1 as [| e l1 IH]; cbn [app map fold_right].
  - destruct (fold_right xorb false (map (crosses p) l2)); reflexivity.
  - rewrite IH. rewrite xorb_assoc. reflexivity.
Qed.
Lemma parity_rev p l : parity p (rev l) = parity p l.
Proof.
  induction l as [| e l IH]; [reflexivity |]. cbn [rev]. rewrite parity_app, IH.
  unfold parity at 2 3. cbn [map fold_right]. rewrite xorb_false_r. apply xorb_comm.
Qed.
Lemma parity_swap p l : parity p (map swap l) = parity p l.
Proof.
  unfold parity. induction l as [| e l IH]; [reflexivity |]. cbn [map fold_right]. rewrite IH, crosses_swap. reflexivity.
Qed.

(* ---- edges of open paths ---------------------------------------------------------------------------- *)
Lemma path_edges_snoc l x y : path_edges (l ++ [x; y]) = path_edges (l ++ [x]) ++ [(x, y)].
Proof.
  induction l as [| a l IH]; [reflexivity |].
  destruct l as [| b l'].
  - reflexivity.
  - change ((a :: b :: l') ++ [x; y]) with (a :: (b :: l') ++ [x; y]).
    change ((a :: b :: l') ++ [x]) with (a :: (b :: l') ++ [x]).
    cbn [path_edges app] in *. rewrite IH. reflexivity.
Qed.

Lemma path_edges_rev l : path_edges (rev l) = map swap (rev (path_edges l)).
Proof.
  induction l as [| a l IH]; [reflexivity |].
  destruct l as [| b l'].
  - reflexivity.
  - cbn [path_edges]. cbn [rev] in *. rewrite <- app_assoc. cbn [app].
    rewrite path_edges_snoc, IH. rewrite map_app. reflexivity.
Qed.

(* ---- the closed polygon ------------------------------------------------------------------------------- *)
(* starting the vertex list one vertex later *)
Lemma edges_cons a b t : edges (a :: b :: t) = (a, b) :: path_edges ((b :: t) ++ [a]).
Proof. reflexivity. Qed.
Lemma edges_rot a b t : edges ((b :: t) ++ [a]) = path_edges ((b :: t) ++ [a]) ++ [(a, b)].
Proof.
  rewrite <- path_edges_snoc. unfold edges. cbn [app]. rewrite <- app_assoc. reflexivity.
Qed.

Lemma pip_rot1 p poly : point_in_polygon p (rot1 poly) = point_in_polygon p poly.
Proof.
  destruct poly as [| a [| b t]]; [reflexivity | reflexivity |].
  unfold point_in_polygon. change (rot1 (a :: b :: t)) with ((b :: t) ++ [a]).
  rewrite edges_rot, edges_cons, parity_app.
  unfold parity at 2. cbn [map fold_right]. rewrite xorb_false_r.
  unfold parity at 2. cbn [map fold_right]. fold (parity p (path_edges ((b :: t) ++ [a]))).
  apply xorb_comm.
Qed.

Lemma pip_rotate p k poly : point_in_polygon p (rotate k poly) = point_in_polygon p poly.
Proof.
  revert poly. induction k as [| k IH]; intros poly; [reflexivity |]. cbn [rotate]. rewrite IH. apply pip_rot1.
Qed.

(* listing the vertices in the opposite direction *)
Lemma pip_rev_keep_first p a t : point_in_polygon p (a :: rev t) = point_in_polygon p (a :: t).
Proof.
  unfold point_in_polygon, edges.
  assert (E : (a :: rev t) ++ [a] = rev ((a :: t) ++ [a])).
  { cbn [app rev]. rewrite rev_app_distr. reflexivity. }
  rewrite E, path_edges_rev, parity_swap, parity_rev. reflexivity.
Qed.

Lemma pip_rev p poly : point_in_polygon p (rev poly) = point_in_polygon p poly.
Proof.
  destruct poly as [| a t]; [reflexivity |].
  change (rev (a :: t)) with (rot1 (a :: rev t)).
  rewrite pip_rot1. apply pip_rev_keep_first.
Qed.

(* translation of polygon and point together *)
Definition shift (d : pt) (q : pt) : pt := (fst q + fst d, snd q + snd d).
Lemma crosses_shift d p e : crosses (shift d p) (shift d (fst e), shift d (snd e)) = crosses p e.
Proof.
  destruct d as [dx dy], p as [px py], e as [[x1 y1] [x2 y2]]. unfold shift, crosses; cbn [fst snd].
  assert (L : forall u v w, Qltb (u + w) (v + w) = Qltb u v).
  { intros u v w. destruct (Qltb u v) eqn:E; [apply Qltb_lt in E; apply Qltb_lt; lra | apply Qltb_ge in E; apply Qltb_ge; lra]. }
  rewrite !L.
  assert (M : forall u v u' v', u' == u -> v' == v -> Qltb u' v' = Qltb u v).
  { intros u v u' v' Eu Ev. destruct (Qltb u v) eqn:E; [apply Qltb_lt in E; apply Qltb_lt; lra | apply Qltb_ge in E; apply Qltb_ge; lra]. }
  rewrite (M ((px - x1) * (y2 - y1)) ((py - y1) * (x2 - x1)) ((px + dx - (x1 + dx)) * (y2 + dy - (y1 + dy))) ((py + dy - (y1 + dy)) * (x2 + dx - (x1 + dx)))) by ring.
  rewrite (M ((py - y1) * (x2 - x1)) ((px - x1) * (y2 - y1)) ((py + dy - (y1 + dy)) * (x2 + dx - (x1 + dx))) ((px + dx - (x1 + dx)) * (y2 + dy - (y1 + dy)))) by ring.
  reflexivity.
Qed.

Lemma path_edges_map (g : pt -> pt) l : path_edges (map g l) = map (fun e => (g (fst e), g (snd e))) (path_edges l).
Proof.
  induction l as [| a l IH]; [reflexivity |]. destruct l as [| b l']; [reflexivity |].
  cbn [map path_edges] in *. rewrite IH. reflexivity.
Qed.
Lemma pip_shift d p poly : point_in_polygon (shift d p) (map (shift d) poly) = point_in_polygon p poly.
Proof.
  unfold point_in_polygon, edges. destruct poly as [| a t]; [reflexivity |].
  cbn [map]. change (shift d a :: map (shift d) t) with (map (shift d) (a :: t)).
  change [shift d a] with (map (shift d) [a]). rewrite <- map_app, path_edges_map.
  unfold parity. rewrite map_map. f_equal. apply map_ext. intros e. apply crosses_shift.
Qed.

(* ---- rectangles: the crossing test is membership, for every position of the point ------------------------ *)
Definition rectangle (x0 y0 x1 y1 : Q) : list pt := [(x0, y0); (x1, y0); (x1, y1); (x0, y1)].

Lemma pip_rectangle x0 y0 x1 y1 px py : x0 < x1 -> y0 < y1 ->
  point_in_polygon (px, py) (rectangle x0 y0 x1 y1) = true <-> (x0 <= px < x1 /\ y0 <= py < y1).
Proof.
  intros Hx Hy. unfold point_in_polygon, rectangle, edges, parity. cbn [app path_edges map fold_right crosses].
  assert (Q00 : Qltb y0 y0 = false) by (apply Qltb_ge; lra).
  assert (Q11 : Qltb y1 y1 = false) by (apply Qltb_ge; lra).
  assert (Q01 : Qltb y0 y1 = true) by (apply Qltb_lt; lra).
  assert (Q10 : Qltb y1 y0 = false) by (apply Qltb_ge; lra).
  rewrite ?Q00, ?Q11, ?Q01, ?Q10.
  destruct (Qltb py y0) eqn:A; [apply Qltb_lt in A | apply Qltb_ge in A];
    destruct (Qltb py y1) eqn:B; [apply Qltb_lt in B | apply Qltb_ge in B | apply Qltb_lt in B | apply Qltb_ge in B];
    cbn [Bool.eqb xorb]; try (split; [discriminate | intros; lra]); try (exfalso; lra).
  (* y0 <= py < y1: the two vertical edges decide *)
  assert (R1 : (px - x1) * (y1 - y0) < (py - y0) * (x1 - x1) <-> px < x1).
  { setoid_replace ((py - y0) * (x1 - x1)) with 0 by ring. split; intros H.
    - destruct (Qlt_le_dec px x1); [assumption |]. assert (0 <= (px - x1) * (y1 - y0)) by (apply Qmult_le_0_compat; lra). lra.
    - setoid_replace ((px - x1) * (y1 - y0)) with (- ((x1 - px) * (y1 - y0))) by ring.
      assert (0 < (x1 - px) * (y1 - y0)) by (apply Qmult_lt_0_compat; lra). lra. }
  assert (R0 : (py - y1) * (x0 - x0) < (px - x0) * (y0 - y1) <-> px < x0).
  { setoid_replace ((py - y1) * (x0 - x0)) with 0 by ring. split; intros H.
    - destruct (Qlt_le_dec px x0); [assumption |].
      setoid_replace ((px - x0) * (y0 - y1)) with (- ((px - x0) * (y1 - y0))) in H by ring.
      assert (0 <= (px - x0) * (y1 - y0)) by (apply Qmult_le_0_compat; lra). lra.
    - setoid_replace ((px - x0) * (y0 - y1)) with ((x0 - px) * (y1 - y0)) by ring.
      apply Qmult_lt_0_compat; lra. }
  assert (C' : Qltb ((px - x1) * (y1 - y0)) ((py - y0) * (x1 - x1)) = false -> x1 <= px).
  { intros C. apply Qltb_ge in C. destruct (Qlt_le_dec px x1) as [N |]; [| assumption]. apply R1 in N. lra. }
  assert (D' : Qltb ((py - y1) * (x0 - x0)) ((px - x0) * (y0 - y1)) = false -> x0 <= px).
  { intros D. apply Qltb_ge in D. destruct (Qlt_le_dec px x0) as [N |]; [| assumption]. apply R0 in N. lra. }
  destruct (Qltb ((px - x1) * (y1 - y0)) ((py - y0) * (x1 - x1))) eqn:C;
    [apply Qltb_lt in C; apply R1 in C | specialize (C' eq_refl)];
    destruct (Qltb ((py - y1) * (x0 - x0)) ((px - x0) * (y0 - y1))) eqn:D;
    [apply Qltb_lt in D; apply R0 in D | specialize (D' eq_refl) | apply Qltb_lt in D; apply R0 in D | specialize (D' eq_refl)];
    cbn [xorb];
    (split; [intros H; try discriminate; repeat split; lra | intros [[H1 H2] [H3 H4]]; try reflexivity; exfalso; lra]).
Qed.

(* ---- cutting an ear off: the crossing test of a polygon is the crossing test of the triangle (a, b, c) combined by
   parity with that of the polygon without b - for EVERY vertex list; by induction the mask of any polygon is the
   parity of the triangles of a fan (what a triangulation-based mask computes) -------------------------------------- *)
Lemma crosses_degenerate p a : crosses p (a, a) = false.
Proof. destruct p as [px py], a as [x y]. unfold crosses. rewrite eqb_reflx. reflexivity. Qed.

Lemma pip_ear p a b c rest :
  point_in_polygon p (a :: b :: c :: rest) = xorb (point_in_polygon p [a; b; c]) (point_in_polygon p (a :: c :: rest)).
Proof.
  unfold point_in_polygon. rewrite !edges_cons. cbn [app path_edges].
  change (match rest ++ [a] with [] => [] | b0 :: _ => (c, b0) :: path_edges (rest ++ [a]) end) with (path_edges (c :: rest ++ [a])).
  unfold parity. cbn [map fold_right]. rewrite xorb_false_r.
  pose proof (crosses_swap p (a, c)) as S. unfold swap in S. cbn [fst snd] in S. rewrite S.
  set (T := fold_right xorb false (map (crosses p) (path_edges (c :: rest ++ [a])))).
  destruct (crosses p (a, b)), (crosses p (b, c)), (crosses p (a, c)), T; reflexivity.
Qed.

Lemma pip_two p a b : point_in_polygon p [a; b] = false.
Proof.
  unfold point_in_polygon, edges, parity. cbn [app path_edges map fold_right].
  pose proof (crosses_swap p (a, b)) as S. unfold swap in S. cbn [fst snd] in S. rewrite S.
  destruct (crosses p (a, b)); reflexivity.
Qed.
Lemma pip_one p a : point_in_polygon p [a] = false.
Proof. unfold point_in_polygon, edges, parity. cbn [app path_edges map fold_right]. rewrite crosses_degenerate. reflexivity. Qed.

Lemma pip_fan p a l : point_in_polygon p (a :: l) = fan_parity p a l.
Proof.
  induction l as [| b t IH]; [apply pip_one |].
  destruct t as [| c rest]; [apply pip_two |].
  rewrite pip_ear. cbn [fan_parity]. f_equal.
  (* the polygon without b: its fan starts at c *)
  clear IH. revert b c. induction rest as [| d rest IH2]; intros b c.
  - cbn [fan_parity]. apply pip_two.
  - rewrite pip_ear. cbn [fan_parity]. f_equal. apply (IH2 c d).
Qed.
