(* C02: the component lists of the seven line-shape models: shares of the radiance, pi + sigma = unpolarised
   bin by bin, zero width adds nothing.  All oracles (sqrt, pow, log, exp, erf, bin integrator) arbitrary. *)
Require Import Cherab.Common.Qx.
Require Import Cherab.Model.C02_LineShape.
Require Import Cherab.Proofs.C02_Gauss Cherab.Proofs.C02_Norm.
From Coq Require Import Qround Qabs Lqa.
Open Scope Q_scope.

Section Weights.
  Variable E : Q -> Q.
  Variable sqrt2 : Q.
  Variable I : Q -> Q -> Q -> Q -> Q.
  Variable K : consts.
  Variable sqrtQ : Q -> Q.
  Variable powQ : Q -> Q -> Q.
  Variable lnQ : Q -> Q.
  Variable expQ : Q -> Q.
  Variable s2f : Q.

  Notation csb := (csbin E sqrt2 I).

  (* ---- algebra of the Zeeman weights: with sin^2 := 1 - cos^2 ---- *)
  Lemma zeeman_weight_sum cs R : (1 # 2) * (1 - cs) * R + (((1 # 4) * (1 - cs) + (1 # 2) * cs) * R + ((1 # 4) * (1 - cs) + (1 # 2) * cs) * R) == R.
  Proof. ring. Qed.

  (* ---- a scaled single Gaussian component ---- *)
  Lemma csb_single_half g R lam sig i :
    csb g [GaussC R lam sig] i == csb g [GaussC ((1 # 2) * R) lam sig] i + csb g [GaussC ((1 # 2) * R) lam sig] i.
  Proof.
    unfold csbin. cbn [map Qsum cbin]. rewrite (gbin_scale E sqrt2 (1 # 2) R). ring.
  Qed.

  Lemma csb_nil g i : csb g [] i == 0.
  Proof. reflexivity. Qed.

  (* ============================ ZeemanTriplet ============================ *)
  Theorem zeeman_triplet_total w m ts vel b R dir : Qle_bool ts 0 = false ->
    total_rad (zeeman_triplet K sqrtQ PolNo w m ts vel b R dir) == R.
  Proof.
    intros Hts. unfold zeeman_triplet, total_rad. rewrite Hts.
    destruct (Qeq_bool (vlength sqrtQ b) 0); cbn [pol_eqb negb app map Qsum c_rad]; ring.
  Qed.

  Theorem zeeman_triplet_pi_sigma g w m ts vel b R dir i :
    csb g (zeeman_triplet K sqrtQ PolNo w m ts vel b R dir) i ==
    csb g (zeeman_triplet K sqrtQ PolPi w m ts vel b R dir) i + csb g (zeeman_triplet K sqrtQ PolSigma w m ts vel b R dir) i.
  Proof.
    unfold zeeman_triplet. destruct (Qle_bool ts 0); [rewrite !csb_nil; ring|].
    destruct (Qeq_bool (vlength sqrtQ b) 0); cbn [pol_eqb negb].
    - apply csb_single_half.
    - rewrite !csbin_app. rewrite !csb_nil. ring.
  Qed.

  (* ============================ ParametrisedZeemanTriplet ============================ *)
  Theorem param_zeeman_total al be ga w m ts vel b R dir : Qle_bool ts 0 = false ->
    total_rad (param_zeeman_triplet K sqrtQ powQ PolNo al be ga w m ts vel b R dir) == R.
  Proof.
    intros Hts. unfold param_zeeman_triplet, total_rad. rewrite Hts.
    destruct (Qeq_bool (vlength sqrtQ b) 0); cbn [pol_eqb negb app map Qsum c_rad]; ring.
  Qed.

  Theorem param_zeeman_pi_sigma g al be ga w m ts vel b R dir i :
    csb g (param_zeeman_triplet K sqrtQ powQ PolNo al be ga w m ts vel b R dir) i ==
    csb g (param_zeeman_triplet K sqrtQ powQ PolPi al be ga w m ts vel b R dir) i
    + csb g (param_zeeman_triplet K sqrtQ powQ PolSigma al be ga w m ts vel b R dir) i.
  Proof.
    unfold param_zeeman_triplet. destruct (Qle_bool ts 0); [rewrite !csb_nil; ring|].
    destruct (Qeq_bool (vlength sqrtQ b) 0); cbn [pol_eqb negb].
    - apply csb_single_half.
    - rewrite !csbin_app. rewrite !csb_nil. ring.
  Qed.

  (* ============================ ZeemanStructure.evaluate ============================ *)
  Lemma fold_sum (raw : list (Q * Q)) : forall acc, fold_left (fun a wr => a + snd wr) raw acc == acc + Qsum (map snd raw).
  Proof.
    induction raw as [|x raw IH]; intros acc; cbn [fold_left map Qsum]; [ring | rewrite IH; ring].
  Qed.

  Lemma sum_div (raw : list (Q * Q)) s :
    Qsum (map snd (map (fun wr : Q * Q => (fst wr, snd wr / s)) raw)) == Qsum (map snd raw) / s.
  Proof.
    induction raw as [|x raw IH]; cbn [map Qsum snd]; [unfold Qdiv; ring | rewrite IH; unfold Qdiv; ring].
  Qed.

  Theorem zeeman_structure_normalised raw :
    let s := Qsum (map snd raw) in
    (0 < s -> Qsum (map snd (zs_evaluate raw)) == 1 /\ map fst (zs_evaluate raw) = map fst raw) /\
    (~ 0 < s -> zs_evaluate raw = raw).
  Proof.
    cbn zeta. unfold zs_evaluate.
    assert (Hs : fold_left (fun acc wr => acc + snd wr) raw 0 == Qsum (map snd raw)) by (rewrite fold_sum; ring).
    set (s := fold_left (fun acc wr => acc + snd wr) raw 0) in *.
    split; intros H.
    - assert (Hb : Qltb 0 s = true).
      { unfold Qltb. apply negb_true_iff. destruct (Qle_bool s 0) eqn:Hb; [apply Qle_bool_iff in Hb; lra | reflexivity]. }
      rewrite Hb. split.
      + rewrite sum_div, <- Hs. field. intro Hz. rewrite <- Hs, Hz in H. lra.
      + rewrite map_map. reflexivity.
    - assert (Hb : Qltb 0 s = false).
      { unfold Qltb. apply negb_false_iff. apply Qle_bool_iff. rewrite Hs. apply Qnot_lt_le. exact H. }
      now rewrite Hb.
  Qed.

  (* ============================ MultipletLineShape ============================ *)
  Lemma total_rad_map (f : Q * Q -> comp) (k : Q) l :
    (forall wr, c_rad (f wr) == k * snd wr) -> total_rad (map f l) == k * Qsum (map snd l).
  Proof.
    intros H. unfold total_rad. induction l as [|x l IH]; cbn [map Qsum]; [ring | rewrite IH, H; ring].
  Qed.

  Theorem multiplet_shares w m mult ts vel R dir : Qle_bool ts 0 = false ->
    total_rad (multiplet_line K sqrtQ w m mult ts vel R dir) == R * Qsum (map snd mult) /\
    map c_rad (multiplet_line K sqrtQ w m mult ts vel R dir) = map (fun wr => R * snd wr) mult.
  Proof.
    intros Hts. unfold multiplet_line. rewrite Hts. split.
    - apply total_rad_map. intros; reflexivity.
    - rewrite map_map. reflexivity.
  Qed.

  (* ============================ ZeemanMultiplet ============================ *)
  Theorem zeeman_multiplet_pi_sigma g rp rsp rsm w m ts vel b R dir i :
    csb g (zeeman_multiplet K sqrtQ PolNo rp rsp rsm w m ts vel b R dir) i ==
    csb g (zeeman_multiplet K sqrtQ PolPi rp rsp rsm w m ts vel b R dir) i
    + csb g (zeeman_multiplet K sqrtQ PolSigma rp rsp rsm w m ts vel b R dir) i.
  Proof.
    unfold zeeman_multiplet. destruct (Qle_bool ts 0); [rewrite !csb_nil; ring|].
    destruct (Qeq_bool (vlength sqrtQ b) 0); cbn [pol_eqb negb].
    - apply csb_single_half.
    - rewrite !csbin_app. rewrite !csb_nil. ring.
  Qed.

  Lemma group_total cr (l : list (Q * Q)) dir vel sigma :
    total_rad (map (fun wr => GaussC (cr * snd wr) (doppler_shift K sqrtQ (fst wr) dir vel) sigma) l) == cr * Qsum (map snd l).
  Proof. apply total_rad_map. intros; reflexivity. Qed.

  (* with every group's raw ratios of positive sum, the components share the whole radiance *)
  Theorem zeeman_multiplet_total rp rsp rsm w m ts vel b R dir : Qle_bool ts 0 = false ->
    0 < Qsum (map snd rp) -> 0 < Qsum (map snd rsp) -> 0 < Qsum (map snd rsm) ->
    total_rad (zeeman_multiplet K sqrtQ PolNo rp rsp rsm w m ts vel b R dir) == R.
  Proof.
    intros Hts H1 H2 H3. unfold zeeman_multiplet. rewrite Hts.
    destruct (Qeq_bool (vlength sqrtQ b) 0); cbn [pol_eqb negb].
    - unfold total_rad. cbn [map Qsum c_rad]. ring.
    - rewrite !total_rad_app.
      rewrite !group_total.
      destruct (zeeman_structure_normalised rp) as [[-> _] _]; [assumption|].
      destruct (zeeman_structure_normalised rsp) as [[-> _] _]; [assumption|].
      destruct (zeeman_structure_normalised rsm) as [[-> _] _]; [assumption|].
      ring.
  Qed.

  (* ============================ BeamEmissionMultiplet ============================ *)
  Theorem mse_weights w bm bt be s2p s1s0 p2p3 p4p3 ne te b R bd od :
    Qle_bool te 0 = false -> Qle_bool ne 0 = false ->
    ~ 1 + s2p == 0 -> ~ s1s0 + 1 == 0 -> ~ 1 + p2p3 + p4p3 == 0 ->
    let cs := mse_multiplet K sqrtQ w bm bt be s2p s1s0 p2p3 p4p3 ne te b R bd od in
    total_rad cs == R /\
    (* sigma group: s2p/(1+s2p) R, pi group: 1/(1+s2p) R *)
    total_rad (firstn 3 cs) == s2p / (1 + s2p) * R /\ total_rad (skipn 3 cs) == 1 / (1 + s2p) * R.
  Proof.
    intros Hte Hne H1 H2 H3. cbn zeta. unfold mse_multiplet. rewrite Hte, Hne.
    unfold total_rad. cbn [firstn skipn map Qsum c_rad].
    repeat split; field; repeat split; assumption.
  Qed.

  (* ============================ StarkBroadenedLine ============================ *)
  Lemma stark_weights_sum' fl full lw gw sigma full' :
    stark_weights lnQ expQ s2f fl full = (lw, gw, sigma, full') -> gw + lw == 1.
  Proof.
    unfold stark_weights. cbv zeta.
    destruct (Qltb (Qred (fl / full)) stark_l2t_low); [intros H; inversion H; ring|].
    destruct (Qltb stark_l2t_high (Qred (fl / full))); intros H; inversion H; ring.
  Qed.

  Lemma stark_weights_sum cij aij bij w m ne te ts lw gw sigma full :
    stark_widths K sqrtQ powQ lnQ expQ s2f cij aij bij w m ne te ts = Some (lw, gw, sigma, full) -> gw + lw == 1.
  Proof.
    unfold stark_widths. cbv zeta.
    match goal with |- (if ?c then _ else _) = _ -> _ => destruct c end; [discriminate|].
    intros H. inversion H as [H']. now apply stark_weights_sum' in H'.
  Qed.

  Lemma stark_pair_total gw lw cr lam sigma full : gw + lw == 1 -> total_rad (stark_pair gw lw cr lam sigma full) == cr.
  Proof.
    intros H. unfold stark_pair, total_rad. cbn [map Qsum c_rad].
    setoid_replace (gw * cr + (lw * cr + 0)) with ((gw + lw) * cr) by ring. rewrite H. ring.
  Qed.

  Theorem stark_total cij aij bij w m ne te ts vel b R dir :
    stark_widths K sqrtQ powQ lnQ expQ s2f cij aij bij w m ne te ts <> None ->
    total_rad (stark_line K sqrtQ powQ lnQ expQ s2f PolNo cij aij bij w m ne te ts vel b R dir) == R.
  Proof.
    intros Hw. unfold stark_line.
    destruct (stark_widths K sqrtQ powQ lnQ expQ s2f cij aij bij w m ne te ts) as [[[[lw gw] sigma] full]|] eqn:Hs; [|congruence].
    pose proof (stark_weights_sum _ _ _ _ _ _ _ _ _ _ _ _ Hs) as Hsum.
    destruct (Qeq_bool (vlength sqrtQ b) 0); cbn [pol_eqb negb].
    - now apply stark_pair_total.
    - rewrite !total_rad_app, !stark_pair_total by assumption. ring.
  Qed.

  Lemma csb_pair_half g gw lw R lam sigma full i :
    csb g (stark_pair gw lw R lam sigma full) i ==
    csb g (stark_pair gw lw (R * (1 # 2)) lam sigma full) i + csb g (stark_pair gw lw (R * (1 # 2)) lam sigma full) i.
  Proof.
    unfold stark_pair, csbin. cbn [map Qsum cbin].
    rewrite (gbin_ext E sqrt2 (gw * (R * (1 # 2))) ((1 # 2) * (gw * R))) by ring.
    rewrite (lbin_ext I (lw * (R * (1 # 2))) ((1 # 2) * (lw * R))) by ring.
    rewrite (gbin_scale E sqrt2 (1 # 2)), (lbin_scale I (1 # 2)). ring.
  Qed.

  Theorem stark_pi_sigma g cij aij bij w m ne te ts vel b R dir i :
    csb g (stark_line K sqrtQ powQ lnQ expQ s2f PolNo cij aij bij w m ne te ts vel b R dir) i ==
    csb g (stark_line K sqrtQ powQ lnQ expQ s2f PolPi cij aij bij w m ne te ts vel b R dir) i
    + csb g (stark_line K sqrtQ powQ lnQ expQ s2f PolSigma cij aij bij w m ne te ts vel b R dir) i.
  Proof.
    unfold stark_line.
    destruct (stark_widths K sqrtQ powQ lnQ expQ s2f cij aij bij w m ne te ts) as [[[[lw gw] sigma] full]|];
      [|rewrite !csb_nil; ring].
    destruct (Qeq_bool (vlength sqrtQ b) 0); cbn [pol_eqb negb].
    - apply csb_pair_half.
    - rewrite !csbin_app. rewrite !csb_nil. ring.
  Qed.

  (* ============================ zero width ============================ *)
  Theorem zero_width_gaussian w m ts vel R dir g smp : Qle_bool ts 0 = true ->
    add_comps E sqrt2 I g (gaussian_line K sqrtQ w m ts vel R dir) smp = smp.
  Proof. intros H. unfold gaussian_line. now rewrite H. Qed.

  Theorem zero_width_multiplet w m mult ts vel R dir g smp : Qle_bool ts 0 = true ->
    add_comps E sqrt2 I g (multiplet_line K sqrtQ w m mult ts vel R dir) smp = smp.
  Proof. intros H. unfold multiplet_line. now rewrite H. Qed.

  Theorem zero_width_zeeman_triplet p w m ts vel b R dir g smp : Qle_bool ts 0 = true ->
    add_comps E sqrt2 I g (zeeman_triplet K sqrtQ p w m ts vel b R dir) smp = smp.
  Proof. intros H. unfold zeeman_triplet. now rewrite H. Qed.

  Theorem zero_width_param_zeeman p al be ga w m ts vel b R dir g smp : Qle_bool ts 0 = true ->
    add_comps E sqrt2 I g (param_zeeman_triplet K sqrtQ powQ p al be ga w m ts vel b R dir) smp = smp.
  Proof. intros H. unfold param_zeeman_triplet. now rewrite H. Qed.

  Theorem zero_width_zeeman_multiplet p rp rsp rsm w m ts vel b R dir g smp : Qle_bool ts 0 = true ->
    add_comps E sqrt2 I g (zeeman_multiplet K sqrtQ p rp rsp rsm w m ts vel b R dir) smp = smp.
  Proof. intros H. unfold zeeman_multiplet. now rewrite H. Qed.

  (* Stark: no Doppler width (ts <= 0) and no electron broadening (ne <= 0 or te <= 0) *)
  Theorem zero_width_stark p cij aij bij w m ne te ts vel b R dir g smp :
    Qle_bool ts 0 = true -> (Qle_bool ne 0 = true \/ Qle_bool te 0 = true) ->
    add_comps E sqrt2 I g (stark_line K sqrtQ powQ lnQ expQ s2f p cij aij bij w m ne te ts vel b R dir) smp = smp.
  Proof.
    intros Hts Hne. unfold stark_line, stark_widths.
    assert (H1 : Qltb 0 ts = false) by (unfold Qltb; now rewrite Hts).
    assert (H2 : Qltb 0 ne && Qltb 0 te = false).
    { unfold Qltb. destruct Hne as [-> | ->]; cbn [negb andb]; [reflexivity | apply andb_false_r]. }
    rewrite H1, H2. reflexivity.
  Qed.

  (* a single component of non-positive width, and a radiance of zero, add nothing *)
  Theorem zero_sigma_adds_nothing R lam sig g smp : Qle_bool sig 0 = true -> add_gaussian E sqrt2 R lam sig g smp = smp.
  Proof. intros H. unfold add_gaussian. now rewrite H. Qed.

  Theorem zero_radiance_adds_nothing g cs i : (forall c, In c cs -> c_rad c == 0) -> csb g cs i == 0.
  Proof.
    intros H. unfold csbin. apply Qsum_map_zero. intros c Hc. specialize (H c Hc).
    destruct c as [R lam sig | R lam w]; cbn [cbin c_rad] in *.
    - unfold gbin. destruct (g_inrange g lam sig i); [rewrite H; unfold Qdiv; ring | reflexivity].
    - unfold lbin. destruct (l_inrange g lam w i); [rewrite H; unfold Qdiv; ring | reflexivity].
  Qed.
End Weights.
