(* C06: joining path components with '/' is injective; add_* delegate to their own family; the
   record of finding F1 (the unfixed add_continuum_power_rate / add_cx_power_rate). *)
From Coq Require Import ZArith List Bool String Ascii Lia DecimalString DecimalZ Decimal.
Require Import Cherab.Model.C06_Repo Cherab.Model.C06_Spec Cherab.Proofs.C06_Keys.
Import ListNotations.
Open Scope Z_scope.
Open Scope list_scope.


Lemma nochar_has c a b : nochar c (a ++ String c b)%string = false.
Proof. rewrite nochar_app. cbn. rewrite Ascii.eqb_refl. cbn. apply andb_false_r. Qed.

Lemma flatten_injective p p' :
  p <> [] -> p' <> [] -> forallb comp_ok p = true -> forallb comp_ok p' = true ->
  flatten p = flatten p' -> p = p'.
Proof.
  revert p'. induction p as [|x t IH]; intros p' N N' W W' E; [congruence|].
  destruct p' as [|y t']; [congruence|].
  cbn [forallb] in W, W'. apply andb_true_iff in W as [Wx Wt]. apply andb_true_iff in W' as [Wy Wt'].
  destruct t as [|x2 t]; destruct t' as [|y2 t'].
  - cbn in E. now subst.
  - exfalso. cbn [flatten] in E. unfold comp_ok in Wx. rewrite E in Wx. fold slash in Wx.
    rewrite nochar_has in Wx. discriminate.
  - exfalso. cbn [flatten] in E. unfold comp_ok in Wy. rewrite <- E in Wy. fold slash in Wy.
    rewrite nochar_has in Wy. discriminate.
  - change (flatten (x :: x2 :: t)) with (x ++ String slash (flatten (x2 :: t)))%string in E.
    change (flatten (y :: y2 :: t')) with (y ++ String slash (flatten (y2 :: t')))%string in E.
    apply split_first in E; [|exact Wx|exact Wy]. destruct E as [-> E].
    f_equal. apply IH; [discriminate | discriminate | exact Wt | exact Wt' | exact E].
Qed.

(* ---- the rendered components of every key's file are slash-free when its symbols are ---- *)
Lemma comp_ok_uint d : comp_ok (NilEmpty.string_of_uint d) = true.
Proof. unfold comp_ok. induction d; cbn; auto. Qed.

Lemma comp_ok_strZ z : comp_ok (strZ z) = true.
Proof.
  unfold strZ. destruct (Z.to_int z) as [d|d]; cbn [NilEmpty.string_of_int].
  - apply comp_ok_uint.
  - unfold comp_ok. cbn. apply comp_ok_uint.
Qed.

Lemma comp_ok_json s : comp_ok s = true -> comp_ok (json s) = true.
Proof. unfold comp_ok, json. intros H. rewrite nochar_app, H. reflexivity. Qed.

Lemma kpath_comp_ok k : key_comp_ok k = true -> forallb comp_ok (kpath k) = true.
Proof.
  destruct k as [f s q|d dq r rq|c s q t|d dq r rq t|s q t|d r rq t m|b t q|b m t q|b t q tr];
  cbn [key_comp_ok kpath loc fst]; intros H;
  repeat match goal with H : (_ && _)%bool = true |- _ => apply andb_true_iff in H as [? H] end;
  try destruct f; try destruct c;
  unfold path_adf11, adf11_dir, path_tcx, path_pec, pec_dir, path_pectcx, path_wvl, path_bcx, path_bstop, path_bpop, path_bem,
       path_tcx_s, path_pec_s, path_pec_d, path_pectcx_s, path_wvl_s, path_bcx_s, path_bstop_s, path_bpop_s, path_bem_s;
  cbn [Datatypes.app forallb];
  rewrite ?comp_ok_strZ, ?comp_ok_json by (assumption || apply comp_ok_strZ);
  repeat match goal with H : comp_ok ?s = true |- _ => rewrite H; clear H end; reflexivity.
Qed.

Lemma forallb_app_true {A} (f : A -> bool) a b : forallb f a = true -> forallb f b = true -> forallb f (a ++ b) = true.
Proof. intros Ha Hb. rewrite forallb_app, Ha, Hb. reflexivity. Qed.

(* distinct files of the model are distinct file NAMES on disk *)
Lemma file_names_injective root k k' :
  forallb comp_ok root = true -> key_comp_ok k = true -> key_comp_ok k' = true ->
  flatten (root ++ kpath k) = flatten (root ++ kpath k') -> kpath k = kpath k'.
Proof.
  intros R K K' E. apply (app_inv_head root). apply flatten_injective; auto.
  - intros E0. apply app_eq_nil in E0 as [_ E0]. revert E0. destruct k as [f| | | | | | | |]; try destruct f; discriminate.
  - intros E0. apply app_eq_nil in E0 as [_ E0]. revert E0. destruct k' as [f| | | | | | | |]; try destruct f; discriminate.
  - apply forallb_app_true; [exact R | now apply kpath_comp_ok].
  - apply forallb_app_true; [exact R | now apply kpath_comp_ok].
Qed.

(* every add_* function performs exactly the steps of its own family's update_* on the singleton
   dictionary (by definition of the model; the correspondence ties this to the source) *)
Lemma add_routes_to_own_family :
  (forall f repo s q t, steps (AAdf11 f repo s q t) = steps (UAdf11 f repo [(s, [(q, t)])])) /\
  (forall repo d dq r rs, steps (ATcx repo d dq r rs) = steps (UTcx repo [(d, [(dq, [(r, rs)])])])) /\
  (forall c repo s q tr t, steps (APec c repo s q tr t) = steps (UPec repo [(c, [(s, [(q, [(tr, t)])])])])) /\
  (forall repo d dq r rq tr t,
     steps (APecTcx repo d dq r rq tr t) = steps (UPecTcx repo [(d, [(dq, [(r, [(rq, [(tr, t)])])])])])) /\
  (forall repo s q tr t, steps (AWvl repo s q tr t) = steps (UWvl repo [(s, [(q, [(tr, t)])])])) /\
  (forall repo d m r rq tr t, steps (ABcx repo d m r rq tr t) = steps (UBcx repo [(d, [(r, [(rq, [(tr, [(m, t)])])])])])) /\
  (forall repo b t q r, steps (ABstop repo b t q r) = steps (UBstop repo [(b, [(t, [(q, r)])])])) /\
  (forall repo b m t q r, steps (ABpop repo b m t q r) = steps (UBpop repo [(b, [(m, [(t, [(q, r)])])])])) /\
  (forall repo b t q tr r, steps (ABem repo b t q tr r) = steps (UBem repo [(b, [(t, [(q, [(tr, r)])])])])).
Proof. repeat split. Qed.

(* Finding F1 (fixed in /repo by 4538bc6): before the fix add_continuum_power_rate and
   add_cx_power_rate called update_line_power_rates.  In the model of that code the value lands under
   the line-power key, the matching read raises, and a stored line-power rate is clobbered. *)
Definition unfixed_add_power (repo : option path) (s : species) (q : Z) (t : tbl) : call :=
  UAdf11 FLine repo [(s, [(q, t)])].

Lemma refuted_unfixed :
  exists root s q t0 t1,
    let d := run [AAdf11 FLine (Some root) s q t0; unfixed_add_power (Some root) s q t1] [] in
    get root (KAdf11 FCont (lsym s) q) d = None /\
    get root (KAdf11 FLine (lsym s) q) d = Some (t_val t1) /\ t_val t1 <> t_val t0.
Proof.
  exists ["repo"%string], {| sym := "C"; znum := 6; is_elem := true |}, 2,
         (leaf_ok 1%positive), (leaf_ok 2%positive).
  vm_compute. repeat split; congruence.
Qed.
