(* History independence of Caching1D/2D/3D: the generic theorem of Proofs/C14_Cache.v
   instantiated with the three models of Model/C14_Caching.v. *)
Require Import Cherab.Common.Qx.
Require Import Cherab.Model.C14_Cache Cherab.Model.C14_Caching Cherab.Proofs.C14_Cache.
Open Scope Q_scope.

Lemma Zeqb_eq a b : (a =? b)%Z = true <-> a = b.
Proof. apply Z.eqb_eq. Qed.

Lemma eqb2_eq a b : eqb2 a b = true <-> a = b.
Proof.
  destruct a as [a1 a2], b as [b1 b2]. unfold eqb2. cbn [fst snd].
  rewrite andb_true_iff, !Z.eqb_eq. split; [intros [-> ->]; reflexivity|intros [= -> ->]; auto].
Qed.

Lemma eqb3_eq a b : eqb3 a b = true <-> a = b.
Proof.
  destruct a as [[a1 a2] a3], b as [[b1 b2] b3]. unfold eqb3. cbn [fst snd].
  rewrite !andb_true_iff, !Z.eqb_eq. split; [intros [[-> ->] ->]; reflexivity|intros [= -> -> ->]; auto].
Qed.

Theorem history_independent_1d fb nbe x top f hist p :
  eval_after1 fb nbe x top f hist p = pure1 fb nbe x top f p.
Proof. apply history_independent; [exact Zeqb_eq | exact Zeqb_eq]. Qed.

Theorem history_independent_2d fb nbe x y topx topy f hist p :
  eval_after2 fb nbe x y topx topy f hist p = pure2 fb nbe x y topx topy f p.
Proof. apply history_independent; [exact eqb2_eq | exact eqb2_eq]. Qed.

Theorem history_independent_3d fb nbe x y z topx topy topz f hist p :
  eval_after3 fb nbe x y z topx topy topz f hist p = pure3 fb nbe x y z topx topy topz f p.
Proof. apply history_independent; [exact eqb3_eq | exact eqb3_eq]. Qed.
