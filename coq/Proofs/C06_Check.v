(* The comparator of the correspondence reads the model through its public functions. *)
From Coq Require Import ZArith List Bool String Lia.
Require Import Cherab.Model.C06_Repo Cherab.Model.C06_Check.
Import ListNotations.
Open Scope Z_scope.

Lemma read_all_is_get_query qs d :
  read_all (map qloc qs) d = map (fun x : rquery => res_code (get_query (fst x) (snd x) d)) qs.
Proof. unfold read_all. rewrite map_map. reflexivity. Qed.

(* when no disagreement is reported the final store is that of the whole history *)
Lemma check_steps_final locs cs : forall impl d i d',
  0 <= i -> check_steps locs cs impl d i = (0, d') -> d' = run cs d.
Proof.
  induction cs as [|c cs IH]; intros [|[oc reads] impl] d i d' Hi; cbn [check_steps run]; try congruence.
  destruct (run_call c d) as [d1 o] eqn:E. cbn [fst].
  destruct (negb (oc_code o =? oc)); [intros H; apply (f_equal fst) in H; cbn [fst] in H; lia|].
  destruct (negb (zlist_eqb (read_all locs d1) reads)); [intros H; apply (f_equal fst) in H; cbn [fst] in H; lia|].
  apply IH. lia.
Qed.
