(* One observer named twice (Model/C15_Groups.v: step_shared): on groups of distinct observers the
   sharing semantics is the plain model; with repeats all slots of one identity hold one state. *)
Require Import Cherab.Common.Qx.
From Coq Require Import String.
Require Import Cherab.Model.C15_Groups Cherab.Model.C15_Table Cherab.Proofs.C15_Setters Cherab.Proofs.C15_Members.
Open Scope list_scope.
Open Scope Z_scope.

Lemma mid_inj_nodup (g : group) : NoDup (map mid g) -> forall a b, In a g -> In b g -> mid a = mid b -> a = b.
Proof.
  induction g as [|x g IH]; intros N a b Ia Ib E; [destruct Ia|].
  cbn [map] in N. inversion N as [|? ? Nx Ng]; subst.
  destruct Ia as [<-|Ia], Ib as [<-|Ib]; auto.
  - exfalso. apply Nx. rewrite E. now apply in_map.
  - exfalso. apply Nx. rewrite <- E. now apply in_map.
Qed.

Lemma last_copy_nodup g m : NoDup (map mid g) -> In m g -> last_copy g (mid m) = Some m.
Proof.
  intros N I. unfold last_copy. destruct (find _ (rev g)) as [m'|] eqn:F.
  - apply find_some in F as [I' E]. apply in_rev in I'. apply Z.eqb_eq in E.
    f_equal. now apply (mid_inj_nodup g N).
  - exfalso. assert (H := find_none _ _ F m). rewrite <- in_rev in H. specialize (H I). now rewrite Z.eqb_refl in H.
Qed.

Lemma share_nodup g : NoDup (map mid g) -> share g = g.
Proof.
  intro N. unfold share. rewrite <- (map_id g) at 2. apply map_ext_in. intros m I.
  now rewrite (last_copy_nodup g m N I).
Qed.

Lemma filter_absent (g : group) id : ~ In id (map mid g) -> filter (fun m => mid m =? id) g = [].
Proof.
  induction g as [|x g IH]; intro H; [reflexivity|]. cbn [filter].
  destruct (mid x =? id) eqn:E.
  - apply Z.eqb_eq in E. exfalso. apply H. now left.
  - apply IH. intro I. apply H. now right.
Qed.

Lemma count_id_nodup g : NoDup (map mid g) -> forall m, In m g -> count_id g (mid m) = 1.
Proof.
  unfold count_id. induction g as [|x g IH]; intros N m I; [destruct I|].
  cbn [map] in N. inversion N as [|? ? Nx Ng]; subst. cbn [filter].
  destruct I as [<-|I].
  - rewrite Z.eqb_refl. cbn [List.length]. now rewrite (filter_absent g (mid x) Nx).
  - destruct (mid x =? mid m) eqn:E.
    + apply Z.eqb_eq in E. exfalso. apply Nx. rewrite E. now apply in_map.
    + now apply IH.
Qed.

Lemma mbump_by_one m : mbump_by 1 m = mbump m.
Proof. reflexivity. Qed.

(* on a group of distinct observers, for an operation that keeps them distinct, sharing changes nothing *)
Lemma step_shared_refines c e g o : NoDup (map mid g) -> op_fresh g o = true ->
  step_shared c e g o = step c e g o.
Proof.
  intros N Fr. pose proof (step_nodup c e g o N Fr) as N'.
  destruct o as [id|k ids|a v|a|k| | |id' a v| |a v k' e'| |cl nk w obs]; cbn [step_shared];
    try (destruct (step c e g _) as [g' r] eqn:S; cbn [fst] in N'; now rewrite (share_nodup g' N')).
  - cbn [op_fresh] in Fr. apply negb_true_iff in Fr.
    destruct (find (fun m => mid m =? id) g) as [m|] eqn:F; [|reflexivity].
    exfalso. apply find_some in F as [I E]. apply Z.eqb_eq in E.
    apply (existsb_eqb_false id (map mid g) Fr). rewrite <- E. now apply in_map.
  - cbn [step]. f_equal. apply map_ext_in. intros m I. now rewrite (count_id_nodup g N m I).
Qed.

Lemma run_shared_refines c e : forall ops g, NoDup (map mid g) -> hist_fresh c e g ops = true ->
  run_shared c e g ops = run c e g ops.
Proof.
  induction ops as [|o ops IH]; intros g N H; [reflexivity|].
  cbn [hist_fresh] in H. apply andb_true_iff in H as [H1 H2].
  cbn [run_shared run]. rewrite (step_shared_refines c e g o N H1).
  destruct (step c e g o) as [g1 r] eqn:S.
  assert (N1 : NoDup (map mid g1)) by (pose proof (step_nodup c e g o N H1) as X; now rewrite S in X).
  cbn [fst] in H2. now rewrite (IH g1 N1 H2).
Qed.

(* with repeats: after sharing, two slots of one identity hold one and the same state *)
Lemma last_copy_id g id m : last_copy g id = Some m -> mid m = id.
Proof. unfold last_copy. intro F. apply find_some in F as [_ E]. now apply Z.eqb_eq in E. Qed.

Lemma share_consistent g : forall a b, In a (share g) -> In b (share g) -> mid a = mid b -> a = b.
Proof.
  assert (K : forall x, In x g -> exists y, last_copy g (mid x) = Some y).
  { intros x I. unfold last_copy. destruct (find _ (rev g)) as [y|] eqn:F; [eauto|].
    exfalso. assert (H := find_none _ _ F x). rewrite <- in_rev in H. specialize (H I). now rewrite Z.eqb_refl in H. }
  intros a b Ia Ib E. unfold share in Ia, Ib.
  apply in_map_iff in Ia as (x & <- & Ix). apply in_map_iff in Ib as (y & <- & Iy).
  destruct (K x Ix) as (x' & Fx). destruct (K y Iy) as (y' & Fy). rewrite Fx, Fy in *.
  pose proof (last_copy_id _ _ _ Fx) as Hx. pose proof (last_copy_id _ _ _ Fy) as Hy.
  assert (Q : mid x = mid y) by congruence. rewrite Q in Fx. congruence.
Qed.

Lemma share_ids g : map mid (share g) = map mid g.
Proof.
  unfold share. rewrite map_map. apply map_ext_in. intros m I.
  destruct (last_copy g (mid m)) as [m'|] eqn:F; [now apply last_copy_id in F | reflexivity].
Qed.

(* observing a group with repeats: one call per slot, in slot order; the observe count of every slot
   grows by the number of slots that hold its observer *)
Lemma observe_shared c e g :
  snd (step_shared c e g OObserve) = RObs (map mid g)
  /\ Forall2 (fun m m' => mobs m' = mobs m + count_id g (mid m) /\ mid m' = mid m /\ mstore m' = mstore m
                          /\ mparent m' = mparent m /\ mtype m' = mtype m) g (fst (step_shared c e g OObserve)).
Proof.
  cbn [step_shared fst snd]. split; [reflexivity|].
  generalize (count_id g). intro f. induction g; cbn [map]; constructor; auto; repeat split.
Qed.
