(* Cartesian grid: the samples a cell receives against its exact chord (slab method). *)
Require Import Cherab.Common.Qx.
Require Import Cherab.Model.C10_RayTransfer Cherab.Proofs.C10_Count Cherab.Proofs.C10_Chord Cherab.Proofs.C10_Loop.
From Coq Require Import Qround Qabs Lqa.
Open Scope Q_scope.

Lemma Qle_bool_false a b : Qle_bool a b = false -> b < a.
Proof. intros H. apply Qnot_le_lt. intros G. apply Qle_bool_iff in G. congruence. Qed.

Lemma Qmax_le a b t : Qmax a b <= t <-> a <= t /\ b <= t.
Proof.
  unfold Qmax. destruct (Qle_bool a b) eqn:E; [apply Qle_bool_iff in E | apply Qle_bool_false in E]; split; intros; try split; lra.
Qed.
Lemma Qmax_lt a b t : Qmax a b < t <-> a < t /\ b < t.
Proof.
  unfold Qmax. destruct (Qle_bool a b) eqn:E; [apply Qle_bool_iff in E | apply Qle_bool_false in E]; split; intros; try split; lra.
Qed.
Lemma Qmin_ge a b t : t <= Qmin a b <-> t <= a /\ t <= b.
Proof.
  unfold Qmin. destruct (Qle_bool a b) eqn:E; [apply Qle_bool_iff in E | apply Qle_bool_false in E]; split; intros; try split; lra.
Qed.
Lemma Qmin_gt a b t : t < Qmin a b <-> t < a /\ t < b.
Proof.
  unfold Qmin. destruct (Qle_bool a b) eqn:E; [apply Qle_bool_iff in E | apply Qle_bool_false in E]; split; intros; try split; lra.
Qed.

(* the cell index of a non-negative coordinate *)
Lemma cell_index_spec x size i : 0 < size -> 0 <= x ->
  (ctrunc (x / size) = i <-> inject_Z i * size <= x /\ x < inject_Z (i + 1) * size).
Proof.
  intros Hs Hx.
  assert (Hq : 0 <= x / size) by (apply Qle_shift_div_l; lra).
  rewrite (ctrunc_nonneg _ Hq), floor_spec.
  assert (E : x == x / size * size) by (field; lra).
  set (u := x / size) in *. clearbody u.
  split; intros [H1 H2]; split.
  - rewrite E. apply (proj2 (Qmult_le_r _ _ size Hs)). exact H1.
  - rewrite E. apply Qmult_lt_compat_r; assumption.
  - rewrite E in H1. apply (proj1 (Qmult_le_r _ _ size Hs)) in H1. exact H1.
  - rewrite E in H2. apply (proj1 (Qmult_lt_r _ _ size Hs)) in H2. exact H2.
Qed.

(* one axis: membership of lo <= s + d t < hi against the slab interval *)
Lemma slab_spec s d lo hi L t : 0 <= t -> t <= L ->
  (lo <= s + d * t -> s + d * t < hi -> fst (slab s d lo hi L) <= t /\ t <= snd (slab s d lo hi L)) /\
  (fst (slab s d lo hi L) < t -> t < snd (slab s d lo hi L) -> lo <= s + d * t /\ s + d * t < hi).
Proof.
  intros Ht0 HtL. unfold slab.
  destruct (Qltb 0 d) eqn:Ep.
  - apply Qltb_lt in Ep. cbn [fst snd].
    assert (Hnz : ~ d == 0) by lra.
    assert (Ea : (lo - s) / d * d == lo - s) by (field; exact Hnz).
    assert (Eb : (hi - s) / d * d == hi - s) by (field; exact Hnz).
    set (a := (lo - s) / d) in *. set (b := (hi - s) / d) in *. clearbody a b.
    split.
    + intros H1 H2. split.
      * apply (proj1 (Qmult_le_r _ _ d Ep)). lra.
      * apply Qlt_le_weak. apply (proj1 (Qmult_lt_r _ _ d Ep)). lra.
    + intros H1 H2. apply (Qmult_lt_compat_r _ _ d Ep) in H1. apply (Qmult_lt_compat_r _ _ d Ep) in H2. split; lra.
  - destruct (Qltb d 0) eqn:En.
    + apply Qltb_lt in En. cbn [fst snd].
      assert (Hnz : ~ d == 0) by lra.
      assert (He : 0 < - d) by lra.
      assert (Ea : (hi - s) / d * (- d) == s - hi) by (field; exact Hnz).
      assert (Eb : (lo - s) / d * (- d) == s - lo) by (field; exact Hnz).
      set (a := (hi - s) / d) in *. set (b := (lo - s) / d) in *. clearbody a b.
      split.
      * intros H1 H2. split.
        -- apply Qlt_le_weak. apply (proj1 (Qmult_lt_r _ _ (- d) He)). lra.
        -- apply (proj1 (Qmult_le_r _ _ (- d) He)). lra.
      * intros H1 H2. apply (Qmult_lt_compat_r _ _ (- d) He) in H1. apply (Qmult_lt_compat_r _ _ (- d) He) in H2. split; lra.
    + apply Qltb_ge in Ep. apply Qltb_ge in En.
      assert (Hz : d == 0) by lra.
      assert (Ex : s + d * t == s) by (rewrite Hz; ring).
      destruct (Qle_bool lo s && Qltb s hi) eqn:Ein; cbn [fst snd].
      * apply andb_true_iff in Ein. destruct Ein as [E1 E2]. apply Qle_bool_iff in E1. apply Qltb_lt in E2.
        split; [intros _ _; split; assumption | intros _ _; rewrite Ex; split; assumption].
      * split; [|intros; lra].
        intros H1 H2. rewrite Ex in H1, H2. exfalso.
        apply andb_false_iff in Ein. destruct Ein as [E|E].
        -- apply Qle_bool_false in E. lra.
        -- apply Qltb_ge in E. lra.
Qed.

Section CartCell.
  Variables dx dy dz s1 s2 s3 d1 d2 d3 L : Q.
  Variable N : nat.
  Hypothesis Hdx : 0 < dx.
  Hypothesis Hdy : 0 < dy.
  Hypothesis Hdz : 0 < dz.
  Hypothesis HL : 0 < L.
  Hypothesis HN : (0 < N)%nat.
  (* the path stays in the octant of non-negative coordinates (the grid starts at the origin) *)
  Hypothesis Hpos : forall t, 0 <= t -> t <= L -> 0 <= s1 + d1 * t /\ 0 <= s2 + d2 * t /\ 0 <= s3 + d3 * t.

  Let steps : vec := (dx, dy, dz).
  Let start : vec := (s1, s2, s3).
  Let dir : vec := (d1, d2, d3).
  Let dt := dt_of L (Z.of_nat N).

  Lemma Npos : 0 < inject_Z (Z.of_nat N).
  Proof. change 0 with (inject_Z 0). rewrite <- Zlt_Qlt. lia. Qed.

  Lemma dt_pos : 0 < dt.
  Proof. unfold dt, dt_of. apply Qlt_shift_div_l; [exact Npos | lra]. Qed.

  Lemma len_eq : inject_Z (Z.of_nat N) * dt == L.
  Proof. unfold dt, dt_of. field. pose proof Npos. lra. Qed.

  Lemma tk_range k : (0 <= k < Z.of_nat N)%Z -> 0 <= t_of dt k /\ t_of dt k <= L.
  Proof.
    intros Hk. unfold t_of. pose proof dt_pos as Hd. pose proof len_eq as E.
    assert (H0 : 0 <= inject_Z k) by (change 0 with (inject_Z 0); rewrite <- Zle_Qle; lia).
    assert (H1 : inject_Z k + 1 <= inject_Z (Z.of_nat N)).
    { change 1 with (inject_Z 1). rewrite <- inject_Z_plus, <- Zle_Qle. lia. }
    split.
    - apply Qmult_le_0_compat; lra.
    - rewrite <- E. apply (proj2 (Qmult_le_r _ _ dt Hd)). lra.
  Qed.

  Theorem cart_cell_error (c : cell) :
    Qabs (dt * inject_Z (countp (cell_eqb c) (map (cart_cell steps) (sample_points start dir dt (Z.of_nat N))))
          - chord_cart steps start dir L c) <= dt.
  Proof.
    destruct c as [[i j] l].
    unfold sample_points. rewrite Nat2Z.id, map_map, countp_zrange.
    set (S := fun k => cell_eqb (i, j, l) (cart_cell steps (point_at start dir (t_of dt k)))).
    unfold chord_cart, cell_interval, steps, start, dir. cbn [fst snd].
    set (ix := slab s1 d1 (inject_Z i * dx) (inject_Z (i + 1) * dx) L).
    set (iy := slab s2 d2 (inject_Z j * dy) (inject_Z (j + 1) * dy) L).
    set (iz := slab s3 d3 (inject_Z l * dz) (inject_Z (l + 1) * dz) L).
    set (A := Qmax (Qmax (fst ix) (fst iy)) (Qmax (fst iz) 0)).
    set (B := Qmin (Qmin (snd ix) (snd iy)) (Qmin (snd iz) L)).
    (* what membership of the k-th sample in the cell means *)
    assert (HS : forall k, (0 <= k < Z.of_nat N)%Z ->
              (S k = true -> A <= t_of dt k /\ t_of dt k <= B) /\ (A < t_of dt k -> t_of dt k < B -> S k = true)).
    { intros k Hk. destruct (tk_range k Hk) as [T0 TL]. set (t := t_of dt k) in *.
      destruct (Hpos t T0 TL) as (P1 & P2 & P3).
      destruct (slab_spec s1 d1 (inject_Z i * dx) (inject_Z (i + 1) * dx) L t T0 TL) as [X1 X2].
      destruct (slab_spec s2 d2 (inject_Z j * dy) (inject_Z (j + 1) * dy) L t T0 TL) as [Y1 Y2].
      destruct (slab_spec s3 d3 (inject_Z l * dz) (inject_Z (l + 1) * dz) L t T0 TL) as [Z1 Z2].
      fold ix in X1, X2. fold iy in Y1, Y2. fold iz in Z1, Z2.
      unfold S, steps, start, dir, cart_cell, point_at. fold t. unfold cell_eqb.
      rewrite !andb_true_iff, !Z.eqb_eq.
      split.
      - intros [[Ei Ej] El]. symmetry in Ei, Ej, El.
        apply (cell_index_spec _ _ _ Hdx P1) in Ei. apply (cell_index_spec _ _ _ Hdy P2) in Ej.
        apply (cell_index_spec _ _ _ Hdz P3) in El.
        destruct (X1 (proj1 Ei) (proj2 Ei)). destruct (Y1 (proj1 Ej) (proj2 Ej)). destruct (Z1 (proj1 El) (proj2 El)).
        split.
        + unfold A. rewrite !Qmax_le. repeat split; assumption.
        + unfold B. rewrite !Qmin_ge. repeat split; assumption.
      - intros HA HB. unfold A in HA. unfold B in HB. rewrite !Qmax_lt in HA. rewrite !Qmin_gt in HB.
        destruct HA as [[A1 A2] [A3 _]]. destruct HB as [[B1 B2] [B3 _]].
        repeat split; symmetry.
        + apply (cell_index_spec _ _ _ Hdx P1). apply X2; assumption.
        + apply (cell_index_spec _ _ _ Hdy P2). apply Y2; assumption.
        + apply (cell_index_spec _ _ _ Hdz P3). apply Z2; assumption. }
    assert (HA0 : 0 <= A).
    { destruct (proj1 (Qmax_le _ _ _) (Qle_refl A)) as [_ G]. destruct (proj1 (Qmax_le _ _ _) G) as [_ G']. exact G'. }
    assert (HBL : B <= L).
    { destruct (proj1 (Qmin_ge _ _ _) (Qle_refl B)) as [_ G]. destruct (proj1 (Qmin_ge _ _ _) G) as [_ G']. exact G'. }
    unfold Qmax at 1. destruct (Qle_bool 0 (B - A)) eqn:EAB.
    - apply Qle_bool_iff in EAB.
      apply (midpoint_count dt dt_pos N S A B HA0 ltac:(lra)).
      + rewrite len_eq. exact HBL.
      + intros k Hk Ha Hb. apply (proj2 (HS k Hk)); assumption.
      + intros k Hk Hs. apply (proj1 (HS k Hk)); assumption.
    - apply Qle_bool_false in EAB.
      rewrite (countk_none S N).
      + change (inject_Z 0) with 0. pose proof dt_pos. apply Qabs_Qle_condition. split; lra.
      + intros k Hk. apply not_true_is_false. intros Hs. destruct (proj1 (HS k Hk) Hs). lra.
  Qed.
End CartCell.
