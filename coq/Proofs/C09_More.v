(* Further lemmas for C09: scale covariance, monotonicity in the donor, shape of the derived densities,
   independence of the order of the given species, linear interpolation between profile points, and
   uniqueness stated on the code's matrix as a list of rows. *)
Require Import Cherab.Common.Qx.
Require Import Cherab.Model.C09_Balance Cherab.Model.C09_Interp.
Require Import Cherab.Proofs.C09_Balance.
From Coq Require Import Qabs Lqa Permutation.
Open Scope Q_scope.

(* ---------------------------------------------------------------- scale covariance *)
Lemma ratio_scaled Z ion R ion' R' k : ~ k == 0 -> pos_rec Z R ->
  (forall z, (z < Z)%nat -> ion' z == k * ion z) -> (forall z, (1 <= z <= Z)%nat -> R' z == k * R z) ->
  forall z, (z <= Z)%nat -> ratio ion' R' z == ratio ion R z.
Proof.
  intros Hk Hr Hi HR z. induction z as [|z IH]; intros Hz; cbn [ratio]; [reflexivity|].
  rewrite IH by lia. rewrite (Hi z) by lia. rewrite (HR (S z)) by lia.
  pose proof (Hr (S z) ltac:(lia)). field. split; lra.
Qed.

Lemma cf_scaled Z ion R ion' R' k : ~ k == 0 -> pos_rec Z R ->
  (forall z, (z < Z)%nat -> ion' z == k * ion z) -> (forall z, (1 <= z <= Z)%nat -> R' z == k * R z) ->
  forall z, (z <= Z)%nat -> cf Z ion' R' z == cf Z ion R z.
Proof.
  intros Hk Hr Hi HR z Hz. unfold cf, total.
  rewrite (ratio_scaled Z ion R ion' R' k Hk Hr Hi HR z Hz).
  rewrite (sumn_ext (S Z) (ratio ion' R') (ratio ion R))
    by (intros j Hj; apply (ratio_scaled Z ion R ion' R' k Hk Hr Hi HR); lia).
  reflexivity.
Qed.

Lemma scale_covariant Z ion rec cx nd ne k m : rates_ok Z ion rec cx nd ne -> 0 < k -> 0 < m ->
  forall z, (z <= Z)%nat ->
  fractional_point Z (fun c => k * ion c) (fun c => k * rec c) (option_map (fun f c => k * f c) cx) (m * nd) (m * ne) z
  == fractional_point Z ion rec cx nd ne z.
Proof.
  intros H Hk Hm z Hz. destruct (rates_ok_pos _ _ _ _ _ _ H) as (HZ & Hne & Hi & Hr).
  unfold fractional_point. apply (cf_scaled Z ion (eff_rec rec cx nd ne) _ _ k); auto; [lra | intros; reflexivity |].
  intros c Hc. unfold eff_rec, dcx. destruct cx as [f|]; cbn [option_map]; [field; lra | ring].
Qed.

(* ---------------------------------------------------------------- monotone in the donor density *)
Lemma monotone_in_donor Z ion rec c nd1 nd2 ne :
  rates_ok Z ion rec (Some c) nd1 ne -> nd1 < nd2 -> (forall z, (1 <= z <= Z)%nat -> 0 < c z) ->
  fractional_point Z ion rec (Some c) nd1 ne O < fractional_point Z ion rec (Some c) nd2 ne O.
Proof.
  intros H Hlt Hc. destruct (rates_ok_pos _ _ _ _ _ _ H) as (HZ & Hne & Hi & Hr).
  unfold fractional_point. apply neutral_fraction_grows; auto.
  intros z Hz. unfold eff_rec, dcx. pose proof (Hc z Hz).
  assert (0 < / ne) by (apply Qinv_lt_0_compat; exact Hne).
  assert (nd1 / ne < nd2 / ne) by (unfold Qdiv; apply Qmult_lt_compat_r; assumption).
  assert (nd1 / ne * c z < nd2 / ne * c z) by (apply Qmult_lt_compat_r; assumption). lra.
Qed.

(* ---------------------------------------------------------------- derived densities *)
Lemma densities_balance Z ion rec cx nd ne n_el : rates_ok Z ion rec cx nd ne ->
  forall z, (z < Z)%nat ->
  from_density_point Z ion rec cx nd ne n_el z * ion z ==
  from_density_point Z ion rec cx nd ne n_el (S z) * (rec (S z) + dcx cx nd ne (S z)).
Proof.
  intros H z Hz. unfold from_density_point. pose proof (thm_balance Z ion rec cx nd ne H z Hz) as B.
  transitivity (fractional_point Z ion rec cx nd ne z * ion z * n_el); [ring|]. rewrite B. ring.
Qed.

Lemma neutrality_shape Z ion rec cx nd ne sp : rates_ok Z ion rec cx nd ne ->
  let dens := match_neutrality_point Z ion rec cx nd ne sp in
  sumn (S Z) dens == element_ne ne sp / z_mean Z (fractional_point Z ion rec cx nd ne)
  /\ (forall z, dens z == fractional_point Z ion rec cx nd ne z * sumn (S Z) dens)
  /\ (forall z, (z < Z)%nat -> dens z * ion z == dens (S z) * (rec (S z) + dcx cx nd ne (S z))).
Proof.
  intros H dens. subst dens. unfold match_neutrality_point.
  set (f := fractional_point Z ion rec cx nd ne). set (n_i := element_ne ne sp / z_mean Z f).
  assert (sumn (S Z) (fun z => f z * n_i) == n_i) as Hs.
  { rewrite sumn_scale. unfold f. rewrite (thm_sum_one Z ion rec cx nd ne H). ring. }
  repeat split.
  - exact Hs.
  - intros z. rewrite Hs. reflexivity.
  - intros z Hz. pose proof (thm_balance Z ion rec cx nd ne H z Hz) as B. fold f in B.
    transitivity (f z * ion z * n_i); [ring|]. rewrite B. ring.
Qed.

(* ---------------------------------------------------------------- order of the given species *)
Lemma Qsum_perm l l' : Permutation l l' -> Qsum l == Qsum l'.
Proof. induction 1; cbn [Qsum]; try reflexivity; [rewrite IHPermutation; reflexivity | ring | etransitivity; eauto]. Qed.

Lemma element_ne_proper ne a b : a == b ->
  (let e := ne - a in if Qle_bool 0 e then e else 0) == (let e := ne - b in if Qle_bool 0 e then e else 0).
Proof.
  intros E. cbv zeta.
  destruct (Qle_bool 0 (ne - a)) eqn:Ea, (Qle_bool 0 (ne - b)) eqn:Eb; try lra.
  - apply Qle_bool_iff in Ea. assert (~ 0 <= ne - b) by (rewrite <- Qle_bool_iff, Eb; discriminate). lra.
  - apply Qle_bool_iff in Eb. assert (~ 0 <= ne - a) by (rewrite <- Qle_bool_iff, Ea; discriminate). lra.
Qed.

Lemma species_order_irrelevant Z ion rec cx nd ne sp sp' : Permutation sp sp' ->
  forall z, match_neutrality_point Z ion rec cx nd ne sp z == match_neutrality_point Z ion rec cx nd ne sp' z.
Proof.
  intros P z. unfold match_neutrality_point, element_ne, species_charge.
  pose proof (element_ne_proper ne _ _ (Qsum_perm _ _ (Permutation_map (charge_sum_from 0) P))) as E.
  cbv zeta in E |- *. rewrite E. reflexivity.
Qed.

(* ---------------------------------------------------------------- linear interpolation *)
Lemma locate_weight xs x : increasing xs -> forall i k w, locate xs x i = Some (k, w) -> 0 <= w /\ w <= 1.
Proof.
  induction xs as [|x0 t IH]; intros Hinc i k w H; cbn [locate] in H; [discriminate|].
  destruct t as [|x1 t']; [discriminate|].
  destruct Hinc as [H01 Hinc].
  destruct (Qle_bool x0 x && Qle_bool x x1) eqn:E.
  - injection H as _ <-. apply andb_prop in E as [E1 E2].
    apply Qle_bool_iff in E1. apply Qle_bool_iff in E2.
    split; [apply Qle_shift_div_l | apply Qle_shift_div_r]; lra.
  - eapply IH; eauto.
Qed.

Lemma increasing_nth_gt x0 t i : increasing (x0 :: t) -> (1 <= i < S (length t))%nat -> x0 < nth i (x0 :: t) 0.
Proof.
  revert x0 i. induction t as [|x1 t' IH]; intros x0 i Hinc Hi; cbn [length] in Hi; [lia|].
  destruct Hinc as [H01 Hinc]. destruct i as [|i]; [lia|].
  destruct i as [|i]; [exact H01|].
  change (nth (S (S i)) (x0 :: x1 :: t') 0) with (nth (S i) (x1 :: t') 0).
  assert (x1 < nth (S i) (x1 :: t') 0) by (apply IH; [exact Hinc | cbn [length]; lia]). lra.
Qed.

Lemma locate_knot xs : increasing xs -> forall i j, (i < length xs)%nat -> (2 <= length xs)%nat ->
  exists k w, locate xs (nth i xs 0) j = Some ((j + k)%nat, w) /\ ((k = i /\ w == 0) \/ (S k = i /\ w == 1)).
Proof.
  induction xs as [|x0 t IH]; intros Hinc i j Hi H2; cbn [length] in *; [lia|].
  destruct t as [|x1 t']; cbn [length] in *; [lia|].
  pose proof Hinc as [H01 Hinc'].
  destruct i as [|[|i]].
  - exists O, ((x0 - x0) / (x1 - x0)). cbn [nth locate].
    assert (Qle_bool x0 x0 && Qle_bool x0 x1 = true) as -> by
        (apply andb_true_intro; split; apply Qle_bool_iff; lra).
    split; [f_equal; f_equal; lia | left; split; [reflexivity | field; lra]].
  - exists O, ((x1 - x0) / (x1 - x0)). cbn [nth locate].
    assert (Qle_bool x0 x1 && Qle_bool x1 x1 = true) as -> by
        (apply andb_true_intro; split; apply Qle_bool_iff; lra).
    split; [f_equal; f_equal; lia | right; split; [reflexivity | field; lra]].
  - set (x := nth (S (S i)) (x0 :: x1 :: t') 0).
    assert (x1 < x) as Hgt by (apply (increasing_nth_gt x1 t' (S i) Hinc'); lia).
    change (locate (x0 :: x1 :: t') x j)
      with (if Qle_bool x0 x && Qle_bool x x1 then Some (j, (x - x0) / (x1 - x0)) else locate (x1 :: t') x (S j)).
    assert (Qle_bool x0 x && Qle_bool x x1 = false) as ->.
    { apply andb_false_intro2. destruct (Qle_bool x x1) eqn:E; [apply Qle_bool_iff in E; lra | reflexivity]. }
    destruct (IH Hinc' (S i) (S j) ltac:(cbn [length]; lia) ltac:(cbn [length]; lia)) as (k & w & Hl & Hk).
    exists (S k), w. change (nth (S i) (x1 :: t') 0) with x in Hl. rewrite Hl.
    split; [f_equal; f_equal; lia | destruct Hk as [[-> Hw]|[<- Hw]]; [left | right]; split; auto].
Qed.

Lemma lerp_through_knots xs ys i : increasing xs -> (i < length xs)%nat -> (2 <= length xs)%nat ->
  oQeq (lerp xs ys (nth i xs 0)) (Some (nth i ys 0)).
Proof.
  intros Hinc Hi H2. unfold lerp.
  destruct (locate_knot xs Hinc i O Hi H2) as (k & w & -> & Hk). cbn [Nat.add oQeq].
  destruct Hk as [[-> Hw]|[<- Hw]]; rewrite Hw; ring.
Qed.

Lemma lerp_is_blend xs ys x : increasing xs -> forall v, lerp xs ys x = Some v ->
  exists i w, locate xs x 0 = Some (i, w) /\ 0 <= w /\ w <= 1 /\ v = nth i ys 0 + (nth (S i) ys 0 - nth i ys 0) * w.
Proof.
  intros Hinc v H. unfold lerp in H. destruct (locate xs x 0) as [[i w]|] eqn:E; [|discriminate].
  injection H as <-. destruct (locate_weight xs x Hinc 0%nat i w E). exists i, w. auto.
Qed.

(* a linear blend of two solutions is again within [0,1] and sums to one *)
Lemma blend_fractions n fa fb w : 0 <= w -> w <= 1 ->
  (forall z, (z < n)%nat -> 0 <= fa z /\ fa z <= 1) -> (forall z, (z < n)%nat -> 0 <= fb z /\ fb z <= 1) ->
  sumn n fa == 1 -> sumn n fb == 1 ->
  (forall z, (z < n)%nat -> 0 <= blend fa fb w z /\ blend fa fb w z <= 1) /\ sumn n (blend fa fb w) == 1.
Proof.
  intros H0 H1 Ha Hb Sa Sb. split.
  - intros z Hz. destruct (Ha z Hz), (Hb z Hz). unfold blend. split; nra.
  - unfold blend.
    rewrite (sumn_ext n _ (fun z => fa z + (fb z * w + fa z * (- w)))) by (intros; ring).
    rewrite sumn_add, sumn_add, !sumn_scale, Sa, Sb. ring.
Qed.

(* densities: the blend of n_a * fa and n_b * fb sums to the blend of the element densities *)
Lemma blend_densities n fa fb na nb w : sumn n fa == 1 -> sumn n fb == 1 ->
  sumn n (blend (fun z => fa z * na) (fun z => fb z * nb) w) == na + (nb - na) * w.
Proof.
  intros Sa Sb. unfold blend.
  rewrite (sumn_ext n _ (fun z => fa z * na + (fb z * (nb * w) + fa z * (- (na * w))))) by (intros; ring).
  rewrite sumn_add, sumn_add, !sumn_scale, Sa, Sb. ring.
Qed.

(* ---------------------------------------------------------------- uniqueness on the code's matrix (list of rows) *)
Lemma Forall2_Qeq_nth l l' : Forall2 Qeq l l' -> forall i, nth i l 0 == nth i l' 0.
Proof. induction 1 as [|a b l l' Hab _ IH]; intros [|i]; cbn [nth]; auto; reflexivity. Qed.

Lemma map_nth_seq (xs : list Q) n : length xs = n -> map (fun j => nth j xs 0) (seq 0 n) = xs.
Proof.
  intros Hl. apply (nth_ext _ _ 0 0); [rewrite map_length, seq_length; auto|].
  intros i Hi. rewrite map_length, seq_length in Hi.
  rewrite (nth_indep _ 0 ((fun j => nth j xs 0) O)) by (rewrite map_length, seq_length; exact Hi).
  rewrite (map_nth (fun j => nth j xs 0) (seq 0 n) O i), seq_nth by exact Hi. reflexivity.
Qed.

Lemma nth_map_dot M xs i : nth i (map (fun r => dot r xs) M) 0 = dot (nth i M []) xs.
Proof. exact (map_nth (fun r => dot r xs) M [] i). Qed.

Lemma nth_map_const0 (l : list nat) i : nth i (map (fun _ => 0) l) 0 = 0.
Proof. revert i. induction l; intros [|i]; cbn; auto. Qed.

Lemma nth_rows (f : nat -> list Q) n i : (i < n)%nat -> nth i (map f (seq 0 n)) [] = f i.
Proof.
  intros Hi. rewrite (nth_indep _ [] (f O)) by (rewrite map_length, seq_length; exact Hi).
  rewrite (map_nth f (seq 0 n) O i), seq_nth by exact Hi. reflexivity.
Qed.

Lemma matrix_solution_unique Z ion rec cx nd ne xs : rates_ok Z ion rec cx nd ne -> length xs = S Z ->
  Forall2 Qeq (matvec (balance_matrix Z ion rec cx nd ne) xs) (balance_rhs Z ne) ->
  forall z, (z <= Z)%nat -> nth z xs 0 == ne * fractional_point Z ion rec cx nd ne z.
Proof.
  intros H Hl HF. destruct (rates_ok_pos _ _ _ _ _ _ H) as (HZ & Hne & Hi & Hr).
  set (x := fun j => nth j xs 0).
  assert (xs = map x (seq 0 (S Z))) as Hx by (symmetry; apply map_nth_seq; exact Hl).
  pose proof (Forall2_Qeq_nth _ _ HF) as Hn.
  assert (forall i, (i <= Z)%nat -> rowdot Z ion rec cx nd ne i x == 0) as Hrows.
  { intros i Hi'. pose proof (Hn i) as E. unfold matvec, balance_matrix, balance_rhs in E.
    rewrite nth_map_dot in E.
    rewrite app_nth1 in E by (rewrite map_length, seq_length; lia).
    rewrite (nth_rows (fun i0 => map (fun j => entry Z ion rec cx nd ne i0 j * ne) (seq 0 (S Z)))) in E by lia.
    rewrite (app_nth1 (map (fun _ => 0) (seq 0 (S Z)))) in E by (rewrite map_length, seq_length; lia).
    rewrite nth_map_const0 in E.
    rewrite Hx in E.
    rewrite (dot_map_seq (fun j => entry Z ion rec cx nd ne i j * ne) x (S Z) 0) in E. cbn [Nat.add] in E.
    assert (sumn (S Z) (fun j => entry Z ion rec cx nd ne i j * ne * x j) == ne * rowdot Z ion rec cx nd ne i x) as E2.
    { unfold rowdot. rewrite <- sumn_scale_l. apply sumn_ext. intros; ring. }
    rewrite E2 in E. destruct (Qmult_integral _ _ E); [lra | assumption]. }
  assert (sumn (S Z) x == ne) as Hsum.
  { pose proof (Hn (S Z)) as E. unfold matvec, balance_matrix, balance_rhs in E.
    rewrite nth_map_dot in E.
    rewrite app_nth2 in E by (rewrite map_length, seq_length; lia).
    rewrite map_length, seq_length, Nat.sub_diag in E. cbn [nth] in E.
    rewrite (app_nth2 (map (fun _ => 0) (seq 0 (S Z)))) in E by (rewrite map_length, seq_length; lia).
    rewrite map_length, seq_length, Nat.sub_diag in E. cbn [nth] in E.
    rewrite Hx in E.
    rewrite (dot_map_seq (fun _ => 1) x (S Z) 0) in E. cbn [Nat.add] in E.
    rewrite <- E. apply sumn_ext. intros; ring. }
  intros z Hz. change (nth z xs 0) with (x z).
  apply (solution_unique Z ion rec cx nd ne HZ Hi Hr x ne Hrows Hsum z Hz).
Qed.
