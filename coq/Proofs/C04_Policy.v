(* C04: setter state machine -- every reachable configuration is valid; a rejected value changes nothing;
   the last accepted write wins and the other fields are untouched.  And the link between the code facts
   (data regenerated from the source) and the density model. *)
Require Import Cherab.Common.Qx.
From Coq Require Import Lqa Qround.
Require Import Cherab.Model.C04_Beam Cherab.Model.C04_Policy Cherab.Proofs.C04_Density.
Open Scope Q_scope.

Lemma initial_valid : settings_valid initial.
Proof. unfold settings_valid, initial; cbn. repeat split; lra. Qed.

Lemma accepts_spec f v : accepts f v = true -> if match reject_op f with CLe => true | _ => false end then 0 < v else 0 <= v.
Proof.
  unfold accepts. destruct f; cbn [reject_op cmp_holds]; unfold Qltb; intros H.
  all: try (rewrite negb_involutive in H; apply Qle_bool_iff in H; exact H).
  all: destruct (Qle_bool v 0) eqn:E; [discriminate|]; destruct (Qlt_le_dec 0 v) as [L|L]; [exact L|];
       apply Qle_bool_iff in L; congruence.
Qed.

Lemma set_field_valid st f v : settings_valid st -> settings_valid (fst (set_field st f v)).
Proof.
  intros Hv. unfold set_field. destruct (accepts f v) eqn:E; [|exact Hv]. cbn [fst].
  pose proof (accepts_spec f v E) as Hs. destruct Hv as (H1 & H2 & H3 & H4 & H5 & H6 & H7 & H8 & H9).
  destruct f; cbn in Hs |- *; unfold settings_valid; cbn; repeat split; try assumption.
  apply Qmult_lt_0_compat; exact Hs.
Qed.

Lemma run_sets_fst st f v t : fst (run_sets st ((f, v) :: t)) = fst (run_sets (fst (set_field st f v)) t).
Proof. cbn [run_sets]. destruct (set_field st f v) as [st1 ok]. cbn [fst]. destruct (run_sets st1 t) as [st2 oks]. reflexivity. Qed.

(* invariant over ALL histories of setter calls *)
Lemma run_sets_valid ops : forall st, settings_valid st -> settings_valid (fst (run_sets st ops)).
Proof.
  induction ops as [|[f v] t IH]; intros st Hv; [exact Hv|].
  rewrite run_sets_fst. apply IH, set_field_valid, Hv.
Qed.

Lemma rejected_changes_nothing st f v : accepts f v = false -> set_field st f v = (st, false).
Proof. intros E. unfold set_field. rewrite E. reflexivity. Qed.

Definition field_eqb (a b : field) : bool :=
  match a, b with
  | FEnergy, FEnergy | FPower, FPower | FTemperature, FTemperature | FDivX, FDivX | FDivY, FDivY
  | FLength, FLength | FSigma, FSigma | FStep, FStep | FClampSigma, FClampSigma => true
  | _, _ => false
  end.

Lemma accepted_write_wins st f v : accepts f v = true ->
  stored (fst (set_field st f v)) f = (match f with FClampSigma => v * v | _ => v end) /\
  forall g, field_eqb g f = false -> stored (fst (set_field st f v)) g = stored st g.
Proof.
  intros E. unfold set_field. rewrite E. cbn [fst]. split; [destruct f; reflexivity|].
  intros g Hg. destruct f, g; cbn in Hg; try discriminate; reflexivity.
Qed.

(* ---- the code facts are what the density model does ---- *)
Lemma facts_nbeam c : nbeam c = Z.max (fst (cf_nbeam model_facts) + Qceiling (b_len c / a_step c)) (snd (cf_nbeam model_facts)).
Proof. reflexivity. Qed.

Lemma facts_density_zero sqrtf expf nd c x y z :
  beam_density_with sqrtf expf nd c x y z =
  if cmp_holds (fst (cf_density_zero model_facts)) z 0 || cmp_holds (snd (cf_density_zero model_facts)) z (b_len c)
  then 0 else attenuator_density_with sqrtf expf nd c x y z.
Proof. reflexivity. Qed.

Lemma facts_direction sqrtf c x y z :
  direction sqrtf c x y z =
  if cmp_holds (cf_direction_axis model_facts) z 0 then mkvec 0 0 1 else normalise sqrtf (direction_raw c x y z).
Proof. reflexivity. Qed.

Lemma facts_clamp sqrtf c x y z :
  clamped sqrtf c x y z = a_clamp c && cmp_holds (cf_clamp model_facts) (norm_radius_sqr sqrtf c x y z) (clamp_sigma_sqr c).
Proof. reflexivity. Qed.

Lemma facts_gauss expf c sx sy r2 :
  gaussian_of expf c sx sy r2 = expf (fst (cf_gauss model_facts) * r2) / (snd (cf_gauss model_facts) * k_pi c * sx * sy).
Proof. reflexivity. Qed.

(* the direct entry point agrees with Beam.density wherever Beam.density does not return its guard value,
   and is defined (no ValueError) on the whole beam *)
Lemma direct_agrees sqrtf expf nd c x y z : 0 <= z -> z <= b_len c ->
  attenuator_density_direct sqrtf expf nd c x y z = Some (beam_density_with sqrtf expf nd c x y z).
Proof.
  intros H0 H1. unfold attenuator_density_direct, beam_density_with.
  rewrite (Qltb_false z 0 H0), (Qltb_false (b_len c) z H1). cbn [orb].
  assert (E : 0 < cf_extrapolation model_facts) by (cbn; lra).
  rewrite (Qltb_false z (- cf_extrapolation model_facts)) by lra.
  rewrite (Qltb_false (b_len c + cf_extrapolation model_facts) z) by lra. reflexivity.
Qed.
