(* Lemmas about the ionisation-balance model: the closed form is the unique solution of the
   balance equations the code assembles, for every Z >= 1 and all positive rates. *)
Require Import Cherab.Common.Qx.
Require Import Cherab.Model.C09_Balance.
From Coq Require Import Qabs Lqa.
Open Scope Q_scope.

(* ---------------------------------------------------------------- finite sums *)
Lemma sumn_ext n f g : (forall j, (j < n)%nat -> f j == g j) -> sumn n f == sumn n g.
Proof.
  induction n as [|n IH]; intros H; cbn [sumn]; [reflexivity|].
  rewrite IH by (intros; apply H; lia). rewrite (H n) by lia. reflexivity.
Qed.

Lemma sumn_add n f g : sumn n (fun j => f j + g j) == sumn n f + sumn n g.
Proof. induction n as [|n IH]; cbn [sumn]; [ring | rewrite IH; ring]. Qed.

Lemma sumn_scale n f c : sumn n (fun j => f j * c) == sumn n f * c.
Proof. induction n as [|n IH]; cbn [sumn]; [ring | rewrite IH; ring]. Qed.

Lemma sumn_scale_l n f c : sumn n (fun j => c * f j) == c * sumn n f.
Proof. induction n as [|n IH]; cbn [sumn]; [ring | rewrite IH; ring]. Qed.

Lemma sumn_zero n f : (forall j, (j < n)%nat -> f j == 0) -> sumn n f == 0.
Proof.
  intros H. rewrite (sumn_ext n f (fun _ => 0) H).
  clear. induction n as [|n IH]; cbn [sumn]; [reflexivity | rewrite IH; ring].
Qed.

Lemma sumn_nonneg n f : (forall j, (j < n)%nat -> 0 <= f j) -> 0 <= sumn n f.
Proof.
  induction n as [|n IH]; intros H; cbn [sumn]; [apply Qle_refl|].
  assert (0 <= sumn n f) by (apply IH; intros; apply H; lia).
  assert (0 <= f n) by (apply H; lia). lra.
Qed.

Lemma sumn_ge_term n f k : (forall j, (j < n)%nat -> 0 <= f j) -> (k < n)%nat -> f k <= sumn n f.
Proof.
  induction n as [|n IH]; intros H Hk; [lia|]. cbn [sumn].
  assert (0 <= sumn n f) by (apply sumn_nonneg; intros; apply H; lia).
  assert (0 <= f n) by (apply H; lia).
  destruct (Nat.eq_dec k n) as [->|Hne]; [lra|].
  assert (f k <= sumn n f) by (apply IH; [intros; apply H; lia | lia]). lra.
Qed.

Lemma sumn_le n f g : (forall j, (j < n)%nat -> f j <= g j) -> sumn n f <= sumn n g.
Proof.
  induction n as [|n IH]; intros H; cbn [sumn]; [lra|].
  assert (sumn n f <= sumn n g) by (apply IH; intros; apply H; lia).
  assert (f n <= g n) by (apply H; lia). lra.
Qed.

Lemma sumn_lt n f g k :
  (forall j, (j < n)%nat -> f j <= g j) -> (k < n)%nat -> f k < g k -> sumn n f < sumn n g.
Proof.
  induction n as [|n IH]; intros H Hk Hlt; [lia|]. cbn [sumn].
  assert (sumn n f <= sumn n g) by (apply sumn_le; intros; apply H; lia).
  assert (f n <= g n) by (apply H; lia).
  destruct (Nat.eq_dec k n) as [->|Hne]; [lra|].
  assert (sumn n f < sumn n g) by (apply IH; [intros; apply H; lia | lia | exact Hlt]). lra.
Qed.

Lemma sumn_nonneg_zero n f :
  (forall j, (j < n)%nat -> 0 <= f j) -> sumn n f <= 0 -> forall j, (j < n)%nat -> f j == 0.
Proof.
  intros H Hs j Hj.
  assert (f j <= sumn n f) by (apply sumn_ge_term; assumption).
  assert (0 <= f j) by (apply H; assumption). lra.
Qed.

Lemma sumn_delta n k a x :
  sumn n (fun j => (if (j =? k)%nat then a else 0) * x j) == if (k <? n)%nat then a * x k else 0.
Proof.
  induction n as [|n IH]; cbn [sumn]; [reflexivity|]. rewrite IH.
  destruct (Nat.ltb_spec k n), (Nat.ltb_spec k (S n)), (Nat.eqb_spec n k); subst; try lia; ring.
Qed.

Lemma sumn_if2 n a b A B x : a <> b -> (a < n)%nat -> (b < n)%nat ->
  sumn n (fun j => (if (j =? a)%nat then A else if (j =? b)%nat then B else 0) * x j) == A * x a + B * x b.
Proof.
  intros Hab Ha Hb.
  rewrite (sumn_ext n _ (fun j => (if (j =? a)%nat then A else 0) * x j + (if (j =? b)%nat then B else 0) * x j)).
  - rewrite sumn_add, !sumn_delta.
    rewrite (proj2 (Nat.ltb_lt a n) Ha), (proj2 (Nat.ltb_lt b n) Hb). reflexivity.
  - intros j _. destruct (Nat.eqb_spec j a), (Nat.eqb_spec j b); subst; try lia; ring.
Qed.

Lemma sumn_if3 n a b c A B C x : a <> b -> a <> c -> b <> c -> (a < n)%nat -> (b < n)%nat -> (c < n)%nat ->
  sumn n (fun j => (if (j =? a)%nat then A else if (j =? b)%nat then B
                    else if (j =? c)%nat then C else 0) * x j) == A * x a + B * x b + C * x c.
Proof.
  intros Hab Hac Hbc Ha Hb Hc.
  rewrite (sumn_ext n _ (fun j => ((if (j =? a)%nat then A else 0) * x j + (if (j =? b)%nat then B else 0) * x j)
                                  + (if (j =? c)%nat then C else 0) * x j)).
  - rewrite !sumn_add, !sumn_delta.
    rewrite (proj2 (Nat.ltb_lt a n) Ha), (proj2 (Nat.ltb_lt b n) Hb), (proj2 (Nat.ltb_lt c n) Hc). reflexivity.
  - intros j _. destruct (Nat.eqb_spec j a), (Nat.eqb_spec j b), (Nat.eqb_spec j c); subst; try lia; ring.
Qed.

(* ---------------------------------------------------------------- positivity of the closed form *)
Definition pos_ion (Z : nat) (ion : rate) : Prop := forall z, (z < Z)%nat -> 0 < ion z.
Definition pos_rec (Z : nat) (R : rate) : Prop := forall z, (1 <= z <= Z)%nat -> 0 < R z.

Lemma ratio_pos Z ion R : pos_ion Z ion -> pos_rec Z R -> forall z, (z <= Z)%nat -> 0 < ratio ion R z.
Proof.
  intros Hi Hr z. induction z as [|z IH]; intros Hz; cbn [ratio]; [lra|].
  assert (0 < ratio ion R z) by (apply IH; lia).
  assert (0 < ion z) by (apply Hi; lia).
  assert (0 < R (S z)) by (apply Hr; lia).
  assert (0 < / R (S z)) by (apply Qinv_lt_0_compat; assumption).
  unfold Qdiv. apply Qmult_lt_0_compat; [apply Qmult_lt_0_compat|]; assumption.
Qed.

Lemma total_pos Z ion R : pos_ion Z ion -> pos_rec Z R -> 0 < total Z ion R.
Proof.
  intros Hi Hr. unfold total.
  assert (ratio ion R 0 <= sumn (S Z) (ratio ion R)).
  { apply sumn_ge_term; [|lia]. intros j Hj. apply Qlt_le_weak, (ratio_pos Z); auto; lia. }
  cbn [ratio] in H. lra.
Qed.

Lemma cf_pos Z ion R : pos_ion Z ion -> pos_rec Z R -> forall z, (z <= Z)%nat -> 0 < cf Z ion R z.
Proof.
  intros Hi Hr z Hz. unfold cf, Qdiv.
  apply Qmult_lt_0_compat; [apply (ratio_pos Z); auto | apply Qinv_lt_0_compat, total_pos; auto].
Qed.

Lemma cf_le_1 Z ion R : pos_ion Z ion -> pos_rec Z R -> forall z, (z <= Z)%nat -> cf Z ion R z <= 1.
Proof.
  intros Hi Hr z Hz. unfold cf. apply Qle_shift_div_r; [apply total_pos; auto|].
  rewrite Qmult_1_l. unfold total. apply sumn_ge_term; [|lia].
  intros j Hj. apply Qlt_le_weak, (ratio_pos Z); auto; lia.
Qed.

Lemma cf_sum Z ion R : pos_ion Z ion -> pos_rec Z R -> sumn (S Z) (cf Z ion R) == 1.
Proof.
  intros Hi Hr. pose proof (total_pos Z ion R Hi Hr) as Ht.
  unfold cf, Qdiv. rewrite sumn_scale. fold (total Z ion R). field. lra.
Qed.

Lemma cf_balance Z ion R : pos_ion Z ion -> pos_rec Z R -> forall z, (z < Z)%nat ->
  cf Z ion R z * ion z == cf Z ion R (S z) * R (S z).
Proof.
  intros Hi Hr z Hz. pose proof (total_pos Z ion R Hi Hr) as Ht.
  assert (0 < R (S z)) by (apply Hr; lia).
  unfold cf. cbn [ratio]. field. split; lra.
Qed.

(* ---------------------------------------------------------------- rows of the matrix *)
Section Rows.
  Variables (Z : nat) (ion rec : rate) (cx : option rate) (nd ne : Q).
  Hypothesis HZ : (1 <= Z)%nat.
  Let R := eff_rec rec cx nd ne.
  Let rd := rowdot Z ion rec cx nd ne.

  Lemma rowdot_first x : rd O x == - ion O * x O + R 1%nat * x 1%nat.
  Proof.
    unfold rd, rowdot, entry, R, eff_rec. cbn [Nat.eqb].
    rewrite sumn_if2 by lia. reflexivity.
  Qed.

  Lemma rowdot_last x : rd Z x == ion (Z - 1)%nat * x (Z - 1)%nat - R Z * x Z.
  Proof.
    unfold rd, rowdot, entry, R, eff_rec.
    rewrite (proj2 (Nat.eqb_neq Z 0)) by lia. rewrite Nat.eqb_refl.
    rewrite sumn_if2 by lia. ring.
  Qed.

  Lemma rowdot_mid i x : (0 < i < Z)%nat ->
    rd i x == ion (i - 1)%nat * x (i - 1)%nat - (ion i + R i) * x i + R (i + 1)%nat * x (i + 1)%nat.
  Proof.
    intros Hi. unfold rd, rowdot, entry, R, eff_rec.
    rewrite (proj2 (Nat.eqb_neq i 0)) by lia. rewrite (proj2 (Nat.eqb_neq i Z)) by lia.
    rewrite sumn_if3 by lia. ring.
  Qed.

  (* net flow between neighbours z and z+1 *)
  Definition flux (x : nat -> Q) (z : nat) : Q := R (S z) * x (S z) - ion z * x z.

  Lemma rows_zero_flux_zero x :
    (forall i, (i <= Z)%nat -> rd i x == 0) -> forall z, (z < Z)%nat -> flux x z == 0.
  Proof.
    intros Hrow z. induction z as [|z IH]; intros Hz.
    - pose proof (Hrow O ltac:(lia)) as H0. rewrite rowdot_first in H0. unfold flux. lra.
    - assert (flux x z == 0) as Hp by (apply IH; lia).
      pose proof (Hrow (S z) ltac:(lia)) as Hs. rewrite rowdot_mid in Hs by lia.
      replace (S z - 1)%nat with z in Hs by lia. replace (S z + 1)%nat with (S (S z)) in Hs by lia.
      unfold flux in *. lra.
  Qed.

  Hypothesis Hion : pos_ion Z ion.
  Hypothesis Hrec : pos_rec Z R.

  Lemma flux_zero_ratio x :
    (forall z, (z < Z)%nat -> flux x z == 0) -> forall z, (z <= Z)%nat -> x z == x O * ratio ion R z.
  Proof.
    intros Hf z. induction z as [|z IH]; intros Hz; cbn [ratio]; [ring|].
    assert (x z == x O * ratio ion R z) as E by (apply IH; lia).
    pose proof (Hf z ltac:(lia)) as F. unfold flux in F.
    assert (0 < R (S z)) by (apply Hrec; lia).
    assert (x (S z) * R (S z) == x z * ion z) as E2 by lra.
    transitivity (x z * ion z / R (S z)).
    - transitivity (x (S z) * R (S z) / R (S z)); [field; lra|]. rewrite E2. reflexivity.
    - rewrite E. field. lra.
  Qed.

  (* any vector that zeroes the balance rows and sums to s is s times the closed form *)
  Lemma solution_unique x s :
    (forall i, (i <= Z)%nat -> rd i x == 0) -> sumn (S Z) x == s ->
    forall z, (z <= Z)%nat -> x z == s * cf Z ion R z.
  Proof.
    intros Hrow Hsum z Hz.
    pose proof (flux_zero_ratio x (rows_zero_flux_zero x Hrow)) as Hx.
    pose proof (total_pos Z ion R Hion Hrec) as Ht.
    assert (sumn (S Z) x == x O * total Z ion R) as Hs.
    { unfold total. rewrite <- sumn_scale_l. apply sumn_ext. intros j Hj. apply Hx. lia. }
    rewrite Hsum in Hs. rewrite (Hx z Hz). unfold cf. rewrite Hs. field. lra.
  Qed.

  (* the closed form zeroes every balance row *)
  Lemma cf_rows_zero i : (i <= Z)%nat -> rd i (cf Z ion R) == 0.
  Proof.
    intros Hi.
    destruct (Nat.eq_dec i 0) as [->|Hn0].
    - rewrite rowdot_first. pose proof (cf_balance Z ion R Hion Hrec O ltac:(lia)). lra.
    - destruct (Nat.eq_dec i Z) as [->|HnZ].
      + rewrite rowdot_last. pose proof (cf_balance Z ion R Hion Hrec (Z - 1)%nat ltac:(lia)) as B.
        replace (S (Z - 1)) with Z in B by lia. lra.
      + rewrite rowdot_mid by lia.
        pose proof (cf_balance Z ion R Hion Hrec (i - 1)%nat ltac:(lia)) as B1.
        pose proof (cf_balance Z ion R Hion Hrec i ltac:(lia)) as B2.
        replace (S (i - 1)) with i in B1 by lia. replace (i + 1)%nat with (S i) by lia. lra.
  Qed.

  Lemma rowdot_scale i x c : rd i (fun z => c * x z) == c * rd i x.
  Proof.
    unfold rd, rowdot. rewrite <- sumn_scale_l. apply sumn_ext. intros; ring.
  Qed.

  Lemma cost_of_scaled_cf : 0 < ne -> lsq_cost Z ion rec cx nd ne (fun z => ne * cf Z ion R z) == 0.
  Proof.
    intros Hne. unfold lsq_cost.
    rewrite sumn_scale_l, (cf_sum Z ion R Hion Hrec).
    rewrite sumn_zero; [ring|].
    intros i Hi. fold rd. rewrite rowdot_scale, cf_rows_zero by lia. ring.
  Qed.

  Lemma scaled_cf_in_box : 0 < ne -> in_box Z ne (fun z => ne * cf Z ion R z).
  Proof.
    intros Hne z Hz. pose proof (cf_pos Z ion R Hion Hrec z Hz). pose proof (cf_le_1 Z ion R Hion Hrec z Hz).
    split; nra.
  Qed.

  Lemma sq_nonneg (q : Q) : 0 <= q * q.
  Proof. destruct (Qlt_le_dec q 0); nra. Qed.

  Lemma sq_zero (q : Q) : q * q == 0 -> q == 0.
  Proof. intros H. destruct (Qmult_integral _ _ H); assumption. Qed.

  (* a minimiser of the least-squares objective over the box is n_e times the closed form *)
  Lemma lsq_minimiser x : 0 < ne ->
    (forall y, in_box Z ne y -> lsq_cost Z ion rec cx nd ne x <= lsq_cost Z ion rec cx nd ne y) ->
    forall z, (z <= Z)%nat -> x z == ne * cf Z ion R z.
  Proof.
    intros Hne Hmin.
    pose proof (Hmin _ (scaled_cf_in_box Hne)) as Hc. rewrite (cost_of_scaled_cf Hne) in Hc.
    unfold lsq_cost in Hc. fold rd in Hc.
    set (sq := fun i => ne * rd i x * (ne * rd i x)) in *.
    assert (forall j, (j < S Z)%nat -> 0 <= sq j) as Hsq by (intros; unfold sq; apply sq_nonneg).
    pose proof (sumn_nonneg _ _ Hsq) as Hs0.
    assert (0 <= (sumn (S Z) x - ne) * (sumn (S Z) x - ne)) as Hq by apply sq_nonneg.
    assert (sumn (S Z) sq <= 0) as Hs1 by lra.
    assert ((sumn (S Z) x - ne) * (sumn (S Z) x - ne) == 0) as Hq0 by lra.
    apply sq_zero in Hq0.
    apply solution_unique; [|lra].
    intros i Hi. pose proof (sumn_nonneg_zero _ _ Hsq Hs1 i ltac:(lia)) as Hz.
    unfold sq in Hz. apply sq_zero in Hz.
    destruct (Qmult_integral _ _ Hz); [lra | assumption].
  Qed.
End Rows.

(* ---------------------------------------------------------------- list form of the product *)
Lemma dot_app a b c d : length a = length b -> dot (a ++ c) (b ++ d) == dot a b + dot c d.
Proof.
  revert b. induction a as [|x a IH]; intros [|y b] H; cbn in *; try lia; [ring|].
  rewrite IH by lia. ring.
Qed.

Lemma dot_map_seq (g x : nat -> Q) n k :
  dot (map g (seq k n)) (map x (seq k n)) == sumn n (fun j => g (k + j)%nat * x (k + j)%nat).
Proof.
  induction n as [|n IH]; [reflexivity|].
  rewrite seq_S, !map_app, dot_app by (rewrite !map_length; reflexivity).
  rewrite IH. cbn [map dot sumn]. ring.
Qed.

Lemma Forall2_app_inv {A B} (P : A -> B -> Prop) l1 l2 r1 r2 :
  Forall2 P l1 r1 -> Forall2 P l2 r2 -> Forall2 P (l1 ++ l2) (r1 ++ r2).
Proof. intros H1 H2. induction H1; cbn; auto. Qed.

Lemma Forall2_map_seq {A B} (P : A -> B -> Prop) (f : nat -> A) (g : nat -> B) k n :
  (forall i, (k <= i < k + n)%nat -> P (f i) (g i)) -> Forall2 P (map f (seq k n)) (map g (seq k n)).
Proof.
  revert k. induction n as [|n IH]; intros k H; cbn; constructor.
  - apply H; lia.
  - apply IH. intros; apply H; lia.
Qed.

(* the matrix the code hands to lsq_linear, applied to n_e * closed form, gives the code's rhs *)
Lemma cf_solves_matrix Z ion rec cx nd ne :
  (1 <= Z)%nat -> 0 < ne -> pos_ion Z ion -> pos_rec Z (eff_rec rec cx nd ne) ->
  Forall2 Qeq
    (matvec (balance_matrix Z ion rec cx nd ne)
            (map (fun z => ne * cf Z ion (eff_rec rec cx nd ne) z) (seq 0 (S Z))))
    (balance_rhs Z ne).
Proof.
  intros HZ Hne Hi Hr. unfold matvec, balance_matrix, balance_rhs.
  rewrite map_app. apply Forall2_app_inv.
  - rewrite map_map. apply Forall2_map_seq. intros i Hi'.
    rewrite (dot_map_seq (fun j => entry Z ion rec cx nd ne i j * ne)
                         (fun z => ne * cf Z ion (eff_rec rec cx nd ne) z) (S Z) 0).
    cbn [Nat.add].
    transitivity (ne * ne * rowdot Z ion rec cx nd ne i (cf Z ion (eff_rec rec cx nd ne))).
    + unfold rowdot. rewrite <- sumn_scale_l. apply sumn_ext. intros; ring.
    + rewrite (cf_rows_zero Z ion rec cx nd ne HZ Hi Hr i) by lia. ring.
  - cbn [map]. constructor; [|constructor].
    rewrite (dot_map_seq (fun _ => 1) (fun z => ne * cf Z ion (eff_rec rec cx nd ne) z) (S Z) 0).
    cbn [Nat.add].
    rewrite (sumn_ext _ _ (fun j => ne * cf Z ion (eff_rec rec cx nd ne) j)) by (intros; ring).
    rewrite sumn_scale_l, (cf_sum Z ion _ Hi Hr). ring.
Qed.

(* ---------------------------------------------------------------- densities *)
Lemma from_density_sum Z ion rec cx nd ne n_el :
  pos_ion Z ion -> pos_rec Z (eff_rec rec cx nd ne) ->
  sumn (S Z) (from_density_point Z ion rec cx nd ne n_el) == n_el.
Proof.
  intros Hi Hr. unfold from_density_point, fractional_point.
  rewrite sumn_scale, (cf_sum Z ion _ Hi Hr). ring.
Qed.

Lemma qnat_nonneg k : 0 <= qnat k.
Proof. unfold qnat. change 0 with (inject_Z 0). rewrite <- Zle_Qle. lia. Qed.

Lemma z_mean_pos Z ion R : (1 <= Z)%nat -> pos_ion Z ion -> pos_rec Z R -> 0 < z_mean Z (cf Z ion R).
Proof.
  intros HZ Hi Hr. unfold z_mean.
  assert (qnat 1 * cf Z ion R 1%nat <= sumn (S Z) (fun z => qnat z * cf Z ion R z)) as H.
  { apply (sumn_ge_term (S Z) (fun z => qnat z * cf Z ion R z) 1%nat); [|lia].
    intros j Hj. pose proof (qnat_nonneg j). pose proof (cf_pos Z ion R Hi Hr j ltac:(lia)). nra. }
  pose proof (cf_pos Z ion R Hi Hr 1%nat HZ). change (qnat 1) with 1 in H. lra.
Qed.

Lemma element_ne_nonneg ne sp : 0 <= element_ne ne sp.
Proof.
  unfold element_ne. destruct (Qle_bool 0 (ne - species_charge sp)) eqn:E; [|lra].
  apply Qle_bool_iff in E. exact E.
Qed.

Lemma neutrality Z ion rec cx nd ne sp :
  (1 <= Z)%nat -> pos_ion Z ion -> pos_rec Z (eff_rec rec cx nd ne) ->
  let dens := match_neutrality_point Z ion rec cx nd ne sp in
  (forall z, (z <= Z)%nat -> 0 <= dens z)
  /\ (species_charge sp <= ne -> sumn (S Z) (fun z => qnat z * dens z) + species_charge sp == ne)
  /\ (ne < species_charge sp -> forall z, dens z == 0).
Proof.
  intros HZ Hi Hr dens. subst dens. unfold match_neutrality_point, fractional_point.
  set (R := eff_rec rec cx nd ne) in *.
  pose proof (z_mean_pos Z ion R HZ Hi Hr) as Hzm.
  pose proof (element_ne_nonneg ne sp) as Hen.
  assert (0 < / z_mean Z (cf Z ion R)) as Hinv by (apply Qinv_lt_0_compat; exact Hzm).
  repeat split.
  - intros z Hz. pose proof (cf_pos Z ion R Hi Hr z Hz). unfold Qdiv.
    apply Qmult_le_0_compat; [lra | apply Qmult_le_0_compat; lra].
  - intros Hle.
    rewrite (sumn_ext _ _ (fun z => (qnat z * cf Z ion R z) * (element_ne ne sp / z_mean Z (cf Z ion R))))
      by (intros; ring).
    rewrite sumn_scale. fold (z_mean Z (cf Z ion R)).
    unfold element_ne. destruct (Qle_bool 0 (ne - species_charge sp)) eqn:E.
    + field. lra.
    + assert (~ 0 <= ne - species_charge sp) by (rewrite <- Qle_bool_iff, E; discriminate). lra.
  - intros Hlt z. unfold element_ne. destruct (Qle_bool 0 (ne - species_charge sp)) eqn:E.
    + apply Qle_bool_iff in E. lra.
    + field. lra.
Qed.

(* ---------------------------------------------------------------- the donor matters *)
Lemma ratio_mono Z ion R R' : pos_ion Z ion -> pos_rec Z R ->
  (forall z, (1 <= z <= Z)%nat -> R z < R' z) ->
  forall z, (z <= Z)%nat -> ratio ion R' z <= ratio ion R z /\ ((1 <= z)%nat -> ratio ion R' z < ratio ion R z).
Proof.
  intros Hi Hr Hlt.
  assert (pos_rec Z R') as Hr' by (intros z Hz; pose proof (Hr z Hz); pose proof (Hlt z Hz); lra).
  induction z as [|z IH]; intros Hz; cbn [ratio]; [split; [lra | lia]|].
  destruct IH as [IH _]; [lia|].
  pose proof (ratio_pos Z ion R' Hi Hr' z ltac:(lia)) as Pa.
  pose proof (Hi z ltac:(lia)) as Pc.
  pose proof (Hr (S z) ltac:(lia)) as PR. pose proof (Hlt (S z) ltac:(lia)) as PRl.
  assert (ratio ion R' z * ion z / R' (S z) < ratio ion R z * ion z / R (S z)) as Hs.
  { apply Qlt_shift_div_l; [exact PR|].
    assert (ratio ion R' z * ion z / R' (S z) * R (S z)
            == (ratio ion R' z * ion z) * (R (S z) / R' (S z))) as -> by (field; lra).
    assert (R (S z) / R' (S z) < 1) by (apply Qlt_shift_div_r; lra).
    assert (0 < R (S z) / R' (S z)).
    { unfold Qdiv. apply Qmult_lt_0_compat; [lra | apply Qinv_lt_0_compat; lra]. }
    set (q := R (S z) / R' (S z)) in *.
    assert (0 < ratio ion R' z * ion z) as Ha by (apply Qmult_lt_0_compat; assumption).
    assert (ratio ion R' z * ion z <= ratio ion R z * ion z) as Hab by (apply Qmult_le_compat_r; lra).
    assert (ratio ion R' z * ion z * q < ratio ion R' z * ion z * 1) as Hq by (apply Qmult_lt_l; assumption).
    lra. }
  split; [lra | intros _; exact Hs].
Qed.

Lemma neutral_fraction_grows Z ion R R' : (1 <= Z)%nat -> pos_ion Z ion -> pos_rec Z R ->
  (forall z, (1 <= z <= Z)%nat -> R z < R' z) -> cf Z ion R O < cf Z ion R' O.
Proof.
  intros HZ Hi Hr Hlt.
  assert (pos_rec Z R') as Hr' by (intros z Hz; pose proof (Hr z Hz); pose proof (Hlt z Hz); lra).
  pose proof (total_pos Z ion R Hi Hr) as T. pose proof (total_pos Z ion R' Hi Hr') as T'.
  assert (total Z ion R' < total Z ion R) as Hts.
  { unfold total. apply (sumn_lt (S Z) _ _ 1%nat); [|lia|].
    - intros j Hj. apply (ratio_mono Z ion R R' Hi Hr Hlt j); lia.
    - apply (ratio_mono Z ion R R' Hi Hr Hlt 1%nat); lia. }
  unfold cf. cbn [ratio].
  apply Qlt_shift_div_l; [exact T'|].
  assert (1 / total Z ion R * total Z ion R' == total Z ion R' / total Z ion R) as -> by (field; lra).
  apply Qlt_shift_div_r; [exact T|]. lra.
Qed.

Lemma donor_matters Z ion rec c nd ne :
  (1 <= Z)%nat -> 0 < ne -> 0 < nd -> pos_ion Z ion -> pos_rec Z rec -> pos_rec Z c ->
  fractional_point Z ion rec None nd ne O < fractional_point Z ion rec (Some c) nd ne O.
Proof.
  intros HZ Hne Hnd Hi Hr Hc. unfold fractional_point.
  assert (0 < nd / ne) as Hd by (unfold Qdiv; apply Qmult_lt_0_compat; [lra | apply Qinv_lt_0_compat; lra]).
  apply neutral_fraction_grows; auto.
  - intros z Hz. unfold eff_rec, dcx. pose proof (Hr z Hz). lra.
  - intros z Hz. unfold eff_rec, dcx. pose proof (Hc z Hz). nra.
Qed.

Lemma ratio_zero_donor ion rec c ne z :
  ratio ion (eff_rec rec (Some c) 0 ne) z == ratio ion (eff_rec rec None 0 ne) z.
Proof.
  induction z as [|z IH]; cbn [ratio]; [reflexivity|]. rewrite IH.
  unfold eff_rec, dcx.
  assert (rec (S z) + 0 / ne * c (S z) == rec (S z) + 0) as -> by (unfold Qdiv; ring).
  reflexivity.
Qed.

(* a donor of zero density changes nothing: the with-donor and no-donor paths agree *)
Lemma zero_donor_is_no_donor Z ion rec c ne z :
  fractional_point Z ion rec (Some c) 0 ne z == fractional_point Z ion rec None 0 ne z.
Proof.
  unfold fractional_point, cf, total.
  rewrite ratio_zero_donor.
  rewrite (sumn_ext (S Z) (ratio ion (eff_rec rec (Some c) 0 ne)) (ratio ion (eff_rec rec None 0 ne)))
    by (intros; apply ratio_zero_donor).
  reflexivity.
Qed.

(* ---------------------------------------------------------------- representations *)
Lemma profile_repr_independent Z ion rec cx ne ne' te te' nd nd' :
  points ne = points ne' -> points te = points te' -> donor_points nd ne = donor_points nd' ne' ->
  fractional_profile Z ion rec cx ne te nd = fractional_profile Z ion rec cx ne' te' nd'.
Proof. intros H1 H2 H3. unfold fractional_profile. rewrite H1, H2, H3. reflexivity. Qed.

Lemma density_repr_independent Z ion rec cx n_el n_el' ne ne' te te' nd nd' :
  points n_el = points n_el' ->
  points ne = points ne' -> points te = points te' -> donor_points nd ne = donor_points nd' ne' ->
  density_profile Z ion rec cx n_el ne te nd = density_profile Z ion rec cx n_el' ne' te' nd'.
Proof.
  intros H0 H1 H2 H3. unfold density_profile.
  rewrite (profile_repr_independent Z ion rec cx ne ne' te te' nd nd' H1 H2 H3), H0. reflexivity.
Qed.

Lemma map3_nth {A B C D} (f : A -> B -> C -> D) a b c k da db dc dd :
  (k < length a)%nat -> length a = length b -> length a = length c ->
  nth k (map3 f a b c) dd = f (nth k a da) (nth k b db) (nth k c dc).
Proof.
  revert b c k. induction a as [|x a IH]; intros [|y b] [|z c] k Hk Hb Hc; cbn in *; try lia.
  destruct k; [reflexivity|]. apply IH; lia.
Qed.

(* each point of a profile is the point calculation at that point's values: scalars, arrays and
   functions with free variables all go through the same point function *)
Lemma profile_pointwise Z ion rec cx ne te nd k :
  (k < length (points ne))%nat -> length (points ne) = length (points te) ->
  length (points ne) = length (donor_points nd ne) ->
  nth k (fractional_profile Z ion rec cx ne te nd) [] =
  let n := nth k (points ne) 0 in let t := nth k (points te) 0 in let d := nth k (donor_points nd ne) 0 in
  map (fractional_point Z (at_point ion n t) (at_point rec n t) (option_map (fun c => at_point c n t) cx) d n)
      (seq 0 (S Z)).
Proof. intros Hk H1 H2. unfold fractional_profile. rewrite (map3_nth _ _ _ _ k 0 0 0) by assumption. reflexivity. Qed.

(* ---------------------------------------------------------------- statements as used in Properties/C09.v *)
Lemma rates_ok_pos Z ion rec cx nd ne : rates_ok Z ion rec cx nd ne ->
  (1 <= Z)%nat /\ 0 < ne /\ pos_ion Z ion /\ pos_rec Z (eff_rec rec cx nd ne).
Proof.
  intros (HZ & Hi & Hr & Hc & Hne & Hnd). repeat split; auto.
  intros z Hz. unfold eff_rec, dcx. pose proof (Hr z Hz).
  destruct cx as [c|]; [|lra].
  pose proof (Hc z Hz).
  assert (0 <= nd / ne) by (unfold Qdiv; apply Qmult_le_0_compat; [lra | apply Qlt_le_weak, Qinv_lt_0_compat; lra]).
  assert (0 <= nd / ne * c z) by (apply Qmult_le_0_compat; assumption). lra.
Qed.

Lemma thm_unit_interval Z ion rec cx nd ne : rates_ok Z ion rec cx nd ne ->
  forall z, (z <= Z)%nat -> 0 <= fractional_point Z ion rec cx nd ne z /\ fractional_point Z ion rec cx nd ne z <= 1.
Proof.
  intros H z Hz. destruct (rates_ok_pos _ _ _ _ _ _ H) as (HZ & Hne & Hi & Hr). unfold fractional_point. split.
  - apply Qlt_le_weak, cf_pos; auto.
  - apply cf_le_1; auto.
Qed.

Lemma thm_sum_one Z ion rec cx nd ne : rates_ok Z ion rec cx nd ne ->
  sumn (S Z) (fractional_point Z ion rec cx nd ne) == 1.
Proof. intros H. destruct (rates_ok_pos _ _ _ _ _ _ H) as (HZ & Hne & Hi & Hr). apply cf_sum; auto. Qed.

Lemma thm_balance Z ion rec cx nd ne : rates_ok Z ion rec cx nd ne ->
  forall z, (z < Z)%nat ->
  fractional_point Z ion rec cx nd ne z * ion z ==
  fractional_point Z ion rec cx nd ne (S z) * (rec (S z) + dcx cx nd ne (S z)).
Proof.
  intros H z Hz. destruct (rates_ok_pos _ _ _ _ _ _ H) as (HZ & Hne & Hi & Hr).
  exact (cf_balance Z ion (eff_rec rec cx nd ne) Hi Hr z Hz).
Qed.

Lemma thm_solves_matrix Z ion rec cx nd ne : rates_ok Z ion rec cx nd ne ->
  Forall2 Qeq
    (matvec (balance_matrix Z ion rec cx nd ne)
            (map (fun z => ne * fractional_point Z ion rec cx nd ne z) (seq 0 (S Z))))
    (balance_rhs Z ne).
Proof.
  intros H. destruct (rates_ok_pos _ _ _ _ _ _ H) as (HZ & Hne & Hi & Hr).
  apply cf_solves_matrix; auto.
Qed.

Lemma thm_lsq Z ion rec cx nd ne : rates_ok Z ion rec cx nd ne ->
  forall x : nat -> Q,
  (forall y, in_box Z ne y -> lsq_cost Z ion rec cx nd ne x <= lsq_cost Z ion rec cx nd ne y) ->
  forall z, (z <= Z)%nat -> x z == ne * fractional_point Z ion rec cx nd ne z.
Proof.
  intros H x Hmin z Hz. destruct (rates_ok_pos _ _ _ _ _ _ H) as (HZ & Hne & Hi & Hr).
  apply (lsq_minimiser Z ion rec cx nd ne HZ Hi Hr x Hne Hmin z Hz).
Qed.

Lemma thm_exact_solution_unique Z ion rec cx nd ne : rates_ok Z ion rec cx nd ne ->
  forall (x : nat -> Q) s,
  (forall i, (i <= Z)%nat -> rowdot Z ion rec cx nd ne i x == 0) -> sumn (S Z) x == s ->
  forall z, (z <= Z)%nat -> x z == s * fractional_point Z ion rec cx nd ne z.
Proof.
  intros H x s Hrow Hs z Hz. destruct (rates_ok_pos _ _ _ _ _ _ H) as (HZ & Hne & Hi & Hr).
  apply (solution_unique Z ion rec cx nd ne HZ Hi Hr x s Hrow Hs z Hz).
Qed.

Lemma thm_density Z ion rec cx nd ne n_el : rates_ok Z ion rec cx nd ne ->
  (forall z, from_density_point Z ion rec cx nd ne n_el z == n_el * fractional_point Z ion rec cx nd ne z)
  /\ sumn (S Z) (from_density_point Z ion rec cx nd ne n_el) == n_el.
Proof.
  intros H. destruct (rates_ok_pos _ _ _ _ _ _ H) as (HZ & Hne & Hi & Hr). split.
  - intros z. unfold from_density_point. ring.
  - apply from_density_sum; auto.
Qed.

Lemma thm_neutrality Z ion rec cx nd ne sp : rates_ok Z ion rec cx nd ne ->
  let dens := match_neutrality_point Z ion rec cx nd ne sp in
  (forall z, (z <= Z)%nat -> 0 <= dens z)
  /\ (species_charge sp <= ne -> sumn (S Z) (fun z => qnat z * dens z) + species_charge sp == ne)
  /\ (ne < species_charge sp -> forall z, dens z == 0).
Proof.
  intros H. destruct (rates_ok_pos _ _ _ _ _ _ H) as (HZ & Hne & Hi & Hr). apply neutrality; auto.
Qed.

Lemma thm_donor_matters Z ion rec c nd ne :
  rates_ok Z ion rec None nd ne -> 0 < nd -> (forall z, (1 <= z <= Z)%nat -> 0 < c z) ->
  fractional_point Z ion rec None nd ne O < fractional_point Z ion rec (Some c) nd ne O.
Proof.
  intros (HZ & Hi & Hr & _ & Hne & _) Hnd Hc. apply donor_matters; auto.
Qed.

Lemma thm_entry_points Z ion rec cx :
  (forall ne ne' te te' nd nd',
      points ne = points ne' -> points te = points te' -> donor_points nd ne = donor_points nd' ne' ->
      fractional_profile Z ion rec cx ne te nd = fractional_profile Z ion rec cx ne' te' nd')
  /\ (forall n_el n_el' ne ne' te te' nd nd',
      points n_el = points n_el' ->
      points ne = points ne' -> points te = points te' -> donor_points nd ne = donor_points nd' ne' ->
      density_profile Z ion rec cx n_el ne te nd = density_profile Z ion rec cx n_el' ne' te' nd')
  /\ (forall ne te nd k,
      (k < length (points ne))%nat -> length (points ne) = length (points te) ->
      length (points ne) = length (donor_points nd ne) ->
      nth k (fractional_profile Z ion rec cx ne te nd) [] =
      let n := nth k (points ne) 0 in let t := nth k (points te) 0 in let d := nth k (donor_points nd ne) 0 in
      map (fractional_point Z (at_point ion n t) (at_point rec n t) (option_map (fun c => at_point c n t) cx) d n)
          (seq 0 (S Z))).
Proof.
  repeat split.
  - apply profile_repr_independent.
  - apply density_repr_independent.
  - apply profile_pointwise.
Qed.
