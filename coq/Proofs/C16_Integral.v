(* C16: the integral of a raysect Spectrum (model: pl_integral) on constant samples, and calibrate specialised to it. *)
Require Import Cherab.Common.Qx.
Require Import Cherab.Model.C16_Instruments Cherab.Proofs.C16_Range Cherab.Proofs.C16_Calibrate.
From Coq Require Import Lqa.
Open Scope Q_scope.

Lemma qmin_plus_qmax t x : qmin t x + qmax t x == t + x.
Proof. unfold qmin, qmax. destruct (Qle_bool t x); ring. Qed.

(* a constant segment: the clamped length times the constant *)
Lemma seg_const x0 x1 c a b : seg_integral x0 c x1 c a b == c * (clamp x0 x1 b - clamp x0 x1 a).
Proof.
  unfold seg_integral. setoid_replace ((c - c) / (x1 - x0)) with 0 by (unfold Qdiv; ring). ring.
Qed.

Lemma clamp_qmax x0 x1 t : x0 <= x1 -> clamp x0 x1 t + qmax t x1 - x1 == qmax t x0.
Proof.
  intros H. unfold clamp, qmax.
  destruct (Qle_bool t x0) eqn:E0; destruct (Qle_bool t x1) eqn:E1;
    try apply Qle_bool_iff in E0; try apply Qle_bool_iff in E1;
    try apply qle_bool_false in E0; try apply qle_bool_false in E1; try lra.
  - destruct (Qle_bool x1 t) eqn:E2; [apply Qle_bool_iff in E2|apply qle_bool_false in E2]; lra.
  - destruct (Qle_bool x1 t) eqn:E2; [apply Qle_bool_iff in E2|apply qle_bool_false in E2]; lra.
Qed.

Definition const_like (c : Q) (xs : list Q) : list Q := map (fun _ => c) xs.

(* the part of the integral to the right of the first knot *)
Lemma const_right c a b : forall xs x0, increasing (x0 :: xs) = true ->
  segs_integral (x0 :: xs) (const_like c (x0 :: xs)) a b + c * len_above (last (x0 :: xs) 0) a b
  == c * (qmax b x0 - qmax a x0).
Proof.
  induction xs as [|x1 t IH]; intros x0 Hinc.
  - cbn. unfold len_above. ring.
  - destruct (increasing_cons' _ _ _ Hinc) as [H01 Hinc'].
    change (segs_integral (x0 :: x1 :: t) (const_like c (x0 :: x1 :: t)) a b)
      with (seg_integral x0 c x1 c a b + segs_integral (x1 :: t) (const_like c (x1 :: t)) a b).
    change (last (x0 :: x1 :: t) 0) with (last (x1 :: t) 0).
    rewrite <- Qplus_assoc, (IH x1 Hinc'), seg_const.
    pose proof (clamp_qmax x0 x1 a (Qlt_le_weak _ _ H01)) as Ha.
    pose proof (clamp_qmax x0 x1 b (Qlt_le_weak _ _ H01)) as Hb.
    setoid_replace (qmax b x0) with (clamp x0 x1 b + qmax b x1 - x1) by (symmetry; exact Hb).
    setoid_replace (qmax a x0) with (clamp x0 x1 a + qmax a x1 - x1) by (symmetry; exact Ha).
    ring.
Qed.

(* a spectrum whose samples all equal c integrates to c * (b - a) over any interval, for any strictly increasing
   bin centres (the interpolant is the constant c, extrapolation included) *)
Lemma pl_integral_const c xs a b : xs <> [] -> increasing xs = true ->
  pl_integral xs (const_like c xs) a b == c * (b - a).
Proof.
  intros Hne Hinc. destruct xs as [|x0 t]; [contradiction|].
  unfold pl_integral. change (hd 0 (const_like c (x0 :: t))) with c. change (hd 0 (x0 :: t)) with x0.
  assert (last (const_like c (x0 :: t)) 0 == c) as ->.
  { clear. revert x0. induction t as [|x1 t IH]; intros x0; [reflexivity|]. apply (IH x1). }
  rewrite <- Qplus_assoc, (const_right c a b t x0 Hinc). unfold len_below.
  pose proof (qmin_plus_qmax a x0). pose proof (qmin_plus_qmax b x0).
  setoid_replace (c * (b - a)) with (c * ((qmin b x0 + qmax b x0) - (qmin a x0 + qmax a x0))).
  - ring.
  - rewrite H, H0. ring.
Qed.

(* calibrate with the spectrum's integral: both conservation statements for ANY bin centres / samples *)
Lemma calibrate_conserves_spectrum xs ys w : increasing w = true ->
  (forall i, (S i < List.length w)%nat ->
     nth i (calibrate_arr (pl_integral xs ys) w) 0 * (nth (S i) w 0 - nth i w 0)
     == pl_integral xs ys (nth i w 0) (nth (S i) w 0)) /\
  ((2 <= List.length w)%nat ->
     dot (calibrate_arr (pl_integral xs ys) w) (widths w) == pl_integral xs ys (hd 0 w) (last w 0)).
Proof.
  intros Hinc. split.
  - exact (calibrate_pixel (pl_integral xs ys) w Hinc).
  - exact (calibrate_total (pl_integral xs ys) (pl_integral_additive xs ys) w Hinc).
Qed.

Lemma nth_increasing w : increasing w = true -> forall i, (S i < List.length w)%nat -> nth i w 0 < nth (S i) w 0.
Proof.
  induction w as [|a t IH]; intros Hinc i Hi; [cbn in Hi; lia|].
  destruct t as [|b t']; [cbn in Hi; lia|].
  destruct (increasing_cons' _ _ _ Hinc) as [Hab Hinc'].
  destruct i as [|i]; [exact Hab|].
  change (nth i (b :: t') 0 < nth (S i) (b :: t') 0). apply IH; [exact Hinc'|cbn in Hi |- *; lia].
Qed.

(* a flat spectrum is calibrated to the flat value in every pixel of every layout *)
Lemma calibrate_flat c xs w : xs <> [] -> increasing xs = true -> increasing w = true ->
  forall i, (S i < List.length w)%nat -> nth i (calibrate_arr (pl_integral xs (const_like c xs)) w) 0 == c.
Proof.
  intros Hne Hxs Hinc i Hi.
  pose proof (calibrate_pixel (pl_integral xs (const_like c xs)) w Hinc i Hi) as H.
  rewrite (pl_integral_const c xs _ _ Hne Hxs) in H.
  pose proof (nth_increasing w Hinc i Hi) as Hlt.
  set (d := nth (S i) w 0 - nth i w 0) in *. assert (0 < d) as Hd by (unfold d; lra).
  apply (Qmult_inj_r _ _ d); [intros E; rewrite E in Hd; exact (Qlt_irrefl _ Hd)|].
  rewrite H. ring.
Qed.
