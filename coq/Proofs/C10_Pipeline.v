(* The ray-transfer pipelines: every finalised matrix is the mean of its own observation's samples and does
   not depend on what the pipeline object was used for before. *)
Require Import Cherab.Common.Qx.
Require Import Cherab.Model.C10_RayTransfer Cherab.Model.C10_Pipeline.
From Coq Require Import Lqa.
Open Scope Q_scope.

Lemma proc_fold k l : forall m j, fold_left (proc_add k) l m j == m j + sample_sum k l j.
Proof.
  induction l as [|sm l IH]; intros m j; unfold sample_sum in *; cbn [fold_left map Qsum]; [ring|].
  rewrite IH. destruct k; cbn [proc_add contrib]; ring.
Qed.

Lemma proc_run_sum k l j : proc_run k l j == sample_sum k l j.
Proof. unfold proc_run. rewrite proc_fold. unfold fzero. ring. Qed.

Lemma sample_sum_app k l1 l2 j : sample_sum k (l1 ++ l2) j == sample_sum k l1 j + sample_sum k l2 j.
Proof. unfold sample_sum. rewrite map_app, Qsum_app. reflexivity. Qed.

(* ---- 0D ---- *)
Lemma p0_fold tasks : forall st,
  p0_kind (fold_left p0_task tasks st) = p0_kind st /\
  p0_samples (fold_left p0_task tasks st) = (p0_samples st + Z.of_nat (length (concat tasks)))%Z /\
  forall j, p0_matrix (fold_left p0_task tasks st) j == p0_matrix st j + sample_sum (p0_kind st) (concat tasks) j.
Proof.
  induction tasks as [|t l IH]; intros st; cbn [fold_left concat].
  - repeat split; [cbn; lia | intros j; unfold sample_sum; cbn; ring].
  - destruct (IH (p0_task st t)) as (Hk & Hs & Hm). repeat split.
    + rewrite Hk. reflexivity.
    + rewrite Hs. cbn [p0_task p0_update p0_samples]. rewrite app_length. lia.
    + intros j. rewrite Hm. cbn [p0_task p0_update p0_matrix p0_kind]. unfold fadd.
      rewrite proc_run_sum, sample_sum_app. ring.
Qed.

(* the finalised 0D matrix is the mean over all samples of the observation, whatever the state before *)
Lemma p0_observe_mean st tasks j :
  p0_matrix (p0_observe st tasks) j ==
  sample_sum (p0_kind st) (concat tasks) j / inject_Z (Z.of_nat (length (concat tasks))).
Proof.
  unfold p0_observe. cbn [p0_finalise p0_matrix p0_samples].
  destruct (p0_fold tasks (p0_initialise st)) as (_ & Hs & Hm).
  rewrite Hs, Hm. cbn [p0_initialise p0_samples p0_matrix p0_kind Z.add]. unfold fzero.
  rewrite Qplus_0_l. reflexivity.
Qed.

Lemma p0_history_independent st st' h : p0_history st h = p0_history st' h.
Proof. destruct h as [|[k tasks] t]; reflexivity. Qed.

(* ---- 1D / 2D ---- *)
Lemma pixel_eqb_eq a b : pixel_eqb a b = true <-> a = b.
Proof.
  destruct a as [a1 a2], b as [b1 b2]. unfold pixel_eqb. cbn [fst snd].
  rewrite andb_true_iff, !Z.eqb_eq. split; [intros [-> ->]; reflexivity | intros [= -> ->]; auto].
Qed.

Lemma pn_fold tasks : forall st, NoDup (map fst tasks) ->
  pn_kind (fold_left pn_task tasks st) = pn_kind st /\
  pn_samples (fold_left pn_task tasks st) = pn_samples st /\
  (forall p sm j, In (p, sm) tasks ->
     pn_matrix (fold_left pn_task tasks st) p j == sample_sum (pn_kind st) sm j / inject_Z (pn_samples st)) /\
  (forall p, ~ In p (map fst tasks) -> pn_matrix (fold_left pn_task tasks st) p = pn_matrix st p).
Proof.
  induction tasks as [|[q smq] l IH]; intros st Hn; cbn [fold_left map].
  - repeat split; try reflexivity. intros p sm j [].
  - inversion Hn as [|? ? Hq Hl]; subst. destruct (IH (pn_task st (q, smq)) Hl) as (Hk & Hs & Hin & Hout).
    cbn [pn_task pn_update pn_kind pn_samples fst snd] in Hk, Hs, Hin.
    repeat split; [exact Hk | exact Hs | |].
    + intros p sm j [E|Hp].
      * injection E as -> ->. rewrite (Hout p Hq).
        cbn [pn_task pn_update pn_matrix fst snd].
        replace (pixel_eqb p p) with true by (symmetry; apply pixel_eqb_eq; reflexivity).
        rewrite proc_run_sum. reflexivity.
      * apply Hin. exact Hp.
    + intros p Hp. cbn [fst] in Hp. rewrite Hout by (intros H; apply Hp; right; exact H).
      cbn [pn_task pn_update pn_matrix fst snd].
      destruct (pixel_eqb p q) eqn:E; [|reflexivity].
      apply pixel_eqb_eq in E. exfalso. apply Hp. left. symmetry. exact E.
Qed.

(* each pixel that the observer updated (once) holds the mean of its samples when it was given pixel_samples samples;
   the other pixels hold zeros; nothing depends on the state before *)
Lemma pn_observe_mean st ps tasks : NoDup (map fst tasks) ->
  (forall p sm j, In (p, sm) tasks ->
     pn_matrix (pn_observe st ps tasks) p j == sample_sum (pn_kind st) sm j / inject_Z ps) /\
  (forall p j, ~ In p (map fst tasks) -> pn_matrix (pn_observe st ps tasks) p j == 0).
Proof.
  intros Hn. unfold pn_observe. destruct (pn_fold tasks (pn_initialise st ps) Hn) as (_ & _ & Hin & Hout). split.
  - intros p sm j H. apply (Hin p sm j H).
  - intros p j H. rewrite (Hout p H). reflexivity.
Qed.

Lemma pn_history_independent st st' h : pn_history st h = pn_history st' h.
Proof. destruct h as [|[[k ps] tasks] t]; reflexivity. Qed.
