(* Proofs about the Notifier model: it refines the ordered set of live subscriptions, and a notification
   calls every live subscription exactly once and nothing else, for every history. *)
From Coq Require Import List Arith Bool Lia.
Import ListNotations.
Require Import Cherab.Model.C01_Notifier.

Lemma target_eqb_eq a b : target_eqb a b = true <-> a = b.
Proof.
  destruct a as [o n|o], b as [o' n'|o']; cbn [target_eqb]; split; intro H; try discriminate.
  - apply andb_true_iff in H as [H1 H2]. apply Nat.eqb_eq in H1, H2. subst. reflexivity.
  - injection H as -> ->. rewrite !Nat.eqb_refl. reflexivity.
  - apply Nat.eqb_eq in H. subst. reflexivity.
  - injection H as ->. apply Nat.eqb_refl.
Qed.

Lemma target_eqb_refl a : target_eqb a a = true.
Proof. apply target_eqb_eq. reflexivity. Qed.

Lemma target_eqb_sym a b : target_eqb a b = target_eqb b a.
Proof.
  destruct (target_eqb a b) eqn:E.
  - apply target_eqb_eq in E. subst. symmetry. apply target_eqb_refl.
  - destruct (target_eqb b a) eqn:E'; [|reflexivity].
    apply target_eqb_eq in E'. subst. rewrite target_eqb_refl in E. discriminate.
Qed.

Lemma target_eqb_neq a b : target_eqb a b = false <-> a <> b.
Proof.
  split.
  - intros H ->. rewrite target_eqb_refl in H. discriminate.
  - intros H. destruct (target_eqb a b) eqn:E; [|reflexivity]. apply target_eqb_eq in E. contradiction.
Qed.

Lemma NoDup_snoc {A} (l : list A) (x : A) : NoDup l -> ~ In x l -> NoDup (l ++ [x]).
Proof.
  induction l as [|a l IH]; cbn [app]; intros H Hn; [constructor; [intros []|constructor]|].
  inversion H as [|? ? Ha Hd]; subst. constructor.
  - intro Hin. apply in_app_or in Hin as [Hin|[Hin|[]]]; [exact (Ha Hin)|]. subst. apply Hn. left. reflexivity.
  - apply IH; [exact Hd|]. intro Hin. apply Hn. right. exact Hin.
Qed.

(* ---------------------------------------------------------------------------------------------- *)
(* the invariant: references have distinct identities below [next]                                  *)
(* ---------------------------------------------------------------------------------------------- *)
Definition NInv (s : nstate) : Prop :=
  NoDup (map rid (refs s)) /\ Forall (fun r => rid r < next s) (refs s).

Lemma ninit_inv : NInv ninit.
Proof. split; cbn; constructor. Qed.

Lemma remove_first_incl s x l r : In r (remove_first s x l) -> In r l.
Proof.
  induction l as [|a l IH]; cbn [remove_first]; [tauto|].
  destruct (wref_eqb s a x); cbn; intuition.
Qed.

Lemma remove_first_nodup s x l : NoDup (map rid l) -> NoDup (map rid (remove_first s x l)).
Proof.
  induction l as [|a l IH]; cbn [remove_first map]; intro H; [constructor|].
  inversion H as [|? ? Hn Hd]; subst.
  destruct (wref_eqb s a x); [exact Hd|].
  cbn [map]. constructor; [|apply IH; exact Hd].
  intro Hin. apply Hn. apply in_map_iff in Hin as [r [Hr Hin]].
  apply in_map_iff. exists r. split; [exact Hr|]. eapply remove_first_incl; exact Hin.
Qed.

Lemma remove_first_forall s x l (P : wref -> Prop) : Forall P l -> Forall P (remove_first s x l).
Proof.
  intro H. apply Forall_forall. intros r Hr. apply remove_first_incl in Hr.
  rewrite Forall_forall in H. apply H. exact Hr.
Qed.

Lemma purge_nodup s xs : forall l, NoDup (map rid l) -> NoDup (map rid (purge s xs l)).
Proof.
  unfold purge. induction xs as [|x xs IH]; cbn [fold_left]; intros l H; [exact H|].
  apply IH. apply remove_first_nodup. exact H.
Qed.

Lemma purge_forall s xs (P : wref -> Prop) : forall l, Forall P l -> Forall P (purge s xs l).
Proof.
  unfold purge. induction xs as [|x xs IH]; cbn [fold_left]; intros l H; [exact H|].
  apply IH. apply remove_first_forall. exact H.
Qed.

(* ---------------------------------------------------------------------------------------------- *)
(* notify: the loop calls the live references in order and collects the dead ones; the purge removes *)
(* exactly the dead ones                                                                            *)
(* ---------------------------------------------------------------------------------------------- *)
Lemma scan_spec s l :
  scan s l = (map tgt (filter (live s) l), filter (fun r => negb (live s r)) l).
Proof.
  induction l as [|r t IH]; cbn [scan filter map]; [reflexivity|].
  rewrite IH. destruct (live s r); cbn [negb map]; reflexivity.
Qed.

Lemma wref_eqb_dead s a x : live s x = false -> wref_eqb s a x = Nat.eqb (rid a) (rid x).
Proof. intro H. unfold wref_eqb. rewrite H, andb_false_r, andb_false_l, orb_false_r. reflexivity. Qed.

Lemma purge_cons_keep s r : forall xs l,
  (forall x, In x xs -> wref_eqb s r x = false) -> purge s xs (r :: l) = r :: purge s xs l.
Proof.
  unfold purge. induction xs as [|x xs IH]; cbn [fold_left]; intros l H; [reflexivity|].
  cbn [remove_first]. rewrite (H x (or_introl eq_refl)). apply IH.
  intros y Hy. apply H. right. exact Hy.
Qed.

Lemma purge_dead_is_filter s l :
  NoDup (map rid l) -> purge s (filter (fun r => negb (live s r)) l) l = filter (live s) l.
Proof.
  induction l as [|r t IH]; intro H; [reflexivity|].
  cbn [map] in H. inversion H as [|? ? Hn Hd]; subst.
  cbn [filter]. destruct (live s r) eqn:Er; cbn [negb].
  - rewrite purge_cons_keep; [rewrite IH by exact Hd; reflexivity|].
    intros x Hx. apply filter_In in Hx as [Hin Hx]. apply negb_true_iff in Hx.
    rewrite wref_eqb_dead by exact Hx. apply Nat.eqb_neq. intro E. apply Hn.
    rewrite E. apply in_map. exact Hin.
  - unfold purge. cbn [fold_left remove_first].
    assert (Hrr : wref_eqb s r r = true) by (unfold wref_eqb; rewrite Nat.eqb_refl; reflexivity).
    rewrite Hrr. apply IH. exact Hd.
Qed.

Lemma notify_spec s : NInv s ->
  snd (notify s) = subs s /\ refs (fst (notify s)) = filter (live s) (refs s) /\
  dead (fst (notify s)) = dead s /\ next (fst (notify s)) = next s.
Proof.
  intros [Hn _]. unfold notify. rewrite scan_spec. cbn [fst snd refs dead next].
  rewrite purge_dead_is_filter by exact Hn. unfold subs. repeat split; reflexivity.
Qed.

Lemma filter_idem {A} (p : A -> bool) l : filter p (filter p l) = filter p l.
Proof.
  induction l as [|a l IH]; [reflexivity|]. cbn [filter]. destruct (p a) eqn:E; [|exact IH].
  cbn [filter]. rewrite E, IH. reflexivity.
Qed.

Lemma live_ext s s' r : dead s' = dead s -> live s' r = live s r.
Proof. intro H. unfold live, is_dead. rewrite H. reflexivity. Qed.

Lemma filter_ext_in' {A} (p q : A -> bool) l : (forall x, p x = q x) -> filter p l = filter q l.
Proof. intro H. apply filter_ext. exact H. Qed.

Lemma notify_subs s : NInv s -> subs (fst (notify s)) = subs s.
Proof.
  intro Hi. destruct (notify_spec s Hi) as [_ [Hr [Hd _]]]. unfold subs. rewrite Hr.
  rewrite (filter_ext_in' (live (fst (notify s))) (live s)) by (intro x; apply live_ext; exact Hd).
  rewrite filter_idem. reflexivity.
Qed.

Lemma notify_inv s : NInv s -> NInv (fst (notify s)).
Proof.
  intros [Hn Hf]. unfold notify. destruct (scan s (refs s)) as [calls deads]. cbn [fst].
  split; cbn [refs next]; [apply purge_nodup; exact Hn | apply purge_forall; exact Hf].
Qed.

(* ---------------------------------------------------------------------------------------------- *)
(* add                                                                                              *)
(* ---------------------------------------------------------------------------------------------- *)
Lemma is_present_subs s t : is_present s t = existsb (target_eqb t) (subs s).
Proof.
  unfold is_present, subs. induction (refs s) as [|r l IH]; [reflexivity|].
  cbn [existsb filter]. unfold matches at 1. destruct (live s r) eqn:E; cbn [andb map existsb].
  - rewrite IH, target_eqb_sym. reflexivity.
  - exact IH.
Qed.

Lemma add_subs s t : is_dead s (tobj t) = false -> subs (add s t) = spec_add (subs s) t.
Proof.
  intro Hl. unfold add, spec_add. rewrite <- is_present_subs.
  destruct (is_present s t); [reflexivity|].
  unfold subs. cbn [refs].
  rewrite (filter_ext_in' (live {| refs := refs s ++ [{| rid := next s; tgt := t |}]; dead := dead s; next := S (next s) |}) (live s))
    by (intro x; apply live_ext; reflexivity).
  rewrite filter_app, map_app. cbn [filter]. unfold live at 2. cbn [tgt]. rewrite Hl. reflexivity.
Qed.

Lemma add_inv s t : NInv s -> NInv (add s t).
Proof.
  intros [Hn Hf]. unfold add. destruct (is_present s t); [split; assumption|].
  split; cbn [refs next].
  - rewrite map_app. cbn [map rid]. apply NoDup_snoc; [exact Hn|].
    intro Hin. apply in_map_iff in Hin as [r [Hr Hin]]. rewrite Forall_forall in Hf.
    specialize (Hf r Hin). lia.
  - apply Forall_app. split.
    + eapply Forall_impl; [|exact Hf]. cbn. intros; lia.
    + constructor; [cbn; lia|constructor].
Qed.

(* ---------------------------------------------------------------------------------------------- *)
(* remove                                                                                           *)
(* ---------------------------------------------------------------------------------------------- *)
Lemma remove_subs_list s t : forall l, NoDup (map rid l) ->
  match find (matches s t) l with
  | Some r => map tgt (filter (live s) (remove_first s r l)) = spec_remove (map tgt (filter (live s) l)) t
  | None => spec_remove (map tgt (filter (live s) l)) t = map tgt (filter (live s) l)
  end.
Proof.
  induction l as [|a l IH]; intro Hn; [reflexivity|].
  cbn [map] in Hn. inversion Hn as [|? ? Hna Hd]; subst. specialize (IH Hd).
  cbn [find]. destruct (matches s t a) eqn:Ea.
  - cbn [remove_first].
    assert (Haa : wref_eqb s a a = true) by (unfold wref_eqb; rewrite Nat.eqb_refl; reflexivity).
    rewrite Haa. unfold matches in Ea. apply andb_true_iff in Ea as [El Et].
    cbn [filter]. rewrite El. cbn [map spec_remove]. rewrite Et. reflexivity.
  - destruct (find (matches s t) l) as [r|] eqn:Ef.
    + apply find_some in Ef as [Hin Hm]. unfold matches in Hm. apply andb_true_iff in Hm as [Hlr Htr].
      apply target_eqb_eq in Htr.
      assert (Hw : wref_eqb s a r = false).
      { unfold wref_eqb. apply orb_false_iff. split.
        - apply Nat.eqb_neq. intro E. apply Hna. rewrite E. apply in_map. exact Hin.
        - rewrite Hlr, Htr, andb_true_r. exact Ea. }
      cbn [remove_first]. rewrite Hw. cbn [filter].
      destruct (live s a) eqn:El; cbn [map spec_remove].
      * unfold matches in Ea. rewrite El in Ea. cbn [andb] in Ea. rewrite Ea. f_equal. exact IH.
      * exact IH.
    + cbn [filter]. destruct (live s a) eqn:El; cbn [map spec_remove].
      * unfold matches in Ea. rewrite El in Ea. cbn [andb] in Ea. rewrite Ea. f_equal. exact IH.
      * exact IH.
Qed.

Lemma remove_subs s t : NInv s -> subs (remove s t) = spec_remove (subs s) t.
Proof.
  intros [Hn _]. unfold remove, subs. pose proof (remove_subs_list s t (refs s) Hn) as H.
  destruct (find (matches s t) (refs s)) as [r|]; cbn [refs].
  - rewrite <- H. reflexivity.
  - symmetry. exact H.
Qed.

Lemma remove_inv s t : NInv s -> NInv (remove s t).
Proof.
  intros [Hn Hf]. unfold remove. destruct (find (matches s t) (refs s)); [|split; assumption].
  split; cbn [refs next]; [apply remove_first_nodup; exact Hn | apply remove_first_forall; exact Hf].
Qed.

(* ---------------------------------------------------------------------------------------------- *)
(* kill                                                                                             *)
(* ---------------------------------------------------------------------------------------------- *)
Lemma live_kill s o r : live (kill s o) r = negb (Nat.eqb (tobj (tgt r)) o) && live s r.
Proof. unfold live, is_dead, kill. cbn [dead existsb]. rewrite negb_orb. reflexivity. Qed.

Lemma kill_subs_list s o : forall l,
  map tgt (filter (live (kill s o)) l) = spec_kill (map tgt (filter (live s) l)) o.
Proof.
  unfold spec_kill. induction l as [|r l IH]; [reflexivity|].
  cbn [filter]. rewrite live_kill.
  destruct (live s r) eqn:El; [|rewrite andb_false_r; exact IH].
  rewrite andb_true_r. cbn [map filter].
  destruct (negb (Nat.eqb (tobj (tgt r)) o)); cbn [map]; [f_equal|]; exact IH.
Qed.

Lemma kill_subs s o : subs (kill s o) = spec_kill (subs s) o.
Proof. unfold subs. exact (kill_subs_list s o (refs s)). Qed.

Lemma kill_inv s o : NInv s -> NInv (kill s o).
Proof. intros [Hn Hf]. split; assumption. Qed.

(* ---------------------------------------------------------------------------------------------- *)
(* refinement of whole histories                                                                    *)
(* ---------------------------------------------------------------------------------------------- *)
Lemma nstep_inv s o : NInv s -> NInv (fst (nstep s o)).
Proof.
  intro H. destruct o as [t|t|x|]; cbn [nstep fst];
  [apply add_inv | apply remove_inv | apply kill_inv | apply notify_inv]; exact H.
Qed.

Lemma wf_dead_add s t : negb (existsb (Nat.eqb (tobj t)) (dead s)) = true -> is_dead s (tobj t) = false.
Proof. intro H. apply negb_true_iff in H. exact H. Qed.

Lemma add_dead s t : dead (add s t) = dead s.
Proof. unfold add. destruct (is_present s t); reflexivity. Qed.
Lemma remove_dead s t : dead (remove s t) = dead s.
Proof. unfold remove. destruct (find (matches s t) (refs s)); reflexivity. Qed.

Lemma refines_run : forall ops s, NInv s -> wf_from (dead s) ops = true ->
  map fst (nrun s ops) = spec_run (subs s) ops.
Proof.
  induction ops as [|o ops IH]; intros s Hi Hw; [reflexivity|].
  cbn [nrun spec_run]. pose proof (nstep_inv s o Hi) as Hi'.
  destruct o as [t|t|x|]; cbn [nstep spec_step fst] in *.
  - cbn [wf_from] in Hw. apply andb_true_iff in Hw as [Hl Hw]. cbn [map fst]. f_equal.
    rewrite <- add_subs by (apply wf_dead_add; exact Hl). apply IH; [exact Hi'|]. rewrite add_dead. exact Hw.
  - cbn [wf_from] in Hw. apply andb_true_iff in Hw as [Hl Hw]. cbn [map fst]. f_equal.
    rewrite <- remove_subs by exact Hi. apply IH; [exact Hi'|]. rewrite remove_dead. exact Hw.
  - cbn [wf_from] in Hw. cbn [map fst]. f_equal.
    rewrite <- kill_subs. apply IH; [exact Hi'|]. exact Hw.
  - cbn [wf_from] in Hw. destruct (notify_spec s Hi) as [Hc [_ [Hd _]]].
    destruct (notify s) as [s' calls] eqn:En. cbn [fst snd] in *. cbn [map fst]. subst calls. f_equal.
    rewrite <- (notify_subs s Hi). rewrite En. cbn [fst]. apply IH; [exact Hi'|]. rewrite Hd. exact Hw.
Qed.

Theorem notifier_refines_subscriptions : forall ops, wf_from [] ops = true ->
  map fst (nrun ninit ops) = spec_run [] ops.
Proof. intros ops H. apply (refines_run ops ninit ninit_inv H). Qed.

(* no dead reference survives a notification *)
Theorem notify_purges_dead s : NInv s -> Forall (fun r => live (fst (notify s)) r = true) (refs (fst (notify s))).
Proof.
  intro Hi. destruct (notify_spec s Hi) as [_ [Hr [Hd _]]]. rewrite Hr. apply Forall_forall.
  intros r Hin. apply filter_In in Hin as [_ Hl]. rewrite (live_ext s (fst (notify s)) r Hd). exact Hl.
Qed.

(* ---------------------------------------------------------------------------------------------- *)
(* what the specification says: called exactly once iff currently subscribed                         *)
(* ---------------------------------------------------------------------------------------------- *)
Fixpoint subscribed (t : target) (ops : list nop) (cur : bool) : bool :=
  match ops with
  | [] => cur
  | Add t' :: r => subscribed t r (cur || target_eqb t' t)
  | Remove t' :: r => subscribed t r (cur && negb (target_eqb t' t))
  | Kill o :: r => subscribed t r (cur && negb (Nat.eqb (tobj t) o))
  | Notify :: r => subscribed t r cur
  end.

Fixpoint spec_final (l : spec) (ops : list nop) : spec :=
  match ops with [] => l | o :: r => spec_final (fst (spec_step l o)) r end.

Definition memb (t : target) (l : spec) : bool := existsb (target_eqb t) l.

Lemma memb_in t l : memb t l = true <-> In t l.
Proof.
  unfold memb. rewrite existsb_exists. split.
  - intros [x [Hin He]]. apply target_eqb_eq in He. subst. exact Hin.
  - intro H. exists t. split; [exact H|apply target_eqb_refl].
Qed.

Lemma memb_add t l t' : memb t (spec_add l t') = memb t l || target_eqb t' t.
Proof.
  unfold spec_add. destruct (existsb (target_eqb t') l) eqn:E.
  - destruct (target_eqb t' t) eqn:Et; [|rewrite orb_false_r; reflexivity].
    apply target_eqb_eq in Et. subst. fold (memb t l) in E. rewrite E. reflexivity.
  - unfold memb. rewrite existsb_app. cbn [existsb]. rewrite orb_false_r, (target_eqb_sym t t'). reflexivity.
Qed.

Lemma add_nodup l t : NoDup l -> NoDup (spec_add l t).
Proof.
  intro H. unfold spec_add. destruct (existsb (target_eqb t) l) eqn:E; [exact H|].
  apply NoDup_snoc; [exact H|]. intro Hin. apply memb_in in Hin. unfold memb in Hin. congruence.
Qed.

Lemma spec_remove_in l t x : In x (spec_remove l t) -> In x l.
Proof.
  induction l as [|a l IH]; cbn [spec_remove]; [tauto|].
  destruct (target_eqb a t); cbn; intuition.
Qed.

Lemma remove_nodup l t : NoDup l -> NoDup (spec_remove l t).
Proof.
  induction l as [|a l IH]; cbn [spec_remove]; intro H; [constructor|].
  inversion H as [|? ? Hn Hd]; subst. destruct (target_eqb a t); [exact Hd|].
  constructor; [|apply IH; exact Hd]. intro Hin. apply Hn. eapply spec_remove_in. exact Hin.
Qed.

Lemma memb_remove l t t' : NoDup l -> memb t (spec_remove l t') = memb t l && negb (target_eqb t' t).
Proof.
  induction l as [|a l IH]; intro H; [reflexivity|].
  inversion H as [|? ? Hn Hd]; subst. specialize (IH Hd).
  cbn [spec_remove]. destruct (target_eqb a t') eqn:Ea.
  - apply target_eqb_eq in Ea. subst a. unfold memb. cbn [existsb].
    destruct (target_eqb t t') eqn:Et.
    + apply target_eqb_eq in Et. subst t'. rewrite target_eqb_refl. cbn [negb orb]. rewrite andb_false_r.
      destruct (existsb (target_eqb t) l) eqn:Em; [|reflexivity].
      exfalso. apply Hn. apply memb_in. exact Em.
    + rewrite (target_eqb_sym t' t), Et. cbn [orb negb]. rewrite andb_true_r. reflexivity.
  - unfold memb in *. cbn [existsb]. rewrite IH.
    destruct (target_eqb t a) eqn:Eta; cbn [orb]; [|reflexivity].
    apply target_eqb_eq in Eta. subst a. rewrite (target_eqb_sym t' t), Ea. reflexivity.
Qed.

Lemma memb_kill l t o : memb t (spec_kill l o) = memb t l && negb (Nat.eqb (tobj t) o).
Proof.
  unfold spec_kill, memb. induction l as [|a l IH]; [reflexivity|].
  cbn [filter existsb]. destruct (Nat.eqb (tobj a) o) eqn:Ea; cbn [negb existsb].
  - rewrite IH. destruct (target_eqb t a) eqn:Et; cbn [orb]; [|reflexivity].
    apply target_eqb_eq in Et. subst a. rewrite Ea. cbn [negb]. rewrite andb_false_r. reflexivity.
  - rewrite IH. destruct (target_eqb t a) eqn:Et; cbn [orb]; [|reflexivity].
    apply target_eqb_eq in Et. subst a. rewrite Ea. reflexivity.
Qed.

Lemma kill_nodup l o : NoDup l -> NoDup (spec_kill l o).
Proof. intro H. unfold spec_kill. apply NoDup_filter. exact H. Qed.

Lemma spec_step_nodup l o : NoDup l -> NoDup (fst (spec_step l o)).
Proof.
  intro H. destruct o as [t|t|x|]; cbn [spec_step fst];
  [apply add_nodup | apply remove_nodup | apply kill_nodup | ]; exact H.
Qed.

Lemma spec_final_nodup : forall ops l, NoDup l -> NoDup (spec_final l ops).
Proof.
  induction ops as [|o ops IH]; intros l H; [exact H|]. cbn [spec_final]. apply IH. apply spec_step_nodup. exact H.
Qed.

Lemma spec_final_memb t : forall ops l, NoDup l -> memb t (spec_final l ops) = subscribed t ops (memb t l).
Proof.
  induction ops as [|o ops IH]; intros l H; [reflexivity|].
  cbn [spec_final subscribed]. rewrite IH by (apply spec_step_nodup; exact H).
  destruct o as [t'|t'|x|]; cbn [spec_step fst].
  - rewrite memb_add. reflexivity.
  - rewrite memb_remove by exact H. reflexivity.
  - rewrite memb_kill. reflexivity.
  - reflexivity.
Qed.

Lemma count_occ_nodup (eqd : forall a b : target, {a = b} + {a <> b}) l t :
  NoDup l -> count_occ eqd l t = if memb t l then 1 else 0.
Proof.
  intro H. destruct (memb t l) eqn:E.
  - apply memb_in in E. apply NoDup_count_occ' with (decA := eqd) in E; assumption.
  - apply count_occ_not_In. intro Hin. apply memb_in in Hin. congruence.
Qed.

Lemma spec_run_last : forall ops l, last (spec_run l (ops ++ [Notify])) [] = spec_final l ops.
Proof.
  induction ops as [|o ops IH]; intro l; [reflexivity|].
  cbn [app spec_run spec_final]. destruct (spec_step l o) as [l' out] eqn:E. cbn [fst].
  specialize (IH l'). destruct (spec_run l' (ops ++ [Notify])) eqn:Er.
  - exfalso. destruct ops as [|o' ops']; cbn [app spec_run spec_step] in Er; [discriminate|].
    destruct (spec_step l' o'); discriminate.
  - cbn [last]. cbn [last] in IH. exact IH.
Qed.

Lemma wf_app_notify : forall ops d, wf_from d ops = true -> wf_from d (ops ++ [Notify]) = true.
Proof.
  induction ops as [|o ops IH]; intros d H; [reflexivity|].
  destruct o as [t|t|x|]; cbn [app wf_from] in *.
  - apply andb_true_iff in H as [H1 H2]. rewrite H1. cbn [andb]. apply IH. exact H2.
  - apply andb_true_iff in H as [H1 H2]. rewrite H1. cbn [andb]. apply IH. exact H2.
  - apply IH. exact H.
  - apply IH. exact H.
Qed.

(* after ANY well-formed history, a notification calls callback t exactly once if t is subscribed
   (added, not removed since, owner not collected) and not at all otherwise *)
Theorem notify_calls_exactly_the_subscribed :
  forall (eqd : forall a b : target, {a = b} + {a <> b}) ops t, wf_from [] ops = true ->
  count_occ eqd (last (map fst (nrun ninit (ops ++ [Notify]))) []) t = if subscribed t ops false then 1 else 0.
Proof.
  intros eqd ops t H.
  rewrite notifier_refines_subscriptions by (apply wf_app_notify; exact H).
  rewrite spec_run_last.
  rewrite count_occ_nodup by (apply spec_final_nodup; constructor).
  rewrite spec_final_memb by constructor. reflexivity.
Qed.

(* the variant that purges while iterating loses a notification: one dead reference followed by a
   live one, and the live one is not called *)
Lemma purging_variant_skips :
  let s := {| refs := [ {| rid := 0; tgt := Meth 0 0 |}; {| rid := 1; tgt := Meth 1 0 |} ]; dead := [0]; next := 2 |} in
  snd (notify s) = [Meth 1 0] /\ snd (notify_purging s) = [].
Proof. split; vm_compute; reflexivity. Qed.

Lemma nfinal_inv : forall ops s, NInv s -> NInv (nfinal s ops).
Proof.
  induction ops as [|o ops IH]; intros s H; [exact H|]. cbn [nfinal]. apply IH. apply nstep_inv. exact H.
Qed.

(* in every reachable state, a notification leaves no dead reference behind *)
Theorem reachable_notify_purges_dead : forall ops,
  let s' := fst (notify (nfinal ninit ops)) in Forall (fun r => live s' r = true) (refs s').
Proof. intros ops. apply notify_purges_dead. apply nfinal_inv. exact ninit_inv. Qed.
