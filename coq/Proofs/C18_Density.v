(* C18: the energy density of the three Gaussian profiles is the pulse normalisation times a product
   of normal probability densities (algebra, for every exp with exp(a+b) = exp a exp b and every
   sqrt with sqrt(v)^2 = v), hence integrates to E/(c tau) over the cross-section at every z (to E
   over the volume for the pulsed Gaussian) for every integral functional that is linear,
   translation invariant and integrates the normal density to one. *)
Require Import Cherab.Common.Qx.
Require Import Cherab.Model.C18_Laser Cherab.Proofs.C18_Profile.
From Coq Require Import Qround Qabs Lqa.
Open Scope Q_scope.

Lemma sq_inj (u w : Q) : 0 < u -> 0 < w -> u * u == w * w -> u == w.
Proof.
  intros Hu Hw H.
  assert (E : (u - w) * (u + w) == 0) by (ring_simplify; rewrite H; ring).
  destruct (Qmult_integral _ _ E) as [E1|E1]; lra.
Qed.

Ltac pos := repeat apply Qmult_lt_0_compat; try lra; try assumption.

Section Density.
Variable pi : Q.
Variable s2pi3 : Q.
Variable expo : Q -> Q.
Variable sqrtf : Q -> Q.
Hypothesis Hpi : 0 < pi.
Hypothesis Hexp_add : forall a b, expo (a + b) == expo a * expo b.
Hypothesis Hexp_ext : forall a b, a == b -> expo a == expo b.
(* [sqrtf] is only required to be the positive square root at the points where it is used (a
   function with sqrtf v * sqrtf v == v for every positive rational v does not exist) *)
Definition sqrt_at (v : Q) : Prop := sqrtf v * sqrtf v == v /\ 0 < sqrtf v.
Hypothesis Hs3 : s2pi3 * s2pi3 == (2 * pi) * (2 * pi) * (2 * pi).
Hypothesis Hs3_pos : 0 < s2pi3.

(* density of the normal distribution with mean 0 and variance v *)
Definition phi (v t : Q) : Q := 1 / sqrtf (2 * pi * v) * expo (- (t * t) / (2 * v)).

Lemma sq_pos x : ~ x == 0 -> 0 < sq x.
Proof.
  intro H. unfold sq. destruct (Q_dec x 0) as [[H1|H1]|H1]; [| apply Qmult_lt_0_compat; lra | contradiction].
  setoid_replace (x * x) with ((- x) * (- x)) by ring. apply Qmult_lt_0_compat; lra.
Qed.

Lemma sqrt_prod2 a b : 0 < a -> 0 < b -> sqrt_at (2 * pi * sq a) -> sqrt_at (2 * pi * sq b) ->
  sqrtf (2 * pi * sq a) * sqrtf (2 * pi * sq b) == 2 * pi * a * b.
Proof.
  intros Ha Hb [Sa Qa] [Sb Qb].
  apply sq_inj; [pos | pos |].
  transitivity ((sqrtf (2 * pi * sq a) * sqrtf (2 * pi * sq a)) * (sqrtf (2 * pi * sq b) * sqrtf (2 * pi * sq b))); [ring|].
  rewrite Sa, Sb. unfold sq. ring.
Qed.

Theorem biv_factor sx sy x y : 0 < sx -> 0 < sy -> sqrt_at (2 * pi * sq sx) -> sqrt_at (2 * pi * sq sy) ->
  biv_eval pi expo sx sy x y == phi (sq sx) x * phi (sq sy) y.
Proof.
  intros Hx Hy Ax Ay. unfold biv_eval, phi.
  pose proof (sqrt_prod2 sx sy Hx Hy Ax Ay) as S. destruct Ax as [_ Qx]. destruct Ay as [_ Qy].
  rewrite Hexp_add.
  rewrite (Hexp_ext (sq x * (-1 / (2 * sq sx))) (- (x * x) / (2 * sq sx))) by (unfold sq; field; lra).
  rewrite (Hexp_ext (sq y * (-1 / (2 * sq sy))) (- (y * y) / (2 * sq sy))) by (unfold sq; field; lra).
  set (ex := expo (- (x * x) / (2 * sq sx))). set (ey := expo (- (y * y) / (2 * sq sy))).
  transitivity (1 / (sqrtf (2 * pi * sq sx) * sqrtf (2 * pi * sq sy)) * (ex * ey)).
  - rewrite S. reflexivity.
  - field. split; lra.
Qed.

Lemma beam_var_pos wl wz sw z : 0 < sw -> 0 < beam_var pi wl wz sw z.
Proof.
  intro H. unfold beam_var, sq.
  set (u := (z - wz) / rayleigh pi wl sw).
  assert (0 <= u * u) by (destruct (Qlt_le_dec u 0); [setoid_replace (u * u) with ((- u) * (- u)) by ring|]; apply Qmult_le_0_compat; lra).
  apply Qmult_lt_0_compat; [pos | lra].
Qed.

Theorem beam_factor wl wz sw x y z : 0 < sw -> sqrt_at (2 * pi * beam_var pi wl wz sw z) ->
  beam_eval pi expo wl wz sw x y z ==
  phi (beam_var pi wl wz sw z) x * phi (beam_var pi wl wz sw z) y.
Proof.
  intros Hs [S Qp]. pose proof (beam_var_pos wl wz sw z Hs) as Hv. unfold beam_eval, phi.
  set (v := beam_var pi wl wz sw z) in *.
  rewrite (Hexp_ext ((sq x + sq y) / (-2 * v)) (- (x * x) / (2 * v) + - (y * y) / (2 * v))) by (unfold sq; field; lra).
  rewrite Hexp_add.
  set (ex := expo (- (x * x) / (2 * v))). set (ey := expo (- (y * y) / (2 * v))).
  transitivity (1 / (sqrtf (2 * pi * v) * sqrtf (2 * pi * v)) * (ex * ey)).
  - rewrite S. reflexivity.
  - field. lra.
Qed.

Theorem tri_factor m sx sy sz x y z : 0 < sx -> 0 < sy -> 0 < sz ->
  sqrt_at (2 * pi * sq sx) -> sqrt_at (2 * pi * sq sy) -> sqrt_at (2 * pi * sq sz) ->
  tri_eval s2pi3 expo m sx sy sz x y z == phi (sq sx) x * phi (sq sy) y * phi (sq sz) (z - m).
Proof.
  intros Hx Hy Hz [Sx Qx] [Sy Qy] [Sz Qz]. unfold tri_eval, phi.
  set (a := sqrtf (2 * pi * sq sx)) in *. set (b := sqrtf (2 * pi * sq sy)) in *. set (d := sqrtf (2 * pi * sq sz)) in *.
  assert (S : s2pi3 * sx * sy * sz == a * b * d).
  { apply sq_inj.
    - repeat apply Qmult_lt_0_compat; assumption.
    - repeat apply Qmult_lt_0_compat; assumption.
    - transitivity ((s2pi3 * s2pi3) * (sx * sx) * (sy * sy) * (sz * sz)); [ring|].
      transitivity ((a * a) * (b * b) * (d * d)); [|ring].
      rewrite Hs3, Sx, Sy, Sz. unfold sq. ring. }
  rewrite !Hexp_add.
  rewrite (Hexp_ext (sq x * (-1 / (2 * sq sx))) (- (x * x) / (2 * sq sx))) by (unfold sq; field; lra).
  rewrite (Hexp_ext (sq y * (-1 / (2 * sq sy))) (- (y * y) / (2 * sq sy))) by (unfold sq; field; lra).
  rewrite (Hexp_ext (sq (z - m) * (-1 / (2 * sq sz))) (- ((z - m) * (z - m)) / (2 * sq sz))) by (unfold sq; field; lra).
  set (ex := expo (- (x * x) / (2 * sq sx))). set (ey := expo (- (y * y) / (2 * sq sy))).
  set (ez := expo (- ((z - m) * (z - m)) / (2 * sq sz))).
  transitivity (1 / (a * b * d) * (ex * ey * ez)).
  - rewrite S. reflexivity.
  - field. repeat split; lra.
Qed.

(* value of get_energy_density (0 when no function is installed) *)
Definition ed_of (f : edfun) (x y z : Q) : Q :=
  match ed_eval pi s2pi3 expo f x y z with Some e => e | None => 0 end.

Lemma valid_pos k v f : valid k v = true -> In f (positive_fields k) -> 0 < get f v.
Proof.
  intros Hv Hf. pose proof (valid_tests k v Hv f Hf) as T.
  apply Qnot_le_lt. intro H. apply Qle_bool_iff in H. congruence.
Qed.

(* statements about the object returned by the constructor (hence, by profile_history_independent,
   about the object after any setter history, with the reported parameters as arguments) *)
Lemma construct_efun c k a s : construct c k a = Some s ->
  efun s = fresh_fun c k (a_vals a) /\ valid k (a_vals a) = true.
Proof.
  intro H. destruct (constructor_reports_arguments c k a s H) as (_ & _ & _ & E & _).
  split; [exact E|]. destruct a as [v p]. exact (proj1 (construct_some_valid c k v p s H)).
Qed.

Theorem bivariate_density c a s x y z : construct c KBiv a = Some s ->
  let v := a_vals a in
  sqrt_at (2 * pi * sq (v_sx v)) -> sqrt_at (2 * pi * sq (v_sy v)) ->
  ed_of (efun s) x y z == v_pe v / (c * v_pl v) * (phi (sq (v_sx v)) x * phi (sq (v_sy v)) y).
Proof.
  intros H v Ax Ay. destruct (construct_efun c KBiv a s H) as [E Hv]. rewrite E.
  assert (Hx := valid_pos _ _ Fsx Hv ltac:(cbn; tauto)). assert (Hy := valid_pos _ _ Fsy Hv ltac:(cbn; tauto)).
  cbn [get] in Hx, Hy. cbn [fresh_fun]. unfold ed_of. cbn [ed_eval]. fold v.
  rewrite (biv_factor (v_sx v) (v_sy v) x y Hx Hy Ax Ay). reflexivity.
Qed.

Theorem beam_density c a s x y z : construct c KBeam a = Some s ->
  let v := a_vals a in
  let var := beam_var pi (v_wl v) (v_wz v) (v_sw v) z in
  sqrt_at (2 * pi * var) ->
  ed_of (efun s) x y z == v_pe v / (c * v_pl v) * (phi var x * phi var y).
Proof.
  intros H v var A. destruct (construct_efun c KBeam a s H) as [E Hv]. rewrite E.
  assert (Hs := valid_pos _ _ Fsw Hv ltac:(cbn; tauto)). cbn [get] in Hs.
  cbn [fresh_fun]. unfold ed_of. cbn [ed_eval]. fold v.
  rewrite (beam_factor (v_wl v) (v_wz v) (v_sw v) x y z Hs A). reflexivity.
Qed.

Theorem trivariate_density c a s x y z : 0 < c -> construct c KTri a = Some s ->
  let v := a_vals a in
  sqrt_at (2 * pi * sq (v_sx v)) -> sqrt_at (2 * pi * sq (v_sy v)) -> sqrt_at (2 * pi * sq (v_pl v * c)) ->
  ed_of (efun s) x y z ==
  v_pe v * (phi (sq (v_sx v)) x * phi (sq (v_sy v)) y * phi (sq (v_pl v * c)) (z - v_mz v)).
Proof.
  intros Hc H v Ax Ay Az. destruct (construct_efun c KTri a s H) as [E Hv]. rewrite E.
  assert (Hx := valid_pos _ _ Fsx Hv ltac:(cbn; tauto)). assert (Hy := valid_pos _ _ Fsy Hv ltac:(cbn; tauto)).
  assert (Hl := valid_pos _ _ Fpl Hv ltac:(cbn; tauto)). cbn [get] in Hx, Hy, Hl.
  assert (Hz : 0 < v_pl v * c) by (apply Qmult_lt_0_compat; assumption).
  cbn [fresh_fun]. unfold ed_of. cbn [ed_eval]. fold v.
  rewrite (tri_factor (v_mz v) (v_sx v) (v_sy v) (v_pl v * c) x y z Hx Hy Hz Ax Ay Az). reflexivity.
Qed.

Section Integral.
(* PARTIAL.  J stands for the integral over the real line.  All that is assumed about it: it respects
   pointwise equality, a constant factor can be pulled out, and the two or three normal densities that
   actually occur in the profile at hand integrate to one ([norm_at], together with the exactness of
   the square root at these points).  No hypothesis quantifies over all variances, no translation
   invariance is assumed (only the shifted density of the pulsed Gaussian itself).
   What remains unproved: that the Lebesgue integral is such a J (the Gaussian integral) and that the
   iterated integral is the area / volume integral (Fubini). *)
Variable J : (Q -> Q) -> Q.
Hypothesis J_ext : forall f g, (forall t, f t == g t) -> J f == J g.
Hypothesis J_lin : forall k f, J (fun t => k * f t) == k * J f.

Definition norm_at (v : Q) : Prop := J (phi v) == 1 /\ sqrt_at (2 * pi * v).

Lemma J_scaled k v : J (phi v) == 1 -> J (fun t => k * phi v t) == k.
Proof. intro H. rewrite J_lin, H. ring. Qed.

Lemma J_two n a b : J (phi a) == 1 -> J (phi b) == 1 ->
  J (fun x => J (fun y => n * (phi a x * phi b y))) == n.
Proof.
  intros Ha Hb.
  rewrite (J_ext _ (fun x => n * phi a x)).
  - apply J_scaled; assumption.
  - intro x. rewrite (J_ext _ (fun y => (n * phi a x) * phi b y)) by (intro; ring).
    apply J_scaled; assumption.
Qed.

(* the normalisation facts needed for the cross-section at axial position z *)
Definition cross_hyps (k : pkind) (v : pvals) (z : Q) : Prop :=
  match k with
  | KBiv => norm_at (sq (v_sx v)) /\ norm_at (sq (v_sy v))
  | KBeam => norm_at (beam_var pi (v_wl v) (v_wz v) (v_sw v) z)
  | _ => True
  end.

(* cross-section integral = E / (c tau) at every axial position z, for ConstantBivariateGaussian and
   GaussianBeamAxisymmetric *)
Theorem cross_section_integral_partial c k v z : (k = KBiv \/ k = KBeam) -> valid k v = true -> cross_hyps k v z ->
  J (fun x => J (fun y => ed_of (fresh_fun c k v) x y z)) == v_pe v / (c * v_pl v).
Proof.
  intros [-> | ->] Hv Hn; cbn [cross_hyps] in Hn.
  - destruct Hn as [[Na Aa] [Nb Ab]].
    assert (Hx := valid_pos _ _ Fsx Hv ltac:(cbn; tauto)). assert (Hy := valid_pos _ _ Fsy Hv ltac:(cbn; tauto)).
    cbn [get] in Hx, Hy. cbn [fresh_fun]. unfold ed_of. cbn [ed_eval].
    rewrite (J_ext _ (fun x => J (fun y => v_pe v / (c * v_pl v) * (phi (sq (v_sx v)) x * phi (sq (v_sy v)) y)))).
    + apply J_two; assumption.
    + intro x. apply J_ext. intro y. rewrite (biv_factor (v_sx v) (v_sy v) x y Hx Hy Aa Ab). reflexivity.
  - destruct Hn as [Na Aa].
    assert (Hs := valid_pos _ _ Fsw Hv ltac:(cbn; tauto)). cbn [get] in Hs.
    cbn [fresh_fun]. unfold ed_of. cbn [ed_eval].
    rewrite (J_ext _ (fun x => J (fun y => v_pe v / (c * v_pl v) *
               (phi (beam_var pi (v_wl v) (v_wz v) (v_sw v) z) x * phi (beam_var pi (v_wl v) (v_wz v) (v_sw v) z) y)))).
    + apply J_two; assumption.
    + intro x. apply J_ext. intro y.
      rewrite (beam_factor (v_wl v) (v_wz v) (v_sw v) x y z Hs Aa). reflexivity.
Qed.

(* TrivariateGaussian (sigma_z = tau c): the integral over the whole volume = E *)
Definition volume_hyps (c : Q) (v : pvals) : Prop :=
  norm_at (sq (v_sx v)) /\ norm_at (sq (v_sy v)) /\ sqrt_at (2 * pi * sq (v_pl v * c)) /\
  J (fun t => phi (sq (v_pl v * c)) (t - v_mz v)) == 1.      (* the density N(mean_z, sigma_z^2) integrates to one *)

Theorem trivariate_volume_integral_partial c v : 0 < c -> valid KTri v = true -> volume_hyps c v ->
  J (fun x => J (fun y => J (fun z => ed_of (fresh_fun c KTri v) x y z))) == v_pe v.
Proof.
  intros Hc Hv ([Na Aa] & [Nb Ab] & Az & Nz).
  assert (Hx := valid_pos _ _ Fsx Hv ltac:(cbn; tauto)). assert (Hy := valid_pos _ _ Fsy Hv ltac:(cbn; tauto)).
  assert (Hl := valid_pos _ _ Fpl Hv ltac:(cbn; tauto)). cbn [get] in Hx, Hy, Hl.
  assert (Hz : 0 < v_pl v * c) by (apply Qmult_lt_0_compat; assumption).
  cbn [fresh_fun]. unfold ed_of. cbn [ed_eval].
  rewrite (J_ext _ (fun x => J (fun y => v_pe v * (phi (sq (v_sx v)) x * phi (sq (v_sy v)) y)))).
  - apply J_two; assumption.
  - intro x. apply J_ext. intro y.
    set (K := v_pe v * (phi (sq (v_sx v)) x * phi (sq (v_sy v)) y)).
    transitivity (J (fun z => K * phi (sq (v_pl v * c)) (z - v_mz v))).
    + apply J_ext. intro z. unfold K.
      rewrite (tri_factor (v_mz v) (v_sx v) (v_sy v) (v_pl v * c) x y z Hx Hy Hz Aa Ab Az). ring.
    + rewrite (J_lin K (fun z => phi (sq (v_pl v * c)) (z - v_mz v))), Nz. ring.
Qed.

Theorem cross_section_of_constructed c k a s z : (k = KBiv \/ k = KBeam) -> construct c k a = Some s ->
  cross_hyps k (a_vals a) z ->
  J (fun x => J (fun y => ed_of (efun s) x y z)) == v_pe (a_vals a) / (c * v_pl (a_vals a)).
Proof.
  intros Hk H Hn. destruct (construct_efun c k a s H) as [E Hv]. rewrite E.
  apply cross_section_integral_partial; assumption.
Qed.

Theorem volume_of_constructed c a s : 0 < c -> construct c KTri a = Some s -> volume_hyps c (a_vals a) ->
  J (fun x => J (fun y => J (fun z => ed_of (efun s) x y z))) == v_pe (a_vals a).
Proof.
  intros Hc H Hn. destruct (construct_efun c KTri a s H) as [E Hv]. rewrite E.
  apply trivariate_volume_integral_partial; assumption.
Qed.

End Integral.
End Density.
