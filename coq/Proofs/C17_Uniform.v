(* point_triangle distributes the grid variates (m1/N, m2/N) over the corner regions of a triangle in proportion to
   their areas, up to 3/N: for sqrt any function with sqrt u <= t <-> u <= t^2 on the non-negative rationals. *)
Require Import Cherab.Common.Qx.
Require Import Cherab.Model.C17_Voxels Cherab.Proofs.C17_Select Cherab.Proofs.C17_Discrete.
From Coq Require Import Qabs Qround Lqa.
Open Scope Q_scope.

(* the region is a triangle of area s t^2 times the area of (a, b, c) *)
Lemma corner_region_area t s a b c :
  let '(p, q, r) := corner_region t s a b c in tri2 p q r == s * t * t * tri2 a b c.
Proof. unfold corner_region, tri2, px, py. cbn [fst snd]. ring. Qed.

(* the sample point with (temp, u2) has barycentric coordinates in the region iff temp <= t and u2 <= s *)
Lemma sample_in_corner_region t s temp u2 : 0 < temp ->
  let '(al, be, ga) := bary temp u2 in (1 - t <= al /\ be <= s * (1 - al)) <-> (temp <= t /\ u2 <= s).
Proof.
  intros Ht. unfold bary. cbv beta iota zeta. split; intros [H1 H2]; split; try lra.
  - assert (E : s * (1 - (1 - temp)) == s * temp) by ring. rewrite E in H2.
    assert (H3 : u2 * temp <= s * temp) by exact H2. apply Qmult_le_r in H3; assumption.
  - assert (E : s * (1 - (1 - temp)) == s * temp) by ring. rewrite E. apply Qmult_le_r; assumption.
Qed.

(* ---- counting ------------------------------------------------------------------------------------------------ *)
Lemma filter_pair_length {A B} (P : A -> bool) (Q : B -> bool) a l2 :
  length (filter (fun p => P (fst p) && Q (snd p)) (map (pair a) l2)) = if P a then length (filter Q l2) else O.
Proof.
  induction l2 as [|b l2 IH]; cbn [map filter fst snd]; [destruct (P a); reflexivity|].
  destruct (P a) eqn:Ea; cbn [andb].
  - destruct (Q b); cbn [length]; rewrite IH; reflexivity.
  - exact IH.
Qed.

Lemma filter_prod_length {A B} (P : A -> bool) (Q : B -> bool) l1 l2 :
  length (filter (fun p => P (fst p) && Q (snd p)) (list_prod l1 l2)) = (length (filter P l1) * length (filter Q l2))%nat.
Proof.
  induction l1 as [|a l1 IH]; [reflexivity|].
  cbn [list_prod]. rewrite filter_app, app_length, IH, filter_pair_length. cbn [filter].
  destruct (P a); cbn [length]; lia.
Qed.

Lemma floor_int_le x (m : Z) : inject_Z m <= x <-> (m < Qfloor x + 1)%Z.
Proof.
  split; intro H.
  - destruct (Z_lt_ge_dec m (Qfloor x + 1)) as [Hl|Hg]; [exact Hl|].
    pose proof (Qlt_floor x) as H1. assert (inject_Z (Qfloor x + 1) <= inject_Z m) by (rewrite <- Zle_Qle; lia). lra.
  - pose proof (Qfloor_le x) as H1. assert (inject_Z m <= inject_Z (Qfloor x)) by (rewrite <- Zle_Qle; lia). lra.
Qed.

(* number of grid values m/N (m < N) below a bound x in [0, 1) *)
Lemma count_below (P : nat -> bool) N x : (0 < N)%nat -> 0 <= x -> x < 1 ->
  (forall m, (m < N)%nat -> (P m = true <-> grid_u N m <= x)) ->
  Z.of_nat (length (filter P (seq 0 N))) = (Qfloor (x * inject_Z (Z.of_nat N)) + 1)%Z.
Proof.
  intros HN H0 H1 HP. pose proof (Nq_pos N HN) as Hq. set (Nq := inject_Z (Z.of_nat N)) in *.
  rewrite (count_interval P N 0 (Qfloor (x * Nq) + 1)).
  - lia.
  - split; [lia|]. assert (0 <= Qfloor (x * Nq))%Z; [|lia].
    change 0%Z with (Qfloor 0). apply Qfloor_resp_le. nra.
  - assert (H : (Qfloor (x * Nq) < Z.of_nat N)%Z); [|lia].
    rewrite Zlt_Qlt. apply Qle_lt_trans with (x * Nq); [apply Qfloor_le|]. fold Nq. nra.
  - intros m Hm. rewrite (HP m Hm). unfold grid_u. fold Nq.
    rewrite <- floor_int_le. split; intro H.
    + split; [lia|].
      assert (E : inject_Z (Z.of_nat m) == inject_Z (Z.of_nat m) / Nq * Nq) by (field; lra).
      rewrite E. apply (proj2 (Qmult_le_r _ _ _ Hq)). exact H.
    + destruct H as [_ H]. apply Qle_shift_div_r; assumption.
Qed.

Section Uniform.
  Variable sqrt : Q -> Q.
  (* the order property of a square root, required only at the grid values and the bound t in question (no function
     Q -> Q has it for all rational arguments; a correctly rounded sqrt has it at the values it is asked) *)
  Definition sqrt_spec_at (N : nat) (t : Q) : Prop :=
    forall m, (m < N)%nat -> (sqrt (grid_u N m) <= t <-> grid_u N m <= t * t).

  Lemma grid_u_nonneg N m : (0 < N)%nat -> 0 <= grid_u N m.
  Proof.
    intros HN. pose proof (Nq_pos N HN). unfold grid_u. apply Qle_shift_div_l; [assumption|].
    assert (0 <= inject_Z (Z.of_nat m)) by (change 0 with (inject_Z 0); rewrite <- Zle_Qle; lia). lra.
  Qed.

  Lemma corner_hits_count N t s : sqrt_spec_at N t -> (0 < N)%nat -> 0 <= t -> t < 1 -> 0 <= s -> s < 1 ->
    Z.of_nat (corner_hits sqrt N t s) =
    ((Qfloor (t * t * inject_Z (Z.of_nat N)) + 1) * (Qfloor (s * inject_Z (Z.of_nat N)) + 1))%Z.
  Proof.
    intros sqrt_spec HN Ht0 Ht1 Hs0 Hs1. unfold corner_hits, in_corner_region.
    rewrite (filter_prod_length (fun m => Qle_bool (sqrt (grid_u N m)) t) (fun m => Qle_bool (grid_u N m) s)).
    rewrite Nat2Z.inj_mul. f_equal.
    - apply count_below; [exact HN | nra | nra |].
      intros m Hm. rewrite Qle_bool_iff. apply sqrt_spec. exact Hm.
    - apply count_below; [exact HN | exact Hs0 | exact Hs1 |].
      intros m Hm. apply Qle_bool_iff.
  Qed.

  (* the fraction of grid pairs landing in the region is within 3/N of the region's area fraction s t^2 *)
  Lemma corner_hits_close N t s : sqrt_spec_at N t -> (0 < N)%nat -> 0 <= t -> t < 1 -> 0 <= s -> s < 1 ->
    let Nq := inject_Z (Z.of_nat N) in
    0 <= inject_Z (Z.of_nat (corner_hits sqrt N t s)) / (Nq * Nq) - s * t * t <= 3 / Nq.
  Proof.
    intros Hsp HN Ht0 Ht1 Hs0 Hs1 Nq. rewrite corner_hits_count by assumption. fold Nq.
    pose proof (Nq_pos N HN) as Hq. fold Nq in Hq.
    rewrite inject_Z_mult, !inject_Z_plus. change (inject_Z 1) with 1.
    pose proof (Qfloor_le (t * t * Nq)) as A1. pose proof (Qlt_floor (t * t * Nq)) as A2.
    pose proof (Qfloor_le (s * Nq)) as B1. pose proof (Qlt_floor (s * Nq)) as B2.
    rewrite inject_Z_plus in A2, B2. change (inject_Z 1) with 1 in *.
    set (fa := inject_Z (Qfloor (t * t * Nq))) in *. set (fb := inject_Z (Qfloor (s * Nq))) in *.
    assert (Hfa : 0 <= fa + 1) by nra. assert (Hfb : 0 <= fb + 1) by nra.
    assert (E : (fa + 1) * (fb + 1) / (Nq * Nq) - s * t * t == ((fa + 1) * (fb + 1) - (t * t * Nq) * (s * Nq)) / (Nq * Nq))
      by (field; lra).
    rewrite E. assert (Hqq : 0 < Nq * Nq) by nra.
    assert (U1 : fa + 1 <= t * t * Nq + 1) by lra. assert (U2 : fb + 1 <= s * Nq + 1) by lra.
    assert (L1 : t * t * Nq <= fa + 1) by lra. assert (L2 : s * Nq <= fb + 1) by lra.
    assert (P1 : 0 <= t * t * Nq) by nra. assert (P2 : 0 <= s * Nq) by nra.
    assert (TT : t * t <= 1) by nra. assert (TT0 : 0 <= t * t) by nra.
    assert (Q1 : t * t * Nq <= Nq) by (apply Qle_trans with (1 * Nq); [apply Qmult_le_compat_r; lra | lra]).
    assert (Q2 : s * Nq <= Nq) by (apply Qle_trans with (1 * Nq); [apply Qmult_le_compat_r; lra | lra]).
    assert (One : 1 <= Nq).
    { unfold Nq. change 1 with (inject_Z 1). rewrite <- Zle_Qle. lia. }
    split.
    - apply Qle_shift_div_l; [exact Hqq|]. assert ((t * t * Nq) * (s * Nq) <= (fa + 1) * (fb + 1)) by nra. lra.
    - apply Qle_shift_div_r; [exact Hqq|].
      assert (E3 : 3 / Nq * (Nq * Nq) == 3 * Nq) by (field; lra). rewrite E3.
      assert ((fa + 1) * (fb + 1) <= (t * t * Nq + 1) * (s * Nq + 1)) by nra. nra.
  Qed.
End Uniform.

(* the hypothesis is satisfiable: a table square root on the 4-point grid and t = 1/2 *)
Definition sqrt4 (u : Q) : Q :=
  if Qeq_bool u 0 then 0 else if Qeq_bool u (1 # 4) then 1 # 2 else if Qeq_bool u (1 # 2) then 7 # 10 else 87 # 100.
Lemma sqrt4_spec : sqrt_spec_at sqrt4 4 (1 # 2) /\ corner_hits sqrt4 4 (1 # 2) (1 # 2) = 6%nat.
Proof.
  split; [|vm_compute; reflexivity].
  intros m Hm. assert (m = 0 \/ m = 1 \/ m = 2 \/ m = 3)%nat as [E|[E|[E|E]]] by lia; subst m; vm_compute; split; intro H; try exact H; try discriminate; congruence.
Qed.
