(* Lemmas about TotalRadiatedPower and RadiationFunction (Model/C03_Passive.v). *)
Require Import Cherab.Common.Qx Cherab.Model.C03_Passive Cherab.Proofs.C03_Lines.
From Coq Require Import Lqa.
Open Scope Q_scope.

Lemma pos_true x : 0 < x -> pos x = true.
Proof. intro H; unfold pos; rewrite (pos_false x H); reflexivity. Qed.
Lemma pos_nonpos x : x <= 0 -> pos x = false.
Proof. intro H; unfold pos; rewrite (nonpos_true x H); reflexivity. Qed.
Lemma pos_spec x : pos x = true -> 0 < x.
Proof. unfold pos; intro H. apply negb_true_iff in H. apply Qle_bool_false; exact H. Qed.

Lemma hyd_density_sum hyd comp : hyd_density hyd comp == Qsum (map (dens_or_0 comp) hyd).
Proof.
  unfold hyd_density.
  assert (G : forall a, fold_left (fun acc h => match comp_get comp h 0 with Some s => acc + s_dens s | None => acc end) hyd a
                  == a + Qsum (map (dens_or_0 comp) hyd)).
  { induction hyd as [|h t IH]; intro a; cbn [fold_left map Qsum]; [ring|].
    rewrite IH. unfold dens_or_0 at 2. destruct (comp_get comp h 0); ring. }
  rewrite G. ring.
Qed.

Lemma power_term_off rate ne te f : power_term rate ne te false f == 0.
Proof. unfold power_term; destruct rate; reflexivity. Qed.
Lemma power_term_on rate ne te f : power_term rate ne te true f == coef rate ne te * f.
Proof. unfold power_term, coef; destruct rate; ring. Qed.

(* the documented expression *)
Lemma total_power_density_formula P e c ne te ni nup nhyd :
  0 < ni -> 0 < nup -> 0 < nhyd ->
  total_power_density P e c ne te ni nup nhyd ==
    ni * ne * coef (plt_rate P e c) ne te + nup * ne * coef (prb_rate P e (c + 1)) ne te
    + nup * nhyd * coef (prc_rate P e (c + 1)) ne te.
Proof.
  intros H1 H2 H3. unfold total_power_density, exc_term, rec_term, cx_term.
  rewrite (pos_true ni H1), (pos_true nup H2), (pos_true nhyd H3). cbn [andb].
  rewrite !power_term_on. ring.
Qed.

Lemma total_power_emit P hyd e c znum ne te comp minw maxw sp up :
  (0 <= c < znum)%Z -> comp_get comp e c = Some sp -> comp_get comp e (c + 1) = Some up ->
  0 < ne -> 0 < te ->
  total_power_radiance P hyd e c znum ne te comp minw maxw =
  Emit (k4pi * total_power_density P e c ne te (s_dens sp) (s_dens up) (hyd_density hyd comp) / (maxw - minw)).
Proof.
  intros Hc G1 G2 H1 H2. unfold total_power_radiance.
  assert (Z.leb 0 c && Z.ltb c znum = true) as ->.
  { apply andb_true_iff; split; [apply Z.leb_le|apply Z.ltb_lt]; lia. }
  cbn [negb]. rewrite G1, G2, (pos_false ne H1), (pos_false te H2). reflexivity.
Qed.

Lemma total_power_formula P hyd e c znum ne te comp minw maxw sp up :
  (0 <= c < znum)%Z -> comp_get comp e c = Some sp -> comp_get comp e (c + 1) = Some up ->
  0 < ne -> 0 < te -> 0 < s_dens sp -> 0 < s_dens up -> 0 < Qsum (map (dens_or_0 comp) hyd) -> minw < maxw ->
  emitted (total_power_radiance P hyd e c znum ne te comp minw maxw) ==
  k4pi / (maxw - minw) *
    (s_dens sp * ne * coef (plt_rate P e c) ne te + s_dens up * ne * coef (prb_rate P e (c + 1)) ne te
     + s_dens up * Qsum (map (dens_or_0 comp) hyd) * coef (prc_rate P e (c + 1)) ne te).
Proof.
  intros Hc G1 G2 H1 H2 H3 H4 H5 Hw.
  rewrite (total_power_emit P hyd e c znum ne te comp minw maxw sp up) by assumption. cbn [emitted].
  assert (Hh : 0 < hyd_density hyd comp) by (rewrite hyd_density_sum; exact H5).
  rewrite total_power_density_formula by assumption.
  rewrite hyd_density_sum. field. lra.
Qed.

Lemma total_power_skip P hyd e c znum ne te comp minw maxw :
  ne <= 0 \/ te <= 0 ->
  emitted (total_power_radiance P hyd e c znum ne te comp minw maxw) == 0.
Proof.
  intros H. unfold total_power_radiance.
  destruct (negb _); [reflexivity|].
  destruct (comp_get comp e c); [|reflexivity].
  destruct (comp_get comp e (c + 1)); [|reflexivity].
  destruct (Qle_bool ne 0) eqn:E1; [reflexivity|].
  destruct (Qle_bool te 0) eqn:E2; [reflexivity|].
  apply Qle_bool_false in E1, E2. destruct H; lra.
Qed.

(* each term vanishes when a density it depends on is non-positive *)
Lemma total_power_terms_zero P e c ne te ni nup nhyd :
  (ni <= 0 -> exc_term P e c ne te ni == 0) /\
  (nup <= 0 -> rec_term P e c ne te nup == 0 /\ cx_term P e c ne te nup nhyd == 0) /\
  (nhyd <= 0 -> cx_term P e c ne te nup nhyd == 0).
Proof.
  unfold exc_term, rec_term, cx_term. split; [|split].
  - intro H. rewrite (pos_nonpos _ H). apply power_term_off.
  - intro H. rewrite (pos_nonpos _ H). cbn [andb]. split; apply power_term_off.
  - intro H. rewrite (pos_nonpos _ H), andb_false_r. apply power_term_off.
Qed.

Definition rate_nonneg (rate : option (Q -> Q -> Q)) : Prop := forall a b, 0 <= coef rate a b.

Lemma power_term_nonneg rate ne te g f : rate_nonneg rate -> (g = true -> 0 <= f) -> 0 <= power_term rate ne te g f.
Proof.
  intros Hr Hf. destruct g; [|rewrite power_term_off; lra].
  rewrite power_term_on. apply Qmult_le_0_compat; [apply Hr|apply Hf; reflexivity].
Qed.

Lemma total_power_nonneg P hyd e c znum ne te comp minw maxw :
  rate_nonneg (plt_rate P e c) -> rate_nonneg (prb_rate P e (c + 1)) -> rate_nonneg (prc_rate P e (c + 1)) ->
  minw < maxw ->
  0 <= emitted (total_power_radiance P hyd e c znum ne te comp minw maxw).
Proof.
  intros R1 R2 R3 Hw. unfold total_power_radiance.
  destruct (negb _); [cbn; lra|].
  destruct (comp_get comp e c) as [sp|]; [|cbn; lra].
  destruct (comp_get comp e (c + 1)) as [up|]; [|cbn; lra].
  destruct (Qle_bool ne 0) eqn:E1; [cbn; lra|].
  destruct (Qle_bool te 0) eqn:E2; [cbn; lra|].
  apply Qle_bool_false in E1. cbn [emitted].
  assert (0 <= total_power_density P e c ne te (s_dens sp) (s_dens up) (hyd_density hyd comp)).
  { unfold total_power_density, exc_term, rec_term, cx_term.
    assert (0 <= power_term (plt_rate P e c) ne te (pos (s_dens sp)) (ne * s_dens sp)).
    { apply power_term_nonneg; [assumption|]. intro Hp; apply pos_spec in Hp. apply Qmult_le_0_compat; lra. }
    assert (0 <= power_term (prb_rate P e (c + 1)) ne te (pos (s_dens up)) (ne * s_dens up)).
    { apply power_term_nonneg; [assumption|]. intro Hp; apply pos_spec in Hp. apply Qmult_le_0_compat; lra. }
    assert (0 <= power_term (prc_rate P e (c + 1)) ne te (pos (s_dens up) && pos (hyd_density hyd comp))
                   (hyd_density hyd comp * s_dens up)).
    { apply power_term_nonneg; [assumption|]. intro Hp; apply andb_true_iff in Hp. destruct Hp as [Hp1 Hp2].
      apply pos_spec in Hp1, Hp2. apply Qmult_le_0_compat; lra. }
    lra. }
  pose proof k4pi_pos.
  unfold Qdiv. apply Qmult_le_0_compat; [apply Qmult_le_0_compat; lra|].
  apply Qlt_le_weak, Qinv_lt_0_compat. lra.
Qed.

(* linearity of the power density in each density it involves, on the positive side of the guards *)
Lemma total_power_linear_ni P e c ne te n nup nhyd : 0 < n ->
  total_power_density P e c ne te n nup nhyd ==
  total_power_density P e c ne te 0 nup nhyd + n * (ne * coef (plt_rate P e c) ne te).
Proof.
  intro H. unfold total_power_density, exc_term. rewrite (pos_true n H), (pos_nonpos 0) by lra.
  rewrite power_term_on, power_term_off. ring.
Qed.

Lemma total_power_linear_nup P e c ne te ni n nhyd : 0 < n ->
  total_power_density P e c ne te ni n nhyd ==
  total_power_density P e c ne te ni 0 nhyd
  + n * (ne * coef (prb_rate P e (c + 1)) ne te + (if pos nhyd then nhyd * coef (prc_rate P e (c + 1)) ne te else 0)).
Proof.
  intro H. unfold total_power_density, rec_term, cx_term. rewrite (pos_true n H), (pos_nonpos 0) by lra.
  cbn [andb]. rewrite !power_term_off. destruct (pos nhyd); rewrite ?power_term_on, ?power_term_off; ring.
Qed.

Lemma total_power_linear_nhyd P e c ne te ni nup n : 0 < n ->
  total_power_density P e c ne te ni nup n ==
  total_power_density P e c ne te ni nup 0
  + n * (if pos nup then nup * coef (prc_rate P e (c + 1)) ne te else 0).
Proof.
  intro H. unfold total_power_density, cx_term. rewrite (pos_true n H), (pos_nonpos 0) by lra.
  rewrite andb_false_r, andb_true_r. rewrite power_term_off.
  destruct (pos nup); rewrite ?power_term_on, ?power_term_off; ring.
Qed.

(* ---- uniform spreading over the window ---------------------------------------------------- *)
Lemma Qsum_repeat x n : Qsum (repeat x n) == inject_Z (Z.of_nat n) * x.
Proof.
  induction n as [|n IH]; [cbn; ring|].
  cbn [repeat Qsum]. rewrite IH, Nat2Z.inj_succ. unfold Z.succ. rewrite inject_Z_plus. ring.
Qed.

Lemma uniform_bins_all_equal o n b : In b (uniform_bins o n) -> b = emitted o.
Proof. unfold uniform_bins; intro H; apply repeat_spec in H; exact H. Qed.

Lemma uniform_bins_length o n : length (uniform_bins o n) = n.
Proof. apply repeat_length. Qed.

(* every bin gets the same value and the wavelength integral is (1/4pi) * power density *)
Lemma total_power_uniform P hyd e c znum ne te comp minw maxw sp up nbins delta :
  (0 <= c < znum)%Z -> comp_get comp e c = Some sp -> comp_get comp e (c + 1) = Some up ->
  0 < ne -> 0 < te -> minw < maxw -> delta * inject_Z (Z.of_nat nbins) == maxw - minw ->
  integrate_bins (uniform_bins (total_power_radiance P hyd e c znum ne te comp minw maxw) nbins) delta ==
  k4pi * total_power_density P e c ne te (s_dens sp) (s_dens up) (hyd_density hyd comp).
Proof.
  intros Hc G1 G2 H1 H2 Hw Hd. unfold integrate_bins, uniform_bins. rewrite Qsum_repeat.
  rewrite (total_power_emit P hyd e c znum ne te comp minw maxw sp up) by assumption. cbn [emitted].
  transitivity (k4pi * total_power_density P e c ne te (s_dens sp) (s_dens up) (hyd_density hyd comp)
                / (maxw - minw) * (delta * inject_Z (Z.of_nat nbins))); [ring|].
  rewrite Hd. field. lra.
Qed.

(* RadiationFunction: phi / (4 pi range) in every bin integrates to phi / (4 pi) *)
Lemma radiation_function_total phi minw maxw nbins delta :
  minw < maxw -> delta * inject_Z (Z.of_nat nbins) == maxw - minw ->
  integrate_bins (repeat (radiation_function_bin phi minw maxw) nbins) delta == phi / (4 * mpi).
Proof.
  intros Hw Hd. unfold integrate_bins. rewrite Qsum_repeat. unfold radiation_function_bin.
  transitivity (phi / (4 * mpi * (maxw - minw)) * (delta * inject_Z (Z.of_nat nbins))); [ring|].
  rewrite Hd. assert (~ mpi == 0) by (unfold mpi; intro E; discriminate E). field. split; [assumption|lra].
Qed.

(* ---- emission is added to what the spectrum holds ------------------------------------------ *)
Lemma Qsum_map_add (l : list Q) r : Qsum (map (fun s => s + r) l) == Qsum l + inject_Z (Z.of_nat (length l)) * r.
Proof.
  induction l as [|x t IH]; [cbn; ring|].
  cbn [map Qsum length]. rewrite IH, Nat2Z.inj_succ. unfold Z.succ. rewrite inject_Z_plus. ring.
Qed.

Lemma spectrum_after_spec old o delta :
  ((forall r, o <> Emit r) -> spectrum_after old o = old) /\
  (forall k, (k < length old)%nat -> nth k (spectrum_after old o) 0 == nth k old 0 + emitted o) /\
  integrate_bins (spectrum_after old o) delta ==
  integrate_bins old delta + emitted o * (delta * inject_Z (Z.of_nat (length old))).
Proof.
  split; [|split].
  - intros H. destruct o; try reflexivity. exfalso. apply (H r). reflexivity.
  - intros k Hk. destruct o; cbn [spectrum_after emitted]; try ring.
    rewrite (nth_indep _ 0 (0 + r)) by (rewrite map_length; exact Hk).
    rewrite (map_nth (fun s => s + r) old 0 k). ring.
  - unfold integrate_bins. destruct o; cbn [spectrum_after emitted]; try ring.
    rewrite Qsum_map_add. ring.
Qed.

(* ---- linearity in the density of each neutral hydrogen isotope, on the level of the composition --------------------- *)
Lemma get_key comp h s : comp_get comp h 0 = Some s -> s_elem s = h /\ s_charge s = 0%Z.
Proof.
  intro G. apply comp_get_key in G. unfold key_eqb in G. apply andb_true_iff in G. destruct G as [A B].
  apply Z.eqb_eq in A, B. tauto.
Qed.

Lemma dens_or_0_upd_same comp h n s : comp_get comp h 0 = Some s -> dens_or_0 (upd_dens h 0 n comp) h == n.
Proof.
  intro G. unfold dens_or_0. rewrite comp_get_upd, G. cbn [option_map].
  rewrite (upd_species_same _ _ _ _ (comp_get_key _ _ _ _ G)). reflexivity.
Qed.

Lemma dens_or_0_upd_other comp h n h' : h' <> h -> dens_or_0 (upd_dens h 0 n comp) h' == dens_or_0 comp h'.
Proof.
  intro Hne. unfold dens_or_0. rewrite comp_get_upd. destruct (comp_get comp h' 0) as [s'|] eqn:G; [|reflexivity].
  cbn [option_map]. destruct (get_key _ _ _ G) as [E _].
  rewrite upd_species_other; [reflexivity|]. unfold key_eqb. rewrite E.
  destruct (Z.eqb_spec h' h); [contradiction|reflexivity].
Qed.

Lemma hyd_sum_upd_notin comp h n l : ~ In h l ->
  Qsum (map (dens_or_0 (upd_dens h 0 n comp)) l) == Qsum (map (dens_or_0 comp) l).
Proof.
  induction l as [|x t IH]; intro H; [reflexivity|]. cbn [map Qsum].
  assert (E1 : dens_or_0 (upd_dens h 0 n comp) x == dens_or_0 comp x)
    by (apply dens_or_0_upd_other; intro E; apply H; left; exact E).
  assert (E2 := IH (fun E => H (or_intror E))). rewrite E1, E2. reflexivity.
Qed.

Lemma hyd_sum_upd_in comp h n s l : comp_get comp h 0 = Some s -> NoDup l -> In h l ->
  Qsum (map (dens_or_0 (upd_dens h 0 n comp)) l) == Qsum (map (dens_or_0 comp) l) - s_dens s + n.
Proof.
  intros G. induction l as [|x t IH]; intros Hnd Hin; [destruct Hin|].
  inversion Hnd as [|? ? Hx Ht]; subst. cbn [map Qsum]. destruct Hin as [->|Hin].
  - assert (E1 := dens_or_0_upd_same comp h n s G). assert (E2 := hyd_sum_upd_notin comp h n t Hx).
    rewrite E1, E2. unfold dens_or_0 at 2. rewrite G. ring.
  - assert (Hxh : x <> h) by (intro E; subst; contradiction).
    assert (E1 := dens_or_0_upd_other comp h n x Hxh). assert (E2 := IH Ht Hin). rewrite E1, E2. ring.
Qed.

(* n_hyd is linear in the density of each hydrogen isotope present in the composition *)
Lemma hyd_density_linear hyd comp h s n : comp_get comp h 0 = Some s -> NoDup hyd -> In h hyd ->
  hyd_density hyd (upd_dens h 0 n comp) == hyd_density hyd (upd_dens h 0 0 comp) + n.
Proof.
  intros G Hnd Hin. rewrite !hyd_density_sum.
  rewrite (hyd_sum_upd_in comp h n s hyd G Hnd Hin), (hyd_sum_upd_in comp h 0 s hyd G Hnd Hin). ring.
Qed.

Lemma pos_comp x y : x == y -> pos x = pos y.
Proof. intro E. unfold pos. rewrite E. reflexivity. Qed.

Lemma total_power_density_nhyd_comp P e c ne te ni nup x y : x == y ->
  total_power_density P e c ne te ni nup x == total_power_density P e c ne te ni nup y.
Proof.
  intro E. unfold total_power_density, cx_term. rewrite (pos_comp x y E).
  destruct (pos nup && pos y); rewrite ?power_term_on, ?power_term_off; rewrite ?E; reflexivity.
Qed.

(* the power density as a function of the density n of one hydrogen isotope of the composition: affine, as long as the
   summed hydrogen density stays on the positive side of its guard *)
Lemma total_power_linear_isotope P hyd e c ne te ni nup comp h s n :
  comp_get comp h 0 = Some s -> NoDup hyd -> In h hyd ->
  0 <= hyd_density hyd (upd_dens h 0 0 comp) -> 0 < hyd_density hyd (upd_dens h 0 0 comp) + n ->
  total_power_density P e c ne te ni nup (hyd_density hyd (upd_dens h 0 n comp)) ==
  total_power_density P e c ne te ni nup (hyd_density hyd (upd_dens h 0 0 comp))
  + n * (if pos nup then nup * coef (prc_rate P e (c + 1)) ne te else 0).
Proof.
  intros G Hnd Hin H0 Hn.
  rewrite (total_power_density_nhyd_comp _ _ _ _ _ _ _ _ _ (hyd_density_linear hyd comp h s n G Hnd Hin)).
  set (R := hyd_density hyd (upd_dens h 0 0 comp)) in *.
  rewrite (total_power_linear_nhyd P e c ne te ni nup (R + n) Hn).
  destruct (Qlt_le_dec 0 R) as [HR|HR].
  - rewrite (total_power_linear_nhyd P e c ne te ni nup R HR). ring.
  - assert (E : R == 0) by lra.
    rewrite (total_power_density_nhyd_comp P e c ne te ni nup R 0 E). rewrite E. ring.
Qed.
