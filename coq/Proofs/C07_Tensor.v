(* C07 -- raysect's bicubic and tricubic interpolants return the stored value at every knot: every grid size
   >= 2 per axis, every increasing knot vectors, every table, WHATEVER the derivative estimates. *)
Require Import Cherab.Common.Qx Cherab.Model.C07_Rates Cherab.Model.C07_Cubic Cherab.Model.C07_TensorGen Cherab.Model.C07_Tensor.
Require Import Cherab.Proofs.C07_Cubic.
From Coq Require Import Lqa.
Open Scope Q_scope.

Definition cq (c : nat) : Q := inject_Z (Z.of_nat c).

(* the generated kernels at the corners of the unit cell *)
Lemma corner2 f dx dy dxy (a b : nat) tx ty : (a <= 1)%nat -> (b <= 1)%nat -> tx == cq a -> ty == cq b ->
  evalc2 (coef2 f dx dy dxy) tx ty == f a b.
Proof.
  intros Ha Hb Ex Ey. unfold evalc2. cbv zeta. rewrite Ex, Ey.
  destruct a as [|[|a]]; [| |lia]; destruct b as [|[|b]]; try lia;
    cbv [coef2 I0 I1 I2 I3 cq Z.of_nat Pos.of_succ_nat inject_Z]; ring.
Qed.

Lemma corner3 f dx dy dz dxy dxz dyz dxyz (a b c : nat) tx ty tz :
  (a <= 1)%nat -> (b <= 1)%nat -> (c <= 1)%nat -> tx == cq a -> ty == cq b -> tz == cq c ->
  evalc3 (coef3 f dx dy dz dxy dxz dyz dxyz) tx ty tz == f a b c.
Proof.
  intros Ha Hb Hc Ex Ey Ez. unfold evalc3. cbv zeta. rewrite Ex, Ey, Ez.
  destruct a as [|[|a]]; [| |lia]; destruct b as [|[|b]]; try lia; destruct c as [|[|c]]; try lia;
    cbv [coef3 I0 I1 I2 I3 cq Z.of_nat Pos.of_succ_nat inject_Z]; ring.
Qed.

(* at knot i the cell is i (normalised coordinate 0), or the last cell with coordinate 1 for the last knot *)
Lemma cell_knot n k i : (2 <= n)%nat -> increasingq n k -> (i < n)%nat ->
  exists c, (c <= 1)%nat /\ (cell_of n k (k i) + c = i)%nat /\ ncoord k (cell_of n k (k i)) (k i) == cq c.
Proof.
  intros Hn Inc Hi. unfold cell_of.
  destruct (Qeq_bool (k i) (k (n - 1)%nat)) eqn:E.
  - apply Qeq_bool_iff in E.
    assert (i = n - 1)%nat.
    { destruct (Nat.eq_dec i (n - 1)) as [?|Hne]; auto.
      assert (k i < k (n - 1)%nat) by (apply Inc; lia). lra. }
    subst i. exists 1%nat. repeat split; try lia.
    unfold ncoord, cq. replace (S (n - 2)) with (n - 1)%nat by lia.
    assert (k (n - 2)%nat < k (n - 1)%nat) by (apply Inc; lia).
    cbv [Z.of_nat Pos.of_succ_nat inject_Z]. field. lra.
  - assert (Hlt : (i < n - 1)%nat).
    { destruct (Nat.eq_dec i (n - 1)) as [->|Hne]; [|lia].
      exfalso. assert (T : Qeq_bool (k (n - 1)%nat) (k (n - 1)%nat) = true) by (apply Qeq_bool_iff; reflexivity).
      congruence. }
    rewrite find_index_knot by auto. rewrite Nat.min_l by lia.
    exists 0%nat. repeat split; try lia.
    unfold ncoord, cq. assert (k i < k (S i)) by (apply Inc; lia).
    cbv [Z.of_nat inject_Z]. field. lra.
Qed.

Theorem cubic2_knot D nx ny kx ky v i j :
  (2 <= nx)%nat -> (2 <= ny)%nat -> increasingq nx kx -> increasingq ny ky -> (i < nx)%nat -> (j < ny)%nat ->
  cubic2 D nx ny kx ky v (kx i) (ky j) == v i j.
Proof.
  intros Hx Hy Ix Iy Hi Hj. unfold cubic2. cbv zeta.
  destruct (cell_knot nx kx i Hx Ix Hi) as (a & Ha & Ea & Ca).
  destruct (cell_knot ny ky j Hy Iy Hj) as (b & Hb & Eb & Cb).
  rewrite (corner2 _ _ _ _ a b _ _ Ha Hb Ca Cb). rewrite Ea, Eb. reflexivity.
Qed.

Theorem cubic3_knot D nx ny nz kx ky kz v i j l :
  (2 <= nx)%nat -> (2 <= ny)%nat -> (2 <= nz)%nat -> increasingq nx kx -> increasingq ny ky -> increasingq nz kz ->
  (i < nx)%nat -> (j < ny)%nat -> (l < nz)%nat ->
  cubic3 D nx ny nz kx ky kz v (kx i) (ky j) (kz l) == v i j l.
Proof.
  intros Hx Hy Hz Ix Iy Iz Hi Hj Hl. unfold cubic3. cbv zeta.
  destruct (cell_knot nx kx i Hx Ix Hi) as (a & Ha & Ea & Ca).
  destruct (cell_knot ny ky j Hy Iy Hj) as (b & Hb & Eb & Cb).
  destruct (cell_knot nz kz l Hz Iz Hl) as (c & Hc & Ec & Cc).
  rewrite (corner3 _ _ _ _ _ _ _ _ a b c _ _ _ Ha Hb Hc Ca Cb Cc). rewrite Ea, Eb, Ec. reflexivity.
Qed.

(* ---- grid-point clauses of the rate families with raysect's cubic in every slot: only log_laws remain ---- *)
Require Import Cherab.Proofs.C07_Rates.

Section WithLogLaws.
  Variable lg ex : Q -> Q.
  Variable ladd : Q -> Q -> Q.
  Hypothesis LL : log_laws lg ex ladd.

  Lemma kn_increasing xs : axis xs -> increasingq (length xs) (kn Q lg xs).
  Proof.
    intros (_ & S & P) i j Hij. unfold kn. apply (ll_lg_mono lg ex ladd LL).
    - apply P. lia.
    - apply S. lia.
  Qed.

  Lemma eval2_node_bicubic D cv ext xs ys tbl i j :
    axis xs -> axis ys -> (2 <= length xs)%nat -> (2 <= length ys)%nat ->
    (i < length xs)%nat -> (j < length ys)%nat -> 0 < cv (at2 tbl i j) ->
    same (eval2 Q lg ex (cubic2 D) cv ext xs ys tbl (nth i xs 0) (nth j ys 0)) (Val (cv (at2 tbl i j))).
  Proof.
    intros Ax Ay Hx Hy Hi Hj Hpos. pose proof Ax as (_ & Sx & Px). pose proof Ay as (_ & Sy & Py).
    unfold eval2.
    rewrite (nonpos_false (nth i xs 0)) by (apply Px; auto).
    rewrite (nonpos_false (nth j ys 0)) by (apply Py; auto).
    rewrite !inrange_node by auto.
    cbn [orb andb negb]. rewrite andb_false_r. cbn [same].
    transitivity (ex (lg (cv (at2 tbl i j)))); [|apply (ll_ex_lg lg ex ladd LL); exact Hpos].
    apply (ll_ex_proper lg ex ladd LL).
    exact (cubic2_knot D (length xs) (length ys) (kn Q lg xs) (kn Q lg ys) _ i j Hx Hy
                       (kn_increasing xs Ax) (kn_increasing ys Ay) Hi Hj).
  Qed.

  Lemma eval3_node_tricubic D cv ext xs ys zs tbl i j k :
    axis xs -> axis ys -> axis zs -> (2 <= length xs)%nat -> (2 <= length ys)%nat -> (2 <= length zs)%nat ->
    (i < length xs)%nat -> (j < length ys)%nat -> (k < length zs)%nat -> 0 < cv (at3 tbl i j k) ->
    same (eval3 Q lg ex (cubic3 D) cv ext xs ys zs tbl (nth i xs 0) (nth j ys 0) (nth k zs 0)) (Val (cv (at3 tbl i j k))).
  Proof.
    intros Ax Ay Az Hx Hy Hz Hi Hj Hk Hpos.
    pose proof Ax as (_ & Sx & Px). pose proof Ay as (_ & Sy & Py). pose proof Az as (_ & Sz & Pz).
    unfold eval3.
    rewrite (nonpos_false (nth i xs 0)) by (apply Px; auto).
    rewrite (nonpos_false (nth j ys 0)) by (apply Py; auto).
    rewrite (nonpos_false (nth k zs 0)) by (apply Pz; auto).
    rewrite !inrange_node by auto.
    cbn [orb andb negb]. rewrite andb_false_r. cbn [same].
    transitivity (ex (lg (cv (at3 tbl i j k)))); [|apply (ll_ex_lg lg ex ladd LL); exact Hpos].
    apply (ll_ex_proper lg ex ladd LL).
    exact (cubic3_knot D (length xs) (length ys) (length zs) (kn Q lg xs) (kn Q lg ys) (kn Q lg zs) _ i j k Hx Hy Hz
                       (kn_increasing xs Ax) (kn_increasing ys Ay) (kn_increasing zs Az) Hi Hj Hk).
  Qed.

  (* beam rates, every axis length >= 1: Constant2D / IsoMapper2D + 1-D cubic / bicubic, and the 1-D cubic in t *)
  Lemma evalbeam_node_cubic_all D p cf wl ext es ns ts sen st sref i j k :
    0 < cf -> 0 < wl -> 0 < sref ->
    axis es -> axis ns -> axis ts -> (i < length es)%nat -> (j < length ns)%nat -> (k < length ts)%nat ->
    0 < at2 sen i j -> 0 < nth k st 0 ->
    same (evalbeam Q lg ex ladd cubic1 (cubic2 D) (conv p cf wl) ext es ns ts sen st sref
                   (nth i es 0) (nth j ns 0) (nth k ts 0))
         (Val (conv p cf wl (at2 sen i j * nth k st 0 / sref))).
  Proof.
    intros Hc Hw Hs Ae An At Hi Hj Hk P1 P2.
    destruct (single es || single ns) eqn:Sg.
    - apply (evalbeam_node_cubic_single lg ex ladd LL); auto.
    - apply orb_false_iff in Sg. destruct Sg as [Se Sn].
      pose proof Ae as (_ & Ses & Pe). pose proof An as (_ & Sns & Pn). pose proof At as (_ & Sts & Pt).
      unfold evalbeam.
      rewrite (nonpos_false (nth i es 0)) by (apply Pe; auto).
      rewrite (nonpos_false (nth j ns 0)) by (apply Pn; auto).
      rewrite (nonpos_false (nth k ts 0)) by (apply Pt; auto).
      rewrite !free_node by auto.
      cbn [orb andb negb]. rewrite andb_false_r. cbn [same].
      rewrite (ll_ex_add lg ex ladd LL).
      rewrite (beam_tp_node Q lg ex ladd cubic1 (glook2 ex) (glook3 ex) cubic1 (cubic_laws lg ex ladd LL))
        by auto using div_pos.
      assert (N : ex (beam_npl Q lg cubic1 (cubic2 D) (conv p cf wl) es ns sen (nth i es 0) (nth j ns 0))
                  == conv p cf wl (at2 sen i j)).
      { unfold beam_npl. rewrite Se, Sn. cbn [andb].
        transitivity (ex (lg (conv p cf wl (at2 sen i j)))).
        - apply (ll_ex_proper lg ex ladd LL).
          exact (cubic2_knot D (length es) (length ns) (kn Q lg es) (kn Q lg ns) _ i j
                             (not_single_two es Ae Se) (not_single_two ns An Sn)
                             (kn_increasing es Ae) (kn_increasing ns An) Hi Hj).
        - apply (ll_ex_lg lg ex ladd LL). apply conv_pos; auto. }
      rewrite N. apply conv_scale; lra.
  Qed.
End WithLogLaws.

(* ---- rounding-aware form: 10 ** log10 v need only be CLOSE to v -------------------------------------
   libm's log10 followed by pow is not the identity on doubles; what it guarantees is a relative error
   bound.  With |ex (lg v) - v| <= eps v in place of ex (lg v) == v, the grid-point value of a 2-D rate is
   within eps of the stored value (relative), exactly as the correspondence measures it. *)
From Coq Require Import Qabs.
Section Approx.
  Variable lg ex : Q -> Q.
  Variable eps : Q.
  Hypothesis ex_proper : forall a b, a == b -> ex a == ex b.
  Hypothesis lg_mono : forall a b, 0 < a -> a < b -> lg a < lg b.
  Hypothesis ex_lg_close : forall v, 0 < v -> Qabs (ex (lg v) - v) <= eps * v.

  Lemma kn_increasing_a xs : axis xs -> increasingq (length xs) (kn Q lg xs).
  Proof.
    intros (_ & S & P) i j Hij. unfold kn. apply lg_mono; [apply P; lia | apply S; lia].
  Qed.

  Lemma eval2_node_bicubic_rounded D cv ext xs ys tbl i j :
    axis xs -> axis ys -> (2 <= length xs)%nat -> (2 <= length ys)%nat ->
    (i < length xs)%nat -> (j < length ys)%nat -> 0 < cv (at2 tbl i j) ->
    exists q, eval2 Q lg ex (cubic2 D) cv ext xs ys tbl (nth i xs 0) (nth j ys 0) = Val q
              /\ Qabs (q - cv (at2 tbl i j)) <= eps * cv (at2 tbl i j).
  Proof.
    intros Ax Ay Hx Hy Hi Hj Hpos. pose proof Ax as (_ & Sx & Px). pose proof Ay as (_ & Sy & Py).
    unfold eval2.
    rewrite (nonpos_false (nth i xs 0)) by (apply Px; auto).
    rewrite (nonpos_false (nth j ys 0)) by (apply Py; auto).
    rewrite !inrange_node by auto.
    cbn [orb andb negb]. rewrite andb_false_r.
    eexists. split; [reflexivity|].
    assert (E : ex (cubic2 D (length xs) (length ys) (kn Q lg xs) (kn Q lg ys)
                           (fun i0 j0 => lg (cv (at2 tbl i0 j0))) (lg (nth i xs 0)) (lg (nth j ys 0)))
                == ex (lg (cv (at2 tbl i j)))).
    { apply ex_proper.
      exact (cubic2_knot D (length xs) (length ys) (kn Q lg xs) (kn Q lg ys) _ i j Hx Hy
                         (kn_increasing_a xs Ax) (kn_increasing_a ys Ay) Hi Hj). }
    rewrite E. apply ex_lg_close. exact Hpos.
  Qed.
End Approx.
