(* C07 -- the executable oracle instance of Model/C07_Check.v obeys oracle_laws, so the theorems
   about the rate model hold for what the correspondence computes. *)
Require Import Cherab.Common.Qx Cherab.Model.C07_Rates Cherab.Model.C07_Check.
From Coq Require Import Qabs Lqa.
Open Scope Q_scope.

Lemma find_up_spec p fuel s i :
  (s <= i)%nat -> (i < s + fuel)%nat -> p i = true -> (forall j, (s <= j)%nat -> (j < i)%nat -> p j = false) ->
  find_up fuel s p = i.
Proof.
  revert s. induction fuel as [|f IH]; intros s Hs Hi Hp Hn; [lia|].
  cbn [find_up]. destruct (Nat.eq_dec s i) as [->|Hne].
  - rewrite Hp. reflexivity.
  - rewrite (Hn s) by lia. apply IH; try lia; auto. intros j Hj1 Hj2. apply Hn; lia.
Qed.

Lemma find_idx_spec n p i :
  (i < n)%nat -> p i = true -> (forall j, (j < n)%nat -> j <> i -> p j = false) -> find_idx n p = i.
Proof.
  intros Hi Hp Hn. unfold find_idx. apply find_up_spec; try lia; auto.
  intros j _ Hj. apply Hn; lia.
Qed.

Lemma hit_knot n (k : nat -> Q) i : distinct xex n k -> (i < n)%nat -> find_idx n (hit k (k i)) = i.
Proof.
  intros D Hi. apply find_idx_spec; auto.
  - unfold hit. apply Qeq_bool_iff. reflexivity.
  - intros j Hj Hne. unfold hit. destruct (Qeq_bool (Qabs (k j)) (Qabs (k i))) eqn:E; auto.
    apply Qeq_bool_iff in E. exfalso. exact (D j i Hj Hi Hne E).
Qed.

Lemma log_axis_distinct n k : log_axis xlg n k -> distinct xex n k.
Proof.
  intros (xs & (_ & S & P) & _ & -> & E) i j Hi Hj Hne. rewrite !E. unfold xex, xlg.
  rewrite !Qabs_pos by (apply Qlt_le_weak, P; auto).
  destruct (Nat.lt_ge_cases i j) as [H|H].
  - assert (nth i xs 0 < nth j xs 0) by (apply S; lia). lra.
  - assert (nth j xs 0 < nth i xs 0) by (apply S; lia). lra.
Qed.

Lemma exec_laws : oracle_laws Q xlg xex xadd xinterp1 xinterp2 xinterp3 xinterpq.
Proof.
  constructor.
  - intros v Hv. unfold xex, xlg. apply Qabs_pos. lra.
  - intros a b. unfold xex, xadd. apply Qabs_Qmult.
  - intros a. unfold xex. apply Qabs_nonneg.
  - intros n k v i D Hi. unfold xinterp1. rewrite hit_knot by auto using log_axis_distinct. reflexivity.
  - intros nx ny kx ky v i j Dx Dy Hi Hj. unfold xinterp2. rewrite !hit_knot by auto. reflexivity.
  - intros nx ny nz kx ky kz v i j k Dx Dy Dz Hi Hj Hk. unfold xinterp3. rewrite !hit_knot by auto. reflexivity.
  - intros n k v i _ D Hi. unfold xinterpq.
    rewrite (find_idx_spec n _ i); auto; try reflexivity.
    + apply Qeq_bool_iff. reflexivity.
    + intros j Hj Hne. destruct (Qeq_bool (k j) (k i)) eqn:E; auto.
      apply Qeq_bool_iff in E. exfalso.
      destruct (Nat.lt_ge_cases i j) as [H|H].
      * assert (k i < k j) by (apply D; lia). lra.
      * assert (k j < k i) by (apply D; lia). lra.
Qed.

(* witnesses for the non-vacuity example of Properties/C07.v *)
Definition wit_xs : list Q := [1#2; 3].
Definition wit_ys : list Q := [1; 10; 100].
Definition wit_tbl : list (list Q) := [[1; 2; 3]; [4; 5; 6]].
