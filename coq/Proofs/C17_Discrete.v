(* The discrete probability statement: with u uniform on the N-point grid {m/N}, the lookup selects triangle j
   for a number of grid points that differs from N * a_j / A by less than 1. *)
Require Import Cherab.Common.Qx.
Require Import Cherab.Model.C17_Voxels Cherab.Proofs.C17_Select.
From Coq Require Import Qabs Qround Lqa.
Open Scope Q_scope.

(* ---- counting the integers of an interval ------------------------------------------------------------- *)
Lemma count_interval (P : nat -> bool) : forall (N : nat) (L H : Z),
  (0 <= L <= H)%Z -> (H <= Z.of_nat N)%Z ->
  (forall m, (m < N)%nat -> (P m = true <-> (L <= Z.of_nat m < H)%Z)) ->
  Z.of_nat (length (filter P (seq 0 N))) = (H - L)%Z.
Proof.
  induction N as [|N IH]; intros L H HL HH HP.
  - cbn. lia.
  - rewrite seq_S, filter_app, app_length, Nat2Z.inj_add. cbn [plus filter].
    destruct (Z_le_gt_dec H (Z.of_nat N)) as [Hle|Hgt].
    + rewrite (IH L H HL Hle) by (intros m Hm; apply HP; lia).
      destruct (P N) eqn:EN; [|cbn; lia].
      apply HP in EN; lia.
    + assert (HN : H = (Z.of_nat N + 1)%Z) by lia.
      destruct (Z_le_gt_dec L (Z.of_nat N)) as [Lle|Lgt].
      * rewrite (IH L (Z.of_nat N)); [| lia | lia |].
        -- destruct (P N) eqn:EN; [cbn; lia|].
           assert (P N = true) by (apply HP; lia). congruence.
        -- intros m Hm. rewrite (HP m) by lia. lia.
      * rewrite (IH (Z.of_nat N) (Z.of_nat N)); [| lia | lia |].
        -- destruct (P N) eqn:EN; [|cbn; lia]. apply HP in EN; lia.
        -- intros m Hm. rewrite (HP m) by lia. lia.
Qed.

(* ---- integers against ceilings ---------------------------------------------------------------------------- *)
Lemma ceil_le_int x (m : Z) : x <= inject_Z m <-> (Qceiling x <= m)%Z.
Proof.
  split; intro H.
  - apply Qceiling_resp_le in H. rewrite Qceiling_Z in H. exact H.
  - apply Qle_trans with (inject_Z (Qceiling x)); [apply Qle_ceiling | rewrite <- Zle_Qle; exact H].
Qed.

Lemma int_lt_ceil x (m : Z) : inject_Z m < x <-> (m < Qceiling x)%Z.
Proof.
  split; intro H.
  - destruct (Z_lt_ge_dec m (Qceiling x)) as [Hl|Hg]; [exact Hl|].
    assert (x <= inject_Z m) by (apply ceil_le_int; lia). lra.
  - destruct (Qlt_le_dec (inject_Z m) x) as [Hl|Hg]; [exact Hl|]. apply ceil_le_int in Hg. lia.
Qed.

(* ---- the grid value against an interval of the cumulative area ----------------------------------------------- *)
Section Grid.
  Variables (A : Q) (N : nat).
  Hypothesis HA : 0 < A.
  Hypothesis HN : (0 < N)%nat.
  Let Nq := inject_Z (Z.of_nat N).

  Lemma Nq_pos : 0 < Nq.
  Proof. unfold Nq. replace 0 with (inject_Z 0) by reflexivity. rewrite <- Zlt_Qlt. lia. Qed.

  Definition xpos (t : Q) : Q := t * Nq / A.

  Lemma scale_pos : 0 < Nq / A.
  Proof. apply Qlt_shift_div_l; [exact HA|]. pose proof Nq_pos. lra. Qed.

  Lemma grid_le t m : t <= grid_v A N m <-> xpos t <= inject_Z (Z.of_nat m).
  Proof.
    pose proof Nq_pos as Hq. pose proof scale_pos as Hc.
    assert (E1 : xpos t == t * (Nq / A)) by (unfold xpos; field; lra).
    assert (E2 : inject_Z (Z.of_nat m) == grid_v A N m * (Nq / A)) by (unfold grid_v; fold Nq; field; split; lra).
    rewrite E1, E2. symmetry. apply Qmult_le_r. exact Hc.
  Qed.

  Lemma grid_lt t m : grid_v A N m < t <-> inject_Z (Z.of_nat m) < xpos t.
  Proof.
    pose proof Nq_pos as Hq. pose proof scale_pos as Hc.
    assert (E1 : xpos t == t * (Nq / A)) by (unfold xpos; field; lra).
    assert (E2 : inject_Z (Z.of_nat m) == grid_v A N m * (Nq / A)) by (unfold grid_v; fold Nq; field; split; lra).
    rewrite E1, E2. symmetry. apply Qmult_lt_r. exact Hc.
  Qed.

  Lemma grid_range m : (m < N)%nat -> 0 <= grid_v A N m /\ grid_v A N m < A.
  Proof.
    intros Hm. pose proof Nq_pos as Hq. split.
    - apply grid_le. unfold xpos. assert (E : 0 * Nq / A == 0) by (field; lra). rewrite E.
      replace 0 with (inject_Z 0) by reflexivity. rewrite <- Zle_Qle. lia.
    - apply grid_lt. unfold xpos. assert (E : A * Nq / A == Nq) by (field; lra). rewrite E.
      unfold Nq. rewrite <- Zlt_Qlt. lia.
  Qed.
End Grid.

(* ---- the statement --------------------------------------------------------------------------------------------- *)
Lemma hits_count areas N j :
  (forall a, In a areas -> 0 <= a) -> 0 < Qsum areas -> (0 < N)%nat -> (j < length areas)%nat ->
  Z.of_nat (hits areas N j) =
  (Qceiling (xpos (Qsum areas) N (prefix areas (S j))) - Qceiling (xpos (Qsum areas) N (prefix areas j)))%Z.
Proof.
  intros Hpos HA HN Hj. unfold hits. set (A := Qsum areas) in *.
  assert (Hne : areas <> []) by (destruct areas; [cbn in Hj; lia | discriminate]).
  assert (Hlo0 : 0 <= prefix areas j).
  { unfold prefix. apply Qsum_nonneg. intros a Ha. apply Hpos. eapply In_firstn. exact Ha. }
  assert (Hmono : prefix areas j <= prefix areas (S j)) by (apply prefix_mono; [exact Hpos | lia]).
  assert (Hhi : prefix areas (S j) <= A).
  { unfold A. rewrite <- prefix_all. apply prefix_mono; [exact Hpos | lia]. }
  pose proof (Nq_pos N HN) as Hq.
  apply count_interval.
  - split.
    + assert (H0 : (Qceiling 0 <= Qceiling (xpos A N (prefix areas j)))%Z).
      { apply Qceiling_resp_le. unfold xpos. apply Qle_shift_div_l; [exact HA|].
        assert (0 <= prefix areas j * inject_Z (Z.of_nat N)) by nra. lra. }
      change (Qceiling 0) with 0%Z in H0. exact H0.
    + apply Qceiling_resp_le. unfold xpos. apply Qle_shift_div_l; [exact HA|].
      assert (E : prefix areas j * inject_Z (Z.of_nat N) / A * A == prefix areas j * inject_Z (Z.of_nat N)) by (field; lra).
      rewrite E. nra.
  - apply ceil_le_int. unfold xpos. apply Qle_shift_div_r; [exact HA|]. nra.
  - intros m Hm. destruct (grid_range A N HA HN m Hm) as [Hv0 Hv1].
    rewrite Z.eqb_eq, <- ceil_le_int, <- int_lt_ceil, <- (grid_le A N HA HN), <- (grid_lt A N HA HN).
    destruct (select_spec areas (grid_v A N m) Hpos Hne Hv0 Hv1) as (j0 & Hs & Hlen & H1 & H2).
    fold A. rewrite Hs. split.
    + intros E. apply Nat2Z.inj in E. subst j0. split; assumption.
    + intros [H3 H4]. f_equal. exact (select_unique areas (grid_v A N m) j0 j Hpos H1 H2 H3 H4).
Qed.

Lemma hits_close_to_area_share areas N j :
  (forall a, In a areas -> 0 <= a) -> 0 < Qsum areas -> (0 < N)%nat -> (j < length areas)%nat ->
  Qabs (inject_Z (Z.of_nat (hits areas N j)) / inject_Z (Z.of_nat N) - nth j areas 0 / Qsum areas)
  < 1 / inject_Z (Z.of_nat N).
Proof.
  intros Hpos HA HN Hj. rewrite (hits_count areas N j Hpos HA HN Hj).
  set (A := Qsum areas) in *. pose proof (Nq_pos N HN) as Hq. set (Nq := inject_Z (Z.of_nat N)) in *.
  set (xl := xpos A N (prefix areas j)). set (xh := xpos A N (prefix areas (S j))).
  pose proof (Qle_ceiling xl) as L1. pose proof (Qceiling_lt xl) as L2.
  pose proof (Qle_ceiling xh) as H1. pose proof (Qceiling_lt xh) as H2.
  unfold Z.sub in L2, H2 |- *. rewrite inject_Z_plus, inject_Z_opp in L2, H2 |- *.
  change (inject_Z 1) with 1 in *.
  assert (E : nth j areas 0 / A == (xh - xl) / Nq).
  { unfold xh, xl, xpos. fold Nq. rewrite prefix_step by exact Hj. field. split; lra. }
  rewrite E.
  set (ch := inject_Z (Qceiling xh)) in *. set (cl := inject_Z (Qceiling xl)) in *.
  assert (E2 : (ch - cl) / Nq - (xh - xl) / Nq == ((ch - xh) - (cl - xl)) / Nq) by (field; lra).
  rewrite E2. apply Qabs_Qlt_condition. split.
  - apply Qlt_shift_div_l; [exact Hq|]. assert (E3 : - (1 / Nq) * Nq == -1) by (field; lra). rewrite E3. lra.
  - apply Qlt_shift_div_r; [exact Hq|]. assert (E3 : 1 / Nq * Nq == 1) by (field; lra). rewrite E3. lra.
Qed.

Lemma sum_abs_bound (js : list nat) (d m : nat -> Q) eps :
  (forall j, In j js -> Qabs (d j) <= eps) ->
  Qabs (Qsum (map (fun j => d j * m j) js)) <= eps * Qsum (map (fun j => Qabs (m j)) js).
Proof.
  induction js as [|j js IH]; intros H; cbn [map Qsum].
  - change (Qabs 0) with 0. lra.
  - eapply Qle_trans; [apply Qabs_triangle|]. rewrite Qabs_Qmult.
    assert (H1 : Qabs (d j) <= eps) by (apply H; left; reflexivity).
    assert (H2 : Qabs (Qsum (map (fun j0 => d j0 * m j0) js)) <= eps * Qsum (map (fun j0 => Qabs (m j0)) js))
      by (apply IH; intros k Hk; apply H; right; exact Hk).
    pose proof (Qabs_nonneg (m j)) as H3.
    assert (Qabs (d j) * Qabs (m j) <= eps * Qabs (m j)) by (apply Qmult_le_compat_r; assumption).
    lra.
Qed.

Lemma Qsum_map_minus {A} (F G : A -> Q) l : Qsum (map F l) - Qsum (map G l) == Qsum (map (fun j => F j - G j) l).
Proof. induction l as [|a t IH]; cbn [map Qsum]; [ring | rewrite <- IH; ring]. Qed.

Lemma Qsum_map_ext_in' {A} (F G : A -> Q) l : (forall t, In t l -> F t == G t) -> Qsum (map F l) == Qsum (map G l).
Proof.
  induction l as [|a t IH]; intros H; [reflexivity|]. cbn [map Qsum].
  rewrite (H a (or_introl eq_refl)), IH; [reflexivity|]. intros b Hb. apply H. right. exact Hb.
Qed.

(* the expectation over the N-point variate is within (sum_j |mean_j|) / N of the area-weighted mean *)
Lemma grid_expectation_close areas means N :
  (forall a, In a areas -> 0 <= a) -> 0 < Qsum areas -> (0 < N)%nat ->
  Qabs (grid_expectation areas means N - area_weighted_mean areas means)
  <= (1 / inject_Z (Z.of_nat N)) * Qsum (map (fun j => Qabs (nth j means 0)) (seq 0 (length areas))).
Proof.
  intros Hpos HA HN. unfold grid_expectation, area_weighted_mean. rewrite Qsum_map_minus.
  rewrite (Qsum_map_ext_in' _ (fun j => (inject_Z (Z.of_nat (hits areas N j)) / inject_Z (Z.of_nat N)
                                          - nth j areas 0 / Qsum areas) * nth j means 0)) by (intros; ring).
  apply (sum_abs_bound _ (fun j => inject_Z (Z.of_nat (hits areas N j)) / inject_Z (Z.of_nat N) - nth j areas 0 / Qsum areas)).
  intros j Hj. apply in_seq in Hj. apply Qlt_le_weak. apply hits_close_to_area_share; try assumption. lia.
Qed.

Lemma Qsum_seq_combine (F : Q -> Q -> Q) : forall l1 l2, length l2 = length l1 ->
  Qsum (map (fun j => F (nth j l1 0) (nth j l2 0)) (seq 0 (length l1))) ==
  Qsum (map (fun am => F (fst am) (snd am)) (combine l1 l2)).
Proof.
  induction l1 as [|a t IH]; intros l2 Hl; [reflexivity|].
  destruct l2 as [|b u]; [discriminate|]. cbn [length seq map combine Qsum nth fst snd].
  rewrite <- seq_shift, map_map. cbn [nth]. rewrite IH by (cbn in Hl; lia). reflexivity.
Qed.

Lemma area_weighted_mean_is_expected_estimate areas means : length means = length areas -> ~ Qsum areas == 0 ->
  area_weighted_mean areas means == expected_estimate areas means.
Proof.
  intros Hl Hne. unfold area_weighted_mean, expected_estimate.
  rewrite (Qsum_seq_combine (fun a m => a / Qsum areas * m) areas means Hl).
  set (A := Qsum areas) in *. clearbody A. clear Hl. revert means.
  induction areas as [|a t IH]; intros means; [cbn; field; exact Hne|].
  destruct means as [|m u]; [cbn; field; exact Hne|].
  cbn [combine map Qsum fst snd]. rewrite IH. field. exact Hne.
Qed.
