(* Lemmas about the setter / getter semantics of the descriptor DSL (Model/C15_Groups.v):
   for every well-formed descriptor, every group (any length, by induction on the member list)
   and every value. *)
Require Import Cherab.Common.Qx.
From Coq Require Import String.
Require Import Cherab.Model.C15_Groups Cherab.Model.C15_Table.
Open Scope string_scope.
Open Scope list_scope.
Open Scope Z_scope.

(* ---- stores ---------------------------------------------------------------------------- *)
Lemma sget_sset_same a v st : sget a (sset a v st) = Some v.
Proof.
  induction st as [|[b w] t IH]; cbn [sset sget].
  - now rewrite String.eqb_refl.
  - destruct (String.eqb_spec a b) as [E|E]; cbn [sget].
    + subst. now rewrite String.eqb_refl.
    + destruct (String.eqb_spec a b); [contradiction | exact IH].
Qed.

Lemma sget_sset_other a b v st : b <> a -> sget b (sset a v st) = sget b st.
Proof.
  intro N. induction st as [|[c w] t IH]; cbn [sset sget].
  - destruct (String.eqb_spec b a); [contradiction | reflexivity].
  - destruct (String.eqb_spec a c) as [E|E]; cbn [sget].
    + subst c. destruct (String.eqb_spec b a); [contradiction | reflexivity].
    + destruct (String.eqb_spec b c); [reflexivity | exact IH].
Qed.

Lemma mget_mset_same a v m : mget a (mset a v m) = v.
Proof. unfold mget, mset; cbn [mstore]. now rewrite sget_sset_same. Qed.

Lemma mget_mset_other a b v m : b <> a -> mget b (mset a v m) = mget b m.
Proof. intro N. unfold mget, mset; cbn [mstore]. now rewrite sget_sset_other. Qed.

(* ---- what an assignment may touch ---------------------------------------------------------- *)
Definition same_meta (m m' : member) : Prop :=
  mid m' = mid m /\ mtype m' = mtype m /\ mparent m' = mparent m /\ mobs m' = mobs m.

(* identity, type, parent, observe count and every other attribute are untouched *)
Definition same_except (a : string) (m m' : member) : Prop :=
  same_meta m m' /\ forall b, b <> a -> mget b m' = mget b m.

Lemma same_meta_refl m : same_meta m m.
Proof. repeat split. Qed.

Lemma same_except_refl a m : same_except a m m.
Proof. split; [apply same_meta_refl | reflexivity]. Qed.

Lemma same_except_mset a v m : same_except a m (mset a v m).
Proof. split; [repeat split | intros b N; now apply mget_mset_other]. Qed.

Lemma same_except_meta a m m' : same_except a m m' -> same_meta m m'.
Proof. now intros [H _]. Qed.

Lemma Forall2_refl_on {A} (R : A -> A -> Prop) (l : list A) : (forall x, R x x) -> Forall2 R l l.
Proof. intro H. induction l; constructor; auto. Qed.

Lemma Forall2_weaken {A B} (R S : A -> B -> Prop) l l' :
  (forall x y, R x y -> S x y) -> Forall2 R l l' -> Forall2 S l l'.
Proof. intros H F. induction F; constructor; auto. Qed.

(* ---- the three loops --------------------------------------------------------------------------- *)
Lemma zip_assign_frame a g : forall vs, Forall2 (same_except a) g (zip_assign a g vs).
Proof.
  induction g as [|m g IH]; intros [|v vs]; cbn [zip_assign]; try constructor;
    try apply same_except_refl; try apply same_except_mset; try apply IH.
  apply Forall2_refl_on, same_except_refl.
Qed.

Lemma zip_assign_get a g : forall vs, List.length vs = List.length g -> map (mget a) (zip_assign a g vs) = vs.
Proof.
  induction g as [|m g IH]; intros [|v vs] L; cbn in L; try discriminate; cbn [zip_assign map]; try reflexivity.
  rewrite mget_mset_same, IH; [reflexivity | now injection L].
Qed.

Lemma zip_assign_length a g : forall vs, List.length (zip_assign a g vs) = List.length g.
Proof.
  intro vs. pose proof (zip_assign_frame a g vs) as H. symmetry.
  induction H; cbn; [reflexivity | now f_equal].
Qed.

Lemma bcast_frame a v g : Forall2 (same_except a) g (bcast a v g).
Proof. induction g; cbn; constructor; auto using same_except_mset. Qed.

Lemma bcast_get a v g : map (mget a) (bcast a v g) = map (fun _ => v) g.
Proof. induction g as [|m g IH]; cbn; [reflexivity | now rewrite mget_mset_same, <- IH]. Qed.

Lemma zip_typed_frame a tag g : forall vs, Forall2 (same_except a) g (fst (zip_typed a tag g vs)).
Proof.
  induction g as [|m g IH]; intros [|v vs]; cbn [zip_typed fst]; try constructor;
    try apply same_except_refl; try (apply Forall2_refl_on, same_except_refl).
  destruct (has_tag tag v).
  - specialize (IH vs). destruct (zip_typed a tag g vs) as [r o]. cbn [fst] in *.
    constructor; [apply same_except_mset | exact IH].
  - cbn [fst]. constructor; [apply same_except_refl | apply Forall2_refl_on, same_except_refl].
Qed.

Lemma zip_typed_all_ok a tag g : forall vs, forallb (has_tag tag) vs = true ->
  zip_typed a tag g vs = (zip_assign a g vs, Done).
Proof.
  induction g as [|m g IH]; intros [|v vs] H; cbn [zip_typed zip_assign]; try reflexivity.
  cbn [forallb] in H. apply andb_true_iff in H as [H1 H2]. now rewrite H1, (IH vs H2).
Qed.

Lemma len_eq_true vs g : len_eq vs g = true <-> List.length vs = List.length g.
Proof. unfold len_eq. apply Nat.eqb_eq. Qed.

Lemma len_eq_false vs g : List.length vs <> List.length g -> len_eq vs g = false.
Proof. unfold len_eq. apply Nat.eqb_neq. Qed.

(* ---- well-formed descriptors ------------------------------------------------------------------- *)
Lemma wf_attrs d : wf_descr d = true ->
  d_settarget d = d_name d /\ d_get d = member_attr (d_name d) /\ d_zip d = member_attr (d_name d)
  /\ d_bcast d = member_attr (d_name d) /\ shape_ok (d_shape d) = true.
Proof.
  unfold wf_descr. rewrite !andb_true_iff. intros [[[[H1 H2] H3] H4] H5].
  apply String.eqb_eq in H1, H2, H3, H4. auto.
Qed.

(* assigning a single value gives each member observer that value *)
Lemma scalar_broadcasts d v g : wf_descr d = true -> scalar_case d v = true ->
  exists g', set_sem d v g = (g', Done)
          /\ get_sem d g' = map (fun _ => v) g
          /\ Forall2 (same_except (member_attr (d_name d))) g g'.
Proof.
  intros W S. destruct (wf_attrs d W) as (_ & Hg & Hz & Hb & _).
  unfold set_sem, get_sem, scalar_case in *. rewrite Hg, ?Hz, ?Hb.
  destruct (d_shape d) as [ks|ks tag| |ks| | | |]; try discriminate.
  - destruct (seq_of ks v); [discriminate|].
    eexists; split; [reflexivity|]. split; [apply bcast_get | apply bcast_frame].
  - destruct (seq_of ks v); [discriminate|]. rewrite S.
    eexists; split; [reflexivity|]. split; [apply bcast_get | apply bcast_frame].
  - destruct v; try discriminate. apply negb_true_iff in S. rewrite S.
    eexists; split; [reflexivity|]. split; [apply bcast_get | apply bcast_frame].
Qed.

(* assigning a sequence of group length assigns element-wise *)
Lemma sequence_zips d v vs g : wf_descr d = true -> seq_case d v = Some vs ->
  List.length vs = List.length g ->
  exists g', set_sem d v g = (g', Done)
          /\ get_sem d g' = vs
          /\ Forall2 (same_except (member_attr (d_name d))) g g'.
Proof.
  intros W S L. destruct (wf_attrs d W) as (_ & Hg & Hz & Hb & _).
  apply len_eq_true in L.
  unfold set_sem, get_sem, seq_case, seq_view in *. rewrite Hg, ?Hz, ?Hb.
  destruct (d_shape d) as [ks|ks tag| |ks| | | |]; try discriminate.
  - destruct (seq_of ks v) as [ws|]; [|discriminate]. injection S as ->. rewrite L.
    eexists; split; [reflexivity|]. split; [apply zip_assign_get, len_eq_true, L | apply zip_assign_frame].
  - destruct (seq_of ks v) as [ws|]; [|discriminate].
    destruct (forallb (has_tag tag) ws) eqn:T; [|discriminate]. injection S as ->. rewrite L.
    rewrite (zip_typed_all_ok _ _ _ _ T).
    eexists; split; [reflexivity|]. split; [apply zip_assign_get, len_eq_true, L | apply zip_assign_frame].
  - destruct v; try discriminate. destruct (forallb is_list_or_tuple items); [|discriminate].
    injection S as ->. rewrite L.
    eexists; split; [reflexivity|]. split; [apply zip_assign_get, len_eq_true, L | apply zip_assign_frame].
  - destruct (seq_of ks v) as [ws|]; [|discriminate]. injection S as ->. rewrite L.
    eexists; split; [reflexivity|]. split; [apply zip_assign_get, len_eq_true, L | apply zip_assign_frame].
  - destruct v; try discriminate. injection S as ->. rewrite L.
    eexists; split; [reflexivity|]. split; [apply zip_assign_get, len_eq_true, L | apply zip_assign_frame].
Qed.

(* a sequence of any other length raises ValueError and changes nothing (no hypothesis on d) *)
Lemma wrong_length_raises d v vs g : seq_view d v = Some vs -> List.length vs <> List.length g ->
  set_sem d v g = (g, Raised EValue).
Proof.
  intros S L. apply len_eq_false in L. unfold set_sem, seq_view in *.
  destruct (d_shape d) as [ks|ks tag| |ks| | | |]; try discriminate.
  - destruct (seq_of ks v) as [ws|]; [|discriminate]. injection S as ->. now rewrite L.
  - destruct (seq_of ks v) as [ws|]; [|discriminate]. injection S as ->. now rewrite L.
  - destruct v; try discriminate. destruct (forallb is_list_or_tuple items); [|discriminate].
    injection S as ->. now rewrite L.
  - destruct (seq_of ks v) as [ws|]; [|discriminate]. injection S as ->. now rewrite L.
  - destruct v; try discriminate. injection S as ->. now rewrite L.
Qed.

(* reading returns the members' current values in member order *)
Lemma get_in_order d g : wf_descr d = true ->
  get_sem d g = map (mget (member_attr (d_name d))) g
  /\ List.length (get_sem d g) = List.length g
  /\ forall i m, nth_error g i = Some m -> nth_error (get_sem d g) i = Some (mget (member_attr (d_name d)) m).
Proof.
  intro W. destruct (wf_attrs d W) as (_ & Hg & _). unfold get_sem. rewrite Hg.
  split; [reflexivity|]. split; [apply map_length|].
  intros i m H. now apply map_nth_error.
Qed.

(* whatever the descriptor (well formed or not) and whatever the outcome, an assignment never
   touches identity, type, parent or observe count of a member, nor the number of members *)
Lemma set_sem_meta d v g : Forall2 same_meta g (fst (set_sem d v g)).
Proof.
  assert (R : Forall2 same_meta g g) by (apply Forall2_refl_on, same_meta_refl).
  assert (F : forall a g', Forall2 (same_except a) g g' -> Forall2 same_meta g g').
  { intros a g' H. eapply Forall2_weaken; [|exact H]. intros x y; apply same_except_meta. }
  unfold set_sem.
  destruct (d_shape d) as [ks|ks tag| |ks| | | |]; cbn [fst]; try exact R.
  - destruct (seq_of ks v); [destruct (len_eq l g)|]; cbn [fst]; eauto using zip_assign_frame, bcast_frame.
  - destruct (seq_of ks v); [destruct (len_eq l g)|destruct (has_tag tag v)]; cbn [fst];
      eauto using zip_typed_frame, bcast_frame.
  - destruct v; cbn [fst]; try exact R.
    destruct (forallb is_list_or_tuple items); [destruct (len_eq items g)|]; cbn [fst];
      eauto using zip_assign_frame, bcast_frame.
  - destruct (seq_of ks v); [destruct (len_eq l g)|]; cbn [fst]; eauto using zip_assign_frame.
  - destruct v; cbn [fst]; try exact R. destruct (len_eq items g); cbn [fst]; eauto using zip_assign_frame.
Qed.

(* and with a well-formed descriptor it touches no other attribute either, whatever the outcome *)
Lemma set_sem_frame d v g : wf_descr d = true ->
  Forall2 (same_except (member_attr (d_name d))) g (fst (set_sem d v g)).
Proof.
  intro W. destruct (wf_attrs d W) as (_ & _ & Hz & Hb & _).
  assert (R : Forall2 (same_except (member_attr (d_name d))) g g) by (apply Forall2_refl_on, same_except_refl).
  unfold set_sem. rewrite Hz, Hb.
  destruct (d_shape d) as [ks|ks tag| |ks| | | |]; cbn [fst]; try exact R.
  - destruct (seq_of ks v); [destruct (len_eq l g)|]; cbn [fst]; auto using zip_assign_frame, bcast_frame.
  - destruct (seq_of ks v); [destruct (len_eq l g)|destruct (has_tag tag v)]; cbn [fst];
      auto using zip_typed_frame, bcast_frame.
  - destruct v; cbn [fst]; try exact R.
    destruct (forallb is_list_or_tuple items); [destruct (len_eq items g)|]; cbn [fst];
      auto using zip_assign_frame, bcast_frame.
  - destruct (seq_of ks v); [destruct (len_eq l g)|]; cbn [fst]; auto using zip_assign_frame.
  - destruct v; cbn [fst]; try exact R. destruct (len_eq items g); cbn [fst]; auto using zip_assign_frame.
Qed.

(* ---- a member refuses its value half way ------------------------------------------------------- *)
Lemma Forall2_upto {A} (R : A -> A -> Prop) (k : nat) (l front : list A) :
  Forall2 R (firstn k l) front -> (forall x, R x x) -> Forall2 R l (front ++ skipn k l).
Proof.
  intros F Rr. rewrite <- (firstn_skipn k l) at 1. apply Forall2_app; [exact F | now apply Forall2_refl_on].
Qed.

(* also then: no other attribute, no identity / type / parent / observe count, not the membership *)
Lemma set_sem_rej_frame d v k e g : wf_descr d = true ->
  Forall2 (same_except (member_attr (d_name d))) g (fst (set_sem_rej d v k e g)).
Proof.
  intro W. pose proof (set_sem_frame d v g W) as S0.
  destruct (wf_attrs d W) as (_ & _ & Hz & Hb & _).
  assert (R : Forall2 (same_except (member_attr (d_name d))) g g) by (apply Forall2_refl_on, same_except_refl).
  unfold set_sem_rej. rewrite Hz, Hb.
  destruct (d_shape d) as [ks|ks tag| |ks| | | |] eqn:Sh; try exact S0;
    (destruct (seq_view d v) as [vs|];
     [ destruct (len_eq vs g); cbn [fst]; [apply Forall2_upto; [apply zip_assign_frame | apply same_except_refl] | exact R]
     | destruct (scalar_case d v); cbn [fst]; [apply Forall2_upto; [apply bcast_frame | apply same_except_refl] | exact S0] ]).
Qed.

Lemma set_sem_rej_meta d v k e g : Forall2 same_meta g (fst (set_sem_rej d v k e g)).
Proof.
  pose proof (set_sem_meta d v g) as S0.
  assert (R : Forall2 same_meta g g) by (apply Forall2_refl_on, same_meta_refl).
  assert (Z : forall a vs, Forall2 same_meta (firstn k g) (zip_assign a (firstn k g) vs)).
  { intros a vs. eapply Forall2_weaken; [|apply zip_assign_frame]. intros x y; apply same_except_meta. }
  assert (B : forall a, Forall2 same_meta (firstn k g) (bcast a v (firstn k g))).
  { intros a. eapply Forall2_weaken; [|apply bcast_frame]. intros x y; apply same_except_meta. }
  unfold set_sem_rej.
  destruct (d_shape d) as [ks|ks tag| |ks| | | |] eqn:Sh; try exact S0;
    (destruct (seq_view d v) as [vs|];
     [ destruct (len_eq vs g); cbn [fst]; [apply Forall2_upto; [apply Z | apply same_meta_refl] | exact R]
     | destruct (scalar_case d v); cbn [fst]; [apply Forall2_upto; [apply B | apply same_meta_refl] | exact S0] ]).
Qed.

(* the group's own length check comes before any member sees a value *)
Lemma set_sem_rej_wrong_length d v vs k e g : shape_ok (d_shape d) = true ->
  (forall ks tag, d_shape d <> TypedBroadcast ks tag) ->
  seq_view d v = Some vs -> List.length vs <> List.length g ->
  set_sem_rej d v k e g = (g, Raised EValue).
Proof.
  intros Ok NT S L. apply len_eq_false in L. unfold set_sem_rej.
  destruct (d_shape d) as [ks|ks tag| |ks| | | |] eqn:Sh; try discriminate Ok;
    try (exfalso; eapply NT; reflexivity); now rewrite S, L.
Qed.

(* ---- tables ------------------------------------------------------------------------------------- *)
(* the four claims of the property for one descriptor *)
Definition satisfies_property (d : descr) : Prop :=
  forall (g : group) (v : val),
     (scalar_case d v = true ->
        exists g', set_sem d v g = (g', Done) /\ get_sem d g' = map (fun _ => v) g
                /\ Forall2 (same_except (member_attr (d_name d))) g g')
  /\ (forall vs, seq_case d v = Some vs -> List.length vs = List.length g ->
        exists g', set_sem d v g = (g', Done) /\ get_sem d g' = vs
                /\ Forall2 (same_except (member_attr (d_name d))) g g')
  /\ (forall vs, seq_view d v = Some vs -> List.length vs <> List.length g ->
        set_sem d v g = (g, Raised EValue))
  /\ get_sem d g = map (mget (member_attr (d_name d))) g.

Lemma wf_satisfies d : wf_descr d = true -> satisfies_property d.
Proof.
  intros W g v. repeat split.
  - intro S. now apply scalar_broadcasts.
  - intros vs S L. now apply sequence_zips with (v := v).
  - intros vs S L. now apply wrong_length_raises with (vs := vs).
  - now apply get_in_order.
Qed.

Definition is_members (d : descr) : bool := match d_shape d with Members => true | _ => false end.

Lemma wf_entry_descr d : wf_entry d = true -> is_members d = false -> wf_descr d = true.
Proof. unfold wf_entry, is_members. destruct (d_shape d); auto; discriminate. Qed.

(* any table whose entries pass the boolean test (this is what Gen/C15/Tie_wf.v establishes for the
   table regenerated from the source) satisfies the property at every broadcast attribute *)
Lemma table_satisfies (tbl : list descr) : forallb wf_entry tbl = true ->
  forall d, In d tbl -> is_members d = false -> satisfies_property d.
Proof.
  intros H d I M. rewrite forallb_forall in H. apply wf_satisfies, wf_entry_descr; auto.
Qed.

Lemma canonical_wf : forallb (fun c => forallb wf_entry (c_table c)) canonical = true.
Proof. vm_compute. reflexivity. Qed.

Lemma canonical_satisfies c d : In c canonical -> In d (c_table c) -> is_members d = false -> satisfies_property d.
Proof.
  intros Ic Id M. pose proof canonical_wf as H. rewrite forallb_forall in H.
  eapply table_satisfies; eauto.
Qed.
