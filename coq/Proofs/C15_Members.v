(* Lemmas about membership: retrieval by index / slice / name, adding, the type guard, the
   invariant of every history, observing (Model/C15_Groups.v). *)
Require Import Cherab.Common.Qx.
From Coq Require Import String.
Require Import Cherab.Model.C15_Groups Cherab.Model.C15_Table Cherab.Proofs.C15_Setters.
Open Scope string_scope.
Open Scope list_scope.
Open Scope Z_scope.

(* ---- retrieval by index (both flavours) ---------------------------------------------------- *)
Lemma getitem_int c i g :
  getitem c (KInt i) g =
  match norm_index (Z.of_nat (List.length g)) i with
  | Some j => match nth_error g (Z.to_nat j) with Some m => RMem (mid m) | None => RErr EIndex end
  | None => RErr EIndex
  end.
Proof. unfold getitem. destruct (c_flavour c); reflexivity. Qed.

Lemma nth_error_in_range {A} (l : list A) (j : Z) : 0 <= j < Z.of_nat (List.length l) ->
  exists x, nth_error l (Z.to_nat j) = Some x.
Proof.
  intro H. destruct (nth_error l (Z.to_nat j)) eqn:E; [eauto|].
  apply nth_error_None in E. lia.
Qed.

Lemma index_lookup c g i : let n := Z.of_nat (List.length g) in
     (0 <= i < n -> exists m, nth_error g (Z.to_nat i) = Some m /\ getitem c (KInt i) g = RMem (mid m))
  /\ (- n <= i < 0 -> exists m, nth_error g (Z.to_nat (n + i)) = Some m /\ getitem c (KInt i) g = RMem (mid m))
  /\ (i < - n \/ n <= i -> getitem c (KInt i) g = RErr EIndex).
Proof.
  intro n. rewrite getitem_int. fold n. unfold norm_index. repeat split.
  - intro H. destruct (nth_error_in_range g i H) as [m E]. exists m.
    replace ((0 <=? i) && (i <? n)) with true by (symmetry; apply andb_true_iff; split; [apply Z.leb_le|apply Z.ltb_lt]; lia).
    now rewrite E.
  - intro H. assert (R : 0 <= n + i < n) by lia. destruct (nth_error_in_range g (n + i) R) as [m E]. exists m.
    replace ((0 <=? i) && (i <? n)) with false
      by (symmetry; apply andb_false_iff; left; apply Z.leb_gt; lia).
    replace ((i <? 0) && (0 <=? i + n)) with true
      by (symmetry; apply andb_true_iff; split; [apply Z.ltb_lt|apply Z.leb_le]; lia).
    replace (i + n) with (n + i) by lia. now rewrite E.
  - intro H.
    replace ((0 <=? i) && (i <? n)) with false
      by (symmetry; apply andb_false_iff; destruct H; [left; apply Z.leb_gt|right; apply Z.ltb_ge]; lia).
    replace ((i <? 0) && (0 <=? i + n)) with false
      by (symmetry; apply andb_false_iff; destruct H; [right; apply Z.leb_gt|left; apply Z.ltb_ge]; lia).
    reflexivity.
Qed.

(* ---- retrieval by slice ----------------------------------------------------------------------- *)
Lemma slice_is_contiguous {A} (l : list A) lo hi : exists pre post, l = pre ++ slice_of l lo hi ++ post.
Proof.
  unfold slice_of.
  set (a := Z.to_nat (clamp (Z.of_nat (List.length l)) lo 0)).
  set (k := Z.to_nat _).
  exists (firstn a l), (skipn k (skipn a l)).
  now rewrite (firstn_skipn k (skipn a l)), (firstn_skipn a l).
Qed.

Lemma nth_error_nil {A} i : @nth_error A [] i = None.
Proof. destruct i; reflexivity. Qed.

Lemma nth_error_firstn_lt {A} : forall (l : list A) n i, (i < n)%nat -> nth_error (firstn n l) i = nth_error l i.
Proof.
  induction l as [|x l IH]; intros n i H.
  - rewrite firstn_nil. reflexivity.
  - destruct n; [lia|]. destruct i; cbn; [reflexivity | apply IH; lia].
Qed.

Lemma nth_error_skipn_plus {A} : forall (l : list A) n i, nth_error (skipn n l) i = nth_error l (n + i).
Proof.
  induction l as [|x l IH]; intros n i.
  - rewrite skipn_nil, !nth_error_nil. reflexivity.
  - destruct n; cbn; [reflexivity | apply IH].
Qed.

(* explicit bounds inside the group: the slice holds exactly the members lo .. hi-1, in order *)
Lemma slice_nth {A} (l : list A) lo hi j : 0 <= lo -> lo <= hi -> hi <= Z.of_nat (List.length l) -> lo <= j < hi ->
  nth_error (slice_of l (Some lo) (Some hi)) (Z.to_nat (j - lo)) = nth_error l (Z.to_nat j).
Proof.
  intros H0 H1 H2 H3. unfold slice_of, clamp.
  replace (lo <? 0) with false by (symmetry; apply Z.ltb_ge; lia).
  replace (hi <? 0) with false by (symmetry; apply Z.ltb_ge; lia).
  set (n := Z.of_nat (List.length l)) in *.
  replace (Z.max 0 (Z.min n lo)) with lo by lia.
  replace (Z.max 0 (Z.min n hi)) with hi by lia.
  rewrite nth_error_firstn_lt by lia.
  rewrite nth_error_skipn_plus. f_equal. lia.
Qed.

Lemma slice_length {A} (l : list A) lo hi : 0 <= lo -> lo <= hi -> hi <= Z.of_nat (List.length l) ->
  Z.of_nat (List.length (slice_of l (Some lo) (Some hi))) = hi - lo.
Proof.
  intros H0 H1 H2. unfold slice_of, clamp.
  replace (lo <? 0) with false by (symmetry; apply Z.ltb_ge; lia).
  replace (hi <? 0) with false by (symmetry; apply Z.ltb_ge; lia).
  set (n := Z.of_nat (List.length l)) in *.
  replace (Z.max 0 (Z.min n lo)) with lo by lia.
  replace (Z.max 0 (Z.min n hi)) with hi by lia.
  rewrite firstn_length, skipn_length. lia.
Qed.

Lemma slice_lookup c g lo hi :
  getitem c (KSlice lo hi) g = RMems (map mid (slice_of g lo hi))
  /\ exists pre post, g = pre ++ slice_of g lo hi ++ post.
Proof.
  unfold getitem. split; [destruct (c_flavour c); reflexivity | apply slice_is_contiguous].
Qed.

(* ---- retrieval by name --------------------------------------------------------------------------- *)
Definition none_named (s : string) (l : group) : Prop := forallb (fun m => negb (name_is s m)) l = true.

Lemma by_name_none s l : none_named s l -> by_name s l = [].
Proof.
  unfold none_named, by_name. induction l as [|m l IH]; cbn [forallb filter]; [reflexivity|].
  rewrite andb_true_iff, negb_true_iff. intros [H1 H2]. now rewrite H1, IH.
Qed.

Lemma by_name_unique s pre m post : name_is s m = true -> none_named s pre -> none_named s post ->
  by_name s (pre ++ m :: post) = [m].
Proof.
  intros H P Q. unfold by_name. rewrite filter_app. cbn [filter]. rewrite H.
  fold (by_name s pre) (by_name s post). now rewrite (by_name_none _ _ P), (by_name_none _ _ Q).
Qed.

Lemma unique_name_lookup c s pre m post : name_is s m = true -> none_named s pre -> none_named s post ->
  getitem c (KStr s) (pre ++ m :: post) = RMem (mid m).
Proof.
  intros H P Q. unfold getitem, getitem_0d, getitem_bolo.
  destruct (c_flavour c); now rewrite (by_name_unique s pre m post H P Q).
Qed.

Lemma absent_name_lookup c s g : none_named s g -> getitem c (KStr s) g = RErr EValue.
Proof.
  intro P. unfold getitem, getitem_0d, getitem_bolo. destruct (c_flavour c); now rewrite (by_name_none _ _ P).
Qed.

Lemma duplicate_name_lookup c s pre m1 mid' m2 post : c_flavour c = FObserver0D ->
  name_is s m1 = true -> name_is s m2 = true ->
  getitem c (KStr s) (pre ++ m1 :: mid' ++ m2 :: post) = RErr EValue.
Proof.
  intros F H1 H2. unfold getitem, getitem_0d. rewrite F. unfold by_name.
  rewrite filter_app. cbn [filter]. rewrite H1, filter_app. cbn [filter]. rewrite H2.
  destruct (filter (name_is s) pre) as [|x [|y t]]; cbn [app]; try reflexivity.
  - destruct (filter (name_is s) mid'); reflexivity.
Qed.

(* ---- adding, type guard --------------------------------------------------------------------------- *)
Lemma add_accepted c e g id ty st : zlookup id (e_pool e) = Some (ty, st) -> accepts c ty = true ->
  step c e g (OAdd id) =
  (g ++ [{| mid := id; mtype := ty; mparent := gid; mobs := 0; mstore := st |}], ROk).
Proof. intros L A. cbn [step]. unfold type_of, fresh. now rewrite L, A. Qed.

Lemma add_rejected c e g id ty st : zlookup id (e_pool e) = Some (ty, st) -> accepts c ty = false ->
  step c e g (OAdd id) = (g, RErr (add_err c)).
Proof. intros L A. cbn [step]. unfold type_of, fresh. now rewrite L, A. Qed.

Lemma setmembers_rejected c e g k ids : all_accepted c e ids = false ->
  exists x, step c e g (OSetMembers k ids) = (g, RErr x).
Proof.
  intro A. cbn [step]. rewrite A. cbn [negb].
  destruct (negb _); eauto.
Qed.

(* ---- the invariant of every history ------------------------------------------------------------ *)
Definition member_ok (c : gcls) (m : member) : Prop := mparent m = gid /\ accepts c (mtype m) = true.

Lemma find_some_in {A} (p : A -> bool) l x : find p l = Some x -> In x l.
Proof. intro H. now apply find_some in H. Qed.

Lemma members_for_ok c e g : Forall (member_ok c) g -> forall ids g',
  all_accepted c e ids = true -> members_for e g ids = Some g' -> Forall (member_ok c) g'.
Proof.
  intros G. induction ids as [|id t IH]; intros g' A M; cbn [members_for] in M.
  - injection M as <-. constructor.
  - cbn [all_accepted forallb] in A. apply andb_true_iff in A as [A1 A2].
    destruct (member_for e g id) as [m|] eqn:E1; [|discriminate].
    destruct (members_for e g t) as [r|] eqn:E2; [|discriminate].
    injection M as <-. constructor; [|now apply IH].
    unfold member_for in E1. destruct (find _ g) as [m0|] eqn:F.
    + injection E1 as <-. apply find_some_in in F. rewrite Forall_forall in G.
      split; [reflexivity | cbn; now apply G].
    + unfold fresh in E1. unfold type_of in A1.
      destruct (zlookup id (e_pool e)) as [[ty st]|]; [|discriminate].
      injection E1 as <-. split; [reflexivity | exact A1].
Qed.

Lemma Forall_same_meta c g g' : Forall2 same_meta g g' -> Forall (member_ok c) g -> Forall (member_ok c) g'.
Proof.
  intro F. induction F as [|m m' g g' (H1 & H2 & H3 & H4) F IH]; intro G; [constructor|].
  inversion G as [|? ? [P A] G']; subst. constructor; [|now apply IH].
  unfold member_ok. now rewrite H2, H3.
Qed.

Lemma connect_sem_meta c cl nk w obs g : Forall2 same_meta g (fst (connect_sem c cl nk w obs g)).
Proof.
  assert (R : Forall2 same_meta g g) by (apply Forall2_refl_on, same_meta_refl).
  unfold connect_sem.
  destruct (find _ (c_table c)); [|exact R]. destruct (find _ (c_table c)); [exact R|].
  destruct (match nk with Some k => negb (Nat.eqb k (List.length cl)) | None => false end); [exact R|].
  assert (Z : Forall2 same_meta g (fst (if connect_valid cl w obs g
              then (zip_assign "pipelines" g (map pipelines_value obs), ROk) else (g, RErr EOther)))).
  { destruct (connect_valid cl w obs g); cbn [fst]; [|exact R].
    eapply Forall2_weaken; [|apply zip_assign_frame]. intros x y; apply same_except_meta. }
  destruct cl; [destruct g; [exact Z | exact R] | exact Z].
Qed.

Lemma step_ok c e g o : Forall (member_ok c) g -> Forall (member_ok c) (fst (step c e g o)).
Proof.
  intro G. destruct o as [id|k ids|a v|a|k| | |id' a v| |a v k' e'| |cl nk w obs]; cbn [step]; try exact G.
  - destruct (type_of e id) as [ty|] eqn:T; [|exact G].
    destruct (fresh e id) as [m|] eqn:Fr; [|exact G].
    destruct (accepts c ty) eqn:A; [|exact G]. cbn [fst].
    apply Forall_app; split; [exact G|]. constructor; [|constructor].
    unfold fresh in Fr. unfold type_of in T.
    destruct (zlookup id (e_pool e)) as [[ty' st]|]; [|discriminate].
    injection T as <-. injection Fr as <-. split; [reflexivity | exact A].
  - destruct (negb _); [exact G|].
    destruct (all_accepted c e ids) eqn:A; cbn [negb]; [|exact G].
    destruct (members_for e g ids) as [g'|] eqn:M; [|exact G].
    cbn [fst]. eapply members_for_ok; eauto.
  - destruct (find_descr c a) as [d|]; [|exact G].
    pose proof (set_sem_meta d v g) as F. destruct (set_sem d v g) as [g' o]. cbn [fst] in *.
    eapply Forall_same_meta; eauto.
  - destruct (find_descr c a); exact G.
  - cbn [fst]. induction G as [|m g [P A] G IH]; cbn [map]; constructor; auto. split; assumption.
  - cbn [fst]. induction G as [|m g [P A] G IH]; cbn [map]; constructor; auto.
    destruct (mid m =? id'); split; assumption.
  - destruct (find_descr c a) as [d|]; [|exact G].
    pose proof (set_sem_rej_meta d v k' e' g) as F. destruct (set_sem_rej d v k' e' g) as [g' o]. cbn [fst] in *.
    eapply Forall_same_meta; eauto.
  - eapply Forall_same_meta; [apply connect_sem_meta | exact G].
Qed.

Lemma exec_cons c e g o ops : exec c e g (o :: ops) = exec c e (fst (step c e g o)) ops.
Proof.
  unfold exec. cbn [run]. destruct (step c e g o) as [g1 r]. cbn [fst].
  destruct (run c e g1 ops). reflexivity.
Qed.

(* after ANY history every member's scene-graph parent is the group and every member is an
   observer of the group's type *)
Lemma history_invariant c e ops : forall g, Forall (member_ok c) g -> Forall (member_ok c) (exec c e g ops).
Proof.
  induction ops as [|o ops IH]; intros g G; [exact G|].
  rewrite exec_cons. apply IH, step_ok, G.
Qed.

(* membership (identities and their order) changes only through adding and through assignment of
   the member list: every other operation leaves the list of identities as it is *)
Definition changes_membership (o : op) : bool :=
  match o with OAdd _ | OSetMembers _ _ => true | _ => false end.

Lemma same_meta_ids g g' : Forall2 same_meta g g' -> map mid g' = map mid g.
Proof. intro F. induction F as [|m m' g g' (H & _) F IH]; cbn [map]; [reflexivity | now rewrite H, IH]. Qed.

Lemma membership_stable c e g o : changes_membership o = false ->
  map mid (fst (step c e g o)) = map mid g.
Proof.
  intro H. destruct o as [id|k ids|a v|a|k| | |id' a v| |a v k' e'| |cl nk w obs]; try discriminate; cbn [step]; try reflexivity.
  - destruct (find_descr c a) as [d|]; [|reflexivity].
    pose proof (set_sem_meta d v g) as F. destruct (set_sem d v g) as [g' o]. cbn [fst] in *.
    now apply same_meta_ids.
  - destruct (find_descr c a); reflexivity.
  - cbn [fst]. rewrite map_map. apply map_ext. reflexivity.
  - cbn [fst]. rewrite map_map. apply map_ext. intro m. destruct (mid m =? id'); reflexivity.
  - destruct (find_descr c a) as [d|]; [|reflexivity].
    pose proof (set_sem_rej_meta d v k' e' g) as F. destruct (set_sem_rej d v k' e' g) as [g' o]. cbn [fst] in *.
    now apply same_meta_ids.
  - apply same_meta_ids, connect_sem_meta.
Qed.

(* ---- distinct objects stay distinct members -------------------------------------------------- *)
Fixpoint nodupb (l : list Z) : bool :=
  match l with [] => true | x :: t => negb (existsb (Z.eqb x) t) && nodupb t end.

(* the history adds only objects that are not members yet and assigns member lists without repeats *)
Definition op_fresh (g : group) (o : op) : bool :=
  match o with
  | OAdd id => negb (existsb (Z.eqb id) (map mid g))
  | OSetMembers _ ids => nodupb ids
  | _ => true
  end.

Fixpoint hist_fresh (c : gcls) (e : env) (g : group) (ops : list op) : bool :=
  match ops with
  | [] => true
  | o :: t => op_fresh g o && hist_fresh c e (fst (step c e g o)) t
  end.

Lemma existsb_eqb_false x l : existsb (Z.eqb x) l = false -> ~ In x l.
Proof.
  intros H I. assert (E : existsb (Z.eqb x) l = true) by (apply existsb_exists; exists x; split; [exact I | apply Z.eqb_refl]).
  congruence.
Qed.

Lemma nodupb_NoDup l : nodupb l = true -> NoDup l.
Proof.
  induction l as [|x l IH]; cbn [nodupb]; intro H; constructor.
  - apply andb_true_iff in H as [H _]. apply negb_true_iff in H. now apply existsb_eqb_false.
  - apply IH. now apply andb_true_iff in H as [_ H].
Qed.

Lemma NoDup_snoc (l : list Z) x : NoDup l -> ~ In x l -> NoDup (l ++ [x]).
Proof.
  induction l as [|a l IH]; intros N H; cbn [app].
  - constructor; [intros [] | constructor].
  - inversion N as [|? ? Na Nl]; subst. constructor.
    + rewrite in_app_iff. intros [I|[E|[]]]; [contradiction | subst; apply H; now left].
    + apply IH; [exact Nl | intro I; apply H; now right].
Qed.

Lemma member_for_id e g id m : member_for e g id = Some m -> mid m = id.
Proof.
  unfold member_for. destruct (find _ g) as [m0|] eqn:F.
  - intro E. injection E as <-. cbn. apply find_some in F as [_ F]. now apply Z.eqb_eq in F.
  - unfold fresh. destruct (zlookup id (e_pool e)) as [[ty st]|]; [|discriminate].
    intro E. now injection E as <-.
Qed.

Lemma members_for_ids e g : forall ids g', members_for e g ids = Some g' -> map mid g' = ids.
Proof.
  induction ids as [|id t IH]; intros g' M; cbn [members_for] in M.
  - now injection M as <-.
  - destruct (member_for e g id) as [m|] eqn:E1; [|discriminate].
    destruct (members_for e g t) as [r|] eqn:E2; [|discriminate].
    injection M as <-. cbn [map]. now rewrite (member_for_id _ _ _ _ E1), (IH r).
Qed.

Lemma step_nodup c e g o : NoDup (map mid g) -> op_fresh g o = true -> NoDup (map mid (fst (step c e g o))).
Proof.
  intros N Fr. destruct (changes_membership o) eqn:Ch.
  - destruct o as [id|k ids|a v|a|k| | |id' a v| |a v k' e'| |cl nk w obs]; try discriminate; cbn [step op_fresh] in *.
    + destruct (type_of e id) as [ty|]; [|exact N].
      destruct (fresh e id) as [m|] eqn:F; [|exact N].
      destruct (accepts c ty); [|exact N]. cbn [fst]. rewrite map_app. cbn [map].
      assert (mid m = id) as ->.
      { unfold fresh in F. destruct (zlookup id (e_pool e)) as [[ty' st]|]; [|discriminate]. now injection F as <-. }
      apply NoDup_snoc; [exact N|]. apply negb_true_iff in Fr. now apply existsb_eqb_false.
    + destruct (negb _); [exact N|]. destruct (negb (all_accepted c e ids)); [exact N|].
      destruct (members_for e g ids) as [g'|] eqn:M; [|exact N]. cbn [fst].
      rewrite (members_for_ids _ _ _ _ M). now apply nodupb_NoDup.
  - now rewrite membership_stable.
Qed.

Lemma history_nodup c e ops : forall g, NoDup (map mid g) -> hist_fresh c e g ops = true ->
  NoDup (map mid (exec c e g ops)).
Proof.
  induction ops as [|o ops IH]; intros g N H; [exact N|].
  cbn [hist_fresh] in H. apply andb_true_iff in H as [H1 H2].
  rewrite exec_cons. apply IH; [now apply step_nodup | exact H2].
Qed.

(* ---- iteration, construction, member-list assignment ------------------------------------------- *)
Lemma iterate_from_spec : forall rest pre fuel, (List.length rest < fuel)%nat ->
  iterate_from fuel (Z.of_nat (List.length pre)) (pre ++ rest) = map mid rest.
Proof.
  induction rest as [|x rest IH]; intros pre fuel F; (destruct fuel as [|fuel]; [inversion F|]); cbn [iterate_from getitem_0d].
  - rewrite app_nil_r. unfold norm_index.
    replace ((0 <=? Z.of_nat (List.length pre)) && (Z.of_nat (List.length pre) <? Z.of_nat (List.length pre))) with false
      by (symmetry; apply andb_false_iff; right; apply Z.ltb_ge; lia).
    replace (Z.of_nat (List.length pre) <? 0) with false by (symmetry; apply Z.ltb_ge; lia).
    reflexivity.
  - unfold norm_index. rewrite app_length. cbn [List.length].
    replace ((0 <=? Z.of_nat (List.length pre)) && (Z.of_nat (List.length pre) <? Z.of_nat (List.length pre + S (List.length rest)))) with true
      by (symmetry; apply andb_true_iff; split; [apply Z.leb_le | apply Z.ltb_lt]; lia).
    rewrite Nat2Z.id, nth_error_app2 by lia. rewrite Nat.sub_diag. cbn [nth_error map].
    f_equal. specialize (IH (pre ++ [x]) fuel). rewrite app_length in IH. cbn [List.length] in IH.
    rewrite <- app_assoc in IH. cbn [app] in IH.
    replace (Z.of_nat (List.length pre) + 1) with (Z.of_nat (List.length pre + 1)) by lia.
    apply IH. cbn [List.length] in F. lia.
Qed.

(* the iteration protocol (a loop over __getitem__ ended by IndexError) yields every member once, in order *)
Lemma iterate_members c g : iterate c g = RMems (map mid g).
Proof.
  unfold iterate. destruct (c_flavour c); [|reflexivity].
  f_equal. apply (iterate_from_spec g [] (S (List.length g))). lia.
Qed.

Definition addable (c : gcls) (e : env) (id : Z) : Prop :=
  exists ty st, zlookup id (e_pool e) = Some (ty, st) /\ accepts c ty = true.

(* observers given to the constructor (a loop of add_observer, base.py:55-60) become the members in
   the order given, after whatever was there, each with the group as parent and not yet observed *)
Lemma construct_adds_in_order c e : forall ids g, Forall (addable c e) ids ->
  exists ms, exec c e g (map OAdd ids) = g ++ ms /\ map mid ms = ids
             /\ Forall (fun m => mparent m = gid /\ mobs m = 0 /\ accepts c (mtype m) = true) ms.
Proof.
  induction ids as [|id ids IH]; intros g F.
  - exists []. rewrite app_nil_r. repeat split; constructor.
  - inversion F as [|? ? (ty & st & L & A) F']; subst. cbn [map]. rewrite exec_cons, (add_accepted c e g id ty st L A).
    cbn [fst]. destruct (IH (g ++ [{| mid := id; mtype := ty; mparent := gid; mobs := 0; mstore := st |}]) F') as (ms & E & I & P).
    eexists (_ :: ms). rewrite E, <- app_assoc. cbn [app]. split; [reflexivity|]. split; [cbn [map mid]; now rewrite I|].
    constructor; [cbn; auto | exact P].
Qed.

Definition seq_kind_ok (c : gcls) (k : option kind) : bool :=
  match c_flavour c, k with
  | FObserver0D, Some KList | FObserver0D, Some KTuple | FBolometer, Some KList => true
  | _, _ => false
  end.

Definition kept_or_fresh (e : env) (g : group) (m' : member) : Prop :=
  mparent m' = gid /\
  ((exists m, In m g /\ mid m = mid m' /\ mtype m = mtype m' /\ mobs m = mobs m' /\ mstore m = mstore m')
   \/ fresh e (mid m') = Some m').

Lemma members_for_kept e g : forall ids g', members_for e g ids = Some g' -> Forall (kept_or_fresh e g) g'.
Proof.
  induction ids as [|id t IH]; intros g' M; cbn [members_for] in M.
  - injection M as <-. constructor.
  - destruct (member_for e g id) as [m|] eqn:E1; [|discriminate].
    destruct (members_for e g t) as [r|] eqn:E2; [|discriminate].
    injection M as <-. constructor; [|now apply IH].
    pose proof (member_for_id _ _ _ _ E1) as Hid.
    unfold member_for in E1. destruct (find _ g) as [m0|] eqn:F.
    + injection E1 as <-. split; [reflexivity|]. left. exists m0. apply find_some in F as [I _]. cbn. auto.
    + split; [unfold fresh in E1; destruct (zlookup id (e_pool e)) as [[ty st]|]; [|discriminate]; now injection E1 as <- |].
      right. now rewrite Hid.
Qed.

(* assigning the member list: the members become exactly the list given, in its order; an observer that
   already was a member keeps its attribute values and observe count, a new one starts fresh; all have the
   group as parent *)
Lemma setmembers_accepted c e g k ids g' : seq_kind_ok c k = true -> all_accepted c e ids = true ->
  members_for e g ids = Some g' ->
  step c e g (OSetMembers k ids) = (g', ROk) /\ map mid g' = ids /\ Forall (kept_or_fresh e g) g'.
Proof.
  intros K A M. split; [|split; [eapply members_for_ids; eauto | eapply members_for_kept; eauto]].
  cbn [step]. unfold seq_kind_ok in K.
  destruct (c_flavour c), k as [[| |]|]; try discriminate K; cbn [negb]; now rewrite A, M.
Qed.

(* a member list of the wrong container kind is a TypeError and changes nothing *)
Lemma setmembers_bad_kind c e g k ids : seq_kind_ok c k = false ->
  step c e g (OSetMembers k ids) = (g, RErr EType).
Proof.
  intro K. cbn [step]. unfold seq_kind_ok in K.
  destruct (c_flavour c), k as [[| |]|]; try discriminate K; reflexivity.
Qed.

(* ---- connect_pipelines: identity-free specification ----------------------------------------------- *)
Lemma zlist_eq_true : forall a b, zlist_eq a b = true -> a = b.
Proof.
  induction a as [|x a IH]; intros [|y b] H; cbn in H; try discriminate; [reflexivity|].
  apply andb_true_iff in H as [H1 H2]. apply Z.eqb_eq in H1. subst. f_equal. now apply IH.
Qed.

Lemma nodupz_NoDup l : nodupz l = true -> NoDup l.
Proof.
  induction l as [|x l IH]; cbn [nodupz]; intro H; constructor.
  - apply andb_true_iff in H as [H _]. apply negb_true_iff in H. now apply existsb_eqb_false.
  - apply IH. now apply andb_true_iff in H as [_ H].
Qed.

Lemma connect_valid_spec cl w obs g g' :
  (if connect_valid cl w obs g then (zip_assign "pipelines" g (map pipelines_value obs), ROk)
   else (g, RErr EOther)) = (g', ROk) ->
  List.length obs = List.length g
  /\ Forall (fun row => map fst row = cl) obs
  /\ NoDup (map snd (List.concat obs))
  /\ Forall (fun p => w < snd p) (List.concat obs)
  /\ map (mget "pipelines") g' = map pipelines_value obs
  /\ Forall2 (same_except "pipelines") g g'.
Proof.
  destruct (connect_valid cl w obs g) eqn:V; [|discriminate]. intro E. injection E as <-.
  unfold connect_valid in V. rewrite !andb_true_iff in V. destruct V as [[[V1 V2] V3] V4].
  apply Nat.eqb_eq in V1.
  split; [exact V1|]. split.
  { apply Forall_forall. intros row I. rewrite forallb_forall in V2. now apply zlist_eq_true, V2. }
  split; [now apply nodupz_NoDup|]. split.
  { apply Forall_forall. intros p I. rewrite forallb_forall in V4. apply Z.ltb_lt. now apply V4. }
  split; [apply zip_assign_get; now rewrite map_length | apply zip_assign_frame].
Qed.

(* whenever connect_pipelines is accepted by the model: one row of new pipelines per member, each row of
   exactly the requested classes, no pipeline object shared between or within members, none older than
   the call; every member's pipelines attribute is its row, nothing else about any member changes *)
Lemma connect_spec c e cl nk w obs g g' : step c e g (OConnect cl nk w obs) = (g', ROk) ->
  List.length obs = List.length g
  /\ Forall (fun row => map fst row = cl) obs
  /\ NoDup (map snd (List.concat obs))
  /\ Forall (fun p => w < snd p) (List.concat obs)
  /\ map (mget "pipelines") g' = map pipelines_value obs
  /\ Forall2 (same_except "pipelines") g g'.
Proof.
  cbn [step]. unfold connect_sem.
  destruct (find _ (c_table c)); [|discriminate]. destruct (find _ (c_table c)); [discriminate|].
  destruct (match nk with Some k => negb (Nat.eqb k (List.length cl)) | None => false end); [discriminate|].
  destruct cl as [|c0 cl']; [destruct g as [|m0 g0]; [|discriminate]|]; apply connect_valid_spec.
Qed.

(* a value written on a member directly (not through the group) is what the group reads next *)
Lemma direct_then_read c e g d id v : wf_descr d = true ->
  get_sem d (fst (step c e g (ODirect id (member_attr (d_name d)) v)))
  = map (fun m => if mid m =? id then v else mget (member_attr (d_name d)) m) g.
Proof.
  intro W. destruct (wf_attrs d W) as (_ & Hg & _). cbn [step fst]. unfold get_sem. rewrite Hg, map_map.
  apply map_ext. intro m. destruct (mid m =? id); [apply mget_mset_same | reflexivity].
Qed.

(* reading a group attribute of one of the nine classes, in ANY state (so after any history): the
   members' current values of the member attribute belonging to that name, in member order *)
Lemma read_in_any_state c e g a d : In c canonical -> find_descr c a = Some d -> is_members d = false ->
  step c e g (OGet a) = (g, RVals (map (mget (member_attr a)) g)).
Proof.
  intros Ic F M. cbn [step]. rewrite F. unfold find_descr in F. apply find_some in F as [Id En].
  apply String.eqb_eq in En. subst a.
  pose proof canonical_wf as W. rewrite forallb_forall in W. specialize (W c Ic). rewrite forallb_forall in W.
  pose proof (wf_entry_descr d (W d Id) M) as Wd. now destruct (get_in_order d g Wd) as [-> _].
Qed.

(* ---- observing ------------------------------------------------------------------------------------ *)
Definition observed_once (m m' : member) : Prop :=
  mobs m' = mobs m + 1 /\ mid m' = mid m /\ mtype m' = mtype m /\ mparent m' = mparent m /\ mstore m' = mstore m.

Lemma observe_once c e g :
  snd (step c e g OObserve) = RObs (map mid g)
  /\ Forall2 observed_once g (fst (step c e g OObserve))
  /\ (NoDup (map mid g) -> forall m, In m g -> count_occ Z.eq_dec (map mid g) (mid m) = 1%nat).
Proof.
  cbn [step fst snd]. split; [reflexivity|]. split.
  - induction g; cbn [map]; constructor; auto. repeat split.
  - intros N m I. apply NoDup_count_occ'; [exact N | now apply in_map].
Qed.

Lemma observe_once_in_histories c e ops : hist_fresh c e [] ops = true ->
  let g := exec c e [] ops in
  NoDup (map mid g)
  /\ snd (step c e g OObserve) = RObs (map mid g)
  /\ forall m, In m g -> count_occ Z.eq_dec (map mid g) (mid m) = 1%nat.
Proof.
  intros H g.
  assert (N : NoDup (map mid g)) by (apply history_nodup; [constructor | exact H]).
  split; [exact N|]. split; [reflexivity|]. now apply (observe_once c e g).
Qed.

(* ---- record of finding (fixed in /repo by c11e2e2): BolometerCamera.__getitem__ before the fix ---- *)
(* only int and str keys were accepted, every slice was answered with TypeError *)
Definition getitem_bolo_unfixed (k : key) (g : group) : res :=
  match k with
  | KSlice _ _ => RErr EType
  | _ => getitem_bolo k g
  end.

Lemma bolometer_slice_refuted_unfixed : forall g lo hi, getitem_bolo_unfixed (KSlice lo hi) g = RErr EType.
Proof. reflexivity. Qed.
