(* History independence of the generic lazily filled cache (Model/C14_Cache.v):
   for every history of evaluation points the cache returns [pure_eval]. *)
Require Import Cherab.Common.Qx.
Require Import Cherab.Model.C14_Cache.

Section CacheProofs.
  Context {K N P C : Type}.
  Variables (keqb : K -> K -> bool) (neqb : N -> N -> bool).
  Hypothesis keqb_eq : forall a b, keqb a b = true <-> a = b.
  Hypothesis neqb_eq : forall a b, neqb a b = true <-> a = b.
  Variables (locate : P -> option K) (needed : K -> list N) (nodept : N -> P).
  Variables (f : P -> Q) (norm : Q -> Q).
  Variables (build : K -> list Q -> C) (evalc : C -> P -> Q) (nbe : bool).

  Local Notation lookupN := (lookupN neqb).
  Local Notation lookupK := (lookupK (C:=C) keqb).
  Local Notation sample := (sample neqb nodept f norm).
  Local Notation eval := (eval keqb neqb locate needed nodept f norm build evalc nbe).
  Local Notation run := (run keqb neqb locate needed nodept f norm build evalc nbe).
  Local Notation truth := (truth nodept f norm).
  Local Notation pure_eval := (pure_eval locate needed nodept f norm build evalc nbe).
  Local Notation state := (@state K N C).

  (* every stored datum is the (normalised) wrapped function at its node *)
  Definition data_ok (d : list (N * Q)) : Prop := forall u v, lookupN u d = Some v -> v = truth u.
  (* every stored block is the block built from fresh samples *)
  Definition cells_ok (l : list (K * C)) : Prop :=
    forall c co, lookupK c l = Some co -> co = build c (map truth (needed c)).
  Definition inv (st : state) : Prop := data_ok (data st) /\ cells_ok (cells st).

  Lemma neqb_refl u : neqb u u = true.
  Proof. apply neqb_eq; reflexivity. Qed.
  Lemma keqb_refl c : keqb c c = true.
  Proof. apply keqb_eq; reflexivity. Qed.

  Lemma sample_ok acc u : data_ok (fst acc) -> data_ok (fst (sample acc u)).
  Proof.
    intros H. unfold C14_Cache.sample. destruct (lookupN u (fst acc)) eqn:E; [exact H|].
    cbn [fst]. intros u' v. cbn [C14_Cache.lookupN].
    destruct (neqb u' u) eqn:E'.
    - apply neqb_eq in E'. subst u'. intros [= <-]. reflexivity.
    - apply H.
  Qed.

  Lemma sample_keeps acc u u' v :
    lookupN u' (fst acc) = Some v -> lookupN u' (fst (sample acc u)) = Some v.
  Proof.
    intros H. unfold C14_Cache.sample. destruct (lookupN u (fst acc)) eqn:E; [exact H|].
    cbn [fst C14_Cache.lookupN]. destruct (neqb u' u) eqn:E'; [|exact H].
    apply neqb_eq in E'. subst u'. congruence.
  Qed.

  Lemma sample_has acc u : data_ok (fst acc) -> lookupN u (fst (sample acc u)) = Some (truth u).
  Proof.
    intros H. unfold C14_Cache.sample. destruct (lookupN u (fst acc)) eqn:E.
    - rewrite E. f_equal. apply H. exact E.
    - cbn [fst C14_Cache.lookupN]. rewrite neqb_refl. reflexivity.
  Qed.

  Lemma fold_sample l : forall acc, data_ok (fst acc) ->
    data_ok (fst (fold_left sample l acc)) /\
    (forall u v, lookupN u (fst acc) = Some v -> lookupN u (fst (fold_left sample l acc)) = Some v) /\
    (forall u, In u l -> lookupN u (fst (fold_left sample l acc)) = Some (truth u)).
  Proof.
    induction l as [|a l IH]; intros acc H; cbn [fold_left].
    - repeat split; auto. intros u [].
    - destruct (IH (sample acc a) (sample_ok acc a H)) as (I1 & I2 & I3).
      repeat split; auto.
      + intros u v Hu. apply I2. apply sample_keeps. exact Hu.
      + intros u [->|Hin]; [|apply I3; exact Hin].
        apply I2. apply sample_has. exact H.
  Qed.

  Lemma getd_after_sampling c d : data_ok d ->
    map (getd neqb (fst (fold_left sample (needed c) (d, [])))) (needed c) = map truth (needed c).
  Proof.
    intros H. apply map_ext_in. intros u Hu.
    destruct (fold_sample (needed c) (d, []) H) as (_ & _ & I3).
    unfold getd. rewrite (I3 u Hu). reflexivity.
  Qed.

  Lemma eval_inv st p : inv st -> inv (fst (fst (eval st p))).
  Proof.
    intros [Hd Hc]. unfold C14_Cache.eval.
    destruct (locate p) as [c|]; [|destruct nbe; split; assumption].
    destruct (lookupK c (cells st)) eqn:E; [split; assumption|].
    cbn [fst snd data cells]. split.
    - destruct (fold_sample (needed c) (data st, []) Hd) as (I1 & _ & _). exact I1.
    - intros c' co. cbn [cells C14_Cache.lookupK]. destruct (keqb c' c) eqn:E'.
      + apply keqb_eq in E'. subst c'. intros [= H]. subst co. rewrite getd_after_sampling by exact Hd. reflexivity.
      + apply Hc.
  Qed.

  Lemma eval_result st p : inv st -> snd (fst (eval st p)) = pure_eval p.
  Proof.
    intros [Hd Hc]. unfold C14_Cache.eval, C14_Cache.pure_eval.
    destruct (locate p) as [c|]; [|destruct nbe; reflexivity].
    destruct (lookupK c (cells st)) eqn:E; cbn [fst snd].
    - rewrite (Hc c c0 E). reflexivity.
    - rewrite getd_after_sampling by exact Hd. reflexivity.
  Qed.

  Lemma inv_empty : inv empty.
  Proof. split; intros ? ? H; discriminate H. Qed.

  Lemma run_inv hist : forall st, inv st -> inv (run st hist).
  Proof.
    induction hist as [|p t IH]; intros st H; cbn; [exact H|].
    apply IH. apply eval_inv. exact H.
  Qed.

  (* the main statement: whatever was evaluated before, and in whatever order *)
  Theorem history_independent hist p :
    eval_after keqb neqb locate needed nodept f norm build evalc nbe hist p = pure_eval p.
  Proof. apply eval_result. apply run_inv. apply inv_empty. Qed.

  (* from any reachable state, a point outside leaves the state untouched *)
  Lemma outside_keeps_state st p : locate p = None -> fst (fst (eval st p)) = st.
  Proof. intros H. unfold C14_Cache.eval. rewrite H. destruct nbe; reflexivity. Qed.

  (* the wrapped function is only ever called at nodes of the neighbourhood of the located cell, and
     only where no datum was stored yet *)
  Lemma fold_sample_calls l : forall acc u,
    In u (snd (fold_left sample l acc)) -> In u (snd acc) \/ (In u l /\ lookupN u (fst acc) = None).
  Proof.
    induction l as [|a l IH]; intros acc u H; cbn [fold_left] in H; [left; exact H|].
    destruct (IH _ _ H) as [H1|[H1 H2]].
    - unfold C14_Cache.sample in H1. destruct (lookupN a (fst acc)) eqn:E; [left; exact H1|].
      cbn [snd] in H1. destruct H1 as [<-|H1]; [right; split; [left; reflexivity|exact E]|left; exact H1].
    - right. split; [right; exact H1|].
      destruct (lookupN u (fst acc)) eqn:E; [|reflexivity].
      rewrite (sample_keeps acc a u q E) in H2. discriminate.
  Qed.

  Theorem calls_only_missing_nodes st p u :
    In u (snd (eval st p)) ->
    exists c, locate p = Some c /\ In u (needed c) /\ lookupN u (data st) = None.
  Proof.
    unfold C14_Cache.eval. destruct (locate p) as [c|]; [|destruct nbe; intros []].
    destruct (lookupK c (cells st)); [intros []|].
    cbn [snd]. rewrite <- in_rev. intros H.
    destruct (fold_sample_calls _ _ _ H) as [[]|[H1 H2]].
    exists c. auto.
  Qed.
End CacheProofs.
