(* C16: round53 does not depend on how a rational is written (it is a morphism for ==); the exponent it picks is the unique one with a 53-bit significand. *)
Require Import Cherab.Common.Qx.
Require Import Cherab.Model.C16_Instruments Cherab.Proofs.C16_Round.
From Coq Require Import Qpower Qround Qabs Lqa Morphisms.
Open Scope Q_scope.

Definition exp53 (a : Q) : Z :=
  let e0 := (Z.log2 (Qnum a) - Z.log2 (Zpos (Qden a)) - 52)%Z in
  if Qle_bool (pow2 52) (a / pow2 e0) then e0 else (e0 - 1)%Z.

Lemma round53_pos_unfold a :
  round53_pos a = Qred (inject_Z (round_half_even (a / pow2 (exp53 a))) * pow2 (exp53 a)).
Proof. reflexivity. Qed.

Lemma sig_upper a : 0 < a ->
  let e0 := (Z.log2 (Qnum a) - Z.log2 (Zpos (Qden a)) - 52)%Z in a < pow2 53 * pow2 e0.
Proof.
  intros Ha e0. destruct a as [n d]. cbn [Qnum Qden] in *.
  assert (0 < n)%Z as Hn by (unfold Qlt in Ha; cbn in Ha; lia).
  destruct (Z.log2_spec n Hn) as [_ Hn2].
  destruct (Z.log2_spec (Zpos d) (Pos2Z.is_pos d)) as [Hd1 _].
  pose proof (Z.log2_nonneg n) as Hln. pose proof (Z.log2_nonneg (Zpos d)) as Hld.
  set (ln := Z.log2 n) in *. set (ld := Z.log2 (Zpos d)) in *.
  rewrite <- pow2_plus.
  replace (53 + e0)%Z with (Z.succ ln - ld)%Z by (unfold e0; lia).
  unfold pow2. rewrite (Qpower_minus 2 (Z.succ ln) ld two_nz).
  fold (pow2 (Z.succ ln)). fold (pow2 ld).
  rewrite <- (pow2_Z (Z.succ ln)), <- (pow2_Z ld) by lia.
  rewrite (Qmake_Qdiv n d).
  assert (0 < inject_Z (2 ^ ld)) as HD by (rewrite pow2_Z by lia; apply pow2_pos).
  assert (0 < inject_Z (Zpos d)) as Hdq by reflexivity.
  assert (inject_Z n < inject_Z (2 ^ Z.succ ln)) as Hnq by (rewrite <- Zlt_Qlt; exact Hn2).
  assert (inject_Z (2 ^ ld) <= inject_Z (Zpos d)) as Hdq2 by (rewrite <- Zle_Qle; exact Hd1).
  assert (0 < inject_Z (2 ^ Z.succ ln)) as HN by (rewrite pow2_Z by lia; apply pow2_pos).
  apply Qlt_shift_div_r; [exact Hdq|].
  apply Qlt_le_trans with (inject_Z (2 ^ Z.succ ln)); [exact Hnq|].
  unfold Qdiv. rewrite <- Qmult_assoc.
  rewrite <- (Qmult_1_r (inject_Z (2 ^ Z.succ ln))) at 1.
  rewrite !(Qmult_comm (inject_Z (2 ^ Z.succ ln))).
  apply Qmult_le_compat_r; [|lra].
  rewrite Qmult_comm. apply Qle_shift_div_l; [exact HD|]. lra.
Qed.

Lemma exp53_bounds a : 0 < a -> pow2 52 <= a / pow2 (exp53 a) /\ a / pow2 (exp53 a) < pow2 53.
Proof.
  intros Ha. unfold exp53.
  set (e0 := (Z.log2 (Qnum a) - Z.log2 (Zpos (Qden a)) - 52)%Z).
  pose proof (sig_lower a Ha) as L. pose proof (sig_upper a Ha) as U. cbv zeta in L, U. fold e0 in L, U.
  pose proof (pow2_pos e0) as P0. pose proof (pow2_pos (e0 - 1)) as P1.
  assert (pow2 e0 == pow2 (e0 - 1) * 2) as E0.
  { replace e0 with ((e0 - 1) + 1)%Z at 1 by lia. rewrite pow2_plus. reflexivity. }
  assert (pow2 52 == pow2 51 * 2) as E52 by reflexivity.
  assert (pow2 53 == pow2 52 * 2) as E53 by reflexivity.
  destruct (Qle_bool (pow2 52) (a / pow2 e0)) eqn:E.
  - split; [apply Qle_bool_iff, E|]. apply Qlt_shift_div_r; [exact P0|exact U].
  - split.
    + apply Qlt_le_weak, Qlt_shift_div_l; [exact P1|]. rewrite E52. rewrite E0 in L. lra.
    + assert (a / pow2 e0 < pow2 52) as Hlt.
      { destruct (Qlt_le_dec (a / pow2 e0) (pow2 52)) as [H|H]; [exact H|]. apply Qle_bool_iff in H. congruence. }
      apply Qlt_shift_div_r; [exact P1|].
      assert (a < pow2 52 * pow2 e0) as H2.
      { setoid_replace a with (a / pow2 e0 * pow2 e0) by (field; intros Z; rewrite Z in P0; exact (Qlt_irrefl _ P0)).
        apply Qmult_lt_compat_r; assumption. }
      rewrite E53. rewrite E0 in H2. lra.
Qed.

(* the exponent with a 53-bit significand is unique *)
Lemma exp_unique a e e' : 0 < a ->
  pow2 52 <= a / pow2 e -> a / pow2 e < pow2 53 -> pow2 52 <= a / pow2 e' -> a / pow2 e' < pow2 53 -> e = e'.
Proof.
  assert (forall e e', (e < e')%Z -> 0 < a -> pow2 52 <= a / pow2 e' -> a / pow2 e < pow2 53 -> False) as K.
  { intros x y Hxy Ha H1 H2.
    pose proof (pow2_pos x) as Px. pose proof (pow2_pos y) as Py.
    assert (pow2 x * 2 <= pow2 y) as Hp.
    { setoid_replace (pow2 x * 2) with (pow2 (x + 1)) by (rewrite pow2_plus; reflexivity).
      unfold pow2. apply Qpower_le_compat_l; [lia|lra]. }
    assert (pow2 52 * pow2 y <= a) as A1.
    { setoid_replace a with (a / pow2 y * pow2 y) by (field; intros Z; rewrite Z in Py; exact (Qlt_irrefl _ Py)).
      apply Qmult_le_compat_r; [exact H1|lra]. }
    assert (a < pow2 53 * pow2 x) as A2.
    { setoid_replace a with (a / pow2 x * pow2 x) by (field; intros Z; rewrite Z in Px; exact (Qlt_irrefl _ Px)).
      apply Qmult_lt_compat_r; assumption. }
    assert (pow2 53 == pow2 52 * 2) as E53 by reflexivity.
    pose proof (pow2_pos 52) as P52. rewrite E53 in A2.
    assert (pow2 52 * (pow2 x * 2) <= pow2 52 * pow2 y) by (rewrite !(Qmult_comm (pow2 52)); apply Qmult_le_compat_r; lra).
    lra. }
  intros Ha H1 H2 H3 H4. destruct (Z.lt_trichotomy e e') as [L|[E|L]]; [|exact E|].
  - exfalso. exact (K e e' L Ha H3 H2).
  - exfalso. exact (K e' e L Ha H1 H4).
Qed.

Lemma exp53_proper a a' : 0 < a -> a == a' -> exp53 a = exp53 a'.
Proof.
  intros Ha E. assert (0 < a') as Ha' by (rewrite <- E; exact Ha).
  destruct (exp53_bounds a Ha) as [B1 B2]. destruct (exp53_bounds a' Ha') as [B1' B2'].
  assert (a / pow2 (exp53 a') == a' / pow2 (exp53 a')) as E2.
  { unfold Qdiv. apply Qmult_comp; [exact E|reflexivity]. }
  rewrite <- E2 in B1', B2'. exact (exp_unique a _ _ Ha B1 B2 B1' B2').
Qed.

Lemma rhe_proper x y : x == y -> round_half_even x = round_half_even y.
Proof.
  intros E. unfold round_half_even. rewrite (Qfloor_comp _ _ E).
  assert (Qcompare (x - inject_Z (Qfloor y)) (1#2) = Qcompare (y - inject_Z (Qfloor y)) (1#2)) as -> by (rewrite E; reflexivity).
  reflexivity.
Qed.

Lemma round53_pos_proper a a' : 0 < a -> a == a' -> round53_pos a == round53_pos a'.
Proof.
  intros Ha E. rewrite !round53_pos_unfold, !Qred_correct. rewrite <- (exp53_proper a a' Ha E).
  assert (a / pow2 (exp53 a) == a' / pow2 (exp53 a)) as E2 by (unfold Qdiv; apply Qmult_comp; [exact E|reflexivity]).
  rewrite (rhe_proper _ _ E2). reflexivity.
Qed.

(* round53 respects equality of rationals (it does not depend on how the fraction is written) *)
Lemma round53_proper : Proper (Qeq ==> Qeq) round53.
Proof.
  intros x y E. unfold round53.
  assert (Qcompare x 0 = Qcompare y 0) as EC by (rewrite E; reflexivity). rewrite <- EC.
  destruct (Qcompare x 0) eqn:C.
  - reflexivity.
  - apply Qlt_alt in C. assert (- x == - y) as E' by (rewrite E; reflexivity).
    rewrite (round53_pos_proper (- x) (- y)); [reflexivity|lra|exact E'].
  - apply Qgt_alt in C. apply round53_pos_proper; [exact C|exact E].
Qed.
