(* For a convex clockwise vertex list every triangle of every ear clipping is clockwise (or degenerate):
   the "tri2 <= 0" hypothesis of the unbiasedness theorems is discharged for convex cells. *)
Require Import Cherab.Common.Qx.
Require Import Cherab.Model.C17_Voxels Cherab.Proofs.C17_Polygon Cherab.Proofs.C17_Voxel Cherab.Proofs.C17_Emissivity.
From Coq Require Import Qabs Lqa Sorted.
Open Scope Q_scope.

(* convex position, clockwise: every index-ordered triple of vertices turns clockwise (or is collinear) *)
Definition convex_cw (l : list pt) : Prop :=
  forall i j k, (i < j < k)%nat -> (k < length l)%nat -> tri2 (vtx l i) (vtx l j) (vtx l k) <= 0.

(* (a, b, c) is a cyclic rotation of an increasing triple, or degenerate *)
Definition cyc_inc (a b c : nat) : Prop := (a < b < c)%nat \/ (b < c < a)%nat \/ (c < a < b)%nat \/ a = c.

Lemma tri2_rot a b c : tri2 a b c == tri2 b c a.
Proof. unfold tri2. ring. Qed.
Lemma tri2_degenerate a b : tri2 a b a == 0.
Proof. unfold tri2. ring. Qed.

Lemma convex_cyc_inc l a b c : convex_cw l -> (a < length l)%nat -> (b < length l)%nat -> (c < length l)%nat ->
  cyc_inc a b c -> tri2 (vtx l a) (vtx l b) (vtx l c) <= 0.
Proof.
  intros Hc Ha Hb Hcc [H|[H|[H|H]]].
  - apply Hc; assumption.
  - rewrite tri2_rot. apply Hc; assumption.
  - rewrite tri2_rot, tri2_rot. apply Hc; assumption.
  - subst c. rewrite tri2_degenerate. lra.
Qed.

(* ---- strictly increasing lists ---------------------------------------------------------------------------- *)
Lemma SS_remove b : forall l1 l2, StronglySorted lt (l1 ++ b :: l2) ->
  StronglySorted lt (l1 ++ l2) /\ Forall (fun x => (x < b)%nat) l1 /\ Forall (fun y => (b < y)%nat) l2 /\
  StronglySorted lt l1 /\ StronglySorted lt l2.
Proof.
  induction l1 as [|x l1 IH]; intros l2 H.
  - cbn [app] in *. inversion H; subst. repeat split; try assumption; constructor.
  - cbn [app] in H. inversion H as [|? ? Hs Hf]; subst.
    destruct (IH l2 Hs) as (S1 & F1 & F2 & S3 & S4).
    apply Forall_app in Hf. destruct Hf as [Hf1 Hf2]. inversion Hf2 as [|? ? Hxb Hf3]; subst.
    repeat split; try assumption.
    + cbn [app]. constructor; [exact S1 | apply Forall_app; split; assumption].
    + constructor; assumption.
    + constructor; assumption.
Qed.

Lemma last_In {A} (x : A) l d : In (last (x :: l) d) (x :: l).
Proof.
  revert x; induction l as [|y l IH]; intros x; [left; reflexivity|].
  change (last (x :: y :: l) d) with (last (y :: l) d). right. apply IH.
Qed.

Lemma SS_hd_le_last c l d : StronglySorted lt (c :: l) -> c = last (c :: l) d \/ (c < last (c :: l) d)%nat.
Proof.
  intros H. inversion H as [|? ? _ Hf]; subst. destruct l as [|y l]; [left; reflexivity|].
  right. change (last (c :: y :: l) d) with (last (y :: l) d).
  rewrite Forall_forall in Hf. apply Hf. apply last_In.
Qed.

Lemma SS_seq : forall n a, StronglySorted lt (seq a n).
Proof.
  induction n as [|n IH]; intros a; cbn [seq]; constructor; [apply IH|].
  apply Forall_forall. intros x Hx. apply in_seq in Hx. lia.
Qed.

(* ---- the triangles of an ear clipping of an increasing index list ------------------------------------------------ *)
Lemma clip_cyc_inc : forall tris act, StronglySorted lt act -> clip_check act tris = true ->
  forall a b c, In (a, b, c) tris -> cyc_inc a b c /\ In a act /\ In b act /\ In c act.
Proof.
  induction tris as [|[[a0 b0] c0] rest IH]; intros act Hs H a b c Hin; [contradiction|].
  cbn [clip_check] in H. destruct rest as [|t2 rest'].
  - destruct act as [|a' [|b' [|c' [|? ?]]]]; try discriminate.
    apply andb_prop in H. destruct H as [H Hc]. apply andb_prop in H. destruct H as [Ha Hb].
    apply Nat.eqb_eq in Ha, Hb, Hc. subst.
    destruct Hin as [E|[]]. injection E as E1 E2 E3. subst.
    inversion Hs as [|? ? Hs2 Hf]; subst. inversion Hf as [|? ? Hab Hf2]; subst. inversion Hf2 as [|? ? Hac _]; subst.
    inversion Hs2 as [|? ? _ Hg]; subst. inversion Hg as [|? ? Hbc _]; subst.
    split; [left; lia|]. cbn. tauto.
  - destruct (split_at b0 act) as [[l1 l2]|] eqn:Es; [|discriminate].
    apply andb_prop in H. destruct H as [H Hcc]. apply andb_prop in H. destruct H as [H Hn].
    apply andb_prop in H. destruct H as [Hlen Hp].
    apply Nat.eqb_eq in Hn, Hp. apply split_at_spec in Es. subst act.
    destruct (SS_remove b0 l1 l2 Hs) as (S1 & F1 & F2 & S3 & S4).
    destruct Hin as [E|Hin].
    + injection E as E1 E2 E3. subst a b c a0 c0.
      rewrite Forall_forall in F1, F2.
      unfold prev_of, next_of.
      destruct l1 as [|x l1]; destruct l2 as [|y l2].
      * cbn in Hlen. discriminate.
      * change (last [] (last (y :: l2) b0)) with (last (y :: l2) b0). change (hd (hd b0 []) (y :: l2)) with y.
        assert (Hy : (b0 < y)%nat) by (apply F2; left; reflexivity).
        assert (Hz : In (last (y :: l2) b0) (y :: l2)) by apply last_In.
        pose proof (SS_hd_le_last y l2 b0 S4) as Hyz. set (z := last (y :: l2) b0) in *.
        split.
        -- destruct Hyz as [E|E]; [right; right; right; symmetry; exact E | right; left; lia].
        -- repeat split; [apply in_or_app; right; right; exact Hz | apply in_or_app; right; left; reflexivity
                         | apply in_or_app; right; right; left; reflexivity].
      * change (last (x :: l1) (last [] b0)) with (last (x :: l1) b0). change (hd (hd b0 (x :: l1)) []) with x.
        assert (Hz : In (last (x :: l1) b0) (x :: l1)) by apply last_In.
        assert (Hzb : (last (x :: l1) b0 < b0)%nat) by (apply F1; exact Hz).
        pose proof (SS_hd_le_last x l1 b0 S3) as Hxz. set (z := last (x :: l1) b0) in *.
        split.
        -- destruct Hxz as [E|E]; [right; right; right; symmetry; exact E | right; right; left; lia].
        -- repeat split; [apply in_or_app; left; exact Hz | apply in_or_app; right; left; reflexivity
                         | apply in_or_app; left; left; reflexivity].
      * change (hd (hd b0 (x :: l1)) (y :: l2)) with y. rewrite (last_cons_default x l1 _ b0).
        assert (Hz : In (last (x :: l1) b0) (x :: l1)) by apply last_In.
        assert (Hzb : (last (x :: l1) b0 < b0)%nat) by (apply F1; exact Hz).
        assert (Hy : (b0 < y)%nat) by (apply F2; left; reflexivity).
        set (z := last (x :: l1) b0) in *.
        split; [left; lia|].
        repeat split; [apply in_or_app; left; exact Hz | apply in_or_app; right; left; reflexivity
                      | apply in_or_app; right; right; left; reflexivity].
    + destruct (IH (l1 ++ l2) S1 Hcc a b c Hin) as (Hc & Ia & Ib & Ic).
      split; [exact Hc|].
      assert (Sub : forall z, In z (l1 ++ l2) -> In z (l1 ++ b0 :: l2)).
      { intros z Hz. apply in_app_or in Hz. apply in_or_app. destruct Hz; [left | right; right]; assumption. }
      repeat split; apply Sub; assumption.
Qed.

(* every ear clipping of a convex clockwise vertex list consists of clockwise (or degenerate) triangles *)
Lemma convex_ear_clipping_clockwise l tris : convex_cw l -> clip_check (seq 0 (length l)) tris = true ->
  forall t, In t tris -> tri2_of l t <= 0.
Proof.
  intros Hc H [[a b] c] Hin. unfold tri2_of.
  destruct (clip_cyc_inc tris (seq 0 (length l)) (SS_seq _ _) H a b c Hin) as (Hcyc & Ia & Ib & Ic).
  apply in_seq in Ia, Ib, Ic. apply convex_cyc_inc; try assumption; lia.
Qed.

(* hence, for convex cells, with no further hypothesis: the triangle areas add up to the area and the expectation
   of the estimator for a linear emissivity is its value at the centroid *)
Lemma convex_unbiased l tris c0 c1 c2 : convex_cw l -> clip_check (seq 0 (length l)) tris = true ->
  Qsum (map (tri_area_of l) tris) == area l /\
  (~ shoelace2 l == 0 -> exists c, centroid l = Some c /\
     expected_estimate (map (tri_area_of l) tris) (map (fun t => linf c0 c1 c2 (tri_centroid_of l t)) tris) == linf c0 c1 c2 c).
Proof.
  intros Hc H. pose proof (convex_ear_clipping_clockwise l tris Hc H) as Hcw. split.
  - apply triangle_areas_sum_to_area; assumption.
  - intros Hne. apply expected_linear; assumption.
Qed.

(* triangles and quadrilaterals: the convexity condition spelled out *)
Lemma convex_cw_triangle a b c : tri2 a b c <= 0 -> convex_cw [a; b; c].
Proof.
  intros H i j k Hijk Hk. cbn [length] in Hk.
  assert (i = 0 /\ j = 1 /\ k = 2)%nat as (Ei & Ej & Ek) by lia. subst. exact H.
Qed.

Lemma convex_cw_quadrilateral a b c d :
  tri2 a b c <= 0 -> tri2 a b d <= 0 -> tri2 a c d <= 0 -> tri2 b c d <= 0 -> convex_cw [a; b; c; d].
Proof.
  intros H1 H2 H3 H4 i j k Hijk Hk. cbn [length] in Hk.
  assert ((i = 0 /\ j = 1 /\ k = 2) \/ (i = 0 /\ j = 1 /\ k = 3) \/ (i = 0 /\ j = 2 /\ k = 3) \/ (i = 1 /\ j = 2 /\ k = 3))%nat
    as [(Ei & Ej & Ek)|[(Ei & Ej & Ek)|[(Ei & Ej & Ek)|(Ei & Ej & Ek)]]] by lia; subst; assumption.
Qed.
