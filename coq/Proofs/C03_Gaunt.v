(* Lemmas about the Gaunt-factor branch model (Model/C03_Gaunt.v) and the rounding used by the comparator's
   integrand wrapper (Model/C03_Check.v, rnd). *)
Require Import Cherab.Common.Qx Cherab.Model.C03_Gaunt Cherab.Model.C03_Check.
From Coq Require Import Qabs Qround Lqa.
Open Scope Q_scope.

Lemma Qle_bool_lt a b : Qle_bool a b = false <-> b < a.
Proof.
  split; intro H.
  - destruct (Qlt_le_dec b a) as [L|L]; [exact L|]. apply Qle_bool_iff in L. congruence.
  - destruct (Qle_bool a b) eqn:E; [|reflexivity]. apply Qle_bool_iff in E. exfalso; lra.
Qed.

(* the four branches are taken exactly under the documented conditions (they are exhaustive and exclusive) *)
Lemma gaunt_branch_spec umin umax g2min g2max z u g2 :
  (gaunt_branch umin umax g2min g2max z u g2 = GZero <-> z == 0) /\
  (gaunt_branch umin umax g2min g2max z u g2 = GClassical <-> ~ z == 0 /\ (umax <= u \/ g2max <= g2)) /\
  (gaunt_branch umin umax g2min g2max z u g2 = GBorn <->
     ~ z == 0 /\ u < umax /\ g2 < g2max /\ (u < umin \/ g2 < g2min)) /\
  (gaunt_branch umin umax g2min g2max z u g2 = GInterp <->
     ~ z == 0 /\ umin <= u /\ u < umax /\ g2min <= g2 /\ g2 < g2max).
Proof.
  unfold gaunt_branch.
  destruct (Qeq_bool z 0) eqn:Ez.
  - apply Qeq_bool_iff in Ez. repeat split; intros; try discriminate; try tauto.
  - assert (Hz : ~ z == 0) by (intro H; apply Qeq_bool_iff in H; congruence).
    destruct (Qle_bool umax u) eqn:E1; [apply Qle_bool_iff in E1|apply Qle_bool_lt in E1];
    (destruct (Qle_bool g2max g2) eqn:E2; [apply Qle_bool_iff in E2|apply Qle_bool_lt in E2]); cbn [orb].
    1-3: (split; [split; [discriminate|intro H; exfalso; tauto]|]; split; [split; [intros _; tauto|reflexivity]|];
          split; (split; [discriminate|intro H; exfalso; lra])).
    destruct (Qle_bool umin u) eqn:E3; [apply Qle_bool_iff in E3|apply Qle_bool_lt in E3];
    (destruct (Qle_bool g2min g2) eqn:E4; [apply Qle_bool_iff in E4|apply Qle_bool_lt in E4]); cbn [negb orb].
    + split; [split; [discriminate|intro H; exfalso; tauto]|]. split; [split; [discriminate|intro H; exfalso; lra]|].
      split; [split; [discriminate|intro H; exfalso; lra]|]. split; [intros _; tauto|reflexivity].
    + split; [split; [discriminate|intro H; exfalso; tauto]|]. split; [split; [discriminate|intro H; exfalso; lra]|].
      split; [split; [intros _; tauto|reflexivity]|]. split; [discriminate|intro H; exfalso; lra].
    + split; [split; [discriminate|intro H; exfalso; tauto]|]. split; [split; [discriminate|intro H; exfalso; lra]|].
      split; [split; [intros _; tauto|reflexivity]|]. split; [discriminate|intro H; exfalso; lra].
    + split; [split; [discriminate|intro H; exfalso; tauto]|]. split; [split; [discriminate|intro H; exfalso; lra]|].
      split; [split; [intros _; tauto|reflexivity]|]. split; [discriminate|intro H; exfalso; lra].
Qed.

Lemma gaunt_value_limits sqrt3 pi ln4u iv :
  gaunt_value sqrt3 pi ln4u iv GZero == 0 /\ gaunt_value sqrt3 pi ln4u iv GClassical == 1 /\
  gaunt_value sqrt3 pi ln4u iv GInterp == iv.
Proof. repeat split; reflexivity. Qed.

(* rounding down to a multiple of 2^-P (P >= 0) loses less than 2^-P *)
Lemma rnd_bounds P y : (0 <= P)%Z -> rnd P y <= y /\ y < rnd P y + 1 / inject_Z (2 ^ P).
Proof.
  intro HP. unfold rnd. assert (Z.leb 0 P = true) as -> by (apply Z.leb_le; exact HP).
  assert (Hs : (0 < 2 ^ P)%Z) by (apply Z.pow_pos_nonneg; lia).
  set (s := (2 ^ P)%Z) in *.
  assert (Hq : 0 < inject_Z s) by (change 0 with (inject_Z 0); rewrite <- Zlt_Qlt; exact Hs).
  assert (E : Qmake (Qfloor (y * inject_Z s)) (Z.to_pos s) == inject_Z (Qfloor (y * inject_Z s)) / inject_Z s).
  { unfold Qeq, Qdiv, Qmult, Qinv, inject_Z. cbn [Qnum Qden].
    destruct s as [|p|p]; try lia. cbn. lia. }
  rewrite E.
  pose proof (Qfloor_le (y * inject_Z s)) as H1.
  pose proof (Qlt_floor (y * inject_Z s)) as H2. rewrite inject_Z_plus in H2.
  split.
  - apply Qle_shift_div_r; [exact Hq|exact H1].
  - assert (inject_Z (Qfloor (y * inject_Z s)) / inject_Z s + 1 / inject_Z s
            == (inject_Z (Qfloor (y * inject_Z s)) + 1) / inject_Z s) as -> by (field; lra).
    apply Qlt_shift_div_l; [exact Hq|exact H2].
Qed.
