(* A component pattern extracted from the source that agrees with a linear map of the model on the three
   unit vectors agrees with it on every vector: the finite tie lemma of Gen/C12/Tie.v therefore covers all
   field vectors. *)
Require Import Cherab.Common.Qx.
Require Import Cherab.Model.C12_Equilibrium Cherab.Model.C12_Source.
From Coq Require Import Lqa.
Open Scope Q_scope.

Lemma pick_linear b c :
  pick b c == vx b * pick (V 1 0 0) c + vy b * pick (V 0 1 0) c + vz b * pick (V 0 0 1) c.
Proof.
  unfold pick. destruct (snd c) as [|[q|q|]|q]; cbn [vx vy vz]; try ring.
  - destruct q as [q|q|]; cbn [vx vy vz]; try ring.
  - destruct q as [q|q|]; cbn [vx vy vz]; ring.
Qed.

Lemma veqb_true a b : veqb a b = true -> veq a b.
Proof.
  unfold veqb, veq. rewrite !andb_true_iff. intros [[A B] C].
  repeat split; apply Qeq_bool_iff; assumption.
Qed.

Lemma pattern_on_basis_pol p :
  veqb (ev_pattern p (V 1 0 0)) (pol_raw (V 1 0 0)) = true -> veqb (ev_pattern p (V 0 1 0)) (pol_raw (V 0 1 0)) = true ->
  veqb (ev_pattern p (V 0 0 1)) (pol_raw (V 0 0 1)) = true -> forall b, veq (ev_pattern p b) (pol_raw b).
Proof.
  intros H1 H2 H3 b. apply veqb_true in H1, H2, H3. destruct H1 as (A1 & A2 & A3), H2 as (B1 & B2 & B3), H3 as (C1 & C2 & C3).
  unfold ev_pattern, pol_raw, veq in *; cbn [vx vy vz] in *.
  repeat split; rewrite pick_linear; [rewrite A1, B1, C1 | rewrite A2, B2, C2 | rewrite A3, B3, C3]; ring.
Qed.

Lemma pattern_on_basis_nor p :
  veqb (ev_pattern p (V 1 0 0)) (nor_raw (V 1 0 0)) = true -> veqb (ev_pattern p (V 0 1 0)) (nor_raw (V 0 1 0)) = true ->
  veqb (ev_pattern p (V 0 0 1)) (nor_raw (V 0 0 1)) = true -> forall b, veq (ev_pattern p b) (nor_raw b).
Proof.
  intros H1 H2 H3 b. apply veqb_true in H1, H2, H3. destruct H1 as (A1 & A2 & A3), H2 as (B1 & B2 & B3), H3 as (C1 & C2 & C3).
  unfold ev_pattern, nor_raw, veq in *; cbn [vx vy vz] in *.
  repeat split; rewrite pick_linear; [rewrite A1, B1, C1 | rewrite A2, B2, C2 | rewrite A3, B3, C3]; ring.
Qed.

Lemma source_ok_patterns s : source_ok s = true ->
  forall b, veq (ev_pattern (s_pol s) b) (pol_raw b) /\ veq (ev_pattern (s_nor s) b) (nor_raw b) /\
            veq (ev_pattern (s_f2c_pol s) b) (pol_raw b) /\ veq (ev_pattern (s_f2c_nor s) b) (nor_raw b).
Proof.
  intros H. unfold source_ok in H. rewrite !andb_true_iff in H.
  assert (F : forallb (fun b => veqb (ev_pattern (s_pol s) b) (pol_raw b) && veqb (ev_pattern (s_nor s) b) (nor_raw b) &&
                    veqb (ev_pattern (s_f2c_pol s) b) (pol_raw b) && veqb (ev_pattern (s_f2c_nor s) b) (nor_raw b)) tests = true) by tauto.
  clear H. unfold tests in F. cbn [forallb] in F. rewrite !andb_true_iff in F.
  intros b. split; [|split; [|split]]; first [apply pattern_on_basis_pol | apply pattern_on_basis_nor]; tauto.
Qed.
