(* C16: the model's setters have exactly the cache effects that Model/C16_Source.v tabulates -- and those tables are
   regenerated from the current source and compared by the kernel on every run (coq/Gen/C16/Source.v).  Together:
   source text  --translator + source_tie-->  tables  --these lemmas-->  model functions. *)
Require Import Cherab.Common.Qx.
Require Import Cherab.Model.C16_Instruments Cherab.Model.C16_Source.
From Coq Require Import String.

Definition effs (c n : string) : list eff := effects_of c n model_setters.
Definition is_some {A} (o : option A) : bool := match o with Some _ => true | None => false end.
Definition caches (b : base) := (b_min b, b_max b, b_bins b, b_classes b, b_kwargs b).

Section S.
Variable rnd : Q -> Q.
Variable resolution : ct_key -> Q -> Q.
Variable deg2rad : Q -> Q.

Lemma sp_mbpp_effects v s s' : sp_set_mbpp v s = Ok s' ->
  sp_base s' = run_effs true (effs "Spectrometer" "min_bins_per_pixel") (sp_base s).
Proof. unfold sp_set_mbpp. destruct (trunc v <=? 0)%Z; [discriminate|]. intros E; injection E as <-. reflexivity. Qed.

Lemma sp_w2p_effects v s s' : sp_set_w2p rnd v s = Ok s' ->
  sp_base s' = run_effs true (effs "Spectrometer" "wavelength_to_pixel") (sp_base s).
Proof. unfold sp_set_w2p. destruct (forallb valid_arr v); [|discriminate]. intros E; injection E as <-. reflexivity. Qed.

Lemma name_effects v b : caches (set_name v b) = caches (run_effs true (effs "SpectroscopicInstrument" "name") b).
Proof. reflexivity. Qed.

Lemma clear_effects :
  effs "SpectroscopicInstrument" "_clear_spectral_settings"
  = [EAssign "_min_wavelength"; EAssign "_max_wavelength"; EAssign "_spectral_bins"] /\
  forall b, b_min (clear_spectral b) = None /\ b_max (clear_spectral b) = None /\ b_bins (clear_spectral b) = None
            /\ b_name (clear_spectral b) = b_name b /\ b_classes (clear_spectral b) = b_classes b
            /\ b_kwargs (clear_spectral b) = b_kwargs b.
Proof. split; [reflexivity|]. intros b. repeat split. Qed.

(* _update_wavelength_to_pixel: early return when _accommodated_spectra is None, otherwise ends with the clear *)
Lemma ct_update_effects s :
  effs "CzernyTurnerSpectrometer" "_update_wavelength_to_pixel"
  = [EReturnIfNone "_accommodated_spectra"; EAssign "_wavelength_to_pixel"; EAssign "_wavelengths"; EClear] /\
  ct_base (ct_update_w2p rnd resolution s) = eff_base (is_some (ct_acc s)) EUpdW2p (ct_base s) /\
  ct_acc (ct_update_w2p rnd resolution s) = ct_acc s.
Proof. split; [reflexivity|]. unfold ct_update_w2p. destruct (ct_acc s) eqn:E; cbn; rewrite ?E; split; reflexivity. Qed.

Lemma ct_order_effects v s s' : ct_set_order rnd resolution v s = Ok s' ->
  ct_base s' = run_effs (is_some (ct_acc s)) (effs "CzernyTurnerSpectrometer" "diffraction_order") (ct_base s).
Proof.
  unfold ct_set_order. destruct (trunc v <=? 0)%Z; [discriminate|]. intros E; injection E as <-.
  unfold ct_update_w2p; cbn. destruct (ct_acc s); reflexivity.
Qed.

Lemma ct_pos_effects upd v s s' : ct_set_pos rnd resolution upd v s = Ok s' ->
  ct_base s' = run_effs (is_some (ct_acc s)) (effs "CzernyTurnerSpectrometer" "grating") (ct_base s) /\
  effs "CzernyTurnerSpectrometer" "grating" = [EAssign "_grating"; EUpdW2p] /\
  effs "CzernyTurnerSpectrometer" "focal_length" = [EAssign "_focal_length"; EUpdW2p] /\
  effs "CzernyTurnerSpectrometer" "pixel_spacing" = [EAssign "_pixel_spacing"; EUpdW2p].
Proof.
  unfold ct_set_pos. destruct (Qle_bool v 0); [discriminate|]. intros E; injection E as <-.
  split; [|repeat split]. unfold ct_update_w2p; cbn. destruct (ct_acc s); reflexivity.
Qed.

Lemma ct_angle_effects v s s' : ct_set_angle rnd resolution deg2rad v s = Ok s' ->
  ct_base s' = run_effs (is_some (ct_acc s)) (effs "CzernyTurnerSpectrometer" "diffraction_angle") (ct_base s).
Proof.
  unfold ct_set_angle. destruct (Qle_bool v 0); [discriminate|]. intros E; injection E as <-.
  unfold ct_update_w2p; cbn. destruct (ct_acc s); reflexivity.
Qed.

Lemma ct_acc_effects v s s' : ct_set_acc rnd resolution v s = Ok s' ->
  ct_base s' = run_effs true (effs "CzernyTurnerSpectrometer" "accommodated_spectra") (ct_base s).
Proof. unfold ct_set_acc. destruct (forallb acc_valid v); [|discriminate]. intros E; injection E as <-. reflexivity. Qed.

Lemma ct_mbpp_effects v s s' : ct_set_mbpp v s = Ok s' ->
  ct_base s' = run_effs true (effs "Spectrometer" "min_bins_per_pixel") (ct_base s).
Proof. unfold ct_set_mbpp. destruct (trunc v <=? 0)%Z; [discriminate|]. intros E; injection E as <-. reflexivity. Qed.

Lemma pc_mbpw_effects v s s' : pc_set_mbpw v s = Ok s' ->
  pc_base s' = run_effs true (effs "Polychromator" "min_bins_per_window") (pc_base s).
Proof. unfold pc_set_mbpw. destruct (trunc v <=? 0)%Z; [discriminate|]. intros E; injection E as <-. reflexivity. Qed.

Lemma pc_filters_effects v s s' : pc_set_filters v s = Ok s' ->
  pc_base s' = run_effs true (effs "Polychromator" "filters") (pc_base s).
Proof. unfold pc_set_filters. destruct (all_some v); [|discriminate]. intros E; injection E as <-. reflexivity. Qed.

(* all of them at once *)
Theorem setters_have_tabled_effects :
  (forall v s s', sp_set_mbpp v s = Ok s' -> sp_base s' = run_effs true (effs "Spectrometer" "min_bins_per_pixel") (sp_base s)) /\
  (forall v s s', sp_set_w2p rnd v s = Ok s' -> sp_base s' = run_effs true (effs "Spectrometer" "wavelength_to_pixel") (sp_base s)) /\
  (forall v b, caches (set_name v b) = caches (run_effs true (effs "SpectroscopicInstrument" "name") b)) /\
  (forall v s s', ct_set_order rnd resolution v s = Ok s' ->
     ct_base s' = run_effs (is_some (ct_acc s)) (effs "CzernyTurnerSpectrometer" "diffraction_order") (ct_base s)) /\
  (forall upd v s s', ct_set_pos rnd resolution upd v s = Ok s' ->
     ct_base s' = run_effs (is_some (ct_acc s)) (effs "CzernyTurnerSpectrometer" "grating") (ct_base s)) /\
  (forall v s s', ct_set_angle rnd resolution deg2rad v s = Ok s' ->
     ct_base s' = run_effs (is_some (ct_acc s)) (effs "CzernyTurnerSpectrometer" "diffraction_angle") (ct_base s)) /\
  (forall v s s', ct_set_acc rnd resolution v s = Ok s' ->
     ct_base s' = run_effs true (effs "CzernyTurnerSpectrometer" "accommodated_spectra") (ct_base s)) /\
  (forall v s s', ct_set_mbpp v s = Ok s' -> ct_base s' = run_effs true (effs "Spectrometer" "min_bins_per_pixel") (ct_base s)) /\
  (forall v s s', pc_set_mbpw v s = Ok s' -> pc_base s' = run_effs true (effs "Polychromator" "min_bins_per_window") (pc_base s)) /\
  (forall v s s', pc_set_filters v s = Ok s' -> pc_base s' = run_effs true (effs "Polychromator" "filters") (pc_base s)) /\
  (forall s, ct_base (ct_update_w2p rnd resolution s) = eff_base (is_some (ct_acc s)) EUpdW2p (ct_base s)).
Proof.
  repeat split.
  - exact sp_mbpp_effects. - exact sp_w2p_effects. - exact ct_order_effects.
  - intros upd v s s' H. apply (ct_pos_effects upd v s s' H).
  - exact ct_angle_effects. - exact ct_acc_effects. - exact ct_mbpp_effects. - exact pc_mbpw_effects.
  - exact pc_filters_effects. - intros s. apply (ct_update_effects s).
Qed.

End S.

(* ---- the constructors follow the statement order the translator reads from the source ---- *)
Fixpoint ctor_of (c : string) (l : list (string * list eff)) : list eff :=
  match l with [] => [] | (c', e) :: t => if String.eqb c c' then e else ctor_of c t end.

(* one statement of SpectroscopicInstrument.__init__ *)
Definition base_exec (name : string) (e : eff) (b : base) : base :=
  match e with
  | EClNone => set_classes b NoneV
  | EKwNone => set_kwargs b None
  | EClear => clear_spectral b
  | ESet a => if String.eqb a "name" then set_name name b else b
  | _ => b
  end.
Definition super_init (name : string) (b : base) : base :=
  fold_left (fun b e => base_exec name e b) (ctor_of "SpectroscopicInstrument" model_ctors) b.

Section Ctors.
Variable rnd : Q -> Q.
Variable resolution : ct_key -> Q -> Q.
Variable deg2rad : Q -> Q.

Definition sp_exec (p : sp_params) (r : res sp_state) (e : eff) : res sp_state :=
  bind r (fun s =>
    match e with
    | ESet a => if String.eqb a "min_bins_per_pixel" then sp_set_mbpp (spp_mbpp p) s
                else if String.eqb a "wavelength_to_pixel" then sp_set_w2p rnd (spp_w2p p) s else Err ErrOther
    | ESuper => Ok (sp_with_base s (super_init (spp_name p) (sp_base s)))
    | _ => Err ErrOther
    end).

Lemma sp_construct_follows_table p :
  sp_construct rnd p
  = fold_left (sp_exec p) (ctor_of "Spectrometer" model_ctors)
      (Ok {| sp_mbpp := 0; sp_w2p := []; sp_wl := []; sp_base := base0 Missing |}).
Proof.
  unfold sp_construct. cbn. destruct (sp_set_mbpp (spp_mbpp p) _) as [s1|e]; cbn; [|reflexivity].
  destruct (sp_set_w2p rnd (spp_w2p p) s1) as [s2|e]; reflexivity.
Qed.

Definition ct_exec (p : ct_params) (r : res ct_state) (e : eff) : res ct_state :=
  bind r (fun s =>
    match e with
    | EAssign a => if String.eqb a "_accommodated_spectra"
                   then Ok {| ct_k := ct_k s; ct_acc := None; ct_mbpp := ct_mbpp s; ct_w2p := ct_w2p s; ct_wl := ct_wl s; ct_base := ct_base s |}
                   else Err ErrOther
    | ESet a =>
      if String.eqb a "diffraction_order" then ct_set_order rnd resolution (ctp_order p) s
      else if String.eqb a "grating" then ct_set_pos rnd resolution key_grating (ctp_grating p) s
      else if String.eqb a "focal_length" then ct_set_pos rnd resolution key_focal (ctp_focal p) s
      else if String.eqb a "pixel_spacing" then ct_set_pos rnd resolution key_spacing (ctp_spacing p) s
      else if String.eqb a "diffraction_angle" then ct_set_angle rnd resolution deg2rad (ctp_angle p) s
      else if String.eqb a "accommodated_spectra" then ct_set_acc rnd resolution (ctp_acc p) s
      else if String.eqb a "min_bins_per_pixel" then ct_set_mbpp (ctp_mbpp p) s
      else if String.eqb a "name" then Ok (ct_with_base s (set_name (ctp_name p) (ct_base s)))
      else Err ErrOther
    | _ => Err ErrOther
    end).

Definition ct_blank : ct_state :=
  {| ct_k := {| k_order := 0; k_grating := 0; k_focal := 0; k_spacing := 0; k_angle := 0 |};
     ct_acc := None; ct_mbpp := 0; ct_w2p := []; ct_wl := []; ct_base := base0 Missing |}.

(* in particular: no ESuper in the table, hence _pipeline_classes stays Missing *)
Lemma ct_construct_follows_table p :
  ct_construct rnd resolution deg2rad p = fold_left (ct_exec p) (ctor_of "CzernyTurnerSpectrometer" model_ctors) (Ok ct_blank).
Proof.
  unfold ct_construct. cbn.
  destruct (ct_set_order rnd resolution (ctp_order p) _) as [s1|e]; cbn; [|reflexivity].
  destruct (ct_set_pos rnd resolution key_grating (ctp_grating p) s1) as [s2|e]; cbn; [|reflexivity].
  destruct (ct_set_pos rnd resolution key_focal (ctp_focal p) s2) as [s3|e]; cbn; [|reflexivity].
  destruct (ct_set_pos rnd resolution key_spacing (ctp_spacing p) s3) as [s4|e]; cbn; [|reflexivity].
  destruct (ct_set_angle rnd resolution deg2rad (ctp_angle p) s4) as [s5|e]; cbn; [|reflexivity].
  destruct (ct_set_acc rnd resolution (ctp_acc p) s5) as [s6|e]; cbn; [|reflexivity].
  destruct (ct_set_mbpp (ctp_mbpp p) s6) as [s7|e]; reflexivity.
Qed.

Definition pc_exec (p : pc_params) (r : res pc_state) (e : eff) : res pc_state :=
  bind r (fun s =>
    match e with
    | ESuper => Ok (pc_with_base s (super_init (pcp_name p) (pc_base s)))
    | ESet a => if String.eqb a "min_bins_per_window" then pc_set_mbpw (pcp_mbpw p) s
                else if String.eqb a "filters" then pc_set_filters (pcp_filters p) s else Err ErrOther
    | _ => Err ErrOther
    end).

Lemma pc_construct_follows_table p :
  pc_construct p = fold_left (pc_exec p) (ctor_of "Polychromator" model_ctors)
                     (Ok {| pc_mbpw := 0; pc_filters := []; pc_base := base0 Missing |}).
Proof.
  unfold pc_construct. cbn. destruct (pc_set_mbpw (pcp_mbpw p) _) as [s1|e]; cbn; [|reflexivity].
  destruct (pc_set_filters (pcp_filters p) s1) as [s2|e]; reflexivity.
Qed.

End Ctors.
