(* C16: the model's setters have exactly the cache effects that Model/C16_Source.v tabulates -- and those tables are
   regenerated from the current source and compared by the kernel on every run (coq/Gen/C16/Source.v).  Together:
   source text  --translator + source_tie-->  tables  --these lemmas-->  model functions. *)
Require Import Cherab.Common.Qx.
Require Import Cherab.Model.C16_Instruments Cherab.Model.C16_Source.
From Coq Require Import String.

Definition effs (c n : string) : list eff := effects_of c n model_setters.
Definition is_some {A} (o : option A) : bool := match o with Some _ => true | None => false end.
Definition caches (b : base) := (b_min b, b_max b, b_bins b, b_classes b, b_kwargs b).

Section S.
Variable rnd : Q -> Q.
Variable resolution : ct_key -> Q -> Q.
Variable deg2rad : Q -> Q.

Lemma sp_mbpp_effects v s s' : sp_set_mbpp v s = Ok s' ->
  sp_base s' = run_effs true (effs "Spectrometer" "min_bins_per_pixel") (sp_base s).
Proof. unfold sp_set_mbpp. destruct (trunc v <=? 0)%Z; [discriminate|]. intros E; injection E as <-. reflexivity. Qed.

Lemma sp_w2p_effects v s s' : sp_set_w2p rnd v s = Ok s' ->
  sp_base s' = run_effs true (effs "Spectrometer" "wavelength_to_pixel") (sp_base s).
Proof. unfold sp_set_w2p. destruct (forallb valid_arr v); [|discriminate]. intros E; injection E as <-. reflexivity. Qed.

Lemma name_effects v b : caches (set_name v b) = caches (run_effs true (effs "SpectroscopicInstrument" "name") b).
Proof. reflexivity. Qed.

Lemma clear_effects :
  effs "SpectroscopicInstrument" "_clear_spectral_settings"
  = [EAssign "_min_wavelength"; EAssign "_max_wavelength"; EAssign "_spectral_bins"] /\
  forall b, b_min (clear_spectral b) = None /\ b_max (clear_spectral b) = None /\ b_bins (clear_spectral b) = None
            /\ b_name (clear_spectral b) = b_name b /\ b_classes (clear_spectral b) = b_classes b
            /\ b_kwargs (clear_spectral b) = b_kwargs b.
Proof. split; [reflexivity|]. intros b. repeat split. Qed.

(* _update_wavelength_to_pixel: early return when _accommodated_spectra is None, otherwise ends with the clear *)
Lemma ct_update_effects s :
  effs "CzernyTurnerSpectrometer" "_update_wavelength_to_pixel"
  = [EReturnIfNone "_accommodated_spectra"; EAssign "_wavelength_to_pixel"; EAssign "_wavelengths"; EClear] /\
  ct_base (ct_update_w2p rnd resolution s) = eff_base (is_some (ct_acc s)) EUpdW2p (ct_base s) /\
  ct_acc (ct_update_w2p rnd resolution s) = ct_acc s.
Proof. split; [reflexivity|]. unfold ct_update_w2p. destruct (ct_acc s) eqn:E; cbn; rewrite ?E; split; reflexivity. Qed.

Lemma ct_order_effects v s s' : ct_set_order rnd resolution v s = Ok s' ->
  ct_base s' = run_effs (is_some (ct_acc s)) (effs "CzernyTurnerSpectrometer" "diffraction_order") (ct_base s).
Proof.
  unfold ct_set_order. destruct (trunc v <=? 0)%Z; [discriminate|]. intros E; injection E as <-.
  unfold ct_update_w2p; cbn. destruct (ct_acc s); reflexivity.
Qed.

Lemma ct_pos_effects upd v s s' : ct_set_pos rnd resolution upd v s = Ok s' ->
  ct_base s' = run_effs (is_some (ct_acc s)) (effs "CzernyTurnerSpectrometer" "grating") (ct_base s) /\
  effs "CzernyTurnerSpectrometer" "grating" = [EAssign "_grating"; EUpdW2p] /\
  effs "CzernyTurnerSpectrometer" "focal_length" = [EAssign "_focal_length"; EUpdW2p] /\
  effs "CzernyTurnerSpectrometer" "pixel_spacing" = [EAssign "_pixel_spacing"; EUpdW2p].
Proof.
  unfold ct_set_pos. destruct (Qle_bool v 0); [discriminate|]. intros E; injection E as <-.
  split; [|repeat split]. unfold ct_update_w2p; cbn. destruct (ct_acc s); reflexivity.
Qed.

Lemma ct_angle_effects v s s' : ct_set_angle rnd resolution deg2rad v s = Ok s' ->
  ct_base s' = run_effs (is_some (ct_acc s)) (effs "CzernyTurnerSpectrometer" "diffraction_angle") (ct_base s).
Proof.
  unfold ct_set_angle. destruct (Qle_bool v 0); [discriminate|]. intros E; injection E as <-.
  unfold ct_update_w2p; cbn. destruct (ct_acc s); reflexivity.
Qed.

Lemma ct_acc_effects v s s' : ct_set_acc rnd resolution v s = Ok s' ->
  ct_base s' = run_effs true (effs "CzernyTurnerSpectrometer" "accommodated_spectra") (ct_base s).
Proof. unfold ct_set_acc. destruct (forallb acc_valid v); [|discriminate]. intros E; injection E as <-. reflexivity. Qed.

Lemma ct_mbpp_effects v s s' : ct_set_mbpp v s = Ok s' ->
  ct_base s' = run_effs true (effs "Spectrometer" "min_bins_per_pixel") (ct_base s).
Proof. unfold ct_set_mbpp. destruct (trunc v <=? 0)%Z; [discriminate|]. intros E; injection E as <-. reflexivity. Qed.

Lemma pc_mbpw_effects v s s' : pc_set_mbpw v s = Ok s' ->
  pc_base s' = run_effs true (effs "Polychromator" "min_bins_per_window") (pc_base s).
Proof. unfold pc_set_mbpw. destruct (trunc v <=? 0)%Z; [discriminate|]. intros E; injection E as <-. reflexivity. Qed.

Lemma pc_filters_effects v s s' : pc_set_filters v s = Ok s' ->
  pc_base s' = run_effs true (effs "Polychromator" "filters") (pc_base s).
Proof. unfold pc_set_filters. destruct (all_some v); [|discriminate]. intros E; injection E as <-. reflexivity. Qed.

(* all of them at once *)
Theorem setters_have_tabled_effects :
  (forall v s s', sp_set_mbpp v s = Ok s' -> sp_base s' = run_effs true (effs "Spectrometer" "min_bins_per_pixel") (sp_base s)) /\
  (forall v s s', sp_set_w2p rnd v s = Ok s' -> sp_base s' = run_effs true (effs "Spectrometer" "wavelength_to_pixel") (sp_base s)) /\
  (forall v b, caches (set_name v b) = caches (run_effs true (effs "SpectroscopicInstrument" "name") b)) /\
  (forall v s s', ct_set_order rnd resolution v s = Ok s' ->
     ct_base s' = run_effs (is_some (ct_acc s)) (effs "CzernyTurnerSpectrometer" "diffraction_order") (ct_base s)) /\
  (forall upd v s s', ct_set_pos rnd resolution upd v s = Ok s' ->
     ct_base s' = run_effs (is_some (ct_acc s)) (effs "CzernyTurnerSpectrometer" "grating") (ct_base s)) /\
  (forall v s s', ct_set_angle rnd resolution deg2rad v s = Ok s' ->
     ct_base s' = run_effs (is_some (ct_acc s)) (effs "CzernyTurnerSpectrometer" "diffraction_angle") (ct_base s)) /\
  (forall v s s', ct_set_acc rnd resolution v s = Ok s' ->
     ct_base s' = run_effs true (effs "CzernyTurnerSpectrometer" "accommodated_spectra") (ct_base s)) /\
  (forall v s s', ct_set_mbpp v s = Ok s' -> ct_base s' = run_effs true (effs "Spectrometer" "min_bins_per_pixel") (ct_base s)) /\
  (forall v s s', pc_set_mbpw v s = Ok s' -> pc_base s' = run_effs true (effs "Polychromator" "min_bins_per_window") (pc_base s)) /\
  (forall v s s', pc_set_filters v s = Ok s' -> pc_base s' = run_effs true (effs "Polychromator" "filters") (pc_base s)) /\
  (forall s, ct_base (ct_update_w2p rnd resolution s) = eff_base (is_some (ct_acc s)) EUpdW2p (ct_base s)).
Proof.
  repeat split.
  - exact sp_mbpp_effects. - exact sp_w2p_effects. - exact ct_order_effects.
  - intros upd v s s' H. apply (ct_pos_effects upd v s s' H).
  - exact ct_angle_effects. - exact ct_acc_effects. - exact ct_mbpp_effects. - exact pc_mbpw_effects.
  - exact pc_filters_effects. - intros s. apply (ct_update_effects s).
Qed.

End S.
