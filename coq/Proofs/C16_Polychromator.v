(* C16: Polychromator -- history independence, range covers every filter, bin-width bound. *)
Require Import Cherab.Common.Qx.
Require Import Cherab.Model.C16_Instruments Cherab.Proofs.C16_Base Cherab.Proofs.C16_Range.
From Coq Require Import String Qround Lqa.
Open Scope Q_scope.

Section PC.
Variable rnd : Q -> Q.
Notation step := (pc_step rnd).
Notation view := (pc_view rnd).

Definition pp_mbpw (p : pc_params) v := {| pcp_filters := pcp_filters p; pcp_mbpw := v; pcp_name := pcp_name p |}.
Definition pp_filters (p : pc_params) v := {| pcp_filters := v; pcp_mbpw := pcp_mbpw p; pcp_name := pcp_name p |}.
Definition pp_name (p : pc_params) v := {| pcp_filters := pcp_filters p; pcp_mbpw := pcp_mbpw p; pcp_name := v |}.

(* an accepted assignment replaces that parameter; a rejected one and every read change nothing *)
Definition pc_pstep (o : pc_op) (p : pc_params) : pc_params :=
  match o with
  | PcSetMbpw v => if (trunc v <=? 0)%Z then p else pp_mbpw p v
  | PcSetFilters v => match all_some v with None => p | Some _ => pp_filters p v end
  | PcSetName v => pp_name p v
  | _ => p
  end.

Definition pc_is_obs (o : pc_op) : bool := match o with PcGet _ | PcGetFilters => true | _ => false end.

Definition pc_rel (p : pc_params) (s : pc_state) : Prop :=
  (trunc (pcp_mbpw p) <=? 0)%Z = false /\ all_some (pcp_filters p) = Some (pc_filters s)
  /\ pc_mbpw s = trunc (pcp_mbpw p) /\ b_name (pc_base s) = pcp_name p
  /\ coh (view s) (pc_base s) /\ b_classes (pc_base s) <> Missing.

Ltac rel_split := unfold pc_rel; cbn;
  repeat match goal with |- _ /\ _ => split end; cbn; try assumption; try reflexivity; try congruence.

Lemma pc_construct_rel p s : pc_construct p = Ok s -> pc_rel p s.
Proof.
  unfold pc_construct, pc_set_mbpw, pc_set_filters, bind. cbn.
  destruct (trunc (pcp_mbpw p) <=? 0)%Z eqn:E1; [discriminate|]. cbn.
  destruct (all_some (pcp_filters p)) as [fs|] eqn:E2; [|discriminate].
  intros E. injection E as <-. rel_split.
  unfold coh; cbn. repeat split; intros; discriminate.
Qed.

Lemma pc_rel_construct p s : pc_rel p s -> exists sf, pc_construct p = Ok sf.
Proof.
  intros (E1 & E2 & _).
  unfold pc_construct, pc_set_mbpw, pc_set_filters, bind. cbn. rewrite E1. cbn. rewrite E2. eexists. reflexivity.
Qed.

Lemma pc_step_rel o p s : pc_rel p s -> pc_rel (pc_pstep o p) (fst (step o s)).
Proof.
  intros R. pose proof R as (E1 & E2 & Hm & Hn & Hc & Hcl).
  destruct o; cbn.
  - unfold pc_set_mbpw. destruct (trunc v <=? 0)%Z eqn:E; cbn; [exact R|].
    rel_split. eapply coh_clear_of; [| |exact Hc]; reflexivity.
  - unfold pc_set_filters. destruct (all_some v) as [fs|] eqn:E; cbn; [|exact R].
    rel_split. unfold coh; cbn. repeat split; intros; discriminate.
  - rel_split. destruct Hc as (H1 & H2 & H3 & H4 & H5). unfold coh; cbn. repeat split; auto; intros; discriminate.
  - pose proof (gstep_coh (view s) g (pc_base s) Hc) as C.
    pose proof (gstep_shape (view s) g (pc_base s)) as (En & Hs).
    destruct (gstep (view s) g (pc_base s)) as [b r]. cbn in *.
    rel_split.
    + replace (view (pc_with_base s b)) with (view s); [exact C|].
      unfold pc_view; cbn. rewrite En. reflexivity.
    + tauto.
  - exact R.
Qed.

Lemma pc_view_of_rel p s1 s2 : pc_rel p s1 -> pc_rel p s2 -> view s1 = view s2 /\ pc_filters s1 = pc_filters s2.
Proof.
  intros (_ & F1 & M1 & N1 & _) (_ & F2 & M2 & N2 & _).
  assert (pc_filters s1 = pc_filters s2) as EF by congruence.
  split; [|exact EF]. unfold pc_view. rewrite M1, M2, N1, N2, EF. reflexivity.
Qed.

Lemma pc_obs_pstep o p : pc_is_obs o = true -> pc_pstep o p = p.
Proof. destruct o; try discriminate; reflexivity. Qed.

Lemma pc_obs_equiv obs : forall p s1 s2,
  pc_rel p s1 -> pc_rel p s2 -> total (view s1) -> forallb pc_is_obs obs = true ->
  snd (run step obs s1) = snd (run step obs s2).
Proof.
  induction obs as [|o t IH]; intros p s1 s2 R1 R2 T Ho; [reflexivity|].
  cbn in Ho. apply andb_prop in Ho as [Ho Ht].
  rewrite !run_cons_snd.
  destruct (pc_view_of_rel p s1 s2 R1 R2) as [EV EF].
  assert (snd (step o s1) = snd (step o s2)) as ->.
  { pose proof R1 as (_ & _ & _ & _ & Hc1 & Hcl1). pose proof R2 as (_ & _ & _ & _ & Hc2 & Hcl2).
    destruct o; try discriminate; cbn.
    - pose proof (gstep_answer (view s1) g (pc_base s1) T Hc1) as A1.
      rewrite EV in T. pose proof (gstep_answer (view s2) g (pc_base s2) T Hc2) as A2.
      destruct (gstep (view s1) g (pc_base s1)), (gstep (view s2) g (pc_base s2)). cbn in *.
      rewrite A1, A2, EV. f_equal. unfold is_missing.
      destruct (b_classes (pc_base s1)), (b_classes (pc_base s2)); congruence.
    - rewrite EF. reflexivity. }
  f_equal. apply (IH p); try assumption.
  - rewrite <- (pc_obs_pstep o p Ho). apply pc_step_rel, R1.
  - rewrite <- (pc_obs_pstep o p Ho). apply pc_step_rel, R2.
  - pose proof (pc_step_rel o p s1 R1) as R1'. rewrite (pc_obs_pstep o p Ho) in R1'.
    rewrite <- (proj1 (pc_view_of_rel p s1 _ R1 R1')). exact T.
Qed.

Lemma pc_run_rel ops : forall p s, pc_rel p s -> pc_rel (fold_left (fun p o => pc_pstep o p) ops p) (fst (run step ops s)).
Proof.
  induction ops as [|o t IH]; intros p s R; [exact R|].
  rewrite run_cons_fst. cbn. apply IH, pc_step_rel, R.
Qed.

Theorem pc_history p0 s0 ops :
  pc_construct p0 = Ok s0 ->
  let s := fst (run step ops s0) in
  let pf := fold_left (fun p o => pc_pstep o p) ops p0 in
  pc_rel pf s /\
  exists sf, pc_construct pf = Ok sf /\
    (total (view s) -> forall obs, forallb pc_is_obs obs = true ->
       snd (run step obs s) = snd (run step obs sf)).
Proof.
  intros Hc s pf.
  assert (pc_rel pf s) as R by (apply pc_run_rel, pc_construct_rel, Hc).
  split; [exact R|].
  destruct (pc_rel_construct pf s R) as (sf & E). exists sf. split; [exact E|].
  intros T obs Ho. apply (pc_obs_equiv obs pf); try assumption. apply pc_construct_rel, E.
Qed.

(* ---- the folds of _update_spectral_settings ---- *)
Lemma xmin_fin a b : exists c, xmin a b = Fin c /\ c <= b /\ (forall q, a = Fin q -> c <= q) /\ (c = b \/ a = Fin c).
Proof.
  destruct a as [q|]; cbn.
  - exists (qmin q b). split; [reflexivity|]. split; [apply qmin_le_r|]. split.
    + intros q' E. injection E as <-. apply qmin_le_l.
    + destruct (qmin_case q b) as [-> | ->]; auto.
  - exists b. split; [reflexivity|]. split; [apply Qle_refl|]. split; [intros; discriminate|auto].
Qed.

Lemma fold_xmin_le (g : pfilter -> Q) fs : forall acc q,
  fold_left (fun m f => xmin m (g f)) fs acc = Fin q ->
  (forall f, In f fs -> q <= g f) /\ (forall a, acc = Fin a -> q <= a) /\
  ((exists f, In f fs /\ q = g f) \/ acc = Fin q).
Proof.
  induction fs as [|x t IH]; intros acc q H; cbn in H.
  - subst acc. split; [intros f []|]. split; [intros a E; injection E as <-; apply Qle_refl|auto].
  - destruct (xmin_fin acc (g x)) as (c & Ec & Hcx & Hca & Hor). rewrite Ec in H.
    destruct (IH (Fin c) q H) as (H1 & H2 & H3). specialize (H2 c eq_refl). split; [|split].
    + intros f [<-|Hf]; [eapply Qle_trans; eassumption|apply H1, Hf].
    + intros a Ea. eapply Qle_trans; [exact H2|apply Hca, Ea].
    + destruct H3 as [(f & Hf & E)|E].
      * left. exists f. split; [right; exact Hf|exact E].
      * injection E as <-. destruct Hor as [-> | ->]; [left; exists x; split; [left|]; reflexivity|right; reflexivity].
Qed.

Lemma fold_qmax_ge (g : pfilter -> Q) fs : forall acc,
  acc <= fold_left (fun m f => qmax m (g f)) fs acc /\
  forall f, In f fs -> g f <= fold_left (fun m f => qmax m (g f)) fs acc.
Proof.
  induction fs as [|x t IH]; intros acc; cbn; [split; [apply Qle_refl|intros f []]|].
  destruct (IH (qmax acc (g x))) as [H1 H2]. split.
  - eapply Qle_trans; [apply qmax_ge_l|exact H1].
  - intros f [<-|Hf]; [eapply Qle_trans; [apply qmax_ge_r|exact H1]|apply H2, Hf].
Qed.

(* the spectral range covers every filter *)
Lemma range_covers_filters mbpw fs mn mx :
  d_min (pc_derive rnd mbpw fs) = Some (Fin mn) -> d_max (pc_derive rnd mbpw fs) = Some (Fin mx) ->
  forall f, In f fs -> mn <= f_min f /\ f_max f <= mx.
Proof.
  unfold pc_derive; cbn. intros E1 E2 f Hf. injection E1 as E1. injection E2 as <-. split.
  - apply (proj1 (fold_xmin_le f_min fs PInf mn E1) f Hf).
  - apply (proj2 (fold_qmax_ge f_max fs 0) f Hf).
Qed.

End PC.

Lemma ceil_bound D st : 0 < D -> 0 < st ->
  (0 < Qceiling (D / st))%Z /\ D / inject_Z (Qceiling (D / st)) <= st.
Proof.
  intros HD Hst. set (r := D / st).
  assert (0 < r) as Hr by (unfold r, Qdiv; apply Qmult_lt_0_compat; [exact HD|apply Qinv_lt_0_compat, Hst]).
  pose proof (Qle_ceiling r) as Hc.
  assert (0 < inject_Z (Qceiling r)) as Hnq by (eapply Qlt_le_trans; [exact Hr|exact Hc]).
  split; [apply inject_Z_pos, Hnq|].
  apply Qle_shift_div_r; [exact Hnq|].
  assert (D == r * st) as -> by (unfold r; field; intros E; rewrite E in Hst; exact (Qlt_irrefl _ Hst)).
  rewrite (Qmult_comm st). apply Qmult_le_compat_r; [exact Hc|apply Qlt_le_weak, Hst].
Qed.

(* exact arithmetic: (max - min) / bins <= (narrowest window) / min_bins_per_window, for filters
   with a positive window inside a non-empty range *)
Lemma bin_width_bound_pc mbpw fs mn mx n :
  (0 < mbpw)%Z -> (forall f, In f fs -> f_min f < f_max f /\ 0 < f_window f) ->
  d_min (pc_derive exact mbpw fs) = Some (Fin mn) -> d_max (pc_derive exact mbpw fs) = Some (Fin mx) ->
  d_bins (pc_derive exact mbpw fs) = Some n ->
  forall f, In f fs -> (0 < n)%Z /\ (mx - mn) / inject_Z n <= f_window f / inject_Z mbpw.
Proof.
  intros Hm Hwf E1 E2 E3 f Hf.
  destruct (range_covers_filters exact mbpw fs mn mx E1 E2 f Hf) as [Hlo Hhi].
  destruct (Hwf f Hf) as [Hlt Hw].
  unfold pc_derive in E1, E2, E3. cbn in E1, E2, E3.
  injection E1 as E1. injection E2 as E2. rewrite E1 in E3.
  destruct (fold_left (fun st f => xmin st (exact (f_window f / inject_Z mbpw))) fs PInf) as [st|] eqn:Es; [|discriminate].
  injection E3 as <-. rewrite E2.
  destruct (fold_xmin_le (fun f => exact (f_window f / inject_Z mbpw)) fs PInf st Es) as (H1 & _ & H3).
  pose proof (inject_Z_pos' mbpw Hm) as Hmq.
  assert (0 < st) as Hst.
  { destruct H3 as [(f' & Hf' & ->)|E]; [|discriminate]. unfold exact, Qdiv.
    apply Qmult_lt_0_compat; [apply (Hwf f' Hf')|apply Qinv_lt_0_compat, Hmq]. }
  assert (0 < mx - mn) as HD by lra.
  unfold nbins, exact.
  destruct (ceil_bound (mx - mn) st HD Hst) as [Hn Hb]. split; [exact Hn|].
  eapply Qle_trans; [exact Hb|]. apply (H1 f Hf).
Qed.

(* rounded arithmetic with relative error <= u per operation: the same bound up to ((1+u)/(1-u))^2 *)
Lemma bin_width_bound_pc_float (rnd : Q -> Q) (u : Q) :
  0 <= u -> u < 1 -> (forall x, 0 <= x -> (1 - u) * x <= rnd x /\ rnd x <= (1 + u) * x) ->
  forall mbpw fs mn mx n,
  (0 < mbpw)%Z -> (forall f, In f fs -> f_min f < f_max f /\ 0 < f_window f) ->
  d_min (pc_derive rnd mbpw fs) = Some (Fin mn) -> d_max (pc_derive rnd mbpw fs) = Some (Fin mx) ->
  d_bins (pc_derive rnd mbpw fs) = Some n ->
  forall f, In f fs ->
  (0 < n)%Z /\
  (1 - u) * (1 - u) * (mx - mn) <= inject_Z n * ((1 + u) * (1 + u) * (f_window f / inject_Z mbpw)).
Proof.
  intros Hu0 Hu1 Hrnd mbpw fs mn mx n Hm Hwf E1 E2 E3 f Hf.
  destruct (range_covers_filters rnd mbpw fs mn mx E1 E2 f Hf) as [Hlo Hhi].
  destruct (Hwf f Hf) as [Hlt Hw].
  unfold pc_derive in E1, E2, E3. cbn in E1, E2, E3.
  injection E1 as E1. injection E2 as E2. rewrite E1 in E3.
  destruct (fold_left (fun st f => xmin st (rnd (f_window f / inject_Z mbpw))) fs PInf) as [st|] eqn:Es; [|discriminate].
  injection E3 as <-. rewrite E2.
  destruct (fold_xmin_le (fun f => rnd (f_window f / inject_Z mbpw)) fs PInf st Es) as (H1 & _ & H3).
  pose proof (inject_Z_pos' mbpw Hm) as Hmq.
  assert (0 < / inject_Z mbpw) as Hinv by (apply Qinv_lt_0_compat, Hmq).
  assert (forall g, In g fs -> 0 < f_window g / inject_Z mbpw) as Hpos.
  { intros g Hg. unfold Qdiv. apply Qmult_lt_0_compat; [apply (Hwf g Hg)|exact Hinv]. }
  assert (0 < st) as Hst.
  { destruct H3 as [(f' & Hf' & ->)|E]; [|discriminate]. apply (rnd_pos rnd u Hu1 Hrnd), Hpos, Hf'. }
  set (p := f_window f / inject_Z mbpw).
  assert (0 < p) as Hp by (apply Hpos, Hf).
  assert (st <= (1 + u) * p) as Hsp.
  { eapply Qle_trans; [apply (H1 f Hf)|]. apply (Hrnd p). lra. }
  assert (p <= (1 + u) * p) as Hpp by nra.
  assert (0 < mx - mn) as HD by lra.
  unfold nbins.
  set (D' := rnd (mx - mn)).
  assert ((1 - u) * (mx - mn) <= D') as HD' by (apply (Hrnd (mx - mn)); lra).
  assert (0 < D') as HD'pos by (apply (rnd_pos rnd u Hu1 Hrnd), HD).
  set (r0 := D' / st).
  assert (0 < r0) as Hr0 by (unfold r0, Qdiv; apply Qmult_lt_0_compat; [exact HD'pos|apply Qinv_lt_0_compat, Hst]).
  assert (r0 * st == D') as Hr0s by (unfold r0; field; intros E; rewrite E in Hst; exact (Qlt_irrefl _ Hst)).
  set (r := rnd r0).
  assert ((1 - u) * r0 <= r) as Hr by (apply (Hrnd r0); lra).
  assert (0 < r) as Hrpos by (apply (rnd_pos rnd u Hu1 Hrnd), Hr0).
  pose proof (Qle_ceiling r) as Hc.
  assert (0 < inject_Z (Qceiling r)) as Hnq by (eapply Qlt_le_trans; [exact Hrpos|exact Hc]).
  split; [apply inject_Z_pos, Hnq|].
  apply (chain u (mx - mn) D' r0 r st p (inject_Z (Qceiling r)) p); try assumption.
  apply Qlt_le_weak, Hnq.
Qed.
