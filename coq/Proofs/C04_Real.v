(* C04: the real-valued direction field of Proofs/C04_Streamline.v IS the model's direction field:
   on rational points the embedding Q -> R maps the model's direction_raw and sigma^2 onto ex_R and
   sigma_R^2.  (The model is a rational function of its arguments; ex_R is the same rational function
   over R.) *)
From Coq Require Import QArith Reals Qreals Lra.
Require Import Cherab.Model.C04_Beam Cherab.Proofs.C04_Streamline.

Lemma Q2R_sigma_pos (s t z : Q) : (0 < s)%Q -> (0 < Q2R s * Q2R s + Q2R z * Q2R z * Q2R t * Q2R t)%R.
Proof.
  intros Hs. apply Qlt_Rlt in Hs. replace (Q2R 0) with 0%R in Hs by (unfold Q2R; simpl; lra).
  apply sigma_arg_pos. exact Hs.
Qed.

Lemma den_nonzero (s t z : Q) : (0 < s)%Q -> ~ (s * s + z * z * t * t == 0)%Q.
Proof.
  intros Hs E. apply Qeq_eqR in E. rewrite Q2R_plus, !Q2R_mult in E.
  pose proof (Q2R_sigma_pos s t z Hs). replace (Q2R 0) with 0%R in E by (unfold Q2R; simpl; lra). lra.
Qed.

Lemma direction_raw_is_real_field (c : beam_cfg) (x y z : Q) :
  (0 < b_sigma c)%Q ->
  Q2R (vx (direction_raw c x y z)) = ex_R (Q2R (b_sigma c)) (Q2R (b_tx c)) (Q2R x) (Q2R z) /\
  Q2R (vy (direction_raw c x y z)) = ex_R (Q2R (b_sigma c)) (Q2R (b_ty c)) (Q2R y) (Q2R z) /\
  Q2R (vz (direction_raw c x y z)) = Q2R z /\
  Q2R (sigma_x_sqr c z) = (sigma_R (Q2R (b_sigma c)) (Q2R (b_tx c)) (Q2R z) * sigma_R (Q2R (b_sigma c)) (Q2R (b_tx c)) (Q2R z))%R /\
  Q2R (sigma_y_sqr c z) = (sigma_R (Q2R (b_sigma c)) (Q2R (b_ty c)) (Q2R z) * sigma_R (Q2R (b_sigma c)) (Q2R (b_ty c)) (Q2R z))%R.
Proof.
  intros Hs. unfold direction_raw, ex_R, sigma_R, sigma_x_sqr, sigma_y_sqr. cbn [vx vy vz].
  repeat split.
  - rewrite Q2R_div by (apply den_nonzero; exact Hs). rewrite Q2R_plus, !Q2R_mult. reflexivity.
  - rewrite Q2R_div by (apply den_nonzero; exact Hs). rewrite Q2R_plus, !Q2R_mult. reflexivity.
  - rewrite sqrt_sqrt by (apply Rlt_le, Q2R_sigma_pos; exact Hs). rewrite Q2R_plus, !Q2R_mult. reflexivity.
  - rewrite sqrt_sqrt by (apply Rlt_le, Q2R_sigma_pos; exact Hs). rewrite Q2R_plus, !Q2R_mult. reflexivity.
Qed.
