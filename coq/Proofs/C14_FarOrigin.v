(* The known finding c14-farorigin, explained: the caching classes store each cell's cubic as monomial
   coefficients about the ORIGIN of the raw coordinates (de-normalisation loop) and evaluate
   c0 + c1 px + c2 px^2 + c3 px^3.  For a cell [x0, x0 + h] far from the origin this representation is
   ill-conditioned: relative perturbations of size eps of the stored coefficients (one rounding each) can move the
   value by eps a (x0 + px)^3 >= 8 eps a x0^3, that is 8 (x0/h)^3 times eps times the whole variation a h^3 of the
   cubic term over the cell, whereas the same perturbation of cell-local coefficients moves it by at most eps a h^3. *)
Require Import Cherab.Common.Qx.
Require Import Cherab.Model.C14_Caching.
From Coq Require Import Qabs Lqa.
Open Scope Q_scope.

(* monomial coefficients about the origin of a (x - x0)^3 *)
Definition cubic_about_origin (a x0 : Q) : Q * Q * Q * Q := (- a * x0 * x0 * x0, 3 * a * x0 * x0, - 3 * a * x0, a).
(* coefficients moved by eps times their own magnitude (a > 0, x0 >= 0: magnitudes a x0^3, 3 a x0^2, 3 a x0, a) *)
Definition perturbed (a x0 eps : Q) : Q * Q * Q * Q :=
  (- a * x0 * x0 * x0 + eps * (a * x0 * x0 * x0), 3 * a * x0 * x0 + eps * (3 * a * x0 * x0),
   - 3 * a * x0 + eps * (3 * a * x0), a + eps * a).

Lemma cube_le (p q : Q) : 0 <= p -> p <= q -> p * p * p <= q * q * q.
Proof.
  intros Hp Hpq.
  assert (Hq : 0 <= q) by lra.
  assert (D : 0 <= q - p) by lra.
  assert (A : 0 <= q * q + q * p + p * p).
  { assert (0 <= q * q) by (apply Qmult_le_0_compat; assumption).
    assert (0 <= q * p) by (apply Qmult_le_0_compat; assumption).
    assert (0 <= p * p) by (apply Qmult_le_0_compat; assumption). lra. }
  assert (B : 0 <= (q - p) * (q * q + q * p + p * p)) by (apply Qmult_le_0_compat; assumption).
  setoid_replace (q * q * q) with (p * p * p + (q - p) * (q * q + q * p + p * p)) by ring. lra.
Qed.

Theorem farorigin_cancellation a x0 h px eps :
  0 < a -> 0 <= x0 -> 0 < h -> x0 <= px <= x0 + h -> 0 <= eps ->
  (* the exact coefficients evaluate to the cubic, whose size in the cell is at most a h^3 *)
  evalc1 (cubic_about_origin a x0) px == a * ((px - x0) * (px - x0) * (px - x0)) /\
  0 <= a * ((px - x0) * (px - x0) * (px - x0)) <= a * (h * h * h) /\
  (* every coefficient of [perturbed] is within relative eps of the exact one ... *)
  (let '(c0, c1, c2, c3) := cubic_about_origin a x0 in let '(d0, d1, d2, d3) := perturbed a x0 eps in
   Qabs (d0 - c0) <= eps * Qabs c0 /\ Qabs (d1 - c1) <= eps * Qabs c1 /\
   Qabs (d2 - c2) <= eps * Qabs c2 /\ Qabs (d3 - c3) <= eps * Qabs c3) /\
  (* ... and yet the value moves by eps a (x0 + px)^3, at least 8 eps a x0^3 *)
  evalc1 (perturbed a x0 eps) px - evalc1 (cubic_about_origin a x0) px
  == eps * a * ((x0 + px) * (x0 + px) * (x0 + px)) /\
  8 * eps * a * (x0 * x0 * x0) <= eps * a * ((x0 + px) * (x0 + px) * (x0 + px)).
Proof.
  intros Ha Hx0 Hh [Hp0 Hp1] He.
  assert (Hd : 0 <= px - x0) by lra.
  split; [unfold evalc1, cubic_about_origin; ring|].
  split.
  { split.
    - apply Qmult_le_0_compat; [lra|]. apply Qmult_le_0_compat; [apply Qmult_le_0_compat|]; assumption.
    - rewrite (Qmult_comm a _), (Qmult_comm a (h * h * h)). apply Qmult_le_compat_r; [|lra].
      apply cube_le; lra. }
  split.
  { unfold cubic_about_origin, perturbed.
    assert (P3 : 0 <= a * x0 * x0 * x0).
    { apply Qmult_le_0_compat; [apply Qmult_le_0_compat; [apply Qmult_le_0_compat|]|]; lra. }
    assert (P2 : 0 <= 3 * a * x0 * x0).
    { apply Qmult_le_0_compat; [apply Qmult_le_0_compat|]; lra. }
    assert (P1 : 0 <= 3 * a * x0) by (apply Qmult_le_0_compat; lra).
    repeat split.
    - setoid_replace (- a * x0 * x0 * x0 + eps * (a * x0 * x0 * x0) - - a * x0 * x0 * x0) with (eps * (a * x0 * x0 * x0)) by ring.
      setoid_replace (- a * x0 * x0 * x0) with (- (a * x0 * x0 * x0)) by ring. rewrite Qabs_opp.
      rewrite (Qabs_pos (a * x0 * x0 * x0)) by exact P3. rewrite Qabs_pos; [apply Qle_refl|apply Qmult_le_0_compat; assumption].
    - setoid_replace (3 * a * x0 * x0 + eps * (3 * a * x0 * x0) - 3 * a * x0 * x0) with (eps * (3 * a * x0 * x0)) by ring.
      rewrite (Qabs_pos (3 * a * x0 * x0)) by exact P2. rewrite Qabs_pos; [apply Qle_refl|apply Qmult_le_0_compat; assumption].
    - setoid_replace (- 3 * a * x0 + eps * (3 * a * x0) - - 3 * a * x0) with (eps * (3 * a * x0)) by ring.
      setoid_replace (- 3 * a * x0) with (- (3 * a * x0)) by ring. rewrite Qabs_opp.
      rewrite (Qabs_pos (3 * a * x0)) by exact P1. rewrite Qabs_pos; [apply Qle_refl|apply Qmult_le_0_compat; assumption].
    - setoid_replace (a + eps * a - a) with (eps * a) by ring.
      rewrite (Qabs_pos a) by lra. rewrite Qabs_pos; [apply Qle_refl|apply Qmult_le_0_compat; lra]. }
  split; [unfold evalc1, cubic_about_origin, perturbed; ring|].
  setoid_replace (8 * eps * a * (x0 * x0 * x0)) with (eps * a * ((x0 + x0) * (x0 + x0) * (x0 + x0))) by ring.
  rewrite (Qmult_comm (eps * a) _), (Qmult_comm (eps * a) ((x0 + px) * (x0 + px) * (x0 + px))).
  apply Qmult_le_compat_r; [apply cube_le; lra|apply Qmult_le_0_compat; lra].
Qed.
