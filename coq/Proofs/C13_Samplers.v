(* C13 -- samplers: index order, shape, evenly spaced axes including both end points. *)
Require Import Cherab.Common.Qx.
Require Import Cherab.Model.C13_Wrappers.
From Coq Require Import Lqa.
Open Scope Q_scope.

(* ---- v[i][j][k] = f x_i y_j z_k, for all axis lists ------------------------------------------------- *)
Lemma sample1d_index {A B} (f : A -> B) xs i x :
  nth_error xs i = Some x -> nth_error (sample1d f xs) i = Some (f x).
Proof. intros H. unfold sample1d. apply map_nth_error, H. Qed.

Lemma sample2d_index {A B} (f : A -> A -> B) xs ys i j x y :
  nth_error xs i = Some x -> nth_error ys j = Some y ->
  exists row, nth_error (sample2d f xs ys) i = Some row /\ nth_error row j = Some (f x y).
Proof.
  intros Hx Hy. exists (map (fun y => f x y) ys). split.
  - unfold sample2d. apply (map_nth_error (fun x => map (fun y => f x y) ys)), Hx.
  - apply (map_nth_error (fun y => f x y)), Hy.
Qed.

Lemma sample3d_index {A B} (f : A -> A -> A -> B) xs ys zs i j k x y z :
  nth_error xs i = Some x -> nth_error ys j = Some y -> nth_error zs k = Some z ->
  exists plane row, nth_error (sample3d f xs ys zs) i = Some plane /\ nth_error plane j = Some row
                    /\ nth_error row k = Some (f x y z).
Proof.
  intros Hx Hy Hz.
  exists (map (fun y => map (fun z => f x y z) zs) ys), (map (fun z => f x y z) zs). repeat split.
  - unfold sample3d. apply (map_nth_error (fun x => map (fun y => map (fun z => f x y z) zs) ys)), Hx.
  - apply (map_nth_error (fun y => map (fun z => f x y z) zs)), Hy.
  - apply (map_nth_error (fun z => f x y z)), Hz.
Qed.

(* shape: (len xs, len ys, len zs) *)
Lemma sample3d_shape {A B} (f : A -> A -> A -> B) xs ys zs :
  length (sample3d f xs ys zs) = length xs /\
  Forall (fun plane => length plane = length ys /\ Forall (fun row => length row = length zs) plane) (sample3d f xs ys zs).
Proof.
  unfold sample3d. split; [apply map_length |].
  apply Forall_forall. intros plane H. apply in_map_iff in H as (x & <- & _). split; [apply map_length |].
  apply Forall_forall. intros row H. apply in_map_iff in H as (y & <- & _). apply map_length.
Qed.

Lemma sample_points_index {A B} (f : A -> A -> A -> B) pts i x y z :
  nth_error pts i = Some (x, y, z) -> nth_error (sample3d_points f pts) i = Some (f x y z).
Proof.
  intros H. unfold sample3d_points.
  apply (map_nth_error (fun p => f (fst (fst p)) (snd (fst p)) (snd p))) in H. exact H.
Qed.

(* ---- linspace ---------------------------------------------------------------------------------------- *)
Lemma zrange_length n : (0 <= n)%Z -> length (zrange n) = Z.to_nat n.
Proof. intros _. unfold zrange. rewrite map_length, seq_length. reflexivity. Qed.

Lemma zrange_nth n i : (0 <= i < n)%Z -> nth_error (zrange n) (Z.to_nat i) = Some i.
Proof.
  intros H. unfold zrange.
  rewrite (map_nth_error Z.of_nat (Z.to_nat i) (seq 0 (Z.to_nat n)) (d := Z.to_nat i)).
  - f_equal. lia.
  - rewrite nth_error_nth' with (d := O) by (rewrite seq_length; lia).
    rewrite seq_nth by lia. reflexivity.
Qed.

Lemma linspace_length n a b : (0 <= n)%Z -> length (linspace n a b) = Z.to_nat n.
Proof. intros H. unfold linspace. rewrite map_length. apply zrange_length, H. Qed.

Lemma linspace_nth n a b i : (0 <= i < n)%Z -> nth_error (linspace n a b) (Z.to_nat i) = Some (linspace_at n a b i).
Proof. intros H. unfold linspace. apply map_nth_error, zrange_nth, H. Qed.

Lemma inject_Z_pos_neq0 m : (0 < m)%Z -> ~ inject_Z m == 0.
Proof. intros H E. assert (inject_Z 0 < inject_Z m) by (rewrite <- Zlt_Qlt; exact H). change (inject_Z 0) with 0 in *. lra. Qed.

(* every point is a + i (b - a)/(n - 1): evenly spaced; the first is a, the last is b *)
Lemma linspace_at_even n a b i : (1 < n)%Z -> (0 <= i < n)%Z ->
  linspace_at n a b i == a + inject_Z i * ((b - a) / inject_Z (n - 1)).
Proof.
  intros Hn Hi. unfold linspace_at.
  destruct (Z.ltb_spec 1 n); [| lia]. cbn [andb].
  destruct (Z.eqb_spec i (n - 1)) as [-> |]; [| reflexivity].
  field. apply inject_Z_pos_neq0. lia.
Qed.

Lemma linspace_at_first n a b : (1 <= n)%Z -> linspace_at n a b 0 == a.
Proof.
  intros Hn. unfold linspace_at.
  destruct ((1 <? n)%Z && (0 =? n - 1)%Z)%bool eqn:E.
  - apply andb_true_iff in E as [E1 E2]. apply Z.ltb_lt in E1. apply Z.eqb_eq in E2. lia.
  - change (inject_Z 0) with 0. ring.
Qed.

Lemma linspace_at_last n a b : (1 < n)%Z -> linspace_at n a b (n - 1) = b.
Proof.
  intros Hn. unfold linspace_at. destruct (Z.ltb_spec 1 n); [| lia]. rewrite Z.eqb_refl. reflexivity.
Qed.

Lemma linspace_single a b : linspace 1 a b = [linspace_at 1 a b 0] /\ linspace_at 1 a b 0 == a.
Proof. split; [reflexivity | apply linspace_at_first; lia]. Qed.

Lemma linspace_spacing n a b i : (1 < n)%Z -> (0 <= i < n - 1)%Z ->
  linspace_at n a b (i + 1) - linspace_at n a b i == (b - a) / inject_Z (n - 1).
Proof.
  intros Hn Hi. rewrite !linspace_at_even by lia. rewrite inject_Z_plus. change (inject_Z 1) with 1.
  field. apply inject_Z_pos_neq0. lia.
Qed.

(* points stay inside [a, b] and increase when a <= b *)
Lemma linspace_at_between n a b i : (1 < n)%Z -> (0 <= i < n)%Z -> a <= b ->
  a <= linspace_at n a b i /\ linspace_at n a b i <= b.
Proof.
  intros Hn Hi Hab. rewrite linspace_at_even by assumption.
  assert (P : 0 < inject_Z (n - 1)) by (change 0 with (inject_Z 0); rewrite <- Zlt_Qlt; lia).
  assert (I0 : 0 <= inject_Z i) by (change 0 with (inject_Z 0); rewrite <- Zle_Qle; lia).
  assert (I1 : inject_Z i <= inject_Z (n - 1)) by (rewrite <- Zle_Qle; lia).
  set (m := inject_Z (n - 1)) in *. set (t := inject_Z i) in *.
  assert (S : 0 <= (b - a) / m) by (apply Qle_shift_div_l; lra).
  split.
  - assert (0 <= t * ((b - a) / m)) by (apply Qmult_le_0_compat; assumption). lra.
  - assert (t * ((b - a) / m) <= m * ((b - a) / m)) by (apply Qmult_le_compat_r; assumption).
    assert (m * ((b - a) / m) == b - a) by (field; lra). lra.
Qed.

(* the composition the property states: entry [i][j][k] of a sampled 3-D function on ranges
   (a, b, n) per axis is the function at the evenly spaced grid point (x_i, y_j, z_k) *)
Lemma sample3d_on_linspace {B} (f : Q -> Q -> Q -> B) nx ax bx ny ay by_ nz az bz i j k :
  (0 <= i < nx)%Z -> (0 <= j < ny)%Z -> (0 <= k < nz)%Z ->
  exists plane row,
    nth_error (sample3d f (linspace nx ax bx) (linspace ny ay by_) (linspace nz az bz)) (Z.to_nat i) = Some plane
    /\ nth_error plane (Z.to_nat j) = Some row
    /\ nth_error row (Z.to_nat k) = Some (f (linspace_at nx ax bx i) (linspace_at ny ay by_ j) (linspace_at nz az bz k)).
Proof.
  intros Hi Hj Hk. apply sample3d_index; apply linspace_nth; assumption.
Qed.

(* the _points variants in two dimensions, and the one-/two-dimensional samplers on evenly spaced ranges *)
Lemma sample2d_points_index {A B} (f : A -> A -> B) pts i x y :
  nth_error pts i = Some (x, y) -> nth_error (sample2d_points f pts) i = Some (f x y).
Proof.
  intros H. unfold sample2d_points. apply (map_nth_error (fun p => f (fst p) (snd p))) in H. exact H.
Qed.
Lemma sample_points_length {A B} (f3 : A -> A -> A -> B) (f2 : A -> A -> B) p3 p2 :
  length (sample3d_points f3 p3) = length p3 /\ length (sample2d_points f2 p2) = length p2.
Proof. split; apply map_length. Qed.
Lemma sample1d_on_linspace {B} (f : Q -> B) n a b i : (0 <= i < n)%Z ->
  nth_error (sample1d f (linspace n a b)) (Z.to_nat i) = Some (f (linspace_at n a b i)).
Proof. intros H. apply sample1d_index, linspace_nth, H. Qed.
Lemma sample2d_on_linspace {B} (f : Q -> Q -> B) nx ax bx ny ay by_ i j : (0 <= i < nx)%Z -> (0 <= j < ny)%Z ->
  exists row, nth_error (sample2d f (linspace nx ax bx) (linspace ny ay by_)) (Z.to_nat i) = Some row
              /\ nth_error row (Z.to_nat j) = Some (f (linspace_at nx ax bx i) (linspace_at ny ay by_ j)).
Proof. intros Hi Hj. apply sample2d_index; apply linspace_nth; assumption. Qed.
Lemma sample2d_shape {A B} (f : A -> A -> B) xs ys :
  length (sample2d f xs ys) = length xs /\ Forall (fun row => length row = length ys) (sample2d f xs ys).
Proof.
  unfold sample2d. split; [apply map_length |].
  apply Forall_forall. intros row H. apply in_map_iff in H as (x & <- & _). apply map_length.
Qed.
