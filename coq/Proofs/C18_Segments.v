(* C18: generate_segmented_cylinder tiles [0, L) exactly once, for every radius > 0 and length > 0
   (including length < 2 radius). *)
Require Import Cherab.Common.Qx.
Require Import Cherab.Model.C18_Laser.
From Coq Require Import Qround Qabs Lqa.
Open Scope Q_scope.

(* contiguous chain of positive-height segments from [a] to [b] *)
Fixpoint chain (a : Q) (l : list (Q * Q)) (b : Q) : Prop :=
  match l with
  | [] => a == b
  | s :: t => fst s == a /\ 0 < snd s /\ chain (a + snd s) t b
  end.

Definition tiles (l : list (Q * Q)) (L : Q) : Prop := l <> [] /\ chain 0 l L.

Lemma chain_le a l b : chain a l b -> a <= b.
Proof.
  revert a; induction l as [|s t IH]; intros a H; cbn [chain] in H.
  - lra.
  - destruct H as (_ & Hh & Ht). apply IH in Ht. lra.
Qed.

Lemma covers_true z s : covers z s = true <-> fst s <= z /\ z < fst s + snd s.
Proof.
  unfold covers. rewrite andb_true_iff, negb_true_iff, Qle_bool_iff.
  split; intros [H1 H2]; split; auto.
  - apply Qnot_le_lt. intro H. apply Qle_bool_iff in H. congruence.
  - destruct (Qle_bool (fst s + snd s) z) eqn:E; auto. apply Qle_bool_iff in E. lra.
Qed.

Lemma covers_false z s : covers z s = false <-> z < fst s \/ fst s + snd s <= z.
Proof.
  split.
  - intro H. destruct (Qlt_le_dec z (fst s)) as [|H1]; auto.
    destruct (Qlt_le_dec z (fst s + snd s)) as [H2|]; auto.
    assert (covers z s = true) by (apply covers_true; split; auto). congruence.
  - intro H. destruct (covers z s) eqn:E; auto. apply covers_true in E. lra.
Qed.

Lemma chain_count_before a l b z : chain a l b -> z < a -> cover_count z l = 0%nat.
Proof.
  revert a; induction l as [|s t IH]; intros a H Hz; [reflexivity|].
  cbn [chain] in H. destruct H as (Hs & Hh & Ht).
  unfold cover_count in *. cbn [filter].
  assert (covers z s = false) as -> by (apply covers_false; left; lra).
  apply (IH (a + snd s)); auto. lra.
Qed.

Lemma chain_count_after a l b z : chain a l b -> b <= z -> cover_count z l = 0%nat.
Proof.
  revert a; induction l as [|s t IH]; intros a H Hz; [reflexivity|].
  cbn [chain] in H. destruct H as (Hs & Hh & Ht).
  unfold cover_count in *. cbn [filter].
  pose proof (chain_le _ _ _ Ht).
  assert (covers z s = false) as -> by (apply covers_false; right; lra).
  apply (IH (a + snd s)); auto.
Qed.

Lemma chain_count_inside a l b z : chain a l b -> a <= z -> z < b -> cover_count z l = 1%nat.
Proof.
  revert a; induction l as [|s t IH]; intros a H Hlo Hhi; cbn [chain] in H.
  - lra.
  - destruct H as (Hs & Hh & Ht). unfold cover_count in *. cbn [filter].
    destruct (Qlt_le_dec z (a + snd s)) as [Hin|Hout].
    + assert (covers z s = true) as -> by (apply covers_true; split; lra).
      cbn [length]. f_equal. apply (chain_count_before (a + snd s) t b); auto.
    + assert (covers z s = false) as -> by (apply covers_false; right; lra).
      apply (IH (a + snd s)); auto.
Qed.

Lemma chain_sum a l b : chain a l b -> Qsum (map snd l) == b - a.
Proof.
  revert a; induction l as [|s t IH]; intros a H; cbn [chain] in H; cbn [map Qsum].
  - lra.
  - destruct H as (_ & _ & Ht). rewrite (IH _ Ht). ring.
Qed.

(* the loop "for i in range(n): offset i * h, height h" *)
Lemma chain_seq h k m : 0 < h ->
  chain (inject_Z (Z.of_nat k) * h) (map (seg_at h) (seq k m)) (inject_Z (Z.of_nat (k + m)) * h).
Proof.
  intro Hh. revert k; induction m as [|m IH]; intro k; cbn [seq map chain].
  - rewrite Nat.add_0_r. reflexivity.
  - unfold seg_at at 1 2. cbn [fst snd]. split; [reflexivity|]. split; [assumption|].
    assert (E : inject_Z (Z.of_nat k) * h + h == inject_Z (Z.of_nat (S k)) * h).
    { rewrite Nat2Z.inj_succ. unfold Z.succ. rewrite inject_Z_plus. ring. }
    specialize (IH (S k)). replace (S k + m)%nat with (k + S m)%nat in IH by lia.
    clear - IH E.
    (* transport the start point along E *)
    revert IH. generalize (map (seg_at h) (seq (S k) m)) as l.
    generalize (inject_Z (Z.of_nat (k + S m)) * h) as b.
    intros b l. destruct l as [|s t]; cbn [chain].
    + intro H. rewrite E. exact H.
    + intros (H1 & H2 & H3). split; [rewrite E; exact H1|]. split; [exact H2|].
      clear - H3 E. revert H3.
      assert (G : forall l x y, x == y -> chain x l b -> chain y l b).
      { induction l as [|s' t' IHl]; intros x y Exy; cbn [chain].
        - intro H. rewrite <- Exy. exact H.
        - intros (A & B & C). split; [rewrite <- Exy; exact A|]. split; [exact B|].
          apply (IHl (x + snd s')); [rewrite Exy; reflexivity | exact C]. }
      apply G. rewrite E. reflexivity.
Qed.

Lemma n_segments_nonneg r L : 0 < r -> 0 < L -> (0 <= n_segments r L)%Z.
Proof.
  intros Hr HL. unfold n_segments.
  assert (H : 0 <= L / (2 * r)).
  { apply Qlt_le_weak. apply Qlt_shift_div_l; lra. }
  apply Qfloor_resp_le in H. exact H.
Qed.

Theorem segments_tile r L : 0 < r -> 0 < L -> exists l, segments r L = Some l /\ tiles l L.
Proof.
  intros Hr HL. pose proof (n_segments_nonneg r L Hr HL) as Hn. unfold segments.
  destruct (1 <? n_segments r L)%Z eqn:E1.
  - apply Z.ltb_lt in E1. set (n := n_segments r L) in *.
    assert (Hq : 0 < inject_Z n) by (change 0 with (inject_Z 0); rewrite <- Zlt_Qlt; lia).
    assert (Hh : 0 < L / inject_Z n) by (apply Qlt_shift_div_l; lra).
    eexists. split; [reflexivity|]. split.
    + destruct (Z.to_nat n) eqn:En; [lia|]. cbn [seq map]. discriminate.
    + pose proof (chain_seq (L / inject_Z n) 0 (Z.to_nat n) Hh) as H.
      cbn [Z.of_nat Nat.add] in H.
      assert (G : forall l x y b c, x == y -> b == c -> chain x l b -> chain y l c).
      { induction l as [|s' t' IHl]; intros x y b c Exy Ebc; cbn [chain].
        - intro H0. rewrite <- Exy, <- Ebc. exact H0.
        - intros (A & B & C). split; [rewrite <- Exy; exact A|]. split; [exact B|].
          apply (IHl (x + snd s') _ b c); [rewrite Exy; reflexivity | exact Ebc | exact C]. }
      eapply G; [| | exact H].
      * change (inject_Z 0) with 0. ring.
      * rewrite Z2Nat.id by lia. field. lra.
  - destruct (0 <=? n_segments r L)%Z eqn:E0; [|apply Z.leb_gt in E0; lia].
    exists [(0, L)]. split; [reflexivity|]. split; [discriminate|].
    cbn [chain fst snd]. split; [reflexivity|]. split; [assumption|]. ring.
Qed.

Theorem segments_cover_exactly_once r L z : 0 < r -> 0 < L ->
  exists l, segments r L = Some l /\
    Qsum (map snd l) == L /\
    (0 <= z -> z < L -> cover_count z l = 1%nat) /\
    (z < 0 \/ L <= z -> cover_count z l = 0%nat).
Proof.
  intros Hr HL. destruct (segments_tile r L Hr HL) as (l & E & _ & Hc).
  exists l. split; [exact E|]. split; [|split].
  - rewrite (chain_sum _ _ _ Hc). ring.
  - intros. apply (chain_count_inside 0 l L); auto.
  - intros [H|H]; [apply (chain_count_before 0 l L) | apply (chain_count_after 0 l L)]; auto.
Qed.

(* the number of segments: 1 when L < 4 r (in particular when L < 2 r), floor(L / 2r) otherwise *)
Lemma segments_count r L l : segments r L = Some l ->
  Z.of_nat (length l) = Z.max 1 (n_segments r L).
Proof.
  unfold segments. destruct (1 <? n_segments r L)%Z eqn:E1.
  - apply Z.ltb_lt in E1. intro H; inversion H; subst.
    rewrite map_length, seq_length, Z2Nat.id by lia. lia.
  - apply Z.ltb_ge in E1. destruct (0 <=? n_segments r L)%Z; [|discriminate].
    intro H; inversion H; subst. cbn [length]. lia.
Qed.
