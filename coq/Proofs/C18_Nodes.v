(* C18: several Laser nodes sharing one profile.  After any history of profile calls, further nodes being
   attached and nodes being given another profile, EVERY node that still listens holds the segments of the
   current laser_radius / laser_length (and these tile the laser length, Proofs/C18_EndToEnd.v). *)
Require Import Cherab.Common.Qx.
Require Import Cherab.Model.C18_Laser Cherab.Proofs.C18_Profile.
Open Scope Q_scope.

Section WithC.
Variable c : Q.

Ltac ifs := repeat match goal with |- context [if ?b then _ else _] => destruct b end.

(* a call that does not fire a notification leaves laser_radius and laser_length alone *)
Lemma pstep_keeps_rad_len s o :
  fires (kind s) o (snd (pstep c s o)) = false ->
  v_rad (vals (fst (pstep c s o))) = v_rad (vals s) /\ v_len (vals (fst (pstep c s o))) = v_len (vals s).
Proof.
  destruct s as [k vs p e a g]. destruct vs as [ed pe pl sx sy sz mz wz sw wl rad len].
  destruct o as [f v | q | | t]; cbn [kind].
  - unfold pstep, step, fires. cbn [kind vals].
    destruct k, f; cbn [has_field guarded action negb andb function_changed notify with_vals with_fun with_geom set mkvals get fld_eqb
                        kind vals att fst snd v_rad v_len v_wl v_sw v_pe v_pl v_wz v_sx v_sy v_mz v_sz v_ed];
      ifs; cbn [fst snd vals v_rad v_len with_fun with_vals with_geom]; intro H; try discriminate H; split; reflexivity.
  - unfold pstep. destruct (vec_is_zero q); cbn; intros _; split; reflexivity.
  - cbn. intros _. split; reflexivity.
  - unfold pstep, step. destruct t as [f|]; cbn [kind]; [destruct (has_field k f)|]; cbn; intros _; split; reflexivity.
Qed.

Definition nodes_ok (m : mstate) : Prop := Forall (fun g => g = cur_segments (base m)) (extras m).

Lemma Forall_remove_nth {A} (P : A -> Prop) i l : Forall P l -> Forall P (remove_nth i l).
Proof.
  revert i; induction l as [|x l IH]; intros i H; destruct i; cbn; auto; inversion H; subst; auto.
Qed.

Definition mclean (k : pkind) (o : mop) : bool := match o with MOp o' => clean k o' | _ => true end.

Lemma mstep_inv k m o : good c k (base m) -> nodes_ok m -> mclean k o = true ->
  good c k (base (fst (mstep c m o))) /\ nodes_ok (fst (mstep c m o)).
Proof.
  intros Hg Hn Hc. destruct o as [o' | | i]; unfold mstep.
  - cbn [mclean] in Hc. pose proof (pstep_good c k (base m) o' Hg Hc) as G.
    pose proof (pstep_keeps_rad_len (base m) o') as K.
    destruct (pstep c (base m) o') as [s' r]. cbn [fst snd] in *. split; [exact G|].
    unfold nodes_ok. cbn [base extras].
    destruct (fires (kind (base m)) o' r).
    + apply Forall_forall. intros g Hin. apply in_map_iff in Hin. destruct Hin as (x & <- & _). reflexivity.
    + destruct (K eq_refl) as [K1 K2]. unfold cur_segments. rewrite K1, K2. exact Hn.
  - cbn [fst base extras]. split; [exact Hg|]. unfold nodes_ok. cbn [base extras].
    apply Forall_app. split; [exact Hn | constructor; [reflexivity | constructor]].
  - cbn [fst base extras]. split; [exact Hg|]. unfold nodes_ok. cbn [base extras]. apply Forall_remove_nth. exact Hn.
Qed.

Lemma mrun_cons m o t : fst (mrun c m (o :: t)) = fst (mrun c (fst (mstep c m o)) t).
Proof. cbn [mrun]. destruct (mstep c m o) as [m1 r]. cbn [fst]. destruct (mrun c m1 t). reflexivity. Qed.

Lemma mrun_inv k m ops : good c k (base m) -> nodes_ok m -> forallb (mclean k) ops = true ->
  good c k (base (fst (mrun c m ops))) /\ nodes_ok (fst (mrun c m ops)).
Proof.
  revert m; induction ops as [|o t IH]; intros m Hg Hn Hc; [split; assumption|].
  cbn [forallb] in Hc. apply andb_true_iff in Hc as [H1 H2]. rewrite mrun_cons.
  destruct (mstep_inv k m o Hg Hn H1) as [G N]. apply IH; assumption.
Qed.

(* every listening node -- the first one and every further one -- holds the segments of the CURRENT radius and
   length, after any history of profile calls, node attachments and node replacements *)
Theorem shared_profile_nodes_agree k a s0 ops :
  construct c k a = Some s0 -> forallb (mclean k) ops = true ->
  let m := fst (mrun c (mkM s0 []) ops) in
  geom (base m) = cur_segments (base m) /\ Forall (fun g => g = cur_segments (base m)) (extras m) /\
  construct c k (args_of (base m)) = Some (base m).
Proof.
  intros H Hc m.
  destruct (mrun_inv k (mkM s0 []) ops (construct_good c k a s0 H) (Forall_nil _) Hc) as [G N]. fold m in G, N.
  split; [|split; [exact N | apply good_is_fresh; exact G]].
  destruct G as (v & p & _ & _ & E). rewrite E. unfold cur_segments. destruct k, v; reflexivity.
Qed.

End WithC.
