(* C06: the key -> (file, sub-key) encoding of the repository is injective. *)
From Coq Require Import ZArith List Bool String Ascii DecimalString DecimalZ Decimal Lia.
Require Import Cherab.Model.C06_Repo Cherab.Model.C06_Spec.
Import ListNotations.
Open Scope string_scope.
Open Scope Z_scope.

(* ---- strings ---- *)
Lemma sapp_length a b : String.length (a ++ b) = (String.length a + String.length b)%nat.
Proof. induction a as [|c a IH]; cbn; [reflexivity | now rewrite IH]. Qed.

Lemma sapp_cancel_r_len a a' t : String.length a = String.length a' -> a ++ t = a' ++ t -> a = a'.
Proof.
  revert a'; induction a as [|c a IH]; destruct a' as [|c' a']; cbn; intros L H; try discriminate; auto.
  injection H as -> H. f_equal. apply IH; [now injection L | exact H].
Qed.

Lemma sapp_cancel_r a a' t : a ++ t = a' ++ t -> a = a'.
Proof.
  intros H. apply (sapp_cancel_r_len a a' t); [| exact H].
  apply (f_equal String.length) in H. rewrite !sapp_length in H. lia.
Qed.

Lemma sapp_cancel_l a t t' : a ++ t = a ++ t' -> t = t'.
Proof. induction a as [|c a IH]; cbn; intros H; [exact H | injection H as H; auto]. Qed.

Lemma sapp_assoc a b c : (a ++ b) ++ c = a ++ (b ++ c).
Proof. induction a as [|x a IH]; cbn; [reflexivity | now rewrite IH]. Qed.

Lemma json_inj s s' : json s = json s' -> s = s'.
Proof. unfold json. apply sapp_cancel_r. Qed.

Lemma strZ_inj z z' : strZ z = strZ z' -> z = z'.
Proof.
  unfold strZ. intros H.
  assert (E : Some (Z.to_int z) = Some (Z.to_int z')).
  { rewrite <- (NilEmpty.isi (Z.to_int z)), <- (NilEmpty.isi (Z.to_int z')). now rewrite H. }
  injection E as E. rewrite <- (DecimalZ.of_to z), <- (DecimalZ.of_to z'). now rewrite E.
Qed.

Lemma nochar_app c a b : nochar c (a ++ b) = nochar c a && nochar c b.
Proof. induction a as [|x a IH]; cbn; [reflexivity | now rewrite IH, andb_assoc]. Qed.

(* splitting at the first occurrence of a character is unique *)
Lemma split_first c a a' r r' :
  nochar c a = true -> nochar c a' = true ->
  a ++ String c r = a' ++ String c r' -> a = a' /\ r = r'.
Proof.
  revert a'; induction a as [|x a IH]; destruct a' as [|x' a']; cbn; intros Ha Ha' H.
  - injection H as H. auto.
  - injection H as Hx H. subst x'. rewrite Ascii.eqb_refl in Ha'. discriminate.
  - injection H as Hx H. subst x. rewrite Ascii.eqb_refl in Ha. discriminate.
  - injection H as Hx H. subst x'.
    apply andb_true_iff in Ha as [_ Ha]. apply andb_true_iff in Ha' as [_ Ha'].
    destruct (IH a' Ha Ha' H) as [-> ->]. auto.
Qed.

Definition gt_char : ascii := ">"%char.

(* '{} -> {}'.format(a, b) determines a and b when neither contains '>' *)
Lemma join_trans_inj t t' :
  ntrans_ok t = true -> ntrans_ok t' = true -> join_trans t = join_trans t' -> t = t'.
Proof.
  destruct t as [a b], t' as [a' b']. unfold ntrans_ok, join_trans; cbn [fst snd].
  intros Ha Ha' E.
  change (a ++ " -> " ++ b) with (a ++ (" -" ++ String gt_char (" " ++ b))) in E.
  change (a' ++ " -> " ++ b') with (a' ++ (" -" ++ String gt_char (" " ++ b'))) in E.
  rewrite <- !sapp_assoc in E.
  apply split_first in E.
  - destruct E as [E1 E2]. apply sapp_cancel_r in E1. cbn in E2. injection E2 as E2. now subst.
  - unfold level_ok in Ha. fold gt_char in Ha. rewrite nochar_app, Ha. reflexivity.
  - unfold level_ok in Ha'. fold gt_char in Ha'. rewrite nochar_app, Ha'. reflexivity.
Qed.

(* ---- decidable equalities used by the model ---- *)
Lemma path_eqb_spec a b : reflect (a = b) (path_eqb a b).
Proof.
  revert b; induction a as [|x a IH]; destruct b as [|y b]; cbn; try (constructor; congruence).
  destruct (String.eqb_spec x y) as [->|N]; cbn.
  - destruct (IH b) as [->|N]; constructor; congruence.
  - constructor; congruence.
Qed.

Lemma path_eqb_refl a : path_eqb a a = true.
Proof. destruct (path_eqb_spec a a); congruence. Qed.

Lemma subkey_eqb_spec a b : reflect (a = b) (subkey_eqb a b).
Proof.
  destruct a as [|s|s m], b as [|s'|s' m']; cbn; try (constructor; congruence).
  - destruct (String.eqb_spec s s'); constructor; congruence.
  - destruct (String.eqb_spec s s'); cbn; [| constructor; congruence].
    destruct (Z.eqb_spec m m'); constructor; congruence.
Qed.

Lemma subkey_eqb_refl a : subkey_eqb a a = true.
Proof. destruct (subkey_eqb_spec a a); congruence. Qed.

(* ---- well-formed keys: transition levels do not contain '>' (Spec.key_ok) ---- *)

(* distinct keys never share (file, sub-key): neither inside a family nor across families *)
Theorem loc_injective k k' : key_ok k = true -> key_ok k' = true -> loc k = loc k' -> k = k'.
Proof.
  destruct k as [f s q|d dq r rq|c s q t|d dq r rq t|s q t|d r rq t m|b t q|b m t q|b t q tr];
  destruct k' as [f' s' q'|d' dq' r' rq'|c' s' q' t'|d' dq' r' rq' t'|s' q' t'|d' r' rq' t' m'|b' t' q'|b' m' t' q'|b' t' q' tr'];
  cbn [key_ok loc]; intros W W' H;
  try (destruct f); try (destruct f'); try (destruct c); try (destruct c');
  cbv [path_adf11 adf11_dir path_tcx path_pec pec_dir path_pectcx path_wvl path_bcx path_bstop path_bpop path_bem
       path_tcx_s path_pec_s path_pec_d path_pectcx_s path_wvl_s path_bcx_s path_bstop_s path_bpop_s path_bem_s app] in H;
  try discriminate H;
  injection H; intros;
  repeat match goal with
         | E : json _ = json _ |- _ => apply json_inj in E
         | E : strZ _ = strZ _ |- _ => apply strZ_inj in E
         | E : join_trans _ = join_trans _ |- _ => apply join_trans_inj in E; [| assumption | assumption]
         end; subst; reflexivity.
Qed.
