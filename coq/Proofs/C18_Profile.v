(* C18: after any sequence of setter calls a laser profile (installed energy-density function,
   polarisation, the segments held by the Laser node, every reported parameter) is exactly the
   object that the constructor builds from the reported parameters. *)
Require Import Cherab.Common.Qx.
Require Import Cherab.Model.C18_Laser.
From Coq Require Import Qround Qabs Lqa.
Open Scope Q_scope.

Section WithC.
Variable c : Q.

(* the parameters whose setter (or the constructor of the installed function) insists on > 0 *)
Definition positive_fields (k : pkind) : list fld :=
  match k with
  | KUniform => [Fed; Frad; Flen]
  | KBiv => [Fpe; Fpl; Fsx; Fsy; Frad; Flen]
  | KTri => [Fpe; Fpl; Fsx; Fsy; Frad; Flen]
  | KBeam => [Fpe; Fpl; Fsw; Fwl; Frad; Flen]
  end.

(* the two GaussianBeamAxisymmetric setters without a guard keep a rejected value (see
   beam_rejected_setter_leaves_stale_parameter below); the history theorem excludes such calls *)
Definition clean (k : pkind) (o : pop) : bool :=
  match k, o with
  | KBeam, PSet Fsw x | KBeam, PSet Fwl x => negb (Qle_bool x 0)
  | _, _ => true
  end.

Definition valid (k : pkind) (v : pvals) : bool :=
  forallb (fun f => negb (Qle_bool (get f v) 0)) (positive_fields k).

(* the attributes of a freshly constructed object (attributes the class does not have keep the 0
   of a fresh cdef object; _stddev_z is derived) *)
Definition canon_vals (k : pkind) (v : pvals) : pvals :=
  match k with
  | KUniform => mkV (v_ed v) 0 0 0 0 0 0 0 0 0 (v_rad v) (v_len v)
  | KBiv => mkV 0 (v_pe v) (v_pl v) (v_sx v) (v_sy v) 0 0 0 0 0 (v_rad v) (v_len v)
  | KTri => mkV 0 (v_pe v) (v_pl v) (v_sx v) (v_sy v) (v_pl v * c) (v_mz v) 0 0 0 (v_rad v) (v_len v)
  | KBeam => mkV 0 (v_pe v) (v_pl v) 0 0 0 0 (v_wz v) (v_sw v) (v_wl v) (v_rad v) (v_len v)
  end.

(* the function a fresh object has installed *)
Definition fresh_fun (k : pkind) (v : pvals) : edfun :=
  match k with
  | KUniform => FConst (v_ed v)
  | KBiv => FBiv (v_pe v / (c * v_pl v)) (v_sx v) (v_sy v)
  | KTri => FTri (v_pe v) (v_mz v) (v_sx v) (v_sy v) (v_pl v * c)
  | KBeam => FBeam (v_pe v / (c * v_pl v)) (v_wl v) (v_wz v) (v_sw v)
  end.

Definition canon (k : pkind) (v : pvals) (p : vec) : pstate :=
  mkP k (canon_vals k v) p (fresh_fun k v) true (segments (v_rad v) (v_len v)).

Ltac unfold_model :=
  cbv [construct0 run_script init_script zero_vals action step function_changed notify attach has_field guarded
       with_vals with_pol with_fun with_geom set mkvals get fld_eqb kind vals pol efun att geom
       a_vals a_pol v_ed v_pe v_pl v_sx v_sy v_sz v_mz v_wz v_sw v_wl v_rad v_len
       negb andb canon canon_vals fresh_fun args_of valid positive_fields forallb
       Qle_bool Qnum Qden Z.leb Z.compare Z.mul fst snd clean].
Ltac unfold_model_in H :=
  cbv [construct0 run_script init_script zero_vals action step function_changed notify attach has_field guarded
       with_vals with_pol with_fun with_geom set mkvals get fld_eqb kind vals pol efun att geom
       a_vals a_pol v_ed v_pe v_pl v_sx v_sy v_sz v_mz v_wz v_sw v_wl v_rad v_len
       negb andb canon canon_vals fresh_fun args_of valid positive_fields forallb
       Qle_bool Qnum Qden Z.leb Z.compare Z.mul fst snd clean] in H.

Lemma valid_tests k v : valid k v = true ->
  forall f, In f (positive_fields k) -> Qle_bool (get f v) 0 = false.
Proof.
  unfold valid. rewrite forallb_forall. intros H f Hf. specialize (H f Hf).
  destruct (Qle_bool (get f v) 0); [discriminate | reflexivity].
Qed.

(* a value that passes the test "value <= 0: raise" has a positive numerator; with the value in
   this form every test of the model computes *)
Lemma pos_form q : Qle_bool q 0 = false -> exists p d, q = Zpos p # d.
Proof.
  destruct q as [[|p|p] d]; intro H; [discriminate H | eauto | discriminate H].
Qed.

Ltac pos_all T :=
  repeat match goal with
  | H : Qle_bool ?x 0 = false |- _ =>
      let p := fresh "p" in let d := fresh "d" in destruct (pos_form x H) as (p & d & ->); clear H
  end.

Lemma construct0_valid k v p : valid k v = true -> construct0 c k (mkA v p) = Some (canon k v p).
Proof.
  intro Hv. pose proof (valid_tests k v Hv) as T.
  destruct v as [ed pe pl sx sy sz mz wz sw wl rad len].
  destruct k; cbn [positive_fields] in T.
  - assert (T1 := T Fed); assert (T5 := T Frad); assert (T6 := T Flen).
    cbn [In get v_ed v_rad v_len] in *.
    specialize (T1 ltac:(tauto)); specialize (T5 ltac:(tauto)); specialize (T6 ltac:(tauto)). clear T Hv.
    pos_all T1. unfold_model. reflexivity.
  - assert (T1 := T Fpe); assert (T2 := T Fpl); assert (T3 := T Fsx); assert (T4 := T Fsy);
    assert (T5 := T Frad); assert (T6 := T Flen).
    cbn [In get v_pe v_pl v_sx v_sy v_rad v_len] in *.
    specialize (T1 ltac:(tauto)); specialize (T2 ltac:(tauto)); specialize (T3 ltac:(tauto));
    specialize (T4 ltac:(tauto)); specialize (T5 ltac:(tauto)); specialize (T6 ltac:(tauto)). clear T Hv.
    pos_all T1. unfold_model. reflexivity.
  - assert (T1 := T Fpe); assert (T2 := T Fpl); assert (T3 := T Fsx); assert (T4 := T Fsy);
    assert (T5 := T Frad); assert (T6 := T Flen).
    cbn [In get v_pe v_pl v_sx v_sy v_rad v_len] in *.
    specialize (T1 ltac:(tauto)); specialize (T2 ltac:(tauto)); specialize (T3 ltac:(tauto));
    specialize (T4 ltac:(tauto)); specialize (T5 ltac:(tauto)); specialize (T6 ltac:(tauto)). clear T Hv.
    pos_all T1. unfold_model. reflexivity.
  - assert (T1 := T Fpe); assert (T2 := T Fpl); assert (T3 := T Fsw); assert (T4 := T Fwl);
    assert (T5 := T Frad); assert (T6 := T Flen).
    cbn [In get v_pe v_pl v_sw v_wl v_rad v_len] in *.
    specialize (T1 ltac:(tauto)); specialize (T2 ltac:(tauto)); specialize (T3 ltac:(tauto));
    specialize (T4 ltac:(tauto)); specialize (T5 ltac:(tauto)); specialize (T6 ltac:(tauto)). clear T Hv.
    pos_all T1. unfold_model. reflexivity.
Qed.

Ltac kill H := exfalso; unfold_model_in H; discriminate H.
Ltac three q H :=
  let n := fresh "n" in let d := fresh "d" in destruct q as [n d]; destruct n; [kill H | | kill H].

Lemma construct0_some_valid k v p s : construct0 c k (mkA v p) = Some s -> valid k v = true.
Proof.
  intro H. destruct v as [ed pe pl sx sy sz mz wz sw wl rad len]. destruct k.
  - three ed H. three rad H. three len H. reflexivity.
  - three rad H. three len H. three sx H. three sy H. three pe H. three pl H. reflexivity.
  - three rad H. three len H. three sx H. three sy H. three pe H. three pl H. reflexivity.
  - three len H. three rad H. three sw H. three pe H. three pl H. three wl H. reflexivity.
Qed.

Lemma canon_idem k v p : canon k (canon_vals k v) p = canon k v p.
Proof. destruct k, v; reflexivity. Qed.

Lemma valid_canon k v : valid k (canon_vals k v) = valid k v.
Proof. destruct k, v; reflexivity. Qed.

Lemma construct_valid k v p : valid k v = true -> vec_is_zero p = false -> construct c k (mkA v p) = Some (canon k v p).
Proof. intros Hv Hp. unfold construct. cbn [a_pol]. rewrite Hp. apply construct0_valid. exact Hv. Qed.

Lemma construct_some_valid k v p s : construct c k (mkA v p) = Some s -> valid k v = true /\ vec_is_zero p = false.
Proof.
  unfold construct. cbn [a_pol]. destruct (vec_is_zero p); [discriminate|]. intro H.
  split; [eapply construct0_some_valid; eassumption | reflexivity].
Qed.

(* a state is good when it is the fresh object of some valid parameters *)
Definition good (k : pkind) (s : pstate) : Prop :=
  exists v p, valid k v = true /\ vec_is_zero p = false /\ s = canon k v p.

Lemma construct_good k a s : construct c k a = Some s -> good k s.
Proof.
  destruct a as [v p]. intro H. destruct (construct_some_valid _ _ _ _ H) as [Hv Hp].
  rewrite (construct_valid _ _ p Hv Hp) in H. inversion H. exists v, p. auto.
Qed.

Lemma good_is_fresh k s : good k s -> construct c k (args_of s) = Some s.
Proof.
  intros (v & p & Hv & Hp & ->). unfold args_of. cbn [vals pol canon].
  rewrite construct_valid by (try rewrite valid_canon; assumption). now rewrite canon_idem.
Qed.

Ltac finish_step Hp := split; [unfold_model; reflexivity | split; [unfold_model; exact Hp | unfold_model; reflexivity]].

Lemma step_good k s o : good k s -> clean k o = true ->
  match o with PSetPol q => vec_is_zero q = false | _ => True end -> good k (fst (step c s o)).
Proof.
  intros (v & p & Hv & Hp & ->) Hc Hq.
  exists (vals (fst (step c (canon k v p) o))), (pol (fst (step c (canon k v p) o))).
  destruct o as [f x | q | | t].
  4:{ destruct t as [f|]; [|split; [cbn [step fst vals canon]; rewrite valid_canon; exact Hv | split; [exact Hp | destruct k, v; reflexivity]]].
      unfold step. cbn [kind canon]. destruct (has_field k f); cbn [fst vals pol canon]; (split; [rewrite valid_canon; exact Hv | split; [exact Hp | destruct k, v; reflexivity]]). }
  2:{ split; [cbn [step fst with_pol vals canon]; rewrite valid_canon; exact Hv|]. split; [exact Hq|]. destruct k, v; reflexivity. }
  2:{ split; [cbn [step fst attach with_geom vals canon]; rewrite valid_canon; exact Hv|]. split; [exact Hp|]. destruct k, v; reflexivity. }
  pose proof (valid_tests k v Hv) as T.
  destruct v as [ed pe pl sx sy sz mz wz sw wl rad len].
  destruct k; cbn [positive_fields] in T.
  - assert (T1 := T Fed); assert (T5 := T Frad); assert (T6 := T Flen).
    cbn [In get v_ed v_rad v_len] in *.
    specialize (T1 ltac:(tauto)); specialize (T5 ltac:(tauto)); specialize (T6 ltac:(tauto)). clear T Hv.
    pos_all T1. destruct f; destruct x as [[|px|px] dx]; finish_step Hp.
  - assert (T1 := T Fpe); assert (T2 := T Fpl); assert (T3 := T Fsx); assert (T4 := T Fsy);
    assert (T5 := T Frad); assert (T6 := T Flen).
    cbn [In get v_pe v_pl v_sx v_sy v_rad v_len] in *.
    specialize (T1 ltac:(tauto)); specialize (T2 ltac:(tauto)); specialize (T3 ltac:(tauto));
    specialize (T4 ltac:(tauto)); specialize (T5 ltac:(tauto)); specialize (T6 ltac:(tauto)). clear T Hv.
    pos_all T1. destruct f; destruct x as [[|px|px] dx]; finish_step Hp.
  - assert (T1 := T Fpe); assert (T2 := T Fpl); assert (T3 := T Fsx); assert (T4 := T Fsy);
    assert (T5 := T Frad); assert (T6 := T Flen).
    cbn [In get v_pe v_pl v_sx v_sy v_rad v_len] in *.
    specialize (T1 ltac:(tauto)); specialize (T2 ltac:(tauto)); specialize (T3 ltac:(tauto));
    specialize (T4 ltac:(tauto)); specialize (T5 ltac:(tauto)); specialize (T6 ltac:(tauto)). clear T Hv.
    pos_all T1. destruct f; destruct x as [[|px|px] dx]; finish_step Hp.
  - assert (T1 := T Fpe); assert (T2 := T Fpl); assert (T3 := T Fsw); assert (T4 := T Fwl);
    assert (T5 := T Frad); assert (T6 := T Flen).
    cbn [In get v_pe v_pl v_sw v_wl v_rad v_len] in *.
    specialize (T1 ltac:(tauto)); specialize (T2 ltac:(tauto)); specialize (T3 ltac:(tauto));
    specialize (T4 ltac:(tauto)); specialize (T5 ltac:(tauto)); specialize (T6 ltac:(tauto)). clear T Hv.
    pos_all T1. destruct f; destruct x as [[|px|px] dx];
      try (exfalso; unfold_model_in Hc; discriminate Hc); finish_step Hp.
Qed.

Lemma pstep_good k s o : good k s -> clean k o = true -> good k (fst (pstep c s o)).
Proof.
  intros Hg Hc. destruct o as [f x | q | | t]; unfold pstep.
  - apply step_good; auto.
  - destruct (vec_is_zero q) eqn:E; [exact Hg | apply step_good; auto].
  - apply step_good; auto.
  - apply step_good; auto.
Qed.

Lemma run_cons s o t : fst (run c s (o :: t)) = fst (run c (fst (pstep c s o)) t).
Proof. cbn [run]. destruct (pstep c s o) as [s1 r]. cbn [fst]. destruct (run c s1 t). reflexivity. Qed.

Lemma run_good k s ops : good k s -> forallb (clean k) ops = true -> good k (fst (run c s ops)).
Proof.
  revert s; induction ops as [|o t IH]; intros s Hg Hc.
  - exact Hg.
  - cbn [forallb] in Hc. apply andb_true_iff in Hc as [H1 H2].
    rewrite run_cons. apply IH; [apply pstep_good; assumption | assumption].
Qed.

(* after ANY sequence of setter calls (accepted or rejected, any values, any length) the object is
   the one the constructor builds from its reported parameters *)
Theorem profile_history_independent k a s0 ops :
  construct c k a = Some s0 -> forallb (clean k) ops = true ->
  let s := fst (run c s0 ops) in construct c k (args_of s) = Some s.
Proof.
  intros H Hc s. apply good_is_fresh. apply run_good; [eapply construct_good; eassumption | exact Hc].
Qed.

(* a freshly constructed object reports its constructor arguments *)
Theorem constructor_reports_arguments k a s :
  construct c k a = Some s ->
  kind s = k /\ pol s = a_pol a /\
  (forall f, has_field k f = true -> get f (vals s) = get f (a_vals a)) /\
  efun s = fresh_fun k (a_vals a) /\ geom s = segments (v_rad (a_vals a)) (v_len (a_vals a)).
Proof.
  destruct a as [v p]. intro H. destruct (construct_some_valid _ _ _ _ H) as [Hv Hp].
  rewrite (construct_valid _ _ p Hv Hp) in H. inversion H. subst s. cbn [a_pol a_vals kind pol efun geom canon].
  repeat split. intros f Hf. destruct k, f, v; try discriminate Hf; reflexivity.
Qed.

(* UniformEnergyDensity: the installed function is the constant energy_density, after any history *)
Theorem uniform_tracks_parameter a s0 ops :
  construct c KUniform a = Some s0 ->
  let s := fst (run c s0 ops) in efun s = FConst (v_ed (vals s)).
Proof.
  intros H s. assert (G : good KUniform s).
  { apply run_good; [eapply construct_good; eassumption|]. clear. induction ops as [|o t IH]; [reflexivity|].
    cbn [forallb]. rewrite IH. destruct o; reflexivity. }
  destruct G as (v & p & _ & _ & ->). destruct v; reflexivity.
Qed.

(* record of an observation on the unchanged implementation: a value <= 0 handed to
   GaussianBeamAxisymmetric.stddev_waist (or laser_wavelength) is reported by the property afterwards
   although the call raised ValueError and the energy density is still the old one *)
Lemma beam_rejected_setter_leaves_stale_parameter :
  exists a s0 x, construct c KBeam a = Some s0 /\
    let (s, r) := step c s0 (PSet Fsw x) in
    r = RValue /\ get Fsw (vals s) = x /\ efun s = efun s0 /\ construct c KBeam (args_of s) = None.
Proof.
  exists (mkA (mkV 0 1 1 0 0 0 0 0 (1 # 100) 1000 (1 # 20) 1) (0, 1, 0)).
  exists (canon KBeam (mkV 0 1 1 0 0 0 0 0 (1 # 100) 1000 (1 # 20) 1) (0, 1, 0)). exists (-1 # 1).
  split; [apply construct_valid; reflexivity|].
  unfold_model. repeat split.
Qed.

End WithC.
