(* C02, second deepening: the two analytic numbers the whole-radiance theorems left as hypotheses, as theorems over R
   (Coquelicot's Riemann integral, bounds certified by the Interval tactics), and the bridge back to the Q model. *)
Require Import Cherab.Common.Qx.
Require Import Cherab.Model.C02_LineShape.
Require Import Cherab.Proofs.C02_Gauss Cherab.Proofs.C02_Norm Cherab.Proofs.C02_Sums.
From Coq Require Import Reals Lra Qreals.
From Coq Require Lqa.
From Coquelicot Require Import Coquelicot.
From Interval Require Import Tactic.

Local Open Scope R_scope.

(* the error function over R: erfR x = 2/sqrt(pi) int_0^x exp(-t^2) dt *)
Definition gaussf (t : R) : R := exp (- (t * t)).
Definition erfR (x : R) : R := 2 / sqrt PI * RInt gaussf 0 x.

Lemma gaussf_cont z : continuous gaussf z.
Proof. apply (ex_derive_continuous gaussf). unfold gaussf. auto_derive. exact I. Qed.

Lemma gaussf_ex a b : ex_RInt gaussf a b.
Proof. apply (ex_RInt_continuous gaussf). intros z _. apply gaussf_cont. Qed.

(* certified by interval arithmetic: the profile cut at 7 (< 10/sqrt 2) already integrates to 1 within 1e-15 *)
Lemma erfR_7 : 1 - 1 / 1000000000000000 <= erfR 7 <= 1 + 1 / 1000000000000000.
Proof. unfold erfR, gaussf. split; integral with (i_fuel 4000, i_degree 14, i_prec 70). Qed.

Lemma erfR_mono x y : x <= y -> erfR x <= erfR y.
Proof.
  intros H. unfold erfR.
  assert (C : RInt gaussf 0 y = RInt gaussf 0 x + RInt gaussf x y).
  { symmetry. apply (RInt_Chasles gaussf 0 x y); apply gaussf_ex. }
  rewrite C.
  assert (P : 0 <= RInt gaussf x y).
  { apply RInt_ge_0; [exact H | apply gaussf_ex |]. intros t _. unfold gaussf. left. apply exp_pos. }
  assert (S : 0 < 2 / sqrt PI).
  { apply Rdiv_lt_0_compat; [lra|]. apply sqrt_lt_R0. apply PI_RGT_0. }
  rewrite Rmult_plus_distr_l.
  assert (0 <= 2 / sqrt PI * RInt gaussf x y) by (apply Rmult_le_pos; lra). lra.
Qed.

(* THE GAUSSIAN TRUNCATION CONSTANT: beyond 7 (hence at 10/sqrt 2 = 7.07...) erf is within 1e-15 of 1 *)
Theorem erfR_truncation x : 7 <= x -> 1 - 1 / 1000000000000000 <= erfR x.
Proof. intros H. apply Rle_trans with (erfR 7); [apply erfR_7 | now apply erfR_mono]. Qed.

(* THE STARK NORMALISATION CONSTANT: 2 int_0^100 dt / (1 + t^(5/2)), the number the code obtains from
   4 * 50 * 2F1(2/5, 1; 7/5; -100^(5/2)) (STARK_NORM_COEFFICIENT), certified to 1e-9 *)
Definition starkf (t : R) : R := 1 / (1 + t * t * sqrt t).
Lemma stark_norm_value : 2641279470 / 1000000000 <= 2 * RInt starkf 0 100 <= 2641279472 / 1000000000.
Proof. unfold starkf. split; integral with (i_fuel 20000, i_degree 12, i_prec 60). Qed.

(* any constant C within that bracket normalises the profile t -> 1/(C (1 + |t|^(5/2))) on [-100, 100] (= +-50 FWHM in the
   variable t = (x - x0) / (FWHM / 2)) to 1 within 1e-9; the harness re-checks on every run (Gen/C02/Tie.v) that the
   implementation's STARK_NORM_COEFFICIENT lies in the bracket *)
Theorem stark_normalised C : 2641279470 / 1000000000 <= C <= 2641279472 / 1000000000 ->
  Rabs (2 * RInt starkf 0 100 / C - 1) <= 1 / 1000000000.
Proof.
  intros HC. pose proof stark_norm_value as HV. set (V := 2 * RInt starkf 0 100) in *.
  assert (0 < C) by lra.
  apply Rabs_le. split.
  - apply Rle_trans with (V / C - 1); [|lra].
    assert (1 - 1 / 1000000000 <= V / C); [|lra].
    apply Rle_div_r; [assumption|]. nra.
  - assert (V / C <= 1 + 1 / 1000000000); [|lra].
    apply Rle_div_l; [assumption|]. nra.
Qed.

Local Close Scope R_scope.
Local Open Scope Q_scope.

(* BRIDGE: in the Q model, for every E whose value at 10/sqrt2 is not more than delta below the real erf there,
   a spanning window receives the whole radiance within 1e-15 + delta -- no analytic hypothesis left *)
Theorem gauss_whole_radiance_R (E : Q -> Q) (sqrt2 Rad lam sig : Q) (g : grid) (delta : Q) :
  grid_ok g -> monotone E -> (forall x, E (- x) == - E x) -> (forall x, -1 <= E x <= 1) ->
  0 < sqrt2 -> sqrt2 <= 10 # 7 -> 0 <= Rad -> 0 < sig ->
  (erfR (Q2R (cutoff_sigma / sqrt2)%Q) - Q2R delta <= Q2R (E (cutoff_sigma / sqrt2)%Q))%R ->
  gmin g <= g_cl lam sig -> g_cu lam sig <= gmax g ->
  Rad * (1 - ((1 # 1000000000000000) + delta)) <= integral (gbin E sqrt2 Rad lam sig g) g <= Rad.
Proof.
  intros Hg Hm Ho Hb H2 H2u HR Hs HE Hl Hu.
  apply (gauss_whole_radiance E sqrt2 Rad lam sig g ((1 # 1000000000000000) + delta)); try assumption.
  apply Rle_Qle.
  assert (H7 : 7 <= cutoff_sigma / sqrt2).
  { apply Qle_shift_div_l; [assumption|]. unfold cutoff_sigma. Lqa.lra. }
  apply Qle_Rle in H7.
  assert (E7 : (Q2R 7 = 7)%R) by (unfold Q2R; simpl; lra).
  rewrite E7 in H7. pose proof (erfR_truncation _ H7) as HT.
  rewrite Q2R_minus, Q2R_plus.
  assert (E1 : (Q2R 1 = 1)%R) by (unfold Q2R; simpl; lra).
  assert (Ee : (Q2R (1 # 1000000000000000) = 1 / 1000000000000000)%R) by (unfold Q2R; simpl; lra).
  rewrite E1, Ee. lra.
Qed.
