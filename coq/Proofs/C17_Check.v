(* The fast evaluators used by the correspondence compute the model's values. *)
Require Import Cherab.Common.Qx.
Require Import Cherab.Model.C17_Voxels Cherab.Model.C17_Check.
Require Import Cherab.Proofs.C17_Polygon Cherab.Proofs.C17_Voxel.
From Coq Require Import Qabs Lqa.
Open Scope Q_scope.

Lemma open_sum_r_ok g l : open_sum_r g l == open_sum g l.
Proof.
  induction l as [|a l IH]; [reflexivity|]. destruct l as [|b l]; [reflexivity|].
  change (open_sum_r g (a :: b :: l)) with (Qred (g a b + open_sum_r g (b :: l))).
  rewrite Qred_correct, IH. reflexivity.
Qed.

Lemma cyc_sum_r_ok g l : cyc_sum_r g l == cyc_sum g l.
Proof. destruct l as [|a l]; [reflexivity|]. unfold cyc_sum_r, cyc_sum. rewrite Qred_correct, open_sum_r_ok. reflexivity. Qed.

Lemma area_r_ok l : area_r l == area l.
Proof. unfold area_r, area, shoelace2. rewrite Qred_correct, cyc_sum_r_ok. reflexivity. Qed.

Lemma Qeq_bool_ext a b : a == b -> Qeq_bool a 0 = Qeq_bool b 0.
Proof.
  intros H. destruct (Qeq_bool a 0) eqn:Ea; destruct (Qeq_bool b 0) eqn:Eb; try reflexivity.
  - apply Qeq_bool_iff in Ea. apply Qeq_bool_neq in Eb. exfalso. apply Eb. rewrite <- H. exact Ea.
  - apply Qeq_bool_iff in Eb. apply Qeq_bool_neq in Ea. exfalso. apply Ea. rewrite H. exact Eb.
Qed.

Lemma centroid_r_ok l : oeq (centroid_r l) (centroid l).
Proof.
  unfold centroid_r, centroid, shoelace2.
  assert (E : Qred (cyc_sum_r cross l / 2) == cyc_sum cross l / 2) by (rewrite Qred_correct, cyc_sum_r_ok; reflexivity).
  rewrite (Qeq_bool_ext _ _ E). destruct (Qeq_bool (cyc_sum cross l / 2) 0) eqn:E0; [exact I|].
  apply oeq_some; rewrite Qred_correct, cyc_sum_r_ok, E; reflexivity.
Qed.

Lemma volume_r_ok pi l : volume_r pi l == volume pi l.
Proof.
  unfold volume_r, volume, volume_over_2pi. pose proof (centroid_r_ok l) as H.
  destruct (centroid_r l) as [c'|], (centroid l) as [c|]; cbn [oeq] in H; try contradiction; [|ring].
  destruct H as [Hx _]. rewrite Qred_correct, Hx, area_r_ok. ring.
Qed.

Lemma fold_total_r pi vs : forall a b, a == b ->
  fold_left (fun acc v => Qred (acc + volume_r pi (normalise v))) vs a ==
  fold_left (fun acc v => acc + volume pi (normalise v)) vs b.
Proof.
  induction vs as [|v vs IH]; intros a b Hab; cbn [fold_left]; [exact Hab|].
  apply IH. rewrite Qred_correct, volume_r_ok, Hab. reflexivity.
Qed.

Lemma total_volume_r_ok pi vs : total_volume_r pi vs == total_volume pi vs.
Proof. apply fold_total_r. reflexivity. Qed.
