(* C04: the lemmas of Proofs/C04_*.v assembled into the statements of Properties/C04.v. *)
Require Import Cherab.Common.Qx.
From Coq Require Import Lqa.
Require Import Cherab.Model.C04_Beam.
Require Import Cherab.Proofs.C04_Stopping Cherab.Proofs.C04_Trapz Cherab.Proofs.C04_Density Cherab.Proofs.C04_Direction.
Open Scope Q_scope.

Lemma stopping_at_nonneg sqrtf c : plasma_nonneg c -> forall z, 0 <= stopping_at sqrtf c z.
Proof.
  intros H z. unfold stopping_at. apply beam_stopping_nonneg. intros s Hs.
  destruct (H s Hs) as (A & B & C). repeat split; [exact A | apply B | exact C].
Qed.

Lemma stopping_at_zero sqrtf c : no_stopping c -> forall z, stopping_at sqrtf c z == 0.
Proof. intros H z. unfold stopping_at. apply beam_stopping_zero. exact H. Qed.

Lemma nbeam_ge_2 c : (2 <= nbeam c)%Z.
Proof. unfold nbeam. lia. Qed.

Lemma main_stopping cf sp bv r :
  beam_stopping cf sp bv r ==
    Qsum (map (fun s => sp_charge s * sp_dens s r *
                        sp_coef s (interaction_energy cf bv s r) (density_sum sp r / sp_charge s) (sp_temp s r)) sp)
  /\ density_sum sp r == Qsum (map (fun s => sp_charge s * sp_charge s * sp_dens s r) sp)
  /\ forall s, interaction_energy cf bv s r == norm2 (vsub bv (sp_vel s r)) / cf.
Proof.
  split; [apply beam_stopping_spec | split; [apply density_sum_spec | intros; apply interaction_energy_spec]].
Qed.

Lemma main_no_stopping sqrtf expf c n :
  sqrt_like sqrtf -> exp_like expf -> cfg_valid c -> (2 <= n)%Z -> no_stopping c ->
  forall z, lin_interp (line_nodes_n sqrtf expf c n) z == particle_rate c / speed sqrtf c.
Proof.
  intros (S1 & S2) (E1 & E2 & E3 & E4) (V1 & V2 & V3 & V4 & V5 & V6 & V7 & V8) Hn Hs z.
  apply (no_stopping_flat sqrtf expf S1 E3 c V2 V5 V8 n Hn E4 (stopping_at_zero sqrtf c Hs)).
Qed.

Lemma main_line_nonincreasing sqrtf expf c n :
  sqrt_like sqrtf -> exp_like expf -> cfg_valid c -> (2 <= n)%Z -> plasma_nonneg c ->
  forall z z', z <= z' ->
  lin_interp (line_nodes_n sqrtf expf c n) z' <= lin_interp (line_nodes_n sqrtf expf c n) z.
Proof.
  intros (S1 & S2) (E1 & E2 & E3 & E4) (V1 & V2 & V3 & V4 & V5 & V6 & V7 & V8) Hn Hp.
  apply (line_density_nonincreasing sqrtf expf S1 E1 E2 c V2 V4 V5 V6 V7 V8 n Hn (stopping_at_nonneg sqrtf c Hp)).
Qed.

Lemma main_on_axis sqrtf expf c n :
  sqrt_like sqrtf -> exp_like expf -> cfg_valid c -> (2 <= n)%Z -> plasma_nonneg c ->
  forall z z', 0 <= z -> z <= z' ->
  beam_density_with sqrtf expf (line_nodes_n sqrtf expf c n) c 0 0 z' <=
  beam_density_with sqrtf expf (line_nodes_n sqrtf expf c n) c 0 0 z.
Proof.
  intros (S1 & S2) (E1 & E2 & E3 & E4) (V1 & V2 & V3 & V4 & V5 & V6 & V7 & V8) Hn Hp.
  apply (on_axis_nonincreasing sqrtf expf S1 S2 E1 E2 E3 c V1 V2 V3 V4 V5 V6 V7 V8 n Hn (stopping_at_nonneg sqrtf c Hp)).
Qed.

Lemma main_zero_outside sqrtf expf c nd x y z :
  (z < 0 -> beam_density_with sqrtf expf nd c x y z = 0) /\
  (b_len c < z -> beam_density_with sqrtf expf nd c x y z = 0) /\
  (a_clamp c = true ->
   a_clamp_sigma c * a_clamp_sigma c <
     (x / sigma_x sqrtf c z) * (x / sigma_x sqrtf c z) + (y / sigma_y sqrtf c z) * (y / sigma_y sqrtf c z) ->
   beam_density_with sqrtf expf nd c x y z = 0).
Proof.
  split; [apply zero_before_source | split; [apply zero_beyond_length | apply zero_outside_clamp]].
Qed.

Lemma main_factorises sqrtf expf c nd x y z :
  sqrt_like sqrtf -> exp_like expf -> cfg_valid c ->
  0 <= z -> z <= b_len c ->
  a_clamp c && Qltb (clamp_sigma_sqr c) (norm_radius_sqr sqrtf c x y z) = false ->
  beam_density_with sqrtf expf nd c x y z ==
  lin_interp nd z * (gauss2 expf c (x / sigma_x sqrtf c z) (y / sigma_y sqrtf c z)
                     / (sigma_x sqrtf c z * sigma_y sqrtf c z)).
Proof.
  intros (S1 & S2) (E1 & E2 & E3 & E4) (V1 & V2 & V3 & V4 & V5 & V6 & V7 & V8).
  apply (density_inside sqrtf expf S1 E3 c V1 V3).
Qed.

Lemma main_flux sqrtf expf c I2 z :
  sqrt_like sqrtf -> exp_like expf -> cfg_valid c -> integral_like expf c I2 ->
  0 <= z -> z <= b_len c -> a_clamp c = false ->
  I2 (fun x y => beam_density sqrtf expf c x y z) == line_density sqrtf expf c z.
Proof.
  intros (S1 & S2) (E1 & E2 & E3 & E4) (V1 & V2 & V3 & V4 & V5 & V6 & V7 & V8) (I_1 & I_2 & I_3 & I_4).
  unfold beam_density, line_density.
  apply (flux_is_line_density sqrtf expf S1 E3 c V1 V3 I2 I_1 I_2 I_3 I_4).
Qed.

Lemma main_flux_no_stopping sqrtf expf c I2 z :
  sqrt_like sqrtf -> exp_like expf -> cfg_valid c -> integral_like expf c I2 ->
  no_stopping c -> 0 <= z -> z <= b_len c -> a_clamp c = false ->
  I2 (fun x y => beam_density sqrtf expf c x y z) == particle_rate c / speed sqrtf c.
Proof.
  intros HS HE HV HI Hs H0 H1 Hc.
  rewrite (main_flux sqrtf expf c I2 z HS HE HV HI H0 H1 Hc). unfold line_density, line_nodes.
  apply main_no_stopping; try assumption. apply nbeam_ge_2.
Qed.

Lemma main_line_formula sqrtf expf c T :
  line_of sqrtf expf c T =
  b_power c / (b_energy c * b_mass c * k_ec c) / sqrtf (b_energy c * k_cf c)
  * expf (- (T / sqrtf (b_energy c * k_cf c))).
Proof. reflexivity. Qed.

Lemma main_direction sqrtf c x y z :
  (z <= 0 -> direction sqrtf c x y z = mkvec 0 0 1) /\
  (sqrtf (norm2 (direction_raw c x y z)) * sqrtf (norm2 (direction_raw c x y z)) == norm2 (direction_raw c x y z) ->
   norm2 (direction sqrtf c x y z) == 1).
Proof. split; [apply direction_behind | apply direction_unit]. Qed.

Lemma main_streamline c x y z h :
  0 < b_sigma c ->
  vx (direction_raw c x y z) * sigma_x_sqr c z == x * (z * b_tx c * b_tx c) * vz (direction_raw c x y z) /\
  vy (direction_raw c x y z) * sigma_y_sqr c z == y * (z * b_ty c * b_ty c) * vz (direction_raw c x y z) /\
  sigma_x_sqr c (z + h) - sigma_x_sqr c z == h * (2 * z * b_tx c * b_tx c) + h * h * (b_tx c * b_tx c) /\
  sigma_y_sqr c (z + h) - sigma_y_sqr c z == h * (2 * z * b_ty c * b_ty c) + h * h * (b_ty c * b_ty c).
Proof.
  intros Hs. destruct (streamline_algebraic c Hs x y z) as [A B]. destruct (sigma_sqr_increment c z h) as [C D].
  repeat split; assumption.
Qed.

(* witnesses for the non-vacuity example *)
Definition witness_species : species :=
  mkspecies 1 (fun r => 4 + vz r * vz r) (fun _ => 100) (fun _ => mkvec 0 0 0) (fun _ _ _ => 1 # 8).
Definition witness_cfg : beam_cfg :=
  mkcfg 4 8 2 (1 # 2) (1 # 10) (1 # 5) 3 (1 # 2) true 5 (mkvec 0 0 1) (mkvec 1 0 0) [witness_species] 1 1 3.
Definition witness_sqrt (x : Q) : Q := x.
Definition witness_exp (x : Q) : Q := 1.

Lemma witness_ok :
  sqrt_like witness_sqrt /\ exp_like witness_exp /\ cfg_valid witness_cfg /\ plasma_nonneg witness_cfg /\
  (* the model computes: 7 nodes and a positive stopping coefficient (4 + 1) / 8 at z = 1 *)
  nbeam witness_cfg = 7%Z /\ stopping_at witness_sqrt witness_cfg 1 == 5 # 8 /\
  (* sqrt is exact at the point used by the direction on the axis *)
  witness_sqrt (norm2 (direction_raw witness_cfg 0 0 1)) * witness_sqrt (norm2 (direction_raw witness_cfg 0 0 1))
    == norm2 (direction_raw witness_cfg 0 0 1).
Proof.
  split; [|split; [|split; [|split; [|split; [|split]]]]].
  - unfold sqrt_like, witness_sqrt. split; intros; lra.
  - unfold exp_like, witness_exp. repeat split; intros; lra.
  - unfold cfg_valid. cbn. repeat split; lra.
  - unfold plasma_nonneg. intros s [<-|[]]. cbn. repeat split; intros; try lra.
    pose proof (sqr_nonneg (vz r)). lra.
  - vm_compute. reflexivity.
  - vm_compute. reflexivity.
  - vm_compute. reflexivity.
Qed.
