(* The exact replay of the stopping rule used by the correspondence is the model's rule. *)
Require Import Cherab.Common.Qx.
Require Import Cherab.Model.C11_Sart Cherab.Model.C11_Round.
Require Import Cherab.Proofs.C11_Sart.
From Coq Require Import Qpower Qround Qabs Lqa.
Open Scope Q_scope.

(* the replayed rule IS the model's stopping rule: with exact subtraction (no rounding) every convergence list
   the model produces is accepted by the replay *)
Section ReplayIsModel.
  Variable step : vec -> vec.
  Variable cv : vec -> Q.
  Variable tol : Q.

  Lemma loop_replay : forall fuel p x k,
    let cs := snd (loop step cv tol fuel (Some p) x) in
    match first_below tol k (abs_diffs no_rounding p cs) with
    | Some j => (length cs + k = S j)%nat
    | None => length cs = fuel
    end.
  Proof.
    induction fuel as [|f IH]; intros p x k; cbn [loop]; [reflexivity|].
    cbn [stop_now]. unfold Qltb.
    destruct (Qle_bool tol (Qabs (cv (step x) - p))) eqn:E; cbn [negb].
    - specialize (IH (cv (step x)) (step x) (S k)).
      destruct (loop step cv tol f (Some (cv (step x))) (step x)) as [xf cs'] eqn:EL. cbn [snd] in *.
      cbn [abs_diffs first_below]. unfold no_rounding at 1. rewrite E.
      destruct (first_below tol (S k) (abs_diffs no_rounding (cv (step x)) cs')); cbn [length]; lia.
    - cbn [snd abs_diffs first_below]. unfold no_rounding at 1. rewrite E. cbn. lia.
  Qed.

End ReplayIsModel.

Lemma run_with_passes_replay step W b x0 maxit tol x cs :
  run_with step W b x0 maxit tol = Ok x cs -> stop_replay no_rounding maxit tol cs = true.
Proof.
  intro H. unfold run_with in H. destruct (Z.to_nat maxit) as [|f] eqn:EF.
  - inversion H; subst. cbn. rewrite EF. reflexivity.
  - destruct (Qeq_bool (dot b b) 0); [discriminate|]. cbn [loop stop_now] in H.
    pose proof (loop_replay step (conv W b) tol f (conv W b (step x0)) (step x0) 1) as R. cbv zeta in R.
    destruct (loop step (conv W b) tol f (Some (conv W b (step x0))) (step x0)) as [xf cs'] eqn:EL.
    inversion H; subst. cbn [snd] in R. unfold stop_replay. rewrite EF.
    destruct (first_below tol 1 (abs_diffs no_rounding (conv W b (step x0)) cs')) eqn:EF2.
    + apply Nat.eqb_eq. cbn [length]. lia.
    + apply Nat.eqb_eq. cbn [length]. lia.
Qed.

(* ---- error bounds of the binary64 rounding model ---- *)

(* helper facts about powers of two (as in Proofs/C16_Round.v, re-proved here for this rounding model) *)
Lemma pow2_pos z : 0 < pow2 z.
Proof. unfold pow2. apply Qpower_0_lt. reflexivity. Qed.
Lemma two_nz : ~ 2 == 0.
Proof. intros H. discriminate H. Qed.
Lemma pow2_plus a b : pow2 (a + b) == pow2 a * pow2 b.
Proof. unfold pow2. apply Qpower_plus, two_nz. Qed.
Lemma pow2_Z k : (0 <= k)%Z -> inject_Z (2 ^ k) == pow2 k.
Proof. intros H. unfold pow2. rewrite (Zpower_Qpower 2 k H). reflexivity. Qed.

(* nearest integer, ties to even: within 1/2 *)
Lemma round_int_even_bounds r : r - (1#2) <= inject_Z (round_int_even r) /\ inject_Z (round_int_even r) <= r + (1#2).
Proof.
  unfold round_int_even.
  pose proof (Qfloor_le r) as H1. pose proof (Qlt_floor r) as H2.
  rewrite inject_Z_plus in H2. change (inject_Z 1) with 1 in H2.
  destruct (Qle_bool (r - inject_Z (Qfloor r)) (1#2)) eqn:E.
  - apply Qle_bool_iff in E. destruct (Qeq_bool (r - inject_Z (Qfloor r)) (1#2)) eqn:E2.
    + apply Qeq_bool_iff in E2. destruct (Z.even (Qfloor r)); [|rewrite inject_Z_plus; change (inject_Z 1) with 1]; lra.
    + lra.
  - assert ((1#2) < r - inject_Z (Qfloor r)).
    { apply Qnot_le_lt. intro K. apply Qle_bool_iff in K. congruence. }
    rewrite inject_Z_plus; change (inject_Z 1) with 1. lra.
Qed.

(* 2^(ilog2 q) <= |q| *)
Lemma ilog2_lower q : ~ q == 0 -> pow2 (ilog2 q) <= Qabs q.
Proof.
  intro Hq. unfold ilog2.
  set (e0 := (Z.log2 (Z.abs (Qnum q)) - Z.log2 (Zpos (Qden q)))%Z).
  destruct (Qle_bool (pow2 e0) (Qabs q)) eqn:E; [apply Qle_bool_iff; exact E|].
  destruct q as [n d]. cbn [Qnum Qden] in *.
  assert (Hn : (0 < Z.abs n)%Z).
  { destruct (Z.eq_dec n 0) as [->|K]; [exfalso; apply Hq; reflexivity | lia]. }
  destruct (Z.log2_spec (Z.abs n) Hn) as [Hn1 _].
  destruct (Z.log2_spec (Zpos d) (Pos2Z.is_pos d)) as [_ Hd2].
  pose proof (Z.log2_nonneg (Z.abs n)) as Hln. pose proof (Z.log2_nonneg (Zpos d)) as Hld.
  set (ln := Z.log2 (Z.abs n)) in *. set (ld := Z.log2 (Zpos d)) in *.
  replace (e0 - 1)%Z with (ln + - Z.succ ld)%Z by (unfold e0; lia).
  rewrite pow2_plus.
  assert (HA : Qabs (n # d) == inject_Z (Z.abs n) / inject_Z (Zpos d)).
  { unfold Qabs. rewrite (Qmake_Qdiv (Z.abs n) d). reflexivity. }
  rewrite HA.
  assert (Hinv : pow2 (- Z.succ ld) == / pow2 (Z.succ ld)) by (unfold pow2; apply Qpower_opp).
  rewrite Hinv. rewrite <- (pow2_Z ln Hln), <- (pow2_Z (Z.succ ld)) by lia.
  assert (0 < inject_Z (2 ^ Z.succ ld)) as HD by (rewrite pow2_Z by lia; apply pow2_pos).
  assert (0 < inject_Z (Zpos d)) as Hdq by reflexivity.
  assert (inject_Z (2 ^ ln) <= inject_Z (Z.abs n)) as Hnq by (rewrite <- Zle_Qle; exact Hn1).
  assert (inject_Z (Zpos d) < inject_Z (2 ^ Z.succ ld)) as Hdq2 by (rewrite <- Zlt_Qlt; exact Hd2).
  assert (0 < inject_Z (2 ^ ln)) as HN by (rewrite pow2_Z by lia; apply pow2_pos).
  apply Qle_shift_div_l; [exact Hdq|].
  apply Qle_trans with (inject_Z (2 ^ ln)); [|exact Hnq].
  assert (K : inject_Z (2 ^ ln) * / inject_Z (2 ^ Z.succ ld) * inject_Z (Zpos d)
              == inject_Z (2 ^ ln) * (inject_Z (Zpos d) / inject_Z (2 ^ Z.succ ld))) by (field; lra).
  rewrite K. rewrite <- (Qmult_1_r (inject_Z (2 ^ ln))) at 2.
  apply Qmult_le_l; [exact HN|]. apply Qle_shift_div_r; [exact HD|]. lra.
Qed.

Definition u53 : Q := pow2 (-53).

(* the rounded value in terms of the scaled significand *)
Lemma round53_value q : ~ q == 0 ->
  round53 q == inject_Z (round_int_even (q / pow2 (quantum q))) * pow2 (quantum q).
Proof.
  intro Hq. unfold round53. destruct (Qeq_bool q 0) eqn:E; [apply Qeq_bool_iff in E; contradiction|].
  apply Qred_correct.
Qed.

(* ABSOLUTE error: at most half a quantum, in the normal AND in the subnormal range *)
Lemma round53_abs_error q : Qabs (round53 q - q) <= (1#2) * pow2 (quantum q).
Proof.
  destruct (Qeq_dec q 0) as [Z|Hq].
  - unfold round53. assert (Qeq_bool q 0 = true) as -> by (apply Qeq_bool_iff; exact Z).
    pose proof (pow2_pos (quantum q)). setoid_replace (0 - q) with 0 by (rewrite Z; ring). cbn [Qabs Z.abs Qnum Qden]. lra.
  - rewrite (round53_value q Hq). pose proof (pow2_pos (quantum q)) as Hp.
    set (p := pow2 (quantum q)) in *. set (r := q / p).
    assert (Eq : q == r * p) by (unfold r; field; lra).
    destruct (round_int_even_bounds r) as [B1 B2]. fold r. set (m := inject_Z (round_int_even r)) in *.
    setoid_replace (m * p - q) with ((m - r) * p) by (rewrite Eq at 1; ring).
    apply Qabs_Qle_condition. split; nra.
Qed.

(* RELATIVE error 2^-53 in the normal range (|q| >= 2^-1022, i.e. quantum above the subnormal floor) *)
Lemma round53_rel_error q : (-1074 <= ilog2 q - 52)%Z -> Qabs (round53 q - q) <= u53 * Qabs q.
Proof.
  intro Hn. destruct (Qeq_dec q 0) as [Z|Hq].
  - unfold round53. assert (Qeq_bool q 0 = true) as -> by (apply Qeq_bool_iff; exact Z).
    setoid_replace (0 - q) with 0 by (rewrite Z; ring). cbn [Qabs Z.abs Qnum Qden].
    pose proof (Qabs_nonneg q). assert (0 < u53) by (apply pow2_pos). nra.
  - pose proof (round53_abs_error q) as A. pose proof (ilog2_lower q Hq) as L.
    assert (Eq : quantum q = (ilog2 q + -52)%Z) by (unfold quantum; lia).
    rewrite Eq, pow2_plus in A.
    assert (E53 : u53 == (1#2) * pow2 (-52)) by reflexivity.
    rewrite E53. pose proof (pow2_pos (-52)). nra.
Qed.

(* subnormal range: absolute error at most 2^-1075 *)
Lemma round53_subnormal_error q : (ilog2 q - 52 < -1074)%Z -> Qabs (round53 q - q) <= pow2 (-1075).
Proof.
  intro Hs. pose proof (round53_abs_error q) as A.
  assert (Eq : quantum q = (-1074)%Z) by (unfold quantum; lia). rewrite Eq in A.
  assert (E : (1#2) * pow2 (-1074) == pow2 (-1075)).
  { replace (-1075)%Z with (-1 + -1074)%Z by lia. rewrite pow2_plus. reflexivity. }
  rewrite <- E. exact A.
Qed.

(* the floating-point stopping decision equals the exact one whenever the exact difference is further than one
   rounding error from the tolerance: outside that margin the implementation's rule IS the model's rule *)
Lemma stop_decision_robust d tol : 0 <= d -> (-1074 <= ilog2 d - 52)%Z -> u53 * d < Qabs (d - tol) ->
  Qle_bool tol (round53 d) = Qle_bool tol d.
Proof.
  intros Hd Hn Hm. pose proof (round53_rel_error d Hn) as R. rewrite (Qabs_pos d Hd) in R.
  apply Qabs_Qle_condition in R. destruct R as [R1 R2].
  destruct (Qle_bool tol d) eqn:E.
  - apply Qle_bool_iff in E. apply Qle_bool_iff.
    rewrite Qabs_pos in Hm by lra. lra.
  - assert (d < tol). { apply Qnot_le_lt. intro K. apply Qle_bool_iff in K. congruence. }
    rewrite Qabs_neg in Hm by lra.
    destruct (Qle_bool tol (round53 d)) eqn:E2; [|reflexivity]. apply Qle_bool_iff in E2. exfalso. lra.
Qed.
