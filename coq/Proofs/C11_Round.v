(* The exact replay of the stopping rule used by the correspondence is the model's rule. *)
Require Import Cherab.Common.Qx.
Require Import Cherab.Model.C11_Sart Cherab.Model.C11_Round.
Require Import Cherab.Proofs.C11_Sart.
From Coq Require Import Qabs Lqa.
Open Scope Q_scope.

(* the replayed rule IS the model's stopping rule: with exact subtraction (no rounding) every convergence list
   the model produces is accepted by the replay *)
Section ReplayIsModel.
  Variable step : vec -> vec.
  Variable cv : vec -> Q.
  Variable tol : Q.

  Lemma loop_replay : forall fuel p x k,
    let cs := snd (loop step cv tol fuel (Some p) x) in
    match first_below tol k (abs_diffs no_rounding p cs) with
    | Some j => (length cs + k = S j)%nat
    | None => length cs = fuel
    end.
  Proof.
    induction fuel as [|f IH]; intros p x k; cbn [loop]; [reflexivity|].
    cbn [stop_now]. unfold Qltb.
    destruct (Qle_bool tol (Qabs (cv (step x) - p))) eqn:E; cbn [negb].
    - specialize (IH (cv (step x)) (step x) (S k)).
      destruct (loop step cv tol f (Some (cv (step x))) (step x)) as [xf cs'] eqn:EL. cbn [snd] in *.
      cbn [abs_diffs first_below]. unfold no_rounding at 1. rewrite E.
      destruct (first_below tol (S k) (abs_diffs no_rounding (cv (step x)) cs')); cbn [length]; lia.
    - cbn [snd abs_diffs first_below]. unfold no_rounding at 1. rewrite E. cbn. lia.
  Qed.

End ReplayIsModel.

Lemma run_with_passes_replay step W b x0 maxit tol x cs :
  run_with step W b x0 maxit tol = Ok x cs -> stop_replay no_rounding maxit tol cs = true.
Proof.
  intro H. unfold run_with in H. destruct (Z.to_nat maxit) as [|f] eqn:EF.
  - inversion H; subst. cbn. rewrite EF. reflexivity.
  - destruct (Qeq_bool (dot b b) 0); [discriminate|]. cbn [loop stop_now] in H.
    pose proof (loop_replay step (conv W b) tol f (conv W b (step x0)) (step x0) 1) as R. cbv zeta in R.
    destruct (loop step (conv W b) tol f (Some (conv W b (step x0))) (step x0)) as [xf cs'] eqn:EL.
    inversion H; subst. cbn [snd] in R. unfold stop_replay. rewrite EF.
    destruct (first_below tol 1 (abs_diffs no_rounding (conv W b (step x0)) cs')) eqn:EF2.
    + apply Nat.eqb_eq. cbn [length]. lia.
    + apply Nat.eqb_eq. cbn [length]. lia.
Qed.
