(* The executable models take their early exits exactly as the guard table says: separate tests, one per quantity. *)
Require Import Cherab.Common.Qx Cherab.Model.C03_Passive Cherab.Model.C03_Brems Cherab.Model.C03_Guards.
Open Scope Q_scope.

Lemma line_radiance_guards rate ne te s :
  line_radiance rate ne te s =
  if skip_by line_guards (env3 ne te (s_dens s)) then Skip else Emit (k4pi * rate ne te * ne * s_dens s).
Proof.
  unfold line_radiance, skip_by, line_guards, env3. cbn [existsb Z.eqb andb orb Pos.eqb].
  destruct (Qle_bool ne 0); [reflexivity|]. destruct (Qle_bool te 0); [reflexivity|].
  destruct (Qle_bool (s_dens s) 0); reflexivity.
Qed.

Lemma thermalcx_radiance_guards P l ne te comp rcv :
  comp_get comp (l_elem l) (l_charge l + 1) = Some rcv ->
  thermalcx_radiance P l ne te comp =
  if skip_by thermalcx_guards (env3 ne te (s_dens rcv)) then Skip
  else Emit (k4pi * tcx_weighted P l ne te (donors rcv comp) * s_dens rcv).
Proof.
  intro G. unfold thermalcx_radiance. rewrite G.
  unfold skip_by, thermalcx_guards, line_guards, env3. cbn [app existsb Z.eqb andb orb Pos.eqb].
  destruct (Qle_bool ne 0); [reflexivity|]. destruct (Qle_bool te 0); [reflexivity|].
  destruct (Qle_bool (s_dens rcv) 0); reflexivity.
Qed.

(* the donor entry (4, <= 0, continue): the loop body of tcx_weighted *)
Lemma tcx_term_guard P l ne te d :
  tcx_term P l ne te d = if Qle_bool (s_dens d) 0 then 0 else tcx_raw_term P l ne te d.
Proof. reflexivity. Qed.

Lemma total_power_guards P hyd e c znum ne te comp minw maxw sp up :
  (0 <= c < znum)%Z -> comp_get comp e c = Some sp -> comp_get comp e (c + 1) = Some up ->
  total_power_radiance P hyd e c znum ne te comp minw maxw =
  if skip_by total_guards (env3 ne te 1) then Skip
  else Emit (k4pi * total_power_density P e c ne te (s_dens sp) (s_dens up) (hyd_density hyd comp) / (maxw - minw)).
Proof.
  intros Hc G1 G2. unfold total_power_radiance.
  assert (Z.leb 0 c && Z.ltb c znum = true) as -> by (apply andb_true_iff; split; [apply Z.leb_le|apply Z.ltb_lt]; lia).
  cbn [negb]. rewrite G1, G2.
  unfold skip_by, total_guards, env3. cbn [existsb Z.eqb andb orb Pos.eqb].
  destruct (Qle_bool ne 0); [reflexivity|]. destruct (Qle_bool te 0); reflexivity.
Qed.

Lemma brems_emission_guards C sqrtf expf gaunt integ ne te comp minw delta nbins :
  brems_emission C sqrtf expf gaunt integ ne te comp minw delta nbins =
  if skip_by brems_guards (env3 ne te 1) then None
  else Some (brems_bins_from integ (brems_function C sqrtf expf gaunt ne te (charged_pairs comp)) minw delta minw 0 nbins).
Proof.
  unfold brems_emission, skip_by, brems_guards, env3. cbn [existsb Z.eqb andb orb Pos.eqb].
  destruct (Qle_bool ne 0); [reflexivity|]. destruct (Qle_bool te 0); reflexivity.
Qed.
