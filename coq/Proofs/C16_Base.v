(* C16: the lazily filled caches of SpectroscopicInstrument (generic part of the history proofs). *)
Require Import Cherab.Common.Qx.
Require Import Cherab.Model.C16_Instruments.
From Coq Require Import String.

(* cache coherence: whatever a cache holds is what the subclass hook computes from the current
   parameters *)
Definition coh (v : view) (b : base) : Prop :=
  (forall x, b_min b = Some x -> d_min (v_d v) = Some x) /\
  (forall x, b_max b = Some x -> d_max (v_d v) = Some x) /\
  (forall n, b_bins b = Some n -> d_bins (v_d v) = Some n) /\
  (forall k, b_kwargs b = Some k -> k = v_kw v) /\
  (forall c, b_classes b = Val c -> c = v_cl v).

(* the hook _update_spectral_settings does not raise *)
Definition total (v : view) : Prop :=
  exists mn mx n, d_min (v_d v) = Some mn /\ d_max (v_d v) = Some mx /\ d_bins (v_d v) = Some n.

Definition same_shape (b1 b2 : base) : Prop :=
  b_name b1 = b_name b2 /\ (b_classes b1 = Missing <-> b_classes b2 = Missing).

Lemma coh_clear v b :
  (forall k, b_kwargs b = Some k -> k = v_kw v) -> (forall c, b_classes b = Val c -> c = v_cl v) ->
  coh v (clear_spectral b).
Proof. intros Hk Hc. repeat split; cbn; try discriminate; assumption. Qed.

Lemma coh_clear_of v v' b :
  v_kw v' = v_kw v -> v_cl v' = v_cl v -> coh v b -> coh v' (clear_spectral b).
Proof.
  intros Ek Ec (_ & _ & _ & Hk & Hc). apply coh_clear.
  - intros k H. rewrite Ek. auto.
  - intros c H. rewrite Ec. auto.
Qed.

Lemma coh_set_name v v' n b :
  v_d v' = v_d v -> v_cl v' = v_cl v -> coh v b -> coh v' (set_name n b).
Proof.
  intros Ed Ec (H1 & H2 & H3 & _ & H5). unfold coh. rewrite Ed, Ec. cbn.
  repeat split; auto; discriminate.
Qed.

Lemma update_spectral_coh v b : coh v b -> coh v (fst (update_spectral (v_d v) b)).
Proof.
  intros H. pose proof H as (H1 & H2 & H3 & H4 & H5). unfold update_spectral.
  destruct (d_min (v_d v)) as [mn|] eqn:Emn; [|exact H].
  destruct (d_max (v_d v)) as [mx|] eqn:Emx; [destruct (d_bins (v_d v)) as [n|] eqn:En|];
    unfold coh; cbn; repeat split; auto;
    intros ? E; try (injection E as <-); try congruence;
    try (apply H1 in E; congruence); try (apply H2 in E; congruence); try (apply H3 in E; congruence).
Qed.

Lemma gstep_coh v g b : coh v b -> coh v (fst (gstep v g b)).
Proof.
  intros H. destruct g; cbn.
  - destruct (b_min b); [exact H|].
    pose proof (update_spectral_coh v b H) as U. destruct (update_spectral (v_d v) b); exact U.
  - destruct (b_max b); [exact H|].
    pose proof (update_spectral_coh v b H) as U. destruct (update_spectral (v_d v) b); exact U.
  - destruct (b_bins b); [exact H|].
    pose proof (update_spectral_coh v b H) as U. destruct (update_spectral (v_d v) b); exact U.
  - destruct (b_kwargs b); [exact H|]. destruct H as (H1 & H2 & H3 & H4 & H5).
    repeat split; cbn; auto. intros k E; injection E as <-; reflexivity.
  - destruct (b_classes b) eqn:E; try exact H. destruct H as (H1 & H2 & H3 & H4 & H5).
    repeat split; cbn; auto. intros c E'; injection E' as <-; reflexivity.
  - destruct H as (H1 & H2 & H3 & H4 & H5).
    assert (forall k, match b_kwargs b with Some k0 => k0 | None => v_kw v end = k -> k = v_kw v) as HK.
    { intros k <-. destruct (b_kwargs b) as [k0|] eqn:Ek; [apply H4; reflexivity|reflexivity]. }
    destruct (b_classes b) as [| |c] eqn:E; cbn.
    + unfold coh; rewrite E; repeat split; auto; intros; discriminate.
    + unfold coh; cbn; repeat split; auto; intros x E'; injection E' as E';
        first [apply HK, E' | subst; first [reflexivity | apply H5; reflexivity]].
    + unfold coh; cbn; repeat split; auto; intros x E'; injection E' as E';
        first [apply HK, E' | subst; first [reflexivity | apply H5; reflexivity]].
Qed.

Lemma update_spectral_shape d b : same_shape b (fst (update_spectral d b)).
Proof.
  unfold update_spectral, same_shape.
  destruct (d_min d); [|cbn; tauto]. destruct (d_max d); [|cbn; tauto]. destruct (d_bins d); cbn; tauto.
Qed.

Lemma gstep_shape v g b : same_shape b (fst (gstep v g b)).
Proof.
  destruct g; cbn.
  - destruct (b_min b); [split; tauto|].
    pose proof (update_spectral_shape (v_d v) b) as U. destruct (update_spectral (v_d v) b); exact U.
  - destruct (b_max b); [split; tauto|].
    pose proof (update_spectral_shape (v_d v) b) as U. destruct (update_spectral (v_d v) b); exact U.
  - destruct (b_bins b); [split; tauto|].
    pose proof (update_spectral_shape (v_d v) b) as U. destruct (update_spectral (v_d v) b); exact U.
  - destruct (b_kwargs b); split; cbn; tauto.
  - destruct (b_classes b) eqn:E; split; cbn; try tauto. rewrite E. split; discriminate.
  - destruct (b_classes b) eqn:E; split; cbn; try tauto; rewrite ?E; split; discriminate.
Qed.

(* when the hook does not raise, what a getter returns depends only on the current parameters,
   not on which caches happen to be filled *)
Definition answer (v : view) (g : gop) (missing : bool) : out :=
  match g with
  | GetMin => out_x (d_min (v_d v))
  | GetMax => out_x (d_max (v_d v))
  | GetBins => out_z (d_bins (v_d v))
  | GetKwargs => OKw (v_kw v)
  | GetClasses => if missing then OErr ErrAttribute else OCl (v_cl v)
  | CreatePipelines => if missing then OErr ErrAttribute else OPipes (combine (v_cl v) (v_kw v))
  end.

Definition is_missing (b : base) : bool := match b_classes b with Missing => true | _ => false end.

Lemma gstep_answer v g b : total v -> coh v b -> snd (gstep v g b) = answer v g (is_missing b).
Proof.
  intros (mn & mx & n & Emn & Emx & En) (H1 & H2 & H3 & H4 & H5). destruct g; cbn.
  - destruct (b_min b) as [x|] eqn:E; cbn; [rewrite (H1 _ eq_refl); reflexivity|].
    unfold update_spectral. rewrite Emn, Emx, En. reflexivity.
  - destruct (b_max b) as [x|] eqn:E; cbn; [rewrite (H2 _ eq_refl); reflexivity|].
    unfold update_spectral. rewrite Emn, Emx, En. reflexivity.
  - destruct (b_bins b) as [x|] eqn:E; cbn; [rewrite (H3 _ eq_refl); reflexivity|].
    unfold update_spectral. rewrite Emn, Emx, En. reflexivity.
  - destruct (b_kwargs b) as [k|] eqn:E; cbn; [rewrite (H4 _ eq_refl)|]; reflexivity.
  - unfold is_missing. destruct (b_classes b) as [| |c] eqn:E; cbn; [reflexivity|reflexivity|].
    rewrite (H5 _ eq_refl); reflexivity.
  - unfold is_missing. destruct (b_classes b) as [| |c] eqn:E; cbn; [reflexivity| |].
    + destruct (b_kwargs b) as [k|] eqn:Ek; [rewrite (H4 _ eq_refl)|]; reflexivity.
    + rewrite (H5 _ eq_refl). destruct (b_kwargs b) as [k|] eqn:Ek; [rewrite (H4 _ eq_refl)|]; reflexivity.
Qed.

Lemma same_shape_missing b1 b2 : same_shape b1 b2 -> is_missing b1 = is_missing b2.
Proof.
  intros (_ & H). unfold is_missing.
  destruct (b_classes b1), (b_classes b2); try reflexivity;
    try (destruct H as [H _]; specialize (H eq_refl); discriminate);
    try (destruct H as [_ H]; specialize (H eq_refl); discriminate).
Qed.

Lemma same_shape_trans a b c : same_shape a b -> same_shape b c -> same_shape a c.
Proof. intros (E1 & H1) (E2 & H2). split; [congruence | tauto]. Qed.
Lemma same_shape_sym a b : same_shape a b -> same_shape b a.
Proof. intros (E1 & H1). split; [congruence | tauto]. Qed.
Lemma same_shape_refl a : same_shape a a.
Proof. split; tauto. Qed.

(* ---- running a history ---- *)
Lemma run_cons_fst {S O} (step : O -> S -> S * out) o t s :
  fst (run step (o :: t) s) = fst (run step t (fst (step o s))).
Proof. cbn. destruct (step o s) as [s1 r]. cbn. destruct (run step t s1). reflexivity. Qed.

Lemma run_cons_snd {S O} (step : O -> S -> S * out) o t s :
  snd (run step (o :: t) s) = snd (step o s) :: snd (run step t (fst (step o s))).
Proof. cbn. destruct (step o s) as [s1 r]. cbn. destruct (run step t s1). reflexivity. Qed.

Lemma run_inv {S O} (step : O -> S -> S * out) (P : S -> Prop) :
  (forall o s, P s -> P (fst (step o s))) -> forall ops s, P s -> P (fst (run step ops s)).
Proof.
  intros Hs ops. induction ops as [|o t IH]; intros s H; [exact H|].
  rewrite run_cons_fst. apply IH, Hs, H.
Qed.

Lemma run_fold {S O X} (step : O -> S -> S * out) (f : S -> X) (g : O -> X -> X) :
  (forall o s, f (fst (step o s)) = g o (f s)) ->
  forall ops s, f (fst (run step ops s)) = fold_left (fun x o => g o x) ops (f s).
Proof.
  intros H ops. induction ops as [|o t IH]; intros s; [reflexivity|].
  rewrite run_cons_fst, IH, H. reflexivity.
Qed.

Lemma trunc_inject n : trunc (inject_Z n) = n.
Proof. unfold trunc. destruct (Qle_bool 0 (inject_Z n)); [apply Qround.Qfloor_Z | apply Qround.Qceiling_Z]. Qed.
