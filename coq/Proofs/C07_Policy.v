(* C07 -- lemmas about the accessor policy: the finite domain is completely enumerated, and every
   table that passes the boolean check [wf_on] obeys the property's policy on every case it was
   checked on. *)
Require Import Cherab.Common.Qx Cherab.Model.C07_Policy.

Lemma in_accessors a : In a all_accessors.
Proof. destruct a; unfold all_accessors; cbn [In]; tauto. Qed.
Lemma in_bools b : In b bools.
Proof. destruct b; unfold bools; cbn [In]; tauto. Qed.
Lemma in_kinds k : In k kinds.
Proof. destruct k; unfold kinds; cbn [In]; tauto. Qed.
Lemma in_avails a : In a avails.
Proof. destruct a; unfold avails; cbn [In]; tauto. Qed.

Lemma full_product_complete c : In c full_product.
Proof.
  destruct c as [a p n f x1 x2 r d wi we]. unfold full_product.
  apply in_flat_map; exists a; split; [apply in_accessors|].
  apply in_flat_map; exists p; split; [apply in_bools|].
  apply in_flat_map; exists n; split; [apply in_bools|].
  apply in_flat_map; exists f; split; [apply in_bools|].
  apply in_flat_map; exists x1; split; [apply in_kinds|].
  apply in_flat_map; exists x2; split; [apply in_kinds|].
  apply in_flat_map; exists r; split; [apply in_avails|].
  apply in_flat_map; exists d; split; [apply in_bools|].
  apply in_flat_map; exists wi; split; [apply in_bools|].
  apply in_map. apply in_bools.
Qed.

Lemma all_cases_complete c : relevant c = true -> In c all_cases.
Proof. intro H. unfold all_cases. apply filter_In. split; [apply full_product_complete | exact H]. Qed.

(* boolean equalities reflect Leibniz equality *)
Lemma src_eqb_eq a b : src_eqb a b = true -> a = b.
Proof. destruct a, b; simpl; congruence. Qed.
Lemma wsrc_eqb_eq a b : wsrc_eqb a b = true -> a = b.
Proof. destruct a, b; simpl; congruence. Qed.
Lemma outside_eqb_eq a b : outside_eqb a b = true -> a = b.
Proof. destruct a, b; simpl; congruence. Qed.
Lemma err_eqb_eq a b : err_eqb a b = true -> a = b.
Proof. destruct a, b; simpl; congruence. Qed.
Lemma pout_eqb_eq a b : pout_eqb a b = true -> a = b.
Proof.
  destruct a, b; simpl; try congruence.
  - intro H. repeat (apply andb_true_iff in H; destruct H as [H ?]).
    f_equal; auto using src_eqb_eq, wsrc_eqb_eq, outside_eqb_eq.
  - intro H. f_equal; auto using wsrc_eqb_eq.
  - intro H. f_equal; auto using err_eqb_eq.
Qed.
Lemma pout_eqb_refl a : pout_eqb a a = true.
Proof. destruct a as [[] [] [] []|[]| |[]|]; reflexivity. Qed.

Lemma wf_on_row cs t c : wf_on cs t = true -> In c cs -> exists o, plookup c t = Some o /\ spec_ok c o = true.
Proof.
  unfold wf_on. intros H Hin. rewrite forallb_forall in H. specialize (H c Hin).
  unfold row_ok in H. destruct (plookup c t) as [o|]; [exists o; auto | discriminate].
Qed.

Lemma minus_In cs excl c : In c cs -> existsb (pcase_eqb c) excl = false -> In c (minus cs excl).
Proof. intros H E. unfold minus. apply filter_In. split; auto. rewrite E. reflexivity. Qed.

(* the property-satisfying model obeys the policy written from the property text, in every case *)
Lemma model_meets_spec c : spec_ok c (model_outcome c) = true.
Proof.
  destruct c as [a p n f x1 x2 r d wi we].
  unfold spec_ok, model_outcome; cbn [acc pe null fb k1 k2 rate_av decoy wl_iso wl_el].
  destruct a; cbn [photon];
    repeat match goal with
           | |- context [match ?x with _ => _ end] => destruct x eqn:?; cbn [negb avail_eqb andb orb]
           end; try discriminate; try apply pout_eqb_refl; try reflexivity;
    try (rewrite pout_eqb_refl; reflexivity).
Qed.

(* what the rows of a checked table say, in words of the property *)
Section Table.
  Variable cs : list pcase.
  Variable t : ptable.
  Hypothesis wf : wf_on cs t = true.

  (* data missing: RuntimeError, or the null rate when null rates were requested *)
  Lemma missing_data c : In c cs -> acc c <> AWavelength -> rate_av c <> Present ->
    plookup c t = Some (if null c then PNull else PRaise ErrRuntime).
  Proof.
    intros Hin Ha Hr. destruct (wf_on_row cs t c wf Hin) as (o & -> & S). f_equal.
    unfold spec_ok in S.
    assert (E : negb (avail_eqb (rate_av c) Present) = true) by (destruct (rate_av c); simpl; congruence).
    destruct (acc c); try congruence; rewrite E in S; destruct (null c); apply pout_eqb_eq in S; auto.
  Qed.

  (* a returned rate always reproduces the ELEMENT's table, is converted with the wavelength of the
     requested species (element's only through the fallback), and follows the range policy *)
  Lemma returned_rate c s1 s2 w o : In c cs -> plookup c t = Some (PRate s1 s2 w o) ->
    s1 = SrcEl /\ s2 = SrcEl /\ o = out_of (pe c) /\ rate_av c = Present
    /\ (photon (acc c) = false -> w = WNone)
    /\ (photon (acc c) = true -> wavelength_lookup (fb c) (wl_kind c) (wl_iso c) (wl_el c) = Some w).
  Proof.
    intros Hin E. destruct (wf_on_row cs t c wf Hin) as (o' & E' & S). rewrite E in E'. inversion E'; subst o'.
    unfold spec_ok in S.
    destruct (acc c) eqn:A; cbn [photon] in *;
      try (destruct (wavelength_lookup (fb c) (k1 c) (wl_iso c) (wl_el c)); simpl in S; discriminate);
      destruct (rate_av c); cbn [negb avail_eqb] in S;
      try (destruct (null c); simpl in S; discriminate);
      try (destruct (wavelength_lookup (fb c) (wl_kind c) (wl_iso c) (wl_el c)) as [w'|];
           [|destruct (null c); simpl in S; discriminate]);
      apply pout_eqb_eq in S; inversion S; subst; repeat split; auto; try discriminate.
  Qed.

  (* wavelength(): the requested species' wavelength, the element's only through the fallback, else RuntimeError *)
  Lemma wavelength_row c : In c cs -> acc c = AWavelength ->
    plookup c t = Some (match wavelength_lookup (fb c) (k1 c) (wl_iso c) (wl_el c) with
                        | Some w => PWave w | None => PRaise ErrRuntime end).
  Proof.
    intros Hin A. destruct (wf_on_row cs t c wf Hin) as (o & -> & S). f_equal.
    unfold spec_ok in S. rewrite A in S.
    destruct (wavelength_lookup (fb c) (k1 c) (wl_iso c) (wl_el c)); apply pout_eqb_eq in S; auto.
  Qed.
End Table.

(* the wavelength an isotope request gets: its own when stored; the element's only with the fallback *)
Lemma wavelength_lookup_isotope f hi he w : wavelength_lookup f KIsotope hi he = Some w ->
  (hi = true -> w = WIso) /\ (w = WEl -> f = true /\ hi = false /\ he = true) /\ w <> WNone.
Proof. destruct f, hi, he; simpl; intro H; inversion H; repeat split; congruence. Qed.

(* record of a finding (fixed in /repo by 4f8cd49): the unfixed thermal_cx_pec took the ELEMENT's wavelength
   for an isotope receiver *)
Definition thermal_cx_pec_witness : pcase :=
  mkcase AThermalCXPEC false false false KElement KIsotope Present false true true.

Lemma code_thermal_cx_pec_refuted :
  relevant thermal_cx_pec_witness = true /\ spec_ok thermal_cx_pec_witness (code_outcome thermal_cx_pec_witness) = false.
Proof. split; vm_compute; reflexivity. Qed.

(* ---- histories: what a call returns depends on the repository content at the time of the call and on
   nothing else -- not on which calls were made before it on the same provider ---- *)
Lemma hrun_app p n f ops2 : forall st ops1,
  hrun p n f st (ops1 ++ ops2) = hrun p n f st ops1 ++ hrun p n f (hfinal st ops1) ops2.
Proof.
  intros st ops1. revert st. induction ops1 as [|o r IH]; intros st; [reflexivity|].
  destruct o; cbn [app hrun hfinal fold_left hstep]; rewrite IH; reflexivity.
Qed.

Lemma hfinal_ignores_calls ops : forall st, hfinal st (filter is_set ops) = hfinal st ops.
Proof.
  induction ops as [|o r IH]; intros st; [reflexivity|].
  destruct o; cbn [filter is_set hfinal fold_left hstep]; apply IH.
Qed.

Lemma history_last_call p n f ops a x1 x2 rs wi we :
  hrun p n f st0 (ops ++ [HCall a x1 x2 rs wi we])
  = hrun p n f st0 ops ++ [model_outcome (hcase p n f (hfinal st0 (filter is_set ops)) a x1 x2 rs wi we)].
Proof. rewrite hrun_app, hfinal_ignores_calls. reflexivity. Qed.

Lemma history_outcome_meets_spec p n f st a x1 x2 rs wi we :
  spec_ok (hcase p n f st a x1 x2 rs wi we) (model_outcome (hcase p n f st a x1 x2 rs wi we)) = true.
Proof. apply model_meets_spec. Qed.

(* ---- the aligned (linear-time) check implies the lookup-based one ---- *)
Lemma accessor_eqb_eq a b : accessor_eqb a b = true -> a = b.
Proof. destruct a, b; simpl; congruence. Qed.
Lemma kind_eqb_eq a b : kind_eqb a b = true -> a = b.
Proof. destruct a, b; simpl; congruence. Qed.
Lemma avail_eqb_eq a b : avail_eqb a b = true -> a = b.
Proof. destruct a, b; simpl; congruence. Qed.
Lemma pcase_eqb_eq a b : pcase_eqb a b = true -> a = b.
Proof.
  destruct a, b. unfold pcase_eqb. simpl. intro H.
  repeat (apply andb_true_iff in H; destruct H as [H ?]).
  f_equal; auto using accessor_eqb_eq, kind_eqb_eq, avail_eqb_eq, Bool.eqb_prop.
Qed.
Lemma pcase_eqb_refl a : pcase_eqb a a = true.
Proof. destruct a as [[] [] [] [] [] [] [] [] [] []]; reflexivity. Qed.

Lemma wf_aligned_rows cs t : wf_aligned cs t = true ->
  (forall r, In r t -> spec_ok (fst r) (snd r) = true) /\ (forall c, In c cs -> exists o, In (c, o) t).
Proof.
  revert t. induction cs as [|c cr IH]; intros [|[c' o] tr] H; try discriminate.
  - split; [intros r []|intros c []].
  - cbn [wf_aligned] in H. apply andb_true_iff in H. destruct H as [H Hr].
    apply andb_true_iff in H. destruct H as [E S]. apply pcase_eqb_eq in E. subst c'.
    destruct (IH tr Hr) as [A B]. split.
    + intros r [<-|Hin]; [exact S | apply A; exact Hin].
    + intros d [<-|Hin]; [exists o; left; reflexivity|].
      destruct (B d Hin) as (o' & Ho'). exists o'. right. exact Ho'.
Qed.

Lemma plookup_in c t o : In (c, o) t -> exists o', plookup c t = Some o' /\ In (c, o') t.
Proof.
  induction t as [|[c' o1] tr IH]; intros H; [destruct H|].
  cbn [plookup]. destruct (pcase_eqb c c') eqn:E.
  - apply pcase_eqb_eq in E. subst c'. exists o1. split; [reflexivity | left; reflexivity].
  - destruct H as [H|H].
    + inversion H; subst. rewrite pcase_eqb_refl in E. discriminate.
    + destruct (IH H) as (o' & L & I). exists o'. split; [exact L | right; exact I].
Qed.

Lemma wf_aligned_sound cs t : wf_aligned cs t = true -> wf_on cs t = true.
Proof.
  intro H. destruct (wf_aligned_rows cs t H) as [A B].
  unfold wf_on. apply forallb_forall. intros c Hc. unfold row_ok.
  destruct (B c Hc) as (o & Ho). destruct (plookup_in c t o Ho) as (o' & L & I).
  rewrite L. exact (A (c, o') I).
Qed.
