(* C13 -- the crossing test of a triangle is membership of the triangle (strictly inside -> 1, off the three
   edge lines and not inside -> 0), for every triangle of either orientation. *)
Require Import Cherab.Common.Qx.
Require Import Cherab.Model.C13_Wrappers.
Require Import Cherab.Proofs.C13_Routing Cherab.Proofs.C13_Polygon.
From Coq Require Import Lqa.
Open Scope Q_scope.

(* twice the signed area of (a, b, p): positive when p is to the left of the directed line a -> b *)
Definition orient (a b p : pt) : Q :=
  (fst b - fst a) * (snd p - snd a) - (snd b - snd a) * (fst p - fst a).

Lemma Qltb_shift u v u' v' : v - u == v' - u' -> Qltb u v = Qltb u' v'.
Proof.
  intros E. destruct (Qltb u' v') eqn:H; [apply Qltb_lt in H; apply Qltb_lt; lra | apply Qltb_ge in H; apply Qltb_ge; lra].
Qed.

(* the crossing test in terms of the orientation *)
Lemma crosses_orient p a b :
  crosses p (a, b) =
  if Bool.eqb (Qltb (snd p) (snd a)) (Qltb (snd p) (snd b)) then false
  else if Qltb (snd a) (snd b) then Qltb 0 (orient a b p) else Qltb (orient a b p) 0.
Proof.
  destruct p as [px py], a as [x1 y1], b as [x2 y2]. unfold crosses, orient. cbn [fst snd].
  destruct (Bool.eqb (Qltb py y1) (Qltb py y2)); [reflexivity |].
  destruct (Qltb y1 y2); apply Qltb_shift; ring.
Qed.

Lemma barycentric_y a b c p :
  orient b c p * (snd a - snd p) + orient c a p * (snd b - snd p) + orient a b p * (snd c - snd p) == 0.
Proof. destruct a, b, c, p. unfold orient. cbn [fst snd]. ring. Qed.

(* sign of a product from the signs of its factors, in the four shapes used below *)
Lemma mul_pp u v : 0 < u -> 0 < v -> 0 < u * v.  Proof. intros; apply Qmult_lt_0_compat; assumption. Qed.
Lemma mul_pn u v : 0 < u -> v <= 0 -> u * v <= 0.
Proof. intros. setoid_replace (u * v) with (- (u * (- v))) by ring. assert (0 <= u * (- v)) by (apply Qmult_le_0_compat; lra). lra. Qed.
Lemma mul_np u v : u < 0 -> 0 < v -> u * v < 0.
Proof. intros. setoid_replace (u * v) with (- ((- u) * v)) by ring. assert (0 < (- u) * v) by (apply Qmult_lt_0_compat; lra). lra. Qed.
Lemma mul_nn u v : u < 0 -> v <= 0 -> 0 <= u * v.
Proof. intros. setoid_replace (u * v) with ((- u) * (- v)) by ring. apply Qmult_le_0_compat; lra. Qed.

Ltac prod_sign o d :=
  first [ assert (0 < o * d) by (apply mul_pp; lra)
        | assert (o * d <= 0) by (apply mul_pn; lra)
        | assert (o * d < 0) by (apply mul_np; lra)
        | assert (0 <= o * d) by (apply mul_nn; lra) ].

Section Triangle.
  Variables a b c p : pt.
  Let oab := orient a b p.
  Let obc := orient b c p.
  Let oca := orient c a p.
  Let d1 := snd a - snd p.
  Let d2 := snd b - snd p.
  Let d3 := snd c - snd p.

  Lemma pip_triangle_form :
    point_in_polygon p [a; b; c] = xorb (crosses p (a, b)) (xorb (crosses p (b, c)) (crosses p (c, a))).
  Proof.
    unfold point_in_polygon, edges, parity. cbn [app path_edges map fold_right]. rewrite xorb_false_r. reflexivity.
  Qed.

  (* the three class tests and the six comparisons between vertex heights, as facts about d1 d2 d3 *)
  Ltac classes :=
    rewrite pip_triangle_form, !crosses_orient;
    fold oab obc oca;
    pose proof (barycentric_y a b c p) as K; fold oab obc oca d1 d2 d3 in K;
    destruct (Qltb (snd p) (snd a)) eqn:A1; [apply Qltb_lt in A1 | apply Qltb_ge in A1];
    destruct (Qltb (snd p) (snd b)) eqn:A2; [apply Qltb_lt in A2 | apply Qltb_ge in A2 | apply Qltb_lt in A2 | apply Qltb_ge in A2];
    destruct (Qltb (snd p) (snd c)) eqn:A3;
    [apply Qltb_lt in A3 | apply Qltb_ge in A3 | apply Qltb_lt in A3 | apply Qltb_ge in A3
     | apply Qltb_lt in A3 | apply Qltb_ge in A3 | apply Qltb_lt in A3 | apply Qltb_ge in A3];
    cbn [Bool.eqb];
    repeat match goal with
           | |- context [Qltb (snd ?u) (snd ?v)] =>
               let E := fresh "E" in
               first [ assert (E : Qltb (snd u) (snd v) = true) by (apply Qltb_lt; lra)
                     | assert (E : Qltb (snd u) (snd v) = false) by (apply Qltb_ge; lra) ];
               rewrite E
           end.

  Ltac signs :=
    repeat match goal with
           | |- context [Qltb 0 ?o] => let S := fresh "S" in destruct (Qltb 0 o) eqn:S; [apply Qltb_lt in S | apply Qltb_ge in S]
           | |- context [Qltb ?o 0] => let S := fresh "S" in destruct (Qltb o 0) eqn:S; [apply Qltb_lt in S | apply Qltb_ge in S]
           end.

  (* strictly inside a counter-clockwise triangle *)
  Lemma pip_triangle_inside : 0 < oab -> 0 < obc -> 0 < oca -> point_in_polygon p [a; b; c] = true.
  Proof.
    intros H1 H2 H3. classes; signs; try reflexivity; try lra; exfalso;
      unfold d1, d2, d3 in K;
      try (prod_sign obc (snd a - snd p); prod_sign oca (snd b - snd p); prod_sign oab (snd c - snd p); lra).
    (* all three vertices at or below the point: the three products vanish, the triangle is flat *)
    prod_sign obc (snd a - snd p). prod_sign oca (snd b - snd p). prod_sign oab (snd c - snd p).
    assert (Z1 : obc * (snd a - snd p) == 0) by lra.
    assert (Z2 : oca * (snd b - snd p) == 0) by lra.
    apply Qmult_integral in Z1. apply Qmult_integral in Z2.
    assert (E1 : snd a - snd p == 0) by (destruct Z1; lra).
    assert (E2 : snd b - snd p == 0) by (destruct Z2; lra).
    assert (Z : oab == 0).
    { unfold oab, orient. setoid_replace (snd p - snd a) with 0 by lra. setoid_replace (snd b - snd a) with 0 by lra. ring. }
    lra.
  Qed.

  (* off the three edge lines, not inside, counter-clockwise triangle of positive area *)
  Lemma pip_triangle_outside :
    0 < oab + obc + oca -> ~ oab == 0 -> ~ obc == 0 -> ~ oca == 0 -> ~ (0 < oab /\ 0 < obc /\ 0 < oca) ->
    point_in_polygon p [a; b; c] = false.
  Proof.
    intros HA N1 N2 N3 NI.
    assert (S1 : 0 < oab \/ oab < 0) by (destruct (Qlt_le_dec 0 oab); [left | right]; lra).
    assert (S2 : 0 < obc \/ obc < 0) by (destruct (Qlt_le_dec 0 obc); [left | right]; lra).
    assert (S3 : 0 < oca \/ oca < 0) by (destruct (Qlt_le_dec 0 oca); [left | right]; lra).
    classes; signs; try reflexivity; exfalso; unfold d1, d2, d3 in K;
      destruct S1, S2, S3; try lra; try (apply NI; repeat split; assumption);
      prod_sign obc (snd a - snd p); prod_sign oca (snd b - snd p); prod_sign oab (snd c - snd p); lra.
  Qed.
End Triangle.

Lemma orient_flip a b p : orient b a p == - orient a b p.
Proof. destruct a, b, p. unfold orient. cbn [fst snd]. ring. Qed.

(* clockwise triangles: the same statements with all signs reversed (the vertex list read backwards is counter-clockwise) *)
Lemma pip_triangle_reverse a b c p : point_in_polygon p [a; b; c] = point_in_polygon p [c; b; a].
Proof. rewrite <- (pip_rev p [a; b; c]). reflexivity. Qed.

Lemma pip_triangle_inside_cw a b c p :
  orient a b p < 0 -> orient b c p < 0 -> orient c a p < 0 -> point_in_polygon p [a; b; c] = true.
Proof.
  intros H1 H2 H3. rewrite pip_triangle_reverse. apply pip_triangle_inside.
  - rewrite orient_flip. lra.
  - rewrite orient_flip. lra.
  - rewrite orient_flip. lra.
Qed.

Lemma pip_triangle_outside_cw a b c p :
  orient a b p + orient b c p + orient c a p < 0 ->
  ~ orient a b p == 0 -> ~ orient b c p == 0 -> ~ orient c a p == 0 ->
  ~ (orient a b p < 0 /\ orient b c p < 0 /\ orient c a p < 0) ->
  point_in_polygon p [a; b; c] = false.
Proof.
  intros HA N1 N2 N3 NI. rewrite pip_triangle_reverse.
  pose proof (orient_flip b c p) as F1. pose proof (orient_flip a b p) as F2. pose proof (orient_flip c a p) as F3.
  apply pip_triangle_outside; try lra; intros (G1 & G2 & G3); apply NI; repeat split; lra.
Qed.
