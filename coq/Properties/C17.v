(* Property C17 -- Voxel area, centroid and volume are exact and independent of vertex order.
   This file contains nothing but the property theorems, each closed by a lemma from Proofs/,
   with Print Assumptions beneath.  [voxel_area], [voxel_centroid], [voxel_volume_over_2pi] are what
   an AxisymmetricVoxel built from the user's vertex list reports (constructor's orientation step
   included); lists are of any length. *)
Require Import Cherab.Common.Qx.
Require Import Cherab.Model.C17_Voxels.
Require Import Cherab.Model.C17_Check.
Require Import Cherab.Proofs.C17_Polygon Cherab.Proofs.C17_Voxel Cherab.Proofs.C17_Select Cherab.Proofs.C17_Emissivity.
Require Import Cherab.Proofs.C17_Discrete Cherab.Proofs.C17_Check.
Require Import Cherab.Proofs.C17_Rect Cherab.Proofs.C17_Convex Cherab.Proofs.C17_Uniform.
From Coq Require Import Qabs.
Open Scope Q_scope.

(* any cyclic rotation (l1 ++ l2 -> l2 ++ l1) and either orientation (l -> rev l) *)
Theorem C17_area_independent_of_vertex_order :
  (forall l1 l2, voxel_area (l2 ++ l1) == voxel_area (l1 ++ l2)) /\ (forall l, voxel_area (rev l) == voxel_area l).
Proof. split; [exact voxel_area_rotation_invariant | exact voxel_area_reversal_invariant]. Qed.
Print Assumptions C17_area_independent_of_vertex_order.

Theorem C17_centroid_independent_of_vertex_order :
  (forall l1 l2, oeq (voxel_centroid (l2 ++ l1)) (voxel_centroid (l1 ++ l2))) /\
  (forall l, oeq (voxel_centroid (rev l)) (voxel_centroid l)).
Proof. split; [exact voxel_centroid_rotation_invariant | exact voxel_centroid_reversal_invariant]. Qed.
Print Assumptions C17_centroid_independent_of_vertex_order.

Theorem C17_volume_independent_of_vertex_order :
  (forall l1 l2, voxel_volume_over_2pi (l2 ++ l1) == voxel_volume_over_2pi (l1 ++ l2)) /\
  (forall l, voxel_volume_over_2pi (rev l) == voxel_volume_over_2pi l).
Proof. split; [exact voxel_volume_rotation_invariant | exact voxel_volume_reversal_invariant]. Qed.
Print Assumptions C17_volume_independent_of_vertex_order.

(* volume = 2 pi * centroid radius * area (0 exactly when the area is 0) *)
Theorem C17_volume_is_two_pi_radius_area :
  forall pi l, match voxel_centroid l with
               | Some c => volume pi (normalise l) == 2 * pi * px c * voxel_area l
               | None => volume pi (normalise l) == 0 /\ voxel_area l == 0
               end.
Proof. exact pappus. Qed.
Print Assumptions C17_volume_is_two_pi_radius_area.

(* the stored vertex list is clockwise (or degenerate) whatever the user's orientation *)
Theorem C17_stored_vertices_clockwise : forall l, shoelace2 (normalise l) <= 0.
Proof. exact normalise_clockwise. Qed.
Print Assumptions C17_stored_vertices_clockwise.

(* any radius and height: area unchanged, centroid moves with the polygon *)
Theorem C17_translation :
  forall t l, voxel_area (map (shift t) l) == voxel_area l /\
              oeq (voxel_centroid (map (shift t) l)) (option_map (shift t) (voxel_centroid l)).
Proof. intros; split; [apply voxel_area_shift | apply voxel_centroid_shift]. Qed.
Print Assumptions C17_translation.

(* any magnitude: scaling every coordinate by k multiplies the area by k^2 and moves the centroid with the polygon
   (stated on the stored vertex list) *)
Theorem C17_scaling :
  forall k l, area (map (scl k) l) == k * k * area l /\
              (~ k == 0 -> oeq (centroid (map (scl k) l)) (option_map (scl k) (centroid l))).
Proof. intros; split; [apply area_scale | apply centroid_scale]. Qed.
Print Assumptions C17_scaling.

(* triangles and rectangles: the elementary formulas *)
Theorem C17_triangle_exact :
  forall a b c, area [a; b; c] == (1 # 2) * Qabs (tri2 a b c) /\
    (~ tri2 a b c == 0 -> oeq (centroid [a; b; c]) (Some ((px a + px b + px c) / 3, (py a + py b + py c) / 3))).
Proof. intros; split; [apply triangle_area_exact | apply triangle_centroid_exact]. Qed.
Print Assumptions C17_triangle_exact.

Theorem C17_rectangle_exact :
  forall r0 r1 z0 z1, area (rectangle r0 r1 z0 z1) == Qabs ((r1 - r0) * (z1 - z0)) /\
    (~ r0 == r1 -> ~ z0 == z1 -> oeq (centroid (rectangle r0 r1 z0 z1)) (Some ((r0 + r1) / 2, (z0 + z1) / 2))) /\
    (r0 < r1 -> z0 < z1 -> volume_over_2pi (rectangle r0 r1 z0 z1) == (r1 * r1 - r0 * r0) * (z1 - z0) / 2).
Proof.
  intros; split; [apply rectangle_area_exact | split; [apply rectangle_centroid_exact | apply rectangle_volume_exact]].
Qed.
Print Assumptions C17_rectangle_exact.

(* "true area and centroid", PARTIAL: for any number of vertices the reported signed area and the
   centroid numerators equal (i) those of the signed fan triangulation from the first vertex and
   (ii) those of every ear-clipping triangulation (any choice of ears), i.e. area = sum of triangle
   areas and centroid = area-weighted mean of triangle centroids.  Missing: that for a SIMPLE polygon
   such a decomposition is a partition of the enclosed region (the classical geometric fact; no measure
   theory in this development). *)
Theorem C17_true_area_and_centroid_partial :
  (forall p l, l <> [] -> shoelace2 (p :: l) == open_sum (tri2 p) l) /\
  (forall p l, l <> [] -> ~ shoelace2 (p :: l) == 0 ->
     oeq (centroid (p :: l))
         (Some (open_sum (fun a b => tri2 p a b * ((px p + px a + px b) / 3)) l / open_sum (tri2 p) l,
                open_sum (fun a b => tri2 p a b * ((py p + py a + py b) / 3)) l / open_sum (tri2 p) l))) /\
  (forall l tris, clip_check (seq 0 (length l)) tris = true ->
     Qsum (map (tri2_of l) tris) == shoelace2 l /\
     Qsum (map (fun t => 3 * px (tri_centroid_of l t) * tri2_of l t) tris) == cyc_sum gx l /\
     Qsum (map (fun t => 3 * py (tri_centroid_of l t) * tri2_of l t) tris) == cyc_sum gy l).
Proof. split; [exact shoelace_is_fan_sum | split; [exact centroid_is_weighted_fan_mean | exact ear_clipping_sums]]. Qed.
Print Assumptions C17_true_area_and_centroid_partial.

(* a grid's total volume is the sum of its voxels' volumes, grids of any size *)
Theorem C17_total_volume_is_sum :
  (forall pi vs, total_volume pi vs == Qsum (map (fun v => volume pi (normalise v)) vs)) /\
  (forall pi vs1 vs2, total_volume pi (vs1 ++ vs2) == total_volume pi vs1 + total_volume pi vs2).
Proof. split; [exact total_volume_is_sum | exact total_volume_app]. Qed.
Print Assumptions C17_total_volume_is_sum.

(* raysect's bisection equals its documented contract on non-decreasing arrays of any length *)
Theorem C17_find_index_bisection_is_contract : forall x v, sorted x -> find_index x v = find_index_lin x v.
Proof. exact find_index_is_contract. Qed.
Print Assumptions C17_find_index_bisection_is_contract.

(* the cumulative-area lookup: for any number of triangles with non-negative areas and any
   0 <= v < total, the selected index j is in range and v lies in [a_0+..+a_(j-1), a_0+..+a_j), an
   interval of length a_j; and j is the only such index *)
Theorem C17_select_picks_area_interval :
  forall areas v, (forall a, In a areas -> 0 <= a) -> areas <> [] -> 0 <= v -> v < Qsum areas ->
  exists j : nat, select (cumulative areas) v = Z.of_nat j /\ (j < length areas)%nat /\
                  prefix areas j <= v /\ v < prefix areas (S j) /\
                  prefix areas (S j) - prefix areas j == nth j areas 0 /\
                  (forall j', prefix areas j' <= v -> v < prefix areas (S j') -> j' = j).
Proof.
  intros areas v Hpos Hne Hlo Hhi. destruct (select_spec areas v Hpos Hne Hlo Hhi) as (j & H1 & H2 & H3 & H4).
  exists j. repeat split; try assumption.
  - rewrite prefix_step by exact H2. ring.
  - intros j' H5 H6. exact (select_unique areas v j' j Hpos H5 H6 H3 H4).
Qed.
Print Assumptions C17_select_picks_area_interval.

(* without the "+ 1" the first triangle is never chosen and index -1 is read *)
Theorem C17_select_off_by_one_refuted :
  exists areas v, (forall a, In a areas -> 0 < a) /\ 0 <= v /\ v < Qsum areas /\
                  select_off_by_one (cumulative areas) v = (-1)%Z /\ select (cumulative areas) v = 0%Z.
Proof. exact select_off_by_one_refuted. Qed.
Print Assumptions C17_select_off_by_one_refuted.

(* exact for constants: every draw sequence, every triangulation, every sqrt *)
Theorem C17_emissivity_exact_for_constants :
  forall sqrt l tris draws c, draws <> [] -> emissivity sqrt (fun _ => c) l tris draws == c.
Proof. exact constant_function_exact. Qed.
Print Assumptions C17_emissivity_exact_for_constants.

(* the sample point is a convex combination of the chosen triangle's vertices *)
Theorem C17_sample_point_in_triangle :
  forall temp u2, 0 <= temp -> temp <= 1 -> 0 <= u2 -> u2 <= 1 ->
  let '(al, be, ga) := bary temp u2 in 0 <= al /\ 0 <= be /\ 0 <= ga /\ al + be + ga == 1.
Proof. exact bary_convex. Qed.
Print Assumptions C17_sample_point_in_triangle.

(* unbiasedness, PARTIAL.  Proved: for a clockwise ear-clipping triangulation (what the constructor
   and triangulate2d produce) the triangle areas add up to the reported area, so with
   C17_select_picks_area_interval triangle j is chosen exactly when v = area * u lies in an interval of
   length area_j; and the resulting expectation  sum_j (area_j / area) * mean_j  equals, for a linear
   emissivity (mean over a triangle = value at its centroid), the value at the polygon centroid, i.e.
   the exact area-mean; for equal means it is that constant.  The step "u uniform => P(j) = area_j / area" is
   no longer a hypothesis: C17_selection_probability_on_uniform_grid and C17_expectation_on_uniform_grid prove it
   for the discrete variate uniform() really is (N-point grid, N = 2^53) with the explicit error 1/N.
   The hypothesis "all triangles clockwise" is discharged for convex cells by C17_convex_ear_clipping_clockwise, and
   the uniformity of point_triangle is proved on the grid for the generating family of corner regions
   (C17_point_triangle_uniform_on_grid, error 3/N).  Still missing: the extension from that family of regions to
   arbitrary measurable subsets, and the additivity of the mean of a general integrable f over the triangles
   (no measure theory in this development). *)
Theorem C17_emissivity_unbiased_partial :
  (forall l tris, clip_check (seq 0 (length l)) tris = true -> (forall t, In t tris -> tri2_of l t <= 0) ->
     Qsum (map (tri_area_of l) tris) == area l) /\
  (forall l tris c0 c1 c2, clip_check (seq 0 (length l)) tris = true ->
     (forall t, In t tris -> tri2_of l t <= 0) -> ~ shoelace2 l == 0 ->
     exists c, centroid l = Some c /\
       expected_estimate (map (tri_area_of l) tris) (map (fun t => linf c0 c1 c2 (tri_centroid_of l t)) tris)
       == linf c0 c1 c2 c) /\
  (forall areas c n, ~ Qsum areas == 0 -> length areas = n -> expected_estimate areas (repeat c n) == c).
Proof. split; [exact triangle_areas_sum_to_area | split; [exact expected_linear | exact expected_constant]]. Qed.
Print Assumptions C17_emissivity_unbiased_partial.

(* every grid_samples >= 1, PARTIAL in the same sense as C17_emissivity_unbiased_partial: the expectation of the
   n-draw estimator (defined through linearity of expectation as the average of the per-draw expectations, each
   draw having its own uniform u) is sum_j (a_j / A) mean_j whatever n is -- no bias of order 1/n. *)
Theorem C17_expectation_for_every_sample_count_partial :
  forall areas means n, (1 <= n)%nat -> expected_emissivity areas means n == expected_estimate areas means.
Proof. exact expected_emissivity_any_count. Qed.
Print Assumptions C17_expectation_for_every_sample_count_partial.

(* a deterministic stratified triangle choice (mid-point of stratum i of the cumulative area) does not have that
   expectation: two triangles of areas 1 and 3 with means 0 and 1, one sample *)
Theorem C17_stratified_choice_refuted :
  exists areas means, (forall a, In a areas -> 0 < a) /\
    ~ stratified_estimate areas means 1 == expected_estimate areas means /\
    expected_emissivity areas means 1 == expected_estimate areas means.
Proof. exact stratified_choice_refuted. Qed.
Print Assumptions C17_stratified_choice_refuted.

(* ---- deepening round ------------------------------------------------------------------------------------------ *)

(* the discrete probability statement: u uniform on the N-point grid {m/N} (raysect's uniform(): N = 2^53), any
   number of triangles with non-negative areas: the fraction of grid values for which line 442 selects triangle j
   differs from a_j / A by less than 1/N *)
Theorem C17_selection_probability_on_uniform_grid :
  forall areas N j, (forall a, In a areas -> 0 <= a) -> 0 < Qsum areas -> (0 < N)%nat -> (j < length areas)%nat ->
  Qabs (inject_Z (Z.of_nat (hits areas N j)) / inject_Z (Z.of_nat N) - nth j areas 0 / Qsum areas)
  < 1 / inject_Z (Z.of_nat N).
Proof. exact hits_close_to_area_share. Qed.
Print Assumptions C17_selection_probability_on_uniform_grid.

(* hence the expectation over that variate of the selected triangle's mean is within (sum |mean_j|) / N of the
   area-weighted mean, which is [expected_estimate] of C17_emissivity_unbiased_partial *)
Theorem C17_expectation_on_uniform_grid :
  (forall areas means N, (forall a, In a areas -> 0 <= a) -> 0 < Qsum areas -> (0 < N)%nat ->
     Qabs (grid_expectation areas means N - area_weighted_mean areas means)
     <= (1 / inject_Z (Z.of_nat N)) * Qsum (map (fun j => Qabs (nth j means 0)) (seq 0 (length areas)))) /\
  (forall areas means, length means = length areas -> ~ Qsum areas == 0 ->
     area_weighted_mean areas means == expected_estimate areas means).
Proof. split; [exact grid_expectation_close | exact area_weighted_mean_is_expected_estimate]. Qed.
Print Assumptions C17_expectation_on_uniform_grid.

(* the cumulative areas the lookup bisects are non-decreasing, so the bisection contract applies *)
Theorem C17_cumulative_areas_sorted :
  (forall a b c, 0 <= tri_area a b c) /\ (forall l tris, sorted (cumulative (map (tri_area_of l) tris))).
Proof. split; [exact tri_area_nonneg | exact cumulative_tri_areas_sorted]. Qed.
Print Assumptions C17_cumulative_areas_sorted.

(* the reference used by the failing-input search (trapezoid rule) is the model's area *)
Theorem C17_search_reference_is_model : forall l, Qabs (cyc_sum gw l) / 2 == area l.
Proof. exact trapezoid_is_shoelace. Qed.
Print Assumptions C17_search_reference_is_model.

(* the reduced-fraction evaluators the correspondence runs compute the model's values *)
Theorem C17_fast_evaluators_equal_model :
  (forall l, area_r l == area l) /\ (forall l, oeq (centroid_r l) (centroid l)) /\
  (forall pi l, volume_r pi l == volume pi l) /\ (forall pi vs, total_volume_r pi vs == total_volume pi vs).
Proof. repeat split; [apply area_r_ok | apply centroid_r_ok | apply volume_r_ok | apply total_volume_r_ok]. Qed.
Print Assumptions C17_fast_evaluators_equal_model.

(* constructor: what is accepted has >= 3 rows of exactly two numbers, r >= 0 everywhere, a known primitive type,
   and is stored in normalised order *)
Theorem C17_constructor_accepts_only_valid :
  forall rows ptype l, construct rows ptype = inr l ->
  exists pts, rows = map (fun p => [px p; py p]) pts /\ l = normalise pts /\ (3 <= length pts)%nat /\
              (forall p, In p pts -> 0 <= px p) /\ (ptype = 0 \/ ptype = 1)%Z.
Proof. exact construct_accepts. Qed.
Print Assumptions C17_constructor_accepts_only_valid.

(* the loop takes exactly grid_samples draws from the stream; a positive grid_samples gives the estimator of the
   theorems above; 0 raises, negative values return 0 without drawing *)
Theorem C17_draw_stream :
  (forall ntri n stream, (3 * n <= length stream)%nat -> length (fst (take_draws ntri n stream)) = n) /\
  (forall sqrt f l tris stream, fst (emissivity_call sqrt f l tris 0 stream) = None) /\
  (forall sqrt f l tris stream n, (n < 0)%Z ->
     exists q, fst (emissivity_call sqrt f l tris n stream) = Some q /\ q == 0 /\
               snd (emissivity_call sqrt f l tris n stream) = stream).
Proof.
  split; [exact take_draws_length | split].
  - intros. apply emissivity_call_policy.
  - intros sqrt f l tris stream. apply emissivity_call_policy.
Qed.
Print Assumptions C17_draw_stream.

(* record of the finding outside the reported numbers: the constructor's rectangle test accepts an isosceles
   trapezoid (stored clockwise, first edge horizontal) whose area 6 is not the bounding-box area 8 that
   _build_csg_from_rectangle then builds; true axis-aligned rectangles are always accepted *)
Theorem C17_rectangle_helper_accepts_trapezoid :
  (has_rectangular_cross_section trapezoid_witness = true /\ normalise trapezoid_witness = trapezoid_witness /\
   area trapezoid_witness == 6 /\ bbox_area trapezoid_witness == 8) /\
  (forall r0 r1 z0 z1, has_rectangular_cross_section (rectangle r0 r1 z0 z1) = true).
Proof. split; [exact rectangle_helper_accepts_trapezoid | exact rectangle_helper_true_rectangles]. Qed.
Print Assumptions C17_rectangle_helper_accepts_trapezoid.

(* ---- second deepening round ---------------------------------------------------------------------------------------- *)

(* convex cells: every triangle of every ear clipping of a convex clockwise vertex list (any number of vertices, any
   choice of ears) is clockwise or degenerate; hence with no further hypothesis the triangle areas add up to the
   reported area and the expectation for a linear emissivity is its value at the centroid.  Triangles and convex
   quadrilaterals are instances. *)
Theorem C17_convex_ear_clipping_clockwise :
  (forall l tris, convex_cw l -> clip_check (seq 0 (length l)) tris = true -> forall t, In t tris -> tri2_of l t <= 0) /\
  (forall l tris c0 c1 c2, convex_cw l -> clip_check (seq 0 (length l)) tris = true ->
     Qsum (map (tri_area_of l) tris) == area l /\
     (~ shoelace2 l == 0 -> exists c, centroid l = Some c /\
        expected_estimate (map (tri_area_of l) tris) (map (fun t => linf c0 c1 c2 (tri_centroid_of l t)) tris)
        == linf c0 c1 c2 c)) /\
  (forall a b c, tri2 a b c <= 0 -> convex_cw [a; b; c]) /\
  (forall a b c d, tri2 a b c <= 0 -> tri2 a b d <= 0 -> tri2 a c d <= 0 -> tri2 b c d <= 0 -> convex_cw [a; b; c; d]).
Proof.
  split; [exact convex_ear_clipping_clockwise | split; [exact convex_unbiased | split;
    [exact convex_cw_triangle | exact convex_cw_quadrilateral]]].
Qed.
Print Assumptions C17_convex_ear_clipping_clockwise.
Example C17_convex_nonvacuous :
  convex_cw [(1, 1); (2, 1); (2, 0); (1, 0)] /\ clip_check (seq 0 4) [(3, 0, 1); (1, 2, 3)]%nat = true.
Proof. split; [apply convex_cw_quadrilateral; vm_compute; congruence | vm_compute; reflexivity]. Qed.

(* point_triangle on the grid: for every function sqrt with (sqrt u <= t <-> u <= t^2) at the grid values u = m/N
   and the bound t in question (satisfiable: sqrt4_spec below; a correctly rounded sqrt has it up to rounding of t^2)
   and two successive grid variates (m1/N, m2/N): the sample point lies in the corner region R(t, s) (barycentric alpha >= 1 - t,
   beta <= s (1 - alpha)) exactly when temp <= t and u2 <= s; R(t, s) is a triangle of area s t^2 times the
   triangle's; and the fraction of the N^2 grid pairs landing in it exceeds s t^2 by at most 3/N *)
Theorem C17_point_triangle_uniform_on_grid :
  (forall t s a b c, let '(p, q, r) := corner_region t s a b c in tri2 p q r == s * t * t * tri2 a b c) /\
  (forall t s temp u2, 0 < temp ->
     let '(al, be, ga) := bary temp u2 in (1 - t <= al /\ be <= s * (1 - al)) <-> (temp <= t /\ u2 <= s)) /\
  (forall sqrt N t s, sqrt_spec_at sqrt N t -> (0 < N)%nat -> 0 <= t -> t < 1 -> 0 <= s -> s < 1 ->
     let Nq := inject_Z (Z.of_nat N) in
     0 <= inject_Z (Z.of_nat (corner_hits sqrt N t s)) / (Nq * Nq) - s * t * t <= 3 / Nq).
Proof. split; [exact corner_region_area | split; [exact sample_in_corner_region | exact corner_hits_close]]. Qed.
Print Assumptions C17_point_triangle_uniform_on_grid.
Example C17_point_triangle_nonvacuous : sqrt_spec_at sqrt4 4 (1 # 2) /\ corner_hits sqrt4 4 (1 # 2) (1 # 2) = 6%nat.
Proof. exact sqrt4_spec. Qed.

(* the exact set the constructor's rectangle test accepts: four vertices, equal diagonals, stored edge 1-2 parallel to
   an axis -- which contains every isosceles trapezoid listed from a base (area (w - d) h, bounding box w h) and,
   among parallelograms, exactly the axis-aligned rectangles *)
Theorem C17_rectangle_helper_exact_set :
  (forall l, has_rectangular_cross_section l = true <->
     exists v1 v2 v3 v4, l = [v1; v2; v3; v4] /\ dist2 v1 v3 == dist2 v2 v4 /\
                         (px v2 == px v1 \/ py v2 == py v1)) /\
  (forall w d h, has_rectangular_cross_section (trapezoid w d h) = true /\
                 shoelace2 (trapezoid w d h) == - (2 * ((w - d) * h))) /\
  (forall v1 v2 v3 v4, px v1 + px v3 == px v2 + px v4 -> py v1 + py v3 == py v2 + py v4 ->
     ~ (px v1 == px v2 /\ py v1 == py v2) ->
     (has_rectangular_cross_section [v1; v2; v3; v4] = true <->
      (py v2 == py v1 /\ px v3 == px v2 /\ px v4 == px v1 /\ py v4 == py v3) \/
      (px v2 == px v1 /\ py v3 == py v2 /\ py v4 == py v1 /\ px v4 == px v3))).
Proof. split; [exact helper_accepts_iff | split; [exact helper_accepts_every_trapezoid | exact helper_on_parallelograms]]. Qed.
Print Assumptions C17_rectangle_helper_exact_set.

(* non-vacuity: a concave pentagon (given anticlockwise), its stored form, raysect's triangulation *)
Definition witness : list pt := [(1, 0); (2, 0); (2, 1); (3 # 2, 1 # 2); (1, 1)].
Definition witness_tris : list tri := [(4, 0, 1); (1, 2, 3); (1, 3, 4)]%nat.
Example C17_nonvacuous :
  clip_check (seq 0 (length (normalise witness))) witness_tris = true /\
  (forall t, In t witness_tris -> tri2_of (normalise witness) t <= 0) /\
  ~ shoelace2 (normalise witness) == 0 /\ voxel_area witness == 3 # 4 /\
  voxel_area (rev witness) == 3 # 4 /\ witness <> [] /\ 0 <= 1 # 2 < Qsum [1 # 4; 1 # 4; 1 # 4].
Proof.
  repeat split; try (vm_compute; congruence).
  intros t [H|[H|[H|[]]]]; rewrite <- H; vm_compute; congruence.
Qed.
