(* Property C02, theorems over R (second deepening round).  Nothing but property theorems, each closed by a lemma of
   Proofs/C02_Real.v, with Print Assumptions.  Kept apart from Properties/C02.v only because of their dependencies
   (Coquelicot, Interval, Flocq). *)
From Coq Require Import Reals Qreals.
From Coquelicot Require Import Coquelicot.
Require Import Cherab.Common.Qx.
Require Import Cherab.Model.C02_LineShape.
Require Import Cherab.Proofs.C02_Norm Cherab.Proofs.C02_Real.
Open Scope Q_scope.

(* ======================= second deepening round: the analytic numbers, over R ======================= *)
(* erfR x = 2/sqrt(pi) int_0^x exp(-t^2) dt and starkf t = 1/(1 + t^2 sqrt t) are defined in Proofs/C02_Real.v with
   Coquelicot's Riemann integral RInt; the numeric bounds are certified by the Interval tactics.  These three theorems
   rest on the axioms of the classical real numbers of the standard library and on the primitive 63-bit integers used by
   Interval (listed under Print Assumptions, named in the trusted base). *)

(* 27. the Gaussian truncation constant: from 7 on (10/sqrt 2 = 7.07) erf is within 1e-15 of 1, i.e. a normalised
   Gaussian cut at +-10 sigma keeps the whole radiance to 1e-15 *)
Theorem C02_erf_truncation_constant_R :
  (forall x : R, 7 <= x -> 1 - 1 / 1000000000000000 <= erfR x)%R /\
  (forall x y : R, x <= y -> erfR x <= erfR y)%R /\
  (forall x : R, erfR x = 2 / sqrt PI * RInt (fun t => exp (- (t * t))) 0 x)%R.
Proof. repeat split; [exact erfR_truncation | exact erfR_mono]. Qed.
Print Assumptions C02_erf_truncation_constant_R.

(* 28. closes the gap of 8/21: in the Q model, for every E (odd, monotone, bounded) whose value at 10/sqrt2 is at most
   delta below the real erf there, and every sqrt2 in (0, 10/7], a window spanning the line receives
   R (1 - 1e-15 - delta) <= integral <= R.  What is left is only the accuracy delta of the erf actually used (libm). *)
Theorem C02_gauss_whole_radiance_R :
  forall (E : Q -> Q) (sqrt2 Rad lam sig : Q) (g : grid) (delta : Q),
  grid_ok g -> monotone E -> (forall x, E (- x) == - E x) -> (forall x, -1 <= E x <= 1) ->
  0 < sqrt2 -> sqrt2 <= 10 # 7 -> 0 <= Rad -> 0 < sig ->
  (erfR (Q2R (cutoff_sigma / sqrt2)%Q) - Q2R delta <= Q2R (E (cutoff_sigma / sqrt2)%Q))%R ->
  gmin g <= g_cl lam sig -> g_cu lam sig <= gmax g ->
  Rad * (1 - ((1 # 1000000000000000) + delta)) <= integral (gbin E sqrt2 Rad lam sig g) g <= Rad.
Proof. exact gauss_whole_radiance_R. Qed.
Print Assumptions C02_gauss_whole_radiance_R.

(* 29. the Stark normalisation constant (hypothesis of 22): 2 int_0^100 dt/(1 + t^(5/2)) = 2.641279471 +- 1e-9, and every
   constant C in that bracket normalises the profile on +-50 FWHM to 1 within 1e-9; the implementation's
   STARK_NORM_COEFFICIENT (from scipy's 2F1) is checked to lie in the bracket on every run (Gen/C02/Tie.v).
   Still open: additivity / accuracy of the code's Gauss-Legendre rule (false on coarse grids: known finding), and the
   change of variable t = (x - x0)/(FWHM/2), which is algebra not carried out over R here *)
Theorem C02_stark_normalisation_constant_R :
  (2641279470 / 1000000000 <= 2 * RInt (fun t => 1 / (1 + t * t * sqrt t)) 0 100 <= 2641279472 / 1000000000)%R /\
  (forall C : R, 2641279470 / 1000000000 <= C <= 2641279472 / 1000000000 ->
     Rabs (2 * RInt (fun t => 1 / (1 + t * t * sqrt t)) 0 100 / C - 1) <= 1 / 1000000000)%R.
Proof. split; [exact stark_norm_value | exact stark_normalised]. Qed.
Print Assumptions C02_stark_normalisation_constant_R.

