(* Property C07 -- OpenADAS rates reproduce stored tables and honour range / missing-data policy.
   Nothing but the property theorems, each closed by a lemma of Proofs/, with Print Assumptions.

   Groups.
   (P) Policy of the 14 accessors of cherab/openadas/openadas.py over the complete finite domain of
       accessor x 3 flags x element/isotope per species x repository content.  The theorems speak
       about ANY table of outcomes that passes the boolean check [wf_on]; the table probed from the
       running implementation is checked by a kernel-verified lemma in coq/Gen/C07/ on every run.
   (R) The rate objects of cherab/openadas/rates/*.pyx, for ALL table sizes, all positive tables and
       all arguments.  log10, 10**, and raysect's interpolators are oracles; theorems whose name ends
       in _partial rest on the oracle laws [oracle_laws] (10**log10 v = v, 10**(a+b) = 10**a 10**b,
       10**a >= 0, every interpolator returns the stored value at a knot).  What is missing for a
       full proof: that raysect's 2-D / 3-D cubic interpolators and libm satisfy these laws (up to
       rounding); this is checked numerically at every grid point on every run, not proved.  The 1-D
       interpolator IS modelled and proved (group C below), which removes the interpolation
       hypotheses from the beam-CX clause and from the beam clauses with a single-point e or n axis.
       Finiteness of an extrapolated DOUBLE is likewise only checked on the implementation (a value
       in Q is finite by construction).
   (C) raysect's 1-D cubic interpolation in Gallina, through-knots theorem, fast evaluator.
   (D) raysect's bicubic / tricubic kernels (generated from its source), through-knots theorems; the grid-point
       clauses of ALL rate families under the log10 / 10** laws alone. *)
Require Import Cherab.Common.Qx.
Require Import Cherab.Model.C07_Policy Cherab.Model.C07_Rates Cherab.Model.C07_Check Cherab.Model.C07_Cubic.
Require Import Cherab.Model.C07_TensorGen Cherab.Model.C07_Tensor Cherab.Proofs.C07_Tensor.
Require Import Cherab.Proofs.C07_Policy Cherab.Proofs.C07_Rates Cherab.Proofs.C07_Check Cherab.Proofs.C07_Cubic.
From Coq Require Import Qabs.
Open Scope Q_scope.

(* ------------------------------------------------------------------------------------------ (P) *)
Theorem C07_policy_domain_complete : forall c, relevant c = true -> In c all_cases.
Proof. exact all_cases_complete. Qed.
Print Assumptions C07_policy_domain_complete.

Theorem C07_policy_model_meets_spec : forall c, spec_ok c (model_outcome c) = true.
Proof. exact model_meets_spec. Qed.
Print Assumptions C07_policy_model_meets_spec.

(* data missing (no file, or file without the charge / transition key): RuntimeError, or a rate
   that is zero everywhere when null rates were requested -- every rate accessor, every flag
   combination, element or isotope *)
Theorem C07_policy_missing_data :
  forall cs t, wf_on cs t = true -> forall c, In c cs -> acc c <> AWavelength -> rate_av c <> Present ->
  plookup c t = Some (if null c then PNull else PRaise ErrRuntime).
Proof. exact missing_data. Qed.
Print Assumptions C07_policy_missing_data.

(* a returned rate reproduces the ELEMENT's table for every species argument (isotope requests use
   the element's rates, never a table stored under the isotope), raises outside the range exactly
   when extrapolation is not permitted, and photon coefficients are converted with the wavelength
   found by OpenADAS.wavelength for the REQUESTED species *)
Theorem C07_policy_returned_rate :
  forall cs t, wf_on cs t = true -> forall c s1 s2 w o, In c cs -> plookup c t = Some (PRate s1 s2 w o) ->
  s1 = SrcEl /\ s2 = SrcEl /\ o = out_of (pe c) /\ rate_av c = Present
  /\ (photon (acc c) = false -> w = WNone)
  /\ (photon (acc c) = true -> wavelength_lookup (fb c) (wl_kind c) (wl_iso c) (wl_el c) = Some w).
Proof. exact returned_rate. Qed.
Print Assumptions C07_policy_returned_rate.

Theorem C07_policy_wavelength :
  forall cs t, wf_on cs t = true -> forall c, In c cs -> acc c = AWavelength ->
  plookup c t = Some (match wavelength_lookup (fb c) (k1 c) (wl_iso c) (wl_el c) with
                      | Some w => PWave w | None => PRaise ErrRuntime end).
Proof. exact wavelength_row. Qed.
Print Assumptions C07_policy_wavelength.

(* the isotope's own wavelength whenever it is stored; the element's only through the fallback flag *)
Theorem C07_policy_isotope_wavelength :
  forall f hi he w, wavelength_lookup f KIsotope hi he = Some w ->
  (hi = true -> w = WIso) /\ (w = WEl -> f = true /\ hi = false /\ he = true) /\ w <> WNone.
Proof. exact wavelength_lookup_isotope. Qed.
Print Assumptions C07_policy_isotope_wavelength.

(* the linear-time check the Gen tie lemma runs (rows listed in the order of the cases) implies the lookup-based
   well-formedness that the policy theorems above are stated with *)
Theorem C07_policy_aligned_check_sound : forall cs t, wf_aligned cs t = true -> wf_on cs t = true.
Proof. exact wf_aligned_sound. Qed.
Print Assumptions C07_policy_aligned_check_sound.

(* one long-lived provider: for EVERY history of repository additions and accessor calls, the call
   made after the history [ops] returns what the model gives for its own arguments and the repository
   content accumulated by the additions of [ops]; the accessor calls inside [ops] (same species
   twice, element then isotope, other accessors, other charges or transitions) are irrelevant, and
   that outcome obeys the property's policy *)
Theorem C07_history_independent :
  forall p n f ops a x1 x2 rs wi we,
  hrun p n f st0 (ops ++ [HCall a x1 x2 rs wi we])
  = hrun p n f st0 ops ++ [model_outcome (hcase p n f (hfinal st0 (filter is_set ops)) a x1 x2 rs wi we)]
  /\ spec_ok (hcase p n f (hfinal st0 (filter is_set ops)) a x1 x2 rs wi we)
             (model_outcome (hcase p n f (hfinal st0 (filter is_set ops)) a x1 x2 rs wi we)) = true.
Proof. intros; split; [apply history_last_call | apply history_outcome_meets_spec]. Qed.
Print Assumptions C07_history_independent.

(* ------------------------------------------------------------------------------------------ (R) *)
Section R.
  Variable L : Type.
  Variable lg : Q -> L.
  Variable ex : L -> Q.
  Variable ladd : L -> L -> L.
  Variable interp1 : nat -> (nat -> L) -> (nat -> L) -> L -> L.
  Variable interp2 : nat -> nat -> (nat -> L) -> (nat -> L) -> (nat -> nat -> L) -> L -> L -> L.
  Variable interp3 : nat -> nat -> nat -> (nat -> L) -> (nat -> L) -> (nat -> L) -> (nat -> nat -> nat -> L)
                     -> L -> L -> L -> L.
  Variable interpq : nat -> (nat -> Q) -> (nat -> Q) -> Q -> Q.
  Hypothesis laws : oracle_laws L lg ex ladd interp1 interp2 interp3 interpq.

  (* ionisation, recombination, thermal CX rate, line / continuum / CX radiated power (cv = identity),
     excitation and recombination PEC (cv = hc/lambda): the stored value at every grid point, any
     axis lengths >= 1, with or without extrapolation *)
  Theorem C07_rate2_node_partial :
    forall p cf wl ext xs ys tbl i j, 0 < cf -> 0 < wl ->
    axis xs -> axis ys -> (i < length xs)%nat -> (j < length ys)%nat -> 0 < at2 tbl i j ->
    same (eval2 L lg ex interp2 (conv p cf wl) ext xs ys tbl (nth i xs 0) (nth j ys 0))
         (Val (conv p cf wl (at2 tbl i j))).
  Proof. intros; apply (eval2_node L lg ex ladd interp1 interp2 interp3 interpq laws); auto using conv_pos. Qed.

  Theorem C07_rate3_node_partial :
    forall p cf wl ext xs ys zs tbl i j k, 0 < cf -> 0 < wl ->
    axis xs -> axis ys -> axis zs -> (i < length xs)%nat -> (j < length ys)%nat -> (k < length zs)%nat ->
    0 < at3 tbl i j k ->
    same (eval3 L lg ex interp3 (conv p cf wl) ext xs ys zs tbl (nth i xs 0) (nth j ys 0) (nth k zs 0))
         (Val (conv p cf wl (at3 tbl i j k))).
  Proof. intros; apply (eval3_node L lg ex ladd interp1 interp2 interp3 interpq laws); auto using conv_pos. Qed.

  (* beam stopping / population / emission: sen * st / sref (times hc/lambda for emission), including
     single-point energy, density and temperature axes *)
  Theorem C07_beam_node_partial :
    forall p cf wl ext es ns ts sen st sref i j k, 0 < cf -> 0 < wl -> 0 < sref ->
    axis es -> axis ns -> axis ts -> (i < length es)%nat -> (j < length ns)%nat -> (k < length ts)%nat ->
    0 < at2 sen i j -> 0 < nth k st 0 ->
    same (evalbeam L lg ex ladd interp1 interp2 (conv p cf wl) ext es ns ts sen st sref
                   (nth i es 0) (nth j ns 0) (nth k ts 0))
         (Val (conv p cf wl (at2 sen i j * nth k st 0 / sref))).
  Proof. exact (evalbeam_node_form L lg ex ladd interp1 interp2 interp3 interpq laws). Qed.

  Theorem C07_beam_at_reference_partial :
    forall p cf wl ext es ns ts sen st sref i j k, 0 < cf -> 0 < wl -> 0 < sref ->
    axis es -> axis ns -> axis ts -> (i < length es)%nat -> (j < length ns)%nat -> (k < length ts)%nat ->
    0 < at2 sen i j -> nth k st 0 == sref ->
    same (evalbeam L lg ex ladd interp1 interp2 (conv p cf wl) ext es ns ts sen st sref
                   (nth i es 0) (nth j ns 0) (nth k ts 0))
         (Val (conv p cf wl (at2 sen i j))).
  Proof. exact (evalbeam_at_reference L lg ex ladd interp1 interp2 interp3 interpq laws). Qed.

  (* beam CX: hc/lambda * q_eb q_ti q_ni q_z q_b / q_ref^4, including single-point axes *)
  Theorem C07_beam_cx_node_partial :
    forall cf wl ext ebs tis nis zs bs qeb qti qni qz qb qref i j k l m,
    0 < cf -> 0 < wl -> 0 < qref ->
    axis ebs -> axis tis -> axis nis -> axis zs -> axis bs ->
    (i < length ebs)%nat -> (j < length tis)%nat -> (k < length nis)%nat -> (l < length zs)%nat -> (m < length bs)%nat ->
    0 < nth i qeb 0 -> 0 < nth j qti 0 -> 0 < nth k qni 0 -> 0 < nth l qz 0 -> 0 < nth m qb 0 ->
    same (evalcx L lg ex interp1 interpq (conv true cf wl) ext ebs tis nis zs bs qeb qti qni qz qb qref
                 (nth i ebs 0) (nth j tis 0) (nth k nis 0) (nth l zs 0) (nth m bs 0))
         (Val (photon_to_j cf wl (nth i qeb 0 * nth j qti 0 * nth k qni 0 * nth l qz 0 * nth m qb 0
                                  / (qref * qref * qref * qref)))).
  Proof. exact (evalcx_node_form L lg ex ladd interp1 interp2 interp3 interpq laws). Qed.

  (* non-negative for ALL tables, axes, flags and arguments (for beam CX also when the linear-space
     interpolant undershoots below zero: the "rate <= 0" exits) *)
  Theorem C07_nonneg :
    (forall cv ext xs ys tbl x y q, eval2 L lg ex interp2 cv ext xs ys tbl x y = Val q -> 0 <= q)
    /\ (forall cv ext xs ys zs tbl x y z q, eval3 L lg ex interp3 cv ext xs ys zs tbl x y z = Val q -> 0 <= q)
    /\ (forall cv ext es ns ts sen st sref e n t q,
          evalbeam L lg ex ladd interp1 interp2 cv ext es ns ts sen st sref e n t = Val q -> 0 <= q)
    /\ (forall cv ext ebs tis nis zs bs qeb qti qni qz qb qref e t n z b q,
          evalcx L lg ex interp1 interpq cv ext ebs tis nis zs bs qeb qti qni qz qb qref e t n z b = Val q -> 0 <= q).
  Proof.
    repeat split; intros.
    - eapply eval2_nonneg; eauto.
    - eapply eval3_nonneg; eauto.
    - eapply evalbeam_nonneg; eauto.
    - eapply evalcx_nonneg; eauto.
  Qed.
End R.
Print Assumptions C07_rate2_node_partial.
Print Assumptions C07_rate3_node_partial.
Print Assumptions C07_beam_node_partial.
Print Assumptions C07_beam_at_reference_partial.
Print Assumptions C07_beam_cx_node_partial.
Print Assumptions C07_nonneg.

(* exactly zero as soon as a density, temperature or energy argument is <= 0: any oracle, any table *)
Theorem C07_guard_zero :
  forall L lg ex ladd interp1 interp2 interp3 interpq,
  (forall cv ext xs ys tbl x y, x <= 0 \/ y <= 0 -> eval2 L lg ex interp2 cv ext xs ys tbl x y = Val 0)
  /\ (forall cv ext xs ys zs tbl x y z, x <= 0 \/ y <= 0 \/ z <= 0 ->
        eval3 L lg ex interp3 cv ext xs ys zs tbl x y z = Val 0)
  /\ (forall cv ext es ns ts sen st sref e n t, e <= 0 \/ n <= 0 \/ t <= 0 ->
        evalbeam L lg ex ladd interp1 interp2 cv ext es ns ts sen st sref e n t = Val 0)
  /\ (forall cv ext ebs tis nis zs bs qeb qti qni qz qb qref e t n z b, e <= 0 \/ t <= 0 \/ n <= 0 ->
        evalcx L lg ex interp1 interpq cv ext ebs tis nis zs bs qeb qti qni qz qb qref e t n z b = Val 0).
Proof.
  intros. repeat split; intros.
  - apply eval2_guard; auto.
  - apply eval3_guard; auto.
  - apply evalbeam_guard; auto.
  - apply evalcx_guard; auto.
Qed.
Print Assumptions C07_guard_zero.

(* range policy, positive arguments: without extrapolation an argument outside its axis raises;
   with extrapolation evaluate never raises *)
Theorem C07_range_policy :
  forall L lg ex ladd interp1 interp2 interp3 interpq,
  (forall cv xs ys tbl x y, 0 < x -> 0 < y ->
     (inrange xs x && inrange ys y = false -> eval2 L lg ex interp2 cv false xs ys tbl x y = Raise)
     /\ (exists q, eval2 L lg ex interp2 cv true xs ys tbl x y = Val q))
  /\ (forall cv xs ys zs tbl x y z, 0 < x -> 0 < y -> 0 < z ->
     (inrange xs x && inrange ys y && inrange zs z = false -> eval3 L lg ex interp3 cv false xs ys zs tbl x y z = Raise)
     /\ (exists q, eval3 L lg ex interp3 cv true xs ys zs tbl x y z = Val q))
  /\ (forall cv es ns ts sen st sref e n t, 0 < e -> 0 < n -> 0 < t ->
     (free_or_inrange es e && free_or_inrange ns n && free_or_inrange ts t = false ->
      evalbeam L lg ex ladd interp1 interp2 cv false es ns ts sen st sref e n t = Raise)
     /\ (exists q, evalbeam L lg ex ladd interp1 interp2 cv true es ns ts sen st sref e n t = Val q))
  /\ (forall cv ebs tis nis zs bs qeb qti qni qz qb qref e t n z b, 0 < e -> 0 < t -> 0 < n ->
     (free_or_inrange ebs e = false ->
      evalcx L lg ex interp1 interpq cv false ebs tis nis zs bs qeb qti qni qz qb qref e t n z b = Raise)
     /\ (free_or_inrange ebs e = true -> free_or_inrange tis t = false ->
      evalcx L lg ex interp1 interpq cv false ebs tis nis zs bs qeb qti qni qz qb qref e t n z b = Raise)
     /\ (exists q, evalcx L lg ex interp1 interpq cv true ebs tis nis zs bs qeb qti qni qz qb qref e t n z b = Val q)).
Proof.
  intros. repeat split; intros.
  - apply eval2_range; auto.
  - apply eval2_range; auto.
  - apply eval3_range; auto.
  - apply eval3_range; auto.
  - apply evalbeam_range; auto.
  - apply evalbeam_range; auto.
  - apply evalcx_raise_energy; auto.
  - apply evalcx_raise_temperature; auto.
  - apply evalcx_extrapolating_total.
Qed.
Print Assumptions C07_range_policy.

(* the oracle laws are satisfiable: the executable instance the correspondence runs obeys them,
   and generated tables that pass the boolean well-formedness test meet the [axis] hypothesis *)
Theorem C07_exec_instance_lawful : oracle_laws Q xlg xex xadd xinterp1 xinterp2 xinterp3 xinterpq.
Proof. exact exec_laws. Qed.
Print Assumptions C07_exec_instance_lawful.

Theorem C07_checked_axis_is_axis : forall xs, axisb xs = true -> axis xs.
Proof. exact axisb_axis. Qed.
Print Assumptions C07_checked_axis_is_axis.

(* ---------------------------------------------------------------------------------- (C) cubic *)
(* raysect's 1-D cubic interpolant (Model/C07_Cubic.v: find_index, unequal-spacing derivative estimates,
   Hermite coefficients, evaluation in the normalised cell) returns the stored value at EVERY knot, for
   every number of knots >= 2, every strictly increasing knot vector and every value vector.  This was
   the 1-D part of the oracle law 'interpolant passes through knots'; it is now a theorem. *)
Theorem C07_cubic1d_through_knots :
  forall n k v i, (2 <= n)%nat -> increasingq n k -> (i < n)%nat -> cubic1 n k v (k i) == v i.
Proof. exact cubic1_knot. Qed.
Print Assumptions C07_cubic1d_through_knots.

(* hence: with raysect's cubic in both 1-D slots, oracle_laws needs only the log10 / 10** laws and the
   2-D / 3-D knot laws (what remains unproved: bicubic / tricubic through knots, and libm) *)
Theorem C07_oracle_laws_from_cubic1d :
  forall lg ex ladd interp2 interp3, log_laws lg ex ladd ->
  (forall nx ny kx ky v i j, distinct ex nx kx -> distinct ex ny ky -> (i < nx)%nat -> (j < ny)%nat ->
     ex (interp2 nx ny kx ky v (kx i) (ky j)) == ex (v i j)) ->
  (forall nx ny nz kx ky kz v i j k, distinct ex nx kx -> distinct ex ny ky -> distinct ex nz kz ->
     (i < nx)%nat -> (j < ny)%nat -> (k < nz)%nat ->
     ex (interp3 nx ny nz kx ky kz v (kx i) (ky j) (kz k)) == ex (v i j k)) ->
  oracle_laws Q lg ex ladd cubic1 interp2 interp3 cubic1.
Proof. exact oracle_laws_cubic1. Qed.
Print Assumptions C07_oracle_laws_from_cubic1d.

(* BeamCXPEC interpolates in 1-D only: its grid-point clause (hc/lambda q_eb q_ti q_ni q_z q_b / q_ref^4,
   all axis lengths >= 1) no longer assumes anything about an interpolator -- only log_laws (10**log10 v = v
   for v > 0, 10**a >= 0, 10** respects ==, log10 strictly increasing) *)
Theorem C07_beam_cx_node_cubic :
  forall lg ex ladd, log_laws lg ex ladd ->
  forall cf wl ext ebs tis nis zs bs qeb qti qni qz qb qref i j k l m,
  0 < cf -> 0 < wl -> 0 < qref ->
  axis ebs -> axis tis -> axis nis -> axis zs -> axis bs ->
  (i < length ebs)%nat -> (j < length tis)%nat -> (k < length nis)%nat -> (l < length zs)%nat -> (m < length bs)%nat ->
  0 < nth i qeb 0 -> 0 < nth j qti 0 -> 0 < nth k qni 0 -> 0 < nth l qz 0 -> 0 < nth m qb 0 ->
  same (evalcx Q lg ex cubic1 cubic1 (conv true cf wl) ext ebs tis nis zs bs qeb qti qni qz qb qref
               (nth i ebs 0) (nth j tis 0) (nth k nis 0) (nth l zs 0) (nth m bs 0))
       (Val (photon_to_j cf wl (nth i qeb 0 * nth j qti 0 * nth k qni 0 * nth l qz 0 * nth m qb 0
                                / (qref * qref * qref * qref)))).
Proof. exact evalcx_node_cubic. Qed.
Print Assumptions C07_beam_cx_node_cubic.

(* beam stopping / population / emission tables with a single-point energy or density axis interpolate in
   1-D only (IsoMapper2D / Constant2D branches): sen * st / sref under log_laws alone, any interp2 *)
Theorem C07_beam_node_single_axis_cubic :
  forall lg ex ladd, log_laws lg ex ladd ->
  forall interp2 p cf wl ext es ns ts sen st sref i j k, 0 < cf -> 0 < wl -> 0 < sref ->
  single es || single ns = true ->
  axis es -> axis ns -> axis ts -> (i < length es)%nat -> (j < length ns)%nat -> (k < length ts)%nat ->
  0 < at2 sen i j -> 0 < nth k st 0 ->
  same (evalbeam Q lg ex ladd cubic1 interp2 (conv p cf wl) ext es ns ts sen st sref
                 (nth i es 0) (nth j ns 0) (nth k ts 0))
       (Val (conv p cf wl (at2 sen i j * nth k st 0 / sref))).
Proof. exact evalbeam_node_cubic_single. Qed.
Print Assumptions C07_beam_node_single_axis_cubic.

(* the evaluator with reduced fractions that the correspondence runs inside Coq is the model *)
Theorem C07_cubic1d_fast_evaluator : forall n k v x, cubic1_r n k v x == cubic1 n k v x.
Proof. exact cubic1_r_eq. Qed.
Print Assumptions C07_cubic1d_fast_evaluator.

(* ------------------------------------------------------------------- (D) bicubic / tricubic *)
(* raysect's Interpolator2DArray / 3DArray 'cubic' (cell selection, normalised coordinates, the 16 / 64 coefficient
   formulas and the polynomial generated from raysect's source text, Model/C07_TensorGen.v) return the stored value at
   EVERY knot, for every grid size >= 2 per axis, every increasing knot vectors, every table and WHATEVER the
   derivative estimates (these are universally quantified, not modelled).  These were the 2-D / 3-D 'through knots'
   oracle laws. *)
Theorem C07_bicubic_through_knots :
  forall D nx ny kx ky v i j,
  (2 <= nx)%nat -> (2 <= ny)%nat -> increasingq nx kx -> increasingq ny ky -> (i < nx)%nat -> (j < ny)%nat ->
  cubic2 D nx ny kx ky v (kx i) (ky j) == v i j.
Proof. exact cubic2_knot. Qed.
Print Assumptions C07_bicubic_through_knots.

Theorem C07_tricubic_through_knots :
  forall D nx ny nz kx ky kz v i j l,
  (2 <= nx)%nat -> (2 <= ny)%nat -> (2 <= nz)%nat -> increasingq nx kx -> increasingq ny ky -> increasingq nz kz ->
  (i < nx)%nat -> (j < ny)%nat -> (l < nz)%nat ->
  cubic3 D nx ny nz kx ky kz v (kx i) (ky j) (kz l) == v i j l.
Proof. exact cubic3_knot. Qed.
Print Assumptions C07_tricubic_through_knots.

(* the grid-point clauses with raysect's cubic in every slot: no interpolation hypothesis is left, only log_laws.
   2-D families (ionisation, recombination, thermal CX, line / continuum / CX power, excitation / recombination PEC),
   axes of >= 2 points (what Interpolator2DArray accepts) *)
Theorem C07_rate2_node_bicubic :
  forall lg ex ladd, log_laws lg ex ladd ->
  forall D p cf wl ext xs ys tbl i j, 0 < cf -> 0 < wl ->
  axis xs -> axis ys -> (2 <= length xs)%nat -> (2 <= length ys)%nat ->
  (i < length xs)%nat -> (j < length ys)%nat -> 0 < at2 tbl i j ->
  same (eval2 Q lg ex (cubic2 D) (conv p cf wl) ext xs ys tbl (nth i xs 0) (nth j ys 0))
       (Val (conv p cf wl (at2 tbl i j))).
Proof. intros; apply (eval2_node_bicubic lg ex ladd); auto using conv_pos. Qed.
Print Assumptions C07_rate2_node_bicubic.

Theorem C07_rate3_node_tricubic :
  forall lg ex ladd, log_laws lg ex ladd ->
  forall D p cf wl ext xs ys zs tbl i j k, 0 < cf -> 0 < wl ->
  axis xs -> axis ys -> axis zs -> (2 <= length xs)%nat -> (2 <= length ys)%nat -> (2 <= length zs)%nat ->
  (i < length xs)%nat -> (j < length ys)%nat -> (k < length zs)%nat -> 0 < at3 tbl i j k ->
  same (eval3 Q lg ex (cubic3 D) (conv p cf wl) ext xs ys zs tbl (nth i xs 0) (nth j ys 0) (nth k zs 0))
       (Val (conv p cf wl (at3 tbl i j k))).
Proof. intros; apply (eval3_node_tricubic lg ex ladd); auto using conv_pos. Qed.
Print Assumptions C07_rate3_node_tricubic.

(* beam stopping / population / emission, EVERY axis length >= 1 (Constant2D, IsoMapper2D + 1-D cubic, bicubic) *)
Theorem C07_beam_node_cubic :
  forall lg ex ladd, log_laws lg ex ladd ->
  forall D p cf wl ext es ns ts sen st sref i j k, 0 < cf -> 0 < wl -> 0 < sref ->
  axis es -> axis ns -> axis ts -> (i < length es)%nat -> (j < length ns)%nat -> (k < length ts)%nat ->
  0 < at2 sen i j -> 0 < nth k st 0 ->
  same (evalbeam Q lg ex ladd cubic1 (cubic2 D) (conv p cf wl) ext es ns ts sen st sref
                 (nth i es 0) (nth j ns 0) (nth k ts 0))
       (Val (conv p cf wl (at2 sen i j * nth k st 0 / sref))).
Proof. intros lg ex ladd LL; intros; apply (evalbeam_node_cubic_all lg ex ladd LL); auto. Qed.
Print Assumptions C07_beam_node_cubic.

(* rounding-aware form of the 2-D grid-point clause: if 10 ** log10 v is only within relative eps of v (what libm
   gives on doubles; the known finding about log10 at an end grid point lives in exactly this gap), the value at
   every grid point is within relative eps of the stored value after conversion -- no exact log/exp law assumed *)
Theorem C07_rate2_node_bicubic_rounded :
  forall lg ex eps,
  (forall a b, a == b -> ex a == ex b) -> (forall a b, 0 < a -> a < b -> lg a < lg b) ->
  (forall v, 0 < v -> Qabs (ex (lg v) - v) <= eps * v) ->
  forall D p cf wl ext xs ys tbl i j, 0 < cf -> 0 < wl ->
  axis xs -> axis ys -> (2 <= length xs)%nat -> (2 <= length ys)%nat ->
  (i < length xs)%nat -> (j < length ys)%nat -> 0 < at2 tbl i j ->
  exists q, eval2 Q lg ex (cubic2 D) (conv p cf wl) ext xs ys tbl (nth i xs 0) (nth j ys 0) = Val q
            /\ Qabs (q - conv p cf wl (at2 tbl i j)) <= eps * conv p cf wl (at2 tbl i j).
Proof. intros; apply (eval2_node_bicubic_rounded lg ex eps); auto using conv_pos. Qed.
Print Assumptions C07_rate2_node_bicubic_rounded.

Theorem C07_log_laws_satisfiable : log_laws (fun v => v) Qabs Qmult.
Proof. exact log_laws_witness. Qed.
Print Assumptions C07_log_laws_satisfiable.

(* the null rates returned for missing data are zero everywhere *)
Theorem C07_null_zero_everywhere : forall args, evalnull_at args = Val 0.
Proof. intros; reflexivity. Qed.
Print Assumptions C07_null_zero_everywhere.

(* non-vacuity: a concrete 2x3 table, axes and node meeting every hypothesis of C07_rate2_node_partial,
   and a policy case in the domain *)
Example C07_nonvacuous :
  axis wit_xs /\ axis wit_ys /\ (1 < length wit_xs)%nat /\ (2 < length wit_ys)%nat
  /\ 0 < at2 wit_tbl 1 2 /\ 0 < hc_nm
  /\ relevant (mkcase ABeamCXPEC true false true KIsotope KIsotope Present true false true) = true
  /\ model2 (mk2 true hc_nm 500 false wit_xs wit_ys wit_tbl) 3 100 = Val (Qabs (6 / 500 * hc_nm)).
Proof.
  repeat split; try (apply axisb_axis; vm_compute; reflexivity); try (cbn [length wit_xs wit_ys]; lia);
    try (vm_compute; reflexivity).
Qed.
