(* Property C02 -- Line shapes are normalised: spectral integral equals supplied radiance.
   Nothing but the property theorems, each closed by a lemma from Proofs/, with Print Assumptions. *)
Require Import Cherab.Common.Qx.
Require Import Cherab.Model.C02_LineShape.
Require Import Cherab.Proofs.C02_Gauss.
Open Scope Q_scope.

(* the bin loop of add_gaussian_line, with its running lower_integral, early exits and
   floor/ceil bin range, adds to bin i exactly R (Phi(edge_{i+1}) - Phi(edge_i)) / delta
   (Phi = (1 + E)/2, the bin average of the profile) on [start, end) and nothing elsewhere:
   for every function E in place of erf, every grid, every number of bins *)
Theorem C02_gauss_loop_is_bin_average :
  forall (E : Q -> Q) (sqrt2 R lam sig : Q) (g : grid) (smp : list Q) (i : nat),
  length smp = Z.to_nat (gbins g) ->
  nth i (add_gaussian E sqrt2 R lam sig g smp) 0 == nth i smp 0 + gbin E sqrt2 R lam sig g (Z.of_nat i).
Proof. exact add_gaussian_nth. Qed.
Print Assumptions C02_gauss_loop_is_bin_average.
