(* Property C02 -- Line shapes are normalised: spectral integral equals supplied radiance.
   Nothing but the property theorems, each closed by lemmas from Proofs/, with Print Assumptions.

   E (erf), sqrtQ, powQ, lnQ, expQ and I (the integrator applied to the Stark profile) are universally
   quantified functions; the double constants (sqrt2, s2f, K) are universally quantified numbers.
   [integral f g] = sum over all bins of f(i) * delta_wavelength;  [csbin g cs i] = what the component
   list cs adds to bin i;  [total_rad cs] = sum of the component radiances. *)
Require Import Cherab.Common.Qx.
Require Import Cherab.Model.C02_LineShape Cherab.Model.C02_Quadrature Cherab.Model.C02_Policy.
From Coq Require Import Permutation.
From Coq Require String.
Require Import Cherab.Proofs.C02_Gauss Cherab.Proofs.C02_Norm Cherab.Proofs.C02_Weights Cherab.Proofs.C02_Quadrature Cherab.Proofs.C02_Sums Cherab.Proofs.C02_Policy.
Open Scope Q_scope.

(* 1. the bin loop of add_gaussian_line, with its running lower_integral, early exits and floor/ceil
   bin range, adds to bin i exactly R (Phi(edge_{i+1}) - Phi(edge_i)) / delta (Phi = (1 + E)/2: the bin
   average of the profile) on [start, end) and nothing elsewhere: any E, any grid, any number of bins *)
Theorem C02_gauss_loop_is_bin_average :
  forall (E : Q -> Q) (sqrt2 R lam sig : Q) (g : grid) (smp : list Q) (i : nat),
  length smp = Z.to_nat (gbins g) ->
  nth i (add_gaussian E sqrt2 R lam sig g smp) 0 == nth i smp 0 + gbin E sqrt2 R lam sig g (Z.of_nat i).
Proof. exact add_gaussian_nth. Qed.
Print Assumptions C02_gauss_loop_is_bin_average.

(* 2. the same for add_lorentzian_line: bin i receives R * I(edge_i, edge_{i+1}) / delta on its range *)
Theorem C02_lorentz_loop_is_bin_integral :
  forall (I : Q -> Q -> Q -> Q -> Q) (R lam w : Q) (g : grid) (smp : list Q) (i : nat),
  length smp = Z.to_nat (gbins g) ->
  nth i (add_lorentzian I R lam w g smp) 0 == nth i smp 0 + lbin I R lam w g (Z.of_nat i).
Proof. exact add_lorentzian_nth. Qed.
Print Assumptions C02_lorentz_loop_is_bin_integral.

(* 3. a model hands a list of components to the two routines one after the other: every bin ends up with
   its old value plus the sum of the components' contributions, and the wavelength integral of the whole
   is the sum of the components' integrals -- any number of components *)
Theorem C02_components_add_up :
  forall E sqrt2 I (g : grid) (cs : list comp),
  (forall (smp : list Q) (i : nat), length smp = Z.to_nat (gbins g) ->
     nth i (add_comps E sqrt2 I g cs smp) 0 == nth i smp 0 + csbin E sqrt2 I g cs (Z.of_nat i)) /\
  integral (csbin E sqrt2 I g cs) g == Qsum (map (fun c => integral (cbin E sqrt2 I g c) g) cs).
Proof. intros; split; [intros; now apply add_comps_nth | apply integral_comps]. Qed.
Print Assumptions C02_components_add_up.

(* 4. telescoping: the wavelength integral of what one Gaussian component adds is
   R (Phi(edge_end) - Phi(edge_start)); zero when an early exit fires *)
Theorem C02_gauss_integral_telescopes :
  forall E sqrt2 R lam sig (g : grid), grid_ok g ->
  (g_active g lam sig = true ->
   integral (gbin E sqrt2 R lam sig g) g ==
   R * (1 # 2) * (E (erfarg g lam (g_temp sqrt2 sig) (g_end g lam sig)) - E (erfarg g lam (g_temp sqrt2 sig) (g_start g lam sig)))) /\
  (g_active g lam sig = false -> integral (gbin E sqrt2 R lam sig g) g == 0).
Proof. intros; split; intros; [now apply gauss_integral | now apply gauss_integral_inactive]. Qed.
Print Assumptions C02_gauss_integral_telescopes.

(* 5. the visited bins are exactly the bins of the spectrum that meet (lam - 10 sigma, lam + 10 sigma); the early
   exits fire exactly when sigma <= 0 or the window misses [lam - 10 sigma, lam + 10 sigma] *)
Theorem C02_gauss_support :
  forall (g : grid) lam sig, 0 < gdelta g ->
  (forall i, (g_start g lam sig <= i < g_end g lam sig)%Z <->
             (0 <= i < gbins g)%Z /\ g_cl lam sig < edge g (i + 1) /\ edge g i < g_cu lam sig) /\
  (g_active g lam sig = true <-> 0 < sig /\ g_cl lam sig <= gmax g /\ gmin g <= g_cu lam sig).
Proof. intros; split; [intros; now apply gauss_support | apply g_active_iff]. Qed.
Print Assumptions C02_gauss_support.

(* 6. window inside the line's cut-off range (line straddling / wider than the window): every bin is visited
   and the integral is R (Phi(max) - Phi(min)) -- the fraction of the normalised profile inside the window *)
Theorem C02_gauss_window_fraction :
  forall E sqrt2 R lam sig (g : grid), grid_ok g -> 0 < sig ->
  g_cl lam sig <= gmin g -> gmax g <= g_cu lam sig ->
  g_start g lam sig = 0%Z /\ g_end g lam sig = gbins g /\
  integral (gbin E sqrt2 R lam sig g) g ==
  R * (1 # 2) * (E (erfarg g lam (g_temp sqrt2 sig) (gbins g)) - E (erfarg g lam (g_temp sqrt2 sig) 0)) /\
  edge g 0 == gmin g /\ edge g (gbins g) == gmax g.
Proof.
  intros E sqrt2 R lam sig g Hg Hs Hl Hu. destruct (gauss_window_fraction E sqrt2 R lam sig g Hg Hs Hl Hu) as (A & B & C).
  repeat split; [exact A | exact B | exact C | apply edge_0 | now apply edge_bins].
Qed.
Print Assumptions C02_gauss_window_fraction.

(* 7. E monotone: every bin receives a non-negative amount; |E| <= 1: 0 <= integral <= R *)
Theorem C02_gauss_bounds :
  forall E sqrt2 R lam sig (g : grid), grid_ok g -> monotone E -> 0 < sqrt2 -> 0 <= R ->
  (forall i, 0 <= gbin E sqrt2 R lam sig g i) /\
  ((forall x, -1 <= E x <= 1) -> 0 <= integral (gbin E sqrt2 R lam sig g) g <= R).
Proof. exact gauss_bounds. Qed.
Print Assumptions C02_gauss_bounds.

(* 8. PARTIAL.  Window spanning the line: the integral is at least R (E(10/sqrt2) - E(-10/sqrt2)) / 2 (and at most R
   by 7).  Missing: the fact about erf that 1 - erf(10/sqrt 2) = 1.5e-23, i.e. that this is "the whole radiance". *)
Theorem C02_gauss_total_partial :
  forall E sqrt2 R lam sig (g : grid), grid_ok g -> monotone E -> 0 < sqrt2 -> 0 <= R -> 0 < sig ->
  gmin g <= g_cl lam sig -> g_cu lam sig <= gmax g ->
  R * (1 # 2) * (E (cutoff_sigma / sqrt2) - E (- (cutoff_sigma / sqrt2))) <= integral (gbin E sqrt2 R lam sig g) g.
Proof. exact gauss_total_partial. Qed.
Print Assumptions C02_gauss_total_partial.

(* 9. what is added is linear in the radiance (both routines); a zero radiance adds nothing *)
Theorem C02_line_linear :
  forall E sqrt2 I a b R1 R2 lam wd (g : grid) i,
  gbin E sqrt2 (a * R1 + b * R2) lam wd g i == a * gbin E sqrt2 R1 lam wd g i + b * gbin E sqrt2 R2 lam wd g i /\
  lbin I (a * R1 + b * R2) lam wd g i == a * lbin I R1 lam wd g i + b * lbin I R2 lam wd g i /\
  (forall cs, (forall c, In c cs -> c_rad c == 0) -> csbin E sqrt2 I g cs i == 0).
Proof. intros; repeat split; [apply gbin_linear | apply lbin_linear | intros; now apply zero_radiance_adds_nothing]. Qed.
Print Assumptions C02_line_linear.

(* 10. Zeeman weights: with sin^2 := 1 - cos^2 the pi and the two sigma components carry the whole radiance, for
   ZeemanTriplet and ParametrisedZeemanTriplet, for every field (also B = 0) and direction *)
Theorem C02_zeeman_weights :
  forall K sqrtQ powQ al be ga w m ts vel b R dir, Qle_bool ts 0 = false ->
  total_rad (zeeman_triplet K sqrtQ PolNo w m ts vel b R dir) == R /\
  total_rad (param_zeeman_triplet K sqrtQ powQ PolNo al be ga w m ts vel b R dir) == R.
Proof. intros; split; [now apply zeeman_triplet_total | now apply param_zeeman_total]. Qed.
Print Assumptions C02_zeeman_weights.

(* 11. pi + sigma = unpolarised, bin by bin, for the four polarised models, every field (also B = 0), every grid *)
Theorem C02_pi_plus_sigma_is_unpolarised :
  forall E sqrt2 I K sqrtQ powQ lnQ expQ s2f (g : grid) w m ts vel b R dir i,
  (csbin E sqrt2 I g (zeeman_triplet K sqrtQ PolNo w m ts vel b R dir) i ==
   csbin E sqrt2 I g (zeeman_triplet K sqrtQ PolPi w m ts vel b R dir) i
   + csbin E sqrt2 I g (zeeman_triplet K sqrtQ PolSigma w m ts vel b R dir) i) /\
  (forall al be ga,
   csbin E sqrt2 I g (param_zeeman_triplet K sqrtQ powQ PolNo al be ga w m ts vel b R dir) i ==
   csbin E sqrt2 I g (param_zeeman_triplet K sqrtQ powQ PolPi al be ga w m ts vel b R dir) i
   + csbin E sqrt2 I g (param_zeeman_triplet K sqrtQ powQ PolSigma al be ga w m ts vel b R dir) i) /\
  (forall rp rsp rsm,
   csbin E sqrt2 I g (zeeman_multiplet K sqrtQ PolNo rp rsp rsm w m ts vel b R dir) i ==
   csbin E sqrt2 I g (zeeman_multiplet K sqrtQ PolPi rp rsp rsm w m ts vel b R dir) i
   + csbin E sqrt2 I g (zeeman_multiplet K sqrtQ PolSigma rp rsp rsm w m ts vel b R dir) i) /\
  (forall cij aij bij ne te,
   csbin E sqrt2 I g (stark_line K sqrtQ powQ lnQ expQ s2f PolNo cij aij bij w m ne te ts vel b R dir) i ==
   csbin E sqrt2 I g (stark_line K sqrtQ powQ lnQ expQ s2f PolPi cij aij bij w m ne te ts vel b R dir) i
   + csbin E sqrt2 I g (stark_line K sqrtQ powQ lnQ expQ s2f PolSigma cij aij bij w m ne te ts vel b R dir) i).
Proof.
  intros; repeat split; intros;
    [apply zeeman_triplet_pi_sigma | apply param_zeeman_pi_sigma | apply zeeman_multiplet_pi_sigma | apply stark_pi_sigma].
Qed.
Print Assumptions C02_pi_plus_sigma_is_unpolarised.

(* 12. MultipletLineShape: component i carries R * ratio_i; together R * sum of the ratios (any number of components) *)
Theorem C02_multiplet_shares :
  forall K sqrtQ w m (mult : list (Q * Q)) ts vel R dir, Qle_bool ts 0 = false ->
  total_rad (multiplet_line K sqrtQ w m mult ts vel R dir) == R * Qsum (map snd mult) /\
  map c_rad (multiplet_line K sqrtQ w m mult ts vel R dir) = map (fun wr => R * snd wr) mult.
Proof. exact multiplet_shares. Qed.
Print Assumptions C02_multiplet_shares.

(* 13. ZeemanStructure.evaluate: ratios of positive sum are renormalised to sum 1 (wavelengths untouched), others are
   returned unchanged; then the ZeemanMultiplet components carry the whole radiance *)
Theorem C02_zeeman_structure_normalised :
  forall (raw : list (Q * Q)),
  (0 < Qsum (map snd raw) -> Qsum (map snd (zs_evaluate raw)) == 1 /\ map fst (zs_evaluate raw) = map fst raw) /\
  (~ 0 < Qsum (map snd raw) -> zs_evaluate raw = raw) /\
  (forall K sqrtQ rsp rsm w m ts vel b R dir, Qle_bool ts 0 = false ->
     0 < Qsum (map snd raw) -> 0 < Qsum (map snd rsp) -> 0 < Qsum (map snd rsm) ->
     total_rad (zeeman_multiplet K sqrtQ PolNo raw rsp rsm w m ts vel b R dir) == R).
Proof.
  intros raw. destruct (zeeman_structure_normalised raw) as [A B].
  repeat split; [apply A; assumption | apply A; assumption | exact B | intros; now apply zeeman_multiplet_total].
Qed.
Print Assumptions C02_zeeman_structure_normalised.

(* 14. BeamEmissionMultiplet: the nine components carry the whole radiance; the sigma group s/(1+s) R, the pi group R/(1+s) *)
Theorem C02_mse_weights :
  forall K sqrtQ w bm bt be s2p s1s0 p2p3 p4p3 ne te b R bd od,
  Qle_bool te 0 = false -> Qle_bool ne 0 = false ->
  ~ 1 + s2p == 0 -> ~ s1s0 + 1 == 0 -> ~ 1 + p2p3 + p4p3 == 0 ->
  let cs := mse_multiplet K sqrtQ w bm bt be s2p s1s0 p2p3 p4p3 ne te b R bd od in
  total_rad cs == R /\ total_rad (firstn 3 cs) == s2p / (1 + s2p) * R /\ total_rad (skipn 3 cs) == 1 / (1 + s2p) * R.
Proof. exact mse_weights. Qed.
Print Assumptions C02_mse_weights.

(* 15. StarkBroadenedLine: Lorentzian weight + Gaussian weight = 1 in all three branches, so the (up to six)
   components carry the whole radiance whenever the line has any width *)
Theorem C02_stark_weights :
  forall K sqrtQ powQ lnQ expQ s2f cij aij bij w m ne te ts vel b R dir,
  stark_widths K sqrtQ powQ lnQ expQ s2f cij aij bij w m ne te ts <> None ->
  total_rad (stark_line K sqrtQ powQ lnQ expQ s2f PolNo cij aij bij w m ne te ts vel b R dir) == R.
Proof. exact stark_total. Qed.
Print Assumptions C02_stark_weights.

(* 16. PARTIAL.  If the bin integrator is additive over adjacent intervals (an exact integral is) the Stark bins telescope
   to R * I(edge_start, edge_end).  Missing: that the profile integrates to 1 over +-50 FWHM (the hypergeometric
   constant STARK_NORM_COEFFICIENT) and that the code's Gauss-Legendre rule is additive to its tolerance -- it is not on
   coarse grids, see the known finding *)
Theorem C02_stark_integral_partial :
  forall I R lam w (g : grid), grid_ok g -> additive (I lam w) ->
  0 < w -> l_cl lam w <= gmax g -> gmin g <= l_cu lam w ->
  integral (lbin I R lam w g) g == R * I lam w (edge g (l_start g lam w)) (edge g (l_end g lam w)).
Proof. exact lorentz_integral. Qed.
Print Assumptions C02_stark_integral_partial.

(* 17. a line with no width adds nothing: the spectrum is returned unchanged (equal as lists) for species temperature
   <= 0 in six models, and for the Stark model when in addition there is no electron broadening *)
Theorem C02_zero_width_adds_nothing :
  forall E sqrt2 I K sqrtQ powQ lnQ expQ s2f (g : grid) (smp : list Q) w m ts vel b R dir,
  Qle_bool ts 0 = true ->
  add_comps E sqrt2 I g (gaussian_line K sqrtQ w m ts vel R dir) smp = smp /\
  (forall mult, add_comps E sqrt2 I g (multiplet_line K sqrtQ w m mult ts vel R dir) smp = smp) /\
  (forall p, add_comps E sqrt2 I g (zeeman_triplet K sqrtQ p w m ts vel b R dir) smp = smp) /\
  (forall p al be ga, add_comps E sqrt2 I g (param_zeeman_triplet K sqrtQ powQ p al be ga w m ts vel b R dir) smp = smp) /\
  (forall p rp rsp rsm, add_comps E sqrt2 I g (zeeman_multiplet K sqrtQ p rp rsp rsm w m ts vel b R dir) smp = smp) /\
  (forall p cij aij bij ne te, Qle_bool ne 0 = true \/ Qle_bool te 0 = true ->
     add_comps E sqrt2 I g (stark_line K sqrtQ powQ lnQ expQ s2f p cij aij bij w m ne te ts vel b R dir) smp = smp) /\
  (forall R' lam sig, Qle_bool sig 0 = true -> add_gaussian E sqrt2 R' lam sig g smp = smp).
Proof.
  intros; repeat split; intros;
    [now apply zero_width_gaussian | now apply zero_width_multiplet | now apply zero_width_zeeman_triplet
     | now apply zero_width_param_zeeman | now apply zero_width_zeeman_multiplet | now apply zero_width_stark
     | now apply zero_sigma_adds_nothing].
Qed.
Print Assumptions C02_zero_width_adds_nothing.

(* 18. GaussianQuadrature (the integrator of the Stark part): after construction and ANY history of calls of the
   min_order / max_order / relative_tolerance / integrand setters (rejected ones included), for every order o that
   evaluate() tries, the index ibegin it reads from is the index at which _build_cache stored the row of order o, and
   the row lies inside the allocated arrays (bounds checks are off in that loop) *)
Close Scope Q_scope.
Theorem C02_quadrature_cache_row :
  forall (mx mn : Z) (p : bool) (ops : list qop) (s0 : qstate), q_init mx mn p = Some s0 ->
  let s := fst (q_run s0 ops) in
  (1 <= q_min s <= q_max s)%Z /\
  forall o : Z, (q_min s <= o <= q_max s)%Z ->
    row_in_eval s o = row_in_cache s o /\ (0 <= row_in_eval s o)%Z /\ (row_in_eval s o + o <= cache_len s)%Z.
Proof. exact quadrature_rows. Qed.
Open Scope Q_scope.
Print Assumptions C02_quadrature_cache_row.

(* ======================= deepening round ======================= *)

(* 19. about the list the code returns: sum(samples) * delta after add_line = the same before + the integral of what the
   components add; for one Gaussian line the spectrum's integral grows by exactly R (Phi(edge_end) - Phi(edge_start)) *)
Theorem C02_samples_integral :
  forall E sqrt2 I (g : grid) (cs : list comp) (smp : list Q), length smp = Z.to_nat (gbins g) ->
  Qsum (add_comps E sqrt2 I g cs smp) * gdelta g == Qsum smp * gdelta g + integral (csbin E sqrt2 I g cs) g /\
  (forall R lam sig, grid_ok g -> g_active g lam sig = true ->
   Qsum (add_gaussian E sqrt2 R lam sig g smp) * gdelta g ==
   Qsum smp * gdelta g +
   R * (1 # 2) * (E (erfarg g lam (g_temp sqrt2 sig) (g_end g lam sig)) - E (erfarg g lam (g_temp sqrt2 sig) (g_start g lam sig)))).
Proof. intros; split; [now apply samples_integral | intros; now apply gaussian_samples_integral]. Qed.
Print Assumptions C02_samples_integral.

(* 20. the visited range is ordered and inside the spectrum: 0 <= start <= end <= bins (both routines) *)
Theorem C02_range_ordered :
  forall (g : grid), grid_ok g ->
  (forall lam sig, g_active g lam sig = true ->
     (0 <= g_start g lam sig <= g_end g lam sig)%Z /\ (g_end g lam sig <= gbins g)%Z) /\
  (forall lam w, 0 < w -> l_cl lam w <= gmax g -> gmin g <= l_cu lam w ->
     (0 <= l_start g lam w <= l_end g lam w)%Z /\ (l_end g lam w <= gbins g)%Z).
Proof. intros; split; intros; [now apply gauss_range_ordered | now apply lorentz_range_ordered]. Qed.
Print Assumptions C02_range_ordered.

(* 21. strengthens 8: window spanning the line, E odd, monotone, |E| <= 1: R (1 - eps) <= integral <= R for every eps with
   1 - eps <= E(10/sqrt2).  The analytic gap is now this ONE number (erf(10/sqrt 2) = 1 - 1.5e-23; libm returns 1.0,
   which the harness records on every run) *)
Theorem C02_gauss_whole_radiance :
  forall E sqrt2 R lam sig (g : grid) eps, grid_ok g -> monotone E -> (forall x, E (- x) == - E x) ->
  (forall x, -1 <= E x <= 1) -> 0 < sqrt2 -> 0 <= R -> 0 < sig ->
  1 - eps <= E (cutoff_sigma / sqrt2) ->
  gmin g <= g_cl lam sig -> g_cu lam sig <= gmax g ->
  R * (1 - eps) <= integral (gbin E sqrt2 R lam sig g) g <= R.
Proof. exact gauss_whole_radiance. Qed.
Print Assumptions C02_gauss_whole_radiance.

(* 22. PARTIAL, strengthens 16: window spanning +-50 FWHM, integrator additive and equal to 1 on [lam - 50 w, lam + 50 w]:
   the Stark integral is R (1 + the two pieces of the straddling bins beyond the cut-off), hence >= R for a non-negative
   integrand.  Remaining gap: the value 1 of that one interval (the hypergeometric constant STARK_NORM_COEFFICIENT) and the
   additivity of the code's Gauss-Legendre rule (false on coarse grids: known finding) *)
Theorem C02_stark_whole_radiance_partial :
  forall I R lam w (g : grid), grid_ok g -> additive (I lam w) ->
  I lam w (l_cl lam w) (l_cu lam w) == 1 ->
  0 < w -> gmin g <= l_cl lam w -> l_cu lam w <= gmax g ->
  integral (lbin I R lam w g) g ==
    R * (1 + I lam w (edge g (l_start g lam w)) (l_cl lam w) + I lam w (l_cu lam w) (edge g (l_end g lam w))) /\
  ((forall a b, a <= b -> 0 <= I lam w a b) -> 0 <= R -> R <= integral (lbin I R lam w g) g).
Proof. exact stark_whole_radiance. Qed.
Print Assumptions C02_stark_whole_radiance_partial.

(* 23. pi + sigma = unpolarised for the returned samples (not only for the per-bin specification), four models *)
Theorem C02_samples_pi_plus_sigma :
  forall E sqrt2 I K sqrtQ powQ lnQ expQ s2f (g : grid) (smp : list Q) w m ts vel b R dir (i : nat),
  length smp = Z.to_nat (gbins g) ->
  let D := fun cs => nth i (add_comps E sqrt2 I g cs smp) 0 - nth i smp 0 in
  D (zeeman_triplet K sqrtQ PolNo w m ts vel b R dir) ==
    D (zeeman_triplet K sqrtQ PolPi w m ts vel b R dir) + D (zeeman_triplet K sqrtQ PolSigma w m ts vel b R dir) /\
  (forall al be ga, D (param_zeeman_triplet K sqrtQ powQ PolNo al be ga w m ts vel b R dir) ==
    D (param_zeeman_triplet K sqrtQ powQ PolPi al be ga w m ts vel b R dir)
    + D (param_zeeman_triplet K sqrtQ powQ PolSigma al be ga w m ts vel b R dir)) /\
  (forall rp rsp rsm, D (zeeman_multiplet K sqrtQ PolNo rp rsp rsm w m ts vel b R dir) ==
    D (zeeman_multiplet K sqrtQ PolPi rp rsp rsm w m ts vel b R dir)
    + D (zeeman_multiplet K sqrtQ PolSigma rp rsp rsm w m ts vel b R dir)) /\
  (forall cij aij bij ne te, D (stark_line K sqrtQ powQ lnQ expQ s2f PolNo cij aij bij w m ne te ts vel b R dir) ==
    D (stark_line K sqrtQ powQ lnQ expQ s2f PolPi cij aij bij w m ne te ts vel b R dir)
    + D (stark_line K sqrtQ powQ lnQ expQ s2f PolSigma cij aij bij w m ne te ts vel b R dir)).
Proof.
  intros; repeat split; intros; apply samples_pi_plus_sigma; try assumption; intros;
    [apply zeeman_triplet_pi_sigma | apply param_zeeman_pi_sigma | apply zeeman_multiplet_pi_sigma | apply stark_pi_sigma].
Qed.
Print Assumptions C02_samples_pi_plus_sigma.

(* 24. order and multiplicity (so far only in the search): components handed over in any order, or one component given as
   two halves, add the same to every bin and give the same samples *)
Theorem C02_component_order_irrelevant :
  forall E sqrt2 I (g : grid) (cs cs' : list comp), Permutation cs cs' ->
  (forall i, csbin E sqrt2 I g cs i == csbin E sqrt2 I g cs' i) /\
  (forall smp i, length smp = Z.to_nat (gbins g) ->
     nth i (add_comps E sqrt2 I g cs smp) 0 == nth i (add_comps E sqrt2 I g cs' smp) 0) /\
  (forall R lam sig i, csbin E sqrt2 I g (GaussC R lam sig :: cs) i ==
     csbin E sqrt2 I g (GaussC ((1 # 2) * R) lam sig :: GaussC ((1 # 2) * R) lam sig :: cs) i).
Proof. intros; repeat split; intros; [now apply csbin_permutation | now apply samples_permutation | apply csbin_split]. Qed.
Print Assumptions C02_component_order_irrelevant.

(* 25. the polarisation setter keeps no history: after any sequence of calls (rejected ones included) ending with an
   accepted value the state is that value, whatever came before; re-assigning the getter's value changes nothing *)
Theorem C02_polarisation_setter_history :
  forall (st st' : pol) (vs vs' : list String.string) (v : String.string) (p : pol), pol_of_string v = Some p ->
  fst (pol_run st (vs ++ [v])) = p /\ fst (pol_run st (vs ++ [v])) = fst (pol_run st' (vs' ++ [v]))
  /\ pol_set p (pol_get p) = (p, false).
Proof. exact pol_history_independent. Qed.
Print Assumptions C02_polarisation_setter_history.

(* 26. arguments accepted by the constructors satisfy what the weight theorems assume *)
Theorem C02_validation_sound :
  (forall a b, param_zeeman_valid a b = true -> 0 < a /\ 0 <= b) /\
  (forall c a b, stark_coeff_valid c a b = true -> 0 < c /\ 0 < a /\ 0 < b) /\
  (forall w f, stark_function_valid w f = true -> 0 < w /\ 0 < f) /\
  (forall rs, multiplet_valid rs = true -> Qsum rs == 1).
Proof. exact validation_sound. Qed.
Print Assumptions C02_validation_sound.

(* Theorems 27-29 (the analytic numbers over R: C02_erf_truncation_constant_R, C02_gauss_whole_radiance_R,
   C02_stark_normalisation_constant_R) are in Properties/C02_R.v: they depend on Coquelicot and Interval, and keeping them
   apart lets the independent checker (coqchk, thorough tier) re-check this file in minutes. *)

(* non-vacuity: a grid, a line and weights satisfying the hypotheses used above *)
Definition witness_grid : grid := {| gmin := 650; gmax := 660; gbins := 20; gdelta := 1 # 2 |}.
Example C02_nonvacuous :
  grid_ok witness_grid /\ g_active witness_grid 656 (1 # 10) = true /\
  (g_start witness_grid 656 (1 # 10) = 10 /\ g_end witness_grid 656 (1 # 10) = 14)%Z /\
  monotone (fun x => x) /\ additive (fun a b => b - a) /\
  0 < Qsum (map snd [(656, 1 # 2); (657, 3 # 2)]) /\ ~ 1 + (1 # 2) == 0.
Proof.
  split. { unfold grid_ok; cbn; repeat split; first [reflexivity | discriminate]. }
  split. { vm_compute; reflexivity. }
  split. { split; vm_compute; reflexivity. }
  split. { intros x y H; exact H. }
  split. { intros a b c; ring. }
  split. { vm_compute; reflexivity. }
  vm_compute; congruence.
Qed.
