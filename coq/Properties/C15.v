(* Property C15 -- Observer groups broadcast settings faithfully and keep members consistent.
   This file contains nothing but the property theorems, each closed by [exact] of a lemma from
   Proofs/, with Print Assumptions beneath.

   Reading guide.  A group-level attribute is a descriptor [d] (Model/C15_Groups.v); [wf_descr d]
   says that the property object is bound under its own name, that its setter is attached to the
   same property and that getter, zip loop and broadcast loop use the member attribute belonging to
   that name.  The descriptors of the source tree are regenerated on every run and
   [all_wf extracted = true] is re-checked by the kernel (coq/Gen/C15/Tie_wf.v).
   [scalar_case d v]: the group-level guard of [d] takes [v] as one value for every member;
   [seq_view d v = Some vs]: it takes [v] as a sequence [vs] of per-member values;
   [seq_case]: ... whose elements also pass the element guard (only render_engine has one). *)
Require Import Cherab.Common.Qx.
From Coq Require Import String.
Require Import Cherab.Model.C15_Groups Cherab.Model.C15_Table.
Require Import Cherab.Proofs.C15_Setters Cherab.Proofs.C15_Members Cherab.Proofs.C15_Slices Cherab.Proofs.C15_Slits Cherab.Proofs.C15_Shared.
Open Scope string_scope.
Open Scope list_scope.
Open Scope Z_scope.

(* assigning a single value gives each member observer that value (any group size, any value),
   and nothing else about any member changes *)
Theorem C15_scalar_broadcasts :
  forall d v g, wf_descr d = true -> scalar_case d v = true ->
  exists g', set_sem d v g = (g', Done)
          /\ get_sem d g' = map (fun _ => v) g
          /\ Forall2 (same_except (member_attr (d_name d))) g g'.
Proof. exact scalar_broadcasts. Qed.
Print Assumptions C15_scalar_broadcasts.

(* assigning a sequence of group length assigns element-wise *)
Theorem C15_sequence_zips :
  forall d v vs g, wf_descr d = true -> seq_case d v = Some vs -> List.length vs = List.length g ->
  exists g', set_sem d v g = (g', Done)
          /\ get_sem d g' = vs
          /\ Forall2 (same_except (member_attr (d_name d))) g g'.
Proof. exact sequence_zips. Qed.
Print Assumptions C15_sequence_zips.

(* a sequence of any other length raises ValueError and changes nothing: the returned state IS g *)
Theorem C15_wrong_length_raises_and_changes_nothing :
  forall d v vs g, seq_view d v = Some vs -> List.length vs <> List.length g ->
  set_sem d v g = (g, Raised EValue).
Proof. exact wrong_length_raises. Qed.
Print Assumptions C15_wrong_length_raises_and_changes_nothing.

(* reading the attribute returns the members' current values in member order *)
Theorem C15_get_returns_members_in_order :
  forall d g, wf_descr d = true ->
  get_sem d g = map (mget (member_attr (d_name d))) g
  /\ List.length (get_sem d g) = List.length g
  /\ forall i m, nth_error g i = Some m -> nth_error (get_sem d g) i = Some (mget (member_attr (d_name d)) m).
Proof. exact get_in_order. Qed.
Print Assumptions C15_get_returns_members_in_order.

(* whatever the value and whatever the outcome (also an error raised half way through a list of
   render engines), an assignment touches no other attribute, no identity / type / parent / observe
   count, and not the number or order of the members *)
Theorem C15_assignment_touches_nothing_else :
  forall d v g, wf_descr d = true ->
  Forall2 (same_except (member_attr (d_name d))) g (fst (set_sem d v g)).
Proof. exact set_sem_frame. Qed.
Print Assumptions C15_assignment_touches_nothing_else.

(* a member observer may refuse its value half way through the loop (raysect's validation); also
   then nothing but that attribute of the members before it is touched, and the group's own length
   check still comes first *)
Theorem C15_member_refusal_touches_nothing_else :
  forall d v k e g, wf_descr d = true ->
  Forall2 (same_except (member_attr (d_name d))) g (fst (set_sem_rej d v k e g))
  /\ ((forall ks tag, d_shape d <> TypedBroadcast ks tag) ->
      forall vs, seq_view d v = Some vs -> List.length vs <> List.length g ->
      set_sem_rej d v k e g = (g, Raised EValue)).
Proof.
  intros d v k e g W; split; [now apply set_sem_rej_frame | intros NT vs; apply set_sem_rej_wrong_length; [apply (wf_attrs d W) | exact NT]].
Qed.
Print Assumptions C15_member_refusal_touches_nothing_else.

(* a value written on a member directly (not through the group) is what the group reads next *)
Theorem C15_direct_member_change_is_read_back :
  forall c e g d id v, wf_descr d = true ->
  get_sem d (fst (step c e g (ODirect id (member_attr (d_name d)) v)))
  = map (fun m => if mid m =? id then v else mget (member_attr (d_name d)) m) g.
Proof. exact direct_then_read. Qed.
Print Assumptions C15_direct_member_change_is_read_back.

(* every table that passes the boolean test satisfies the four claims at every broadcast attribute;
   Gen/C15/Tie_wf.v establishes the hypothesis for the table regenerated from the source *)
Theorem C15_table_entries_satisfy_the_property :
  forall tbl : list descr, forallb wf_entry tbl = true ->
  forall d, In d tbl -> is_members d = false -> satisfies_property d.
Proof. exact table_satisfies. Qed.
Print Assumptions C15_table_entries_satisfy_the_property.

(* the hand-written tables of the nine classes (the ones the correspondence runs with) pass it *)
Theorem C15_canonical_tables_well_formed :
  forall c d, In c canonical -> In d (c_table c) -> is_members d = false -> satisfies_property d.
Proof. exact canonical_satisfies. Qed.
Print Assumptions C15_canonical_tables_well_formed.

(* an observer of the group's type is appended after the existing members, its parent is the group *)
Theorem C15_add_keeps_order_and_parent :
  forall c e g id ty st, zlookup id (e_pool e) = Some (ty, st) -> accepts c ty = true ->
  step c e g (OAdd id) = (g ++ [{| mid := id; mtype := ty; mparent := gid; mobs := 0; mstore := st |}], ROk).
Proof. exact add_accepted. Qed.
Print Assumptions C15_add_keeps_order_and_parent.

(* only observers of the group's type are accepted: anything else is refused and changes nothing,
   through add_observer as well as through assignment of the member list *)
Theorem C15_type_guard :
  forall c e g,
  (forall id ty st, zlookup id (e_pool e) = Some (ty, st) -> accepts c ty = false ->
     step c e g (OAdd id) = (g, RErr (add_err c)))
  /\ (forall k ids, all_accepted c e ids = false -> exists x, step c e g (OSetMembers k ids) = (g, RErr x)).
Proof. intros c e g; split; [apply add_rejected | apply setmembers_rejected]. Qed.
Print Assumptions C15_type_guard.

(* retrieval by index, Python semantics, every class *)
Theorem C15_index_lookup :
  forall c g i, let n := Z.of_nat (List.length g) in
     (0 <= i < n -> exists m, nth_error g (Z.to_nat i) = Some m /\ getitem c (KInt i) g = RMem (mid m))
  /\ (- n <= i < 0 -> exists m, nth_error g (Z.to_nat (n + i)) = Some m /\ getitem c (KInt i) g = RMem (mid m))
  /\ (i < - n \/ n <= i -> getitem c (KInt i) g = RErr EIndex).
Proof. exact index_lookup. Qed.
Print Assumptions C15_index_lookup.

(* retrieval by slice, every class, EVERY step (replaces the former C15_slice_lookup_partial, which
   covered step 1 only; its two clauses are clauses 1 and 2 here, unchanged).
   1-2: a plain slice [lo:hi] is a contiguous run of members in member order; for bounds inside the
        group it is exactly the members lo .. hi-1.
   3:   step 0 raises ValueError.
   4:   for any other step the answer is the members at slice(lo,hi,step).indices(n), one each, in that
        order: every index is inside the group, the indices are start, start+step, ... (by definition of
        slice_indices), and no index of range(start, stop, step) is missed.
   5:   step 1 written explicitly is the plain slice. *)
Theorem C15_slice_lookup :
  forall c g,
  (forall lo hi, getitem c (KSlice lo hi) g = RMems (map mid (slice_of g lo hi))
                 /\ exists pre post, g = pre ++ slice_of g lo hi ++ post)
  /\ (forall lo hi, 0 <= lo -> lo <= hi -> hi <= Z.of_nat (List.length g) ->
        Z.of_nat (List.length (slice_of g (Some lo) (Some hi))) = hi - lo
        /\ forall j, lo <= j < hi ->
             nth_error (slice_of g (Some lo) (Some hi)) (Z.to_nat (j - lo)) = nth_error g (Z.to_nat j))
  /\ (forall lo hi, getitem c (KSliceStep lo hi 0) g = RErr EValue)
  /\ (forall lo hi step, step <> 0 ->
        let n := Z.of_nat (List.length g) in
        let idx := slice_indices n lo hi step in
        getitem c (KSliceStep lo hi step) g = RMems (map mid (slice_step g lo hi step))
        /\ Forall (fun i => 0 <= i < n) idx
        /\ map Some (slice_step g lo hi step) = map (fun i => nth_error g (Z.to_nat i)) idx
        /\ (forall i, (let (a, b) := slice_start_stop n lo hi step in
                       if 0 <? step then a <= i < b /\ (i - a) mod step = 0
                       else b < i <= a /\ (a - i) mod (- step) = 0) -> In i idx))
  /\ (forall lo hi, slice_step g lo hi 1 = slice_of g lo hi).
Proof. exact slice_lookup_full. Qed.
Print Assumptions C15_slice_lookup.

(* retrieval by unique name (every class); an absent name raises ValueError; in the Observer0DGroup
   family a name carried by two members raises ValueError as well *)
Theorem C15_unique_name_lookup :
  forall c s,
  (forall pre m post, name_is s m = true -> none_named s pre -> none_named s post ->
     getitem c (KStr s) (pre ++ m :: post) = RMem (mid m))
  /\ (forall g, none_named s g -> getitem c (KStr s) g = RErr EValue)
  /\ (c_flavour c = FObserver0D -> forall pre m1 mid' m2 post, name_is s m1 = true -> name_is s m2 = true ->
     getitem c (KStr s) (pre ++ m1 :: mid' ++ m2 :: post) = RErr EValue).
Proof.
  intros c s; repeat split; intros; [now apply unique_name_lookup | now apply absent_name_lookup | now apply duplicate_name_lookup].
Qed.
Print Assumptions C15_unique_name_lookup.

(* list(group): the iteration protocol (for the Observer0DGroup family a loop over __getitem__(0),
   __getitem__(1), ... ended by IndexError; BolometerCamera.__iter__) yields every member once, in order *)
Theorem C15_iteration_yields_members :
  forall c g, iterate c g = RMems (map mid g).
Proof. exact iterate_members. Qed.
Print Assumptions C15_iteration_yields_members.

(* observers given to the constructor (a loop of add_observer) become members in the order given *)
Theorem C15_constructor_adds_in_order :
  forall c e ids g, Forall (addable c e) ids ->
  exists ms, exec c e g (map OAdd ids) = g ++ ms /\ map mid ms = ids
             /\ Forall (fun m => mparent m = gid /\ mobs m = 0 /\ accepts c (mtype m) = true) ms.
Proof. exact construct_adds_in_order. Qed.
Print Assumptions C15_constructor_adds_in_order.

(* assigning the member list (observers / sight_lines / foil_detectors): the members become exactly the
   list given, in its order; a former member keeps its values and observe count, a new one starts fresh,
   all have the group as parent; a container of the wrong kind is a TypeError and changes nothing *)
Theorem C15_member_list_assignment :
  forall c e g k ids,
  (forall g', seq_kind_ok c k = true -> all_accepted c e ids = true -> members_for e g ids = Some g' ->
     step c e g (OSetMembers k ids) = (g', ROk) /\ map mid g' = ids /\ Forall (kept_or_fresh e g) g')
  /\ (seq_kind_ok c k = false -> step c e g (OSetMembers k ids) = (g, RErr EType)).
Proof. intros c e g k ids; split; [intro g'; apply setmembers_accepted | apply setmembers_bad_kind]. Qed.
Print Assumptions C15_member_list_assignment.

(* reading any broadcast attribute of any of the nine classes in ANY state (hence after any history of
   operations): the members' current values of the member attribute of that name, in member order *)
Theorem C15_read_in_any_state :
  forall c e g a d, In c canonical -> find_descr c a = Some d -> is_members d = false ->
  step c e g (OGet a) = (g, RVals (map (mget (member_attr a)) g)).
Proof. exact read_in_any_state. Qed.
Print Assumptions C15_read_in_any_state.

(* BolometerCamera's slit list: one operation keeps "no slit twice, every member's slit is listed" and
   only appends at the end (add_foil_detector, every step of the foil_detectors setter's loop -- also the
   steps done before the loop raises) *)
Theorem C15_slits_step_invariant :
  forall c e g sl o, c_flavour c = FBolometer -> slits_ok e g sl ->
  slits_ok e (fst (step c e g o)) (slits_step c e sl o) /\ extends sl (slits_step c e sl o).
Proof. exact slits_step_ok. Qed.
Print Assumptions C15_slits_step_invariant.

(* ... hence after EVERY history on an initially empty camera: the slit list holds no slit twice and holds
   the slit of every current member; and from any state on it only grows at its end, so slits stay in
   order of first appearance *)
Theorem C15_slits_history_invariant :
  forall c e, c_flavour c = FBolometer ->
  (forall ops, slits_ok e (exec c e [] ops) (slits_exec c e [] ops))
  /\ (forall ops g sl, slits_ok e g sl -> extends sl (slits_exec c e sl ops)).
Proof. intros c e F; split; [intro ops; now apply slits_history_from_empty | intros ops g sl Ok; now apply (slits_history c e F ops g sl Ok)]. Qed.
Print Assumptions C15_slits_history_invariant.

(* connect_pipelines (base signature), identity-free: whenever the call succeeds every member has its own
   row of new pipeline objects of exactly the requested classes, no object is shared between or within
   members, none existed before the call; the members' pipelines attribute is that row and nothing else
   about any member changes *)
Theorem C15_connect_pipelines_fresh_and_unshared :
  forall c e cl nk w obs g g', step c e g (OConnect cl nk w obs) = (g', ROk) ->
  List.length obs = List.length g
  /\ Forall (fun row => map fst row = cl) obs
  /\ NoDup (map snd (List.concat obs))
  /\ Forall (fun p => w < snd p) (List.concat obs)
  /\ map (mget "pipelines") g' = map pipelines_value obs
  /\ Forall2 (same_except "pipelines") g g'.
Proof. exact connect_spec. Qed.
Print Assumptions C15_connect_pipelines_fresh_and_unshared.

(* one observer named twice (added again, or listed twice in a member list): the sharing semantics
   [step_shared] that the correspondence runs is the plain model on every history of distinct observers,
   so every theorem above about [step] / [run] / [exec] speaks about what is compared *)
Theorem C15_shared_semantics_refines_model :
  forall c e,
  (forall g o, NoDup (map mid g) -> op_fresh g o = true -> step_shared c e g o = step c e g o)
  /\ (forall ops g, NoDup (map mid g) -> hist_fresh c e g ops = true -> run_shared c e g ops = run c e g ops).
Proof. intros c e; split; [intros; now apply step_shared_refines | intros; now apply run_shared_refines]. Qed.
Print Assumptions C15_shared_semantics_refines_model.

(* ... and with repeats: after every shared step two slots holding the same observer hold one and the same
   state, membership (slots and their order) is what the plain step gives, and observing calls observe
   once per slot in slot order, so an observer held by k slots is observed k times *)
Theorem C15_observer_named_twice :
  forall c e g,
  (forall a b, In a (share g) -> In b (share g) -> mid a = mid b -> a = b)
  /\ map mid (share g) = map mid g
  /\ snd (step_shared c e g OObserve) = RObs (map mid g)
  /\ Forall2 (fun m m' => mobs m' = mobs m + count_id g (mid m) /\ mid m' = mid m /\ mstore m' = mstore m
                          /\ mparent m' = mparent m /\ mtype m' = mtype m) g (fst (step_shared c e g OObserve)).
Proof. intros c e g; split; [apply share_consistent | split; [apply share_ids | apply observe_shared]]. Qed.
Print Assumptions C15_observer_named_twice.

(* after ANY history of add / member-list assignment / attribute assignment (rename = assignment of
   names) / read / lookup / observe operations on an initially empty group, every member's
   scene-graph parent is the group and every member is an observer of the group's type *)
Theorem C15_history_invariant :
  forall c e ops, Forall (member_ok c) (exec c e [] ops).
Proof. intros c e ops; apply history_invariant; constructor. Qed.
Print Assumptions C15_history_invariant.

(* attribute assignment (also a failing one), renaming, reading, lookup and observing never change
   which observers are members nor their order *)
Theorem C15_membership_changes_only_by_add_or_member_list :
  forall c e g o, changes_membership o = false -> map mid (fst (step c e g o)) = map mid g.
Proof. exact membership_stable. Qed.
Print Assumptions C15_membership_changes_only_by_add_or_member_list.

(* observing the group observes every member once, in member order, and changes nothing else *)
Theorem C15_observe_once :
  forall c e g,
  snd (step c e g OObserve) = RObs (map mid g)
  /\ Forall2 observed_once g (fst (step c e g OObserve))
  /\ (NoDup (map mid g) -> forall m, In m g -> count_occ Z.eq_dec (map mid g) (mid m) = 1%nat).
Proof. exact observe_once. Qed.
Print Assumptions C15_observe_once.

(* in every history that adds only objects that are not members yet and assigns member lists without
   repeats, the members stay pairwise distinct -- so observing such a group observes every member
   exactly once (the third clause of C15_observe_once applies to every reachable state) *)
Theorem C15_observe_each_member_exactly_once_in_histories :
  forall c e ops, hist_fresh c e [] ops = true ->
  let g := exec c e [] ops in
  NoDup (map mid g)
  /\ snd (step c e g OObserve) = RObs (map mid g)
  /\ forall m, In m g -> count_occ Z.eq_dec (map mid g) (mid m) = 1%nat.
Proof. exact observe_once_in_histories. Qed.
Print Assumptions C15_observe_each_member_exactly_once_in_histories.

(* non-vacuity: a well-formed descriptor of each kind, a value of each case, a class, a history *)
Example C15_nonvacuous :
  wf_descr (mk "radius" (Broadcast LTA)) = true
  /\ scalar_case (mk "radius" (Broadcast LTA)) (VQ (1#2)) = true
  /\ seq_case (mk "render_engine" (TypedBroadcast LT tag_engine)) (VSeq KList [VObj 1 7; VObj 1 8]) = Some [VObj 1 7; VObj 1 8]
  /\ seq_view (mk "names" (SeqOnly LT)) (VSeq KTuple [VS "a"]) = Some [VS "a"]
  /\ In cls_TargettedPixelGroup canonical /\ c_flavour cls_SightLineGroup = FObserver0D
  /\ accepts cls_SightLineGroup ty_SpectroscopicSightLine = true
  /\ List.length (exec cls_SightLineGroup {| e_pool := [(1, (1, [("name", VS "a")])); (2, (3, []))] |} []
                    [OAdd 1; OAdd 2; OAssign "sensitivity" (VQ 2); OObserve]) = 1%nat.
Proof. vm_compute. repeat split; auto 10. Qed.
