(* Property C12 -- Equilibrium maps flux functions onto flux surfaces with an orthonormal basis.
   Nothing but the property theorems, each closed by a lemma of Proofs/, with Print Assumptions.
   [env] holds the functions the model does not contain (interpolated psi and d psi, polygon mask,
   f profile, sqrt, cos/sin of the toroidal angle, slerp); every theorem holds for ALL of them, all
   points, all profiles, all outside values and either sign of psi_lcfs - psi_axis. *)
Require Import Cherab.Common.Qx.
From Coq Require Import Reals.
Require Import Cherab.Model.C07_Cubic.
Require Import Cherab.Model.C12_Equilibrium Cherab.Model.C12_Gradient Cherab.Model.C12_Interp Cherab.Model.C12_Profile
               Cherab.Model.C12_Polygon Cherab.Model.C12_Real Cherab.Model.C12_Source Cherab.Model.C12_Cubic.
Require Import Cherab.Proofs.C12_Equilibrium Cherab.Proofs.C12_Axisymmetry Cherab.Proofs.C12_Gradient Cherab.Proofs.C12_Interp
               Cherab.Proofs.C12_More Cherab.Proofs.C12_Policy Cherab.Proofs.C12_Real Cherab.Proofs.C12_Source
               Cherab.Proofs.C12_Bridge Cherab.Proofs.C12_Cubic.
From Coq Require Import Qreals.
Open Scope Q_scope.

(* normalised flux is never negative *)
Theorem C12_psin_nonneg : forall E r z, 0 <= psi_n E r z.
Proof. exact psin_nonneg. Qed.
Print Assumptions C12_psin_nonneg.

(* it is the clamped normalised flux: 0 on the axis value, 1 on the LCFS value, strictly growing with
   (psi - psi_axis) * sign(psi_lcfs - psi_axis), and unchanged when psi, psi_axis, psi_lcfs all change sign.
   Partial: the code normalises the grid and interpolates it, the model normalises the interpolated
   psi.  C12_psin_code_order below proves the two equal for every interpolant that is a weighted sum of
   node values with weights summing to one; what remains unproved is only that raysect's cubic scheme is
   such a weighted sum (its weights are extracted by impulse grids on every run and checked inside Coq). *)
Theorem C12_psin_is_normalised_flux_partial :
  forall E r z,
  ((psin_raw E r z < 0 -> psi_n E r z = 0) /\ (0 <= psin_raw E r z -> psi_n E r z = psin_raw E r z)) /\
  (~ e_psi_lcfs E == e_psi_axis E ->
     (e_psi E r z == e_psi_axis E -> psi_n E r z == 0) /\ (e_psi E r z == e_psi_lcfs E -> psi_n E r z == 1) /\
     (forall r' z', 0 < (e_psi_lcfs E - e_psi_axis E) * (e_psi E r' z' - e_psi E r z) -> psin_raw E r z < psin_raw E r' z') /\
     psi_n (flip_sign E) r z == psi_n E r z /\ inside_b (flip_sign E) r z = inside_b E r z).
Proof.
  intros E r z. split; [apply psin_spec|]. intros Hd.
  destruct (psin_axis_lcfs E r z Hd) as [A B].
  repeat split; [exact A | exact B | intros; apply psin_raw_monotone; assumption
                 | apply psin_flip_sign; exact Hd | apply inside_flip_sign; exact Hd].
Qed.
Print Assumptions C12_psin_is_normalised_flux_partial.

(* mapped 2-D function: profile(psi_n) inside the LCFS (inside the polygon and psi_n <= 1), the outside value elsewhere *)
Theorem C12_map2d_spec :
  forall E (profile : Q -> Q) outside r z,
  (inside_b E r z = true <-> (0 < e_poly E r z /\ psi_n E r z <= 1)) /\
  (inside_b E r z = true -> map2d E profile outside r z = profile (psi_n E r z)) /\
  (inside_b E r z = false -> map2d E profile outside r z = outside).
Proof. intros. split; [apply inside_b_iff | apply map2d_spec]. Qed.
Print Assumptions C12_map2d_spec.

(* mapped 3-D function: the 2-D one at (sqrt(x^2+y^2), z); it depends on x, y only through x^2+y^2, and
   (for functions that respect equality of rationals) it is unchanged by any rotation of the point about z *)
Theorem C12_map3d_axisymmetric :
  forall E (profile : Q -> Q) outside,
  (forall x y z, map3d E profile outside x y z = map2d E profile outside (e_sqrt E (x * x + y * y)) z) /\
  (exists F : Q -> Q -> Q, forall x y z, map3d E profile outside x y z = F (x * x + y * y) z) /\
  (env_proper E -> fun_proper profile -> forall c s x y z, c * c + s * s == 1 ->
     map3d E profile outside (c * x - s * y) (s * x + c * y) z == map3d E profile outside x y z).
Proof.
  intros. split; [intros; apply map3d_is_map2d|]. split; [apply map3d_axisymmetric|].
  intros; apply map3d_rotation_invariant; assumption.
Qed.
Print Assumptions C12_map3d_axisymmetric.

(* the three basis vectors are pairwise orthogonal and the field has no component along the normal:
   exact, whatever sqrt returns, at every point (also where the in-plane field vanishes); the
   un-normalised normal is poloidal x toroidal; the vectors never raise *)
Theorem C12_basis_orthogonal :
  forall E r z,
  (exists p n, poloidal_vector E r z = Some p /\ surface_normal E r z = Some n) /\
  (forall p n, poloidal_vector E r z = Some p -> surface_normal E r z = Some n ->
     dot p (toroidal_vector r z) == 0 /\ dot n (toroidal_vector r z) == 0 /\ dot p n == 0 /\
     dot (b_field E r z) n == 0 /\
     (e_sqrt E (pol_arg (b_field E r z)) == e_sqrt E (nor_arg (b_field E r z)) -> veq n (cross p (toroidal_vector r z)))) /\
  veq (nor_raw (b_field E r z)) (cross (pol_raw (b_field E r z)) (toroidal_vector r z)) /\
  pol_arg (b_field E r z) == nor_arg (b_field E r z).
Proof.
  intros E r z. split; [apply basis_never_raises|]. split.
  - intros p n Hp Hn. destruct (basis_orthogonal E r z p n Hp Hn) as (A & B & C & D).
    split; [exact A|]. split; [exact B|]. split; [exact C|]. split; [exact D|].
    intros Hs. apply (normal_is_pol_cross_tor E r z p n Hs Hp Hn).
  - split; [apply normal_raw_is_cross | apply args_equal].
Qed.
Print Assumptions C12_basis_orthogonal.

(* unit length, and poloidal vector = positive multiple of the in-plane field.  Partial: stated for the
   points where sqrt is exact on the rational b_r^2 + b_z^2 (it has a rational root), and, for every
   point, with a sqrt of relative accuracy e: |p|^2 within [1/(1+e), 1/(1-e)] *)
Theorem C12_basis_unit_partial :
  forall E r z, inplane_zero (b_field E r z) = false ->
  (sqrt_exact_at E (pol_arg (b_field E r z)) -> sqrt_exact_at E (nor_arg (b_field E r z)) ->
     exists p n, poloidal_vector E r z = Some p /\ surface_normal E r z = Some n /\
                 dot p p == 1 /\ dot n n == 1 /\ dot (toroidal_vector r z) (toroidal_vector r z) == 1) /\
  (0 < e_sqrt E (pol_arg (b_field E r z)) ->
     exists k, 0 < k /\ poloidal_vector E r z = Some (vscale_r (pol_raw (b_field E r z)) k)) /\
  (forall e, sqrt_approx_at E e (pol_arg (b_field E r z)) ->
     exists p, poloidal_vector E r z = Some p /\ (1 - e) * dot p p <= 1 /\ 1 <= (1 + e) * dot p p).
Proof.
  intros E r z H. split; [apply basis_unit; exact H|]. split; [apply poloidal_along_field; exact H|].
  intros e. apply basis_unit_approx; exact H.
Qed.
Print Assumptions C12_basis_unit_partial.

(* the field is grad(psi) x grad(phi): tangent to the flux surface; the normal is along -grad(psi) *)
Theorem C12_field_in_flux_surface :
  forall E r z, ~ r == 0 ->
  dot (b_field E r z) (V (e_dpsidr E r z) 0 (e_dpsidz E r z)) == 0 /\
  veq (nor_raw (b_field E r z)) (vscale (- (1 / r)) (V (e_dpsidr E r z) 0 (e_dpsidz E r z))).
Proof. exact field_tangent_to_flux_surface. Qed.
Print Assumptions C12_field_in_flux_surface.

(* mapped velocity in the plane: outside value outside; inside, (for any non-zero sqrt values) components
   vt, vp * a/s^2, vn * a/s^2 in the basis, i.e. exactly vt, vp, vn where sqrt is exact; where the
   in-plane field vanishes only the toroidal component is kept; never raises.
   Partial: "exactly the prescribed components" is proved where sqrt is exact on b_r^2 + b_z^2 (rational
   root); elsewhere the statement is the identity with the factor a/s^2. *)
Theorem C12_vector2d_components_partial :
  forall E (vt vp vn : Q -> Q) outside r z,
  (inside_b E r z = false -> map_vector2d E vt vp vn outside r z = Some outside) /\
  (inside_b E r z = true -> map_vector2d E vt vp vn outside r z = flux_to_cart E vt vp vn r z) /\
  (exists v, map_vector2d E vt vp vn outside r z = Some v) /\
  (inplane_zero (b_field E r z) = true ->
     flux_to_cart E vt vp vn r z = Some (V (0 + 0) (vt (psi_n E r z)) (0 + 0))) /\
  (inplane_zero (b_field E r z) = false ->
     sqrt_exact_at E (pol_arg (b_field E r z)) -> sqrt_exact_at E (nor_arg (b_field E r z)) ->
     exists v ph nh,
       flux_to_cart E vt vp vn r z = Some v /\ poloidal_vector E r z = Some ph /\ surface_normal E r z = Some nh /\
       dot v (toroidal_vector r z) == vt (psi_n E r z) /\ dot v ph == vp (psi_n E r z) /\ dot v nh == vn (psi_n E r z)) /\
  (forall v ph nh, inplane_zero (b_field E r z) = false ->
     ~ e_sqrt E (pol_arg (b_field E r z)) == 0 -> ~ e_sqrt E (nor_arg (b_field E r z)) == 0 ->
     flux_to_cart E vt vp vn r z = Some v -> poloidal_vector E r z = Some ph -> surface_normal E r z = Some nh ->
     dot v (toroidal_vector r z) == vt (psi_n E r z) /\
     dot v ph * (e_sqrt E (pol_arg (b_field E r z)) * e_sqrt E (pol_arg (b_field E r z))) == vp (psi_n E r z) * pol_arg (b_field E r z) /\
     dot v nh * (e_sqrt E (nor_arg (b_field E r z)) * e_sqrt E (nor_arg (b_field E r z))) == vn (psi_n E r z) * nor_arg (b_field E r z)).
Proof.
  intros E vt vp vn outside r z.
  split; [apply map_vector2d_spec|]. split; [apply map_vector2d_spec|].
  split; [apply map_vector2d_never_raises|]. split; [apply flux_to_cart_zero_field|].
  split; [apply vector_components|]. intros v ph nh. apply vector_components_general.
Qed.
Print Assumptions C12_vector2d_components_partial.

(* 3-D: the 2-D vector at (sqrt(x^2+y^2), z) rotated about z by the matrix built from (c, s); the
   rotation preserves dot products when c^2+s^2 = 1, it is the rotation by the toroidal angle of (x, y)
   when c r = x, s r = y; hence the prescribed components in the rotated basis.
   Partial: as above (exact sqrt), and (c, s) are the values of libm cos/sin: c^2+s^2 = 1 and
   c r = x, s r = y are hypotheses (checked to 2^-40 on every correspondence case). *)
Theorem C12_vector3d_rotated_partial :
  forall E (vt vp vn : Q -> Q) outside x y z,
  let rr := e_sqrt E (x * x + y * y) in
  let c := fst (e_cs E x y) in let s := snd (e_cs E x y) in
  map_vector3d E vt vp vn outside x y z = option_map (rotate_z_apply c s) (map_vector2d E vt vp vn outside rr z) /\
  (c * c + s * s == 1 -> forall u v, dot (rotate_z_apply c s u) (rotate_z_apply c s v) == dot u v) /\
  (c * rr == x -> s * rr == y ->
     veq (vscale rr (rotate_z_apply c s (V 1 0 0))) (V x y 0) /\
     veq (vscale rr (rotate_z_apply c s (V 0 1 0))) (V (- y) x 0) /\
     veq (rotate_z_apply c s (V 0 0 1)) (V 0 0 1)) /\
  (inside_b E rr z = false -> map_vector3d E vt vp vn outside x y z = Some (rotate_z_apply c s outside)) /\
  (c * c + s * s == 1 -> inside_b E rr z = true -> inplane_zero (b_field E rr z) = false ->
   sqrt_exact_at E (pol_arg (b_field E rr z)) -> sqrt_exact_at E (nor_arg (b_field E rr z)) ->
   exists v ph nh,
     map_vector3d E vt vp vn outside x y z = Some v /\
     poloidal_vector E rr z = Some ph /\ surface_normal E rr z = Some nh /\
     dot v (rotate_z_apply c s (toroidal_vector rr z)) == vt (psi_n E rr z) /\
     dot v (rotate_z_apply c s ph) == vp (psi_n E rr z) /\
     dot v (rotate_z_apply c s nh) == vn (psi_n E rr z)).
Proof.
  intros E vt vp vn outside x y z rr c s.
  split; [apply map_vector3d_is_rotated|].
  split; [intros H u v; apply rotate_preserves_dot; exact H|].
  split; [apply rotate_is_toroidal_angle|].
  split; [apply vector3d_outside|].
  apply vector3d_components.
Qed.
Print Assumptions C12_vector3d_rotated_partial.

(* the code's order of operations (normalise the grid, interpolate, clamp) gives the model's psi_n, for every
   interpolant that is a weighted sum of the node values with weights summing to one; never negative *)
Theorem C12_psin_code_order :
  forall E r z w g,
  ~ e_psi_lcfs E == e_psi_axis E -> length w = length g -> Qsum w == 1 -> e_psi E r z == wsum w g ->
  psin_code (e_psi_axis E) (e_psi_lcfs E) w g == psi_n E r z /\ 0 <= psin_code (e_psi_axis E) (e_psi_lcfs E) w g.
Proof. intros. split; [apply psin_code_is_model; assumption | apply psin_code_nonneg]. Qed.
Print Assumptions C12_psin_code_order.

(* the reduced-fraction evaluators used by the correspondence compute the model's values *)
Theorem C12_fast_evaluators_equal_model :
  forall axis lcfs w g, wsum_red w g == wsum w g /\ Qsum_red w == Qsum w /\ psin_code_red axis lcfs w g == psin_code axis lcfs w g.
Proof. intros. split; [apply wsum_red_ok|]. split; [apply Qsum_red_ok | apply psin_code_red_ok]. Qed.
Print Assumptions C12_fast_evaluators_equal_model.

(* a prescribed speed of exactly zero removes its part of the vector, whatever sqrt returns *)
Theorem C12_zero_speed_components :
  forall E (vt vp vn : Q -> Q) r z v,
  let b := b_field E r z in let p := psi_n E r z in
  inplane_zero b = false -> flux_to_cart E vt vp vn r z = Some v ->
  vy v = vt p /\
  (vp p == 0 -> veq v (V (vx (vscale_r (nor_raw b) (vn p / e_sqrt E (nor_arg b)))) (vt p)
                         (vz (vscale_r (nor_raw b) (vn p / e_sqrt E (nor_arg b)))))) /\
  (vn p == 0 -> veq v (V (vx (vscale_r (pol_raw b) (vp p / e_sqrt E (pol_arg b)))) (vt p)
                         (vz (vscale_r (pol_raw b) (vp p / e_sqrt E (pol_arg b)))))) /\
  (vp p == 0 -> vn p == 0 -> veq v (V 0 (vt p) 0)).
Proof. intros E vt vp vn r z v b p. apply zero_speed_parts. Qed.
Print Assumptions C12_zero_speed_components.

(* unit speeds reproduce the basis: (1,0,0) the toroidal, (0,1,0) the poloidal, (0,0,1) the normal vector,
   exactly, whatever sqrt returns and also where the in-plane field vanishes *)
Theorem C12_unit_speeds_give_basis :
  forall E r z,
  (forall v, flux_to_cart E (fun _ => 1) (fun _ => 0) (fun _ => 0) r z = Some v -> veq v (toroidal_vector r z)) /\
  (forall v ph, flux_to_cart E (fun _ => 0) (fun _ => 1) (fun _ => 0) r z = Some v -> poloidal_vector E r z = Some ph -> veq v ph) /\
  (forall v nh, flux_to_cart E (fun _ => 0) (fun _ => 0) (fun _ => 1) r z = Some v -> surface_normal E r z = Some nh -> veq v nh).
Proof. intros E r z. split; [apply unit_toroidal|]. split; [apply unit_poloidal | apply unit_normal]. Qed.
Print Assumptions C12_unit_speeds_give_basis.

(* the scalar and the vector blend only select (mask is 0 or 1): no lerp, and no dependence on slerp *)
Theorem C12_blends_are_selections :
  forall E (profile : Q -> Q) outside (vt vp vn : Q -> Q) outv s,
  (forall r z, map2d E profile outside r z = (if inside_b E r z then profile (psi_n E r z) else outside)) /\
  (forall r z, map_vector2d (with_slerp E s) vt vp vn outv r z = map_vector2d E vt vp vn outv r z) /\
  (forall x y z, map_vector3d (with_slerp E s) vt vp vn outv x y z = map_vector3d E vt vp vn outv x y z).
Proof.
  intros. split; [intros; apply scalar_blend_is_selection|]. apply slerp_never_reached.
Qed.
Print Assumptions C12_blends_are_selections.

(* components for a square root of relative accuracy e (in the square), at every point *)
Theorem C12_components_with_approximate_sqrt :
  forall E (vt vp vn : Q -> Q) r z e v ph nh,
  let b := b_field E r z in let p := psi_n E r z in
  let sp := e_sqrt E (pol_arg b) in let sn := e_sqrt E (nor_arg b) in
  inplane_zero b = false -> ~ sp == 0 -> ~ sn == 0 ->
  Qabs.Qabs (pol_arg b - sp * sp) <= e * pol_arg b -> Qabs.Qabs (nor_arg b - sn * sn) <= e * nor_arg b ->
  flux_to_cart E vt vp vn r z = Some v -> poloidal_vector E r z = Some ph -> surface_normal E r z = Some nh ->
  Qabs.Qabs (dot v ph - vp p) * (sp * sp) <= e * pol_arg b * Qabs.Qabs (vp p) /\
  Qabs.Qabs (dot v nh - vn p) * (sn * sn) <= e * nor_arg b * Qabs.Qabs (vn p).
Proof. exact components_approx. Qed.
Print Assumptions C12_components_with_approximate_sqrt.

(* ---- the full statements over the real numbers (real sqrt, cos, sin; Model/C12_Real.v mirrors the same
   code lines): orthonormal, normal = poloidal x toroidal, poloidal along the in-plane field, b . n = 0 *)
Theorem C12_real_basis_orthonormal :
  forall b : rvec, (rx b <> 0 \/ rz b <> 0)%R ->
  (rdot (rpoloidal b) (rpoloidal b) = 1 /\ rdot (rnormal b) (rnormal b) = 1 /\ rdot rtor rtor = 1 /\
   rdot (rpoloidal b) rtor = 0 /\ rdot (rnormal b) rtor = 0 /\ rdot (rpoloidal b) (rnormal b) = 0 /\
   rnormal b = rcross (rpoloidal b) rtor /\
   (exists c, 0 < c /\ rpoloidal b = rscale_r (rpol_raw b) c) /\
   rdot b (rnormal b) = 0)%R.
Proof. exact real_basis_orthonormal. Qed.
Print Assumptions C12_real_basis_orthonormal.

(* exactly the prescribed components, in the plane and (rotated by the toroidal angle phi) in 3-D; the
   rotation preserves dot products and carries e_r, e_phi of the plane y = 0 to those at angle phi *)
Theorem C12_real_velocity_components :
  forall (b : rvec) (phi vt vp vn : R), (rx b <> 0 \/ rz b <> 0)%R ->
  (let v := rflux_to_cart b vt vp vn in
   rdot v rtor = vt /\ rdot v (rpoloidal b) = vp /\ rdot v (rnormal b) = vn)%R /\
  (let v := rrotate phi (rflux_to_cart b vt vp vn) in
   rdot v (rrotate phi rtor) = vt /\ rdot v (rrotate phi (rpoloidal b)) = vp /\ rdot v (rrotate phi (rnormal b)) = vn)%R /\
  (forall u v, rdot (rrotate phi u) (rrotate phi v) = rdot u v)%R /\
  (rrotate phi (RV 1 0 0) = RV (cos phi) (sin phi) 0 /\ rrotate phi (RV 0 1 0) = RV (- sin phi) (cos phi) 0 /\
   rrotate phi (RV 0 0 1) = RV 0 0 1)%R.
Proof.
  intros b phi vt vp vn Hb. split.
  - destruct (real_components b Hb vt vp vn) as (A & B & C & _). cbv zeta. auto.
  - split; [apply real_components_3d; exact Hb|]. split; [intros u v; apply real_rotation|].
    destruct (real_rotation phi (RV 0 0 0) (RV 0 0 0)) as (_ & A & B & C). auto.
Qed.
Print Assumptions C12_real_velocity_components.

(* profile arguments: callables are taken as they are; a 2xN array with N >= 2 strictly increasing knots is
   accepted (whatever rows follow) and used as given -- first row knots, second row values, no transposition
   even for N = 2 --; nothing else is accepted *)
Theorem C12_profile_array_policy :
  convert AFun = AcceptFun /\
  (forall xs ys rest, (2 <= length xs)%nat -> increasing xs = true -> convert (AMat (xs :: ys :: rest)) = AcceptArray xs ys) /\
  (forall a xs ys, convert a = AcceptArray xs ys ->
     exists rest, a = AMat (xs :: ys :: rest) /\ (2 <= length xs)%nat /\ increasing xs = true) /\
  (forall l, increasing l = true -> forall i, (S i < length l)%nat -> nth i l 0 < nth (S i) l 0) /\
  (outside_vector None = vzero /\ outside_scalar None = 0).
Proof.
  split; [reflexivity|]. split; [exact valid_array_accepted|]. split; [exact accepted_array_is_valid|].
  split; [exact increasing_spec|]. split; reflexivity.
Qed.
Print Assumptions C12_profile_array_policy.

(* with the even-odd polygon test as polygon mask, inside the LCFS = inside the polygon and psi_n <= 1 *)
Theorem C12_lcfs_mask_with_polygon :
  forall E poly r z, e_poly E = poly_mask poly ->
  (inside_b E r z = true <-> (pip poly r z = true /\ psi_n E r z <= 1)) /\
  (poly_mask poly r z = 1 \/ poly_mask poly r z = 0).
Proof. intros E poly r z H. split; [apply inside_with_polygon; exact H | apply poly_mask_01]. Qed.
Print Assumptions C12_lcfs_mask_with_polygon.

(* source tie: any record of constants / component patterns extracted from efit.pyx that passes the boolean
   check [source_ok] (re-proved by the kernel for the current source in coq/Gen/C12/Tie.v) has component
   patterns equal to the model's un-normalised poloidal and normal vectors on EVERY field vector *)
Theorem C12_source_patterns_cover_all_vectors :
  forall s, source_ok s = true ->
  forall b, veq (ev_pattern (s_pol s) b) (pol_raw b) /\ veq (ev_pattern (s_nor s) b) (nor_raw b) /\
            veq (ev_pattern (s_f2c_pol s) b) (pol_raw b) /\ veq (ev_pattern (s_f2c_nor s) b) (nor_raw b).
Proof. exact source_ok_patterns. Qed.
Print Assumptions C12_source_patterns_cover_all_vectors.

(* ---- Q -> R bridge: the C12_real_* theorems are about the MODEL's own rational field vector.  At every point
   with a non-vanishing in-plane field, rb = Q2R (b_field E r z) satisfies the guard of the real mirror; the
   model's poloidal / normal vectors are the real unit vectors of rb times sqrt(a)/s (s = the value the model's
   sqrt function returned); the model's mapped velocity has, in that real orthonormal basis, the components
   vt, vp sqrt(a)/sp, vn sqrt(a)/sn, i.e. exactly (vt, vp, vn) when s is the real root *)
Theorem C12_model_real_bridge :
  forall E r z (vt vp vn : Q -> Q),
  let b := b_field E r z in let rb := v2r b in
  let sp := e_sqrt E (pol_arg b) in let sn := e_sqrt E (nor_arg b) in
  inplane_zero b = false ->
  (rx rb <> 0 \/ rz rb <> 0)%R /\
  (~ sp == 0 -> ~ sn == 0 ->
   (exists p n, poloidal_vector E r z = Some p /\ surface_normal E r z = Some n /\
      v2r p = rscale_r (rpoloidal rb) (sqrt (Q2R (pol_arg b)) / Q2R sp) /\
      v2r n = rscale_r (rnormal rb) (sqrt (Q2R (nor_arg b)) / Q2R sn)) /\
   (exists v, flux_to_cart E vt vp vn r z = Some v /\
      rdot (v2r v) rtor = Q2R (vt (psi_n E r z)) /\
      rdot (v2r v) (rpoloidal rb) = (Q2R (vp (psi_n E r z)) * (sqrt (Q2R (pol_arg b)) / Q2R sp))%R /\
      rdot (v2r v) (rnormal rb) = (Q2R (vn (psi_n E r z)) * (sqrt (Q2R (nor_arg b)) / Q2R sn))%R /\
      (Q2R sp = sqrt (Q2R (pol_arg b)) -> Q2R sn = sqrt (Q2R (nor_arg b)) ->
       rdot (v2r v) (rpoloidal rb) = Q2R (vp (psi_n E r z)) /\ rdot (v2r v) (rnormal rb) = Q2R (vn (psi_n E r z))))).
Proof.
  intros E r z vt vp vn b rb sp sn Hb. split; [apply inplane_nonzero_real; exact Hb|].
  intros Zp Zn. split; [apply model_basis_is_scaled_real_basis; assumption|].
  apply model_velocity_real_components; assumption.
Qed.
Print Assumptions C12_model_real_bridge.

(* the rotation of the model commutes with the embedding when (c, s) are the cosine and sine of an angle *)
Theorem C12_model_rotation_is_real_rotation :
  forall c s v phi, Q2R c = cos phi -> Q2R s = sin phi -> v2r (rotate_z_apply c s v) = rrotate phi (v2r v).
Proof. exact v2r_rotate. Qed.
Print Assumptions C12_model_rotation_is_real_rotation.

(* an accepted 2xN array profile is raysect's 1-D cubic (Model/C07_Cubic.v) of the array as given: it passes
   through every knot, and the mapped function returns the knot's value wherever psi_n is that knot inside the
   LCFS, the outside value outside *)
Theorem C12_array_profile_through_knots :
  forall a xs ys, convert a = AcceptArray xs ys ->
  forall i, (i < length xs)%nat ->
  array_profile xs ys (nth i xs 0) == nth i ys 0 /\
  (forall E outside r z, psi_n E r z == nth i xs 0 ->
     (inside_b E r z = true -> map2d E (array_profile xs ys) outside r z == nth i ys 0) /\
     (inside_b E r z = false -> map2d E (array_profile xs ys) outside r z = outside)).
Proof.
  intros a xs ys Hc i Hi. split; [apply (array_profile_through_knots a xs ys i Hc Hi)|].
  intros E outside r z Hp. apply (map2d_array_at_knot E a xs ys outside r z i Hc Hi Hp).
Qed.
Print Assumptions C12_array_profile_through_knots.

(* raysect's 1-D cubic (the profile interpolant) is affine in its data -- its weights depend on the knots only
   and sum to one -- and reproduces constants: mapped values scale and shift with the profile values *)
Theorem C12_cubic_profile_affine :
  forall n (k v : nat -> Q) a c x,
  cubic1 n k (fun j => a * v j + c) x == a * cubic1 n k v x + c /\ cubic1 n k (fun _ => c) x == c.
Proof. intros. split; [apply cubic1_affine | apply cubic1_const]. Qed.
Print Assumptions C12_cubic_profile_affine.

(* the grids handed to the d psi interpolators (np.gradient with edge_order=2 divided by the gradient
   of the axis): exact derivative of every quadratic on a uniform axis, at every node, for every n >= 3 *)
Theorem C12_gradient_exact_on_quadratics :
  forall (n : nat) (x0 h a b c : Q), (3 <= n)%nat -> ~ h == 0 ->
  forall i, (i < n)%nat ->
  nth i (dgrid (axis_uniform x0 h n) (map (fun x => a + b * x + c * x * x) (axis_uniform x0 h n))) 0
  == b + 2 * c * (x0 + inject_Z (Z.of_nat i) * h).
Proof. exact dgrid_exact_on_quadratics. Qed.
Print Assumptions C12_gradient_exact_on_quadratics.

(* non-vacuity: an environment and a point where every hypothesis used above holds (3-4-5 field,
   exact sqrt, inside the LCFS, rotation by a 3-4-5 angle) *)
Example C12_nonvacuous :
  let E := witness_env in
  ~ e_psi_lcfs E == e_psi_axis E /\ inside_b E 5 0 = true /\ inplane_zero (b_field E 5 0) = false /\
  sqrt_exact_at E (pol_arg (b_field E 5 0)) /\ sqrt_exact_at E (nor_arg (b_field E 5 0)) /\
  e_sqrt E (3 * 3 + 4 * 4) == 5 /\
  fst (e_cs E 3 4) * fst (e_cs E 3 4) + snd (e_cs E 3 4) * snd (e_cs E 3 4) == 1 /\
  fst (e_cs E 3 4) * 5 == 3 /\ snd (e_cs E 3 4) * 5 == 4 /\ env_proper E.
Proof. exact witness_ok. Qed.
