(* Property C12 -- Equilibrium maps flux functions onto flux surfaces with an orthonormal basis.
   Nothing but the property theorems, each closed by a lemma of Proofs/, with Print Assumptions.
   [env] holds the functions the model does not contain (interpolated psi and d psi, polygon mask,
   f profile, sqrt, cos/sin of the toroidal angle, slerp); every theorem holds for ALL of them, all
   points, all profiles, all outside values and either sign of psi_lcfs - psi_axis. *)
Require Import Cherab.Common.Qx.
Require Import Cherab.Model.C12_Equilibrium Cherab.Model.C12_Gradient.
Require Import Cherab.Proofs.C12_Equilibrium Cherab.Proofs.C12_Axisymmetry Cherab.Proofs.C12_Gradient.
Open Scope Q_scope.

(* normalised flux is never negative *)
Theorem C12_psin_nonneg : forall E r z, 0 <= psi_n E r z.
Proof. exact psin_nonneg. Qed.
Print Assumptions C12_psin_nonneg.

(* it is the clamped normalised flux: 0 on the axis value, 1 on the LCFS value, strictly growing with
   (psi - psi_axis) * sign(psi_lcfs - psi_axis), and unchanged when psi, psi_axis, psi_lcfs all change sign.
   Partial: the code normalises the grid and interpolates it, the model normalises the interpolated
   psi; that raysect's cubic interpolator commutes with this affine map is not proved (it is measured
   on every correspondence case). *)
Theorem C12_psin_is_normalised_flux_partial :
  forall E r z,
  ((psin_raw E r z < 0 -> psi_n E r z = 0) /\ (0 <= psin_raw E r z -> psi_n E r z = psin_raw E r z)) /\
  (~ e_psi_lcfs E == e_psi_axis E ->
     (e_psi E r z == e_psi_axis E -> psi_n E r z == 0) /\ (e_psi E r z == e_psi_lcfs E -> psi_n E r z == 1) /\
     (forall r' z', 0 < (e_psi_lcfs E - e_psi_axis E) * (e_psi E r' z' - e_psi E r z) -> psin_raw E r z < psin_raw E r' z') /\
     psi_n (flip_sign E) r z == psi_n E r z /\ inside_b (flip_sign E) r z = inside_b E r z).
Proof.
  intros E r z. split; [apply psin_spec|]. intros Hd.
  destruct (psin_axis_lcfs E r z Hd) as [A B].
  repeat split; [exact A | exact B | intros; apply psin_raw_monotone; assumption
                 | apply psin_flip_sign; exact Hd | apply inside_flip_sign; exact Hd].
Qed.
Print Assumptions C12_psin_is_normalised_flux_partial.

(* mapped 2-D function: profile(psi_n) inside the LCFS (inside the polygon and psi_n <= 1), the outside value elsewhere *)
Theorem C12_map2d_spec :
  forall E (profile : Q -> Q) outside r z,
  (inside_b E r z = true <-> (0 < e_poly E r z /\ psi_n E r z <= 1)) /\
  (inside_b E r z = true -> map2d E profile outside r z = profile (psi_n E r z)) /\
  (inside_b E r z = false -> map2d E profile outside r z = outside).
Proof. intros. split; [apply inside_b_iff | apply map2d_spec]. Qed.
Print Assumptions C12_map2d_spec.

(* mapped 3-D function: the 2-D one at (sqrt(x^2+y^2), z); it depends on x, y only through x^2+y^2, and
   (for functions that respect equality of rationals) it is unchanged by any rotation of the point about z *)
Theorem C12_map3d_axisymmetric :
  forall E (profile : Q -> Q) outside,
  (forall x y z, map3d E profile outside x y z = map2d E profile outside (e_sqrt E (x * x + y * y)) z) /\
  (exists F : Q -> Q -> Q, forall x y z, map3d E profile outside x y z = F (x * x + y * y) z) /\
  (env_proper E -> fun_proper profile -> forall c s x y z, c * c + s * s == 1 ->
     map3d E profile outside (c * x - s * y) (s * x + c * y) z == map3d E profile outside x y z).
Proof.
  intros. split; [intros; apply map3d_is_map2d|]. split; [apply map3d_axisymmetric|].
  intros; apply map3d_rotation_invariant; assumption.
Qed.
Print Assumptions C12_map3d_axisymmetric.

(* the three basis vectors are pairwise orthogonal and the field has no component along the normal:
   exact, whatever sqrt returns, at every point (also where the in-plane field vanishes); the
   un-normalised normal is poloidal x toroidal; the vectors never raise *)
Theorem C12_basis_orthogonal :
  forall E r z,
  (exists p n, poloidal_vector E r z = Some p /\ surface_normal E r z = Some n) /\
  (forall p n, poloidal_vector E r z = Some p -> surface_normal E r z = Some n ->
     dot p (toroidal_vector r z) == 0 /\ dot n (toroidal_vector r z) == 0 /\ dot p n == 0 /\
     dot (b_field E r z) n == 0 /\
     (e_sqrt E (pol_arg (b_field E r z)) == e_sqrt E (nor_arg (b_field E r z)) -> veq n (cross p (toroidal_vector r z)))) /\
  veq (nor_raw (b_field E r z)) (cross (pol_raw (b_field E r z)) (toroidal_vector r z)) /\
  pol_arg (b_field E r z) == nor_arg (b_field E r z).
Proof.
  intros E r z. split; [apply basis_never_raises|]. split.
  - intros p n Hp Hn. destruct (basis_orthogonal E r z p n Hp Hn) as (A & B & C & D).
    split; [exact A|]. split; [exact B|]. split; [exact C|]. split; [exact D|].
    intros Hs. apply (normal_is_pol_cross_tor E r z p n Hs Hp Hn).
  - split; [apply normal_raw_is_cross | apply args_equal].
Qed.
Print Assumptions C12_basis_orthogonal.

(* unit length, and poloidal vector = positive multiple of the in-plane field.  Partial: stated for the
   points where sqrt is exact on the rational b_r^2 + b_z^2 (it has a rational root), and, for every
   point, with a sqrt of relative accuracy e: |p|^2 within [1/(1+e), 1/(1-e)] *)
Theorem C12_basis_unit_partial :
  forall E r z, inplane_zero (b_field E r z) = false ->
  (sqrt_exact_at E (pol_arg (b_field E r z)) -> sqrt_exact_at E (nor_arg (b_field E r z)) ->
     exists p n, poloidal_vector E r z = Some p /\ surface_normal E r z = Some n /\
                 dot p p == 1 /\ dot n n == 1 /\ dot (toroidal_vector r z) (toroidal_vector r z) == 1) /\
  (0 < e_sqrt E (pol_arg (b_field E r z)) ->
     exists k, 0 < k /\ poloidal_vector E r z = Some (vscale_r (pol_raw (b_field E r z)) k)) /\
  (forall e, sqrt_approx_at E e (pol_arg (b_field E r z)) ->
     exists p, poloidal_vector E r z = Some p /\ (1 - e) * dot p p <= 1 /\ 1 <= (1 + e) * dot p p).
Proof.
  intros E r z H. split; [apply basis_unit; exact H|]. split; [apply poloidal_along_field; exact H|].
  intros e. apply basis_unit_approx; exact H.
Qed.
Print Assumptions C12_basis_unit_partial.

(* the field is grad(psi) x grad(phi): tangent to the flux surface; the normal is along -grad(psi) *)
Theorem C12_field_in_flux_surface :
  forall E r z, ~ r == 0 ->
  dot (b_field E r z) (V (e_dpsidr E r z) 0 (e_dpsidz E r z)) == 0 /\
  veq (nor_raw (b_field E r z)) (vscale (- (1 / r)) (V (e_dpsidr E r z) 0 (e_dpsidz E r z))).
Proof. exact field_tangent_to_flux_surface. Qed.
Print Assumptions C12_field_in_flux_surface.

(* mapped velocity in the plane: outside value outside; inside, (for any non-zero sqrt values) components
   vt, vp * a/s^2, vn * a/s^2 in the basis, i.e. exactly vt, vp, vn where sqrt is exact; where the
   in-plane field vanishes only the toroidal component is kept; never raises.
   Partial: "exactly the prescribed components" is proved where sqrt is exact on b_r^2 + b_z^2 (rational
   root); elsewhere the statement is the identity with the factor a/s^2. *)
Theorem C12_vector2d_components_partial :
  forall E (vt vp vn : Q -> Q) outside r z,
  (inside_b E r z = false -> map_vector2d E vt vp vn outside r z = Some outside) /\
  (inside_b E r z = true -> map_vector2d E vt vp vn outside r z = flux_to_cart E vt vp vn r z) /\
  (exists v, map_vector2d E vt vp vn outside r z = Some v) /\
  (inplane_zero (b_field E r z) = true ->
     flux_to_cart E vt vp vn r z = Some (V (0 + 0) (vt (psi_n E r z)) (0 + 0))) /\
  (inplane_zero (b_field E r z) = false ->
     sqrt_exact_at E (pol_arg (b_field E r z)) -> sqrt_exact_at E (nor_arg (b_field E r z)) ->
     exists v ph nh,
       flux_to_cart E vt vp vn r z = Some v /\ poloidal_vector E r z = Some ph /\ surface_normal E r z = Some nh /\
       dot v (toroidal_vector r z) == vt (psi_n E r z) /\ dot v ph == vp (psi_n E r z) /\ dot v nh == vn (psi_n E r z)) /\
  (forall v ph nh, inplane_zero (b_field E r z) = false ->
     ~ e_sqrt E (pol_arg (b_field E r z)) == 0 -> ~ e_sqrt E (nor_arg (b_field E r z)) == 0 ->
     flux_to_cart E vt vp vn r z = Some v -> poloidal_vector E r z = Some ph -> surface_normal E r z = Some nh ->
     dot v (toroidal_vector r z) == vt (psi_n E r z) /\
     dot v ph * (e_sqrt E (pol_arg (b_field E r z)) * e_sqrt E (pol_arg (b_field E r z))) == vp (psi_n E r z) * pol_arg (b_field E r z) /\
     dot v nh * (e_sqrt E (nor_arg (b_field E r z)) * e_sqrt E (nor_arg (b_field E r z))) == vn (psi_n E r z) * nor_arg (b_field E r z)).
Proof.
  intros E vt vp vn outside r z.
  split; [apply map_vector2d_spec|]. split; [apply map_vector2d_spec|].
  split; [apply map_vector2d_never_raises|]. split; [apply flux_to_cart_zero_field|].
  split; [apply vector_components|]. intros v ph nh. apply vector_components_general.
Qed.
Print Assumptions C12_vector2d_components_partial.

(* 3-D: the 2-D vector at (sqrt(x^2+y^2), z) rotated about z by the matrix built from (c, s); the
   rotation preserves dot products when c^2+s^2 = 1, it is the rotation by the toroidal angle of (x, y)
   when c r = x, s r = y; hence the prescribed components in the rotated basis.
   Partial: as above (exact sqrt), and (c, s) are the values of libm cos/sin: c^2+s^2 = 1 and
   c r = x, s r = y are hypotheses (checked to 2^-40 on every correspondence case). *)
Theorem C12_vector3d_rotated_partial :
  forall E (vt vp vn : Q -> Q) outside x y z,
  let rr := e_sqrt E (x * x + y * y) in
  let c := fst (e_cs E x y) in let s := snd (e_cs E x y) in
  map_vector3d E vt vp vn outside x y z = option_map (rotate_z_apply c s) (map_vector2d E vt vp vn outside rr z) /\
  (c * c + s * s == 1 -> forall u v, dot (rotate_z_apply c s u) (rotate_z_apply c s v) == dot u v) /\
  (c * rr == x -> s * rr == y ->
     veq (vscale rr (rotate_z_apply c s (V 1 0 0))) (V x y 0) /\
     veq (vscale rr (rotate_z_apply c s (V 0 1 0))) (V (- y) x 0) /\
     veq (rotate_z_apply c s (V 0 0 1)) (V 0 0 1)) /\
  (inside_b E rr z = false -> map_vector3d E vt vp vn outside x y z = Some (rotate_z_apply c s outside)) /\
  (c * c + s * s == 1 -> inside_b E rr z = true -> inplane_zero (b_field E rr z) = false ->
   sqrt_exact_at E (pol_arg (b_field E rr z)) -> sqrt_exact_at E (nor_arg (b_field E rr z)) ->
   exists v ph nh,
     map_vector3d E vt vp vn outside x y z = Some v /\
     poloidal_vector E rr z = Some ph /\ surface_normal E rr z = Some nh /\
     dot v (rotate_z_apply c s (toroidal_vector rr z)) == vt (psi_n E rr z) /\
     dot v (rotate_z_apply c s ph) == vp (psi_n E rr z) /\
     dot v (rotate_z_apply c s nh) == vn (psi_n E rr z)).
Proof.
  intros E vt vp vn outside x y z rr c s.
  split; [apply map_vector3d_is_rotated|].
  split; [intros H u v; apply rotate_preserves_dot; exact H|].
  split; [apply rotate_is_toroidal_angle|].
  split; [apply vector3d_outside|].
  apply vector3d_components.
Qed.
Print Assumptions C12_vector3d_rotated_partial.

(* the grids handed to the d psi interpolators (np.gradient with edge_order=2 divided by the gradient
   of the axis): exact derivative of every quadratic on a uniform axis, at every node, for every n >= 3 *)
Theorem C12_gradient_exact_on_quadratics :
  forall (n : nat) (x0 h a b c : Q), (3 <= n)%nat -> ~ h == 0 ->
  forall i, (i < n)%nat ->
  nth i (dgrid (axis_uniform x0 h n) (map (fun x => a + b * x + c * x * x) (axis_uniform x0 h n))) 0
  == b + 2 * c * (x0 + inject_Z (Z.of_nat i) * h).
Proof. exact dgrid_exact_on_quadratics. Qed.
Print Assumptions C12_gradient_exact_on_quadratics.

(* non-vacuity: an environment and a point where every hypothesis used above holds (3-4-5 field,
   exact sqrt, inside the LCFS, rotation by a 3-4-5 angle) *)
Example C12_nonvacuous :
  let E := witness_env in
  ~ e_psi_lcfs E == e_psi_axis E /\ inside_b E 5 0 = true /\ inplane_zero (b_field E 5 0) = false /\
  sqrt_exact_at E (pol_arg (b_field E 5 0)) /\ sqrt_exact_at E (nor_arg (b_field E 5 0)) /\
  e_sqrt E (3 * 3 + 4 * 4) == 5 /\
  fst (e_cs E 3 4) * fst (e_cs E 3 4) + snd (e_cs E 3 4) * snd (e_cs E 3 4) == 1 /\
  fst (e_cs E 3 4) * 5 == 3 /\ snd (e_cs E 3 4) * 5 == 4 /\ env_proper E.
Proof. exact witness_ok. Qed.
