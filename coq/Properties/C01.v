(* Property C01 -- Plasma/beam/laser changes never leave stale derived state.
   Theorems about the invalidation model, for EVERY table of dependencies [deps] and invalidations
   [inval] satisfying the boolean per-setter obligation [covers] (every datum that reads field f is
   discarded by the setter of f), every start configuration and every finite history of setter
   calls interleaved with observations.  The table of the real code is regenerated on every run
   (coq/Gen/C01/Table.v) and [covers] is re-checked for it by the kernel. *)
From Coq Require Import List Arith Bool.
Import ListNotations.
Require Import Cherab.Model.C01_Invalidate Cherab.Proofs.C01_Invalidate.
Require Import Cherab.Model.C01_Notifier Cherab.Proofs.C01_Notifier.

(* every observation of every history shows what a scene built from scratch in the current
   configuration shows *)
Theorem C01_history_independent :
  forall ndata deps inval nfields, covers ndata deps inval nfields = true ->
  forall c0 ops, Forall (fun p => fst p = snd p) (run ndata deps inval (init c0) ops).
Proof. exact history_independent. Qed.
Print Assumptions C01_history_independent.

(* results depend only on the final configuration, not on the order in which it was reached nor on
   what was evaluated in between *)
Theorem C01_order_irrelevant :
  forall ndata deps inval nfields, covers ndata deps inval nfields = true ->
  forall c0 c0' ops ops',
  (forall g, cfg (final ndata deps inval (init c0) ops) g = cfg (final ndata deps inval (init c0') ops') g) ->
  snd (step ndata deps inval (final ndata deps inval (init c0) ops) Observe) =
  snd (step ndata deps inval (final ndata deps inval (init c0') ops') Observe).
Proof. exact order_irrelevant. Qed.
Print Assumptions C01_order_irrelevant.

(* the invariant behind both: it holds initially and every operation preserves it *)
Theorem C01_step_inv :
  forall ndata deps inval nfields, covers ndata deps inval nfields = true ->
  forall s o, Inv ndata deps s -> Inv ndata deps (fst (step ndata deps inval s o)).
Proof. exact inv_step. Qed.
Print Assumptions C01_step_inv.

(* the executable staleness report evaluated by the correspondence is empty for every history *)
Theorem C01_stale_report_empty :
  forall ndata deps inval nfields, covers ndata deps inval nfields = true ->
  forall c0 ops, Forall (fun l => l = []) (stale_report ndata deps inval c0 ops).
Proof. exact stale_report_empty. Qed.
Print Assumptions C01_stale_report_empty.

(* ---- the Notifier (cherab/core/utility/notify.py), the mechanism behind every invalidation ---------- *)

(* for every well-formed history of add / remove / garbage collection / notify, the calls made by each
   operation are those of the ordered set of live subscriptions *)
Theorem C01_notifier_refines_subscriptions :
  forall ops, wf_from [] ops = true -> map fst (nrun ninit ops) = spec_run [] ops.
Proof. exact notifier_refines_subscriptions. Qed.
Print Assumptions C01_notifier_refines_subscriptions.

(* after ANY well-formed history a notification calls a callback exactly once if it is subscribed
   (added, not removed since, owner not collected) and not at all otherwise: no dependent misses an
   invalidation, whatever dead references are interleaved *)
Theorem C01_notify_calls_exactly_the_subscribed :
  forall (eqd : forall a b : target, {a = b} + {a <> b}) ops t, wf_from [] ops = true ->
  count_occ eqd (last (map fst (nrun ninit (ops ++ [Notify]))) []) t = if subscribed t ops false then 1 else 0.
Proof. exact notify_calls_exactly_the_subscribed. Qed.
Print Assumptions C01_notify_calls_exactly_the_subscribed.

(* in every reachable state a notification leaves no dead reference behind *)
Theorem C01_notify_purges_dead : forall ops,
  let s' := fst (notify (nfinal ninit ops)) in Forall (fun r => live s' r = true) (refs s').
Proof. exact reachable_notify_purges_dead. Qed.
Print Assumptions C01_notify_purges_dead.

(* the theorem is about the code as written: the variant that purges while iterating loses a notification *)
Theorem C01_purging_variant_refuted :
  let s := {| refs := [ {| rid := 0; tgt := Meth 0 0 |}; {| rid := 1; tgt := Meth 1 0 |} ]; dead := [0]; next := 2 |} in
  snd (notify s) = [Meth 1 0] /\ snd (notify_purging s) = [].
Proof. exact purging_variant_skips. Qed.

Example C01_notifier_nonvacuous :
  wf_from [] [Add (Meth 0 0); Add (Fun 1); Add (Meth 0 0); Kill 1; Notify; Remove (Meth 0 0); Notify] = true /\
  map fst (nrun ninit [Add (Meth 0 0); Add (Fun 1); Add (Meth 0 0); Kill 1; Notify; Remove (Meth 0 0); Notify])
  = [[]; []; []; []; [Meth 0 0]; []; []].
Proof. split; vm_compute; reflexivity. Qed.

(* non-vacuity: a covering table with a non-empty cache after a 6-operation history *)
Example C01_nonvacuous :
  let deps := fun d => match d with 0 => [0; 1] | 1 => [1; 2] | _ => [] end in
  let inval := fun f => match f with 0 => [0] | 1 => [0; 1] | 2 => [1] | _ => [] end in
  covers 2 deps inval 3 = true /\
  view 2 (final 2 deps inval (init (fun _ => 0)) [Observe; Set_ 1; Observe; Set_ 0; Set_ 2; Observe])
  = [Some [1; 1]; Some [1; 1]].
Proof. split; vm_compute; reflexivity. Qed.
