(* Property C04 -- Beam density conserves particles, decays monotonically, follows its envelope.
   This file contains nothing but the property theorems, each closed by [exact] of a lemma from
   Proofs/, with Print Assumptions beneath.  The model is Model/C04_Beam.v; sqrt and exp are
   arbitrary functions with the hypotheses [sqrt_like] / [exp_like] (defined there); species
   densities, temperatures, velocities and stopping coefficients are arbitrary functions. *)
Require Import Cherab.Common.Qx.
Require Import Cherab.Model.C04_Beam.
From Coq Require Import Qround Permutation.
Require Import Cherab.Model.C04_Policy.
Require Import Cherab.Proofs.C04_Trapz Cherab.Proofs.C04_Main Cherab.Proofs.C04_More Cherab.Proofs.C04_Policy Cherab.Proofs.C04_Main2.
Require Import Cherab.Model.C04_Float Cherab.Proofs.C04_Float.
Open Scope Q_scope.

(* the two loops of _beam_stopping compute the documented composite coefficient
   S = sum_i Z_i n_i S_i(E_i, (sum_j Z_j^2 n_j)/Z_i, T_i),  E_i = |v_beam - v_i|^2 / (2e/amu),
   for any number of species *)
Theorem C04_stopping_is_documented_sum :
  forall cf sp bv r,
  beam_stopping cf sp bv r ==
    Qsum (map (fun s => sp_charge s * sp_dens s r *
                        sp_coef s (interaction_energy cf bv s r) (density_sum sp r / sp_charge s) (sp_temp s r)) sp)
  /\ density_sum sp r == Qsum (map (fun s => sp_charge s * sp_charge s * sp_dens s r) sp)
  /\ forall s, interaction_energy cf bv s r == norm2 (vsub bv (sp_vel s r)) / cf.
Proof. exact main_stopping. Qed.
Print Assumptions C04_stopping_is_documented_sum.

(* the attenuation exponent computed by the cumulative trapezoid is the exact integral of S along
   the axis whenever S is linear along the axis, for any node list (any step, any length) *)
Theorem C04_attenuation_exponent_exact_for_linear_stopping :
  forall a b (l : list (Q * Q)) z0 s0,
  Forall (fun zs => snd zs == a + b * fst zs) ((z0, s0) :: l) ->
  Forall2 (fun zs T => T == lin_integral a b z0 (fst zs)) ((z0, s0) :: l) (cumtrapz ((z0, s0) :: l)).
Proof. exact cumtrapz_exact_linear. Qed.
Print Assumptions C04_attenuation_exponent_exact_for_linear_stopping.

(* S >= 0 on sorted nodes: the exponent never decreases from node to node *)
Theorem C04_attenuation_exponent_monotone :
  forall l : list (Q * Q),
  chained Qle (map fst l) -> Forall (fun zs => 0 <= snd zs) l -> chained Qle (cumtrapz l).
Proof. exact cumtrapz_monotone. Qed.
Print Assumptions C04_attenuation_exponent_monotone.

(* no stopping: the line density (cross-section integrated density, see C04_flux_partial) is
   P/(E m e)/v at EVERY z, for any node count, any divergence, any placement *)
Theorem C04_no_stopping_line_density_is_source_density :
  forall sqrtf expf c n,
  sqrt_like sqrtf -> exp_like expf -> cfg_valid c -> (2 <= n)%Z -> no_stopping c ->
  forall z, lin_interp (line_nodes_n sqrtf expf c n) z == particle_rate c / speed sqrtf c.
Proof. exact main_no_stopping. Qed.
Print Assumptions C04_no_stopping_line_density_is_source_density.

(* the line density never increases with z (nodes and the linear interpolation between them) *)
Theorem C04_line_density_nonincreasing :
  forall sqrtf expf c n,
  sqrt_like sqrtf -> exp_like expf -> cfg_valid c -> (2 <= n)%Z -> plasma_nonneg c ->
  forall z z', z <= z' ->
  lin_interp (line_nodes_n sqrtf expf c n) z' <= lin_interp (line_nodes_n sqrtf expf c n) z.
Proof. exact main_line_nonincreasing. Qed.
Print Assumptions C04_line_density_nonincreasing.

(* on-axis density never increases with z in front of the source (including the drop to zero
   beyond the beam length), for any divergence *)
Theorem C04_on_axis_density_nonincreasing :
  forall sqrtf expf c n,
  sqrt_like sqrtf -> exp_like expf -> cfg_valid c -> (2 <= n)%Z -> plasma_nonneg c ->
  forall z z', 0 <= z -> z <= z' ->
  beam_density_with sqrtf expf (line_nodes_n sqrtf expf c n) c 0 0 z' <=
  beam_density_with sqrtf expf (line_nodes_n sqrtf expf c n) c 0 0 z.
Proof. exact main_on_axis. Qed.
Print Assumptions C04_on_axis_density_nonincreasing.

(* zero before the source, beyond the beam length and, when clamping is on, outside the clamp radius *)
Theorem C04_zero_outside :
  forall sqrtf expf c nd x y z,
  (z < 0 -> beam_density_with sqrtf expf nd c x y z = 0) /\
  (b_len c < z -> beam_density_with sqrtf expf nd c x y z = 0) /\
  (a_clamp c = true ->
   a_clamp_sigma c * a_clamp_sigma c <
     (x / sigma_x sqrtf c z) * (x / sigma_x sqrtf c z) + (y / sigma_y sqrtf c z) * (y / sigma_y sqrtf c z) ->
   beam_density_with sqrtf expf nd c x y z = 0).
Proof. exact main_zero_outside. Qed.
Print Assumptions C04_zero_outside.

(* inside the beam the density is line(z) times the unit Gaussian of (x/sigma_x(z), y/sigma_y(z))
   divided by sigma_x(z) sigma_y(z): it follows its envelope *)
Theorem C04_density_factorises :
  forall sqrtf expf c nd x y z,
  sqrt_like sqrtf -> exp_like expf -> cfg_valid c ->
  0 <= z -> z <= b_len c ->
  a_clamp c && Qltb (clamp_sigma_sqr c) (norm_radius_sqr sqrtf c x y z) = false ->
  beam_density_with sqrtf expf nd c x y z ==
  lin_interp nd z * (gauss2 expf c (x / sigma_x sqrtf c z) (y / sigma_y sqrtf c z)
                     / (sigma_x sqrtf c z * sigma_y sqrtf c z)).
Proof. exact main_factorises. Qed.
Print Assumptions C04_density_factorises.

(* PARTIAL: conservation.  For an integral over the cross-section with the change-of-variables law
   and the Gaussian normalisation (hypotheses in [integral_like]: analytic facts NOT proved here),
   the density integrated over the cross-section at z is the line density, whose node values are
   P/(E m e)/v * exp(-T_i/v) with T the cumulative trapezoid of S (second conjunct, by definition).
   Clamping off (with clamping the documented tail exp(-clamp_sigma^2/2) is cut away). *)
Theorem C04_flux_partial :
  forall sqrtf expf c I2 z,
  sqrt_like sqrtf -> exp_like expf -> cfg_valid c -> integral_like expf c I2 ->
  0 <= z -> z <= b_len c -> a_clamp c = false ->
  I2 (fun x y => beam_density sqrtf expf c x y z) == line_density sqrtf expf c z.
Proof. exact main_flux. Qed.
Print Assumptions C04_flux_partial.

Theorem C04_line_density_formula :
  forall sqrtf expf c T,
  line_of sqrtf expf c T =
  b_power c / (b_energy c * b_mass c * k_ec c) / sqrtf (b_energy c * k_cf c)
  * expf (- (T / sqrtf (b_energy c * k_cf c))).
Proof. exact main_line_formula. Qed.
Print Assumptions C04_line_density_formula.

(* PARTIAL (same hypotheses): in the absence of stopping the flux is P/(E m e)/v at every z, for any divergence *)
Theorem C04_flux_no_stopping_partial :
  forall sqrtf expf c I2 z,
  sqrt_like sqrtf -> exp_like expf -> cfg_valid c -> integral_like expf c I2 ->
  no_stopping c -> 0 <= z -> z <= b_len c -> a_clamp c = false ->
  I2 (fun x y => beam_density sqrtf expf c x y z) == particle_rate c / speed sqrtf c.
Proof. exact main_flux_no_stopping. Qed.
Print Assumptions C04_flux_no_stopping_partial.

(* the direction is the beam axis behind the source and a unit vector elsewhere (sqrt exact at the
   one argument it is applied to) *)
Theorem C04_direction_unit :
  forall sqrtf c x y z,
  (z <= 0 -> direction sqrtf c x y z = mkvec 0 0 1) /\
  (sqrtf (norm2 (direction_raw c x y z)) * sqrtf (norm2 (direction_raw c x y z)) == norm2 (direction_raw c x y z) ->
   norm2 (direction sqrtf c x y z) == 1).
Proof. exact main_direction. Qed.
Print Assumptions C04_direction_unit.

(* streamlines, algebraic form over the model: e_x sigma_x^2 = x (z tan_x^2) e_z with
   sigma_x^2(z+h) - sigma_x^2(z) = h (2 z tan_x^2) + h^2 tan_x^2, i.e. d(x/sigma_x)/dz = 0 along the field *)
Theorem C04_streamline_algebraic :
  forall c x y z h,
  0 < b_sigma c ->
  vx (direction_raw c x y z) * sigma_x_sqr c z == x * (z * b_tx c * b_tx c) * vz (direction_raw c x y z) /\
  vy (direction_raw c x y z) * sigma_y_sqr c z == y * (z * b_ty c * b_ty c) * vz (direction_raw c x y z) /\
  sigma_x_sqr c (z + h) - sigma_x_sqr c z == h * (2 * z * b_tx c * b_tx c) + h * h * (b_tx c * b_tx c) /\
  sigma_y_sqr c (z + h) - sigma_y_sqr c z == h * (2 * z * b_ty c * b_ty c) + h * h * (b_ty c * b_ty c).
Proof. exact main_streamline. Qed.
Print Assumptions C04_streamline_algebraic.

(* non-vacuity: oracles, a configuration and a plasma that meet all hypotheses, on which the model
   computes 7 axis nodes and a positive stopping coefficient *)
Example C04_nonvacuous :
  sqrt_like witness_sqrt /\ exp_like witness_exp /\ cfg_valid witness_cfg /\ plasma_nonneg witness_cfg /\
  nbeam witness_cfg = 7%Z /\ stopping_at witness_sqrt witness_cfg 1 == 5 # 8 /\
  witness_sqrt (norm2 (direction_raw witness_cfg 0 0 1)) * witness_sqrt (norm2 (direction_raw witness_cfg 0 0 1))
    == norm2 (direction_raw witness_cfg 0 0 1).
Proof. exact witness_ok. Qed.

(* ------------------------------------------------------------------------------------------------
   Deepening round
   ------------------------------------------------------------------------------------------------ *)
(* the attenuation-exponent loop refines its specification: T_i is the sum of the first i trapezoid areas *)
Theorem C04_attenuation_exponent_is_trapezoid_sum :
  forall z0 s0 (l : list (Q * Q)),
  Forall2 Qeq (cumtrapz ((z0, s0) :: l)) (0 :: prefix_sums 0 (areas z0 s0 l)).
Proof. exact cumtrapz_spec. Qed.
Print Assumptions C04_attenuation_exponent_is_trapezoid_sum.

(* the interpolant passes through its knots: at every axis node the line density IS the node value
   P/(E m e)/v * exp(-T_i/v)  (C04_line_density_formula), for any node count *)
Theorem C04_line_density_at_nodes :
  forall sqrtf expf c n z y,
  0 < b_len c -> (2 <= n)%Z -> In (z, y) (line_nodes_n sqrtf expf c n) ->
  lin_interp (line_nodes_n sqrtf expf c n) z == y.
Proof. exact main_at_nodes. Qed.
Print Assumptions C04_line_density_at_nodes.

(* the composite stopping coefficient does not depend on the order of the species *)
Theorem C04_stopping_order_independent :
  forall cf sp sp' bv r,
  Permutation sp sp' ->
  (forall s, In s sp -> forall e n n' t, n == n' -> sp_coef s e n t == sp_coef s e n' t) ->
  beam_stopping cf sp bv r == beam_stopping cf sp' bv r.
Proof. exact beam_stopping_perm. Qed.
Print Assumptions C04_stopping_order_independent.

(* layout of the axis nodes: at least 4, from exactly 0 to exactly the beam length, strictly increasing,
   and never further apart than the requested attenuator step *)
Theorem C04_nodes_span_beam_within_step :
  forall c,
  (4 <= nbeam c)%Z /\ node_z c (nbeam c) 0 == 0 /\ node_z c (nbeam c) (nbeam c - 1) == b_len c /\
  (0 < b_len c -> chained Qlt (beam_z c)) /\
  (0 < b_len c -> 0 < a_step c -> b_len c / inject_Z (nbeam c - 1) <= a_step c).
Proof. exact main_nodes_layout. Qed.
Print Assumptions C04_nodes_span_beam_within_step.

(* the density is non-negative everywhere and, at every z, largest on the axis (envelope) *)
Theorem C04_density_nonneg_peaks_on_axis :
  forall sqrtf expf c nd x y z,
  sqrt_like sqrtf -> exp_like expf -> cfg_valid c -> 0 <= lin_interp nd z ->
  0 <= beam_density_with sqrtf expf nd c x y z /\
  beam_density_with sqrtf expf nd c x y z <= beam_density_with sqrtf expf nd c 0 0 z.
Proof. exact main_peak. Qed.
Print Assumptions C04_density_nonneg_peaks_on_axis.

(* PARTIAL, clamping ON: the cross-section integral is the line density times the integral of the unit
   Gaussian cut off at the clamp radius -- a number independent of z, sigma and the divergence; the
   normalisation of the full Gaussian is no longer needed.  With the analytic value of that number,
   1 - exp(-clamp_sigma^2/2) (hypothesis of the second conjunct, NOT proved), the documented tail factor. *)
Theorem C04_flux_clamped_partial :
  forall sqrtf expf c I2 z,
  sqrt_like sqrtf -> exp_like expf -> cfg_valid c -> integral_laws I2 ->
  0 <= z -> z <= b_len c -> a_clamp c = true ->
  I2 (fun x y => beam_density sqrtf expf c x y z) == line_density sqrtf expf c z * I2 (gauss2_clamped expf c)
  /\ (I2 (gauss2_clamped expf c) == 1 - expf (- (1 # 2) * (a_clamp_sigma c * a_clamp_sigma c)) ->
      I2 (fun x y => beam_density sqrtf expf c x y z) ==
      line_density sqrtf expf c z * (1 - expf (- (1 # 2) * (a_clamp_sigma c * a_clamp_sigma c)))).
Proof. exact main_flux_clamped. Qed.
Print Assumptions C04_flux_clamped_partial.

(* setter state machine (Beam energy/power/temperature/divergence/length/sigma, attenuator step/clamp_sigma):
   the initial configuration is valid, EVERY history of setter calls keeps it valid, a rejected value
   changes nothing, an accepted write wins and leaves the other fields alone *)
Theorem C04_settings_valid_over_all_histories :
  forall ops,
  settings_valid initial /\
  (forall st, settings_valid st -> settings_valid (fst (run_sets st ops))) /\
  (forall st f v, accepts f v = false -> set_field st f v = (st, false)) /\
  (forall st f v, accepts f v = true ->
     stored (fst (set_field st f v)) f = (match f with FClampSigma => v * v | _ => v end) /\
     forall g, field_eqb g f = false -> stored (fst (set_field st f v)) g = stored st g).
Proof. exact main_settings. Qed.
Print Assumptions C04_settings_valid_over_all_histories.

(* the code facts that are regenerated from the source on every run (coq/Gen/C04/Source.v, lemma
   source_tie : source_facts = model_facts) are exactly what the density model does; and the direct
   entry point SingleRayAttenuator.density agrees with Beam.density on the whole beam *)
Theorem C04_code_facts_are_the_model :
  forall sqrtf expf nd c x y z sx sy r2,
  nbeam c = Z.max (fst (cf_nbeam model_facts) + Qceiling (b_len c / a_step c)) (snd (cf_nbeam model_facts)) /\
  beam_density_with sqrtf expf nd c x y z =
    (if cmp_holds (fst (cf_density_zero model_facts)) z 0 || cmp_holds (snd (cf_density_zero model_facts)) z (b_len c)
     then 0 else attenuator_density_with sqrtf expf nd c x y z) /\
  direction sqrtf c x y z =
    (if cmp_holds (cf_direction_axis model_facts) z 0 then mkvec 0 0 1 else normalise sqrtf (direction_raw c x y z)) /\
  clamped sqrtf c x y z = a_clamp c && cmp_holds (cf_clamp model_facts) (norm_radius_sqr sqrtf c x y z) (clamp_sigma_sqr c) /\
  gaussian_of expf c sx sy r2 = expf (fst (cf_gauss model_facts) * r2) / (snd (cf_gauss model_facts) * k_pi c * sx * sy) /\
  (forall f v, accepts f v = negb (cmp_holds (reject_op f) v 0)) /\
  (0 <= z -> z <= b_len c ->
   attenuator_density_direct sqrtf expf nd c x y z = Some (beam_density_with sqrtf expf nd c x y z)).
Proof. exact main_facts. Qed.
Print Assumptions C04_code_facts_are_the_model.


(* second deepening round: the double-precision replay of the attenuation loop (Model/C04_Float.v, compared bit for bit
   with the implementation on every run) stays within (1 -+ 2^-53)^(n+3) of the exact trapezoid sums of the model, for
   non-negative S on sorted nodes; the rounding is round53, whose relative error 2^-53 is proved in Proofs/C16_Round.v *)
Theorem C04_rounded_exponent_within_exact :
  forall z0 s0 (l : list (Q * Q)),
  0 <= s0 -> chain Qle z0 (map fst l) -> Forall (fun zs => 0 <= snd zs) l ->
  Forall2 (fun T Tf => pw (1 - pow2 (-53)) (4 + length l) * T <= Tf /\ Tf <= pw (1 + pow2 (-53)) (4 + length l) * T)
          (cumtrapz ((z0, s0) :: l)) (fl_cumtrapz fl_round53 ((z0, s0) :: l)).
Proof. exact main_float. Qed.
Print Assumptions C04_rounded_exponent_within_exact.

From Coq Require Import Reals.
From Coquelicot Require Import Coquelicot.
Require Import Cherab.Proofs.C04_Streamline Cherab.Proofs.C04_Real Cherab.Proofs.C04_Gauss.
From Coq Require Import Qreals.

(* streamlines, differential form over the reals (the direction formula transcribed from the model):
   every differentiable curve x(z) that follows the field, dx/dz = e_x/e_z, has d/dz (x/sigma_x) = 0 *)
Theorem C04_streamline_invariant :
  forall (s t : R) (x : R -> R) (z : R),
  (0 < s)%R -> (0 < z)%R ->
  is_derive x z (ex_R s t (x z) z / z)%R ->
  is_derive (fun u => x u / sigma_R s t u)%R z 0%R.
Proof. exact streamline_derivative_zero. Qed.
Print Assumptions C04_streamline_invariant.


(* integrated form: along any curve that follows the direction field on [a, b] in front of the
   source, x / sigma_x(z) keeps the value it has at a  (mean value theorem) *)
Theorem C04_streamline_constant :
  forall (s t : R) (x : R -> R) (a b : R),
  (0 < s)%R -> (0 < a)%R ->
  (forall z, (a <= z <= b)%R -> is_derive x z (ex_R s t (x z) z / z)%R) ->
  forall z, (a <= z <= b)%R -> (x z / sigma_R s t z = x a / sigma_R s t a)%R.
Proof. exact streamline_constant. Qed.
Print Assumptions C04_streamline_constant.

(* the real field of the two theorems above IS the model's field: on rational points the embedding Q -> R
   maps direction_raw and sigma^2 of Model/C04_Beam.v onto ex_R and sigma_R^2 (so the streamline theorems are
   about the model's rational function, extended to R) *)
Theorem C04_direction_model_is_real_field :
  forall (c : beam_cfg) (x y z : Q),
  (0 < b_sigma c)%Q ->
  Q2R (vx (direction_raw c x y z)) = ex_R (Q2R (b_sigma c)) (Q2R (b_tx c)) (Q2R x) (Q2R z) /\
  Q2R (vy (direction_raw c x y z)) = ex_R (Q2R (b_sigma c)) (Q2R (b_ty c)) (Q2R y) (Q2R z) /\
  Q2R (vz (direction_raw c x y z)) = Q2R z /\
  Q2R (sigma_x_sqr c z) = (sigma_R (Q2R (b_sigma c)) (Q2R (b_tx c)) (Q2R z) * sigma_R (Q2R (b_sigma c)) (Q2R (b_tx c)) (Q2R z))%R /\
  Q2R (sigma_y_sqr c z) = (sigma_R (Q2R (b_sigma c)) (Q2R (b_ty c)) (Q2R z) * sigma_R (Q2R (b_sigma c)) (Q2R (b_ty c)) (Q2R z))%R.
Proof. exact direction_raw_is_real_field. Qed.
Print Assumptions C04_direction_model_is_real_field.

(* second deepening round: the Gaussian integrals behind C04_flux_partial / C04_flux_clamped_partial, over R.
   In polar coordinates of (x/sigma_x, y/sigma_y) the unit Gaussian exp(-(u^2+v^2)/2)/(2 pi) integrated over the disk of
   radius c is int_0^c r exp(-r^2/2) dr (the angle contributes 2 pi/(2 pi)):  EXACTLY the documented clamp factor *)
Theorem C04_gaussian_radial_integral :
  forall c : R, is_RInt (fun r => r * exp (- (r * r) / 2))%R 0%R c (1 - exp (- (c * c) / 2))%R.
Proof. exact radial_gaussian_integral. Qed.
Print Assumptions C04_gaussian_radial_integral.

(* ... and it tends to 1 (normalisation of the diverging Gaussian) with the explicit rate 2 / (2 + c^2) *)
Theorem C04_gaussian_normalisation_rate :
  forall c : R, (1 - 2 / (2 + c * c) <= RInt (fun r => r * exp (- (r * r) / 2)) 0 c < 1)%R.
Proof. exact radial_gaussian_normalisation. Qed.
Print Assumptions C04_gaussian_normalisation_rate.
