(* Property C05 -- Beam CX emission is a population-weighted mean, beam emission a charged sum.
   This file contains nothing but the property theorems, each closed by [exact] of a lemma from
   Proofs/, with Print Assumptions beneath.  All statements are for species lists, rate lists and
   metastable lists of every length and for arbitrary rate functions (respecting equality of
   rationals); libm's sqrt is an arbitrary function except in the frame theorem. *)
Require Import Cherab.Common.Qx.
Require Import Cherab.Model.C05_BeamModels Cherab.Model.C05_Check.
Require Import Cherab.Proofs.C05_Mean Cherab.Proofs.C05_Loops Cherab.Proofs.C05_Emission Cherab.Proofs.C05_Check.
Open Scope Q_scope.

(* q = (q1 + sum k_i q_i)/(1 + sum k_i), k_i >= 0: q lies between the smallest and the largest of
   q1, q_2, ..., for any number of excited states *)
Theorem C05_weighted_mean_bounds :
  forall q1 kq, (forall p, In p kq -> 0 <= fst p) ->
  lmin q1 (map snd kq) <= weighted_mean q1 kq <= lmax q1 (map snd kq).
Proof. exact weighted_mean_min_max. Qed.
Print Assumptions C05_weighted_mean_bounds.

(* what BeamCXLine.emission hands to the line shape is (1/4pi) n_beam n_receiver q, q the
   population-weighted mean of the coefficients, every coefficient evaluated at (interaction energy
   of donor and receiver, receiver temperature, total ion density, Z_eff, |B|), the populations being
   charge-density weighted means of the population coefficients evaluated at
   (E_int,i , sum_j Z_j^2 n_j / Z_i , T_i)  -- see spec_cx_radiance, spec_args5, spec_population *)
Theorem C05_cx_formula :
  forall sqrt K sps bfield lel lch rates beam_len beam_z att dir energy r,
  rates_proper rates ->
  cx_emission sqrt K sps bfield lel lch rates beam_len beam_z att dir energy = AddLine r ->
  exists rs ground,
    find_species sps lel (lch + 1) = Some rs /\ ground_of rates = Some ground /\
    r == spec_cx_radiance sqrt K sps bfield rs (beam_density beam_len beam_z att)
                          (beam_velocity sqrt K dir energy) ground (excited_of rates).
Proof. exact cx_emission_formula. Qed.
Print Assumptions C05_cx_formula.

(* ... and q lies between the smallest and largest individual coefficient *)
Theorem C05_cx_rate_is_bounded_mean :
  forall sqrt K sps bfield lel lch rates beam_len beam_z att dir energy r,
  rates_proper rates ->
  (forall ex, In ex (excited_of rates) ->
     0 <= spec_population sqrt K (beam_velocity sqrt K dir energy) (combine sps (snd ex))) ->
  cx_emission sqrt K sps bfield lel lch rates beam_len beam_z att dir energy = AddLine r ->
  exists rs ground q,
    find_species sps lel (lch + 1) = Some rs /\ ground_of rates = Some ground /\
    r == c_k4pi K * beam_density beam_len beam_z att * dens rs * q /\
    let a5 := spec_args5 sqrt K sps bfield (beam_velocity sqrt K dir energy) rs in
    lmin (apply5 ground a5) (map (fun ex => apply5 (fst ex) a5) (excited_of rates)) <= q
    <= lmax (apply5 ground a5) (map (fun ex => apply5 (fst ex) a5) (excited_of rates)).
Proof. exact cx_emission_bounded. Qed.
Print Assumptions C05_cx_rate_is_bounded_mean.

(* the relative population lies between the smallest and largest population coefficient of the
   species that carry charge density (in particular it is >= 0 for non-negative tables); species of
   charge 0 carry no weight whatever their coefficient *)
Theorem C05_population_is_mean :
  forall sqrt K bv (pd : list (species * rate3)) lo hi,
  (forall sf, In sf pd -> (0 <= charge (fst sf))%Z /\ 0 <= dens (fst sf)) ->
  0 < Qsum (map (fun sf => dens (fst sf) * zq (fst sf)) pd) ->
  (forall sf, In sf pd -> 0 < dens (fst sf) * zq (fst sf) -> lo <= coeff_value sqrt K bv (map fst pd) sf <= hi) ->
  lo <= spec_population sqrt K bv pd <= hi.
Proof. exact population_between. Qed.
Print Assumptions C05_population_is_mean.

(* nothing is emitted where the beam density or the receiver density is zero; the beam density is
   zero outside 0 <= z <= length and the attenuator's value inside *)
Theorem C05_cx_vanishes :
  forall sqrt K sps bfield lel lch rates beam_len beam_z att dir energy rs,
  find_species sps lel (lch + 1) = Some rs ->
  (beam_density beam_len beam_z att == 0 \/ dens rs == 0 ->
   emitted (cx_emission sqrt K sps bfield lel lch rates beam_len beam_z att dir energy) = Some 0) /\
  (beam_z < 0 \/ beam_len < beam_z -> beam_density beam_len beam_z att = 0) /\
  (0 <= beam_z <= beam_len -> beam_density beam_len beam_z att = att).
Proof.
  intros. split; [intros; erewrite cx_vanishes by eassumption; reflexivity | apply beam_density_cases].
Qed.
Print Assumptions C05_cx_vanishes.

(* (1/4pi) n_beam sum_i Z_i n_i q_i(E_int,i , sum_j Z_j^2 n_j / Z_i , T_i) *)
Theorem C05_bes_formula :
  forall sqrt K sps pecs beam_len beam_z att dir energy r,
  (forall c, In c pecs -> proper3 c) ->
  bes_emission sqrt K sps pecs beam_len beam_z att dir energy = AddLine r ->
  r == spec_bes_radiance sqrt K (beam_density beam_len beam_z att) (beam_velocity sqrt K dir energy) (combine sps pecs).
Proof. exact bes_emission_formula. Qed.
Print Assumptions C05_bes_formula.

Theorem C05_bes_vanishes :
  forall sqrt K sps pecs beam_len beam_z att dir energy,
  (beam_density beam_len beam_z att == 0 ->
   bes_emission sqrt K sps pecs beam_len beam_z att dir energy = Unchanged) /\
  ((forall s, In s sps -> dens s == 0) -> forall r,
   bes_emission sqrt K sps pecs beam_len beam_z att dir energy = AddLine r -> r == 0).
Proof. exact bes_vanishes. Qed.
Print Assumptions C05_bes_vanishes.

(* Plasma.z_effective: sum n Z^2 / sum n Z over the ionised species, an error exactly when
   sum n Z^2 is zero *)
Theorem C05_zeff_formula :
  forall sps,
  (forall z, z_effective sps = Some z -> z == spec_zeff sps) /\
  (z_effective sps = None <-> Qsum (map (fun s => dens s * zq s * zq s) (ionised sps)) == 0).
Proof. intros; split; [apply z_effective_spec | apply z_effective_none]. Qed.
Print Assumptions C05_zeff_formula.

Theorem C05_zeff_between :
  forall sps z lo hi,
  (forall s, In s sps -> (0 < charge s)%Z -> 0 <= dens s /\ lo <= zq s <= hi) ->
  z_effective sps = Some z -> lo <= z <= hi.
Proof. exact z_effective_between. Qed.
Print Assumptions C05_zeff_between.

(* Plasma.ion_density is the sum of the densities of every species of the composition *)
Theorem C05_ion_density_formula : forall sps, ion_density sps == Qsum (map dens sps).
Proof. exact ion_density_spec. Qed.
Print Assumptions C05_ion_density_formula.

(* frame of the interaction energy: kinetic energy per unit mass of the motion of the beam atom
   relative to the species; the beam energy itself for a species at rest *)
Theorem C05_interaction_energy_frame :
  forall sqrt K dir energy v,
  0 < c_e K -> 0 < c_amu K -> 0 < norm2 dir -> 0 <= energy ->
  let bv := beam_velocity sqrt K dir energy in
  sqrt (norm2 dir) * sqrt (norm2 dir) == norm2 dir ->
  sqrt (2 * energy * c_e K * (1 / c_amu K)) * sqrt (2 * energy * c_e K * (1 / c_amu K)) == 2 * energy * c_e K * (1 / c_amu K) ->
  sqrt (norm2 (vsub bv v)) * sqrt (norm2 (vsub bv v)) == norm2 (vsub bv v) ->
  (1 # 2) * norm2 bv * (c_amu K / c_e K) == energy /\
  interaction_energy sqrt K bv v == (1 # 2) * norm2 (vsub bv v) * (c_amu K / c_e K) /\
  (v = (0, 0, 0) -> interaction_energy sqrt K bv v == energy).
Proof. exact interaction_energy_frame. Qed.
Print Assumptions C05_interaction_energy_frame.

(* non-vacuity: a two-species plasma (C6+ receiver, D+), three beam metastables with the ground
   rate in the middle of the provider's list, affine rates; the model emits a line, the rates are
   rate functions in the sense of the theorems, and the sqrt hypotheses of the frame theorem are
   met by a function on a concrete case *)
Definition ex_sps : list species :=
  [mkSpecies 1 1 (8 # 1) (100 # 1) (0, 0, 0); mkSpecies 7 6 (1 # 2) (200 # 1) (0, 0, -1)].
Definition ex_rates : list (Z * list Q * list (list Q)) :=
  [(2%Z, [1; 0; 0; 0; 1; 0], [[1 # 4; 0; 0; 0]; [1 # 2; 0; 0; 0]]);
   (1%Z, [2; 0; 0; 0; 0; 1], [[0; 0; 0; 0]; [0; 0; 0; 0]]);
   (3%Z, [5; 0; 0; 0; 0; 0], [[1 # 8; 0; 0; 0]; [1 # 8; 0; 0; 0]])].
Definition ex_K : consts := mkConsts 1 2 (1 # 12).
Definition ex_sqrt (x : Q) : Q := if Qeq_bool x 4 then 2 else if Qeq_bool x 9 then 3 else 0.
Example C05_nonvacuous :
  (exists r, cx_emission ex_sqrt ex_K ex_sps (0, 0, 9) 7 5 (map mkrate ex_rates) 3 1 4 (0, 0, 3) 4 = AddLine r /\ 0 < r) /\
  rates_proper (map mkrate ex_rates) /\
  (let bv := beam_velocity ex_sqrt ex_K (0, 0, 3) 4 in
   0 < norm2 (0, 0, 3) /\
   ex_sqrt (norm2 (0, 0, 3)) * ex_sqrt (norm2 (0, 0, 3)) == norm2 (0, 0, 3) /\
   ex_sqrt (2 * 4 * c_e ex_K * (1 / c_amu ex_K)) * ex_sqrt (2 * 4 * c_e ex_K * (1 / c_amu ex_K)) == 2 * 4 * c_e ex_K * (1 / c_amu ex_K) /\
   ex_sqrt (norm2 (vsub bv (0, 0, -1))) * ex_sqrt (norm2 (vsub bv (0, 0, -1))) == norm2 (vsub bv (0, 0, -1))).
Proof.
  split; [|split].
  - eexists. split; [vm_compute; reflexivity | vm_compute; reflexivity].
  - intros rt Hin. apply in_map_iff in Hin. destruct Hin as [[[m c] ps] [<- _]]. unfold mkrate. cbn [fst snd]. split.
    + apply aff5_proper.
    + intros c' Hc. apply in_map_iff in Hc. destruct Hc as [c0 [<- _]]. apply aff3_proper.
  - vm_compute. repeat split; congruence.
Qed.
