(* Property C05 -- Beam CX emission is a population-weighted mean, beam emission a charged sum.
   This file contains nothing but the property theorems, each closed by [exact] of a lemma from
   Proofs/, with Print Assumptions beneath.  All statements are for species lists, rate lists and
   metastable lists of every length and for arbitrary rate functions (respecting equality of
   rationals); libm's sqrt is an arbitrary function except in the frame theorem. *)
Require Import Cherab.Common.Qx.
Require Import Cherab.Model.C05_BeamModels Cherab.Model.C05_Check Cherab.Model.C05_History Cherab.Model.C05_Mse.
Require Import Cherab.Proofs.C05_Mean Cherab.Proofs.C05_Loops Cherab.Proofs.C05_Emission Cherab.Proofs.C05_Check Cherab.Proofs.C05_History Cherab.Proofs.C05_Mse.
Open Scope Q_scope.

(* q = (q1 + sum k_i q_i)/(1 + sum k_i), k_i >= 0: q lies between the smallest and the largest of
   q1, q_2, ..., for any number of excited states *)
Theorem C05_weighted_mean_bounds :
  forall q1 kq, (forall p, In p kq -> 0 <= fst p) ->
  lmin q1 (map snd kq) <= weighted_mean q1 kq <= lmax q1 (map snd kq).
Proof. exact weighted_mean_min_max. Qed.
Print Assumptions C05_weighted_mean_bounds.

(* what BeamCXLine.emission hands to the line shape is (1/4pi) n_beam n_receiver q, q the
   population-weighted mean of the coefficients, every coefficient evaluated at (interaction energy
   of donor and receiver, receiver temperature, total ion density, Z_eff, |B|), the populations being
   charge-density weighted means of the population coefficients evaluated at
   (E_int,i , sum_j Z_j^2 n_j / Z_i , T_i)  -- see spec_cx_radiance, spec_args5, spec_population *)
Theorem C05_cx_formula :
  forall sqrt K sps bfield lel lch rates beam_len beam_z att dir energy r,
  rates_proper rates ->
  cx_emission sqrt K sps bfield lel lch rates beam_len beam_z att dir energy = AddLine r ->
  exists rs ground,
    find_species sps lel (lch + 1) = Some rs /\ ground_of rates = Some ground /\
    r == spec_cx_radiance sqrt K sps bfield rs (beam_density beam_len beam_z att)
                          (beam_velocity sqrt K dir energy) ground (excited_of rates).
Proof. exact cx_emission_formula. Qed.
Print Assumptions C05_cx_formula.

(* ... and q lies between the smallest and largest individual coefficient *)
Theorem C05_cx_rate_is_bounded_mean :
  forall sqrt K sps bfield lel lch rates beam_len beam_z att dir energy r,
  rates_proper rates ->
  (forall ex, In ex (excited_of rates) ->
     0 <= spec_population sqrt K (beam_velocity sqrt K dir energy) (combine sps (snd ex))) ->
  cx_emission sqrt K sps bfield lel lch rates beam_len beam_z att dir energy = AddLine r ->
  exists rs ground q,
    find_species sps lel (lch + 1) = Some rs /\ ground_of rates = Some ground /\
    r == c_k4pi K * beam_density beam_len beam_z att * dens rs * q /\
    let a5 := spec_args5 sqrt K sps bfield (beam_velocity sqrt K dir energy) rs in
    lmin (apply5 ground a5) (map (fun ex => apply5 (fst ex) a5) (excited_of rates)) <= q
    <= lmax (apply5 ground a5) (map (fun ex => apply5 (fst ex) a5) (excited_of rates)).
Proof. exact cx_emission_bounded. Qed.
Print Assumptions C05_cx_rate_is_bounded_mean.

(* the relative population lies between the smallest and largest population coefficient of the
   species that carry charge density (in particular it is >= 0 for non-negative tables); species of
   charge 0 carry no weight whatever their coefficient *)
Theorem C05_population_is_mean :
  forall sqrt K bv (pd : list (species * rate3)) lo hi,
  (forall sf, In sf pd -> (0 <= charge (fst sf))%Z /\ 0 <= dens (fst sf)) ->
  0 < Qsum (map (fun sf => dens (fst sf) * zq (fst sf)) pd) ->
  (forall sf, In sf pd -> 0 < dens (fst sf) * zq (fst sf) -> lo <= coeff_value sqrt K bv (map fst pd) sf <= hi) ->
  lo <= spec_population sqrt K bv pd <= hi.
Proof. exact population_between. Qed.
Print Assumptions C05_population_is_mean.

(* nothing is emitted where the beam density or the receiver density is zero; the beam density is
   zero outside 0 <= z <= length and the attenuator's value inside *)
Theorem C05_cx_vanishes :
  forall sqrt K sps bfield lel lch rates beam_len beam_z att dir energy rs,
  find_species sps lel (lch + 1) = Some rs ->
  (beam_density beam_len beam_z att == 0 \/ dens rs == 0 ->
   emitted (cx_emission sqrt K sps bfield lel lch rates beam_len beam_z att dir energy) = Some 0) /\
  (beam_z < 0 \/ beam_len < beam_z -> beam_density beam_len beam_z att = 0) /\
  (0 <= beam_z <= beam_len -> beam_density beam_len beam_z att = att).
Proof.
  intros. split; [intros; erewrite cx_vanishes by eassumption; reflexivity | apply beam_density_cases].
Qed.
Print Assumptions C05_cx_vanishes.

(* (1/4pi) n_beam sum_i Z_i n_i q_i(E_int,i , sum_j Z_j^2 n_j / Z_i , T_i) *)
Theorem C05_bes_formula :
  forall sqrt K sps pecs beam_len beam_z att dir energy r,
  (forall c, In c pecs -> proper3 c) ->
  bes_emission sqrt K sps pecs beam_len beam_z att dir energy = AddLine r ->
  r == spec_bes_radiance sqrt K (beam_density beam_len beam_z att) (beam_velocity sqrt K dir energy) (combine sps pecs).
Proof. exact bes_emission_formula. Qed.
Print Assumptions C05_bes_formula.

Theorem C05_bes_vanishes :
  forall sqrt K sps pecs beam_len beam_z att dir energy,
  (beam_density beam_len beam_z att == 0 ->
   bes_emission sqrt K sps pecs beam_len beam_z att dir energy = Unchanged) /\
  ((forall s, In s sps -> dens s == 0) -> forall r,
   bes_emission sqrt K sps pecs beam_len beam_z att dir energy = AddLine r -> r == 0).
Proof. exact bes_vanishes. Qed.
Print Assumptions C05_bes_vanishes.

(* Plasma.z_effective: sum n Z^2 / sum n Z over the ionised species, an error exactly when
   sum n Z^2 is zero *)
Theorem C05_zeff_formula :
  forall sps,
  (forall z, z_effective sps = Some z -> z == spec_zeff sps) /\
  (z_effective sps = None <-> Qsum (map (fun s => dens s * zq s * zq s) (ionised sps)) == 0).
Proof. intros; split; [apply z_effective_spec | apply z_effective_none]. Qed.
Print Assumptions C05_zeff_formula.

Theorem C05_zeff_between :
  forall sps z lo hi,
  (forall s, In s sps -> (0 < charge s)%Z -> 0 <= dens s /\ lo <= zq s <= hi) ->
  z_effective sps = Some z -> lo <= z <= hi.
Proof. exact z_effective_between. Qed.
Print Assumptions C05_zeff_between.

(* Plasma.ion_density is the sum of the densities of every species of the composition *)
Theorem C05_ion_density_formula : forall sps, ion_density sps == Qsum (map dens sps).
Proof. exact ion_density_spec. Qed.
Print Assumptions C05_ion_density_formula.

(* frame of the interaction energy: kinetic energy per unit mass of the motion of the beam atom
   relative to the species; the beam energy itself for a species at rest *)
Theorem C05_interaction_energy_frame :
  forall sqrt K dir energy v,
  0 < c_e K -> 0 < c_amu K -> 0 < norm2 dir -> 0 <= energy ->
  let bv := beam_velocity sqrt K dir energy in
  sqrt (norm2 dir) * sqrt (norm2 dir) == norm2 dir ->
  sqrt (2 * energy * c_e K * (1 / c_amu K)) * sqrt (2 * energy * c_e K * (1 / c_amu K)) == 2 * energy * c_e K * (1 / c_amu K) ->
  sqrt (norm2 (vsub bv v)) * sqrt (norm2 (vsub bv v)) == norm2 (vsub bv v) ->
  (1 # 2) * norm2 bv * (c_amu K / c_e K) == energy /\
  interaction_energy sqrt K bv v == (1 # 2) * norm2 (vsub bv v) * (c_amu K / c_e K) /\
  (v = (0, 0, 0) -> interaction_energy sqrt K bv v == energy).
Proof. exact interaction_energy_frame. Qed.
Print Assumptions C05_interaction_energy_frame.

(* non-vacuity: a two-species plasma (C6+ receiver, D+), three beam metastables with the ground
   rate in the middle of the provider's list, affine rates; the model emits a line, the rates are
   rate functions in the sense of the theorems, and the sqrt hypotheses of the frame theorem are
   met by a function on a concrete case *)
Definition ex_sps : list species :=
  [mkSpecies 1 1 (8 # 1) (100 # 1) (0, 0, 0); mkSpecies 7 6 (1 # 2) (200 # 1) (0, 0, -1)].
Definition ex_rates : list (Z * list Q * list (list Q)) :=
  [(2%Z, [1; 0; 0; 0; 1; 0], [[1 # 4; 0; 0; 0]; [1 # 2; 0; 0; 0]]);
   (1%Z, [2; 0; 0; 0; 0; 1], [[0; 0; 0; 0]; [0; 0; 0; 0]]);
   (3%Z, [5; 0; 0; 0; 0; 0], [[1 # 8; 0; 0; 0]; [1 # 8; 0; 0; 0]])].
Definition ex_K : consts := mkConsts 1 2 (1 # 12).
Definition ex_sqrt (x : Q) : Q := if Qeq_bool x 4 then 2 else if Qeq_bool x 9 then 3 else 0.
(* the bounded-mean clause with nothing left as a hypothesis about populations: for non-negative densities,
   charges >= 0, a line of an ion (charge of the line >= 0) and a provider that supplies one non-negative
   population coefficient per species of the composition, q lies between the smallest and largest coefficient *)
Theorem C05_cx_rate_bounded_for_nonnegative_tables :
  forall sqrt K sps bfield lel lch rates beam_len beam_z att dir energy r,
  rates_proper rates ->
  (forall s, In s sps -> (0 <= charge s)%Z /\ 0 <= dens s) ->
  (0 <= lch)%Z ->
  (forall rt, In rt rates -> length (snd rt) = length sps /\ forall c, In c (snd rt) -> forall e n t, 0 <= c e n t) ->
  cx_emission sqrt K sps bfield lel lch rates beam_len beam_z att dir energy = AddLine r ->
  exists rs ground q,
    find_species sps lel (lch + 1) = Some rs /\ ground_of rates = Some ground /\
    r == c_k4pi K * beam_density beam_len beam_z att * dens rs * q /\
    let a5 := spec_args5 sqrt K sps bfield (beam_velocity sqrt K dir energy) rs in
    lmin (apply5 ground a5) (map (fun ex => apply5 (fst ex) a5) (excited_of rates)) <= q
    <= lmax (apply5 ground a5) (map (fun ex => apply5 (fst ex) a5) (excited_of rates)).
Proof. exact cx_emission_bounded_nonneg. Qed.
Print Assumptions C05_cx_rate_bounded_for_nonnegative_tables.

(* "at any point" of any plasma reached through the public mutators: live BeamCXLine / BeamEmissionLine objects
   with their caches give, after EVERY history of mutations and evaluations, what freshly built models give on
   the current configuration -- provided the mutators of the six cache-relevant kinds (add of a new key, add
   of an existing key, set, clear, line, provider) clear both caches.  That proviso is a boolean over a table
   which the harness extracts from the running implementation on every run (coq/Gen/C05/Tie.v, table_ok). *)
Theorem C05_history_independence :
  forall (P : Type) sqrt K tbl, table_ok tbl = true ->
  forall evs c, run_live P sqrt K tbl evs (mkState P c None None) = run_fresh P sqrt K evs c.
Proof. exact history_independence. Qed.
Print Assumptions C05_history_independence.

(* Composition.add: a replaced entry keeps its position, a new entry is appended; a lookup of the added key
   returns the added object and every other key is untouched *)
Theorem C05_composition_add_semantics :
  forall (P : Type) (o : sobj P) l,
  map (fun x => (o_el P x, o_ch P x)) (comp_add P o l) =
    (if existsb (fun x => same_key P x o) l then map (fun x => (o_el P x, o_ch P x)) l
     else map (fun x => (o_el P x, o_ch P x)) l ++ [(o_el P o, o_ch P o)]) /\
  forall q, find (fun x => same_key P x q) (comp_add P o l) =
            if same_key P o q then Some o else find (fun x => same_key P x q) l.
Proof. intros; split; [apply comp_add_keys | intros; apply comp_add_lookup]. Qed.
Print Assumptions C05_composition_add_semantics.

(* the sqrt used when Coq runs the model on the correspondence cases is a square root to 2^-64 *)
Theorem C05_sqrt_oracle_bound :
  forall x, 0 < x ->
  let s := sqrt_approx x in
  0 <= s /\ s * s <= x /\ x < (s + 1 / inject_Z (2 ^ sqrt_bits)) * (s + 1 / inject_Z (2 ^ sqrt_bits)).
Proof. exact sqrt_approx_spec. Qed.
Print Assumptions C05_sqrt_oracle_bound.

(* BeamEmissionLine: the nine Stark components the multiplet renders carry exactly the radiance it is given
   (so the wavelength-integrated beam emission IS that radiance once each Gaussian integrates to 1, which is C02);
   the sigma group (|k| <= 1) carries s/(1+s), the pi group 1/(1+s); components +k and -k are equal and none is
   negative; nothing is rendered when the electron temperature or density is not positive *)
Theorem C05_mse_components_sum_to_radiance :
  forall radiance r,
  ~ 1 + r_s2p r == 0 -> ~ r_s1s0 r + 1 == 0 -> ~ 1 + r_p2p3 r + r_p4p3 r == 0 ->
  Qsum (map snd (mse_components radiance r)) == radiance /\
  within 1 (mse_components radiance r) == r_s2p r / (1 + r_s2p r) * radiance /\
  within 4 (mse_components radiance r) - within 1 (mse_components radiance r) == 1 / (1 + r_s2p r) * radiance.
Proof. intros; split; [apply mse_total | apply mse_groups]; assumption. Qed.
Print Assumptions C05_mse_components_sum_to_radiance.

Theorem C05_mse_components_symmetric_nonnegative :
  forall radiance r k q, In (k, q) (mse_components radiance r) ->
  (exists q', In ((- k)%Z, q') (mse_components radiance r) /\ q' == q) /\
  (0 <= radiance -> 0 <= r_s2p r -> 0 <= r_s1s0 r -> 0 <= r_p2p3 r -> 0 <= r_p4p3 r -> 0 <= q).
Proof.
  intros radiance r k q Hin; split; [apply (mse_symmetric radiance r k q Hin) | intros H0 H1 H2 H3 H4; exact (mse_nonneg radiance r k q H0 H1 H2 H3 H4 Hin)].
Qed.
Print Assumptions C05_mse_components_symmetric_nonnegative.

Theorem C05_mse_guards :
  forall te ne radiance r,
  (te <= 0 \/ ne <= 0 -> mse_add_line te ne radiance r = []) /\
  (0 < te -> 0 < ne -> mse_add_line te ne radiance r = mse_components radiance r).
Proof. exact mse_guards. Qed.
Print Assumptions C05_mse_guards.

(* BeamEmissionLine.line accepts exactly Balmer-alpha of the hydrogen family *)
Theorem C05_bes_line_policy :
  forall is_none fam charge up lo,
  bes_line_setter is_none fam charge up lo = Accepted <->
  is_none = false /\ fam = true /\ charge = 0%Z /\ up = 3%Z /\ lo = 2%Z.
Proof. exact bes_line_setter_accepts. Qed.
Print Assumptions C05_bes_line_policy.

(* the proviso of C05_history_independence is needed: with a table in which replacing an existing species does
   not clear the caches (kind 1), a two-evaluation history on a one-species plasma distinguishes the live
   BeamEmissionLine from a fresh one *)
Definition ex_obj (n : Q) : sobj unit := mkSobj unit 1 1 (fun _ => (n, 10, (0, 0, 0))).
Definition ex_prov : provider := mkProvider [] (fun _ _ _ _ _ _ => 0) (fun _ _ _ _ _ => 1).
Definition ex_cfg : config unit := mkConfig unit [ex_obj 1] (fun _ => (0, 0, 1)) 1 0 ex_prov 2 (fun _ => 1) 4.
Definition ex_tbl (k : Z) : bool * bool := if (k =? 1)%Z then (false, false) else (true, true).
Definition ex_evs : list (event unit) :=
  [ObserveBES unit tt 1 (0, 0, 3); Mutate unit (MAdd unit (ex_obj 2)); ObserveBES unit tt 1 (0, 0, 3)].
Example C05_stale_cache_refuted :
  table_ok ex_tbl = false /\
  map (fun o => Qred (radiance_of o)) (run_live unit ex_sqrt ex_K ex_tbl ex_evs (mkState unit ex_cfg None None)) = [1 # 12; 1 # 12] /\
  map (fun o => Qred (radiance_of o)) (run_fresh unit ex_sqrt ex_K ex_evs ex_cfg) = [1 # 12; 1 # 6].
Proof. repeat split; vm_compute; reflexivity. Qed.

Example C05_nonvacuous :
  (exists r, cx_emission ex_sqrt ex_K ex_sps (0, 0, 9) 7 5 (map mkrate ex_rates) 3 1 4 (0, 0, 3) 4 = AddLine r /\ 0 < r) /\
  rates_proper (map mkrate ex_rates) /\
  (let bv := beam_velocity ex_sqrt ex_K (0, 0, 3) 4 in
   0 < norm2 (0, 0, 3) /\
   ex_sqrt (norm2 (0, 0, 3)) * ex_sqrt (norm2 (0, 0, 3)) == norm2 (0, 0, 3) /\
   ex_sqrt (2 * 4 * c_e ex_K * (1 / c_amu ex_K)) * ex_sqrt (2 * 4 * c_e ex_K * (1 / c_amu ex_K)) == 2 * 4 * c_e ex_K * (1 / c_amu ex_K) /\
   ex_sqrt (norm2 (vsub bv (0, 0, -1))) * ex_sqrt (norm2 (vsub bv (0, 0, -1))) == norm2 (vsub bv (0, 0, -1))).
Proof.
  split; [|split].
  - eexists. split; [vm_compute; reflexivity | vm_compute; reflexivity].
  - intros rt Hin. apply in_map_iff in Hin. destruct Hin as [[[m c] ps] [<- _]]. unfold mkrate. cbn [fst snd]. split.
    + apply aff5_proper.
    + intros c' Hc. apply in_map_iff in Hc. destruct Hc as [c0 [<- _]]. apply aff3_proper.
  - vm_compute. repeat split; congruence.
Qed.
