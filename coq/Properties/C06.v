(* Property C06 -- Rate repository: last write wins per key, other keys untouched, no stray files.
   This file contains nothing but the property theorems, each closed by [exact] of a lemma from
   Proofs/, with Print Assumptions beneath.

   Vocabulary (Model/C06_Repo.v, Model/C06_Spec.v): [run cs d] executes a history [cs] of calls
   (any interleaving of the update_* / add_* functions of the 13 families and of the install_*
   front ends, each with its own repository_path argument, returning or raising) on the file-system
   model; [get root k d] is the matching get_* function ([None] = RuntimeError); [writes_call c] are
   the (root, key, value) leaves a call was given, [commit_call c] those stored when it returns or
   raises; [spec root cs] is the abstract map "last write wins".  [history_ok root cs]: the UPPER level of a
   transition contains no '>' character (the lower level is unrestricted), and every call addresses [root] itself or a root that cannot
   share a file with it. *)
From Coq Require Import ZArith List Bool String.
Require Import Cherab.Model.C06_Repo Cherab.Model.C06_Spec Cherab.Model.C06_Check Cherab.Model.C06_Json.
Require Import Cherab.Proofs.C06_Keys Cherab.Proofs.C06_Refine Cherab.Proofs.C06_Props Cherab.Proofs.C06_Extra Cherab.Proofs.C06_More Cherab.Proofs.C06_Json.
Import ListNotations.
Open Scope Z_scope.

(* distinct keys (family, symbols, charges, metastable, lower-cased transition) never share a
   (file, sub-key): within a family and across the 13 families *)
Theorem C06_key_encoding_injective :
  forall k k', key_ok k = true -> key_ok k' = true -> loc k = loc k' -> k = k'.
Proof. exact loc_injective. Qed.
Print Assumptions C06_key_encoding_injective.

(* for every history, every read agrees with the abstract last-write-wins map *)
Theorem C06_refines :
  forall root cs k, key_ok k = true -> history_ok root cs -> get root k (run cs []) = spec root cs k.
Proof. exact refines. Qed.
Print Assumptions C06_refines.

(* a call that returns normally leaves under k the last value it was given for k, and that value
   stays until a later call is given k again *)
Theorem C06_last_write_wins :
  forall root cs c cs' k v,
  key_ok k = true -> history_ok root (cs ++ c :: cs') ->
  outcome_call c = Done ->
  (forall m, awrites (at_root root (writes_call c)) m k = Some v) ->
  (forall c', In c' cs' -> ~ In k (keys_at root (writes_call c'))) ->
  get root k (run (cs ++ c :: cs') []) = Some v.
Proof. exact last_write_wins. Qed.
Print Assumptions C06_last_write_wins.

(* a call (returning or raising) changes no key it was not given *)
Theorem C06_other_keys_untouched :
  forall root cs c k,
  key_ok k = true -> history_ok root (cs ++ [c]) ->
  ~ In k (keys_at root (writes_call c)) ->
  get root k (run (cs ++ [c]) []) = get root k (run cs []).
Proof. exact other_keys_untouched. Qed.
Print Assumptions C06_other_keys_untouched.

Theorem C06_never_written_raises :
  forall root cs k,
  key_ok k = true -> history_ok root cs ->
  (forall c, In c cs -> ~ In k (keys_at root (writes_call c))) ->
  get root k (run cs []) = None.
Proof. exact never_written_raises. Qed.
Print Assumptions C06_never_written_raises.

(* after any call, rejected or not, a key holds its previous content or one of the values the call
   was given for it; hence a stored key stays readable *)
Theorem C06_rejected_update_keeps_old :
  forall root cs c k,
  key_ok k = true -> history_ok root (cs ++ [c]) ->
  (get root k (run (cs ++ [c]) []) = get root k (run cs [])
   \/ exists v, In (root, (k, v)) (writes_call c) /\ get root k (run (cs ++ [c]) []) = Some v)
  /\ (forall v, get root k (run cs []) = Some v -> exists v', get root k (run (cs ++ [c]) []) = Some v').
Proof.
  intros root cs c k Hk H. split;
  [exact (rejected_update_keeps_old root cs c k Hk H) | intros v; exact (stays_readable root cs c k v Hk H)].
Qed.
Print Assumptions C06_rejected_update_keeps_old.

(* every file that exists after a history existed before or lies under the repository path of one
   of the calls (the path passed, or the default one when none was passed) *)
Theorem C06_writes_under_root :
  forall cs d p, In p (files (run cs d)) ->
  In p (files d) \/ exists c, In c cs /\ is_prefix (call_root c) p = true.
Proof. exact writes_under_root. Qed.
Print Assumptions C06_writes_under_root.

(* joining the components of a file path with '/' (os.path.join) loses nothing when no component
   contains a slash: distinct component lists are distinct files *)
Theorem C06_flatten_injective :
  forall p p', p <> [] -> p' <> [] -> forallb comp_ok p = true -> forallb comp_ok p' = true ->
  flatten p = flatten p' -> p = p'.
Proof. exact flatten_injective. Qed.
Print Assumptions C06_flatten_injective.

(* with it: two keys of the model whose files differ have different file NAMES on disk, for any root and any
   slash-free symbols (the numbers rendered by '{}'.format never contain a slash - proved, not assumed) *)
Theorem C06_file_names_injective :
  forall root k k', forallb comp_ok root = true -> key_comp_ok k = true -> key_comp_ok k' = true ->
  flatten (root ++ kpath k) = flatten (root ++ kpath k') -> kpath k = kpath k'.
Proof. exact file_names_injective. Qed.
Print Assumptions C06_file_names_injective.

(* each add_* performs the steps of its own family's update_* on the singleton dictionary.  This holds
   by construction of the model; that the source does the same is what the correspondence checks
   (it is the statement that was false for add_continuum_power_rate / add_cx_power_rate, finding F1). *)
Theorem C06_add_routes_to_own_family :
  (forall f repo s q t, steps (AAdf11 f repo s q t) = steps (UAdf11 f repo [(s, [(q, t)])])) /\
  (forall repo d dq r rs, steps (ATcx repo d dq r rs) = steps (UTcx repo [(d, [(dq, [(r, rs)])])])) /\
  (forall c repo s q tr t, steps (APec c repo s q tr t) = steps (UPec repo [(c, [(s, [(q, [(tr, t)])])])])) /\
  (forall repo d dq r rq tr t,
     steps (APecTcx repo d dq r rq tr t) = steps (UPecTcx repo [(d, [(dq, [(r, [(rq, [(tr, t)])])])])])) /\
  (forall repo s q tr t, steps (AWvl repo s q tr t) = steps (UWvl repo [(s, [(q, [(tr, t)])])])) /\
  (forall repo d m r rq tr t, steps (ABcx repo d m r rq tr t) = steps (UBcx repo [(d, [(r, [(rq, [(tr, [(m, t)])])])])])) /\
  (forall repo b t q r, steps (ABstop repo b t q r) = steps (UBstop repo [(b, [(t, [(q, r)])])])) /\
  (forall repo b m t q r, steps (ABpop repo b m t q r) = steps (UBpop repo [(b, [(m, [(t, [(q, r)])])])])) /\
  (forall repo b t q tr r, steps (ABem repo b t q tr r) = steps (UBem repo [(b, [(t, [(q, [(tr, r)])])])])).
Proof. exact add_routes_to_own_family. Qed.
Print Assumptions C06_add_routes_to_own_family.

(* record of finding F1: in the model of the code before 4538bc6 the continuum / CX power add lands
   under the line-power key, its own read raises, and the stored line-power rate is replaced *)
Theorem C06_refuted_unfixed :
  exists root s q t0 t1,
    let d := run [AAdf11 FLine (Some root) s q t0; unfixed_add_power (Some root) s q t1] [] in
    get root (KAdf11 FCont (lsym s) q) d = None /\
    get root (KAdf11 FLine (lsym s) q) d = Some (t_val t1) /\ t_val t1 <> t_val t0.
Proof. exact refuted_unfixed. Qed.
Print Assumptions C06_refuted_unfixed.

(* a call returns normally exactly when every check the code makes passes: the charge / metastable
   checks of every file visit and the shape checks of every leaf (decided by the model from the array
   shapes, Model/C06_Repo.v:t_ok); with C06_last_write_wins: valid data is never rejected and is stored *)
Theorem C06_valid_calls_return :
  forall root c d, call_ok c = true -> root_ok root c ->
  (snd (run_call c d) = Done <-> call_valid c = true).
Proof. exact valid_calls_return. Qed.
Print Assumptions C06_valid_calls_return.

(* which exception a call raises (none, ValueError, TypeError) is decided by its arguments alone - the checks of
   every file visit in source order: TypeError for an argument that is not an Element, ValueError for a charge above
   the atomic number / a negative metastable / array shapes, TypeError for a dictionary json.dumps cannot serialise -
   never by what the repository holds *)
Theorem C06_outcome_independent_of_store :
  forall root c d, call_ok c = true -> root_ok root c -> snd (run_call c d) = outcome_call c.
Proof. exact run_call_outcome. Qed.
Print Assumptions C06_outcome_independent_of_store.

(* what a zero of the correspondence comparator (Model/C06_Check.v) certifies: at every call the
   implementation's outcome and its read of every key are the model's, and the files on disk are the
   model's files after the history *)
Theorem C06_check_seq_sound :
  forall cs queries impl impl_files, check_seq cs queries impl impl_files = 0 ->
  impl = model_steps (map qloc queries) cs [] /\
  (forall p, In p (files (run cs [])) -> In p impl_files) /\ (forall p, In p impl_files -> In p (files (run cs []))).
Proof. exact check_seq_sound. Qed.
Print Assumptions C06_check_seq_sound.

(* the remaining hypothesis of the key encoding ([key_ok]: no '>' in the UPPER level of a transition;
   the lower level is unrestricted) cannot be dropped: these two transitions share one sub-key *)
Theorem C06_arrow_alias_witness :
  exists t t' : ntrans, t <> t' /\ join_trans t = join_trans t' /\ ntrans_ok t = false.
Proof. exact arrow_alias_witness. Qed.
Print Assumptions C06_arrow_alias_witness.

(* the JSON layer at the token level (Model/C06_Json.v): the reader recovers every value tree (nested objects with
   string keys, lists of lists of numbers, numbers) from the tokens the printer writes for it, with any continuation *)
Theorem C06_json_roundtrip :
  forall v, parse (print v) = Some v.
Proof. exact parse_print. Qed.
Print Assumptions C06_json_roundtrip.

(* hence two different file contents never have the same file text (token sequence) *)
Theorem C06_json_print_injective :
  forall v v', print v = print v' -> v = v'.
Proof. exact print_injective. Qed.
Print Assumptions C06_json_print_injective.

(* what a zero of the per-file comparator certifies: the file's tokens are the model printer's for the value that was
   written, and the model reader gives that value back *)
Theorem C06_check_file_sound :
  forall written loaded toks, check_file written loaded toks = 0%Z -> toks = print written /\ parse toks = Some written.
Proof. exact check_file_sound. Qed.
Print Assumptions C06_check_file_sound.

(* non-vacuity: a history over two repositories with an alias transition, a rejected update in the
   middle and an install front end meets the hypotheses, and reads what the theorems say *)
Definition ex_root : path := ["repo"%string].
Definition ex_C : species := {| sym := "C"; znum := 6; is_elem := true |}.
Definition ex_history : list call :=
  [ APec PExc (Some ex_root) ex_C 5 (LInt 3, LInt 2) (leaf_ok 1%positive);
    AAdf11 FCont (Some ex_root) ex_C 2 (leaf_ok 2%positive);
    UAdf11 FLine (Some ex_root) [(ex_C, [(1, (leaf_ok 3%positive)); (7, (leaf_ok 4%positive))])];
    APec PExc (Some ex_root) ex_C 5 (LStr "3", LStr "2") (leaf_ok 5%positive);
    IAdf11 FIon None [(ex_C, [(1, (leaf_ok 6%positive))])] ].
Example C06_nonvacuous :
  history_ok ex_root ex_history /\
  get ex_root (KPec PExc "c" 5 ("3", "2")%string) (run ex_history []) = Some 5%positive /\
  get ex_root (KAdf11 FCont "c" 2) (run ex_history []) = Some 2%positive /\
  get ex_root (KAdf11 FLine "c" 1) (run ex_history []) = Some 3%positive /\
  get ex_root (KAdf11 FLine "c" 2) (run ex_history []) = None /\
  get default_root (KAdf11 FIon "c" 0) (run ex_history []) = Some 6%positive.
Proof.
  split; [|vm_compute; repeat split; reflexivity].
  unfold history_ok, ex_history.
  repeat (apply Forall_cons;
          [split; [vm_compute; reflexivity
                  | first [left; reflexivity | right; apply separatedb_sound; vm_compute; reflexivity]] |]).
  apply Forall_nil.
Qed.
