(* Property C10 -- Ray-transfer matrices account for the whole chord and respect voxel maps.
   This file contains nothing but the property theorems, each closed by [exact] of a lemma from
   Proofs/, with Print Assumptions beneath. *)
Require Import Cherab.Common.Qx.
Require Import Cherab.Model.C10_RayTransfer.
Require Import Cherab.Proofs.C10_Loop.
Open Scope Q_scope.

(* the flush-on-change loop of both integrators equals "every sample adds dt to the source of its
   cell", for every sequence of sampled cells (any length), every voxel map, every initial spectrum *)
Theorem C10_loop_is_per_sample_add :
  forall (vm : cell -> Z) (dt : Q) (cells : list cell) (s0 : spectrum),
  (forall c, In c cells -> c <> cinit) ->
  forall j, accumulate_runs vm dt cells s0 j == accumulate_simple vm dt cells s0 j.
Proof. exact runs_eq_simple. Qed.
Print Assumptions C10_loop_is_per_sample_add.
