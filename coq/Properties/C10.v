(* Property C10 -- Ray-transfer matrices account for the whole chord and respect voxel maps.
   This file contains nothing but the property theorems, each closed by [exact] of a lemma from
   Proofs/, with Print Assumptions beneath.  Model: Model/C10_RayTransfer.v. *)
Require Import Cherab.Common.Qx.
Require Import Cherab.Model.C10_RayTransfer Cherab.Model.C10_Pipeline Cherab.Model.C10_Emitter.
Require Import Cherab.Proofs.C10_Loop Cherab.Proofs.C10_Count Cherab.Proofs.C10_Chord Cherab.Proofs.C10_Cart
               Cherab.Proofs.C10_Maps Cherab.Proofs.C10_Pipeline Cherab.Proofs.C10_Cyl Cherab.Proofs.C10_Emitter Cherab.Proofs.C10_Fast
               Cherab.Proofs.C10_Sqrt3 Cherab.Proofs.C10_Ring.
From Coq Require Import Qabs Rdefinitions.
Open Scope Q_scope.

(* the flush-on-change loop of both integrators equals "every sample adds dt to the source of its
   cell", for every sequence of sampled cells (any length), every voxel map, every initial spectrum *)
Theorem C10_loop_is_per_sample_add :
  forall (vm : cell -> Z) (dt : Q) (cells : list cell) (s0 : spectrum),
  (forall c, In c cells -> c <> cinit) ->
  forall j, accumulate_runs vm dt cells s0 j == accumulate_simple vm dt cells s0 j.
Proof. exact runs_eq_simple. Qed.
Print Assumptions C10_loop_is_per_sample_add.

(* the entry of source j grows by dt times the number of samples whose cell is mapped to j *)
Theorem C10_entry_is_dt_times_sample_count :
  forall vm dt cells s0 j, (-1 < j)%Z ->
  accumulate_simple vm dt cells s0 j == s0 j + dt * inject_Z (countp (fun c => (vm c =? j)%Z) cells).
Proof. exact simple_count. Qed.
Print Assumptions C10_entry_is_dt_times_sample_count.

(* samples in cells mapped to -1 (outside the mask) change nothing: the result is the result of the
   active samples alone; and a bin no sampled cell is mapped to keeps its value *)
Theorem C10_inactive_cells_receive_nothing :
  forall vm dt cells s0,
  (forall j, accumulate_simple vm dt cells s0 j ==
             accumulate_simple vm dt (filter (fun c => (vm c >? -1)%Z) cells) s0 j) /\
  (forall j, (forall c, In c cells -> vm c <> j) -> accumulate_simple vm dt cells s0 j == s0 j).
Proof. intros; split; [apply simple_filter_active | intros j; apply simple_untouched]. Qed.
Print Assumptions C10_inactive_cells_receive_nothing.

(* the entries of bins 0 .. B-1 together grow by dt times the number of samples in active cells *)
Theorem C10_entries_sum_to_active_length :
  forall vm dt cells B, (forall c, In c cells -> (vm c < Z.of_nat B)%Z) -> forall s0,
  sum_bins (accumulate_simple vm dt cells s0) B ==
  sum_bins s0 B + dt * inject_Z (countp (fun c => (vm c >? -1)%Z) cells).
Proof. exact simple_total. Qed.
Print Assumptions C10_entries_sum_to_active_length.

(* every sampled cell active, dt = L / n: the entries grow by exactly L, the length of the chord *)
Theorem C10_all_active_sum_is_length :
  forall vm L cells B s0, cells <> [] ->
  (forall c, In c cells -> (-1 < vm c < Z.of_nat B)%Z) ->
  sum_bins (accumulate_simple vm (dt_of L (Z.of_nat (length cells))) cells s0) B == sum_bins s0 B + L.
Proof. exact all_active_total. Qed.
Print Assumptions C10_all_active_sum_is_length.

(* midpoint samples t_k = (k + 1/2) dt, k < n, against one interval [a, b] of [0, n dt]: any set of
   samples that contains those strictly inside and is contained in the closed interval has
   dt * (its size) within dt of b - a *)
Theorem C10_interval_sample_count :
  forall dt, 0 < dt -> forall (n : nat) (S : Z -> bool) a b,
  0 <= a -> a <= b -> b <= inject_Z (Z.of_nat n) * dt ->
  (forall k, (0 <= k < Z.of_nat n)%Z -> a < t_of dt k -> t_of dt k < b -> S k = true) ->
  (forall k, (0 <= k < Z.of_nat n)%Z -> S k = true -> a <= t_of dt k /\ t_of dt k <= b) ->
  Qabs (dt * inject_Z (countk S n) - (b - a)) <= dt.
Proof. exact midpoint_count. Qed.
Print Assumptions C10_interval_sample_count.

(* Cartesian grid, any cell sizes, any start, direction, length L, any number N of samples, any cell c:
   dt * #(samples the model's cart_cell puts into c) differs from the exact chord of c (slab method)
   by at most ONE integration step dt (the property allows two) *)
Theorem C10_cartesian_cell_error_at_most_one_step :
  forall dx dy dz s1 s2 s3 d1 d2 d3 L (N : nat),
  0 < dx -> 0 < dy -> 0 < dz -> 0 < L -> (0 < N)%nat ->
  (forall t, 0 <= t -> t <= L -> 0 <= s1 + d1 * t /\ 0 <= s2 + d2 * t /\ 0 <= s3 + d3 * t) ->
  forall c : cell,
  Qabs (dt_of L (Z.of_nat N) *
        inject_Z (countp (cell_eqb c)
                    (map (cart_cell (dx, dy, dz))
                         (sample_points (s1, s2, s3) (d1, d2, d3) (dt_of L (Z.of_nat N)) (Z.of_nat N))))
        - chord_cart (dx, dy, dz) (s1, s2, s3) (d1, d2, d3) L c) <= dt_of L (Z.of_nat N).
Proof. exact cart_cell_error. Qed.
Print Assumptions C10_cartesian_cell_error_at_most_one_step.

(* PARTIAL (cylindrical cells): a cell that the line meets in the k ordered intervals ivs receives
   dt * #samples within k * dt of the total length of the intervals.  Missing: the geometric fact that
   an annular-sector cell (r, phi, z ranges) meets a straight line in at most two intervals, and that
   the model's cyl_cell puts a sample into the cell exactly when its parameter is in one of them. *)
Theorem C10_cell_error_k_intervals_partial :
  forall dt, 0 < dt -> forall (n : nat) (S : Z -> bool) (ivs : list (Q * Q)),
  chain 0 ivs -> (forall ab, In ab ivs -> snd ab <= inject_Z (Z.of_nat n) * dt) ->
  (forall k, (0 <= k < Z.of_nat n)%Z -> existsb (in_open (t_of dt k)) ivs = true -> S k = true) ->
  (forall k, (0 <= k < Z.of_nat n)%Z -> S k = true -> existsb (in_closed (t_of dt k)) ivs = true) ->
  Qabs (dt * inject_Z (countk S n) - total_len ivs) <= inject_Z (Z.of_nat (length ivs)) * dt.
Proof. exact k_intervals. Qed.
Print Assumptions C10_cell_error_k_intervals_partial.

(* a voxel map that merges cells: the entry of source s is the sum of the entries of its cells under
   any one-source-per-cell map idm (injective on the grid) *)
Theorem C10_merged_map_additive :
  forall (vm idm : cell -> Z) (grid : list cell), NoDup grid ->
  (forall c c', In c grid -> In c' grid -> idm c = idm c' -> c = c') ->
  forall dt cells s, (-1 < s)%Z -> (forall c, In c grid -> (-1 < idm c)%Z) -> (forall c, In c cells -> In c grid) ->
  accumulate_simple vm dt cells (fun _ => 0) s ==
  Qsum (map (fun c => accumulate_simple idm dt cells (fun _ => 0) (idm c)) (filter (fun c => (vm c =? s)%Z) grid)).
Proof. exact merged_map_additive. Qed.
Print Assumptions C10_merged_map_additive.

(* the code's angular index  <int>(((phi + 360) % period) / dphi)  is unchanged when the angle moves
   by any whole number of periods (any period > 0, any dphi > 0) *)
Theorem C10_phi_index_periodic :
  forall period dphi phi (m : Z), 0 < period -> 0 < dphi ->
  iphi_of_phi period dphi (phi + inject_Z m * period) = iphi_of_phi period dphi phi.
Proof. exact phi_periodic. Qed.
Print Assumptions C10_phi_index_periodic.

(* dt = length / max(min_samples, <int>(length / step)) is below two steps *)
Theorem C10_dt_below_two_steps :
  forall len stp min_samples, 0 < stp -> 0 < len -> (1 <= min_samples)%Z ->
  dt_of len (nsamples min_samples len stp) < 2 * stp.
Proof. exact dt_lt_two_steps. Qed.
Print Assumptions C10_dt_below_two_steps.

(* the map built from a mask: -1 outside the mask, the running count of active cells inside *)
Theorem C10_mask_map_spec :
  forall mask next i, (i < length mask)%nat ->
  nth i (map_from_mask_from next mask) (-1)%Z =
  if nth i mask false then (next + countp (fun b : bool => b) (firstn i mask))%Z else (-1)%Z.
Proof. exact map_from_mask_spec. Qed.
Print Assumptions C10_mask_map_spec.

(* the sample point the executable model computes is the literal formula of the code *)
Theorem C10_sample_point_formula :
  forall (s1 d1 len : Q) (n k : Z), ~ len == 0 -> (0 < n)%Z ->
  s1 + (/ len * d1) * t_of (dt_of len n) k == Qred (s1 + d1 * lam_of n k).
Proof. exact point_lam_literal. Qed.
Print Assumptions C10_sample_point_formula.

(* pipelines.py, 0D: whatever the pipeline object did before (any state st), after observe() its matrix is the mean, over
   ALL samples of this observation (any split into tasks), of spectrum [* sensitivity for 'power'] *)
Theorem C10_pipeline0d_matrix_is_mean_of_own_samples :
  forall (st : p0) (tasks : list (list sample)) j,
  p0_matrix (p0_observe st tasks) j ==
  sample_sum (p0_kind st) (concat tasks) j / inject_Z (Z.of_nat (length (concat tasks))).
Proof. exact p0_observe_mean. Qed.
Print Assumptions C10_pipeline0d_matrix_is_mean_of_own_samples.

(* the matrices of a history of observations do not depend on the state of the pipeline object before the history *)
Theorem C10_pipeline0d_history_independent :
  forall st st' h, p0_history st h = p0_history st' h.
Proof. exact p0_history_independent. Qed.
Print Assumptions C10_pipeline0d_history_independent.

(* 1D / 2D: every pixel the observer updated holds the sum of its samples divided by pixel_samples, every other pixel zeros,
   whatever the state before *)
Theorem C10_pipelineNd_rows_are_means :
  forall (st : pn) ps (tasks : list (pixel * list sample)), NoDup (map fst tasks) ->
  (forall p sm j, In (p, sm) tasks ->
     pn_matrix (pn_observe st ps tasks) p j == sample_sum (pn_kind st) sm j / inject_Z ps) /\
  (forall p j, ~ In p (map fst tasks) -> pn_matrix (pn_observe st ps tasks) p j == 0).
Proof. exact pn_observe_mean. Qed.
Print Assumptions C10_pipelineNd_rows_are_means.

Theorem C10_pipelineNd_history_independent :
  forall st st' h, pn_history st h = pn_history st' h.
Proof. exact pn_history_independent. Qed.
Print Assumptions C10_pipelineNd_history_independent.

(* ---- the whole call of the model (integrate = too-short test + sampling + loop) ---- *)
(* a path shorter than 0.1 * step leaves the spectrum as it is *)
Theorem C10_too_short_path_changes_nothing :
  forall cellfn vm start stop len stp ms s0,
  too_short len stp = true -> integrate cellfn vm start stop len stp ms s0 = s0.
Proof. exact integrate_short. Qed.
Print Assumptions C10_too_short_path_changes_nothing.

(* otherwise entry j of the returned spectrum is the entry passed in (+=) plus dt times the number of the call's own
   sample points whose cell is mapped to j *)
Theorem C10_integrate_entry_is_dt_times_samples :
  forall cellfn vm start stop len stp ms s0 j,
  too_short len stp = false -> (-1 < j)%Z ->
  (forall c, In c (integrate_cells cellfn start stop len stp ms) -> c <> cinit) ->
  integrate cellfn vm start stop len stp ms s0 j ==
  s0 j + dt_of len (nsamples ms len stp)
         * inject_Z (countp (fun c => (vm c =? j)%Z) (integrate_cells cellfn start stop len stp ms)).
Proof. exact integrate_entry. Qed.
Print Assumptions C10_integrate_entry_is_dt_times_samples.

(* and when every sampled cell has a source the bins grow by exactly len, the length of the path: "the entries sum to the
   length of the chord", for the model's integrate itself, any grid, any min_samples >= 1 *)
Theorem C10_integrate_all_active_sums_to_length :
  forall cellfn vm start stop len stp ms s0 (B : nat),
  too_short len stp = false -> (1 <= ms)%Z ->
  (forall c, In c (integrate_cells cellfn start stop len stp ms) -> c <> cinit) ->
  (forall c, In c (integrate_cells cellfn start stop len stp ms) -> (-1 < vm c < Z.of_nat B)%Z) ->
  sum_bins (integrate cellfn vm start stop len stp ms s0) B == sum_bins s0 B + len.
Proof. exact integrate_total. Qed.
Print Assumptions C10_integrate_all_active_sums_to_length.

(* ---- cylindrical cells: narrowing the gap of C10_cell_error_k_intervals_partial ---- *)
(* the ring index computed without a square root is the ring: (rmin + r dr)^2 <= s < (rmin + (r+1) dr)^2 *)
Theorem C10_ring_index_spec :
  forall rmin dr s, 0 <= rmin -> 0 < dr -> forall fuel i, (0 <= i)%Z ->
  rb rmin dr i * rb rmin dr i <= s ->
  s < rb rmin dr (i + Z.of_nat fuel) * rb rmin dr (i + Z.of_nat fuel) ->
  let r := ir_up fuel i s rmin dr in
  (i <= r)%Z /\ rb rmin dr r * rb rmin dr r <= s /\ s < rb rmin dr (r + 1) * rb rmin dr (r + 1).
Proof. exact ir_up_spec. Qed.
Print Assumptions C10_ring_index_spec.

(* the geometric fact that was a bare hypothesis: along a straight line, a region  ring x slab x (any convex angular
   condition)  is never entered three times (no in-out-in-out-in): it is met in at most two intervals *)
Theorem C10_cyl_region_met_in_at_most_two_intervals :
  forall x0 dx y0 dy z0 dz rlo rhi zlo zhi (sector : Q -> Prop), convex sector ->
  let S := in_cyl_region x0 dx y0 dy z0 dz rlo rhi zlo zhi sector in
  forall t1 t2 t3 t4 t5, t1 < t2 -> t2 < t3 -> t3 < t4 -> t4 < t5 ->
  S t1 -> ~ S t2 -> S t3 -> ~ S t4 -> S t5 -> False.
Proof. exact cyl_region_two_runs. Qed.
Print Assumptions C10_cyl_region_met_in_at_most_two_intervals.

(* ... and for an axisymmetric grid this is a statement about the MODEL's cyl_cell itself.
   What remains PARTIAL for cylindrical cells: (1) that the sector test of the model (iphi_sector, boundaries with sqrt 3)
   is a convex condition on the parameter (true for every half-plane; proved here only for rational directions, band_convex);
   (2) the end points of the at most two intervals are square roots, so the "exact chord length" of a ring cell is not a
   rational: the bound |entry - chord| <= 2 dt is the k = 2 instance of C10_cell_error_k_intervals_partial for any rational
   intervals that bracket them. *)
Theorem C10_axisymmetric_cell_met_in_at_most_two_intervals :
  forall (g : cylgrid) x0 dx y0 dy z0 dz i j,
  cg_nphi g = 1%Z -> 0 <= cg_rmin g -> 0 < cg_dr g -> 0 < cg_dz g -> (0 <= cg_nr g)%Z -> (0 <= i)%Z ->
  let inside t := 0 <= z0 + dz * t /\ cg_rmin g * cg_rmin g <= rho2 x0 dx y0 dy t /\
                  rho2 x0 dx y0 dy t < rb (cg_rmin g) (cg_dr g) (cg_nr g + 2) * rb (cg_rmin g) (cg_dr g) (cg_nr g + 2) in
  let S t := cyl_cell g (x0 + dx * t, y0 + dy * t, z0 + dz * t) = (i, 0%Z, j) in
  forall t1 t2 t3 t4 t5, t1 < t2 -> t2 < t3 -> t3 < t4 -> t4 < t5 ->
  inside t1 -> inside t2 -> inside t3 -> inside t4 -> inside t5 ->
  S t1 -> ~ S t2 -> S t3 -> ~ S t4 -> S t5 -> False.
Proof. exact axisym_cell_two_runs. Qed.
Print Assumptions C10_axisymmetric_cell_met_in_at_most_two_intervals.

(* ---- the mask / voxel_map state machine of the emitters ---- *)
Theorem C10_rejected_assignment_changes_nothing :
  forall sh st op, snd (em_step sh st op) = ErrValue -> fst (em_step sh st op) = st.
Proof. exact em_step_rejected. Qed.
Print Assumptions C10_rejected_assignment_changes_nothing.

Theorem C10_accepted_assignment_forgets_the_past :
  forall sh st st' op, snd (em_step sh st op) = ErrNone -> em_step sh st op = em_step sh st' op.
Proof. exact em_step_accepted_independent. Qed.
Print Assumptions C10_accepted_assignment_forgets_the_past.

(* after obj.mask = m the object reports m (so the one-source-per-cell map was rebuilt), whatever map it carried *)
Theorem C10_mask_assignment_roundtrip :
  forall sh st s m, shape_eqb s sh = true -> em_mask (fst (em_step sh st (OpMask (Some (s, m))))) = m.
Proof. exact mask_roundtrip. Qed.
Print Assumptions C10_mask_assignment_roundtrip.

(* ---- the fast evaluator used in the correspondence equals the literal model ---- *)
(* the C cast depends on the value only *)
Theorem C10_ctrunc_respects_Qeq : forall q q', q == q' -> ctrunc q = ctrunc q'.
Proof. exact ctrunc_comp. Qed.
Print Assumptions C10_ctrunc_respects_Qeq.

(* the points the executable model evaluates (reduced fractions, no length) fall into the same Cartesian cells as the
   literal formula of the code *)
Theorem C10_executable_samples_give_the_code_cells :
  forall steps start d len (n : Z), ~ len == 0 -> (0 < n)%Z ->
  map (cart_cell steps) (sample_points_lam start d n) =
  map (cart_cell steps) (sample_points start (vscale (/ len) d) (dt_of len n) n).
Proof. exact cart_cells_fast_eq. Qed.
Print Assumptions C10_executable_samples_give_the_code_cells.

(* so the one-step bound holds for exactly the cell list that integrate (the function run against the implementation)
   feeds into the loop: any grid, end points, length, step, min_samples >= 1, any cell *)
Theorem C10_integrate_cartesian_cell_error_at_most_one_step :
  forall dx dy dz s1 s2 s3 e1 e2 e3 len stp ms (c : cell),
  0 < dx -> 0 < dy -> 0 < dz -> 0 < len -> (1 <= ms)%Z ->
  let n := nsamples ms len stp in
  let d1 := / len * (e1 - s1) in let d2 := / len * (e2 - s2) in let d3 := / len * (e3 - s3) in
  (forall t, 0 <= t -> t <= len -> 0 <= s1 + d1 * t /\ 0 <= s2 + d2 * t /\ 0 <= s3 + d3 * t) ->
  Qabs (dt_of len n * inject_Z (countp (cell_eqb c)
                                  (integrate_cells (cart_cell (dx, dy, dz)) (s1, s2, s3) (e1, e2, e3) len stp ms))
        - chord_cart (dx, dy, dz) (s1, s2, s3) (d1, d2, d3) len c) <= dt_of len n.
Proof. exact integrate_cells_cart_error. Qed.
Print Assumptions C10_integrate_cartesian_cell_error_at_most_one_step.

(* ---- second deepening round: sectors with nphi > 1, rational brackets, pipeline histories ---- *)
(* the model's sign test for a + b sqrt 3 is the sign of that real number (standard-library reals) *)
Theorem C10_sign_q3_is_sign_of_real :
  forall v : q3, (sign_q3 v = 1%Z <-> (0 < val3 v)%R) /\ (sign_q3 v = (-1)%Z <-> (val3 v < 0)%R)
                 /\ (sign_q3 v = 0%Z <-> val3 v = 0%R).
Proof. exact sign_q3_spec. Qed.
Print Assumptions C10_sign_q3_is_sign_of_real.

(* hence the model's own half-plane tests against two sector borders (multiples of 30 / 45 degrees, directions with sqrt 3)
   cut a convex set out of the parameter line of any straight line *)
Theorem C10_model_sector_tests_are_convex :
  forall u1 u2 x0 dx y0 dy, convex (in_wedge u1 u2 x0 dx y0 dy).
Proof. exact wedge_convex. Qed.
Print Assumptions C10_model_sector_tests_are_convex.

(* so a cell with nphi > 1 (ring x slab x wedge, every test being the model's own) is met in at most two intervals.
   Remaining gap to the model's cyl_cell for nphi > 1: that gsector = j exactly on the wedge between borders j and j + 1
   (the counting of borders in gsector and the half-plane bookkeeping of angle_ge), and periodic images (nphi * dphi < 360)
   are separate wedges. *)
Theorem C10_cyl_sector_cell_met_in_at_most_two_intervals :
  forall (u1 u2 : q3 * q3) (x0 dx y0 dy z0 dz rlo rhi zlo zhi : Q),
  let S := in_cyl_region x0 dx y0 dy z0 dz rlo rhi zlo zhi (in_wedge u1 u2 x0 dx y0 dy) in
  forall t1 t2 t3 t4 t5 : Q, t1 < t2 -> t2 < t3 -> t3 < t4 -> t4 < t5 ->
  S t1 -> ~ S t2 -> S t3 -> ~ S t4 -> S t5 -> False.
Proof. exact cyl_sector_cell_two_runs. Qed.
Print Assumptions C10_cyl_sector_cell_met_in_at_most_two_intervals.

(* the two-step bound of the property for EVERY cell of EVERY grid of the executable model (any cell function: Cartesian,
   cylindrical with any sectors), against any rational brackets of the at most two intervals in which the line meets the
   cell: every sample strictly inside a bracket is in the cell, every sample of the cell is inside a closed bracket.
   (The true end points of ring cells are square roots; rational brackets exist arbitrarily close to them - that density
   step is not formalised.) *)
Theorem C10_cell_error_two_steps_for_rational_brackets :
  forall (cellfn : vec -> cell) start stop len stp ms (c : cell) (ivs : list (Q * Q)),
  0 < len -> (1 <= ms)%Z ->
  let n := nsamples ms len stp in
  let dt := dt_of len n in
  let S := fun k => cell_eqb c (cellfn (point_lam start (vsub stop start) n k)) in
  chain 0 ivs -> (forall ab, In ab ivs -> snd ab <= len) -> (length ivs <= 2)%nat ->
  (forall k, (0 <= k < n)%Z -> existsb (in_open (t_of dt k)) ivs = true -> S k = true) ->
  (forall k, (0 <= k < n)%Z -> S k = true -> existsb (in_closed (t_of dt k)) ivs = true) ->
  Qabs (dt * inject_Z (countp (cell_eqb c) (integrate_cells cellfn start stop len stp ms)) - total_len ivs) <= 2 * dt.
Proof. exact cell_two_steps_brackets. Qed.
Print Assumptions C10_cell_error_two_steps_for_rational_brackets.

(* the k-th matrix of ANY history of observations on one 0D pipeline object, from ANY state before the history, is the mean of
   the k-th observation's own samples *)
Theorem C10_pipeline0d_every_history_matrix_is_mean :
  forall (h : list (pkind * list (list sample))) (st : p0) (i : nat) k tasks j,
  nth_error h i = Some (k, tasks) ->
  exists m, nth_error (p0_history st h) i = Some m /\
            m j == sample_sum k (concat tasks) j / inject_Z (Z.of_nat (length (concat tasks))).
Proof. exact p0_history_means. Qed.
Print Assumptions C10_pipeline0d_every_history_matrix_is_mean.

(* non-vacuity: the hypotheses of the Cartesian theorem and of the k-interval theorem are satisfiable *)
Example C10_nonvacuous :
  (forall t, 0 <= t -> t <= 3 -> 0 <= (1 # 2) + (1 # 3) * t /\ 0 <= 2 + (- (1 # 2)) * t /\ 0 <= 0 + 0 * t) /\
  chain 0 [(0, 1); (2, 3)] /\ (forall c, In c [(0, 0, 0)%Z; (1, 0, 2)%Z] -> c <> cinit).
Proof.
  split; [|split].
  - intros t H0 H1. repeat split; Lqa.lra.
  - cbn. repeat split; Lqa.lra.
  - intros c [<-|[<-|[]]]; discriminate.
Qed.
