(* Property C08 -- ADF parsers return the file's numbers under the documented conventions.
   This file contains nothing but the property theorems, each closed by [exact] of a lemma from Proofs/,
   with Print Assumptions beneath.

   What is theorem here: the layers of the parser models that do the positional work -- fixed-width records
   (ADF12/21/22), blank-separated token streams (ADF11/ADF15), the row-major index maps that fix the axis
   order, keyed tables, look-up of an ADF15 block by ISEL, the ADF11 charge-state convention and element check.
   What is NOT theorem (tied by translator + correspondence only): recognition of header / separator / comment
   index lines by regular expressions, and text -> number.  Hence the file-level round trips
   parse_adfNN (write_adfNN t) = t are checked case by case (model run by Coq on generated files), not proved. *)
Require Import Cherab.Common.Qx.
Require Import Cherab.Model.C08_Text Cherab.Model.C08_Adf.
Require Import Cherab.Proofs.C08_Records Cherab.Proofs.C08_Tables Cherab.Proofs.C08_Files Cherab.Proofs.C08_Numbers Cherab.Proofs.C08_Findings Cherab.Proofs.C08_Matcher.
From Coq Require Import Ascii String.

(* ADF12 / ADF21 / ADF22 data records: for every record width p >= 1 and every number of 9-character fields
   (multiple of p or not), reading back the records the writer lays out returns the field texts (D -> E) and
   leaves the stream exactly after the last record *)
Theorem C08_readvalues_roundtrip :
  forall p fields rest, (1 <= p)%nat -> Forall len9 fields ->
  readvalues (List.length fields) p (write_values p fields ++ rest) = (map repl fields, rest).
Proof. exact write_values_roundtrip. Qed.
Print Assumptions C08_readvalues_roundtrip.

(* the same for any list of records in which every record but the last is full (any writer of that shape) *)
Theorem C08_readvalues_any_records :
  forall recs p rest, records_ok p recs ->
  readvalues (List.length (List.concat recs)) p (map write_record recs ++ rest) = (map repl (List.concat recs), rest).
Proof. exact readvalues_roundtrip. Qed.
Print Assumptions C08_readvalues_any_records.

(* ADF11 / ADF15 data: tokens separated by any non-empty blank padding (blanks, newlines: any number of values
   per line, any line breaks) are recovered exactly and in order *)
Theorem C08_tokens_roundtrip :
  forall l trailing, tokens_ok l -> all_ws trailing -> split_ws (padded l ++ trailing) = map snd l.
Proof. exact tokens_roundtrip. Qed.
Print Assumptions C08_tokens_roundtrip.

(* documented axis order (density, temperature) of ADF11: for all grid sizes, entry [i_d][i_t] of the returned
   table is the i_d-th value of the i_t-th temperature row of the block *)
Theorem C08_adf11_axis_order :
  forall n_t n_d toks i_d i_t, (i_d < n_d)%nat -> (i_t < n_t)%nat ->
  nth (i_d * n_t + i_t) (swap_flat n_t n_d toks) 0%Q = nth (i_t * n_d + i_d) toks 0%Q.
Proof. exact adf11_axis_order. Qed.
Print Assumptions C08_adf11_axis_order.

(* ADF21/22: sen[i_eb][i_dt] is the i_eb-th value of the i_dt-th group of records *)
Theorem C08_adf2x_axis_order :
  forall neb cols i j, (i < neb)%nat -> (j < List.length cols)%nat ->
  nth (i * List.length cols + j) (columns_to_rows neb cols) 0%Q = nth i (nth j cols []) 0%Q.
Proof. exact adf2x_axis_order. Qed.
Print Assumptions C08_adf2x_axis_order.

(* charge-state convention of install_adf11*: scd / plt / pls blocks Z1 are stored under Z1 - 1, the others under Z1 *)
Theorem C08_adf11_charge_convention :
  forall t z1, cherab_charge t z1 = match t with Scd | Plt | Pls => (z1 - 1)%Z | _ => z1 end.
Proof. intros [] z1; unfold cherab_charge; cbn; lia. Qed.
Print Assumptions C08_adf11_charge_convention.

(* keyed tables (charge states, transitions): the last block written under a key is the one returned, the other
   keys are untouched -- for every table and every key *)
Theorem C08_dict_last_write_wins :
  forall e t, tbl_get (e_keys e) (tbl_set e t) = Some e /\
              (forall k, k <> e_keys e -> tbl_get k (tbl_set e t) = tbl_get k t).
Proof. exact tbl_last_write_wins. Qed.
Print Assumptions C08_dict_last_write_wins.

(* block-to-transition assignment of ADF15 goes through ISEL alone: for any number of blocks in any order the
   block whose header carries the requested ISEL decides the result ... *)
Theorem C08_block_lookup_found :
  forall rx bn pre h body post g, Forall (other_isel rx bn) pre ->
  re_match true (r15_block rx) h = Some g -> parse_int (get_cap 4 g) = Some bn ->
  extract_rate rx (pre ++ (h :: body) :: post) bn = extract_rate rx [h :: body] bn.
Proof. exact block_lookup_found. Qed.
Print Assumptions C08_block_lookup_found.

(* ... and a requested block that is absent is an error (RuntimeError), never another block's data *)
Theorem C08_block_lookup_absent_rejected :
  forall rx bn blocks, Forall (other_isel rx bn) blocks -> extract_rate rx blocks bn = Err ERuntime.
Proof. exact block_lookup_absent. Qed.
Print Assumptions C08_block_lookup_absent_rejected.

(* an ADF11 file whose first line names another element (nuclear charge or name) is rejected with ValueError
   before anything is read, whatever follows *)
Theorem C08_adf11_header_mismatch_rejected :
  forall rx z name ls l0 t0 t1 t2 t3 t4 t5 t6 more zn nd nt zmin zmax,
  nth_error ls 0 = Some l0 ->
  split_2ws (strip l0) = t0 :: t1 :: t2 :: t3 :: t4 :: t5 :: t6 :: more ->
  parse_int t0 = Some zn -> parse_int t1 = Some nd -> parse_int t2 = Some nt ->
  parse_int t3 = Some zmin -> parse_int t4 = Some zmax ->
  (zn <> z \/ lower_str (strip_char "/"%char t5) <> name) ->
  parse_adf11 rx z name ls = Err EValue.
Proof. exact adf11_header_mismatch. Qed.
Print Assumptions C08_adf11_header_mismatch_rejected.

(* FILE LEVEL, ADF21 / ADF22: a whole file as the writer model lays it out (header scalars at their columns, any free text
   after them, any separator lines, any grid sizes, any trailing lines) is parsed to exactly the numbers its tokens denote,
   with the documented conventions: density x 1e6, coefficients x norm, sen[i_eb][i_dt] (see C08_adf2x_axis_order).
   Text -> number enters through the hypotheses parse_int / parse_float / floats_of on the printed tokens. *)
Theorem C08_adas2x_file_roundtrip :
  forall (zt svref neb4 ndt4 tref ntt4 eref dref t1 t3 t5 d1 d2 d3 d4 d5 d6 : str) (a0 a5 b0 : Ascii.ascii)
         (eb dt tt svt : list str) (sv : list (list str)) (rest : list str)
         (zt_v : Z) (svref_v tref_v eref_v dref_v : Q) (eb_v dt_v tt_v svt_v : list Q) (sv_v : list (list Q)),
  List.length zt = 2%nat -> List.length svref = 9%nat -> List.length neb4 = 4%nat -> List.length ndt4 = 4%nat ->
  List.length tref = 9%nat -> List.length ntt4 = 4%nat -> List.length eref = 9%nat -> List.length dref = 9%nat ->
  Forall len9 eb -> Forall len9 dt -> Forall len9 tt -> Forall len9 svt ->
  Forall (column_ok (List.length eb)) sv -> List.length sv = List.length dt -> List.length svt = List.length tt ->
  parse_int zt = Some zt_v ->
  parse_int neb4 = Some (Z.of_nat (List.length eb)) -> parse_int ndt4 = Some (Z.of_nat (List.length dt)) ->
  parse_int ntt4 = Some (Z.of_nat (List.length tt)) ->
  parse_float svref = Some svref_v -> parse_float tref = Some tref_v ->
  parse_float eref = Some eref_v -> parse_float dref = Some dref_v ->
  floats_of eb = Some eb_v -> floats_of dt = Some dt_v -> floats_of tt = Some tt_v -> floats_of svt = Some svt_v ->
  mapM floats_of sv = Some sv_v ->
  forall norm : Q,
  parse_adas2x norm (write_adas2x zt svref neb4 ndt4 tref ntt4 eref dref t1 t3 t5 d1 d2 d3 d4 d5 d6 a0 a5 b0 eb dt tt svt sv rest) =
  Ok [ {| e_keys := [];
          e_shape := [zlen eb; zlen dt; zlen tt];
          e_vals := [ eb_v; scale per_cm3 dt_v; tt_v; scale norm (columns_to_rows (List.length eb) sv_v); scale norm svt_v;
                      [eref_v; Qred (per_cm3 * dref_v)%Q; tref_v; Qred (norm * svref_v)%Q] ] |} ].
Proof. exact adas2x_file_roundtrip. Qed.
Print Assumptions C08_adas2x_file_roundtrip.

(* ADF15 token streaming (the three `while n != num` loops): records of padded tokens, none empty, are consumed record by
   record until exactly n values have been read; the stream is left after the last record *)
Theorem C08_take_vals_stream :
  forall recs rest n cnt acc, Forall rec_ok recs -> (cnt + List.length (List.concat (map snd recs)) = n)%nat ->
  take_vals (map (fun rv => tok_line (fst rv)) recs ++ rest) n cnt acc = Ok (acc ++ List.concat (map snd recs), rest).
Proof. exact take_vals_stream. Qed.
Print Assumptions C08_take_vals_stream.

(* BLOCK LEVEL, ADF15: a block whose header carries the requested ISEL and the counts, followed by its density, temperature
   and coefficient records (any values per line), yields the file's numbers: density x 1e6, coefficient x 1e-6, row-major
   (density, temperature); with C08_block_lookup_found this holds wherever the block stands in the file.  The header line
   enters through its regex captures (hypotheses). *)
Theorem C08_adf15_block_roundtrip :
  forall rx bn h g dens temps rates rest more,
  re_match true (r15_block rx) h = Some g ->
  parse_int (get_cap 4 g) = Some bn ->
  parse_int (get_cap 1 g) = Some (Z.of_nat (List.length (List.concat (map snd dens)))) ->
  parse_int (get_cap 2 g) = Some (Z.of_nat (List.length (List.concat (map snd temps)))) ->
  Forall rec_ok dens -> Forall rec_ok temps -> Forall rec_ok rates ->
  List.length (List.concat (map snd rates)) =
    (List.length (List.concat (map snd dens)) * List.length (List.concat (map snd temps)))%nat ->
  extract_rate rx ((h :: map (fun rv => tok_line (fst rv)) dens ++ map (fun rv => tok_line (fst rv)) temps
                       ++ map (fun rv => tok_line (fst rv)) rates ++ rest) :: more) bn
  = Ok ([Z.of_nat (List.length (List.concat (map snd dens))); Z.of_nat (List.length (List.concat (map snd temps)))],
        [scale per_cm3 (List.concat (map snd dens)); List.concat (map snd temps); scale cm3 (List.concat (map snd rates))]).
Proof. exact adf15_block_roundtrip. Qed.
Print Assumptions C08_adf15_block_roundtrip.

(* install.py as tables regenerated from the source (coq/Gen/C08/Layout.v proves dispatch_ok / wiring_ok of the current
   tables): every install_files branch calls the installer named after its key and every kind has exactly one branch;
   every install_adf11<t> hands file type <t> to the notation change and writes to the repository table of that type *)
Theorem C08_dispatch_table_sound :
  forall t, dispatch_ok t = true ->
  (forall k f, In (k, f) t -> f = S_ "install_" ++ k) /\
  (forall k, In k adf_kinds -> List.length (filter (fun kf => streqb k (fst kf)) t) = 1%nat).
Proof. exact dispatch_sound. Qed.
Print Assumptions C08_dispatch_table_sound.

Theorem C08_adf11_wiring_sound :
  forall t, wiring_ok t = true ->
  forall fn ft upd, In (fn, (ft, upd)) t -> fn = S_ "install_adf11" ++ ft /\ In (ft, upd) adf11_updates.
Proof. exact wiring_sound. Qed.
Print Assumptions C08_adf11_wiring_sound.

(* thermal-CX blocks of an ADF15 file are stored as a 3-D table whose two donor-temperature planes both hold the file's
   2-D values (install.py: _thermalcx_adf15_2dto3d_converter) *)
Theorem C08_thermalcx_planes :
  forall rate i k, (i < List.length rate)%nat -> (k < List.length thermalcx_td)%nat ->
  nth (i * List.length thermalcx_td + k) (flat_map (fun r => map (fun _ => r) thermalcx_td) rate) 0%Q = nth i rate 0%Q.
Proof. exact thermalcx_axis. Qed.
Print Assumptions C08_thermalcx_planes.

(* BLOCK LEVEL, ADF12: a block as the writer model lays it out (38 free header characters, the two levels, QEFREF, the five
   references, the five counts, the ten fixed-slot sections in records of six) is read to the block's numbers: every grid
   truncated to its count, densities x 1e6, every q* x 1e-6; the stream is left exactly after the block *)
Theorem C08_adf12_block_roundtrip :
  forall (pre up2 lo2 tailh : str) (c40 : Ascii.ascii) (qef : str) (parm cnts s0 s1 s2 s3 s4 s5 s6 s7 s8 s9 rest : list str)
         (up lo : Z) (qef_v p0 p1 p2 p3 p4 : Q) (n0 n1 n2 n3 n4 : Z) (v0 v1 v2 v3 v4 v5 v6 v7 v8 v9 : list Q),
  List.length pre = 38%nat -> List.length up2 = 2%nat -> List.length lo2 = 2%nat -> len9 qef ->
  List.length parm = 5%nat /\ Forall len9 parm -> List.length cnts = 5%nat /\ Forall len9 cnts ->
  Forall2 section_ok [s0; s1; s2; s3; s4; s5; s6; s7; s8; s9] adf12_sections ->
  parse_int up2 = Some up -> parse_int lo2 = Some lo ->
  floats_of [qef] = Some [qef_v] -> floats_of parm = Some [p0; p1; p2; p3; p4] -> ints_of cnts = Some [n0; n1; n2; n3; n4] ->
  mapM floats_of [s0; s1; s2; s3; s4; s5; s6; s7; s8; s9] = Some [v0; v1; v2; v3; v4; v5; v6; v7; v8; v9] ->
  adf12_block (write_adf12_block pre up2 lo2 tailh c40 qef parm cnts s0 s1 s2 s3 s4 s5 s6 s7 s8 s9 rest) =
  Ok ({| e_keys := [KZ up; KZ lo];
         e_shape := [zlen (take n0 v0); zlen (take n1 v2); zlen (take n2 v4); zlen (take n3 v6); zlen (take n4 v8)];
         e_vals := [take n0 v0; take n1 v2; scale per_cm3 (take n2 v4); take n3 v6; take n4 v8; scale cm3 (take n0 v1);
                    scale cm3 (take n1 v3); scale cm3 (take n2 v5); scale cm3 (take n3 v7); scale cm3 (take n4 v9);
                    [p0; p1; Qred (per_cm3 * p2)%Q; p3; p4; Qred (cm3 * qef_v)%Q]] |}, rest).
Proof. exact adf12_block_roundtrip. Qed.
Print Assumptions C08_adf12_block_roundtrip.

(* FILE LEVEL, ADF12: the I5 count (any number of blocks, also 100 and more) followed by that many blocks -- each a text that
   adf12_block reads as its entry whatever follows, which C08_adf12_block_roundtrip establishes for the writer's blocks --
   gives the table keyed by transition, a later block of a transition replacing an earlier one *)
Theorem C08_adf12_file_roundtrip :
  forall c5 tail blocks rest,
  List.length c5 = 5%nat -> parse_int c5 = Some (Z.of_nat (List.length blocks)) -> Forall is_adf12_block blocks ->
  parse_adf12 ((c5 ++ tail) :: fold_right (fun be r => fst be r) rest blocks)
  = Ok (fold_left (fun a be => tbl_set (snd be) a) blocks []).
Proof. exact adf12_file_roundtrip. Qed.
Print Assumptions C08_adf12_file_roundtrip.

(* BLOCK LOOP, ADF11 (adf11.py lines 81-123 as a state machine): any number of charge-state blocks in any order, then the
   terminator, give the table keyed by the charge each header carries, with the axis order of C08_adf11_axis_order.
   Which regular expression matches which line enters as hypotheses (block11_ok, terminator_ok). *)
Theorem C08_adf11_blocks_roundtrip :
  forall (rx : rx11) (n_t n_d : Z) (dens temps : list Q) (bs : list block11) (t : str) (after : list str),
  Forall (block11_ok rx n_t n_d) bs -> bs <> [] -> terminator_ok rx t after ->
  adf11_loop rx n_t n_d (Some dens) (Some temps) (blocks11_text bs ++ t :: after)
             {| s_start := None; s_charge := 0; s_rates := [] |}
  = Ok (fold_left (fun (a : table) (b : block11) => tbl_set (block11_entry n_t n_d dens temps b) a) bs []).
Proof. exact adf11_blocks_roundtrip. Qed.
Print Assumptions C08_adf11_blocks_roundtrip.

(* FILE LEVEL, ADF11, resolved or unresolved: matching first line, the lines skipped by the resolved test, the grid (first
   n_d tokens densities, the rest temperatures), the blocks, the terminator, anything after.  Hypotheses: the first line's
   fields and the regular-expression facts about the lines. *)
Theorem C08_adf11_file_roundtrip :
  forall rx z name ls l0 t0 t1 t2 t3 t4 t5 t6 more zmin zmax n_d n_t l3 grid bs t after dens temps,
  nth_error ls 0 = Some l0 ->
  split_2ws (strip l0) = t0 :: t1 :: t2 :: t3 :: t4 :: t5 :: t6 :: more ->
  parse_int t0 = Some z -> parse_int t1 = Some n_d -> parse_int t2 = Some n_t ->
  parse_int t3 = Some zmin -> parse_int t4 = Some zmax ->
  lower_str (strip_char "/"%char t5) = name ->
  nth_error ls 3 = Some l3 ->
  skipn (if re_matches false (r11_resolved rx) l3 then 2 else 4) ls = grid ++ blocks11_text bs ++ t :: after ->
  Forall (fun g => re_matches false (r11_first_sep rx) g = false) grid ->
  (exists b bs', bs = b :: bs' /\ re_matches false (r11_first_sep rx) (b_hdr b) = true) ->
  fromstring grid = dens ++ temps -> List.length dens = nat_of n_d ->
  Forall (block11_ok rx n_t n_d) bs -> terminator_ok rx t after ->
  parse_adf11 rx z name ls = Ok (fold_left (fun a b => tbl_set (block11_entry n_t n_d dens temps b) a) bs []).
Proof. exact adf11_file_roundtrip. Qed.
Print Assumptions C08_adf11_file_roundtrip.

(* MATCHER: greedy unbounded repetition of a one-character test in the backtracking matcher equals the direct longest-first
   search, for every minimum count, string and continuation *)
Theorem C08_matcher_star :
  forall (R : Type) (ci : bool) (a : re) (tst : Ascii.ascii -> bool),
  (forall pos s cp (k : kont R), m R ci a pos s cp k = match s with c :: t => if tst c then k (S pos) t cp else None | [] => None end) ->
  forall mn s pos cp k, m R ci (RRep mn None (RSeq [a])) pos s cp k = star_spec tst mn 0 pos s cp k.
Proof. exact rep_unbounded. Qed.
Print Assumptions C08_matcher_star.

(* the block-header / separator expression of parse_adf11 (the AST sep_ref; coq/Gen/C08/RegexTie.v proves that the expression
   translated from the current source IS sep_ref) decides, on EVERY string, exactly: blanks, then C's, then >= 2 dashes *)
Theorem C08_separator_regex_is_direct : forall l, re_matches false sep_ref l = sep_direct l.
Proof. exact sep_matcher_is_direct. Qed.
Print Assumptions C08_separator_regex_is_direct.

(* hence a data line (blanks, then a character that is neither a blank nor C, and not two dashes) never ends a block, and
   blanks + C's + two dashes always do: two of the regular-expression hypotheses of the ADF11 theorems, discharged *)
Theorem C08_separator_rejects_data :
  forall pad c1 c2 rest, Forall (fun c => t_ws c = true) pad -> t_ws c1 = false -> t_C c1 = false ->
  (t_dash c1 = false \/ t_dash c2 = false) -> re_matches false sep_ref (pad ++ c1 :: c2 :: rest) = false.
Proof. exact sep_rejects_data. Qed.
Print Assumptions C08_separator_rejects_data.

Theorem C08_separator_accepts_header :
  forall pad cs rest, Forall (fun c => t_ws c = true) pad -> Forall (fun c => t_C c = true) cs ->
  re_matches false sep_ref (pad ++ cs ++ cDash :: cDash :: rest) = true.
Proof. exact sep_accepts_header. Qed.
Print Assumptions C08_separator_accepts_header.

(* TEXT -> NUMBER on the token shapes the FORTRAN formats print: the models' int()/float() return the decimal value of the
   printed digits (Horner evaluation of the digit string, scaled by the power of ten), exactly.  These discharge the
   parse_int / parse_float hypotheses of the file-level theorems for such tokens.  Outside Coq remains only that CPython's
   float() is the double nearest to that decimal value (compared at 2^-50 by the correspondence). *)
Theorem C08_parse_int_digits :
  forall pad ds d, Forall (fun c => is_ws c = true) pad -> Forall digitc ds -> digitc d ->
  parse_int (pad ++ ds ++ [d]) = Some (horner 0 (ds ++ [d])).
Proof. exact parse_int_digits. Qed.
Print Assumptions C08_parse_int_digits.

Theorem C08_parse_float_fixed :
  forall neg i0 ip fp d, digitc i0 -> Forall digitc ip -> Forall digitc fp -> digitc d ->
  parse_float (sgn neg ++ (i0 :: ip) ++ "."%char :: fp ++ [d]) =
  Some (Qred (signed neg (inject_Z (horner 0 ((i0 :: ip) ++ fp ++ [d])) * Qpower (10 # 1) (0 - Z.of_nat (List.length (fp ++ [d])))))).
Proof. exact parse_float_fixed. Qed.
Print Assumptions C08_parse_float_fixed.

Theorem C08_parse_float_exp :
  forall (neg : bool) i0 ip fp ec (eneg : bool) esign ed e0,
  digitc i0 -> Forall digitc ip -> Forall digitc fp -> aeqb (lower ec) "e"%char = true ->
  esign = (if eneg then ["-"%char] else ["+"%char]) -> Forall digitc ed -> digitc e0 ->
  parse_float (sgn neg ++ (i0 :: ip) ++ "."%char :: fp ++ ec :: esign ++ ed ++ [e0]) =
  Some (Qred (signed neg (inject_Z (horner 0 ((i0 :: ip) ++ fp)) *
                          Qpower (10 # 1) ((if eneg then - horner 0 (ed ++ [e0]) else horner 0 (ed ++ [e0]))%Z - Z.of_nat (List.length fp))))).
Proof. exact parse_float_exp. Qed.
Print Assumptions C08_parse_float_exp.

(* non-vacuity: eleven 9-character fields in records of 8 (one full, one short record); a padded token stream
   over two lines; an ADF11 first line for carbon requested as neon *)
Example C08_nonvacuous :
  let f := S_ "1.234D-05" in
  (1 <= 8)%nat /\ Forall len9 (repeat f 11) /\ List.length (write_values 8 (repeat f 11)) = 2%nat /\
  tokens_ok [(S_ "  ", S_ "7.69897"); ([nl; sp], S_ "-0.52288")] /\
  (exists l0 t5 more, split_2ws (strip l0) = S_ "6" :: S_ "24" :: S_ "30" :: S_ "1" :: S_ "6" :: t5 :: S_ "/GCR PROJECT" :: more
                      /\ lower_str (strip_char "/"%char t5) <> S_ "neon").
Proof.
  cbv zeta. repeat split; try lia.
  - repeat constructor.
  - repeat constructor; discriminate.
  - exists (S_ "    6   24   30    1    6     /CARBON             /GCR PROJECT"), (S_ "/CARBON"), [].
    split; [vm_compute; reflexivity | vm_compute; discriminate].
Qed.

(* non-vacuity of the file-level theorems: tokens as the writers print them satisfy the text -> number hypotheses *)
Example C08_files_nonvacuous :
  let f := S_ "1.234D-05" in
  parse_int (S_ " 6") = Some 6%Z /\ parse_int (S_ "   1") = Some (Z.of_nat (List.length [f])) /\
  (exists v, parse_float (S_ "6.049E-08") = Some v) /\ (exists vs, floats_of [f] = Some vs) /\ column_ok 1 [f] /\
  rec_ok ([(S_ " ", S_ "1.00E+11"); (S_ " ", S_ "2.50E+11")], [(100000000000 # 1)%Q; (250000000000 # 1)%Q]).
Proof.
  cbv zeta. repeat split; try (vm_compute; reflexivity); try (eexists; vm_compute; reflexivity).
  - repeat constructor.
  - repeat constructor; discriminate.
  - discriminate.
Qed.

(* non-vacuity of the ADF11 hypotheses: with the regular expressions of the source (copy in Proofs/C08_Findings.v) a block
   header, two data lines for a 3 x 2 grid, and the 'C---' terminator satisfy block11_ok / terminator_ok *)
Example C08_adf11_nonvacuous :
  let nlc := String (Ascii.ascii_of_nat 10) EmptyString in
  let b := {| b_hdr := S_ ("--------------------/ IGRD= 1  / IPRT= 1  /--------/ Z1= 2   / DATE= 13/08/96" ++ nlc)%string; b_z := 2;
              b_data := [S_ (" -10.00000 -11.00000 -12.00000" ++ nlc)%string; S_ (" -13.00000 -14.00000 -15.00000" ++ nlc)%string] |} in
  block11_ok rx11_unfixed 2 3 b /\ terminator_ok rx11_unfixed (S_ ("C-----------------------" ++ nlc)%string) [].
Proof.
  cbv zeta. unfold block11_ok, terminator_ok. repeat split; try (vm_compute; reflexivity).
  - eexists. split; vm_compute; reflexivity.
  - eexists. eexists. split; [reflexivity | vm_compute; reflexivity].
  - repeat constructor.
  - left. vm_compute. reflexivity.
Qed.
