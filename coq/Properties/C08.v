(* Property C08 -- ADF parsers return the file's numbers under the documented conventions.
   This file contains nothing but the property theorems, each closed by [exact] of a lemma from Proofs/,
   with Print Assumptions beneath.

   What is theorem here: the layers of the parser models that do the positional work -- fixed-width records
   (ADF12/21/22), blank-separated token streams (ADF11/ADF15), the row-major index maps that fix the axis
   order, keyed tables, look-up of an ADF15 block by ISEL, the ADF11 charge-state convention and element check.
   What is NOT theorem (tied by translator + correspondence only): recognition of header / separator / comment
   index lines by regular expressions, and text -> number.  Hence the file-level round trips
   parse_adfNN (write_adfNN t) = t are checked case by case (model run by Coq on generated files), not proved. *)
Require Import Cherab.Common.Qx.
Require Import Cherab.Model.C08_Text Cherab.Model.C08_Adf.
Require Import Cherab.Proofs.C08_Records Cherab.Proofs.C08_Tables.
From Coq Require Import Ascii String.

(* ADF12 / ADF21 / ADF22 data records: for every record width p >= 1 and every number of 9-character fields
   (multiple of p or not), reading back the records the writer lays out returns the field texts (D -> E) and
   leaves the stream exactly after the last record *)
Theorem C08_readvalues_roundtrip :
  forall p fields rest, (1 <= p)%nat -> Forall len9 fields ->
  readvalues (List.length fields) p (write_values p fields ++ rest) = (map repl fields, rest).
Proof. exact write_values_roundtrip. Qed.
Print Assumptions C08_readvalues_roundtrip.

(* the same for any list of records in which every record but the last is full (any writer of that shape) *)
Theorem C08_readvalues_any_records :
  forall recs p rest, records_ok p recs ->
  readvalues (List.length (List.concat recs)) p (map write_record recs ++ rest) = (map repl (List.concat recs), rest).
Proof. exact readvalues_roundtrip. Qed.
Print Assumptions C08_readvalues_any_records.

(* ADF11 / ADF15 data: tokens separated by any non-empty blank padding (blanks, newlines: any number of values
   per line, any line breaks) are recovered exactly and in order *)
Theorem C08_tokens_roundtrip :
  forall l trailing, tokens_ok l -> all_ws trailing -> split_ws (padded l ++ trailing) = map snd l.
Proof. exact tokens_roundtrip. Qed.
Print Assumptions C08_tokens_roundtrip.

(* documented axis order (density, temperature) of ADF11: for all grid sizes, entry [i_d][i_t] of the returned
   table is the i_d-th value of the i_t-th temperature row of the block *)
Theorem C08_adf11_axis_order :
  forall n_t n_d toks i_d i_t, (i_d < n_d)%nat -> (i_t < n_t)%nat ->
  nth (i_d * n_t + i_t) (swap_flat n_t n_d toks) 0%Q = nth (i_t * n_d + i_d) toks 0%Q.
Proof. exact adf11_axis_order. Qed.
Print Assumptions C08_adf11_axis_order.

(* ADF21/22: sen[i_eb][i_dt] is the i_eb-th value of the i_dt-th group of records *)
Theorem C08_adf2x_axis_order :
  forall neb cols i j, (i < neb)%nat -> (j < List.length cols)%nat ->
  nth (i * List.length cols + j) (columns_to_rows neb cols) 0%Q = nth i (nth j cols []) 0%Q.
Proof. exact adf2x_axis_order. Qed.
Print Assumptions C08_adf2x_axis_order.

(* charge-state convention of install_adf11*: scd / plt / pls blocks Z1 are stored under Z1 - 1, the others under Z1 *)
Theorem C08_adf11_charge_convention :
  forall t z1, cherab_charge t z1 = match t with Scd | Plt | Pls => (z1 - 1)%Z | _ => z1 end.
Proof. intros [] z1; unfold cherab_charge, charge_correction; lia. Qed.
Print Assumptions C08_adf11_charge_convention.

(* keyed tables (charge states, transitions): the last block written under a key is the one returned, the other
   keys are untouched -- for every table and every key *)
Theorem C08_dict_last_write_wins :
  forall e t, tbl_get (e_keys e) (tbl_set e t) = Some e /\
              (forall k, k <> e_keys e -> tbl_get k (tbl_set e t) = tbl_get k t).
Proof. exact tbl_last_write_wins. Qed.
Print Assumptions C08_dict_last_write_wins.

(* block-to-transition assignment of ADF15 goes through ISEL alone: for any number of blocks in any order the
   block whose header carries the requested ISEL decides the result ... *)
Theorem C08_block_lookup_found :
  forall rx bn pre h body post g, Forall (other_isel rx bn) pre ->
  re_match true (r15_block rx) h = Some g -> parse_int (get_cap 4 g) = Some bn ->
  extract_rate rx (pre ++ (h :: body) :: post) bn = extract_rate rx [h :: body] bn.
Proof. exact block_lookup_found. Qed.
Print Assumptions C08_block_lookup_found.

(* ... and a requested block that is absent is an error (RuntimeError), never another block's data *)
Theorem C08_block_lookup_absent_rejected :
  forall rx bn blocks, Forall (other_isel rx bn) blocks -> extract_rate rx blocks bn = Err ERuntime.
Proof. exact block_lookup_absent. Qed.
Print Assumptions C08_block_lookup_absent_rejected.

(* an ADF11 file whose first line names another element (nuclear charge or name) is rejected with ValueError
   before anything is read, whatever follows *)
Theorem C08_adf11_header_mismatch_rejected :
  forall rx z name ls l0 t0 t1 t2 t3 t4 t5 t6 more zn nd nt zmin zmax,
  nth_error ls 0 = Some l0 ->
  split_2ws (strip l0) = t0 :: t1 :: t2 :: t3 :: t4 :: t5 :: t6 :: more ->
  parse_int t0 = Some zn -> parse_int t1 = Some nd -> parse_int t2 = Some nt ->
  parse_int t3 = Some zmin -> parse_int t4 = Some zmax ->
  (zn <> z \/ lower_str (strip_char "/"%char t5) <> name) ->
  parse_adf11 rx z name ls = Err EValue.
Proof. exact adf11_header_mismatch. Qed.
Print Assumptions C08_adf11_header_mismatch_rejected.

(* non-vacuity: eleven 9-character fields in records of 8 (one full, one short record); a padded token stream
   over two lines; an ADF11 first line for carbon requested as neon *)
Example C08_nonvacuous :
  let f := S_ "1.234D-05" in
  (1 <= 8)%nat /\ Forall len9 (repeat f 11) /\ List.length (write_values 8 (repeat f 11)) = 2%nat /\
  tokens_ok [(S_ "  ", S_ "7.69897"); ([nl; sp], S_ "-0.52288")] /\
  (exists l0 t5 more, split_2ws (strip l0) = S_ "6" :: S_ "24" :: S_ "30" :: S_ "1" :: S_ "6" :: t5 :: S_ "/GCR PROJECT" :: more
                      /\ lower_str (strip_char "/"%char t5) <> S_ "neon").
Proof.
  cbv zeta. repeat split; try lia.
  - repeat constructor.
  - repeat constructor; discriminate.
  - exists (S_ "    6   24   30    1    6     /CARBON             /GCR PROJECT"), (S_ "/CARBON"), [].
    split; [vm_compute; reflexivity | vm_compute; discriminate].
Qed.
