(* Property C14 -- Caching functions are history-independent and interpolate the cached function.
   This file contains nothing but the property theorems, each closed by [exact]/[apply] of a lemma
   from Proofs/, with Print Assumptions beneath.

   Reading guide.  x, y, z : Z -> Q are the node arrays of the axes (index 0 and top are the two
   guard nodes, 1 .. top-1 the sampling nodes; cells 1 .. top-2 are the permitted ones), fb the
   function_boundaries (None or Some (lo, hi)), nbe no_boundary_error, f the wrapped function.
   [eval_afterN fb nbe x.. top.. f hist p] is what the model of CachingND returns at p after the
   points of [hist] have been evaluated in that order on a new object (Val v: value of the cached
   polynomial, Direct v: the wrapped function called at p itself, Err: ValueError).
   [specN] is the (tensor product of the) cubic through the wrapped function's values at the raw
   nodes, with central-difference slopes: no cache, no normalisation. *)
Require Import Cherab.Common.Qx.
Require Import Cherab.Model.C14_Cache Cherab.Model.C14_Caching.
Require Import Cherab.Model.C14_System.
Require Import Cherab.Proofs.C14_History Cherab.Proofs.C14_Hermite Cherab.Proofs.C14_Find Cherab.Proofs.C14_Grid
               Cherab.Proofs.C14_Dim1 Cherab.Proofs.C14_Tensor Cherab.Proofs.C14_Error Cherab.Proofs.C14_ErrorDims
               Cherab.Proofs.C14_System Cherab.Proofs.C14_FarOrigin.
Open Scope Q_scope.

(* ---- 1. history independence: for EVERY list of previously evaluated points (inside or outside the
        area, any order, any length), every node array, every wrapped function ---- *)
Theorem C14_history_independent_1d :
  forall fb nbe x top f (hist : list Q) (p : Q),
  eval_after1 fb nbe x top f hist p = pure1 fb nbe x top f p.
Proof. exact history_independent_1d. Qed.
Print Assumptions C14_history_independent_1d.

Theorem C14_history_independent_2d :
  forall fb nbe x y topx topy f (hist : list (Q * Q)) (p : Q * Q),
  eval_after2 fb nbe x y topx topy f hist p = pure2 fb nbe x y topx topy f p.
Proof. exact history_independent_2d. Qed.
Print Assumptions C14_history_independent_2d.

Theorem C14_history_independent_3d :
  forall fb nbe x y z topx topy topz f (hist : list (Q * Q * Q)) (p : Q * Q * Q),
  eval_after3 fb nbe x y z topx topy topz f hist p = pure3 fb nbe x y z topx topy topz f p.
Proof. exact history_independent_3d. Qed.
Print Assumptions C14_history_independent_3d.

(* ---- 2. what is returned inside: the cubic of the cell, independent of history and of both normalisations ---- *)
Theorem C14_value_is_cell_cubic_1d :
  forall x top, increasing x top -> (3 <= top)%Z -> forall fb nbe f hist p i,
  locate1 x top p = Some i ->
  exists v, eval_after1 fb nbe x top f hist p = Val v /\ v == spec1 x f i p.
Proof. exact after1_spec. Qed.
Print Assumptions C14_value_is_cell_cubic_1d.

Theorem C14_value_is_tensor_cubic_2d :
  forall x y topx topy, increasing x topx -> increasing y topy -> (3 <= topx)%Z -> (3 <= topy)%Z ->
  forall fb nbe f hist p c, locate2 x y topx topy p = Some c ->
  exists v, eval_after2 fb nbe x y topx topy f hist p = Val v /\ v == spec2 x y f c p.
Proof. exact after2_spec. Qed.
Print Assumptions C14_value_is_tensor_cubic_2d.

Theorem C14_value_is_tensor_cubic_3d :
  forall x y z topx topy topz, increasing x topx -> increasing y topy -> increasing z topz ->
  (3 <= topx)%Z -> (3 <= topy)%Z -> (3 <= topz)%Z ->
  forall fb nbe f hist p c, locate3 x y z topx topy topz p = Some c ->
  exists v, eval_after3 fb nbe x y z topx topy topz f hist p = Val v /\ v == spec3 x y z f c p.
Proof. exact after3_spec. Qed.
Print Assumptions C14_value_is_tensor_cubic_3d.

(* ---- 3. equals the wrapped function at every sampling node of the permitted cells ---- *)
Theorem C14_interpolates_nodes_1d :
  forall x top, increasing x top -> (3 <= top)%Z -> forall fb nbe f hist i, (1 <= i <= top - 2)%Z ->
  exists v, eval_after1 fb nbe x top f hist (x i) = Val v /\ v == f (x i).
Proof. exact after1_node. Qed.
Print Assumptions C14_interpolates_nodes_1d.

Theorem C14_interpolates_nodes_2d :
  forall x y topx topy, increasing x topx -> increasing y topy -> (3 <= topx)%Z -> (3 <= topy)%Z ->
  forall fb nbe f hist i j, (1 <= i <= topx - 2)%Z -> (1 <= j <= topy - 2)%Z ->
  exists v, eval_after2 fb nbe x y topx topy f hist (x i, y j) = Val v /\ v == f (x i, y j).
Proof. exact after2_node. Qed.
Print Assumptions C14_interpolates_nodes_2d.

Theorem C14_interpolates_nodes_3d :
  forall x y z topx topy topz, increasing x topx -> increasing y topy -> increasing z topz ->
  (3 <= topx)%Z -> (3 <= topy)%Z -> (3 <= topz)%Z ->
  forall fb nbe f hist i j k, (1 <= i <= topx - 2)%Z -> (1 <= j <= topy - 2)%Z -> (1 <= k <= topz - 2)%Z ->
  exists v, eval_after3 fb nbe x y z topx topy topz f hist (x i, y j, z k) = Val v /\ v == f (x i, y j, z k).
Proof. exact after3_node. Qed.
Print Assumptions C14_interpolates_nodes_3d.

(* ---- 4. a function linear in each coordinate is reproduced exactly, everywhere a value is returned ---- *)
Theorem C14_reproduces_linear_1d :
  forall x top, increasing x top -> (3 <= top)%Z -> forall fb nbe f A B hist p v,
  (forall t, f t == A + B * t) -> eval_after1 fb nbe x top f hist p = Val v -> v == f p.
Proof. exact after1_linear. Qed.
Print Assumptions C14_reproduces_linear_1d.

Theorem C14_reproduces_bilinear_2d :
  forall x y topx topy, increasing x topx -> increasing y topy -> (3 <= topx)%Z -> (3 <= topy)%Z ->
  forall fb nbe f A B C D hist p v,
  (forall a b, f (a, b) == A + B * a + C * b + D * a * b) ->
  eval_after2 fb nbe x y topx topy f hist p = Val v -> v == f p.
Proof. exact after2_bilinear. Qed.
Print Assumptions C14_reproduces_bilinear_2d.

Theorem C14_reproduces_trilinear_3d :
  forall x y z topx topy topz, increasing x topx -> increasing y topy -> increasing z topz ->
  (3 <= topx)%Z -> (3 <= topy)%Z -> (3 <= topz)%Z ->
  forall fb nbe f c0 cx cy cz cxy cxz cyz cxyz hist p v,
  (forall a b c, f (a, b, c) == c0 + cx * a + cy * b + cz * c + cxy * a * b + cxz * a * c + cyz * b * c + cxyz * a * b * c) ->
  eval_after3 fb nbe x y z topx topy topz f hist p = Val v -> v == f p.
Proof. exact after3_trilinear. Qed.
Print Assumptions C14_reproduces_trilinear_3d.

(* ---- 5. function bounds only rescale internally: same result for any two settings (and any two histories) ---- *)
Theorem C14_function_bounds_irrelevant_1d :
  forall x top, increasing x top -> (3 <= top)%Z -> forall fb nbe f fb' hist hist' p,
  result_equiv (eval_after1 fb nbe x top f hist p) (eval_after1 fb' nbe x top f hist' p).
Proof. exact after1_bounds_irrelevant. Qed.
Print Assumptions C14_function_bounds_irrelevant_1d.

Theorem C14_function_bounds_irrelevant_2d :
  forall x y topx topy, increasing x topx -> increasing y topy -> (3 <= topx)%Z -> (3 <= topy)%Z ->
  forall fb nbe f fb' hist hist' p,
  result_equiv (eval_after2 fb nbe x y topx topy f hist p) (eval_after2 fb' nbe x y topx topy f hist' p).
Proof. exact after2_bounds_irrelevant. Qed.
Print Assumptions C14_function_bounds_irrelevant_2d.

Theorem C14_function_bounds_irrelevant_3d :
  forall x y z topx topy topz, increasing x topx -> increasing y topy -> increasing z topz ->
  (3 <= topx)%Z -> (3 <= topy)%Z -> (3 <= topz)%Z -> forall fb nbe f fb' hist hist' p,
  result_equiv (eval_after3 fb nbe x y z topx topy topz f hist p) (eval_after3 fb' nbe x y z topx topy topz f hist' p).
Proof. exact after3_bounds_irrelevant. Qed.
Print Assumptions C14_function_bounds_irrelevant_3d.

(* ---- 6. outside the node range [x 1, x (top-1)) : ValueError, or the wrapped function itself; inside: a value ---- *)
Theorem C14_outside_policy_1d :
  forall x top, increasing x top -> (3 <= top)%Z -> forall fb nbe f hist p,
  (p < x 1%Z \/ x (top - 1)%Z <= p -> eval_after1 fb nbe x top f hist p = if nbe then Direct (f p) else Err) /\
  (x 1%Z <= p -> p < x (top - 1)%Z -> exists v, eval_after1 fb nbe x top f hist p = Val v).
Proof. intros; split; [apply after1_outside | apply after1_inside]; assumption. Qed.
Print Assumptions C14_outside_policy_1d.

Theorem C14_outside_policy_2d :
  forall x y topx topy, increasing x topx -> increasing y topy -> (3 <= topx)%Z -> (3 <= topy)%Z ->
  forall fb nbe f hist p,
  (fst p < x 1%Z \/ x (topx - 1)%Z <= fst p) \/ (snd p < y 1%Z \/ y (topy - 1)%Z <= snd p) ->
  eval_after2 fb nbe x y topx topy f hist p = if nbe then Direct (f p) else Err.
Proof. exact after2_outside. Qed.
Print Assumptions C14_outside_policy_2d.

Theorem C14_outside_policy_3d :
  forall x y z topx topy topz, increasing x topx -> increasing y topy -> increasing z topz ->
  (3 <= topx)%Z -> (3 <= topy)%Z -> (3 <= topz)%Z -> forall fb nbe f hist px py pz,
  (px < x 1%Z \/ x (topx - 1)%Z <= px) \/ (py < y 1%Z \/ y (topy - 1)%Z <= py) \/ (pz < z 1%Z \/ z (topz - 1)%Z <= pz) ->
  eval_after3 fb nbe x y z topx topy topz f hist (px, py, pz) = if nbe then Direct (f (px, py, pz)) else Err.
Proof. exact after3_outside. Qed.
Print Assumptions C14_outside_policy_3d.

(* ---- 7. every accepted caching area / resolution gives a strictly increasing node array with >= 4 nodes,
        so the hypotheses above are met by every object the constructor accepts ---- *)
Theorem C14_accepted_axis_is_increasing :
  forall lo hi delta, axis_ok lo hi delta = true ->
  increasing (axis lo hi delta) (axis_top lo hi delta) /\ (3 <= axis_top lo hi delta)%Z.
Proof. exact axis_increasing. Qed.
Print Assumptions C14_accepted_axis_is_increasing.

(* ---- 8. the closed form used by the 1-D model IS the solution of the 4x4 system the code hands to
        numpy.linalg.solve, and that system has no other solution ---- *)
Theorem C14_closed_form_solves_the_1d_system :
  forall t0 t1 d0 s0 d1 s1, ~ t1 - t0 == 0 ->
  let '(a0, a1, a2, a3) := solve4 t0 t1 d0 s0 d1 s1 in
  a0 + a1 * t0 + a2 * (t0 * t0) + a3 * (t0 * t0 * t0) == d0 /\
  a1 + a2 * (2 * t0) + a3 * (3 * (t0 * t0)) == s0 /\
  a0 + a1 * t1 + a2 * (t1 * t1) + a3 * (t1 * t1 * t1) == d1 /\
  a1 + a2 * (2 * t1) + a3 * (3 * (t1 * t1)) == s1.
Proof. exact solve4_solves. Qed.
Print Assumptions C14_closed_form_solves_the_1d_system.

Theorem C14_1d_system_has_one_solution :
  forall t0 t1 a0 a1 a2 a3, ~ t1 - t0 == 0 ->
  let '(b0, b1, b2, b3) := solve4 t0 t1 (a0 + a1 * t0 + a2 * (t0 * t0) + a3 * (t0 * t0 * t0))
                                  (a1 + a2 * (2 * t0) + a3 * (3 * (t0 * t0)))
                                  (a0 + a1 * t1 + a2 * (t1 * t1) + a3 * (t1 * t1 * t1))
                                  (a1 + a2 * (2 * t1) + a3 * (3 * (t1 * t1))) in
  b0 == a0 /\ b1 == a1 /\ b2 == a2 /\ b3 == a3.
Proof. exact solve4_unique. Qed.
Print Assumptions C14_1d_system_has_one_solution.

(* ---- 9. PARTIAL: "approximates any twice-differentiable function to within a small multiple of
        h^2 max|f''|".  Proved (1-D, cells whose four nodes are equally spaced, i.e. all cells except the
        first and the last one of an axis): (a) quadratics are reproduced exactly; (b) stability: for ANY
        affine function L the returned value is within 5/4 of the largest deviation of the four samples
        from L.  Missing: Taylor's theorem with remainder over the reals (choose L = tangent of f at p:
        |f - L| <= max|f''| (2h)^2 / 2 on the four nodes, which with (b) gives
        |v - f p| <= (5/4) * 2 h^2 max|f''|); the non-uniform first/last cell; 2-D/3-D (by the tensor
        structure the 1-D bound applies axis by axis, not proved here). ---- *)
Theorem C14_error_bound_partial :
  forall x top, increasing x top -> (3 <= top)%Z -> forall fb nbe f hist p i h v,
  uniform_cell x i h -> locate1 x top p = Some i -> eval_after1 fb nbe x top f hist p = Val v ->
  (forall A B C, (forall t, f t == A + B * t + C * t * t) -> v == f p) /\
  (forall a b E, (forall k, (i - 1 <= k <= i + 2)%Z -> - E <= f (x k) - (a + b * x k) <= E) ->
                 - ((5 # 4) * E) <= v - (a + b * p) <= (5 # 4) * E).
Proof. exact after1_error_partial. Qed.
Print Assumptions C14_error_bound_partial.

(* ---- 10. Error bound for EVERY cell (first and last included) of EVERY increasing grid, 1-D / 2-D / 3-D, after any
        history.  The only hypothesis about the wrapped function is Taylor's inequality along the axes at the
        evaluation point: [taylor4 x i phi t g M] says |phi(x_k) - phi(t) - g (x_k - t)| <= (M/2) (x_k - t)^2 at the four
        nodes x_(i-1) .. x_(i+2) of the cell (for a twice differentiable phi with |phi''| <= M this is Taylor's theorem
        with Lagrange remainder, g = phi'(t)); H bounds the three node spacings of the stencil.  Then
        |value - f(p)| <= 3 Mx Hx^2  (+ 9/2 My Hy^2 (+ 27/4 Mz Hz^2)).
        WHAT REMAINS of the property's clause: Taylor's theorem itself (analysis over the reals: that such g exists for
        every twice differentiable function); everything algebraic, all cells, all dimensions, is proved here. ---- *)
Theorem C14_cubic_stability_any_nodes :
  forall xm x0 x1 x2 a b dm d0 d1 d2 t E, xm < x0 -> x0 < x1 -> x1 < x2 -> x0 <= t <= x1 ->
  - E <= dm - (a + b * xm) <= E -> - E <= d0 - (a + b * x0) <= E ->
  - E <= d1 - (a + b * x1) <= E -> - E <= d2 - (a + b * x2) <= E ->
  - ((3 # 2) * E) <= HL xm x0 x1 x2 dm d0 d1 d2 t - (a + b * t) <= (3 # 2) * E.
Proof. exact HL_general_stability. Qed.
Print Assumptions C14_cubic_stability_any_nodes.

Theorem C14_error_bound_from_taylor_1d :
  forall x top, increasing x top -> (3 <= top)%Z -> forall fb nbe f hist p i v g M H,
  locate1 x top p = Some i -> eval_after1 fb nbe x top f hist p = Val v ->
  spacing_le x i H -> 0 <= M -> taylor4 x i f p g M ->
  - (3 * M * (H * H)) <= v - f p <= 3 * M * (H * H).
Proof. exact after1_error_bound. Qed.
Print Assumptions C14_error_bound_from_taylor_1d.

Theorem C14_error_bound_from_taylor_2d :
  forall x y topx topy, increasing x topx -> increasing y topy -> (3 <= topx)%Z -> (3 <= topy)%Z ->
  forall fb nbe f hist px py i j v gx gy Mx My Hx Hy,
  locate2 x y topx topy (px, py) = Some (i, j) ->
  eval_after2 fb nbe x y topx topy f hist (px, py) = Val v ->
  spacing_le x i Hx -> spacing_le y j Hy -> 0 <= Mx -> 0 <= My ->
  (forall u, (i - 1 <= u <= i + 2)%Z -> taylor4 y j (fun b => f (x u, b)) py (gy u) My) ->
  taylor4 x i (fun a => f (a, py)) px gx Mx ->
  - (3 * Mx * (Hx * Hx) + (9 # 2) * My * (Hy * Hy)) <= v - f (px, py)
  <= 3 * Mx * (Hx * Hx) + (9 # 2) * My * (Hy * Hy).
Proof. exact after2_error_bound. Qed.
Print Assumptions C14_error_bound_from_taylor_2d.

Theorem C14_error_bound_from_taylor_3d :
  forall x y z topx topy topz, increasing x topx -> increasing y topy -> increasing z topz ->
  (3 <= topx)%Z -> (3 <= topy)%Z -> (3 <= topz)%Z ->
  forall fb nbe f hist px py pz i j k v gx gy gz Mx My Mz Hx Hy Hz,
  locate3 x y z topx topy topz (px, py, pz) = Some (i, j, k) ->
  eval_after3 fb nbe x y z topx topy topz f hist (px, py, pz) = Val v ->
  spacing_le x i Hx -> spacing_le y j Hy -> spacing_le z k Hz -> 0 <= Mx -> 0 <= My -> 0 <= Mz ->
  (forall u w, (i - 1 <= u <= i + 2)%Z -> (j - 1 <= w <= j + 2)%Z ->
               taylor4 z k (fun c => f (x u, y w, c)) pz (gz u w) Mz) ->
  (forall u, (i - 1 <= u <= i + 2)%Z -> taylor4 y j (fun b => f (x u, b, pz)) py (gy u) My) ->
  taylor4 x i (fun a => f (a, py, pz)) px gx Mx ->
  - (3 * Mx * (Hx * Hx) + (9 # 2) * My * (Hy * Hy) + (27 # 4) * Mz * (Hz * Hz)) <= v - f (px, py, pz)
  <= 3 * Mx * (Hx * Hx) + (9 # 2) * My * (Hy * Hy) + (27 # 4) * Mz * (Hz * Hz).
Proof. exact after3_error_bound. Qed.
Print Assumptions C14_error_bound_from_taylor_3d.

(* ---- 11. The 16x16 / 64x64 systems of Caching2D / Caching3D (Model/C14_System.v; the rows, right-hand sides and
        EPSILON are regenerated from the source and tied in coq/Gen/C14/C14_SrcTie.v on every run): the coefficient
        array of the tensor-product cubic satisfies every row at every knot (dx, dy, dz: derivative flags of the row;
        kx, ky, kz: which knot), the systems have no other solution, and the polynomial with these coefficients is
        what the model's stored block evaluates ---- *)
Theorem C14_tensor_cubic_solves_the_2d_system :
  forall dx dy kx ky xn yn D, nd_ok xn -> nd_ok yn ->
  dotl (row2 dx dy (knot_of xn kx) (knot_of yn ky)) (flat2 (coef2 xn yn D)) == cv2 dx dy kx ky xn yn D.
Proof. exact system_2d. Qed.
Print Assumptions C14_tensor_cubic_solves_the_2d_system.

Theorem C14_tensor_cubic_solves_the_3d_system :
  forall dx dy dz kx ky kz xn yn zn D, nd_ok xn -> nd_ok yn -> nd_ok zn ->
  dotl (row3 dx dy dz (knot_of xn kx) (knot_of yn ky) (knot_of zn kz)) (flat3 (coef3 xn yn zn D))
  == cv3 dx dy dz kx ky kz xn yn zn D.
Proof. exact system_3d. Qed.
Print Assumptions C14_tensor_cubic_solves_the_3d_system.

Theorem C14_2d_system_has_one_solution :
  forall xn yn (C C' : Z -> Z -> Q), nd_ok xn -> nd_ok yn ->
  (forall dx dy kx ky,
     dotv (compv dx (knot_of xn kx)) (fun i => dotv (compv dy (knot_of yn ky)) (fun j => C i j))
     == dotv (compv dx (knot_of xn kx)) (fun i => dotv (compv dy (knot_of yn ky)) (fun j => C' i j))) ->
  forall i j, in4 i -> in4 j -> C i j == C' i j.
Proof. exact unique_2d. Qed.
Print Assumptions C14_2d_system_has_one_solution.

Theorem C14_3d_system_has_one_solution :
  forall xn yn zn (C C' : Z -> Z -> Z -> Q), nd_ok xn -> nd_ok yn -> nd_ok zn ->
  (forall dx dy dz kx ky kz,
     dotv (compv dx (knot_of xn kx)) (fun i => dotv (compv dy (knot_of yn ky)) (fun j =>
       dotv (compv dz (knot_of zn kz)) (fun k => C i j k)))
     == dotv (compv dx (knot_of xn kx)) (fun i => dotv (compv dy (knot_of yn ky)) (fun j =>
       dotv (compv dz (knot_of zn kz)) (fun k => C' i j k)))) ->
  forall i j k, in4 i -> in4 j -> in4 k -> C i j k == C' i j k.
Proof. exact unique_3d. Qed.
Print Assumptions C14_3d_system_has_one_solution.

Theorem C14_stored_block_is_that_polynomial_2d :
  forall xn yn vals tx ty, length vals = 16%nat -> nd_ok xn -> nd_ok yn ->
  HLl xn (reduce yn ty vals) tx == dotl (row2 false false tx ty) (flat2 (coef2 xn yn (block2 vals))).
Proof. exact block_value_2d. Qed.
Print Assumptions C14_stored_block_is_that_polynomial_2d.

Theorem C14_stored_block_is_that_polynomial_3d :
  forall xn yn zn vals tx ty tz, length vals = 64%nat -> nd_ok xn -> nd_ok yn -> nd_ok zn ->
  HLl xn (reduce yn ty (reduce zn tz vals)) tx
  == dotl (row3 false false false tx ty tz) (flat3 (coef3 xn yn zn (block3 vals))).
Proof. exact block_value_3d. Qed.
Print Assumptions C14_stored_block_is_that_polynomial_3d.

(* non-vacuity: an accepted axis (area (0,1), resolution 1/4: 7 nodes) meets the hypotheses, and its cell 2 is
   an equally spaced one *)
Example C14_nonvacuous :
  axis_ok 0 1 (1 # 4) = true /\ axis_top 0 1 (1 # 4) = 6%Z /\
  increasing (axis 0 1 (1 # 4)) 6 /\ uniform_cell (axis 0 1 (1 # 4)) 2 ((1 + 2 * EPSILON) / 4) /\
  locate1 (axis 0 1 (1 # 4)) 6 (3 # 8) = Some 2%Z.
Proof.
  split; [reflexivity|]. split; [reflexivity|]. split; [exact (proj1 (axis_increasing 0 1 (1 # 4) eq_refl))|].
  split; [|vm_compute; reflexivity].
  unfold uniform_cell. repeat split; vm_compute; reflexivity.
Qed.

(* ---- 11b. The de-normalisation loops of Caching2D / Caching3D, line by line (Model/C14_System.v: denorm2 / denorm3 with
        the code's grouping of factors, _evaluate_polynomial_derivative, the "coeffs_view[0] += data_min" step) followed by
        the code's return expression (eval2 / eval3) compute exactly what the model's evalc2 / evalc3 compute.  Together
        with section 11 this makes the 2-D/3-D model a consequence of the code's own statements; only "numpy.linalg.solve
        returns the solution of the system up to rounding" remains tied by values. ---- *)
Theorem C14_denormalised_evaluation_2d :
  forall x y topx topy fb i j vals px py,
  increasing x topx -> increasing y topy -> (1 <= i <= topx - 2)%Z -> (1 <= j <= topy - 2)%Z -> length vals = 16%nat ->
  evalc2 x y topx topy fb ((i, j), vals) (px, py)
  == eval2 (denorm2 (data_delta fb) (data_min fb) (x_delta_inv x topx) (x_delta_inv y topy) (x 0%Z) (y 0%Z)
              (coef2 (nodes4 (fun u => nrm x topx (x u)) i) (nodes4 (fun v => nrm y topy (y v)) j) (block2 vals))) px py.
Proof. exact code_evaluation_2d. Qed.
Print Assumptions C14_denormalised_evaluation_2d.

Theorem C14_denormalised_evaluation_3d :
  forall x y z topx topy topz fb i j k vals px py pz,
  increasing x topx -> increasing y topy -> increasing z topz ->
  (1 <= i <= topx - 2)%Z -> (1 <= j <= topy - 2)%Z -> (1 <= k <= topz - 2)%Z -> length vals = 64%nat ->
  evalc3 x y z topx topy topz fb ((i, j, k), vals) (px, py, pz)
  == eval3 (denorm3 (data_delta fb) (data_min fb) (x_delta_inv x topx) (x_delta_inv y topy) (x_delta_inv z topz)
              (x 0%Z) (y 0%Z) (z 0%Z)
              (coef3 (nodes4 (fun u => nrm x topx (x u)) i) (nodes4 (fun v => nrm y topy (y v)) j)
                     (nodes4 (fun w => nrm z topz (z w)) k) (block3 vals))) px py pz.
Proof. exact code_evaluation_3d. Qed.
Print Assumptions C14_denormalised_evaluation_3d.

(* ---- 11c. The known finding c14-farorigin explained (see Proofs/C14_FarOrigin.v): for the cubic a (x - x0)^3 stored, as the
        code stores it, by its monomial coefficients about the origin, coefficient perturbations of relative size eps can
        move the value in the cell [x0, x0+h] by eps a (x0+px)^3 >= 8 eps a x0^3 = 8 (x0/h)^3 * eps * (a h^3), while the
        cubic itself is at most a h^3 there: the error grows with the cube of |x0|/h. ---- *)
Theorem C14_farorigin_cancellation :
  forall a x0 h px eps, 0 < a -> 0 <= x0 -> 0 < h -> x0 <= px <= x0 + h -> 0 <= eps ->
  evalc1 (cubic_about_origin a x0) px == a * ((px - x0) * (px - x0) * (px - x0)) /\
  0 <= a * ((px - x0) * (px - x0) * (px - x0)) <= a * (h * h * h) /\
  (let '(c0, c1, c2, c3) := cubic_about_origin a x0 in let '(d0, d1, d2, d3) := perturbed a x0 eps in
   Qabs.Qabs (d0 - c0) <= eps * Qabs.Qabs c0 /\ Qabs.Qabs (d1 - c1) <= eps * Qabs.Qabs c1 /\
   Qabs.Qabs (d2 - c2) <= eps * Qabs.Qabs c2 /\ Qabs.Qabs (d3 - c3) <= eps * Qabs.Qabs c3) /\
  evalc1 (perturbed a x0 eps) px - evalc1 (cubic_about_origin a x0) px
  == eps * a * ((x0 + px) * (x0 + px) * (x0 + px)) /\
  8 * eps * a * (x0 * x0 * x0) <= eps * a * ((x0 + px) * (x0 + px) * (x0 + px)).
Proof. exact farorigin_cancellation. Qed.
Print Assumptions C14_farorigin_cancellation.

(* ---- 12. The error bound over the REALS, with no hypothesis of Taylor type left: Phi (F) is any real function that is
        twice differentiable along the axes with second derivative bounded by M on the stencil ([C2_bounded]: derivative
        functions exist, Coquelicot's is_derive); f is the rational-valued (e.g. double precision) wrapped function, which
        samples it within delta at the nodes (delta = 0 when f is exact).  Taylor's theorem with Lagrange remainder is
        Coquelicot's Taylor_Lagrange, applied on both sides of the evaluation point.  These theorems rest on the axioms of
        the standard library's classical real numbers (printed below; named in the check's trusted base). ---- *)
From Coq Require Import Reals Qreals.
From Coquelicot Require Import Coquelicot.
Require Import Cherab.Proofs.C14_Real.
Local Open Scope R_scope.

Theorem C14_taylor_inequality_R :
  forall (F F1 F2 : R -> R) t y a b M,
  (forall s, is_derive F s (F1 s)) -> (forall s, is_derive F1 s (F2 s)) ->
  (forall s, a <= s <= b -> Rabs (F2 s) <= M) -> a <= t <= b -> a <= y <= b ->
  Rabs (F y - F t - F1 t * (y - t)) <= M / 2 * ((y - t) * (y - t)).
Proof. exact taylor_R. Qed.
Print Assumptions C14_taylor_inequality_R.

Theorem C14_error_bound_C2_1d :
  forall x top fb nbe (f : Q -> Q) hist p i v H Phi M delta,
  C14_Caching.increasing x top -> (3 <= top)%Z ->
  locate1 x top p = Some i -> eval_after1 fb nbe x top f hist p = Val v -> spacing_leQ x i H ->
  C2_bounded Phi (Q2R (x (i - 1)%Z)) (Q2R (x (i + 2)%Z)) M ->
  (forall k, (i - 1 <= k <= i + 2)%Z -> Rabs (Q2R (f (x k)) - Phi (Q2R (x k))) <= delta) ->
  Rabs (Q2R v - Phi (Q2R p)) <= 3 * M * (Q2R H * Q2R H) + 3 / 2 * delta.
Proof. exact after1_error_R. Qed.
Print Assumptions C14_error_bound_C2_1d.

Theorem C14_error_bound_C2_2d :
  forall x y topx topy fb nbe (f : Q * Q -> Q) hist px py i j v Hx Hy (F : R -> R -> R) Mx My delta,
  C14_Caching.increasing x topx -> C14_Caching.increasing y topy -> (3 <= topx)%Z -> (3 <= topy)%Z ->
  locate2 x y topx topy (px, py) = Some (i, j) ->
  eval_after2 fb nbe x y topx topy f hist (px, py) = Val v ->
  spacing_leQ x i Hx -> spacing_leQ y j Hy ->
  (forall u, (i - 1 <= u <= i + 2)%Z -> C2_bounded (fun b => F (Q2R (x u)) b) (Q2R (y (j - 1)%Z)) (Q2R (y (j + 2)%Z)) My) ->
  C2_bounded (fun a => F a (Q2R py)) (Q2R (x (i - 1)%Z)) (Q2R (x (i + 2)%Z)) Mx ->
  (forall u w, (i - 1 <= u <= i + 2)%Z -> (j - 1 <= w <= j + 2)%Z ->
               Rabs (Q2R (f (x u, y w)) - F (Q2R (x u)) (Q2R (y w))) <= delta) ->
  Rabs (Q2R v - F (Q2R px) (Q2R py))
  <= 3 * Mx * (Q2R Hx * Q2R Hx) + 3 / 2 * (3 * My * (Q2R Hy * Q2R Hy) + 3 / 2 * delta).
Proof. exact after2_error_R. Qed.
Print Assumptions C14_error_bound_C2_2d.

Theorem C14_error_bound_C2_3d :
  forall x y z topx topy topz fb nbe (f : Q * Q * Q -> Q) hist px py pz i j k v Hx Hy Hz
         (F : R -> R -> R -> R) Mx My Mz delta,
  C14_Caching.increasing x topx -> C14_Caching.increasing y topy -> C14_Caching.increasing z topz -> (3 <= topx)%Z -> (3 <= topy)%Z -> (3 <= topz)%Z ->
  locate3 x y z topx topy topz (px, py, pz) = Some (i, j, k) ->
  eval_after3 fb nbe x y z topx topy topz f hist (px, py, pz) = Val v ->
  spacing_leQ x i Hx -> spacing_leQ y j Hy -> spacing_leQ z k Hz ->
  (forall u w, (i - 1 <= u <= i + 2)%Z -> (j - 1 <= w <= j + 2)%Z ->
     C2_bounded (fun c => F (Q2R (x u)) (Q2R (y w)) c) (Q2R (z (k - 1)%Z)) (Q2R (z (k + 2)%Z)) Mz) ->
  (forall u, (i - 1 <= u <= i + 2)%Z ->
     C2_bounded (fun b => F (Q2R (x u)) b (Q2R pz)) (Q2R (y (j - 1)%Z)) (Q2R (y (j + 2)%Z)) My) ->
  C2_bounded (fun a => F a (Q2R py) (Q2R pz)) (Q2R (x (i - 1)%Z)) (Q2R (x (i + 2)%Z)) Mx ->
  (forall u w q, (i - 1 <= u <= i + 2)%Z -> (j - 1 <= w <= j + 2)%Z -> (k - 1 <= q <= k + 2)%Z ->
     Rabs (Q2R (f (x u, y w, z q)) - F (Q2R (x u)) (Q2R (y w)) (Q2R (z q))) <= delta) ->
  Rabs (Q2R v - F (Q2R px) (Q2R py) (Q2R pz))
  <= 3 * Mx * (Q2R Hx * Q2R Hx) + 3 / 2 * (3 * My * (Q2R Hy * Q2R Hy) + 3 / 2 * (3 * Mz * (Q2R Hz * Q2R Hz) + 3 / 2 * delta)).
Proof. exact after3_error_R. Qed.
Print Assumptions C14_error_bound_C2_3d.

(* non-vacuity of the real-number hypotheses: sin is C2_bounded with M = 1 on any interval *)
Example C14_C2_nonvacuous : forall a b, C2_bounded sin a b 1.
Proof.
  intros a b. exists cos, (fun s => - sin s). split; [|split].
  - intro u. apply is_derive_Reals. apply derivable_pt_lim_sin.
  - intro u. apply is_derive_Reals. apply derivable_pt_lim_cos.
  - intros u _. rewrite Rabs_Ropp. apply Rabs_le. pose proof (SIN_bound u). lra.
Qed.
