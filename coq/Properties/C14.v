(* Property C14 -- Caching functions are history-independent and interpolate the cached function. *)
Require Import Cherab.Common.Qx.
Require Import Cherab.Model.C14_Cache Cherab.Model.C14_Caching.
Require Import Cherab.Proofs.C14_History.
Open Scope Q_scope.

Theorem C14_history_independent_1d :
  forall fb nbe x top f (hist : list Q) (p : Q),
  eval_after1 fb nbe x top f hist p = pure1 fb nbe x top f p.
Proof. exact history_independent_1d. Qed.
Print Assumptions C14_history_independent_1d.
