(* Property C13 -- Function wrappers and samplers are exact pointwise compositions everywhere.
   This file contains nothing but the property theorems, each closed by lemmas from Proofs/,
   with Print Assumptions beneath.  Models: Model/C13_Wrappers.v (routing, exact arithmetic),
   Model/C13_Float.v (binary64). *)
Require Import Cherab.Common.Qx.
Require Import Cherab.Model.C13_Wrappers Cherab.Model.C13_Float.
Require Import Cherab.Proofs.C13_Routing Cherab.Proofs.C13_Periodic Cherab.Proofs.C13_Samplers
               Cherab.Proofs.C13_Polygon Cherab.Proofs.C13_Cylindrical Cherab.Proofs.C13_Triangle Cherab.Proofs.C13_Table Cherab.Proofs.C13_Convex.
Require Import Cherab.Model.C13_Table.
Require Cherab.Proofs.C13_Flocq.
From Coq Require Import Qabs PrimFloat String.
Open Scope Q_scope.

(* iso-mapping g(f(x)): every carrier, every pair of functions, every argument *)
Theorem C13_iso_is_composition :
  forall (A B C : Type) (g : B -> C) (f2 : A -> A -> B) (f3 : A -> A -> A -> B) x y z,
  iso2 g f2 x y = g (f2 x y) /\ iso3 g f3 x y z = g (f3 x y z).
Proof. intros; split; reflexivity. Qed.
Print Assumptions C13_iso_is_composition.

(* argument swizzling: every wrapped function, every selector triple in {0,1,2}^3, every argument *)
Theorem C13_swizzle_routes_selected_arguments :
  forall (A B : Type) (f : A -> A -> A -> B) (g : A -> A -> B) s0 s1 s2 x y z,
  (0 <= s0 <= 2)%Z -> (0 <= s1 <= 2)%Z -> (0 <= s2 <= 2)%Z ->
  swizzle3 s0 s1 s2 f x y z = f (arg3 s0 x y z) (arg3 s1 x y z) (arg3 s2 x y z)
  /\ swizzle2 g x y = g y x.
Proof. intros; split; [apply swizzle3_spec; assumption | reflexivity]. Qed.
Print Assumptions C13_swizzle_routes_selected_arguments.

Theorem C13_swizzle_constructor_accepts_exactly_valid_shapes :
  forall is_tuple shape,
  swizzle3_validate is_tuple shape = None <->
  is_tuple = true /\ exists a b c, shape = [a; b; c] /\ (0 <= a <= 2)%Z /\ (0 <= b <= 2)%Z /\ (0 <= c <= 2)%Z.
Proof. exact swizzle3_validate_spec. Qed.
Print Assumptions C13_swizzle_constructor_accepts_exactly_valid_shapes.

(* slicing: the fixed value is inserted at position [axis]; accepted selectors name an existing axis *)
Theorem C13_slice_inserts_fixed_coordinate :
  forall (A B : Type) (f2 : A -> A -> B) (f3 : A -> A -> A -> B) v x y d,
  (forall axis, (0 <= axis <= 1)%Z ->
     slice2 axis v f2 x = f2 (nth 0 (insert_at axis v [x]) d) (nth 1 (insert_at axis v [x]) d))
  /\ (forall axis, (0 <= axis <= 2)%Z ->
     slice3 axis v f3 x y = f3 (nth 0 (insert_at axis v [x; y]) d) (nth 1 (insert_at axis v [x; y]) d)
                               (nth 2 (insert_at axis v [x; y]) d))
  /\ (forall dims sel k, (2 <= dims)%Z -> slice_validate dims sel = inr k -> (0 <= k < dims)%Z).
Proof.
  intros. split; [| split].
  - intros; apply slice2_spec; assumption.
  - intros; apply slice3_spec; assumption.
  - intros dims sel k H1 H2. apply (slice_validate_range dims sel k H1 H2).
Qed.
Print Assumptions C13_slice_inserts_fixed_coordinate.

(* clamping: the value lands in [lo, hi], is unchanged inside, and is the nearest point of the interval *)
Theorem C13_clamp_is_nearest_point_of_interval :
  forall v lo hi, lo <= hi ->
  (lo <= clampG Qltb v lo hi <= hi)
  /\ (lo <= v <= hi -> clampG Qltb v lo hi = v)
  /\ (forall w, lo <= w <= hi -> Qabs (clampG Qltb v lo hi - v) <= Qabs (w - v)).
Proof.
  intros v lo hi H. repeat split; try apply clamp_range; try assumption.
  - apply clamp_id_inside.
  - intros w Hw. apply clamp_nearest; assumption.
Qed.
Print Assumptions C13_clamp_is_nearest_point_of_interval.

(* input clamps evaluate the wrapped function at the clamped coordinates, output clamps clamp its value;
   infinite (default) bounds never move anything; constructors accept exactly min < max *)
Theorem C13_clamp_wrappers_compose :
  forall (f : Q -> Q -> Q -> Q) xl xh yl yh zl zh lo hi x y z,
  clamp_in3 Qltb xl xh yl yh zl zh f x y z = f (clampG Qltb x xl xh) (clampG Qltb y yl yh) (clampG Qltb z zl zh)
  /\ clamp_out3 Qltb lo hi f x y z = clampG Qltb (f x y z) lo hi
  /\ (forall v blo bhi, clamp_validate blo bhi = None -> le_lo blo (clampQ v blo bhi) /\ le_hi (clampQ v blo bhi) bhi)
  /\ (forall v blo bhi, le_lo blo v -> le_hi v bhi -> clampQ v blo bhi = v)
  /\ (forall blo bhi, clamp_validate blo bhi = None <-> match blo, bhi with Some l, Some h => l < h | _, _ => True end).
Proof.
  intros. repeat split; try reflexivity.
  - apply clampQ_range; assumption.
  - apply clampQ_range; assumption.
  - apply clampQ_id_inside; assumption.
  - apply clamp_validate_spec.
  - apply clamp_validate_spec.
Qed.
Print Assumptions C13_clamp_wrappers_compose.

(* periodic extension, exact arithmetic: the inner argument is in [0, p), differs from x by a whole number
   of periods, is the only such number, and a period of 0 switches the axis off *)
Theorem C13_periodic_inner_argument_in_period :
  forall x p, 0 < p ->
  (0 <= remainder_alg_Q x p /\ remainder_alg_Q x p < p)
  /\ (exists k : Z, x == remainder_alg_Q x p + inject_Z k * p)
  /\ (forall r (k : Z), 0 <= r < p -> x == r + inject_Z k * p -> remainder_alg_Q x p == r)
  /\ (forall k : Z, remainder_alg_Q (x + inject_Z k * p) p == remainder_alg_Q x p)
  /\ remainder_alg_Q x 0 = x.
Proof.
  intros x p Hp. repeat split; try apply remainder_alg_Q_range; try assumption.
  - destruct (remainder_Q_congruent x p) as [k E]. exists k. rewrite remainder_alg_Q_spec by assumption. exact E.
  - intros r k Hr E. rewrite remainder_alg_Q_spec by assumption. apply (remainder_Q_unique x p r k); assumption.
  - intros k. rewrite !remainder_alg_Q_spec by assumption. apply remainder_Q_periodic; assumption.
Qed.
Print Assumptions C13_periodic_inner_argument_in_period.

(* the algorithm of periodic.pxd (C fmod, then + period for negative remainders) computes x - p floor(x/p) *)
Theorem C13_periodic_algorithm_meets_specification :
  forall x p, 0 < p -> remainder_alg_Q x p == remainder_Q x p.
Proof. exact remainder_alg_Q_spec. Qed.
Print Assumptions C13_periodic_algorithm_meets_specification.

(* PARTIAL.  The full statement is: for all finite binary64 x and p > 0,
   in_period_F (remainder_F x p) p = true.  What is proved: the algorithm with the sum r + p rounded by ANY
   monotone rounding that fixes 0 and p, followed by the correction of 0cf4f10, stays in [0, p).
   Missing: that PrimFloat.add is such a rounding and that next_down p is in [0, p) (IEEE facts, not derived
   here - no Flocq); remainder_F itself is tied to the code bit for bit by the correspondence and its range
   is checked on every generated case. *)
Theorem C13_periodic_rounded_algorithm_in_period_partial :
  forall (rnd : Q -> Q) (p pred_p : Q), 0 < p ->
  (forall a b, a <= b -> rnd a <= rnd b) -> rnd 0 == 0 -> rnd p == p -> 0 <= pred_p /\ pred_p < p ->
  forall x, 0 <= remainder_rounded rnd pred_p x p /\ remainder_rounded rnd pred_p x p < p.
Proof. exact remainder_rounded_range. Qed.
Print Assumptions C13_periodic_rounded_algorithm_in_period_partial.

(* PARTIAL as a statement about an abstract rounding (kept; the full binary64 statement is now
   C13_periodic_binary64_inner_argument_in_period below), strictly narrower gap than the theorem above: the rounding is no longer assumed monotone; it is only
   assumed to be ROUND-TO-NEAREST BY DEFINITION (rnd q is no farther from q than any representable number, any
   tie-breaking), with 0 and the period representable.  What remains unproved is exactly: (i) PrimFloat.add returns
   a nearest representable number of the exact sum (the IEEE-754 definition of the operation; Coq states it as
   FloatAxioms.add_spec over SpecFloat.binary_round, and deriving nearestness from binary_round needs Flocq's
   rounding theory, which is not available here), (ii) next_down p lies in [0, p) for finite p > 0. *)
Theorem C13_periodic_nearest_rounding_in_period_partial :
  forall (repr : Q -> Prop) (rnd : Q -> Q),
  (forall q f, repr f -> Qabs (rnd q - q) <= Qabs (f - q)) ->
  forall p pred_p, 0 < p -> repr 0 -> repr p -> 0 <= pred_p /\ pred_p < p ->
  forall x, 0 <= remainder_rounded rnd pred_p x p /\ remainder_rounded rnd pred_p x p < p.
Proof. exact remainder_nearest_range. Qed.
Print Assumptions C13_periodic_nearest_rounding_in_period_partial.

(* how far the rounded algorithm can be from the exact reduction x - p floor(x/p) (the 2^-52 p tolerance of the tie is this
   bound on binary64): with round-to-nearest over a set containing the predecessor of p, the returned value either IS the
   exact reduction (no rounding happened), or differs from it by at most the rounding error of the one sum, or - when the
   correction of 0cf4f10 applies - by at most the distance from p to its predecessor *)
Theorem C13_periodic_rounded_algorithm_close_to_exact :
  forall (repr : Q -> Prop) (rnd : Q -> Q), (forall q f, repr f -> Qabs (rnd q - q) <= Qabs (f - q)) ->
  forall p pred_p, 0 < p -> repr pred_p -> 0 <= pred_p /\ pred_p < p ->
  forall x, let s := fmod_Q x p + p in
  remainder_rounded rnd pred_p x p == remainder_Q x p
  \/ (s == remainder_Q x p /\
      (Qabs (remainder_rounded rnd pred_p x p - s) <= Qabs (rnd s - s)
       \/ Qabs (remainder_rounded rnd pred_p x p - s) <= p - pred_p)).
Proof. exact remainder_nearest_close. Qed.
Print Assumptions C13_periodic_rounded_algorithm_close_to_exact.

(* the integer core of the binary64 model of C fmod (Model/C13_Float.v fmod_int, used by fmod_F and hence by
   remainder_F): for all mantissas and exponents the pair (r, e) it returns is the EXACT truncated remainder of
   the magnitudes, r 2^e = fmod(mx 2^ex, mp 2^ep), with 0 <= r 2^e < mp 2^ep and r 2^e <= mx 2^ex (so it fits the
   format and the final conversion is exact) *)
Theorem C13_periodic_binary64_fmod_core_exact :
  forall mx ex mp ep,
  let '(r, e) := fmod_int mx ex mp ep in
  inject_Z r * pow2 e == fmod_Q (mag mx ex) (mag mp ep)
  /\ (0 <= r)%Z /\ inject_Z r * pow2 e < mag mp ep /\ inject_Z r * pow2 e <= mag mx ex.
Proof. exact fmod_int_exact. Qed.
Print Assumptions C13_periodic_binary64_fmod_core_exact.

(* FULL (this is the statement the two _partial theorems above were missing): on binary64, for EVERY finite double x and
   EVERY finite period p > 0, the inner argument the periodic wrappers hand to the wrapped function - remainder_F x p, which
   by C13_periodic_source_program_means_models is what the program of periodic.pxd computes - is a finite double r with
   0 <= r < p.  Derived from the IEEE-754 semantics of the primitive operations through Flocq (PrimFloat.add is the
   round-to-nearest-even of the exact sum: add_equiv + Bplus_correct; rounding is monotone and fixes representable numbers;
   next_down p = pred p in [0, p): next_down_equiv + Bpred_correct) and from the exactness of the integer core of the fmod
   model.  Assumptions: the FloatAxioms of Coq's standard library (specification of the primitive float operations) and the
   axioms of the standard library's real numbers (Flocq states rounding over R); none of our own. *)
Theorem C13_periodic_binary64_inner_argument_in_period :
  forall x p : float,
  is_finite x = true -> is_finite p = true -> (zero <? p)%float = true ->
  in_period_F (remainder_F x p) p = true
  /\ run_remainder zero fmod_F PrimFloat.add toward_zero_F PrimFloat.eqb PrimFloat.ltb source_remainder x p = Some (remainder_F x p).
Proof.
  intros x p Fx Fp Pp. split; [exact (C13_Flocq.remainder_F_in_period_prim x p Fx Fp Pp) | apply source_remainder_is_remainder_F].
Qed.
Print Assumptions C13_periodic_binary64_inner_argument_in_period.

(* clamping on binary64 (raysect clamp as used by clamp.pyx, Model/C13_Float.v clamp_F), from the IEEE semantics of the
   primitive comparisons (Flocq): for finite value and bounds with lo <= hi the result is finite, lies in [lo, hi], is the
   value itself when that is inside, the bound it violates otherwise; a NaN passes through unchanged.  (R here is Flocq's
   real value of a double, vle / vlt its order; same standard-library axioms as the theorem above.) *)
Theorem C13_clamp_binary64 :
  (forall v lo hi : float,
     C13_Flocq.fin v = true -> C13_Flocq.fin lo = true -> C13_Flocq.fin hi = true -> C13_Flocq.vle lo hi ->
     C13_Flocq.fin (clamp_F v lo hi) = true
     /\ (C13_Flocq.vle lo (clamp_F v lo hi) /\ C13_Flocq.vle (clamp_F v lo hi) hi)
     /\ (C13_Flocq.vle lo v /\ C13_Flocq.vle v hi -> clamp_F v lo hi = v)
     /\ (C13_Flocq.vlt v lo -> clamp_F v lo hi = lo)
     /\ (C13_Flocq.vlt hi v -> clamp_F v lo hi = hi))
  /\ (forall lo hi : float, clamp_F nan lo hi = nan).
Proof. split; [exact C13_Flocq.clamp_F_range_v | exact C13_Flocq.clamp_F_nan]. Qed.
Print Assumptions C13_clamp_binary64.

(* binary64, all pairs of doubles, no floating-point axioms: whenever the algorithm takes the "+ period" branch
   the value handed to the wrapped function is not the period itself (given that stepping from the period
   towards zero moves, as it does for every finite non-zero double) - the content of the fix 0cf4f10 *)
Theorem C13_periodic_binary64_correction_effective :
  forall x p : float,
  (p =? zero)%float = false -> (fmod_F x p <? zero)%float = true -> (toward_zero_F p =? p)%float = false ->
  (remainder_F x p =? p)%float = false.
Proof. exact remainder_F_not_period. Qed.
Print Assumptions C13_periodic_binary64_correction_effective.

(* record of finding F10 (fixed in /repo by 0cf4f10): without the correction the claim is false, both for an
   abstract monotone rounding and for binary64 (x = -1e-20, p = 1.0 gives exactly p) *)
Theorem C13_periodic_unfixed_algorithm_refuted :
  (exists (rnd : Q -> Q) (x p : Q), 0 < p /\ (forall a b, a <= b -> rnd a <= rnd b) /\ rnd 0 == 0 /\ rnd p == p /\
      remainder_rounded_old rnd x p == p)
  /\ (exists x p : float, is_finite x = true /\ (zero <? p)%float = true
        /\ in_period_F (remainder_F_old x p) p = false /\ F_same (remainder_F_old x p) p = true)
  /\ in_period_F (remainder_F tiny_neg_F one_F) one_F = true.
Proof.
  split; [exact remainder_rounded_old_refuted |]. split; [exact remainder_F_old_refuted |].
  exact (proj1 remainder_F_fixed_witness).
Qed.
Print Assumptions C13_periodic_unfixed_algorithm_refuted.

(* axisymmetric / cylindrical mapping, for every square-root oracle that is a square root: the wrapped
   function is evaluated at r >= 0 with r^2 = x^2 + y^2 (and z unchanged); r depends on (x, y) only through
   x^2 + y^2; on the half plane y = 0, x >= 0 it is x *)
Theorem C13_axisymmetric_maps_to_radius :
  forall (sqrtQ : Q -> Q) (atan2Q : Q -> Q -> Q),
  (forall s, 0 <= s -> 0 <= sqrtQ s /\ sqrtQ s * sqrtQ s == s) ->
  forall (B : Type) (f2 : Q -> Q -> B) (f3 : Q -> Q -> Q -> B) x y z,
  axisym sqrtQ f2 x y z = f2 (radius sqrtQ x y) z
  /\ cylindrical sqrtQ atan2Q f3 x y z = f3 (radius sqrtQ x y) (atan2Q y x) z
  /\ 0 <= radius sqrtQ x y /\ radius sqrtQ x y * radius sqrtQ x y == x * x + y * y
  /\ (forall x' y', x' * x' + y' * y' == x * x + y * y -> radius sqrtQ x' y' == radius sqrtQ x y)
  /\ (0 <= x -> radius sqrtQ x 0 == x).
Proof.
  intros sqrtQ atan2Q H B f2 f3 x y z. repeat split.
  - apply (radius_spec sqrtQ H).
  - apply (radius_spec sqrtQ H).
  - intros x' y'. apply (radius_axisymmetric sqrtQ H).
  - apply (radius_on_half_plane sqrtQ H).
Qed.
Print Assumptions C13_axisymmetric_maps_to_radius.

(* record of the finding fixed in /repo by efb2198 (the code now uses hypot): the former radius sqrt(x*x + y*y)
   is infinite at the finite point (2^665, 0) and zero at (2^-600, 0), by computation on binary64 *)
Theorem C13_radius_unfixed_algorithm_refuted :
  F_same (radius_F_old (F_of_bits (FFin false 4503599627370496 613)) zero) infinity = true
  /\ F_same (radius_F_old (F_of_bits (FFin false 4503599627370496 (-652))) zero) zero = true.
Proof. exact radius_F_old_refuted. Qed.
Print Assumptions C13_radius_unfixed_algorithm_refuted.

(* vectors are rotated by the toroidal angle: off the axis, (c, s) = (x/r, y/r) is a rotation, the only one
   that carries the poloidal-plane point (r, 0, z) to (x, y, z); the returned vector is the wrapped function's
   vector rotated by it (length preserved; radial / toroidal / vertical unit vectors go to the local ones) *)
Theorem C13_vectors_rotated_by_toroidal_angle :
  forall (sqrtQ : Q -> Q), (forall s, 0 <= s -> 0 <= sqrtQ s /\ sqrtQ s * sqrtQ s == s) ->
  forall (f : Q -> Q -> vec) x y z, ~ (x == 0 /\ y == 0) ->
  let r := radius sqrtQ x y in
  vector_axisym sqrtQ f x y z = rotz (x / r) (y / r) (f r z)
  /\ (x / r) * (x / r) + (y / r) * (y / r) == 1
  /\ veq (rotz (x / r) (y / r) (r, 0, z)) (x, y, z)
  /\ (forall c s, veq (rotz c s (r, 0, z)) (x, y, z) -> c == x / r /\ s == y / r)
  /\ dot (vector_axisym sqrtQ f x y z) (vector_axisym sqrtQ f x y z) == dot (f r z) (f r z)
  /\ veq (vector_axisym sqrtQ (fun _ _ => (1, 0, 0)) x y z) (x / r, y / r, 0)
  /\ veq (vector_axisym sqrtQ (fun _ _ => (0, 1, 0)) x y z) (- (y / r), x / r, 0).
Proof.
  intros sqrtQ H f x y z N r.
  split; [reflexivity |].
  split; [apply (toroidal_rotation sqrtQ H x y z N) |].
  split; [apply (toroidal_rotation sqrtQ H x y z N) |].
  split; [intros c s; apply (toroidal_rotation_unique sqrtQ H x y z c s N) |].
  split; [apply (vector_axisym_length sqrtQ H f x y z N) |].
  split; apply (vector_axisym_unit_vectors sqrtQ x y z N).
Qed.
Print Assumptions C13_vectors_rotated_by_toroidal_angle.

(* the same for EVERY finite (x, y), the symmetry axis included (where libm's atan2 of signed zeros gives no
   rotation for x = +0 and half a turn for x = -0): (cos, sin) is always a rotation, the length is always
   preserved, on the axis the wrapped function's vector at (r = 0, z) comes back unrotated / half-turned, and
   off the axis the total mapping is the one of the previous theorem *)
Theorem C13_vectors_on_axis_and_everywhere :
  forall (sqrtQ : Q -> Q), (forall s, 0 <= s -> 0 <= sqrtQ s /\ sqrtQ s * sqrtQ s == s) ->
  forall (f : Q -> Q -> vec) xneg x y z,
  (let cs := toroidal_cs xneg x y (radius sqrtQ x y) in fst cs * fst cs + snd cs * snd cs == 1)
  /\ dot (vector_axisym_total sqrtQ xneg f x y z) (vector_axisym_total sqrtQ xneg f x y z)
     == dot (f (radius sqrtQ x y) z) (f (radius sqrtQ x y) z)
  /\ (~ (x == 0 /\ y == 0) -> vector_axisym_total sqrtQ xneg f x y z = vector_axisym sqrtQ f x y z)
  /\ (x == 0 -> y == 0 ->
      radius sqrtQ x y == 0
      /\ veq (vector_axisym_total sqrtQ false f x y z) (f (radius sqrtQ x y) z)
      /\ (let '(a, b, c) := f (radius sqrtQ x y) z in veq (vector_axisym_total sqrtQ true f x y z) (- a, - b, c))).
Proof.
  intros sqrtQ H f xneg x y z.
  split; [apply (toroidal_cs_unit sqrtQ H) |].
  split; [apply (vector_axisym_total_length sqrtQ H) |].
  split; [apply (vector_axisym_total_off_axis sqrtQ H) |].
  intros Hx Hy. split; [apply (radius_on_axis sqrtQ H x y Hx Hy) |].
  apply (vector_axisym_total_on_axis sqrtQ H f x y z Hx Hy).
Qed.
Print Assumptions C13_vectors_on_axis_and_everywhere.

(* which constructor / range arguments are accepted, exactly (the policy the correspondence compares with the
   exceptions the real constructors raise): sample ranges, 1-D and n-D periods, slice axis selectors *)
Theorem C13_validation_policies_exact :
  (forall len a b n, range_validate len a b n = None <-> (len = 3%Z /\ a <= b /\ (1 <= n)%Z))
  /\ (forall p, period1_validate p = None <-> 0 < p)
  /\ (forall ps, periodn_validate ps = None <-> Forall (fun p => 0 <= p) ps)
  /\ (forall dims z k, slice_validate dims (AxNum z) = inr k <-> (k = z /\ (0 <= z < dims)%Z))
  /\ (forall dims s k, slice_validate dims (AxName s) = inr k <-> axis_of_name dims s = Some k).
Proof.
  split; [exact range_validate_spec |]. split; [exact period1_validate_spec |]. split; [exact periodn_validate_spec |].
  split; [exact slice_validate_num_spec | exact slice_validate_name_spec].
Qed.
Print Assumptions C13_validation_policies_exact.

(* sample axes: n points, the i-th is a + i (b - a)/(n - 1): first a, last b, equal spacing; one point a for n = 1 *)
Theorem C13_linspace_even_with_both_end_points :
  forall n a b, (1 <= n)%Z ->
  List.length (linspace n a b) = Z.to_nat n
  /\ (forall i, (0 <= i < n)%Z -> nth_error (linspace n a b) (Z.to_nat i) = Some (linspace_at n a b i))
  /\ linspace_at n a b 0 == a
  /\ ((1 < n)%Z -> linspace_at n a b (n - 1) = b)
  /\ ((1 < n)%Z -> forall i, (0 <= i < n)%Z -> linspace_at n a b i == a + inject_Z i * ((b - a) / inject_Z (n - 1)))
  /\ ((1 < n)%Z -> forall i, (0 <= i < n - 1)%Z ->
        linspace_at n a b (i + 1) - linspace_at n a b i == (b - a) / inject_Z (n - 1))
  /\ ((1 < n)%Z -> a <= b -> forall i, (0 <= i < n)%Z -> a <= linspace_at n a b i /\ linspace_at n a b i <= b).
Proof.
  intros n a b Hn. repeat split.
  - apply linspace_length; lia.
  - intros i Hi. apply linspace_nth, Hi.
  - apply linspace_at_first, Hn.
  - apply linspace_at_last.
  - intros H i Hi. apply linspace_at_even; assumption.
  - intros H i Hi. apply linspace_spacing; assumption.
  - apply linspace_at_between; assumption.
  - apply linspace_at_between; assumption.
Qed.
Print Assumptions C13_linspace_even_with_both_end_points.

(* samplers: entry [i][j][k] is the function at (x_i, y_j, z_k), for all axes and all sample counts; the
   array has shape (n_x, n_y, n_z); on ranges the axes are the evenly spaced ones above *)
Theorem C13_sampler_entry_is_function_at_grid_point :
  forall (A B : Type) (f : A -> A -> A -> B) xs ys zs,
  (forall i j k x y z, nth_error xs i = Some x -> nth_error ys j = Some y -> nth_error zs k = Some z ->
     exists plane row, nth_error (sample3d f xs ys zs) i = Some plane /\ nth_error plane j = Some row
                       /\ nth_error row k = Some (f x y z))
  /\ List.length (sample3d f xs ys zs) = List.length xs
  /\ Forall (fun plane => List.length plane = List.length ys /\ Forall (fun row => List.length row = List.length zs) plane) (sample3d f xs ys zs)
  /\ (forall (g : Q -> Q -> Q -> B) nx ax bx ny ay by_ nz az bz i j k,
        (0 <= i < nx)%Z -> (0 <= j < ny)%Z -> (0 <= k < nz)%Z ->
        exists plane row,
          nth_error (sample3d g (linspace nx ax bx) (linspace ny ay by_) (linspace nz az bz)) (Z.to_nat i) = Some plane
          /\ nth_error plane (Z.to_nat j) = Some row
          /\ nth_error row (Z.to_nat k) = Some (g (linspace_at nx ax bx i) (linspace_at ny ay by_ j) (linspace_at nz az bz k))).
Proof.
  intros A B f xs ys zs. split; [| split; [| split]].
  - intros; apply sample3d_index; assumption.
  - apply (sample3d_shape f xs ys zs).
  - apply (sample3d_shape f xs ys zs).
  - intros; apply sample3d_on_linspace; assumption.
Qed.
Print Assumptions C13_sampler_entry_is_function_at_grid_point.

(* the remaining sampler entry points: _points variants (v[i] = f(points[i]), same length) and the 1-D / 2-D
   samplers on evenly spaced ranges, for every size *)
Theorem C13_point_and_lower_dimensional_samplers :
  forall (A B : Type) (f3 : A -> A -> A -> B) (f2 : A -> A -> B) (f1 : A -> B),
  (forall pts i x y z, nth_error pts i = Some (x, y, z) -> nth_error (sample3d_points f3 pts) i = Some (f3 x y z))
  /\ (forall pts i x y, nth_error pts i = Some (x, y) -> nth_error (sample2d_points f2 pts) i = Some (f2 x y))
  /\ (forall p3 p2, List.length (sample3d_points f3 p3) = List.length p3 /\ List.length (sample2d_points f2 p2) = List.length p2)
  /\ (forall xs i x, nth_error xs i = Some x -> nth_error (sample1d f1 xs) i = Some (f1 x))
  /\ (forall xs ys, List.length (sample2d f2 xs ys) = List.length xs /\ Forall (fun row => List.length row = List.length ys) (sample2d f2 xs ys))
  /\ (forall (g1 : Q -> B) (g2 : Q -> Q -> B) nx ax bx ny ay by_ i j, (0 <= i < nx)%Z -> (0 <= j < ny)%Z ->
        nth_error (sample1d g1 (linspace nx ax bx)) (Z.to_nat i) = Some (g1 (linspace_at nx ax bx i))
        /\ exists row, nth_error (sample2d g2 (linspace nx ax bx) (linspace ny ay by_)) (Z.to_nat i) = Some row
                       /\ nth_error row (Z.to_nat j) = Some (g2 (linspace_at nx ax bx i) (linspace_at ny ay by_ j))).
Proof.
  intros A B f3 f2 f1.
  split; [intros; apply sample_points_index; assumption |].
  split; [intros; apply sample2d_points_index; assumption |].
  split; [intros; apply sample_points_length |].
  split; [intros; apply sample1d_index; assumption |].
  split; [intros; apply sample2d_shape |].
  intros g1 g2 nx ax bx ny ay by_ i j Hi Hj. split; [apply sample1d_on_linspace, Hi | apply sample2d_on_linspace; assumption].
Qed.
Print Assumptions C13_point_and_lower_dimensional_samplers.

(* polygon mask as the implementation builds it (triangles combined): for EVERY vertex list and point, cutting the
   ear (a, b, c) off changes the crossing test by exactly the crossing test of that triangle, and therefore the
   crossing test of any polygon is the parity of the triangles of the fan from its first vertex *)
Theorem C13_mask_is_parity_of_triangle_fan :
  forall p a b c rest l,
  point_in_polygon p (a :: b :: c :: rest) = xorb (point_in_polygon p [a; b; c]) (point_in_polygon p (a :: c :: rest))
  /\ point_in_polygon p (a :: l) = fan_parity p a l.
Proof. intros; split; [apply pip_ear | apply pip_fan]. Qed.
Print Assumptions C13_mask_is_parity_of_triangle_fan.

(* polygon mask: for every vertex list and every point the even-odd crossing test is unchanged by starting
   at another vertex, by reversing the orientation, and by translating polygon and point together *)
Theorem C13_mask_independent_of_vertex_order :
  forall p poly,
  (forall k, point_in_polygon p (rotate k poly) = point_in_polygon p poly)
  /\ point_in_polygon p (rev poly) = point_in_polygon p poly
  /\ (forall k, point_in_polygon p (rotate k (rev poly)) = point_in_polygon p poly)
  /\ (forall d, point_in_polygon (shift d p) (map (shift d) poly) = point_in_polygon p poly).
Proof.
  intros p poly. repeat split.
  - intros k. apply pip_rotate.
  - apply pip_rev.
  - intros k. rewrite pip_rotate. apply pip_rev.
  - intros d. apply pip_shift.
Qed.
Print Assumptions C13_mask_independent_of_vertex_order.

(* polygon mask = point-in-polygon, FULL for triangles (the polygons the implementation's mesh is made of): for every
   triangle of either orientation and every point off the three edge lines, the crossing test is 1 exactly when the
   point is strictly inside (orient = twice the signed area; all three of one sign = inside) *)
Theorem C13_mask_triangle_is_point_in_triangle :
  forall a b c p,
  let oab := orient a b p in let obc := orient b c p in let oca := orient c a p in
  (0 < oab -> 0 < obc -> 0 < oca -> point_in_polygon p [a; b; c] = true)
  /\ (oab < 0 -> obc < 0 -> oca < 0 -> point_in_polygon p [a; b; c] = true)
  /\ (~ oab == 0 -> ~ obc == 0 -> ~ oca == 0 ->
      (0 < oab + obc + oca -> ~ (0 < oab /\ 0 < obc /\ 0 < oca) -> point_in_polygon p [a; b; c] = false)
      /\ (oab + obc + oca < 0 -> ~ (oab < 0 /\ obc < 0 /\ oca < 0) -> point_in_polygon p [a; b; c] = false)).
Proof.
  intros a b c p oab obc oca.
  split; [apply pip_triangle_inside |]. split; [apply pip_triangle_inside_cw |].
  intros N1 N2 N3. split; intros HA NI; [apply pip_triangle_outside | apply pip_triangle_outside_cw]; assumption.
Qed.
Print Assumptions C13_mask_triangle_is_point_in_triangle.

(* polygon mask contains the interior of every CONVEX polygon with any number of vertices (the fan argument): vertices
   a, v1, ..., vm listed counter-clockwise and convex seen from a (every triangle a, v_i, v_j with i < j counter-clockwise),
   the point strictly on the left of every boundary edge (a -> v1, v_i -> v_{i+1}, vm -> a) and off the diagonals from a:
   the crossing test is 1.  (By C13_mask_independent_of_vertex_order the same holds for the clockwise listing and any
   starting vertex.) *)
Theorem C13_mask_convex_polygon_contains_interior :
  forall a v1 rest p,
  let l := v1 :: rest in
  ForallOrdPairs (fun b c => 0 < orient a b c) l ->
  0 < orient a v1 p -> fan_ok a p l -> 0 < orient (last l a) a p ->
  Forall (fun v => ~ orient a v p == 0) l ->
  point_in_polygon p (a :: l) = true /\ point_in_polygon p (rev (a :: l)) = true.
Proof.
  intros a v1 rest p l HP H1 Hok Hlast HN.
  assert (E : point_in_polygon p (a :: l) = true) by (apply pip_convex_inside; assumption).
  split; [exact E | rewrite pip_rev; exact E].
Qed.
Print Assumptions C13_mask_convex_polygon_contains_interior.

(* ... and excludes the exterior: for ANY vertex list whose fan triangles from the first vertex are counter-clockwise, a
   point strictly separated from all the vertices by a line (orient u v w >= 0 for every vertex w, orient u v p < 0) and in
   general position has crossing test 0.  For a convex polygon every boundary edge line is such a line for every exterior
   point, so together with the previous theorem: polygon mask = point-in-polygon for every convex polygon. *)
Theorem C13_mask_convex_polygon_excludes_exterior :
  forall u v a l p,
  orient u v p < 0 -> Forall (fun w => 0 <= orient u v w) (a :: l) ->
  fan_general a p l -> Forall (fun w => ~ orient a w p == 0) l ->
  point_in_polygon p (a :: l) = false /\ point_in_polygon p (rev (a :: l)) = false.
Proof.
  intros u v a l p Hp HV Hg HN.
  assert (E : point_in_polygon p (a :: l) = false) by (apply (pip_separated_outside u v); assumption).
  split; [exact E | rewrite pip_rev; exact E].
Qed.
Print Assumptions C13_mask_convex_polygon_excludes_exterior.

(* PARTIAL.  The full statement is: for every simple polygon the crossing test equals membership of the
   polygon's interior.  Proved: for every axis-aligned rectangle and every position of the point (inside,
   outside, level with an edge, on the boundary: closed on the low sides, open on the high sides).
   Narrowed since: C13_mask_triangle_is_point_in_triangle proves it for ALL triangles, and
   C13_mask_is_parity_of_triangle_fan proves that the crossing test of ANY polygon is the parity of the triangles of a
   fan (and changes by exactly one triangle when an ear is cut off), and C13_mask_convex_polygon_contains_interior proves
   "inside => 1" and C13_mask_convex_polygon_excludes_exterior "outside => 0" for every convex polygon (points in general
   position).  What remains unproved: for NON-CONVEX simple polygons that
   for a simple polygon a point of the interior lies in an odd number of fan triangles (equivalently that the ears
   cut by the triangulation have disjoint interiors covering the polygon) - the Jordan-curve / triangulation
   theorem, not attempted.  General polygons are covered by the order-independence theorem and the correspondence. *)
Theorem C13_mask_is_point_in_polygon_partial :
  forall x0 y0 x1 y1 px py, x0 < x1 -> y0 < y1 ->
  point_in_polygon (px, py) (rectangle x0 y0 x1 y1) = true <-> (x0 <= px < x1 /\ y0 <= py < y1).
Proof. exact pip_rectangle. Qed.
Print Assumptions C13_mask_is_point_in_polygon_partial.

(* the routing table (Model/C13_Table.v source_table; regenerated from the current .pyx sources on every run and
   checked equal by the kernel in coq/Gen/C13/Tie.v): for every carrier, order test, remainder / hypot / atan2
   operation, argument, attribute value and axis, the arguments each class of the anchored files hands to its wrapped
   function are those of the model function of Model/C13_Wrappers.v, and the post-processing of the returned value is
   the stated one (none / output clamp / outer function / rotation about z by atan2(y, x) in degrees) *)
Theorem C13_routing_table_means_model :
  forall (A : Type) (ltb : A -> A -> bool) (rem : A -> A -> A) (hypot atan2 : A -> A -> A) (deg : A -> A)
         (arg : Z -> A) (attr : String.string -> A) (axis : Z) (shape : Z -> Z),
  let ro := routed_of ltb rem hypot atan2 deg arg attr axis shape in
  let x := arg 0%Z in let y := arg 1%Z in let z := arg 2%Z in
  ro "Swizzle2D"%string = swizzle2 r2 x y
  /\ ro "Swizzle3D"%string = swizzle3 (shape 0%Z) (shape 1%Z) (shape 2%Z) r3 x y z
  /\ ro "Slice2D"%string = slice2 axis (attr "value"%string) r2 x
  /\ ro "Slice3D"%string = slice3 axis (attr "value"%string) r3 x y
  /\ ro "ClampInput3D"%string = clamp_in3 ltb (attr "_xmin"%string) (attr "_xmax"%string) (attr "_ymin"%string) (attr "_ymax"%string)
                                           (attr "_zmin"%string) (attr "_zmax"%string) r3 x y z
  /\ ro "IsoMapper3D"%string = iso3 (fun l : list A => l) r3 x y z
  /\ ro "PeriodicTransform3D"%string = r3 (rem x (attr "period_x"%string)) (rem y (attr "period_y"%string)) (rem z (attr "period_z"%string))
  /\ ro "VectorPeriodicTransform3D"%string = ro "PeriodicTransform3D"%string
  /\ ro "VectorAxisymmetricMapper"%string = r2 (hypot x y) z
  /\ ro "VectorCylindricalTransform"%string = r3 (hypot x y) (atan2 y x) z
  /\ post_of axis (entry "VectorCylindricalTransform"%string) = PRotZ (RDeg (RAtan2 (RArg 1) (RArg 0)))
  /\ post_of axis (entry "ClampOutput3D"%string) = PClampOut (RAttr "_min"%string) (RAttr "_max"%string).
Proof.
  intros A ltb rem hypot atan2 deg arg attr axis shape ro x y z. repeat split; reflexivity.
Qed.
Print Assumptions C13_routing_table_means_model.

(* the loop nests of samplers.pyx (Model/C13_Table.v sampler_table; regenerated from the current source on every run
   and checked equal by the kernel): executing the loop nest of a three-dimensional range / grid sampler writes, under
   the index [i; j; k], the function at (x_i, y_j, z_k), for every index triple inside the shape and nothing else; a
   point sampler writes under [i] the function at the i-th point; and the descriptors of the table have exactly these
   loop shapes (vector samplers store the components x, y, z under the last index 0, 1, 2) *)
Theorem C13_sampler_loops_refine_specification :
  (forall (A B : Type) (d : sdesc) (f : list A -> B) xs ys zs dflt key val,
     sd_bounds d = [0; 1; 2]%nat -> sd_store d = [0; 1; 2]%nat -> sd_args d = [(0, 0); (1, 1); (2, 2)]%nat ->
     (In (key, val) (run_desc d f [xs; ys; zs] dflt) <->
      exists i j k, (i < List.length xs)%nat /\ (j < List.length ys)%nat /\ (k < List.length zs)%nat
                    /\ key = [i; j; k] /\ val = f [nth i xs dflt; nth j ys dflt; nth k zs dflt]))
  /\ (forall (A B : Type) (d : sdesc) (f : list A -> B) xs ys zs dflt key val,
     sd_bounds d = [0]%nat -> sd_store d = [0]%nat -> sd_args d = [(0, 0); (1, 0); (2, 0)]%nat ->
     (In (key, val) (run_desc d f [xs; ys; zs] dflt) <->
      exists i, (i < List.length xs)%nat /\ key = [i] /\ val = f [nth i xs dflt; nth i ys dflt; nth i zs dflt]))
  /\ Forall (fun n => match lookup_s n sampler_table with
                      | Some d => sd_bounds d = [0; 1; 2]%nat /\ sd_store d = [0; 1; 2]%nat /\ sd_args d = [(0, 0); (1, 1); (2, 2)]%nat
                      | None => False end)
            ["sample3d"; "sample3d_grid"; "samplevector3d"; "samplevector3d_grid"]%string
  /\ Forall (fun n => match lookup_s n sampler_table with
                      | Some d => sd_bounds d = [0]%nat /\ sd_store d = [0]%nat /\ sd_args d = [(0, 0); (1, 0); (2, 0)]%nat
                      | None => False end)
            ["sample3d_points"; "samplevector3d_points"]%string
  /\ (forall (A B : Type) (d : sdesc) (g : A -> A -> A -> B) xs ys zs dflt key val,
     sd_bounds d = [0; 1; 2]%nat -> sd_store d = [0; 1; 2]%nat -> sd_args d = [(0, 0); (1, 1); (2, 2)]%nat ->
     In (key, val) (run_desc d (fun l => g (nth 0 l dflt) (nth 1 l dflt) (nth 2 l dflt)) [xs; ys; zs] dflt) ->
     exists i j k plane row, key = [i; j; k] /\ nth_error (sample3d g xs ys zs) i = Some plane
                             /\ nth_error plane j = Some row /\ nth_error row k = Some val).
Proof.
  split; [intros A B d f xs ys zs dflt key val; apply (run_desc_3d false) |].
  split; [intros A B d f xs ys zs dflt key val; apply run_desc_points3 |].
  split; [exact (proj1 sampler_table_shapes) |]. split; [exact (proj1 (proj2 sampler_table_shapes)) |].
  intros A B d g xs ys zs dflt key val. apply run_desc_is_sample3d.
Qed.
Print Assumptions C13_sampler_loops_refine_specification.

(* VectorCylindricalTransform made total the same way: the same rotation (cos, sin) as for the axisymmetric mapper, so
   the length of the wrapped function's vector at (r, atan2(y, x), z) is preserved for EVERY (x, y) *)
Theorem C13_vector_cylindrical_rotation_everywhere :
  forall (sqrtQ : Q -> Q) (atan2Q : Q -> Q -> Q), (forall s, 0 <= s -> 0 <= sqrtQ s /\ sqrtQ s * sqrtQ s == s) ->
  forall (f : Q -> Q -> Q -> vec) xneg x y z,
  let r := radius sqrtQ x y in
  vector_cylindrical_total sqrtQ atan2Q xneg f x y z
  = rotz (fst (toroidal_cs xneg x y r)) (snd (toroidal_cs xneg x y r)) (f r (atan2Q y x) z)
  /\ dot (vector_cylindrical_total sqrtQ atan2Q xneg f x y z) (vector_cylindrical_total sqrtQ atan2Q xneg f x y z)
     == dot (f r (atan2Q y x) z) (f r (atan2Q y x) z).
Proof.
  intros sqrtQ atan2Q H f xneg x y z r. split; [reflexivity |].
  unfold vector_cylindrical_total. apply rotz_dot. apply (toroidal_cs_unit sqrtQ H xneg x y).
Qed.
Print Assumptions C13_vector_cylindrical_rotation_everywhere.

(* the program of periodic.pxd (Model/C13_Table.v source_remainder; regenerated from the current periodic.pxd on every run
   and checked equal by the kernel): run on binary64 it IS remainder_F, for every pair of doubles; run in exact arithmetic
   with the sum rounded by any rnd it IS remainder_rounded; hence, for any round-to-nearest rnd over a set of
   representable numbers containing 0 and the period, the value the program returns lies in [0, period).
   (PrimFloat primitives appear because the first clause computes on binary64.) *)
Theorem C13_periodic_source_program_means_models :
  (forall x1 x2 : float,
     run_remainder zero fmod_F PrimFloat.add toward_zero_F PrimFloat.eqb PrimFloat.ltb source_remainder x1 x2 = Some (remainder_F x1 x2))
  /\ (forall (rnd : Q -> Q) (pred_p x p : Q),
     run_remainder 0 fmod_Q (fun a b => rnd (a + b)) (fun _ => pred_p) Qeq_bool Qltb source_remainder x p
     = Some (remainder_rounded rnd pred_p x p))
  /\ (forall (repr : Q -> Prop) (rnd : Q -> Q), (forall q f, repr f -> Qabs (rnd q - q) <= Qabs (f - q)) ->
     forall p pred_p, 0 < p -> repr 0 -> repr p -> 0 <= pred_p /\ pred_p < p ->
     forall x, exists r, run_remainder 0 fmod_Q (fun a b => rnd (a + b)) (fun _ => pred_p) Qeq_bool Qltb source_remainder x p = Some r
                         /\ 0 <= r /\ r < p).
Proof.
  split; [exact source_remainder_is_remainder_F |]. split; [exact source_remainder_is_remainder_rounded |].
  intros repr rnd Hn p pred_p Hp R0 Rp Hpred x. exists (remainder_rounded rnd pred_p x p).
  split; [apply source_remainder_is_remainder_rounded |]. exact (remainder_nearest_range repr rnd Hn p pred_p Hp R0 Rp Hpred x).
Qed.
Print Assumptions C13_periodic_source_program_means_models.

(* the argument checks of every constructor (Model/C13_Table.v ctor_table; regenerated from the __init__ methods of the
   current sources on every run and checked equal by the kernel): evaluated in source order (first check that fires decides)
   they ARE the validation policies the correspondence compares with the real exceptions, for every value of the
   arguments (numeric arguments as extended reals, wrapped objects callable) *)
Theorem C13_constructor_checks_mean_policies :
  forall (num : String.string -> option Q) (is_tuple : bool) (shape : list Z) (axis : axis_sel),
  let ev := fun name => ctor_eval num is_tuple shape axis (lookup_c name ctor_table) in
  (forall p, num "period"%string = Some p ->
     ev "PeriodicTransform1D"%string = period1_validate p /\ ev "VectorPeriodicTransform1D"%string = period1_validate p)
  /\ (forall px py pz, num "period_x"%string = Some px -> num "period_y"%string = Some py -> num "period_z"%string = Some pz ->
     ev "PeriodicTransform3D"%string = periodn_validate [px; py; pz] /\ ev "VectorPeriodicTransform3D"%string = periodn_validate [px; py; pz]
     /\ ev "PeriodicTransform2D"%string = periodn_validate [px; py] /\ ev "VectorPeriodicTransform2D"%string = periodn_validate [px; py])
  /\ (ev "ClampOutput1D"%string = clamp_validate (num "min"%string) (num "max"%string)
      /\ ev "ClampOutput2D"%string = clamp_validate (num "min"%string) (num "max"%string)
      /\ ev "ClampOutput3D"%string = clamp_validate (num "min"%string) (num "max"%string)
      /\ ev "ClampInput1D"%string = clamp_validate (num "xmin"%string) (num "xmax"%string)
      /\ ev "ClampInput2D"%string = first_err (clamp_validate (num "xmin"%string) (num "xmax"%string)) (clamp_validate (num "ymin"%string) (num "ymax"%string))
      /\ ev "ClampInput3D"%string = first_err (clamp_validate (num "xmin"%string) (num "xmax"%string))
                                      (first_err (clamp_validate (num "ymin"%string) (num "ymax"%string)) (clamp_validate (num "zmin"%string) (num "zmax"%string))))
  /\ ev "Swizzle3D"%string = swizzle3_validate is_tuple shape
  /\ ev "Slice2D"%string = match slice_validate 2 axis with inl e => Some e | inr _ => None end
  /\ ev "Slice3D"%string = match slice_validate 3 axis with inl e => Some e | inr _ => None end.
Proof.
  intros num is_tuple shape axis ev.
  split; [intros p H; exact (ctor_period1 num is_tuple shape axis p H) |].
  split; [intros px py pz Hx Hy Hz; exact (ctor_period3 num is_tuple shape axis px py pz Hx Hy Hz) |].
  split; [exact (ctor_clamp num is_tuple shape axis) |].
  split; [exact (ctor_swizzle3 num is_tuple shape axis) |].
  exact (ctor_slice num is_tuple shape axis).
Qed.
Print Assumptions C13_constructor_checks_mean_policies.

(* the range checks recorded in the sampler descriptors (len, order, count, in source order), evaluated on the range
   arguments, are range_validate: a one-range sampler raises exactly what range_validate says, a two- / three-range
   sampler is accepted exactly when every range is *)
Theorem C13_sampler_range_checks_mean_policy :
  (forall r, checks_eval [r] (sd_checks (range_desc 1 false)) = rv r)
  /\ (forall r0 r1 r2 vector,
       (checks_eval [r0; r1; r2] (sd_checks (range_desc 3 vector)) = None <-> (rv r0 = None /\ rv r1 = None /\ rv r2 = None))
       /\ (checks_eval [r0; r1] (sd_checks (range_desc 2 vector)) = None <-> (rv r0 = None /\ rv r1 = None))).
Proof. split; [exact sampler_checks_1d | exact sampler_checks_3d]. Qed.
Print Assumptions C13_sampler_range_checks_mean_policy.

(* non-vacuity: the hypotheses used above are satisfiable (a period, a rounding, a sample count, a
   rectangle, an off-axis point with an exact square root, valid selectors) *)
Example C13_nonvacuous :
  0 < (1 # 2) /\ (forall a b, a <= b -> rnd_half a <= rnd_half b) /\ rnd_half 0 == 0 /\ rnd_half 1 == 1
  /\ (1 <= 17)%Z /\ (0 # 1) < 1 /\ ~ (3 == 0 /\ 4 == 0) /\ 5 * 5 == 3 * 3 + 4 * 4
  /\ swizzle3_validate true [2; 0; 1]%Z = None /\ slice_validate 3 (AxNum 2) = inr 2%Z
  /\ clamp_validate (Some 0) None = None
  /\ point_in_polygon (1 # 2, 1 # 2) (rectangle 0 0 1 1) = true.
Proof.
  repeat split; try reflexivity; try lia; try exact rnd_half_mono.
  intros [H _]. discriminate H.
Qed.
