(* Property C19 -- Element and isotope registry is unambiguous and self-consistent.
   Nothing but the property theorems, each closed by a lemma of Proofs/C19_Registry.v.
   Every theorem is about an ARBITRARY registry r (any number of elements and isotopes, any names)
   that passes the boolean check [wf]; the tie (coq/Gen/C19/Tie.v, regenerated on every run from
   elements.pyx) evaluates [wf] on the registry the current source defines.
   [wf] asks: names pairwise different over all species; two different elements never write the
   same key into the element index, two different isotopes never the same key into the isotope
   index; every element is a row of the periodic table; every isotope has an element of the registry,
   its atomic number, 1 <= A, Z <= A, |weight - A| <= 1/10. *)
Require Import Cherab.Common.Qx.
From Coq Require Import String Qabs.
From Coq Require Import Sorting.Sorted Permutation.
Require Import Cherab.Model.C19_Registry Cherab.Model.C19_Shape Cherab.Model.C19_Args Cherab.Proofs.C19_Registry Cherab.Proofs.C19_Deepen Cherab.Proofs.C19_Sound.
Local Open Scope Z_scope.

(* every element is found by its name, its symbol and its atomic number (as a string in any letter
   case, or as an integer), and by itself; the lookup returns that element *)
Theorem C19_element_lookup_by_every_identifier :
  forall r, wf r = true -> forall e, In e (elements r) ->
  (forall s, lower s = lower (e_name e) \/ lower s = lower (e_symbol e) \/ lower s = zstr (e_Z e) ->
             lookup_element r (VStr s) = Ok e)
  /\ lookup_element r (VInt (e_Z e)) = Ok e
  /\ lookup_element r (VSpecies (SE e)) = Ok e.
Proof.
  intros r W e He. split; [|split].
  - intros s Hs. apply lookup_element_str; assumption.
  - apply lookup_element_int; assumption.
  - apply lookup_element_obj.
Qed.
Print Assumptions C19_element_lookup_by_every_identifier.

(* every isotope is found by its name, its symbol, element symbol + mass number and element name +
   mass number (one string, any letter case), by (element, mass number) with the element given in any
   way lookup_element resolves it, and by itself *)
Theorem C19_isotope_lookup_by_every_identifier :
  forall r, wf r = true -> forall i, In i (isotopes r) ->
  (forall s n, (lower s = lower (i_name i) \/ lower s = lower (i_symbol i)
                \/ lower s = lower (sapp (e_symbol (i_element i)) (zstr (i_A i)))
                \/ lower s = lower (sapp (e_name (i_element i)) (zstr (i_A i)))) ->
               n = None \/ n = Some 0 -> lookup_isotope r (VStr s) n = Ok i)
  /\ (forall s, lower s = lower (e_name (i_element i)) \/ lower s = lower (e_symbol (i_element i))
                \/ lower s = zstr (e_Z (i_element i)) ->
                lookup_isotope r (VStr s) (Some (i_A i)) = Ok i)
  /\ lookup_isotope r (VInt (e_Z (i_element i))) (Some (i_A i)) = Ok i
  /\ lookup_isotope r (VSpecies (SE (i_element i))) (Some (i_A i)) = Ok i
  /\ (forall n, lookup_isotope r (VSpecies (SI i)) n = Ok i).
Proof.
  intros r W i Hi.
  assert (He : In (i_element i) (elements r)) by (apply (isotope_consistent r W i Hi)).
  split; [|split; [|split; [|split]]].
  - intros s n Hs Hn. apply lookup_isotope_str; assumption.
  - intros s Hs. apply lookup_isotope_number; try assumption; [discriminate|].
    apply lookup_element_str; assumption.
  - apply lookup_isotope_number; try assumption; [discriminate|]. apply lookup_element_int; assumption.
  - apply lookup_isotope_number; try assumption; [discriminate|]. apply lookup_element_obj.
  - intros n. apply lookup_isotope_obj.
Qed.
Print Assumptions C19_isotope_lookup_by_every_identifier.

(* argument forms: any other object (numpy.str_, numpy.int64, an instance of a Python subclass ...) is
   looked up through its str(), so it finds the element exactly when its str() spells an identifier;
   and `number` may be any truthy object whose str() is the decimal mass number (int, numpy integer,
   the string "2"), with the element given in any form lookup_element resolves *)
Theorem C19_lookup_any_argument_form :
  forall r, wf r = true ->
  (forall e, In e (elements r) ->
     forall s, lower s = lower (e_name e) \/ lower s = lower (e_symbol e) \/ lower s = zstr (e_Z e) ->
     lookup_element r (VOther s) = Ok e)
  /\ (forall i, In i (isotopes r) ->
      forall v, (forall j, v <> VSpecies (SI j)) -> lookup_element r v = Ok (i_element i) ->
      lookup_isotope_core (element_index r) (isotope_index r) v (Some (zstr (i_A i))) = Ok i).
Proof.
  intros r W. split.
  - intros e He s Hs. apply lookup_element_other; assumption.
  - intros i Hi v Hv Hl. apply lookup_isotope_core_number; assumption.
Qed.
Print Assumptions C19_lookup_any_argument_form.

(* a string that is no key of any element / isotope raises ValueError: nothing is resolved by accident *)
Theorem C19_unknown_keys_rejected :
  forall r s,
  ((forall e, In e (elements r) -> ~ In (lower s) (element_keys e)) -> lookup_element r (VStr s) = ErrValue)
  /\ ((forall i, In i (isotopes r) -> ~ In (lower s) (isotope_keys i)) -> lookup_isotope r (VStr s) None = ErrValue).
Proof. intros r s. split; [apply lookup_element_unknown | apply lookup_isotope_unknown]. Qed.
Print Assumptions C19_unknown_keys_rejected.

(* no two species share a name; no two elements share a symbol or a number; no two isotopes share a
   symbol or (element, mass number) -- symbols compared without regard to letter case *)
Theorem C19_names_and_symbols_unique :
  forall r, wf r = true ->
  (forall a b, In a (all_species r) -> In b (all_species r) -> species_name a = species_name b -> a = b)
  /\ (forall a b, In a (elements r) -> In b (elements r) -> lower (e_symbol a) = lower (e_symbol b) -> a = b)
  /\ (forall a b, In a (elements r) -> In b (elements r) -> e_Z a = e_Z b -> a = b)
  /\ (forall a b, In a (isotopes r) -> In b (isotopes r) -> lower (i_symbol a) = lower (i_symbol b) -> a = b)
  /\ (forall a b, In a (isotopes r) -> In b (isotopes r) -> i_element a = i_element b -> i_A a = i_A b -> a = b).
Proof.
  intros r W. repeat split.
  - apply names_unique; exact W.
  - apply element_symbols_unique; exact W.
  - apply element_numbers_unique; exact W.
  - apply isotope_symbols_unique; exact W.
  - apply isotope_element_mass_unique; exact W.
Qed.
Print Assumptions C19_names_and_symbols_unique.

(* atomic numbers match the periodic table (the 118-row table written in the model from the IUPAC
   list; a sanity lemma says its numbers are 1..118 and its names and symbols are pairwise different) *)
Theorem C19_atomic_numbers_match_periodic_table :
  forall r, wf r = true -> forall e, In e (elements r) ->
  exists z nm sy, In (z, nm, sy) periodic_table /\ e_Z e = z /\ lower (e_symbol e) = lower sy
                  /\ (lower (e_name e) = nm \/ In (z, lower (e_name e)) alternate_names).
Proof. exact atomic_numbers_match. Qed.
Print Assumptions C19_atomic_numbers_match_periodic_table.

Theorem C19_isotopes_consistent :
  forall r, wf r = true -> forall i, In i (isotopes r) ->
  In (i_element i) (elements r) /\ i_Z i = e_Z (i_element i) /\ i_Z i <= i_A i
  /\ (Qabs (i_weight i - inject_Z (i_A i)) <= 1 # 10)%Q.
Proof. exact isotope_consistent. Qed.
Print Assumptions C19_isotopes_consistent.

(* == and hash agree on the registry: equal species have equal hash keys, different species compare
   unequal (== False and != True), every species equals itself *)
Theorem C19_eq_hash_agree :
  forall r, wf r = true -> forall a b, In a (all_species r) -> In b (all_species r) ->
  (py_eq a b = true -> hkey_eqb (hash_key a) (hash_key b) = true)
  /\ (a <> b -> py_eq a b = false /\ py_ne a b = true)
  /\ py_eq a a = true /\ py_ne a a = false.
Proof. exact eq_hash_agree. Qed.
Print Assumptions C19_eq_hash_agree.

(* for ANY two species of the same class (registry members or objects built by a user):
   equal => equal hash key; and != is always the negation of == *)
Theorem C19_eq_hash_any_same_class :
  forall a b, proper_subclass a b = false -> proper_subclass b a = false ->
  (py_eq a b = true -> hkey_eqb (hash_key a) (hash_key b) = true) /\ py_ne a b = negb (py_eq a b).
Proof. intros a b C1 C2. split; [apply eq_hash_same_class; assumption | apply py_ne_negb]. Qed.
Print Assumptions C19_eq_hash_any_same_class.

(* lines over registry species: equal lines have equal hash keys, different lines compare unequal *)
Theorem C19_line_eq_hash_agree :
  forall r, wf r = true -> forall a b, In (l_element a) (all_species r) -> In (l_element b) (all_species r) ->
  (line_eq a b = true -> line_key_eqb a b = true)
  /\ (a <> b -> line_eq a b = false /\ line_ne a b = true)
  /\ line_eq a a = true /\ line_ne a a = false.
Proof. exact line_eq_hash. Qed.
Print Assumptions C19_line_eq_hash_agree.

(* species and lines as dictionary keys: for every dictionary (every history of assignments) whose
   keys are registry species / lines over registry species, an assignment is read back and leaves
   every other key untouched.  [khash] is any hash function that respects the hash key (what CPython
   promises for tuples of str / int / float), [ksame] is object identity. *)
Theorem C19_species_work_as_dict_keys :
  forall r, wf r = true ->
  forall (khash : species -> Z) (ksame : species -> species -> bool),
  (forall a b, hkey_eqb (hash_key a) (hash_key b) = true -> khash a = khash b) ->
  (forall a, ksame a a = true) -> (forall a b, ksame a b = true -> a = b) ->
  forall V (d : list (species * V)) k v,
  Forall (fun kv => In (fst kv) (all_species r)) d -> In k (all_species r) ->
  dict_get khash ksame py_eq (dict_set khash ksame py_eq d k v) k = Some v
  /\ forall k', In k' (all_species r) -> k <> k' ->
     dict_get khash ksame py_eq (dict_set khash ksame py_eq d k v) k' = dict_get khash ksame py_eq d k'.
Proof. intros r W khash ksame H1 H2 H3 V d k v Hd Hk. apply (species_dict r W khash ksame H2 H3 V d k v Hd Hk). Qed.
Print Assumptions C19_species_work_as_dict_keys.

Theorem C19_lines_work_as_dict_keys :
  forall r, wf r = true ->
  forall (khash : line -> Z) (ksame : line -> line -> bool),
  (forall a b, line_key_eqb a b = true -> khash a = khash b) ->
  (forall a, ksame a a = true) -> (forall a b, ksame a b = true -> a = b) ->
  forall V (d : list (line * V)) k v,
  Forall (fun kv => In (l_element (fst kv)) (all_species r)) d -> In (l_element k) (all_species r) ->
  dict_get khash ksame line_eq (dict_set khash ksame line_eq d k v) k = Some v
  /\ forall k', In (l_element k') (all_species r) -> k <> k' ->
     dict_get khash ksame line_eq (dict_set khash ksame line_eq d k v) k' = dict_get khash ksame line_eq d k'.
Proof. intros r W khash ksame H1 H2 H3 V d k v Hd Hk. apply (line_dict r W khash ksame H2 H3 V d k v Hd Hk). Qed.
Print Assumptions C19_lines_work_as_dict_keys.

(* holds of EVERY program that loads, well-formed or not: an isotope carries the atomic number of the
   element it was built on (Isotope.__init__ passes element.atomic_number to Element.__init__) *)
Theorem C19_isotope_number_by_construction :
  forall prog r, load prog = Some r -> forall i, In i (isotopes r) -> i_Z i = e_Z (i_element i).
Proof. exact isotope_number_by_construction. Qed.
Print Assumptions C19_isotope_number_by_construction.

(* the key-disjointness clauses of wf are not stronger than the property: in ANY registry in which
   every key of every element (isotope) leads back to it, they hold *)
Theorem C19_wf_key_clauses_necessary :
  forall r,
  ((forall e k, In e (elements r) -> In k (element_keys e) -> idx_get (element_index r) k = Some e) ->
   pairwise_disjoint e_name element_keys (elements r) = true)
  /\ ((forall i k, In i (isotopes r) -> In k (isotope_keys i) -> idx_get (isotope_index r) k = Some i) ->
      pairwise_disjoint i_name isotope_keys (isotopes r) = true).
Proof. intros r. split; apply lookups_imply_disjoint. Qed.
Print Assumptions C19_wf_key_clauses_necessary.

(* ---- second layer: facts that need NO well-formedness -------------------------------------------------- *)
(* the loop of the index builders refines its specification, for every list of objects and every key:
   the object found under k is the last object, in iteration order, that writes k *)
Theorem C19_index_builders_refine_spec :
  forall (A : Type) (keys : A -> list string) (l : list A) (k : string),
  idx_get (build_index keys l) k = last_with keys k l.
Proof. exact @build_index_spec. Qed.
Print Assumptions C19_index_builders_refine_spec.

(* running the builders again on top of the dictionaries they have filled changes no lookup *)
Theorem C19_rebuilding_indices_is_idempotent :
  forall (A : Type) (keys : A -> list string) (l : list A) (k : string),
  idx_get (fold_left (add_keys keys) l (build_index keys l)) k = idx_get (build_index keys l) k.
Proof. exact @rebuild_idempotent. Qed.
Print Assumptions C19_rebuilding_indices_is_idempotent.

(* "all letter cases", for EVERY registry: a string lookup depends on the lower-cased string only *)
Theorem C19_lookups_are_case_blind :
  forall r s s', lower s = lower s' ->
  lookup_element r (VStr s) = lookup_element r (VStr s')
  /\ (forall n, lookup_isotope r (VStr s) n = lookup_isotope r (VStr s') n)
  /\ lookup_element r (VStr (lower s)) = lookup_element r (VStr s).
Proof.
  intros r s s' H. split; [|split].
  - apply lookup_element_case_blind; exact H.
  - intros n. apply lookup_isotope_case_blind; exact H.
  - apply lookup_element_lower.
Qed.
Print Assumptions C19_lookups_are_case_blind.

(* == holds exactly when every compared field agrees (weights as doubles, i.e. as exact rationals):
   a species that differs in any single field is unequal, for all values of the fields *)
Theorem C19_eq_characterised_by_fields :
  (forall a b, element_eq a b = true <->
     e_name a = e_name b /\ e_symbol a = e_symbol b /\ e_Z a = e_Z b /\ (e_weight a == e_weight b)%Q)
  /\ (forall a b, isotope_eq a b = true <->
     i_name a = i_name b /\ i_symbol a = i_symbol b /\ i_Z a = i_Z b /\ (i_weight a == i_weight b)%Q
     /\ element_eq (i_element a) (i_element b) = true /\ i_A a = i_A b).
Proof. split; [exact element_eq_iff | exact isotope_eq_iff]. Qed.
Print Assumptions C19_eq_characterised_by_fields.

(* dir(module): the order in which the builders see the objects is a sorted permutation of the namespace *)
Theorem C19_dir_order_is_a_sorted_permutation :
  forall en, Permutation (dir_sorted en) en /\ Sorted attr_le (dir_sorted en).
Proof. intros en. split; [apply dir_sorted_perm | apply dir_sorted_sorted]. Qed.
Print Assumptions C19_dir_order_is_a_sorted_permutation.

(* species as keys of a dict WITH deletion (was tied by the correspondence only): a dict whose keys are
   registry species, no key twice, is a finite map -- d.get(k) = v iff (k, v) is an entry; pop removes k and
   nothing else; assignments and pops keep the dict in this form (so every history does) *)
Theorem C19_species_dict_with_deletion_is_a_finite_map :
  forall r, wf r = true ->
  forall (khash : species -> Z) (ksame : species -> species -> bool),
  (forall a, ksame a a = true) -> (forall a b, ksame a b = true -> a = b) ->
  forall V (d : list (species * V)) k,
  dict_ok (fun o => In o (all_species r)) d -> In k (all_species r) ->
  (forall v, dict_get khash ksame py_eq d k = Some v <-> In (k, v) d)
  /\ dict_get khash ksame py_eq (dict_del khash ksame py_eq d k) k = None
  /\ (forall k', In k' (all_species r) -> k <> k' ->
      dict_get khash ksame py_eq (dict_del khash ksame py_eq d k) k' = dict_get khash ksame py_eq d k')
  /\ dict_ok (fun o => In o (all_species r)) (dict_del khash ksame py_eq d k)
  /\ (forall v, dict_ok (fun o => In o (all_species r)) (dict_set khash ksame py_eq d k v)).
Proof. intros r W khash ksame H1 H2 V d k Hd Hk. apply (species_dict_map r W khash ksame H1 H2 V d k Hd Hk). Qed.
Print Assumptions C19_species_dict_with_deletion_is_a_finite_map.

(* argument-validation policy (signatures regenerated from the source, Gen/C19/Shape.v): whatever Python
   objects are passed, an Element is built only from two exact str, a value that converts to a C int and a
   value that converts to a double; a Line only with 0 <= charge <= Z - 1; the intended calls succeed *)
Theorem C19_constructor_argument_policy :
  (forall args e, element_init_py args = Done e ->
     in_int (e_Z e) = true /\ exists n s zv wv, args = [PStr n; PStr s; zv; wv] /\ e_name e = n /\ e_symbol e = s
                                             /\ conv_int zv = Done (e_Z e) /\ conv_double wv = Done (e_weight e))
  /\ (forall args l, line_init_py args = Done l ->
      0 <= l_charge l <= species_Z (l_element l) - 1 /\ in_int (l_charge l) = true)
  /\ (forall n s z w, in_int z = true -> element_init_py [PStr n; PStr s; PInt z; PFloat w] = Done (new_element n s z w))
  /\ (forall n s el a w, in_int a = true ->
      isotope_init_py [PStr n; PStr s; PSpecies (SE el); PInt a; PFloat w] = Done (new_isotope n s el a w)).
Proof.
  split; [exact element_init_sound | split; [exact line_init_sound | split; [exact element_init_complete | exact isotope_init_complete]]].
Qed.
Print Assumptions C19_constructor_argument_policy.

(* ---- third layer ------------------------------------------------------------------------------------------ *)
(* str(int) is injective: two different atomic (or mass) numbers never print the same key *)
Theorem C19_int_to_string_injective : forall a b, zstr a = zstr b -> a = b.
Proof. exact zstr_injective. Qed.
Print Assumptions C19_int_to_string_injective.

(* SOUNDNESS of the lookups, for EVERY registry: whatever is returned for an argument other than the object
   itself is a registry member one of whose index keys is the lower-cased str() of the argument (with a
   number: element symbol + str(number)); nothing is invented *)
Theorem C19_lookup_results_are_sound :
  forall r,
  (forall v e, (forall x, v <> VSpecies (SE x)) -> lookup_element r v = Ok e ->
     In e (elements r) /\ In (lower (py_str v)) (element_keys e))
  /\ (forall v num i, (forall x, v <> VSpecies (SI x)) ->
      lookup_isotope_core (element_index r) (isotope_index r) v num = Ok i ->
      In i (isotopes r) /\
      match num with
      | None => In (lower (py_str v)) (isotope_keys i)
      | Some sn => exists el, lookup_element r v = Ok el /\ In (lower (sapp (e_symbol el) sn)) (isotope_keys i)
      end).
Proof. intros r. split; [apply lookup_element_sound | apply lookup_isotope_sound]. Qed.
Print Assumptions C19_lookup_results_are_sound.

(* ... and in a well-formed registry an atomic number, as an int or as its decimal string, can only lead to an
   element that HAS this atomic number (uses: str(int) injective and starting with a digit or '-', while every
   name and symbol of the periodic table starts with a letter) *)
Theorem C19_lookup_by_number_is_sound :
  forall r, wf r = true -> forall z e,
  (lookup_element r (VInt z) = Ok e \/ lookup_element r (VStr (zstr z)) = Ok e) -> e_Z e = z.
Proof. exact lookup_number_sound. Qed.
Print Assumptions C19_lookup_by_number_is_sound.

(* equality of hash keys (what CPython's tuple equality decides, an int equal to a float included) is an
   equivalence relation: the hypothesis "khash respects the hash key" of the dict theorems is consistent, and
   the classes it induces are well defined *)
Theorem C19_hash_key_equality_is_an_equivalence :
  (forall a, hkey_eqb a a = true) /\ (forall a b, hkey_eqb a b = hkey_eqb b a)
  /\ (forall a b c, hkey_eqb a b = true -> hkey_eqb b c = true -> hkey_eqb a c = true).
Proof. split; [exact hkey_eqb_refl | split; [exact hkey_eqb_sym | exact hkey_eqb_trans]]. Qed.
Print Assumptions C19_hash_key_equality_is_an_equivalence.

(* an Isotope passed as the element of Isotope(...) (accepted: subclass instance): whatever the other arguments,
   the object that is built carries its PARENT's atomic number.  (Lookups / == of such nested objects are not
   modelled; they cannot be exported: exec refuses the definition, so the tie fails.) *)
Theorem C19_isotope_on_isotope_takes_parent_number :
  forall args ni, isotope_on_isotope_init_py args = Done ni -> ni_Z ni = i_Z (ni_parent ni).
Proof. exact nested_isotope_number. Qed.
Print Assumptions C19_isotope_on_isotope_takes_parent_number.

(* non-vacuity: a two-element, three-isotope program that loads and is well-formed *)
Local Open Scope string_scope.
Example C19_nonvacuous :
  wf_program [DefElement "hydrogen" "hydrogen" "H" 1 (1007975 # 1000000);
              DefElement "helium" "helium" "He" 2 (4002602 # 1000000);
              DefIsotope "deuterium" "deuterium" "D" "hydrogen" 2 (20141017778 # 10000000000);
              DefIsotope "tritium" "tritium" "T" "hydrogen" 3 (30160492777 # 10000000000);
              DefIsotope "helium3" "helium3" "He3" "helium" 3 (3016029322 # 1000000000)] = true.
Proof. vm_compute. reflexivity. Qed.
