(* Property C16 -- Instruments: settings follow parameters, calibration conserves the spectrum.
   This file contains nothing but the property theorems, each closed by [exact]/[apply] of a lemma
   from Proofs/, with Print Assumptions beneath.

   Reading guide.  [run step ops s] applies a list of public calls (setters with accepted or rejected
   values, reads of the lazily cached properties) and returns the final state and what every call
   returned or raised.  [*_pstep] is the meaning of a call on the level of the constructor
   parameters (an accepted assignment replaces that parameter; nothing else changes anything).
   [total v]: _update_spectral_settings does not raise for the current parameters (there is at least
   one accommodated spectrum / filter).  [rnd] is the rounding of one floating-point operation:
   the history theorems hold for every [rnd]. *)
Require Import Cherab.Common.Qx.
Require Import Cherab.Model.C16_Instruments.
Require Import Cherab.Proofs.C16_Base Cherab.Proofs.C16_Spectrometer Cherab.Proofs.C16_CzernyTurner
               Cherab.Proofs.C16_Polychromator Cherab.Proofs.C16_Range Cherab.Proofs.C16_Calibrate
               Cherab.Proofs.C16_Round Cherab.Proofs.C16_Filters Cherab.Model.C16_Source Cherab.Proofs.C16_Source
               Cherab.Proofs.C16_Integral Cherab.Proofs.C16_Order Cherab.Proofs.C16_Resolution Cherab.Proofs.C16_RoundProper.
From Coq Require Import Permutation Morphisms.
From Coq Require Import String.
Open Scope Q_scope.

(* Spectrometer: after ANY sequence of public calls on an instrument constructed with ANY
   parameters, (a) the parameters are those of "last accepted assignment wins", and (b) an
   instrument constructed directly with the final parameters exists and answers every sequence of
   reads (min/max wavelength, spectral bins, pipeline kwargs/classes, pixel-edge and pixel-centre
   arrays) exactly as the mutated one does. *)
Theorem C16_spectrometer_history_independent :
  forall (rnd : Q -> Q) p0 s0 ops, sp_construct rnd p0 = Ok s0 ->
  let s := fst (run (sp_step rnd) ops s0) in
  sp_params_of s = fold_left (fun p o => sp_pstep o p) ops (sp_params_of s0) /\
  exists sf, sp_construct rnd (sp_record (sp_params_of s)) = Ok sf /\
    (total (sp_view rnd s) -> forall obs, forallb sp_is_obs obs = true ->
       snd (run (sp_step rnd) obs s) = snd (run (sp_step rnd) obs sf)).
Proof. exact sp_history. Qed.
Print Assumptions C16_spectrometer_history_independent.

(* every reachable Spectrometer state holds valid (>= 2 entries, strictly increasing) pixel arrays and
   a positive min_bins_per_pixel, so that the coverage and bin-width theorems below apply to it *)
Theorem C16_spectrometer_reachable_valid :
  forall (rnd : Q -> Q) p0 s0 ops, sp_construct rnd p0 = Ok s0 ->
  let s := fst (run (sp_step rnd) ops s0) in
  forallb valid_arr (sp_w2p s) = true /\ (0 < sp_mbpp s)%Z.
Proof. intros rnd p0 s0 ops H. apply (sp_reachable_inv rnd p0 s0 ops H). Qed.
Print Assumptions C16_spectrometer_reachable_valid.

(* Czerny-Turner: the same, for every resolution function (sqrt/cos/tan are not modelled: the
   statement holds whatever resolution() computes from the five optical parameters and the
   wavelength), every deg2rad and every rounding.  [ct_rel pf s]: the state holds exactly the
   pixel arrays generated from the final parameters pf, and its caches are coherent. *)
Theorem C16_czerny_turner_history_independent :
  forall (rnd : Q -> Q) (resolution : ct_key -> Q -> Q) (deg2rad : Q -> Q) p0 s0 ops,
  ct_construct rnd resolution deg2rad p0 = Ok s0 ->
  let s := fst (run (ct_step rnd resolution deg2rad) ops s0) in
  let pf := fold_left (fun p o => ct_pstep o p) ops p0 in
  ct_rel rnd resolution deg2rad pf s /\
  exists sf, ct_construct rnd resolution deg2rad pf = Ok sf /\
    (total (ct_view rnd s) -> forall obs, forallb ct_is_obs obs = true ->
       snd (run (ct_step rnd resolution deg2rad) obs s) = snd (run (ct_step rnd resolution deg2rad) obs sf)).
Proof. exact ct_history. Qed.
Print Assumptions C16_czerny_turner_history_independent.

Theorem C16_polychromator_history_independent :
  forall (rnd : Q -> Q) p0 s0 ops, pc_construct p0 = Ok s0 ->
  let s := fst (run (pc_step rnd) ops s0) in
  let pf := fold_left (fun p o => pc_pstep o p) ops p0 in
  pc_rel rnd pf s /\
  exists sf, pc_construct pf = Ok sf /\
    (total (pc_view rnd s) -> forall obs, forallb pc_is_obs obs = true ->
       snd (run (pc_step rnd) obs s) = snd (run (pc_step rnd) obs sf)).
Proof. exact pc_history. Qed.
Print Assumptions C16_polychromator_history_independent.

(* the range computed by Spectrometer._update_spectral_settings covers every pixel edge of every
   accommodated spectrum, for any number of spectra and any valid pixel layout *)
Theorem C16_range_covers_pixels :
  forall (rnd : Q -> Q) mbpp w2p mn mx, forallb valid_arr w2p = true ->
  d_min (sp_derive rnd mbpp w2p) = Some (Fin mn) -> d_max (sp_derive rnd mbpp w2p) = Some (Fin mx) ->
  forall a, In a w2p -> forall x, In x a -> mn <= x /\ x <= mx.
Proof. exact range_covers_pixels. Qed.
Print Assumptions C16_range_covers_pixels.

Theorem C16_range_covers_filters :
  forall (rnd : Q -> Q) mbpw fs mn mx,
  d_min (pc_derive rnd mbpw fs) = Some (Fin mn) -> d_max (pc_derive rnd mbpw fs) = Some (Fin mx) ->
  forall f, In f fs -> mn <= f_min f /\ f_max f <= mx.
Proof. exact range_covers_filters. Qed.
Print Assumptions C16_range_covers_filters.

(* exact arithmetic: the bin width (max - min)/bins never exceeds (any, hence the narrowest) pixel
   width divided by min_bins_per_pixel; the bin count is positive *)
Theorem C16_bin_width_bound :
  forall mbpp w2p mn mx n, forallb valid_arr w2p = true -> (0 < mbpp)%Z ->
  d_min (sp_derive exact mbpp w2p) = Some (Fin mn) -> d_max (sp_derive exact mbpp w2p) = Some (Fin mx) ->
  d_bins (sp_derive exact mbpp w2p) = Some n ->
  forall a, In a w2p -> forall x y, In (x, y) (pixels a) ->
  (0 < n)%Z /\ (mx - mn) / inject_Z n <= (y - x) / inject_Z mbpp.
Proof. exact bin_width_bound. Qed.
Print Assumptions C16_bin_width_bound.

(* rounded arithmetic with relative error <= u per operation (IEEE doubles: u = 2^-53): the bound
   holds up to the factor ((1+u)/(1-u))^2 *)
Theorem C16_bin_width_bound_float :
  forall (rnd : Q -> Q) (u : Q), 0 <= u -> u < 1 ->
  (forall x, 0 <= x -> (1 - u) * x <= rnd x /\ rnd x <= (1 + u) * x) ->
  forall mbpp w2p mn mx n, forallb valid_arr w2p = true -> (0 < mbpp)%Z ->
  d_min (sp_derive rnd mbpp w2p) = Some (Fin mn) -> d_max (sp_derive rnd mbpp w2p) = Some (Fin mx) ->
  d_bins (sp_derive rnd mbpp w2p) = Some n ->
  forall a, In a w2p -> forall x y, In (x, y) (pixels a) ->
  (0 < n)%Z /\
  (1 - u) * (1 - u) * (mx - mn) <= inject_Z n * ((1 + u) * (1 + u) * ((y - x) / inject_Z mbpp)).
Proof. exact bin_width_bound_float. Qed.
Print Assumptions C16_bin_width_bound_float.

(* Polychromator, exact arithmetic (the rounded-arithmetic versions are C16_bin_width_bound_polychromator_float
   and _double below; the hypothesis on the filters is discharged for trapezoidal filters by
   C16_trapezoid_range_exact) *)
Theorem C16_bin_width_bound_polychromator :
  forall mbpw fs mn mx n, (0 < mbpw)%Z -> (forall f, In f fs -> f_min f < f_max f /\ 0 < f_window f) ->
  d_min (pc_derive exact mbpw fs) = Some (Fin mn) -> d_max (pc_derive exact mbpw fs) = Some (Fin mx) ->
  d_bins (pc_derive exact mbpw fs) = Some n ->
  forall f, In f fs -> (0 < n)%Z /\ (mx - mn) / inject_Z n <= f_window f / inject_Z mbpw.
Proof. exact bin_width_bound_pc. Qed.
Print Assumptions C16_bin_width_bound_polychromator.

(* exact arithmetic: a positive resolution makes every Czerny-Turner pixel array a valid calibration
   array (so the two theorems above apply to Czerny-Turner instruments) *)
Theorem C16_czerny_turner_pixels_increasing :
  forall (resolution : ct_key -> Q -> Q) k acc, (forall w, 0 < resolution k w) ->
  forallb acc_valid acc = true -> forallb valid_arr (ct_arrays exact resolution k acc) = true.
Proof. exact ct_arrays_valid. Qed.
Print Assumptions C16_czerny_turner_pixels_increasing.

(* calibrate: for ANY strictly increasing pixel-edge array, value_i * width_i is the spectrum's
   integral over pixel i, and summed over the pixels it is the integral over their union; for every
   additive integral *)
Theorem C16_calibrate_conserves :
  forall (integrate : Q -> Q -> Q), (forall a b c, integrate a b + integrate b c == integrate a c) ->
  forall w, increasing w = true ->
  (forall i, (S i < List.length w)%nat ->
     nth i (calibrate_arr integrate w) 0 * (nth (S i) w 0 - nth i w 0) == integrate (nth i w 0) (nth (S i) w 0)) /\
  ((2 <= List.length w)%nat -> dot (calibrate_arr integrate w) (widths w) == integrate (hd 0 w) (last w 0)).
Proof.
  intros integrate Hadd w Hinc. split; [exact (calibrate_pixel integrate w Hinc)|exact (calibrate_total integrate Hadd w Hinc)].
Qed.
Print Assumptions C16_calibrate_conserves.

(* the integral of a raysect Spectrum (linear interpolant of the samples ys at the bin centres xs,
   constant extrapolation) is additive, for ANY source binning *)
Theorem C16_spectrum_integral_additive :
  forall xs ys a b c, pl_integral xs ys a b + pl_integral xs ys b c == pl_integral xs ys a c.
Proof. exact pl_integral_additive. Qed.
Print Assumptions C16_spectrum_integral_additive.

(* ---- deepening round ---- *)

(* round53, the rounding the correspondence runs the model with (round-to-nearest-even to 53 significant
   bits), has relative error at most 2^-53 on every non-negative rational: proved, no longer trusted *)
Theorem C16_round53_relative_error :
  forall x, 0 <= x -> (1 - u53) * x <= round53 x /\ round53 x <= (1 + u53) * x.
Proof. exact round53_rel. Qed.
Print Assumptions C16_round53_relative_error.

(* hence the bin-width bound for the model in double arithmetic, with no hypothesis on the rounding:
   (max-min)/bins <= ((1+2^-53)/(1-2^-53))^2 * pixel width / min_bins_per_pixel *)
Theorem C16_bin_width_bound_double :
  forall mbpp w2p mn mx n, forallb valid_arr w2p = true -> (0 < mbpp)%Z ->
  d_min (sp_derive round53 mbpp w2p) = Some (Fin mn) -> d_max (sp_derive round53 mbpp w2p) = Some (Fin mx) ->
  d_bins (sp_derive round53 mbpp w2p) = Some n ->
  forall a, In a w2p -> forall x y, In (x, y) (pixels a) ->
  (0 < n)%Z /\
  (1 - u53) * (1 - u53) * (mx - mn) <= inject_Z n * ((1 + u53) * (1 + u53) * ((y - x) / inject_Z mbpp)).
Proof. exact (bin_width_bound_float round53 u53 (proj1 u53_range) (proj2 u53_range) round53_rel). Qed.
Print Assumptions C16_bin_width_bound_double.

(* Polychromator in rounded arithmetic (was missing in the first round) *)
Theorem C16_bin_width_bound_polychromator_float :
  forall (rnd : Q -> Q) (u : Q), 0 <= u -> u < 1 ->
  (forall x, 0 <= x -> (1 - u) * x <= rnd x /\ rnd x <= (1 + u) * x) ->
  forall mbpw fs mn mx n, (0 < mbpw)%Z -> (forall f, In f fs -> f_min f < f_max f /\ 0 < f_window f) ->
  d_min (pc_derive rnd mbpw fs) = Some (Fin mn) -> d_max (pc_derive rnd mbpw fs) = Some (Fin mx) ->
  d_bins (pc_derive rnd mbpw fs) = Some n ->
  forall f, In f fs ->
  (0 < n)%Z /\
  (1 - u) * (1 - u) * (mx - mn) <= inject_Z n * ((1 + u) * (1 + u) * (f_window f / inject_Z mbpw)).
Proof. exact bin_width_bound_pc_float. Qed.
Print Assumptions C16_bin_width_bound_polychromator_float.

Theorem C16_bin_width_bound_polychromator_double :
  forall mbpw fs mn mx n, (0 < mbpw)%Z -> (forall f, In f fs -> f_min f < f_max f /\ 0 < f_window f) ->
  d_min (pc_derive round53 mbpw fs) = Some (Fin mn) -> d_max (pc_derive round53 mbpw fs) = Some (Fin mx) ->
  d_bins (pc_derive round53 mbpw fs) = Some n ->
  forall f, In f fs ->
  (0 < n)%Z /\
  (1 - u53) * (1 - u53) * (mx - mn) <= inject_Z n * ((1 + u53) * (1 + u53) * (f_window f / inject_Z mbpw)).
Proof. exact (bin_width_bound_pc_float round53 u53 (proj1 u53_range) (proj2 u53_range) round53_rel). Qed.
Print Assumptions C16_bin_width_bound_polychromator_double.

(* PolychromatorFilter: the declared range [min_wavelength, max_wavelength] contains every wavelength the
   filter was built from, both ends are among them, window = max - min (one rounding) *)
Theorem C16_filter_range :
  forall (rnd : Q -> Q) id name ws f, mk_filter rnd id name ws = Ok f ->
  (forall x, In x ws -> f_min f <= x /\ x <= f_max f) /\ f_window f = rnd (f_max f - f_min f)
  /\ In (f_min f) ws /\ In (f_max f) ws.
Proof. exact mk_filter_range. Qed.
Print Assumptions C16_filter_range.

(* TrapezoidalFilter, exact arithmetic, every accepted argument set (flat_top None / 0 / in (0, window]):
   the filter exists, its range is [c - window/2, c + window/2] and its window is the window asked for;
   so f_min < f_max and 0 < f_window, the hypothesis of the polychromator bin-width bounds *)
Theorem C16_trapezoid_range_exact :
  forall eps id name c w ft, 0 <= eps -> eps <= 1 -> 0 < c -> 0 < w ->
  match ft with None => True | Some t => t == 0 \/ (0 < t /\ t <= w) end ->
  exists f, mk_trapezoid exact eps id name c w ft = Ok f /\
            f_min f == c - (1 # 2) * w /\ f_max f == c + (1 # 2) * w /\ f_window f == w.
Proof. exact trapezoid_exact. Qed.
Print Assumptions C16_trapezoid_range_exact.

(* calibrate as a public call: TypeError for a non-Spectrum; for a Spectrum whose range covers the instrument
   one calibrated array per accommodated spectrum (to which C16_calibrate_conserves applies); ValueError otherwise.
   (In the first round the guards were only compared case by case.) *)
Theorem C16_calibrate_call_outcomes :
  forall integral mn mx w2p a,
  match a with
  | ANotSpectrum => calibrate_call integral mn mx w2p a = Err ErrType
  | ASpectrum smin smax xs ys =>
    (smin <= mn -> mx <= smax ->
       calibrate_call integral mn mx w2p a = Ok (map (calibrate_arr (integral xs ys)) w2p)) /\
    (mn < smin \/ smax < mx -> calibrate_call integral mn mx w2p a = Err ErrValue)
  end.
Proof. exact calibrate_call_spec. Qed.
Print Assumptions C16_calibrate_call_outcomes.

(* The cache effects of every setter of the model are the ones listed in the tables of Model/C16_Source.v; those
   tables are regenerated from the current source by harness/c16_source.py and compared by the kernel on every run
   (coq/Gen/C16/Source.v, Lemma source_tie).  This is the per-setter obligation "clears what depends on it",
   tied to the source text instead of to a hand copy. *)
Theorem C16_setters_have_tabled_effects :
  forall (rnd : Q -> Q) (resolution : ct_key -> Q -> Q) (deg2rad : Q -> Q),
  (forall v s s', sp_set_mbpp v s = Ok s' -> sp_base s' = run_effs true (effs "Spectrometer" "min_bins_per_pixel") (sp_base s)) /\
  (forall v s s', sp_set_w2p rnd v s = Ok s' -> sp_base s' = run_effs true (effs "Spectrometer" "wavelength_to_pixel") (sp_base s)) /\
  (forall v b, caches (set_name v b) = caches (run_effs true (effs "SpectroscopicInstrument" "name") b)) /\
  (forall v s s', ct_set_order rnd resolution v s = Ok s' ->
     ct_base s' = run_effs (is_some (ct_acc s)) (effs "CzernyTurnerSpectrometer" "diffraction_order") (ct_base s)) /\
  (forall upd v s s', ct_set_pos rnd resolution upd v s = Ok s' ->
     ct_base s' = run_effs (is_some (ct_acc s)) (effs "CzernyTurnerSpectrometer" "grating") (ct_base s)) /\
  (forall v s s', ct_set_angle rnd resolution deg2rad v s = Ok s' ->
     ct_base s' = run_effs (is_some (ct_acc s)) (effs "CzernyTurnerSpectrometer" "diffraction_angle") (ct_base s)) /\
  (forall v s s', ct_set_acc rnd resolution v s = Ok s' ->
     ct_base s' = run_effs true (effs "CzernyTurnerSpectrometer" "accommodated_spectra") (ct_base s)) /\
  (forall v s s', ct_set_mbpp v s = Ok s' -> ct_base s' = run_effs true (effs "Spectrometer" "min_bins_per_pixel") (ct_base s)) /\
  (forall v s s', pc_set_mbpw v s = Ok s' -> pc_base s' = run_effs true (effs "Polychromator" "min_bins_per_window") (pc_base s)) /\
  (forall v s s', pc_set_filters v s = Ok s' -> pc_base s' = run_effs true (effs "Polychromator" "filters") (pc_base s)) /\
  (forall s, ct_base (ct_update_w2p rnd resolution s) = eff_base (is_some (ct_acc s)) EUpdW2p (ct_base s)).
Proof. exact setters_have_tabled_effects. Qed.
Print Assumptions C16_setters_have_tabled_effects.

(* ---- second deepening round ---- *)

(* a spectrum whose samples all equal c integrates to c (b - a) over ANY interval, for any strictly increasing bin
   centres: the model of Spectrum.integrate is the integral of the interpolant also in the extrapolated regions *)
Theorem C16_spectrum_integral_constant :
  forall c xs a b, xs <> [] -> increasing xs = true -> pl_integral xs (const_like c xs) a b == c * (b - a).
Proof. exact pl_integral_const. Qed.
Print Assumptions C16_spectrum_integral_constant.

(* calibrate with the spectrum's integral, hypothesis-free: value_i * width_i is the spectrum's integral over pixel i,
   and the sum over the pixels of a row is the integral over their union -- any layout, any binning, any samples *)
Theorem C16_calibrate_conserves_spectrum :
  forall xs ys w, increasing w = true ->
  (forall i, (S i < List.length w)%nat ->
     nth i (calibrate_arr (pl_integral xs ys) w) 0 * (nth (S i) w 0 - nth i w 0)
     == pl_integral xs ys (nth i w 0) (nth (S i) w 0)) /\
  ((2 <= List.length w)%nat ->
     dot (calibrate_arr (pl_integral xs ys) w) (widths w) == pl_integral xs ys (hd 0 w) (last w 0)).
Proof. exact calibrate_conserves_spectrum. Qed.
Print Assumptions C16_calibrate_conserves_spectrum.

(* a flat spectrum is calibrated to the flat value in every pixel of every layout *)
Theorem C16_calibrate_flat :
  forall c xs w, xs <> [] -> increasing xs = true -> increasing w = true ->
  forall i, (S i < List.length w)%nat -> nth i (calibrate_arr (pl_integral xs (const_like c xs)) w) 0 == c.
Proof. exact calibrate_flat. Qed.
Print Assumptions C16_calibrate_flat.

(* ORDER: range and bin count do not depend on the order in which the accommodated spectra / the filters are listed
   (in the first rounds: checked on the implementation only).  [rnd] only has to respect equality of rationals;
   exact arithmetic does (exact_proper) and so does round53 (C16_round53_respects_equality below), which gives the
   hypothesis-free statements for the model in double arithmetic (C16_order_independent_double). *)
Theorem C16_spectrometer_order_independent :
  forall (rnd : Q -> Q), Proper (Qeq ==> Qeq) rnd ->
  forall mbpp w2p w2p', Permutation w2p w2p' -> derived_eq (sp_derive rnd mbpp w2p) (sp_derive rnd mbpp w2p').
Proof. exact sp_derive_perm. Qed.
Print Assumptions C16_spectrometer_order_independent.

Theorem C16_polychromator_order_independent :
  forall (rnd : Q -> Q), Proper (Qeq ==> Qeq) rnd ->
  forall mbpw fs fs', Permutation fs fs' -> derived_eq (pc_derive rnd mbpw fs) (pc_derive rnd mbpw fs').
Proof. exact pc_derive_perm. Qed.
Print Assumptions C16_polychromator_order_independent.

(* round53 picks the unique exponent with a 53-bit significand, so it does not depend on how the rational is written *)
Theorem C16_round53_respects_equality : Proper (Qeq ==> Qeq) round53.
Proof. exact round53_proper. Qed.
Print Assumptions C16_round53_respects_equality.

Theorem C16_order_independent_double :
  (forall mbpp w2p w2p', Permutation w2p w2p' -> derived_eq (sp_derive round53 mbpp w2p) (sp_derive round53 mbpp w2p')) /\
  (forall mbpw fs fs', Permutation fs fs' -> derived_eq (pc_derive round53 mbpw fs) (pc_derive round53 mbpw fs')).
Proof. split; [exact (sp_derive_perm round53 round53_proper)|exact (pc_derive_perm round53 round53_proper)]. Qed.
Print Assumptions C16_order_independent_double.

(* CONSTRUCTORS: each model constructor is the fold of the statement list that the translator reads from the current
   source's __init__ (Model/C16_Source.v model_ctors, kernel-tied to the source by Gen/C16/Source.v): the link
   constructor <-> source is a lemma now, not an inspection.  Czerny-Turner's list has no ESuper: _pipeline_classes
   stays Missing. *)
Theorem C16_constructors_follow_source_tables :
  forall (rnd : Q -> Q) (resolution : ct_key -> Q -> Q) (deg2rad : Q -> Q),
  (forall p, sp_construct rnd p = fold_left (sp_exec rnd p) (ctor_of "Spectrometer" model_ctors)
                                    (Ok {| sp_mbpp := 0; sp_w2p := []; sp_wl := []; sp_base := base0 Missing |})) /\
  (forall p, ct_construct rnd resolution deg2rad p
             = fold_left (ct_exec rnd resolution deg2rad p) (ctor_of "CzernyTurnerSpectrometer" model_ctors) (Ok ct_blank)) /\
  (forall p, pc_construct p = fold_left (pc_exec p) (ctor_of "Polychromator" model_ctors)
                                (Ok {| pc_mbpw := 0; pc_filters := []; pc_base := base0 Missing |})).
Proof.
  intros rnd resolution deg2rad. split; [exact (sp_construct_follows_table rnd)|].
  split; [exact (ct_construct_follows_table rnd resolution deg2rad)|exact pc_construct_follows_table].
Qed.
Print Assumptions C16_constructors_follow_source_tables.

(* RESOLUTION as a formula (exact arithmetic; sqrt any function with sqrt y >= 0, sqrt y ^2 = y; cos and tan of the
   angle any two numbers with cos > 0, tan >= 0, cos^2 (1 + tan^2) = 1): positive as long as m g w / 2 < cos^2 --
   which with C16_czerny_turner_pixels_increasing gives valid pixel arrays -- and decreasing in the wavelength, so the
   narrowest pixel of an accommodated spectrum is its last one *)
Theorem C16_resolution_positive :
  forall (sqrt : Q -> Q), (forall y, 0 <= y -> 0 <= sqrt y /\ sqrt y * sqrt y == y) ->
  forall cosa tana, 0 < cosa -> 0 <= tana -> cosa * cosa * (1 + tana * tana) == 1 ->
  forall k, (0 < k_order k)%Z -> 0 < k_grating k -> 0 < k_focal k -> 0 < k_spacing k ->
  forall w, 0 <= res_p k w -> res_p k w < cosa * cosa -> 0 < resolution_of sqrt cosa tana k w.
Proof. intros. eapply resolution_pos; eassumption. Qed.
Print Assumptions C16_resolution_positive.

Theorem C16_resolution_decreasing :
  forall (sqrt : Q -> Q), (forall y, 0 <= y -> 0 <= sqrt y /\ sqrt y * sqrt y == y) ->
  forall cosa tana, 0 < cosa -> 0 <= tana -> cosa * cosa * (1 + tana * tana) == 1 ->
  forall k, (0 < k_order k)%Z -> 0 < k_grating k -> 0 < k_focal k -> 0 < k_spacing k ->
  forall w1 w2, 0 <= w1 -> w1 <= w2 -> res_p k w2 <= cosa * cosa ->
  resolution_of sqrt cosa tana k w2 <= resolution_of sqrt cosa tana k w1.
Proof. intros. eapply resolution_decreasing; eassumption. Qed.
Print Assumptions C16_resolution_decreasing.

(* the certificate the correspondence evaluates for every (wavelength, resolution) pair of the oracle table (there up
   to relative 2^-40): it characterises the formula's value *)
Theorem C16_resolution_certificate :
  forall (sqrt : Q -> Q), (forall y, 0 <= y -> 0 <= sqrt y /\ sqrt y * sqrt y == y) ->
  forall tana k, (0 < k_order k)%Z -> 0 < k_grating k -> 0 < k_focal k -> 0 < k_spacing k ->
  forall cosa w r,
  let p := res_p k w in let S := r * res_den k / k_spacing k + p * tana in
  0 <= cosa * cosa - p * p -> 0 <= S -> S * S == cosa * cosa - p * p -> r == resolution_of sqrt cosa tana k w.
Proof. intros. eapply resolution_certificate_exact; eassumption. Qed.
Print Assumptions C16_resolution_certificate.

(* the hypotheses are satisfiable: the example of the class docstring (exact arithmetic gives the
   2070 bins the implementation reports) *)
Example C16_nonvacuous :
  exists s, sp_construct exact {| spp_mbpp := 5; spp_w2p := [[400; 801 # 2; 803 # 2; 402; 404]; [600; 1201 # 2; 1203 # 2; 602; 604; 607]];
                                  spp_name := "s"%string |} = Ok s
            /\ d_bins (v_d (sp_view exact s)) = Some 2070%Z /\ forallb valid_arr (sp_w2p s) = true.
Proof.
  eexists. split; [vm_compute; reflexivity|]. split; vm_compute; reflexivity.
Qed.
