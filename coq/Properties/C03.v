(* Property C03 -- Passive emission models radiate exactly their documented totals.
   This file contains nothing but the property theorems, each closed by a lemma from Proofs/,
   with Print Assumptions beneath.  Every theorem holds for every provider (rate functions),
   every composition (any length), every line, every density/temperature (any sign). *)
Require Import Cherab.Common.Qx.
Require Import Cherab.Model.C03_Passive Cherab.Model.C03_Brems Cherab.Model.C03_Quadrature Cherab.Model.C03_Gaunt Cherab.Model.C03_Check.
Require Import Cherab.Proofs.C03_Lines Cherab.Proofs.C03_Total Cherab.Proofs.C03_Brems.
Require Import Cherab.Model.C03_Cache Cherab.Model.C03_Guards.
Require Import Cherab.Proofs.C03_Guards.
Require Import Cherab.Proofs.C03_Quadrature Cherab.Proofs.C03_BremsGQ Cherab.Proofs.C03_Gaunt Cherab.Proofs.C03_Cache.
Open Scope Q_scope.

(* (1/4pi) n_e n_i PEC(n_e, T_e), n_i the density of the species (element, charge) of the line *)
Theorem C03_excitation_formula :
  forall P l ne te comp s,
  comp_get comp (l_elem l) (l_charge l) = Some s -> 0 < ne -> 0 < te -> 0 < s_dens s ->
  excitation_radiance P l ne te comp =
  Emit (k4pi * excit_pec P (l_elem l) (l_charge l) (l_trans l) ne te * ne * s_dens s).
Proof. exact excitation_formula. Qed.
Print Assumptions C03_excitation_formula.

(* recombination: the density is that of the next charge state, the PEC that of the line's charge *)
Theorem C03_recombination_uses_next_charge :
  forall P l ne te comp s,
  comp_get comp (l_elem l) (l_charge l + 1) = Some s -> 0 < ne -> 0 < te -> 0 < s_dens s ->
  recombination_radiance P l ne te comp =
  Emit (k4pi * recom_pec P (l_elem l) (l_charge l) (l_trans l) ne te * ne * s_dens s).
Proof. exact recombination_formula. Qed.
Print Assumptions C03_recombination_uses_next_charge.

(* (1/4pi) n_rec sum over the donors of n_d PEC_d(n_e, T_e, T_d), for a composition of any length; a donor term
   is n_d PEC_d for n_d > 0 and nothing for n_d <= 0 (second and third conjunct) *)
Theorem C03_thermalcx_formula :
  forall P l ne te comp rcv,
  comp_get comp (l_elem l) (l_charge l + 1) = Some rcv -> 0 < ne -> 0 < te -> 0 < s_dens rcv ->
  exists r, thermalcx_radiance P l ne te comp = Emit r /\
            r == k4pi * s_dens rcv * Qsum (map (tcx_term P l ne te) (donors rcv comp)) /\
  (forall d, 0 < s_dens d -> tcx_term P l ne te d == s_dens d * tcx_coef P l ne te d) /\
  (forall d, s_dens d <= 0 -> tcx_term P l ne te d == 0).
Proof.
  intros P l ne te comp rcv G H1 H2 H3.
  destruct (thermalcx_formula P l ne te comp rcv G H1 H2 H3) as [r [E R]].
  exists r; repeat split; [exact E|exact R|intros; apply tcx_term_pos; assumption|intros; apply tcx_term_zero; assumption].
Qed.
Print Assumptions C03_thermalcx_formula.

(* eligible donors: every species of the composition except the receiver and bare nuclei *)
Theorem C03_donor_filter_spec :
  forall rcv comp d,
  In d (donors rcv comp) <->
  In d comp /\ key_eqb (s_elem rcv) (s_charge rcv) d = false /\ (s_charge d < s_znum d)%Z.
Proof. exact donor_filter_spec. Qed.
Print Assumptions C03_donor_filter_spec.

(* total radiated power: (1/4pi) (n_i n_e C_exc + n_{i+1} n_e C_rec + n_{i+1} n_hyd C_cx) / (max - min) *)
Theorem C03_total_power_formula :
  forall P hyd e c znum ne te comp minw maxw sp up,
  (0 <= c < znum)%Z -> comp_get comp e c = Some sp -> comp_get comp e (c + 1) = Some up ->
  0 < ne -> 0 < te -> 0 < s_dens sp -> 0 < s_dens up -> 0 < Qsum (map (dens_or_0 comp) hyd) -> minw < maxw ->
  emitted (total_power_radiance P hyd e c znum ne te comp minw maxw) ==
  k4pi / (maxw - minw) *
    (s_dens sp * ne * coef (plt_rate P e c) ne te + s_dens up * ne * coef (prb_rate P e (c + 1)) ne te
     + s_dens up * Qsum (map (dens_or_0 comp) hyd) * coef (prc_rate P e (c + 1)) ne te).
Proof. exact total_power_formula. Qed.
Print Assumptions C03_total_power_formula.

(* ... spread uniformly over the window: all bins equal, and bins * delta sum to (1/4pi) * power density
   whatever the signs of the densities (guarded terms) *)
Theorem C03_total_power_uniform :
  forall P hyd e c znum ne te comp minw maxw sp up nbins delta,
  (0 <= c < znum)%Z -> comp_get comp e c = Some sp -> comp_get comp e (c + 1) = Some up ->
  0 < ne -> 0 < te -> minw < maxw -> delta * inject_Z (Z.of_nat nbins) == maxw - minw ->
  (forall b, In b (uniform_bins (total_power_radiance P hyd e c znum ne te comp minw maxw) nbins) ->
             b = emitted (total_power_radiance P hyd e c znum ne te comp minw maxw)) /\
  integrate_bins (uniform_bins (total_power_radiance P hyd e c znum ne te comp minw maxw) nbins) delta ==
  k4pi * total_power_density P e c ne te (s_dens sp) (s_dens up) (hyd_density hyd comp).
Proof. intros; split; [intro; apply uniform_bins_all_equal | apply total_power_uniform; assumption]. Qed.
Print Assumptions C03_total_power_uniform.

Theorem C03_radiation_function_total :
  forall phi minw maxw nbins delta,
  minw < maxw -> delta * inject_Z (Z.of_nat nbins) == maxw - minw ->
  integrate_bins (repeat (radiation_function_bin phi minw maxw) nbins) delta == phi / (4 * mpi).
Proof. exact radiation_function_total. Qed.
Print Assumptions C03_radiation_function_total.

(* bremsstrahlung: the function handed to the integrator is the Hutchinson free-free expression with
   the provider's Gaunt factor, summed over the species with charge > 0 and density > 0 *)
Theorem C03_brems_formula :
  forall C sqrtf expf gaunt ne te comp wvl,
  brems_function C sqrtf expf gaunt ne te (charged_pairs comp) wvl ==
  brems_const C sqrtf / (sqrtf te * wvl * wvl) * ne
  * Qsum (map (ion_term gaunt te wvl) (filter takes_part comp))
  * expf (- exp_factor C / (te * wvl)).
Proof. exact brems_formula. Qed.
Print Assumptions C03_brems_formula.

Theorem C03_brems_species_filter :
  forall C sqrtf expf gaunt ne te l1 s l2 wvl,
  (s_charge s <= 0)%Z \/ s_dens s <= 0 ->
  brems_function C sqrtf expf gaunt ne te (charged_pairs (l1 ++ s :: l2)) wvl ==
  brems_function C sqrtf expf gaunt ne te (charged_pairs (l1 ++ l2)) wvl.
Proof. exact brems_species_filter. Qed.
Print Assumptions C03_brems_species_filter.

(* bin k holds integ(f, min + k delta, min + (k+1) delta) / delta, and with an exact integrator the bins
   integrate to the integral of f over the whole window, for any number of bins.
   Partial: the second conjunct assumes an exact integrator.  Since the deepening round the integrator of the code
   (GaussianQuadrature.evaluate) is inside the model (Model/C03_Quadrature.v) and C03_gq_refines_rule / C03_gq_laws /
   C03_brems_spectrum_nonneg / C03_brems_vacuum_zero below are proved for it; what remains unproved is only the
   analytic fact that a Gauss-Legendre rule approximates the integral (quadrature error bound), i.e. that the
   hypothesis 'integ f a b == F b - F a' holds up to the tolerance for the modelled integrator. *)
Theorem C03_brems_bin_average_partial :
  forall integ f minw delta n,
  (forall k, (k < n)%nat ->
     nth k (brems_bins_from integ f minw delta minw 0 n) 0 =
     integ f (match k with O => minw | S _ => minw + delta * inject_Z (0 + Z.of_nat k) end)
             (minw + delta * inject_Z (0 + Z.of_nat k + 1)) / delta) /\
  (forall F, (forall a b, integ f a b == F b - F a) -> (forall a b, a == b -> F a == F b) -> ~ delta == 0 ->
     integrate_bins (brems_bins_from integ f minw delta minw 0 n) delta ==
     F (minw + delta * inject_Z (Z.of_nat n)) - F minw).
Proof.
  intros; split; [intros; apply brems_bin_nth; assumption | intros; apply brems_bins_total; assumption].
Qed.
Print Assumptions C03_brems_bin_average_partial.

(* emission is zero whenever a density or temperature it depends on is non-positive *)
Theorem C03_zero_when_nonpositive :
  (forall P l ne te comp s, comp_get comp (l_elem l) (l_charge l) = Some s ->
     ne <= 0 \/ te <= 0 \/ s_dens s <= 0 -> excitation_radiance P l ne te comp = Skip) /\
  (forall P l ne te comp s, comp_get comp (l_elem l) (l_charge l + 1) = Some s ->
     ne <= 0 \/ te <= 0 \/ s_dens s <= 0 -> recombination_radiance P l ne te comp = Skip) /\
  (forall P l ne te comp rcv, comp_get comp (l_elem l) (l_charge l + 1) = Some rcv ->
     ne <= 0 \/ te <= 0 \/ s_dens rcv <= 0 -> thermalcx_radiance P l ne te comp = Skip) /\
  (forall P hyd e c znum ne te comp minw maxw, ne <= 0 \/ te <= 0 ->
     emitted (total_power_radiance P hyd e c znum ne te comp minw maxw) == 0) /\
  (forall P e c ne te ni nup nhyd,
     (ni <= 0 -> exc_term P e c ne te ni == 0) /\
     (nup <= 0 -> rec_term P e c ne te nup == 0 /\ cx_term P e c ne te nup nhyd == 0) /\
     (nhyd <= 0 -> cx_term P e c ne te nup nhyd == 0)) /\
  (forall C sqrtf expf gaunt integ ne te comp minw delta nbins, ne <= 0 \/ te <= 0 ->
     brems_emission C sqrtf expf gaunt integ ne te comp minw delta nbins = None).
Proof.
  split; [intros; eapply excitation_zero; eassumption|].
  split; [intros; eapply recombination_zero; eassumption|].
  split; [intros; eapply thermalcx_zero; eassumption|].
  split; [intros; apply total_power_skip; assumption|].
  split; [intros; apply total_power_terms_zero|].
  intros; apply brems_skip; assumption.
Qed.
Print Assumptions C03_zero_when_nonpositive.

(* never negative for non-negative coefficients: excitation, recombination, total power, bremsstrahlung,
   for densities and temperatures of any sign *)
Theorem C03_nonneg :
  (forall P l ne te comp, (forall e c t a b, 0 <= excit_pec P e c t a b) ->
     0 <= emitted (excitation_radiance P l ne te comp)) /\
  (forall P l ne te comp, (forall e c t a b, 0 <= recom_pec P e c t a b) ->
     0 <= emitted (recombination_radiance P l ne te comp)) /\
  (forall P hyd e c znum ne te comp minw maxw,
     rate_nonneg (plt_rate P e c) -> rate_nonneg (prb_rate P e (c + 1)) -> rate_nonneg (prc_rate P e (c + 1)) ->
     minw < maxw -> 0 <= emitted (total_power_radiance P hyd e c znum ne te comp minw maxw)) /\
  (forall C sqrtf expf gaunt ne te comp wvl,
     0 <= brems_const C sqrtf -> 0 <= sqrtf te -> (forall x, 0 <= expf x) -> (forall z t w, 0 <= gaunt z t w) ->
     0 <= ne -> 0 <= brems_function C sqrtf expf gaunt ne te (charged_pairs comp) wvl).
Proof.
  split; [intros; apply excitation_nonneg; assumption|].
  split; [intros; apply recombination_nonneg; assumption|].
  split; [intros; apply total_power_nonneg; assumption|].
  intros; apply brems_nonneg; assumption.
Qed.
Print Assumptions C03_nonneg.

(* thermal CX: never negative for non-negative coefficients, for densities and temperatures of any sign
   (donors of non-positive density are skipped) *)
Theorem C03_thermalcx_nonneg :
  forall P l ne te comp,
  (forall de dc re rc t a b c, 0 <= tcx_pec P de dc re rc t a b c) ->
  0 <= emitted (thermalcx_radiance P l ne te comp).
Proof. exact thermalcx_nonneg. Qed.
Print Assumptions C03_thermalcx_nonneg.

(* linear in each ion or neutral density the emission involves (on the positive side of the guards);
   the coefficient on the right never mentions n *)
Theorem C03_linear_in_density :
  (forall P l ne te comp s n, comp_get comp (l_elem l) (l_charge l) = Some s -> 0 < ne -> 0 < te -> 0 < n ->
     emitted (excitation_radiance P l ne te (upd_dens (l_elem l) (l_charge l) n comp))
     == n * (k4pi * excit_pec P (l_elem l) (l_charge l) (l_trans l) ne te * ne)) /\
  (forall P l ne te comp s n, comp_get comp (l_elem l) (l_charge l + 1) = Some s -> 0 < ne -> 0 < te -> 0 < n ->
     emitted (recombination_radiance P l ne te (upd_dens (l_elem l) (l_charge l + 1) n comp))
     == n * (k4pi * recom_pec P (l_elem l) (l_charge l) (l_trans l) ne te * ne)) /\
  (forall P l ne te comp rcv n, comp_get comp (l_elem l) (l_charge l + 1) = Some rcv -> 0 < ne -> 0 < te -> 0 < n ->
     emitted (thermalcx_radiance P l ne te (upd_dens (l_elem l) (l_charge l + 1) n comp))
     == n * (k4pi * Qsum (map (tcx_term P l ne te) (donors rcv comp)))) /\
  (forall P l ne te comp rcv de dc n,
     comp_get comp (l_elem l) (l_charge l + 1) = Some rcv -> key_eqb de dc rcv = false ->
     0 < ne -> 0 < te -> 0 < s_dens rcv -> 0 < n ->
     emitted (thermalcx_radiance P l ne te (upd_dens de dc n comp)) ==
       k4pi * s_dens rcv * Qsum (map (tcx_term P l ne te) (filter (fun d => negb (key_eqb de dc d)) (donors rcv comp)))
     + n * (k4pi * s_dens rcv * Qsum (map (tcx_coef P l ne te) (filter (key_eqb de dc) (donors rcv comp))))) /\
  (forall P e c ne te ni nup nhyd n, 0 < n ->
     total_power_density P e c ne te n nup nhyd ==
       total_power_density P e c ne te 0 nup nhyd + n * (ne * coef (plt_rate P e c) ne te) /\
     total_power_density P e c ne te ni n nhyd ==
       total_power_density P e c ne te ni 0 nhyd
       + n * (ne * coef (prb_rate P e (c + 1)) ne te + (if pos nhyd then nhyd * coef (prc_rate P e (c + 1)) ne te else 0)) /\
     total_power_density P e c ne te ni nup n ==
       total_power_density P e c ne te ni nup 0 + n * (if pos nup then nup * coef (prc_rate P e (c + 1)) ne te else 0)) /\
  (forall hyd comp, hyd_density hyd comp == Qsum (map (dens_or_0 comp) hyd)) /\
  (forall C sqrtf expf gaunt ne te l1 s l2 wvl n, (0 < s_charge s)%Z -> 0 < n ->
     brems_function C sqrtf expf gaunt ne te (charged_pairs (l1 ++ set_dens s n :: l2)) wvl ==
     brems_function C sqrtf expf gaunt ne te (charged_pairs (l1 ++ l2)) wvl
     + n * brems_coef C sqrtf expf gaunt ne te wvl (inject_Z (s_charge s))).
Proof.
  split; [intros; eapply excitation_linear; eassumption|].
  split; [intros; eapply recombination_linear; eassumption|].
  split; [intros; apply thermalcx_linear_in_receiver; assumption|].
  split; [intros; apply thermalcx_affine_in_donor; assumption|].
  split; [intros P e c ne te ni nup nhyd n Hn; split; [apply total_power_linear_ni; assumption|
          split; [apply total_power_linear_nup; assumption|apply total_power_linear_nhyd; assumption]]|].
  split; [intros; apply hyd_density_sum|].
  intros; apply brems_linear_in_density; assumption.
Qed.
Print Assumptions C03_linear_in_density.

(* 'at any point of any plasma': the modelled emission of an instance at the k-th point of any sequence of points is the
   single-point value for that point, whatever was evaluated before (true by construction of the model, which has no
   state; the tie on point sequences carries the weight for the code's per-instance caches) *)
Theorem C03_history_independent :
  forall (B : Type) (emit : Q -> Q -> composition -> B) (pts : list ppoint) (k : nat) (d : ppoint),
  nth k (emission_seq emit pts) (emit (pt_ne d) (pt_te d) (pt_comp d)) =
  emit (pt_ne (nth k pts d)) (pt_te (nth k pts d)) (pt_comp (nth k pts d)).
Proof. intros. unfold emission_seq. exact (map_nth (fun p => emit (pt_ne p) (pt_te p) (pt_comp p)) pts d k). Qed.
Print Assumptions C03_history_independent.

(* ---- the integrator of the code (GaussianQuadrature.evaluate) as part of the model ------------------------------ *)
(* the adaptive loop returns the rule of one of the orders min..max at its place in the flat caches, and a rule is
   d * sum_i w_i f(c + d r_i) over its slice (loop refines specification, index arithmetic included) *)
Theorem C03_gq_refines_rule :
  forall roots weights mn mx rtol f a b, (mn <= mx)%nat ->
  exists j, (j < S mx - mn)%nat /\
    gq_evaluate roots weights mn mx rtol f a b =
      rule roots weights (ib_at mn 0 j) (mn + j) f ((1 # 2) * (a + b)) ((1 # 2) * (b - a)) /\
    rule roots weights (ib_at mn 0 j) (mn + j) f ((1 # 2) * (a + b)) ((1 # 2) * (b - a)) ==
      (1 # 2) * (b - a) * Qsum (map (fun rw => snd rw * f ((1 # 2) * (a + b) + (1 # 2) * (b - a) * fst rw))
                                    (nodes roots weights (ib_at mn 0 j) (mn + j))).
Proof.
  intros roots weights mn mx rtol f a b H. unfold gq_evaluate.
  destruct (gq_loop_spec roots weights (S mx - mn) mn 0%nat None f ((1 # 2) * (a + b)) ((1 # 2) * (b - a)) rtol) as [j [Hj E]]; [lia|].
  exists j. split; [exact Hj|]. split; [exact E|apply rule_sum].
Qed.
Print Assumptions C03_gq_refines_rule.

(* every rule is linear in the function; the integrator preserves positivity (non-negative weights), maps the zero
   function to zero and integrates constants exactly when the weights of each rule sum to 2 *)
Theorem C03_gq_laws :
  forall roots weights,
  (forall ibegin order f g al be c d,
     rule roots weights ibegin order (fun x => al * f x + be * g x) c d ==
     al * rule roots weights ibegin order f c d + be * rule roots weights ibegin order g c d) /\
  (forall mn mx rtol f a b, (forall w, In w weights -> 0 <= w) -> (forall x, 0 <= f x) -> a <= b ->
     0 <= gq_evaluate roots weights mn mx rtol f a b) /\
  (forall mn mx rtol f a b, (forall x, f x == 0) -> gq_evaluate roots weights mn mx rtol f a b == 0) /\
  (forall mn mx rtol k a b, (mn <= mx)%nat ->
     (forall j, (j < S mx - mn)%nat -> Qsum (map snd (nodes roots weights (ib_at mn 0 j) (mn + j))) == 2) ->
     gq_evaluate roots weights mn mx rtol (fun _ => k) a b == k * (b - a)).
Proof.
  intros roots weights.
  split; [intros; apply rule_linear|]. split; [intros; apply gq_evaluate_nonneg; assumption|].
  split; [intros; apply gq_evaluate_zero; assumption|]. intros; apply gq_evaluate_constant; assumption.
Qed.
Print Assumptions C03_gq_laws.

(* the bins of the bremsstrahlung spectrum themselves (not only the integrand) are never negative for a non-negative
   Gaunt factor, with the integrator of the code, for densities and temperatures of any sign *)
Theorem C03_brems_spectrum_nonneg :
  forall C sqrtf expf gaunt roots weights mn mx rtol ne te comp minw delta nbins bins,
  0 <= brems_const C sqrtf -> 0 <= sqrtf te -> (forall x, 0 <= expf x) -> (forall z t w, 0 <= gaunt z t w) ->
  (forall w, In w weights -> 0 <= w) -> 0 < delta ->
  brems_emission C sqrtf expf gaunt (gq_evaluate roots weights mn mx rtol) ne te comp minw delta nbins = Some bins ->
  forall b, In b bins -> 0 <= b.
Proof. exact brems_gq_bins_nonneg. Qed.
Print Assumptions C03_brems_spectrum_nonneg.

(* no ion of positive density (vacuum, neutrals only, every density <= 0): every bin is zero *)
Theorem C03_brems_vacuum_zero :
  forall C sqrtf expf gaunt roots weights mn mx rtol ne te comp minw delta nbins bins,
  filter takes_part comp = [] ->
  brems_emission C sqrtf expf gaunt (gq_evaluate roots weights mn mx rtol) ne te comp minw delta nbins = Some bins ->
  forall b, In b bins -> b == 0.
Proof. exact brems_gq_zero. Qed.
Print Assumptions C03_brems_vacuum_zero.

(* the provider's Gaunt factor (InterpolatedFreeFreeGauntFactor): the four branches are taken exactly under the documented
   conditions, exhaustively and exclusively; 0 for z = 0, 1 in the classical limit *)
Theorem C03_gaunt_branch_spec :
  forall umin umax g2min g2max z u g2,
  (gaunt_branch umin umax g2min g2max z u g2 = GZero <-> z == 0) /\
  (gaunt_branch umin umax g2min g2max z u g2 = GClassical <-> ~ z == 0 /\ (umax <= u \/ g2max <= g2)) /\
  (gaunt_branch umin umax g2min g2max z u g2 = GBorn <->
     ~ z == 0 /\ u < umax /\ g2 < g2max /\ (u < umin \/ g2 < g2min)) /\
  (gaunt_branch umin umax g2min g2max z u g2 = GInterp <->
     ~ z == 0 /\ umin <= u /\ u < umax /\ g2min <= g2 /\ g2 < g2max).
Proof. exact gaunt_branch_spec. Qed.
Print Assumptions C03_gaunt_branch_spec.

(* emission is ADDED to what the spectrum already holds; an early return or an error leaves it untouched *)
Theorem C03_emission_adds :
  forall old o delta,
  ((forall r, o <> Emit r) -> spectrum_after old o = old) /\
  (forall k, (k < length old)%nat -> nth k (spectrum_after old o) 0 == nth k old 0 + emitted o) /\
  integrate_bins (spectrum_after old o) delta ==
  integrate_bins old delta + emitted o * (delta * inject_Z (Z.of_nat (length old))).
Proof. exact spectrum_after_spec. Qed.
Print Assumptions C03_emission_adds.

(* bound of the rounding model used when the correspondence runs the integrand inside Coq: values are rounded down to a
   multiple of 2^-P and lose less than 2^-P *)
Theorem C03_rnd_bounds :
  forall P y, (0 <= P)%Z -> rnd P y <= y /\ y < rnd P y + 1 / inject_Z (2 ^ P).
Proof. exact rnd_bounds. Qed.
Print Assumptions C03_rnd_bounds.

(* per-instance caches, for every history of evaluations and notifications: the cache is populated at an evaluation
   exactly when it is the first one, a notification arrived since the previous evaluation, or the previous populate failed *)
Theorem C03_cache_populates :
  (forall populated notified ok,
     fst (populate_step populated notified ok) = (notified || negb populated)%bool /\
     snd (populate_step populated notified ok) = (if (notified || negb populated)%bool then ok else true)) /\
  (forall steps populated,
     run_steps populated (map (fun s => (fst s, (fun fr : bool => fr), snd s)) steps) = fresh_flags (negb populated) steps).
Proof. split; [exact populate_step_spec | exact run_steps_flags]. Qed.
Print Assumptions C03_cache_populates.

(* Bremsstrahlung: after any operation the cache is populated; the provider's Gaunt factor is fetched only when the user
   has not set one; setting one never consults the provider; resetting it to None does *)
Theorem C03_brems_gaunt_cache :
  forall st op,
  fst (snd (brems_cache_step st op)) = true /\
  (fst (brems_cache_step st op) = true -> snd (snd (brems_cache_step st op)) = false) /\
  (op = 2%Z -> fst (brems_cache_step st op) = false /\ snd (snd (brems_cache_step st op)) = true) /\
  (op = 3%Z -> fst (brems_cache_step st op) = true).
Proof. exact brems_cache_step_spec. Qed.
Print Assumptions C03_brems_gaunt_cache.

(* the early exits of the executable models are those of the guard table re-read from the sources (Gen lemma guards_ok):
   one separate "<= 0" test per quantity, never a product.  In particular an emission is skipped as soon as ONE of
   electron density, electron temperature, target / receiver density is non-positive, whatever the signs of the others *)
Theorem C03_guards_separate :
  (forall rate ne te s,
     line_radiance rate ne te s =
     if skip_by line_guards (env3 ne te (s_dens s)) then Skip else Emit (k4pi * rate ne te * ne * s_dens s)) /\
  (forall P l ne te comp rcv, comp_get comp (l_elem l) (l_charge l + 1) = Some rcv ->
     thermalcx_radiance P l ne te comp =
     if skip_by thermalcx_guards (env3 ne te (s_dens rcv)) then Skip
     else Emit (k4pi * tcx_weighted P l ne te (donors rcv comp) * s_dens rcv)) /\
  (forall P l ne te d, tcx_term P l ne te d = if Qle_bool (s_dens d) 0 then 0 else tcx_raw_term P l ne te d) /\
  (forall P hyd e c znum ne te comp minw maxw sp up,
     (0 <= c < znum)%Z -> comp_get comp e c = Some sp -> comp_get comp e (c + 1) = Some up ->
     total_power_radiance P hyd e c znum ne te comp minw maxw =
     if skip_by total_guards (env3 ne te 1) then Skip
     else Emit (k4pi * total_power_density P e c ne te (s_dens sp) (s_dens up) (hyd_density hyd comp) / (maxw - minw))) /\
  (forall C sqrtf expf gaunt integ ne te comp minw delta nbins,
     brems_emission C sqrtf expf gaunt integ ne te comp minw delta nbins =
     if skip_by brems_guards (env3 ne te 1) then None
     else Some (brems_bins_from integ (brems_function C sqrtf expf gaunt ne te (charged_pairs comp)) minw delta minw 0 nbins)).
Proof.
  split; [exact line_radiance_guards|]. split; [exact thermalcx_radiance_guards|]. split; [exact tcx_term_guard|].
  split; [exact total_power_guards|exact brems_emission_guards].
Qed.
Print Assumptions C03_guards_separate.

(* ---- second deepening round ------------------------------------------------------------------------------------- *)
(* Gauss-Legendre exactness beyond constants, for the model's rule: the 2-point rule (nodes -s, s, weights 1, 1) applied to
   a cubic differs from the exact integral by an explicit multiple of (s^2 - 1/3) for ANY s (so for the double nodes of the
   code the defect is of relative order 2^-53), and is exact when s^2 = 1/3; the 3-point rule (nodes -s, 0, s with
   s^2 = 3/5, weights 5/9, 8/9, 5/9) is exact on every polynomial of degree <= 5 *)
Theorem C03_gq_low_order_exact :
  (forall roots weights ib s a0 a1 a2 a3 a b,
     slice roots ib 2 = [- s; s] -> slice weights ib 2 = [1; 1] ->
     rule roots weights ib 2 (poly3 a0 a1 a2 a3) ((1 # 2) * (a + b)) ((1 # 2) * (b - a)) ==
     prim3 a0 a1 a2 a3 b - prim3 a0 a1 a2 a3 a
     + (b - a) * ((1 # 2) * (b - a)) ^ 2 * (a2 + 3 * a3 * ((1 # 2) * (a + b))) * (s * s - (1 # 3))) /\
  (forall roots weights ib s a0 a1 a2 a3 a b,
     slice roots ib 2 = [- s; s] -> slice weights ib 2 = [1; 1] -> s * s == 1 # 3 ->
     rule roots weights ib 2 (poly3 a0 a1 a2 a3) ((1 # 2) * (a + b)) ((1 # 2) * (b - a)) ==
     prim3 a0 a1 a2 a3 b - prim3 a0 a1 a2 a3 a) /\
  (forall roots weights ib s a0 a1 a2 a3 a4 a5 a b,
     slice roots ib 3 = [- s; 0; s] -> slice weights ib 3 = [5 # 9; 8 # 9; 5 # 9] -> s * s == 3 # 5 ->
     rule roots weights ib 3 (poly5 a0 a1 a2 a3 a4 a5) ((1 # 2) * (a + b)) ((1 # 2) * (b - a)) ==
     prim5 a0 a1 a2 a3 a4 a5 b - prim5 a0 a1 a2 a3 a4 a5 a).
Proof. split; [exact rule2_defect|]. split; [exact rule2_exact|exact rule3_exact]. Qed.
Print Assumptions C03_gq_low_order_exact.

(* the adaptive loop itself (orders 2..3, any tolerance) integrates every cubic exactly *)
Theorem C03_gq23_exact_on_cubics :
  forall s2 s3 rtol a0 a1 a2 a3 a b, s2 * s2 == 1 # 3 -> s3 * s3 == 3 # 5 ->
  gq_evaluate [- s2; s2; - s3; 0; s3] [1; 1; 5 # 9; 8 # 9; 5 # 9] 2 3 rtol (poly3 a0 a1 a2 a3) a b ==
  prim3 a0 a1 a2 a3 b - prim3 a0 a1 a2 a3 a.
Proof. exact gq23_exact_cubic. Qed.
Print Assumptions C03_gq23_exact_on_cubics.

(* enclosure: an integrand lying between two cubics is integrated by the 2-point rule to a value between their exact
   integrals; the quadrature error of a bin is thus at most the integral of the width of any cubic envelope.
   This narrows C03_brems_bin_average_partial: what is still not proved is the existence of a tight envelope for the
   Hutchinson integrand (a Taylor / Peano-kernel argument over R for functions with bounded 2n-th derivative, for every
   order the adaptive loop may stop at), not any property of the code. *)
Theorem C03_gq2_envelope_partial :
  forall roots weights ib s f l0 l1 l2 l3 h0 h1 h2 h3 a b,
  slice roots ib 2 = [- s; s] -> slice weights ib 2 = [1; 1] -> s * s == 1 # 3 ->
  (forall w, In w weights -> 0 <= w) -> a <= b ->
  (forall x, poly3 l0 l1 l2 l3 x <= f x) -> (forall x, f x <= poly3 h0 h1 h2 h3 x) ->
  prim3 l0 l1 l2 l3 b - prim3 l0 l1 l2 l3 a <= rule roots weights ib 2 f ((1 # 2) * (a + b)) ((1 # 2) * (b - a)) /\
  rule roots weights ib 2 f ((1 # 2) * (a + b)) ((1 # 2) * (b - a)) <= prim3 h0 h1 h2 h3 b - prim3 h0 h1 h2 h3 a.
Proof. exact rule2_envelope. Qed.
Print Assumptions C03_gq2_envelope_partial.

(* total radiated power, linearity on the level of the composition: n_hyd is linear in the density n of each neutral hydrogen
   isotope that is in the composition, and the power density is affine in it as long as the summed hydrogen density stays on
   the positive side of its guard (closes the gap left in C03_linear_in_density, which was stated on the scalar n_hyd) *)
Theorem C03_total_power_linear_isotope :
  (forall hyd comp h s n, comp_get comp h 0 = Some s -> NoDup hyd -> In h hyd ->
     hyd_density hyd (upd_dens h 0 n comp) == hyd_density hyd (upd_dens h 0 0 comp) + n) /\
  (forall P hyd e c ne te ni nup comp h s n,
     comp_get comp h 0 = Some s -> NoDup hyd -> In h hyd ->
     0 <= hyd_density hyd (upd_dens h 0 0 comp) -> 0 < hyd_density hyd (upd_dens h 0 0 comp) + n ->
     total_power_density P e c ne te ni nup (hyd_density hyd (upd_dens h 0 n comp)) ==
     total_power_density P e c ne te ni nup (hyd_density hyd (upd_dens h 0 0 comp))
     + n * (if pos nup then nup * coef (prc_rate P e (c + 1)) ne te else 0)).
Proof. split; [exact hyd_density_linear | exact total_power_linear_isotope]. Qed.
Print Assumptions C03_total_power_linear_isotope.

(* the constant: 1/(4 pi) to double precision, and the bremsstrahlung constant for the CODATA values
   (square roots bracketed by rationals) is 1.5151e-36, i.e. 4 pi K / (hc/e) = 1.536e-38 W m^3 eV^-1/2, the
   classical free-free power coefficient (NRL formulary 1.69e-38 with a Gaunt factor of 1.1) *)
Example C03_constants :
  4 * (314159265358979 # 100000000000000) * k4pi < 1 /\ 1 < 4 * (314159265358980 # 100000000000000) * k4pi /\
  let sq x := if Qeq_bool x 3 then 17320508075688773 # 10000000000000000 else (19025205760512231 # 10000000000000000) * (1 # 1000000) in
  (15150 # 10000) * (1 # 1000000000000000000000000000000000000) < brems_const codata sq /\
  brems_const codata sq < (15153 # 10000) * (1 # 1000000000000000000000000000000000000).
Proof. vm_compute. repeat split; reflexivity. Qed.

(* non-vacuity: the hypotheses of the formulas are satisfiable *)
Definition nv_comp : composition := [mkSpecies 4 5 6 2 1; mkSpecies 4 6 6 3 1; mkSpecies 1 0 1 5 7].
Example C03_nonvacuous :
  comp_get nv_comp 4 5 = Some (mkSpecies 4 5 6 2 1) /\ comp_get nv_comp 4 (5 + 1) = Some (mkSpecies 4 6 6 3 1) /\
  (0 <= 5 < 6)%Z /\ 0 < Qsum (map (dens_or_0 nv_comp) [0; 1; 2]%Z) /\
  donors (mkSpecies 4 6 6 3 1) nv_comp = [mkSpecies 4 5 6 2 1; mkSpecies 1 0 1 5 7].
Proof. vm_compute. repeat split; congruence. Qed.
