(* Property C11 -- Inversion solvers: SART follows its update rule, NNLS/LSQ return true minimisers.
   This file contains nothing but the property theorems, each closed by a lemma from Proofs/,
   with Print Assumptions beneath.  Vectors are lists over Q, a matrix is the list of its rows;
   every statement is for all shapes (any number of rows, any row lengths). *)
Require Import Cherab.Common.Qx.
Require Import Cherab.Model.C11_Sart Cherab.Model.C11_Kkt Cherab.Model.C11_Check Cherab.Model.C11_Round.
Require Import Cherab.Proofs.C11_Sart Cherab.Proofs.C11_Kkt Cherab.Proofs.C11_Check Cherab.Proofs.C11_More Cherab.Proofs.C11_Round Cherab.Proofs.C11_Order.
From Coq Require Import Qabs Lqa Permutation.
Open Scope Q_scope.

(* --- SART ----------------------------------------------------------------------------------- *)

(* what is returned is the iterate of the update rule whose index is the number of sweeps made; the
   convergence list holds the convergence value of every iterate; between min(2, max_iterations) and
   max_iterations sweeps are made; the run stops at the first k >= 1 with |c_k - c_(k-1)| < conv_tol
   and not before.  (Stated for invert_sart and invert_constrained_sart.) *)
Theorem C11_sart_returns_iterate_under_stopping_rule :
  forall e1 n W b g maxit relax tol x cs,
  invert_sart e1 n W b g maxit relax tol = Ok x cs ->
  let step := sart_step relax W b in
  let x0 := initial_solution e1 n g in
  x = iterate step (length cs) x0
  /\ (length cs <= Z.to_nat maxit)%nat /\ (Nat.min 2 (Z.to_nat maxit) <= length cs)%nat
  /\ (forall k, (k < length cs)%nat -> nth k cs 0 = conv W b (iterate step (S k) x0))
  /\ (forall k, (S k < length cs)%nat -> stop_now tol (prev_at None cs k) (nth k cs 0) = false)
  /\ ((length cs < Z.to_nat maxit)%nat ->
      stop_now tol (prev_at None cs (length cs - 1)) (nth (length cs - 1) cs 0) = true).
Proof. intros e1 n W b g maxit relax tol x cs H. exact (run_with_spec _ _ _ _ _ _ _ _ H). Qed.
Print Assumptions C11_sart_returns_iterate_under_stopping_rule.

Theorem C11_csart_returns_iterate_under_stopping_rule :
  forall e1 n W L b g maxit relax beta tol x cs,
  invert_constrained_sart e1 n W L b g maxit relax beta tol = Ok x cs ->
  let step := csart_step relax beta W L b in
  let x0 := initial_solution e1 n g in
  x = iterate step (length cs) x0
  /\ (length cs <= Z.to_nat maxit)%nat /\ (Nat.min 2 (Z.to_nat maxit) <= length cs)%nat
  /\ (forall k, (k < length cs)%nat -> nth k cs 0 = conv W b (iterate step (S k) x0))
  /\ (forall k, (S k < length cs)%nat -> stop_now tol (prev_at None cs k) (nth k cs 0) = false)
  /\ ((length cs < Z.to_nat maxit)%nat ->
      stop_now tol (prev_at None cs (length cs - 1)) (nth (length cs - 1) cs 0) = true).
Proof. intros e1 n W L b g maxit relax beta tol x cs H. exact (run_with_spec _ _ _ _ _ _ _ _ H). Qed.
Print Assumptions C11_csart_returns_iterate_under_stopping_rule.

(* one sweep is the documented formula, clipped at zero, in every cell crossed by a ray when no ray has
   zero length (the code's guards for zero ray lengths / densities are the subject of the next theorem) *)
Theorem C11_sart_step_is_documented_rule :
  forall relax W b x l, length b = length W -> (l < length x)%nat ->
  Forall (fun r => ~ Qsum r == 0) W -> 0 < Qsum (map (fun r => entry r l) W) ->
  entry (sart_step relax W b x) l == clip (doc_update relax W b x l).
Proof. exact sart_step_documented. Qed.
Print Assumptions C11_sart_step_is_documented_rule.

Theorem C11_csart_step_is_documented_rule :
  forall relax beta W L b x l, length b = length W -> (l < length x)%nat -> (l < length L)%nat ->
  Forall (fun r => ~ Qsum r == 0) W -> 0 < Qsum (map (fun r => entry r l) W) ->
  entry (csart_step relax beta W L b x) l == clip (doc_update relax W b x l - doc_penalty beta L x l).
Proof. exact csart_step_documented. Qed.
Print Assumptions C11_csart_step_is_documented_rule.

(* rows of zeros (rays of zero length) change nothing, wherever they sit and whatever was measured on
   them; a cell crossed by no ray keeps its value (clipped at zero) *)
Theorem C11_sart_zero_rows_and_columns_harmless :
  forall relax W1 W2 r b1 b2 bi x, length b1 = length W1 -> Forall (fun w => w == 0) r ->
  Forall2 Qeq (sart_step relax (W1 ++ r :: W2) (b1 ++ bi :: b2) x) (sart_step relax (W1 ++ W2) (b1 ++ b2) x)
  /\ forall W b l, (l < length x)%nat -> Qsum (map (fun r => entry r l) W) == 0 ->
     entry (sart_step relax W b x) l == clip (entry x l).
Proof. intros; split; [apply sart_zero_row; assumption | apply sart_zero_column]. Qed.
Print Assumptions C11_sart_zero_rows_and_columns_harmless.

(* the solution is never negative: after at least one sweep whatever the initial guess, and for any
   iteration limit when the initial guess is non-negative *)
Theorem C11_sart_solution_nonnegative :
  forall e1 n W b g maxit relax tol x cs,
  invert_sart e1 n W b g maxit relax tol = Ok x cs ->
  ((1 <= maxit)%Z \/ Forall (Qle 0) (initial_solution e1 n g)) -> Forall (Qle 0) x.
Proof. intros e1 n W b g maxit relax tol x cs H. eapply run_with_nonneg; [apply sart_step_nonneg | exact H]. Qed.
Print Assumptions C11_sart_solution_nonnegative.

Theorem C11_csart_solution_nonnegative :
  forall e1 n W L b g maxit relax beta tol x cs,
  invert_constrained_sart e1 n W L b g maxit relax beta tol = Ok x cs ->
  ((1 <= maxit)%Z \/ Forall (Qle 0) (initial_solution e1 n g)) -> Forall (Qle 0) x.
Proof. intros e1 n W L b g maxit relax beta tol x cs H. eapply run_with_nonneg; [apply csart_step_nonneg | exact H]. Qed.
Print Assumptions C11_csart_solution_nonnegative.

(* an exact non-negative solution is a fixed point: started there, every iterate equals it, for every
   relaxation, tolerance and iteration limit (constrained variant: when its Laplacian vanishes or beta = 0) *)
Theorem C11_sart_exact_solution_is_fixed_point :
  forall e1 n W b xs maxit relax tol x cs,
  Forall2 Qeq (mv W xs) b -> Forall (Qle 0) xs ->
  invert_sart e1 n W b (GuessVec xs) maxit relax tol = Ok x cs -> Forall2 Qeq x xs.
Proof. exact sart_fixed_point. Qed.
Print Assumptions C11_sart_exact_solution_is_fixed_point.

Theorem C11_csart_exact_solution_is_fixed_point :
  forall e1 n W L b xs maxit relax beta tol x cs,
  Forall2 Qeq (mv W xs) b -> Forall (Qle 0) xs ->
  (Forall (fun v => v == 0) (mv L xs) \/ beta == 0) ->
  invert_constrained_sart e1 n W L b (GuessVec xs) maxit relax beta tol = Ok x cs -> Forall2 Qeq x xs.
Proof. exact csart_fixed_point. Qed.
Print Assumptions C11_csart_exact_solution_is_fixed_point.

(* the only failure: the convergence value is normalised by |b|^2, which must not vanish *)
Theorem C11_sart_error_only_for_zero_measurement :
  forall e1 n W b g maxit relax tol,
  invert_sart e1 n W b g maxit relax tol = ErrZeroDivision <-> ((1 <= maxit)%Z /\ dot b b == 0).
Proof. intros. apply run_with_error. Qed.
Print Assumptions C11_sart_error_only_for_zero_measurement.

(* --- regularised least squares ------------------------------------------------------------------ *)

(* the stacked system handed to the solvers has the objective of the property statement *)
Theorem C11_stacked_system_is_tikhonov_objective :
  forall W b alpha L x, length b = length W -> length L = length x ->
  obj (stackC W alpha L) (stackd b (length x)) x == tikhonov_objective W b alpha L x.
Proof. exact stack_objective. Qed.
Print Assumptions C11_stacked_system_is_tikhonov_objective.

(* certificate theorem, NNLS: an eps-KKT point is eps-optimal against EVERY non-negative competitor *)
Theorem C11_kkt_certificate_sufficient :
  forall C d x e1 e2, length d = length C -> Forall (fun c => length c = length x) C ->
  eps_kkt C d x e1 e2 = true ->
  Forall (Qle 0) x /\
  forall y, length y = length x -> Forall (Qle 0) y ->
  obj C d x - 2 * e1 * Qsum y - 2 * inject_Z (Z.of_nat (length x)) * e2 <= obj C d y.
Proof. exact kkt_sufficient. Qed.
Print Assumptions C11_kkt_certificate_sufficient.

(* certificate theorem, LSQ/SVD: eps-normal equations give eps-optimality against EVERY competitor;
   with eps = 0 the point is an exact global minimiser *)
Theorem C11_normal_equations_certificate_sufficient :
  forall C d x e, length d = length C -> Forall (fun c => length c = length x) C ->
  eps_normal_eq C d x e = true ->
  forall y, length y = length x ->
  obj C d x - 2 * e * Qsum (map Qabs (vsub y x)) <= obj C d y.
Proof. exact normal_eq_sufficient. Qed.
Print Assumptions C11_normal_equations_certificate_sufficient.

(* the NNLS wrapper: for ANY solver that returns a constrained minimiser and its residual norm, dividing the
   system by vmax <> 0 and multiplying the norm back returns a minimiser of the Tikhonov objective over
   x >= 0 and a residual norm consistent with the solution (rnorm^2 = objective at x) *)
Theorem C11_nnls_wrapper_returns_tikhonov_minimiser :
  forall (solver : mat -> vec -> vec * Q) n W b alpha L x rn,
  (forall C d, let (x, r) := solver C d in
               length x = n /\ Forall (Qle 0) x /\ 0 <= r /\ r * r == obj C d x /\
               forall y, length y = n -> Forall (Qle 0) y -> obj C d x <= obj C d y) ->
  length b = length W -> length (tikhonov_or_identity n L) = n ->
  invert_regularised_nnls solver n W b alpha L = LsOk x rn ->
  ~ vmax (stackd b n) == 0 /\ Forall (Qle 0) x /\
  rn * rn == tikhonov_objective W b alpha (tikhonov_or_identity n L) x /\
  forall y, length y = n -> Forall (Qle 0) y ->
  tikhonov_objective W b alpha (tikhonov_or_identity n L) x <= tikhonov_objective W b alpha (tikhonov_or_identity n L) y.
Proof. exact nnls_wrapper_correct. Qed.
Print Assumptions C11_nnls_wrapper_returns_tikhonov_minimiser.

(* the checkers that the correspondence evaluates (in Coq) on every real solver output are sound: an output
   that passes is eps-optimal against EVERY competitor for the objective of the property statement, with the
   eps the checker used, and its reported residual is consistent with it *)
Theorem C11_nnls_output_certificate_sound :
  forall rel n W b alpha L x rn,
  let Lm := tikhonov_or_identity n L in
  let C := stackC W alpha Lm in
  let d := stackd b n in
  length b = length W -> Forall (fun c => length c = n) W ->
  Forall (fun c => length c = n) Lm -> length Lm = n ->
  check_nnls rel n W b alpha L x rn = true ->
  Forall (Qle 0) x /\
  Qabs (rn * rn - tikhonov_objective W b alpha Lm x) <= rel * obj_scale C d x /\
  forall y, length y = n -> Forall (Qle 0) y ->
    tikhonov_objective W b alpha Lm x - 2 * (rel * grad_scale C d x) * Qsum y
      - 2 * inject_Z (Z.of_nat n) * (rel * obj_scale C d x)
    <= tikhonov_objective W b alpha Lm y.
Proof. exact check_nnls_sound. Qed.
Print Assumptions C11_nnls_output_certificate_sound.

Theorem C11_lstsq_output_certificate_sound :
  forall rel n W b alpha L x res,
  let Lm := tikhonov_or_identity n L in
  let C := stackC W alpha Lm in
  let d := stackd b n in
  length b = length W -> Forall (fun c => length c = n) W ->
  Forall (fun c => length c = n) Lm -> length Lm = n ->
  check_lstsq rel n W b alpha L x res = true ->
  (forall r, res = [r] -> Qabs (r - tikhonov_objective W b alpha Lm x) <= rel * obj_scale C d x) /\
  forall y, length y = n ->
    tikhonov_objective W b alpha Lm x - 2 * (rel * grad_scale C d x) * Qsum (map Qabs (vsub y x))
    <= tikhonov_objective W b alpha Lm y.
Proof. exact check_lstsq_sound. Qed.
Print Assumptions C11_lstsq_output_certificate_sound.

Theorem C11_svd_output_certificate_sound :
  forall rel W b x, length b = length W -> Forall (fun c => length c = length x) W ->
  check_svd rel W b x = true ->
  forall y, length y = length x ->
    obj W b x - 2 * (rel * grad_scale W b x) * Qsum (map Qabs (vsub y x)) <= obj W b y.
Proof. exact check_svd_sound. Qed.
Print Assumptions C11_svd_output_certificate_sound.

(* --- added in the deepening round ---------------------------------------------------------------- *)

(* SCALE COVARIANCE (until now only tested by the search): geometry matrix and measurements multiplied by the same
   s > 0 give the same solution, the same convergence list and the same number of sweeps - one sweep, the
   convergence value, and the whole inversion *)
Theorem C11_sart_sweep_scale_covariant :
  forall s relax W b x, 0 < s ->
  Forall2 Qeq (sart_step relax (smat s W) (scale_row s b) x) (sart_step relax W b x)
  /\ conv (smat s W) (scale_row s b) x == conv W b x.
Proof. intros; split; [apply sart_step_scale; assumption | apply conv_scale; lra]. Qed.
Print Assumptions C11_sart_sweep_scale_covariant.

Theorem C11_sart_inversion_scale_covariant :
  forall s e1 n W b g maxit relax tol, 0 < s ->
  result_eq (invert_sart e1 n (smat s W) (scale_row s b) g maxit relax tol) (invert_sart e1 n W b g maxit relax tol).
Proof. exact invert_sart_scale. Qed.
Print Assumptions C11_sart_inversion_scale_covariant.

(* the sweep respects equality of rationals in the iterate (needed to compose sweeps; Qeq is not Leibniz equality) *)
Theorem C11_sart_sweep_respects_equal_iterates :
  forall relax W b x y, Forall2 Qeq x y -> Forall2 Qeq (sart_step relax W b x) (sart_step relax W b y).
Proof. exact sart_step_proper. Qed.
Print Assumptions C11_sart_sweep_respects_equal_iterates.

(* the constrained solver with beta_laplace = 0 makes the sweeps of the plain solver *)
Theorem C11_csart_beta_zero_is_sart :
  forall relax beta W L b x, beta == 0 -> Forall2 Qeq (csart_step relax beta W L b x) (sart_step relax W b x).
Proof. exact csart_beta_zero. Qed.
Print Assumptions C11_csart_beta_zero_is_sart.

(* started at an exact non-negative solution with a positive tolerance, exactly two sweeps are made *)
Theorem C11_sart_exact_start_makes_two_sweeps :
  forall e1 n W b xs maxit relax tol x cs,
  Forall2 Qeq (mv W xs) b -> Forall (Qle 0) xs -> 0 < tol -> (2 <= maxit)%Z ->
  invert_sart e1 n W b (GuessVec xs) maxit relax tol = Ok x cs -> length cs = 2%nat.
Proof. exact sart_exact_start_two_sweeps. Qed.
Print Assumptions C11_sart_exact_start_makes_two_sweeps.

(* the stopping rule that the correspondence replays EXACTLY on the implementation's own convergence values (with
   the binary64 rounding model for the one subtraction) is the model's rule: without rounding, every convergence
   list the model produces passes the replay *)
Theorem C11_stop_replay_is_the_model_rule :
  forall step W b x0 maxit tol x cs,
  run_with step W b x0 maxit tol = Ok x cs -> stop_replay no_rounding maxit tol cs = true.
Proof. exact run_with_passes_replay. Qed.
Print Assumptions C11_stop_replay_is_the_model_rule.

(* exact certificates: eps = 0 gives exact global minimisers (over x >= 0 for KKT) *)
Theorem C11_exact_certificates_give_exact_minimisers :
  forall C d x, length d = length C -> Forall (fun c => length c = length x) C ->
  (eps_kkt C d x 0 0 = true ->
     Forall (Qle 0) x /\ forall y, length y = length x -> Forall (Qle 0) y -> obj C d x <= obj C d y)
  /\ (eps_normal_eq C d x 0 = true -> forall y, length y = length x -> obj C d x <= obj C d y).
Proof. intros C d x Hd HC; split; [apply kkt_exact_minimiser | apply normal_eq_exact_minimiser]; assumption. Qed.
Print Assumptions C11_exact_certificates_give_exact_minimisers.

(* the LSQ wrapper: for ANY solver returning a least-squares minimiser the wrapper returns a minimiser of the Tikhonov
   objective *)
Theorem C11_lstsq_wrapper_returns_tikhonov_minimiser :
  forall (solver : mat -> vec -> vec) n W b alpha L,
  (forall C d, length (solver C d) = n /\ forall y, length y = n -> obj C d (solver C d) <= obj C d y) ->
  length b = length W -> length (tikhonov_or_identity n L) = n ->
  let x := invert_regularised_lstsq solver n W b alpha L in
  forall y, length y = n ->
  tikhonov_objective W b alpha (tikhonov_or_identity n L) x <= tikhonov_objective W b alpha (tikhonov_or_identity n L) y.
Proof. exact lstsq_wrapper_correct. Qed.
Print Assumptions C11_lstsq_wrapper_returns_tikhonov_minimiser.

(* the NNLS wrapper fails exactly when max([b; 0]) = 0, that maximum is never negative, and the reported norm is
   non-negative whenever the solver's is *)
Theorem C11_nnls_wrapper_error_and_norm_sign :
  forall (solver : mat -> vec -> vec * Q) n W b alpha L,
  (invert_regularised_nnls solver n W b alpha L = LsErrValue <-> vmax (stackd b n) == 0)
  /\ ((1 <= n)%nat -> 0 <= vmax (stackd b n))
  /\ ((forall C d, 0 <= snd (solver C d)) -> (1 <= n)%nat ->
      forall x rn, invert_regularised_nnls solver n W b alpha L = LsOk x rn -> 0 <= rn).
Proof.
  intros; split; [apply nnls_wrapper_error | split; [apply vmax_stack_nonneg |]].
  intros Hs Hn x rn H. eapply nnls_wrapper_rnorm_nonneg; eassumption.
Qed.
Print Assumptions C11_nnls_wrapper_error_and_norm_sign.

(* --- added in the second deepening round --------------------------------------------------------- *)

(* ORDER INVARIANCE (until now only tested by the search): the observations - rows of the geometry matrix together
   with their measurements - in any other order give the same sweep, the same convergence value, and for the whole
   inversion the same solution, convergence list and number of sweeps *)
Theorem C11_sart_sweep_order_invariant :
  forall relax (rows rows' : list (vec * Q)) x, Permutation rows rows' ->
  Forall2 Qeq (sart_step relax (map fst rows) (map snd rows) x) (sart_step relax (map fst rows') (map snd rows') x)
  /\ conv (map fst rows) (map snd rows) x == conv (map fst rows') (map snd rows') x.
Proof. intros; split; [apply sart_step_order_invariant | apply conv_order_invariant]; assumption. Qed.
Print Assumptions C11_sart_sweep_order_invariant.

Theorem C11_sart_inversion_order_invariant :
  forall e1 n (rows rows' : list (vec * Q)) g maxit relax tol, Permutation rows rows' ->
  result_eq (invert_sart e1 n (map fst rows) (map snd rows) g maxit relax tol)
            (invert_sart e1 n (map fst rows') (map snd rows') g maxit relax tol).
Proof. exact invert_sart_order_invariant. Qed.
Print Assumptions C11_sart_inversion_order_invariant.

(* the binary64 rounding model used for the exact replay of the stopping rule: absolute error at most half a quantum
   everywhere, relative error at most 2^-53 in the normal range, at most 2^-1075 in the subnormal range *)
Theorem C11_round53_error_bounds :
  forall q, Qabs (round53 q - q) <= (1#2) * pow2 (quantum q)
  /\ ((-1074 <= ilog2 q - 52)%Z -> Qabs (round53 q - q) <= pow2 (-53) * Qabs q)
  /\ ((ilog2 q - 52 < -1074)%Z -> Qabs (round53 q - q) <= pow2 (-1075)).
Proof.
  intro q; split; [apply round53_abs_error | split; [apply round53_rel_error | apply round53_subnormal_error]].
Qed.
Print Assumptions C11_round53_error_bounds.

(* outside one rounding error of the tolerance the implementation's (floating-point) stopping decision is the
   model's (exact) decision *)
Theorem C11_float_stop_decision_is_exact_outside_rounding_margin :
  forall d tol, 0 <= d -> (-1074 <= ilog2 d - 52)%Z -> pow2 (-53) * d < Qabs (d - tol) ->
  Qle_bool tol (round53 d) = Qle_bool tol d.
Proof. exact stop_decision_robust. Qed.
Print Assumptions C11_float_stop_decision_is_exact_outside_rounding_margin.

(* non-vacuity: a 2x2 system whose exact solution satisfies the hypotheses of the fixed-point theorem,
   and a point that passes the exact KKT certificate *)
Example C11_nonvacuous :
  Forall2 Qeq (mv [[1; 2]; [0; 3]] [1; 1]) [3; 3] /\ Forall (Qle 0) [1; 1] /\
  (exists x cs, invert_sart 0 2 [[1; 2]; [0; 3]] [3; 3] (GuessVec [1; 1]) 5 1 (1#10) = Ok x cs) /\
  eps_kkt [[1; 2]; [0; 3]] [3; 3] [1; 1] 0 0 = true.
Proof.
  split; [repeat constructor; vm_compute; reflexivity|]. split; [repeat constructor; discriminate|].
  split; [eexists; eexists; vm_compute; reflexivity | vm_compute; reflexivity].
Qed.
