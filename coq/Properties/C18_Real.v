(* Property C18, real-number part: nothing but the property theorems, each closed by [exact] of a lemma from
   Proofs/C18_Real.v, with Print Assumptions beneath.  These theorems rest on the axioms of the standard library's
   classical real numbers and on the primitive 63-bit integers Interval's certified quadrature computes with. *)
From Coq Require Import Reals.
From Coquelicot Require Import Coquelicot.
Require Import Cherab.Proofs.C18_Real.

(* ---- the integral clauses over the real numbers (Coquelicot RInt + Interval; axioms: the standard library's
   classical real numbers and the primitive 63-bit integers Interval computes with) --------------------------- *)
(* N(m, s^2) integrates over [m - 40 s, m + 40 s] to one within 1e-12, for every mean m and every s > 0 *)
Theorem C18_normal_density_integrates_real :
  forall m s : R, (0 < s)%R ->
  (Rabs (RInt (fun t => phiR (s * s) (t - m)) (m - 40 * s) (m + 40 * s) - 1) <= 1 / 1000000000000)%R.
Proof. exact normal_density_integrates. Qed.
Print Assumptions C18_normal_density_integrates_real.

(* outside +-40 s the density is below e^-800 of its maximum (what the truncated integrals leave out) *)
Theorem C18_normal_density_tail_real :
  forall s t : R, (0 < s)%R -> (40 * s <= Rabs t)%R -> (phiR (s * s) t <= exp (-800) / sqrt (2 * PI * (s * s)))%R.
Proof. exact normal_density_tail. Qed.
Print Assumptions C18_normal_density_tail_real.

(* ConstantBivariateGaussian (n = E / (c tau)): cross-section integral over |x| <= 40 sigma_x, |y| <= 40 sigma_y *)
Theorem C18_bivariate_cross_section_real :
  forall n sx sy : R, (0 < sx)%R -> (0 < sy)%R ->
  (Rabs (RInt (fun x => RInt (fun y => n * biv_evalR sx sy x y) (- (40 * sy)) (40 * sy)) (- (40 * sx)) (40 * sx) - n)
   <= Rabs n * (21 / 10 * eps12))%R.
Proof. exact bivariate_cross_section_real. Qed.
Print Assumptions C18_bivariate_cross_section_real.

(* GaussianBeamAxisymmetric at any axial position: v = sigma(z)^2 *)
Theorem C18_beam_cross_section_real :
  forall n v : R, (0 < v)%R ->
  (Rabs (RInt (fun x => RInt (fun y => n * beam_evalR v x y) (- (40 * sqrt v)) (40 * sqrt v)) (- (40 * sqrt v)) (40 * sqrt v) - n)
   <= Rabs n * (21 / 10 * eps12))%R.
Proof. exact beam_cross_section_real. Qed.
Print Assumptions C18_beam_cross_section_real.

(* TrivariateGaussian (n = E): integral over the box of +-40 sigma around (0, 0, mean_z) *)
Theorem C18_trivariate_volume_real :
  forall n m sx sy sz : R, (0 < sx)%R -> (0 < sy)%R -> (0 < sz)%R ->
  (Rabs (RInt (fun x => RInt (fun y => RInt (fun z => n * tri_evalR m sx sy sz x y z) (m - 40 * sz) (m + 40 * sz))
                          (- (40 * sy)) (40 * sy)) (- (40 * sx)) (40 * sx) - n)
   <= Rabs n * (31 / 10 * eps12))%R.
Proof. exact trivariate_volume_real. Qed.
Print Assumptions C18_trivariate_volume_real.

(* the five real-number theorems above in one statement (this is the one whose assumptions the harness re-checks
   on every run: Print Assumptions through Interval costs about 8 s per theorem) *)
Theorem C18_integrals_over_the_reals :
  (forall m s : R, (0 < s)%R ->
     (Rabs (RInt (fun t => phiR (s * s) (t - m)) (m - 40 * s) (m + 40 * s) - 1) <= 1 / 1000000000000)%R) /\
  (forall s t : R, (0 < s)%R -> (40 * s <= Rabs t)%R -> (phiR (s * s) t <= exp (-800) / sqrt (2 * PI * (s * s)))%R) /\
  (forall n sx sy : R, (0 < sx)%R -> (0 < sy)%R ->
     (Rabs (RInt (fun x => RInt (fun y => n * biv_evalR sx sy x y) (- (40 * sy)) (40 * sy)) (- (40 * sx)) (40 * sx) - n)
      <= Rabs n * (21 / 10 * eps12))%R) /\
  (forall n v : R, (0 < v)%R ->
     (Rabs (RInt (fun x => RInt (fun y => n * beam_evalR v x y) (- (40 * sqrt v)) (40 * sqrt v)) (- (40 * sqrt v)) (40 * sqrt v) - n)
      <= Rabs n * (21 / 10 * eps12))%R) /\
  (forall n m sx sy sz : R, (0 < sx)%R -> (0 < sy)%R -> (0 < sz)%R ->
     (Rabs (RInt (fun x => RInt (fun y => RInt (fun z => n * tri_evalR m sx sy sz x y z) (m - 40 * sz) (m + 40 * sz))
                             (- (40 * sy)) (40 * sy)) (- (40 * sx)) (40 * sx) - n)
      <= Rabs n * (31 / 10 * eps12))%R).
Proof.
  exact (conj C18_normal_density_integrates_real (conj C18_normal_density_tail_real (conj C18_bivariate_cross_section_real
          (conj C18_beam_cross_section_real C18_trivariate_volume_real)))).
Qed.
Print Assumptions C18_integrals_over_the_reals.

