(* Property C09 -- Ionisation balance solves the steady-state equations, conserves particles/charge.
   This file contains nothing but the property theorems, each closed by [exact] of a lemma from
   Proofs/, with Print Assumptions beneath.  All of them hold for every Z >= 1 (the property asks
   for 1..18), all positive ionisation/recombination tables, every non-negative CX table, every
   n_e > 0 and donor density >= 0 ([rates_ok], Model/C09_Balance.v).
   [fractional_point] is the closed form  f_z = r_z / sum r,  r_0 = 1, r_(z+1) = r_z S_z / R_(z+1),
   R_z = alpha_z + (n_D/n_e) C_z. *)
Require Import Cherab.Common.Qx.
From Coq Require Import Lqa.
Require Import Cherab.Model.C09_Balance Cherab.Model.C09_Check Cherab.Model.C09_Interp.
Require Import Cherab.Proofs.C09_Balance Cherab.Proofs.C09_Check Cherab.Proofs.C09_More Cherab.Proofs.C09_More2.
From Coq Require Import Permutation.
Open Scope Q_scope.

Theorem C09_fractions_in_unit_interval :
  forall Z ion rec cx nd ne, rates_ok Z ion rec cx nd ne ->
  forall z, (z <= Z)%nat ->
  0 <= fractional_point Z ion rec cx nd ne z /\ fractional_point Z ion rec cx nd ne z <= 1.
Proof. exact thm_unit_interval. Qed.
Print Assumptions C09_fractions_in_unit_interval.

Theorem C09_fractions_sum_to_one :
  forall Z ion rec cx nd ne, rates_ok Z ion rec cx nd ne ->
  sumn (S Z) (fractional_point Z ion rec cx nd ne) == 1.
Proof. exact thm_sum_one. Qed.
Print Assumptions C09_fractions_sum_to_one.

(* n_z S_z = n_(z+1) (alpha_(z+1) + (n_D/n_e) C_(z+1)) between every pair of neighbours;
   [dcx cx nd ne z] is (n_D/n_e) C_z with a donor and 0 without *)
Theorem C09_pairwise_balance :
  forall Z ion rec cx nd ne, rates_ok Z ion rec cx nd ne ->
  forall z, (z < Z)%nat ->
  fractional_point Z ion rec cx nd ne z * ion z ==
  fractional_point Z ion rec cx nd ne (S z) * (rec (S z) + dcx cx nd ne (S z)).
Proof. exact thm_balance. Qed.
Print Assumptions C09_pairwise_balance.

(* the matrix and right-hand side the code hands to lsq_linear are solved exactly by n_e * fractions *)
Theorem C09_closed_form_solves_code_matrix :
  forall Z ion rec cx nd ne, rates_ok Z ion rec cx nd ne ->
  Forall2 Qeq
    (matvec (balance_matrix Z ion rec cx nd ne)
            (map (fun z => ne * fractional_point Z ion rec cx nd ne z) (seq 0 (S Z))))
    (balance_rhs Z ne).
Proof. exact thm_solves_matrix. Qed.
Print Assumptions C09_closed_form_solves_code_matrix.

(* the exact solution of the code's equations is unique ... *)
Theorem C09_exact_solution_unique :
  forall Z ion rec cx nd ne, rates_ok Z ion rec cx nd ne ->
  forall (x : nat -> Q) s,
  (forall i, (i <= Z)%nat -> rowdot Z ion rec cx nd ne i x == 0) -> sumn (S Z) x == s ->
  forall z, (z <= Z)%nat -> x z == s * fractional_point Z ion rec cx nd ne z.
Proof. exact thm_exact_solution_unique. Qed.
Print Assumptions C09_exact_solution_unique.

(* ... and so is the minimiser of the bounded least-squares problem of line 240: whatever vector
   minimises |A x - b|^2 over the box 0 <= x <= n_e is n_e times the closed form (in exact arithmetic;
   what scipy's lsq_linear returns in floating point is compared with it by the correspondence) *)
Theorem C09_lsq_minimiser_is_closed_form :
  forall Z ion rec cx nd ne, rates_ok Z ion rec cx nd ne ->
  forall x : nat -> Q,
  (forall y, in_box Z ne y -> lsq_cost Z ion rec cx nd ne x <= lsq_cost Z ion rec cx nd ne y) ->
  forall z, (z <= Z)%nat -> x z == ne * fractional_point Z ion rec cx nd ne z.
Proof. exact thm_lsq. Qed.
Print Assumptions C09_lsq_minimiser_is_closed_form.

Theorem C09_density_scaling :
  forall Z ion rec cx nd ne n_el, rates_ok Z ion rec cx nd ne ->
  (forall z, from_density_point Z ion rec cx nd ne n_el z == n_el * fractional_point Z ion rec cx nd ne z)
  /\ sumn (S Z) (from_density_point Z ion rec cx nd ne n_el) == n_el.
Proof. exact thm_density. Qed.
Print Assumptions C09_density_scaling.

(* neutrality matching: non-negative densities; their charge plus the charge of the given species is
   n_e whenever the given species do not already exceed n_e (otherwise the code clamps to zero) *)
Theorem C09_neutrality :
  forall Z ion rec cx nd ne sp, rates_ok Z ion rec cx nd ne ->
  let dens := match_neutrality_point Z ion rec cx nd ne sp in
  (forall z, (z <= Z)%nat -> 0 <= dens z)
  /\ (species_charge sp <= ne -> sumn (S Z) (fun z => qnat z * dens z) + species_charge sp == ne)
  /\ (ne < species_charge sp -> forall z, dens z == 0).
Proof. exact thm_neutrality. Qed.
Print Assumptions C09_neutrality.

(* a CX donor of positive density with positive rates strictly raises the neutral fraction: a solver
   that ignores the donor cannot return the right answer (the defect fixed by ff3e771) *)
Theorem C09_donor_matters :
  forall Z ion rec c nd ne,
  rates_ok Z ion rec None nd ne -> 0 < nd -> (forall z, (1 <= z <= Z)%nat -> 0 < c z) ->
  fractional_point Z ion rec None nd ne O < fractional_point Z ion rec (Some c) nd ne O.
Proof. exact thm_donor_matters. Qed.
Print Assumptions C09_donor_matters.

Theorem C09_zero_donor_is_no_donor :
  forall Z ion rec c ne z,
  fractional_point Z ion rec (Some c) 0 ne z == fractional_point Z ion rec None 0 ne z.
Proof. exact zero_donor_is_no_donor. Qed.
Print Assumptions C09_zero_donor_is_no_donor.

(* scalars, arrays, Function1D and Function2D with free variables denote arrays of point values;
   profiles depend on the inputs only through those values, and every point of a profile is the
   point calculation.  Interpolators and equilibrium mapping (raysect, EFITEquilibrium) are outside
   the model: they are compared at knots and between knots by the correspondence only. *)
Theorem C09_entry_points_agree_partial :
  forall Z ion rec cx,
  (forall ne ne' te te' nd nd',
      points ne = points ne' -> points te = points te' -> donor_points nd ne = donor_points nd' ne' ->
      fractional_profile Z ion rec cx ne te nd = fractional_profile Z ion rec cx ne' te' nd')
  /\ (forall n_el n_el' ne ne' te te' nd nd',
      points n_el = points n_el' ->
      points ne = points ne' -> points te = points te' -> donor_points nd ne = donor_points nd' ne' ->
      density_profile Z ion rec cx n_el ne te nd = density_profile Z ion rec cx n_el' ne' te' nd')
  /\ (forall ne te nd k,
      (k < length (points ne))%nat -> length (points ne) = length (points te) ->
      length (points ne) = length (donor_points nd ne) ->
      nth k (fractional_profile Z ion rec cx ne te nd) [] =
      let n := nth k (points ne) 0 in let t := nth k (points te) 0 in let d := nth k (donor_points nd ne) 0 in
      map (fractional_point Z (at_point ion n t) (at_point rec n t) (option_map (fun c => at_point c n t) cx) d n)
          (seq 0 (S Z))).
Proof. exact thm_entry_points. Qed.
Print Assumptions C09_entry_points_agree_partial.

(* the evaluator the correspondence runs is the model *)
Theorem C09_checker_evaluates_model :
  forall Z ion R, Forall2 Qeq (cf_fast Z ion R) (map (cf Z ion R) (seq 0 (S Z))).
Proof. exact cf_fast_ok. Qed.
Print Assumptions C09_checker_evaluates_model.

(* ---- added in the deepening round ------------------------------------------------------------------------ *)

(* uniqueness stated on the very object the code builds: any vector of length Z+1 that the code's matrix (list of
   rows, Model.balance_matrix, compared cell by cell with the captured lsq_linear argument on every run) maps to the
   code's right-hand side is n_e times the closed form *)
Theorem C09_matrix_solution_unique :
  forall Z ion rec cx nd ne xs, rates_ok Z ion rec cx nd ne -> length xs = S Z ->
  Forall2 Qeq (matvec (balance_matrix Z ion rec cx nd ne) xs) (balance_rhs Z ne) ->
  forall z, (z <= Z)%nat -> nth z xs 0 == ne * fractional_point Z ion rec cx nd ne z.
Proof. exact matrix_solution_unique. Qed.
Print Assumptions C09_matrix_solution_unique.

(* the balance does not depend on units: rates * k, densities * m (k, m > 0) give the same fractions *)
Theorem C09_scale_covariant :
  forall Z ion rec cx nd ne k m, rates_ok Z ion rec cx nd ne -> 0 < k -> 0 < m ->
  forall z, (z <= Z)%nat ->
  fractional_point Z (fun c => k * ion c) (fun c => k * rec c) (option_map (fun f c => k * f c) cx) (m * nd) (m * ne) z
  == fractional_point Z ion rec cx nd ne z.
Proof. exact scale_covariant. Qed.
Print Assumptions C09_scale_covariant.

(* the neutral fraction is strictly increasing in the donor density (donor sensitivity for every pair of densities,
   not only against "no donor") *)
Theorem C09_neutral_fraction_monotone_in_donor :
  forall Z ion rec c nd1 nd2 ne,
  rates_ok Z ion rec (Some c) nd1 ne -> nd1 < nd2 -> (forall z, (1 <= z <= Z)%nat -> 0 < c z) ->
  fractional_point Z ion rec (Some c) nd1 ne O < fractional_point Z ion rec (Some c) nd2 ne O.
Proof. exact monotone_in_donor. Qed.
Print Assumptions C09_neutral_fraction_monotone_in_donor.

(* the charge-state densities of both density variants satisfy the pairwise balance themselves, and the
   neutrality variant is the balance fractions times its own total (until now checked by the search only) *)
Theorem C09_densities_satisfy_balance :
  forall Z ion rec cx nd ne n_el, rates_ok Z ion rec cx nd ne ->
  forall z, (z < Z)%nat ->
  from_density_point Z ion rec cx nd ne n_el z * ion z ==
  from_density_point Z ion rec cx nd ne n_el (S z) * (rec (S z) + dcx cx nd ne (S z)).
Proof. exact densities_balance. Qed.
Print Assumptions C09_densities_satisfy_balance.

Theorem C09_neutrality_shape :
  forall Z ion rec cx nd ne sp, rates_ok Z ion rec cx nd ne ->
  let dens := match_neutrality_point Z ion rec cx nd ne sp in
  sumn (S Z) dens == element_ne ne sp / z_mean Z (fractional_point Z ion rec cx nd ne)
  /\ (forall z, dens z == fractional_point Z ion rec cx nd ne z * sumn (S Z) dens)
  /\ (forall z, (z < Z)%nat -> dens z * ion z == dens (S z) * (rec (S z) + dcx cx nd ne (S z))).
Proof. exact neutrality_shape. Qed.
Print Assumptions C09_neutrality_shape.

(* the given species enter only through their total charge: any order of the list gives the same densities *)
Theorem C09_species_order_irrelevant :
  forall Z ion rec cx nd ne sp sp', Permutation sp sp' ->
  forall z, match_neutrality_point Z ion rec cx nd ne sp z == match_neutrality_point Z ion rec cx nd ne sp' z.
Proof. exact species_order_irrelevant. Qed.
Print Assumptions C09_species_order_irrelevant.

(* interpolator entry points (model of the piecewise-linear interpolation in Model/C09_Interp.v): the interpolant
   passes through its knots, ... *)
Theorem C09_interpolant_through_knots :
  forall xs ys i, increasing xs -> (i < length xs)%nat -> (2 <= length xs)%nat ->
  oQeq (lerp xs ys (nth i xs 0)) (Some (nth i ys 0)).
Proof. exact lerp_through_knots. Qed.
Print Assumptions C09_interpolant_through_knots.

(* ... every value it returns is a blend, with a weight in [0,1] that depends on the knots and x only, of the two
   neighbouring knot values, ... *)
Theorem C09_interpolant_is_blend :
  forall xs ys x, increasing xs -> forall v, lerp xs ys x = Some v ->
  exists i w, locate xs x 0 = Some (i, w) /\ 0 <= w /\ w <= 1 /\ v = nth i ys 0 + (nth (S i) ys 0 - nth i ys 0) * w.
Proof. exact lerp_is_blend. Qed.
Print Assumptions C09_interpolant_is_blend.

(* ... and a blend of two balance solutions is again within [0,1] and sums to one; a blend of two density
   profiles sums to the blend of the element densities.  So the 1-D interpolator entry points conserve particles
   between knots as well.  (2-D interpolators, AxisymmetricMapper and the equilibrium flux map stay outside the
   model: that is what remains of C09_entry_points_agree_partial.) *)
Theorem C09_interpolated_fractions_conserve :
  forall n fa fb w, 0 <= w -> w <= 1 ->
  (forall z, (z < n)%nat -> 0 <= fa z /\ fa z <= 1) -> (forall z, (z < n)%nat -> 0 <= fb z /\ fb z <= 1) ->
  sumn n fa == 1 -> sumn n fb == 1 ->
  (forall z, (z < n)%nat -> 0 <= blend fa fb w z /\ blend fa fb w z <= 1) /\ sumn n (blend fa fb w) == 1.
Proof. exact blend_fractions. Qed.
Print Assumptions C09_interpolated_fractions_conserve.

Theorem C09_interpolated_densities_conserve :
  forall n fa fb na nb w, sumn n fa == 1 -> sumn n fb == 1 ->
  sumn n (blend (fun z => fa z * na) (fun z => fb z * nb) w) == na + (nb - na) * w.
Proof. exact blend_densities. Qed.
Print Assumptions C09_interpolated_densities_conserve.

(* ---- second deepening round -------------------------------------------------------------------------------- *)

(* constructive existence to go with uniqueness, on the code's own matrix: the list n_e * closed form solves it, every
   component is strictly positive and at most n_e (so the bounds (0, n_e) handed to lsq_linear are inactive), and any
   other solution coincides with it *)
Theorem C09_matrix_solution_exists_unique :
  forall Z ion rec cx nd ne, rates_ok Z ion rec cx nd ne ->
  let sol := map (fun z => ne * fractional_point Z ion rec cx nd ne z) (seq 0 (S Z)) in
  length sol = S Z
  /\ Forall2 Qeq (matvec (balance_matrix Z ion rec cx nd ne) sol) (balance_rhs Z ne)
  /\ (forall z, (z <= Z)%nat -> 0 < nth z sol 0 /\ nth z sol 0 <= ne)
  /\ (forall xs, length xs = S Z -> Forall2 Qeq (matvec (balance_matrix Z ion rec cx nd ne) xs) (balance_rhs Z ne) ->
      forall z, (z <= Z)%nat -> nth z xs 0 == nth z sol 0).
Proof. exact matrix_solution_exists_unique. Qed.
Print Assumptions C09_matrix_solution_exists_unique.

(* profile level, 1-D interpolator entry points: if every knot holds a balance solution ([knot_ok]: in [0,1], sums to
   one), then at every x where the interpolators are defined all charge states use the same segment and weight and the
   interpolated fractions are in [0,1] and sum to one *)
Theorem C09_interpolated_profile_conserves :
  forall n xs (tbl : nat -> list Q) x,
  increasing xs -> (forall k, (k < length xs)%nat -> knot_ok n tbl k) ->
  forall i w, locate xs x 0 = Some (i, w) ->
  (forall z, lerp xs (tbl z) x = Some (blend (fun c => nth i (tbl c) 0) (fun c => nth (S i) (tbl c) 0) w z))
  /\ (forall z, (z < n)%nat -> 0 <= blend (fun c => nth i (tbl c) 0) (fun c => nth (S i) (tbl c) 0) w z
                            /\ blend (fun c => nth i (tbl c) 0) (fun c => nth (S i) (tbl c) 0) w z <= 1)
  /\ sumn n (blend (fun c => nth i (tbl c) 0) (fun c => nth (S i) (tbl c) 0) w) == 1.
Proof. exact profile_lerp_conserves. Qed.
Print Assumptions C09_interpolated_profile_conserves.

(* equilibrium-mapped entry points (Model/C09_Interp.map3d): for ANY flux function psin, inside test and square root,
   the mapped fractions are the outside value outside the LCFS and, inside, the interpolant at psi_n: in [0,1], summing
   to one.  What remains outside the model is only that EFITEquilibrium / raysect compute these three functions and
   this composition (tied by the correspondence). *)
Theorem C09_equilibrium_mapped_profile_conserves :
  forall n xs (tbl : nat -> list Q) psin inside outside sqrt x y z,
  increasing xs -> (forall k, (k < length xs)%nat -> knot_ok n tbl k) ->
  let r := sqrt (x * x + y * y) in
  (inside r z = false -> forall c, map3d (lerp xs (tbl c)) psin inside outside sqrt x y z = Some outside)
  /\ (inside r z = true -> forall i w, locate xs (psin r z) 0 = Some (i, w) ->
      let g := blend (fun c => nth i (tbl c) 0) (fun c => nth (S i) (tbl c) 0) w in
      (forall c, map3d (lerp xs (tbl c)) psin inside outside sqrt x y z = Some (g c))
      /\ (forall c, (c < n)%nat -> 0 <= g c /\ g c <= 1) /\ sumn n g == 1).
Proof. exact mapped_profile_conserves. Qed.
Print Assumptions C09_equilibrium_mapped_profile_conserves.

(* 2-D interpolator entry points: the bilinear interpolant passes through its knots, is a blend of blends with weights
   in [0,1] that depend on the grids and (x, y) only, and such a blend of four balance solutions conserves *)
Theorem C09_bilinear_through_knots :
  forall xs ys tbl i j,
  increasing xs -> increasing ys -> (i < length xs)%nat -> (j < length ys)%nat ->
  (2 <= length xs)%nat -> (2 <= length ys)%nat ->
  oQeq (bilerp xs ys tbl (nth i xs 0) (nth j ys 0)) (Some (cell tbl i j)).
Proof. exact bilerp_through_knots. Qed.
Print Assumptions C09_bilinear_through_knots.

Theorem C09_bilinear_is_blend :
  forall xs ys tbl x y, increasing xs -> increasing ys -> forall val, bilerp xs ys tbl x y = Some val ->
  exists i j u v, locate xs x 0 = Some (i, u) /\ locate ys y 0 = Some (j, v) /\ 0 <= u <= 1 /\ 0 <= v <= 1 /\
    val = blend (blend (fun _ => cell tbl i j) (fun _ => cell tbl (S i) j) u)
                (blend (fun _ => cell tbl i (S j)) (fun _ => cell tbl (S i) (S j)) u) v O.
Proof. exact bilerp_is_blend. Qed.
Print Assumptions C09_bilinear_is_blend.

Theorem C09_bilinear_fractions_conserve :
  forall n f00 f10 f01 f11 u v, 0 <= u -> u <= 1 -> 0 <= v -> v <= 1 ->
  (forall g, In g [f00; f10; f01; f11] -> (forall z, (z < n)%nat -> 0 <= g z /\ g z <= 1) /\ sumn n g == 1) ->
  let b := blend (blend f00 f10 u) (blend f01 f11 u) v in
  (forall z, (z < n)%nat -> 0 <= b z /\ b z <= 1) /\ sumn n b == 1.
Proof. exact bilinear_fractions. Qed.
Print Assumptions C09_bilinear_fractions_conserve.

(* how the n_e scaling enters (the known finding c09:lsq-illconditioned, exact-arithmetic side): the objective of line
   240 is balance part + normalisation part; under rates * k and densities * m the balance part is multiplied by
   k^2 m^4 but the normalisation part only by m^2, so their relative weight is (k m)^-2: not scale-invariant, although
   the minimiser is (C09_scale_covariant) ... *)
Theorem C09_objective_scaling :
  forall Z ion rec cx nd ne k m x, ~ ne == 0 -> ~ m == 0 ->
  bal_part Z (fun c => k * ion c) (fun c => k * rec c) (option_map (fun f c => k * f c) cx) (m * nd) (m * ne) (fun z => m * x z)
  == (k * k) * (m * m * m * m) * bal_part Z ion rec cx nd ne x
  /\ norm_part Z (m * ne) (fun z => m * x z) == (m * m) * norm_part Z ne x.
Proof. exact objective_scaling. Qed.
Print Assumptions C09_objective_scaling.

(* ... and along the ray s * (n_e f) all balance rows vanish: a wrong total s is seen only through (s-1)^2 n_e^2, while
   the balance rows have entries of size n_e * rate acting on components of size n_e.  In binary64 their rounding floor
   is about (2^-53 n_e^2 rate)^2, which exceeds n_e^2 as soon as n_e * rate > 2^53: the normalisation is then below the
   noise (measured: sum of fractions 4.9e-18 at n_e * rate = 3e16).  The floating-point half of this sentence is NOT
   proved here (no verified model of lsq_linear); the exact half is: *)
Theorem C09_cost_along_ray_partial :
  forall Z ion rec cx nd ne s, rates_ok Z ion rec cx nd ne ->
  bal_part Z ion rec cx nd ne (fun z => s * (ne * fractional_point Z ion rec cx nd ne z)) == 0
  /\ lsq_cost Z ion rec cx nd ne (fun z => s * (ne * fractional_point Z ion rec cx nd ne z)) == (s - 1) * (s - 1) * (ne * ne).
Proof. exact cost_along_ray. Qed.
Print Assumptions C09_cost_along_ray_partial.

(* non-vacuity: carbon-like Z = 6 with all rates 1, n_D = n_e meets the hypotheses *)
Example C09_nonvacuous :
  rates_ok 6 (fun _ => 1) (fun _ => 1) (Some (fun _ => 1)) 1 1
  /\ fractional_point 6 (fun _ => 1) (fun _ => 1) (Some (fun _ => 1)) 1 1 0 == 64 # 127.
Proof. split; [repeat split; intros; try lia; lra | vm_compute; reflexivity]. Qed.
